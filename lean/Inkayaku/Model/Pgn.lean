import Inkayaku.Model.Util
/-!
Model of `inkayaku_pgn::reader::PgnRawParser<R: Read>` (pgn/src/reader.rs), quirks included.

* `Reader`   : the abstract underlying `Read`: remaining input + a fragmentation schedule.
* `Buffered` : the fields of `PgnRawParser` and `ensure_buffer`/`increment_byte` (buffer shrinking included).
* `Prog`     : the parser is written ONCE as a program over the two byte-source primitives the Rust code uses
               (`ensure_buffer` + read `current_buffer[current_byte]`, optionally followed by `increment_byte`).
               `run` interprets a program over any `Source`: (a) `Buffered`, (b) the trivial source `List UInt8`.
* loops take fuel (structural recursion, no `partial`).  Fuel is `input.length + 1`; `Props/C17.lean` proves that
  any larger fuel gives the same answer (`fuel_adequate`), i.e. the fuel never runs out.

Strings: Rust pushes `byte as char`, i.e. the `String` holds the code point U+00XX for the byte XX (so a byte
≥ 0x80 becomes a two-byte UTF-8 sequence inside the `String`).  The model keeps the list of these code points
(all < 256) as `List UInt8`; two Rust strings are equal iff these lists are equal, and the line protocol prints
the code points as bytes.  Error payloads (`position`, `expected`, `actual`) are dropped.
Core Lean only.
-/
namespace Inkayaku.Pgn
open Inkayaku.Util

/-! ## Results -/

/-- `PgnRawParserError` without payloads -/
inductive Err where
  | closed    -- ReadingFromClosedRead
  | consume   -- IllegalConsume
  | symbol    -- IllegalSymbol
deriving DecidableEq, Repr, Inhabited

/-- `PgnRawAnnotatedMove` -/
structure RawMove where
  mv : List UInt8
  annotation : Option (List UInt8)
deriving DecidableEq, Repr, Inhabited

/-- `PgnRaw`; `tags` is the `HashMap` as association list in first-insertion order (see `tagInsert`) -/
structure RawGame where
  tags : List (List UInt8 × List UInt8)
  moves : List RawMove
deriving DecidableEq, Repr, Inhabited

/-- one item yielded by the iterator -/
inductive Item where
  | game (g : RawGame)
  | err (e : Err)
deriving DecidableEq, Repr, Inhabited

/-- `HashMap::insert`: an existing key keeps its place and gets the new value, a new key is appended -/
def tagInsert (k v : List UInt8) : List (List UInt8 × List UInt8) → List (List UInt8 × List UInt8)
  | [] => [(k, v)]
  | (k', v') :: rest => if k' = k then (k', v) :: rest else (k', v') :: tagInsert k v rest

/-! ## The underlying reader -/

/-- abstract `std::io::Read`: the `calls`-th call `read(buf)` returns `min buf.len() (sched calls) rest.length`
bytes.  With `sched k ≥ 1` zero bytes are returned only at end of input (or for an empty `buf`). -/
structure Reader where
  rest : List UInt8
  sched : Nat → Nat
  calls : Nat

/-- `read(&mut buf)` with `buf.len() = n`: the bytes written to the front of `buf` (`take` stops at the end of the
input, so these are `min n (sched calls) rest.length` bytes), and the new reader -/
def Reader.read (r : Reader) (n : Nat) : List UInt8 × Reader :=
  let k := min n (r.sched r.calls)
  (r.rest.take k, { r with rest := r.rest.drop k, calls := r.calls + 1 })

/-! ## The buffered layer (`PgnRawParser` fields) -/

structure Buffered where
  reader : Reader
  chunkSize : Nat
  eofReached : Bool
  buf : List UInt8          -- current_buffer
  cur : Nat                 -- current_byte
  position : Nat            -- u64 in Rust (only used in error payloads)

/-- `with_chunk_size` -/
def Buffered.new (reader : Reader) (chunkSize : Nat) : Buffered :=
  { reader, chunkSize, eofReached := false, buf := List.replicate chunkSize 0, cur := chunkSize, position := 0 }

/-- `ensure_buffer`.  (`bytes_read > chunk_size` panics in Rust; here `bytes_read ≤ buf.len() ≤ chunk_size`,
see `C17.Inv`.) -/
def Buffered.ensure (s : Buffered) : Bool × Buffered :=
  if s.cur ≥ s.buf.length then
    let (data, rd) := s.reader.read s.buf.length
    let n := data.length
    -- the read overwrites the first `n` bytes of the buffer
    let s1 : Buffered := { s with cur := 0, reader := rd, buf := data ++ s.buf.drop n }
    if n = 0 then
      (false, { s1 with buf := [], eofReached := true })          -- Ok(0): clear()
    else if n < s.chunkSize then
      (true, { s1 with buf := s1.buf.take n })                    -- resize(bytes_read, 0): shrinks, never grows
    else
      (true, s1)
  else
    (true, s)

/-- `ensure_buffer()` followed by `current_buffer[current_byte]` (`none` = `ensure_buffer` returned false) -/
def Buffered.peek (s : Buffered) : Option UInt8 × Buffered :=
  match s.ensure with
  | (true, s') => (s'.buf[s'.cur]?, s')
  | (false, s') => (none, s')

/-- `increment_byte` -/
def Buffered.incr (s : Buffered) : Buffered :=
  { s with cur := s.cur + 1, position := s.position + 1 }

/-! ## Byte sources and programs -/

class Source (σ : Type) where
  /-- `ensure_buffer` and, if it succeeded, the current byte -/
  peek : σ → Option UInt8 × σ
  /-- `increment_byte`; the parser calls it only directly after a successful `peek` -/
  incr : σ → σ

instance : Source Buffered := ⟨Buffered.peek, Buffered.incr⟩
instance : Source (List UInt8) := ⟨fun l => (l.head?, l), List.tail⟩

/-- A program over a byte source.  `step inc k`: call `ensure_buffer`; let `b` be the current byte (`none` if
`ensure_buffer` failed); if `b` is a byte and `inc b`, call `increment_byte`; continue with `k b`. -/
inductive Prog (α : Type) where
  | ret : α → Prog α
  | step : (inc : Option UInt8 → Bool) → (k : Option UInt8 → Prog α) → Prog α

def Prog.bind {α β : Type} : Prog α → (α → Prog β) → Prog β
  | .ret a, f => f a
  | .step inc k, f => .step inc (fun b => (k b).bind f)

def run {σ : Type} [Source σ] {α : Type} : Prog α → σ → α × σ
  | .ret a, s => (a, s)
  | .step inc k, s =>
    match Source.peek s with
    | (some b, s') => run (k (some b)) (if inc (some b) then Source.incr s' else s')
    | (none, s') => run (k none) s'

/-- programs returning `Result<α, PgnRawParserError>` -/
abbrev M (α : Type) : Type := Prog (Except Err α)

def M.pure {α : Type} (a : α) : M α := Prog.ret (.ok a)
def M.throw {α : Type} (e : Err) : M α := Prog.ret (.error e)
/-- `let a = p?; f(a)` -/
def M.bind {α β : Type} (p : M α) (f : α → M β) : M β :=
  Prog.bind p fun
    | .ok a => f a
    | .error e => Prog.ret (.error e)
/-- run `p` without propagating its error (`let value = self.read_until(..);`) -/
def M.attempt {α : Type} (p : M α) : M (Except Err α) := Prog.bind p fun r => Prog.ret (.ok r)

/-- `p >>=ₑ fun a => q` is `let a = p?; q`;  `p >>ₑ q` is `p?; q` (both associate to the right) -/
infixr:55 " >>=ₑ " => M.bind
notation:55 p:56 " >>ₑ " q:55 => M.bind p (fun _ => q)

/-! ## Byte level (`peek_byte`, `pop_byte`, `skip_byte`, `consume`) -/

def peekByte : M UInt8 :=
  Prog.step (fun _ => false) fun
    | some b => M.pure b
    | none => M.throw .closed

def popByte : M UInt8 :=
  Prog.step (fun _ => true) fun
    | some b => M.pure b
    | none => M.throw .closed

def skipByte : M Unit :=
  Prog.step (fun _ => true) fun
    | some _ => M.pure ()
    | none => M.throw .closed

def consume (expected : UInt8) : M Unit :=
  popByte >>=ₑ fun actual =>
  if actual = expected then M.pure () else M.throw .consume

def NL : UInt8 := 10   -- b'\n'
def SP : UInt8 := 32   -- b' '

/-! ## Loops.  Every loop returns `Err(closed)` (or what it has) when the fuel is used up; this never happens
(`C17.fuel_adequate`). -/

/-- `while self.peek_byte()? == b'\n' { self.skip_byte()?; }` -/
def skipBlankLines : Nat → M Unit
  | 0 => M.throw .closed
  | n + 1 =>
    peekByte >>=ₑ fun b =>
    if b = NL then skipByte >>ₑ skipBlankLines n else M.pure ()

/-- `while self.peek_byte()? == b'\n' || self.peek_byte()? == b' ' { self.skip_byte()?; }` (two peeks) -/
def skipBlankLinesAndSpaces : Nat → M Unit
  | 0 => M.throw .closed
  | n + 1 =>
    peekByte >>=ₑ fun b =>
    if b = NL then skipByte >>ₑ skipBlankLinesAndSpaces n
    else
      peekByte >>=ₑ fun b2 =>
      if b2 = SP then skipByte >>ₑ skipBlankLinesAndSpaces n else M.pure ()

/-- `while self.peek_byte()? == b' ' { self.skip_byte()?; }` -/
def skipSpaces : Nat → M Unit
  | 0 => M.throw .closed
  | n + 1 =>
    peekByte >>=ₑ fun b =>
    if b = SP then skipByte >>ₑ skipSpaces n else M.pure ()

/-- `while self.pop_byte()? != b'\n' {}` -/
def skipToNextLine : Nat → M Unit
  | 0 => M.throw .closed
  | n + 1 =>
    popByte >>=ₑ fun b =>
    if b ≠ NL then skipToNextLine n else M.pure ()

/-- the `while cur_byte != byte` loop of `read_until` -/
def readUntilLoop (byte : UInt8) : Nat → List UInt8 → UInt8 → M (List UInt8)
  | 0, _, _ => M.throw .closed
  | n + 1, result, curByte =>
    if curByte ≠ byte then
      skipByte >>ₑ
      peekByte >>=ₑ fun next =>
      readUntilLoop byte n (result ++ [curByte]) next
    else M.pure result

def readUntil (fuel : Nat) (byte : UInt8) : M (List UInt8) :=
  peekByte >>=ₑ fun curByte =>
  readUntilLoop byte fuel [] curByte

/-- `read_token`: `while self.ensure_buffer() { byte = buf[cur]; if blank break; push; increment_byte }` -/
def readTokenLoop : Nat → List UInt8 → Prog (List UInt8)
  | 0, result => .ret result
  | n + 1, result =>
    Prog.step
      (fun b => match b with
        | some c => !(c = SP || c = NL)
        | none => false)
      (fun b => match b with
        | some c => if c = SP || c = NL then .ret result else readTokenLoop n (result ++ [c])
        | none => .ret result)

def readToken (fuel : Nat) : M (List UInt8) :=
  Prog.bind (readTokenLoop fuel []) fun r => M.pure r

/-! ## Tag pairs -/

def readTagName (fuel : Nat) : M (List UInt8) := readUntil fuel SP

/-- the closing quote is consumed before the error of `read_until` is propagated -/
def readTagValue (fuel : Nat) : M (List UInt8) :=
  consume 34 >>ₑ
  M.attempt (readUntil fuel 34) >>=ₑ fun value =>
  consume 34 >>ₑ
  Prog.ret value

def readTagPairLine (fuel : Nat) : M (List UInt8 × List UInt8) :=
  consume 91 >>ₑ
  readTagName fuel >>=ₑ fun name =>
  consume SP >>ₑ
  readTagValue fuel >>=ₑ fun value =>
  consume 93 >>ₑ
  consume NL >>ₑ
  M.pure (name, value)

/-- the `loop` of `read_tag_pairs`; `k` counts iterations -/
def readTagPairsLoop (fuel : Nat) : Nat → List (List UInt8 × List UInt8) → M (List (List UInt8 × List UInt8))
  | 0, _ => M.throw .closed
  | k + 1, result =>
    peekByte >>=ₑ fun b =>
    if b = 91 then
      readTagPairLine fuel >>=ₑ fun kv =>
      readTagPairsLoop fuel k (tagInsert kv.1 kv.2 result)
    else if b = NL then M.pure result
    else M.throw .symbol

def readTagPairs (fuel : Nat) : M (List (List UInt8 × List UInt8)) := readTagPairsLoop fuel fuel []

/-! ## Moves -/

def readBracedAnnotation (fuel : Nat) : M (List UInt8) :=
  consume 123 >>ₑ
  M.attempt (readUntil fuel 125) >>=ₑ fun result =>
  consume 125 >>ₑ
  Prog.ret result

def readSemicolonAnnotation (fuel : Nat) : M (List UInt8) :=
  consume 59 >>ₑ
  M.attempt (readUntil fuel NL) >>=ₑ fun result =>
  consume NL >>ₑ
  Prog.ret result

/-- `"*" | "1-0" | "0-1" | "1/2-1/2"` -/
def isResultToken (t : List UInt8) : Bool :=
  t = [42] || t = [49, 45, 48] || t = [48, 45, 49] || t = [49, 47, 50, 45, 49, 47, 50]

def readMove (fuel : Nat) : M (Option RawMove) :=
  skipBlankLinesAndSpaces fuel >>ₑ
  readToken fuel >>=ₑ fun token =>
  if isResultToken token then M.pure none
  else
    (if token.contains 46 then skipSpaces fuel >>ₑ readToken fuel else M.pure token) >>=ₑ fun mv =>
    skipSpaces fuel >>ₑ
    peekByte >>=ₑ fun byte =>
    (if byte = 123 then readBracedAnnotation fuel >>=ₑ fun a => M.pure (some a)
     else if byte = 59 then readSemicolonAnnotation fuel >>=ₑ fun a => M.pure (some a)
     else M.pure none) >>=ₑ fun annotation =>
    M.pure (some ⟨mv, annotation⟩)

/-- `while let Some(mv) = self.read_move()? { result.push(mv); }` -/
def readMovesLoop (fuel : Nat) : Nat → List RawMove → M (List RawMove)
  | 0, _ => M.throw .closed
  | k + 1, result =>
    readMove fuel >>=ₑ fun m =>
    match m with
    | some mv => readMovesLoop fuel k (result ++ [mv])
    | none => M.pure result

def readMoves (fuel : Nat) : M (List RawMove) :=
  readMovesLoop fuel fuel [] >>=ₑ fun result =>
  M.attempt (skipToNextLine fuel) >>=ₑ fun r =>
  match r with
  | .ok () => M.pure result
  | .error .closed => M.pure result
  | .error e => M.throw e

def readPgn (fuel : Nat) : M RawGame :=
  readTagPairs fuel >>=ₑ fun tagPairs =>
  skipBlankLines fuel >>ₑ
  readMoves fuel >>=ₑ fun moves =>
  M.pure ⟨tagPairs, moves⟩

/-- `Iterator::next` -/
def next (fuel : Nat) : Prog (Option (Except Err RawGame)) :=
  Prog.bind (skipBlankLinesAndSpaces fuel) fun
    | .ok () => Prog.bind (readPgn fuel) fun r => .ret (some r)
    | .error .closed => .ret none
    | .error e => .ret (some (.error e))

/-- `for item in parser { items.push(item) }`, stopping after the first `Some(Err _)` (kept as last item) -/
def readAllLoop (fuel : Nat) : Nat → List Item → Prog (List Item)
  | 0, items => .ret items
  | k + 1, items =>
    Prog.bind (next fuel) fun
      | none => .ret items
      | some (.error e) => .ret (items ++ [Item.err e])
      | some (.ok g) => readAllLoop fuel k (items ++ [Item.game g])

def readAllProg (fuel : Nat) : Prog (List Item) := readAllLoop fuel fuel []

/-- all items over the plain byte list -/
def readAll (input : List UInt8) : List Item :=
  (run (readAllProg (input.length + 1)) input).1

/-- all items over `PgnRawParser::with_chunk_size(reader, chunk)` where `reader` fragments by `sched` -/
def readAllBuffered (chunk : Nat) (sched : Nat → Nat) (input : List UInt8) : List Item :=
  (run (readAllProg (input.length + 1)) (Buffered.new ⟨input, sched, 0⟩ chunk)).1

/-! ## Line protocol: `pgn <chunk> <schedule> x:<hex>` -/

/-- hex of the code points of a Rust `String` built by `push(byte as char)`, i.e. of the raw bytes read
(the harness maps every `char` back with `c as u32 as u8`) -/
def hexStr (cs : List UInt8) : String := hexEncodeBytes cs

def parseDec (s : String) : Option Nat :=
  let cs := s.toList
  if cs.isEmpty || !cs.all (fun c => '0' ≤ c && c ≤ '9') then none
  else some (cs.foldl (fun acc c => 10 * acc + (c.toNat - 48)) 0)

def parseDecList : List String → Option (List Nat)
  | [] => some []
  | s :: rest =>
    match parseDec s, parseDecList rest with
    | some n, some ns => if n ≥ 1 then some (n :: ns) else none
    | _, _ => none

/-- `-` : every read fills the buffer; `a,b,c` : used cyclically -/
def parseSchedule (chunk : Nat) (s : String) : Option (Nat → Nat) :=
  if s = "-" then some (fun _ => chunk)
  else match parseDecList (s.splitOn ",") with
    | some [] => none
    | some (n :: ns) => some (fun k => (n :: ns).getD (k % (n :: ns).length) 1)
    | none => none

def renderErr : Err → String
  | .closed => "E:closed"
  | .consume => "E:consume"
  | .symbol => "E:symbol"

def renderItem : Item → String
  | .err e => renderErr e
  | .game g =>
    let tags := g.tags.mergeSort (fun a b => decide (a.1 ≤ b.1))
    let ts := tags.map fun kv => " t:" ++ hexStr kv.1 ++ "=" ++ hexStr kv.2
    let ms := g.moves.map fun m =>
      match m.annotation with
      | none => " m:" ++ hexStr m.mv
      | some a => " m:" ++ hexStr m.mv ++ "/" ++ hexStr a
    "G" ++ String.join ts ++ String.join ms

def renderItems (items : List Item) : String :=
  if items.isEmpty then "-" else " | ".intercalate (items.map renderItem)

def handlePgn (args : List String) : String :=
  match args with
  | [chunkS, schedS, tok] =>
    match parseDec chunkS, tokenBytes tok with
    | some chunk, some input =>
      if chunk = 0 then "bad-request"
      else match parseSchedule chunk schedS with
        | some sched => renderItems (readAllBuffered chunk sched input)
        | none => "bad-request"
    | _, _ => "bad-request"
  | _ => "bad-request"

end Inkayaku.Pgn
