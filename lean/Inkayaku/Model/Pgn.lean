import Inkayaku.Model.Util
/-!
Model of `inkayaku_pgn::reader::PgnRawParser<R: Read>` (pgn/src/reader.rs), quirks included.

* `Reader`   : the abstract underlying `Read`: remaining input + a fragmentation schedule.
* `Buffered` : the fields of `PgnRawParser` and `ensure_buffer`/`increment_byte` (buffer shrinking included).
* `Prog`     : the parser is written ONCE as a program over the two byte-source primitives the Rust code uses
               (`ensure_buffer` + read `current_buffer[current_byte]`, optionally followed by `increment_byte`).
               `run` interprets a program over any `Source`: (a) `Buffered`, (b) the trivial source `List UInt8`.
* loops take fuel (structural recursion, no `partial`).  Fuel is `input.length + 1`; `Props/C17.lean` proves that
  any larger fuel gives the same answer (`fuel_adequate`), i.e. the fuel never runs out.

Strings: Rust pushes `byte as char`, i.e. the `String` holds the code point U+00XX for the byte XX.  The model
keeps the list of these code points (all < 256) as `List UInt8`; `latin1Utf8` gives the UTF-8 bytes of the Rust
`String` (identical for ASCII input).  Error payloads (`position`, `expected`, `actual`) are dropped.
Core Lean only.
-/
namespace Inkayaku.Pgn
open Inkayaku.Util

/-! ## Results -/

/-- `PgnRawParserError` without payloads -/
inductive Err where
  | closed    -- ReadingFromClosedRead
  | consume   -- IllegalConsume
  | symbol    -- IllegalSymbol
deriving DecidableEq, Repr, Inhabited

/-- `PgnRawAnnotatedMove` -/
structure RawMove where
  mv : List UInt8
  annotation : Option (List UInt8)
deriving DecidableEq, Repr, Inhabited

/-- `PgnRaw`; `tags` is the `HashMap` as association list in first-insertion order (see `tagInsert`) -/
structure RawGame where
  tags : List (List UInt8 × List UInt8)
  moves : List RawMove
deriving DecidableEq, Repr, Inhabited

/-- one item yielded by the iterator -/
inductive Item where
  | game (g : RawGame)
  | err (e : Err)
deriving DecidableEq, Repr, Inhabited

/-- `HashMap::insert`: an existing key keeps its place and gets the new value, a new key is appended -/
def tagInsert (k v : List UInt8) : List (List UInt8 × List UInt8) → List (List UInt8 × List UInt8)
  | [] => [(k, v)]
  | (k', v') :: rest => if k' = k then (k', v) :: rest else (k', v') :: tagInsert k v rest

/-! ## The underlying reader -/

/-- abstract `std::io::Read`: the `calls`-th call `read(buf)` returns `min buf.len() (sched calls) rest.length`
bytes.  With `sched k ≥ 1` zero bytes are returned only at end of input (or for an empty `buf`). -/
structure Reader where
  rest : List UInt8
  sched : Nat → Nat
  calls : Nat

/-- `read(&mut buf)` with `buf.len() = n`: the bytes written to the front of `buf`, and the new reader -/
def Reader.read (r : Reader) (n : Nat) : List UInt8 × Reader :=
  let k := min n (min (r.sched r.calls) r.rest.length)
  (r.rest.take k, { r with rest := r.rest.drop k, calls := r.calls + 1 })

/-! ## The buffered layer (`PgnRawParser` fields) -/

structure Buffered where
  reader : Reader
  chunkSize : Nat
  eofReached : Bool
  buf : List UInt8          -- current_buffer
  cur : Nat                 -- current_byte
  position : Nat            -- u64 in Rust (only used in error payloads)

/-- `with_chunk_size` -/
def Buffered.new (reader : Reader) (chunkSize : Nat) : Buffered :=
  { reader, chunkSize, eofReached := false, buf := List.replicate chunkSize 0, cur := chunkSize, position := 0 }

/-- `ensure_buffer`.  (`bytes_read > chunk_size` panics in Rust; here `bytes_read ≤ buf.len() ≤ chunk_size`,
see `C17.Inv`.) -/
def Buffered.ensure (s : Buffered) : Bool × Buffered :=
  if s.cur ≥ s.buf.length then
    let (data, rd) := s.reader.read s.buf.length
    let n := data.length
    -- the read overwrites the first `n` bytes of the buffer
    let s1 : Buffered := { s with cur := 0, reader := rd, buf := data ++ s.buf.drop n }
    if n = 0 then
      (false, { s1 with buf := [], eofReached := true })          -- Ok(0): clear()
    else if n < s.chunkSize then
      (true, { s1 with buf := s1.buf.take n })                    -- resize(bytes_read, 0): shrinks, never grows
    else
      (true, s1)
  else
    (true, s)

/-- `ensure_buffer()` followed by `current_buffer[current_byte]` (`none` = `ensure_buffer` returned false) -/
def Buffered.peek (s : Buffered) : Option UInt8 × Buffered :=
  match s.ensure with
  | (true, s') => (s'.buf[s'.cur]?, s')
  | (false, s') => (none, s')

/-- `increment_byte` -/
def Buffered.incr (s : Buffered) : Buffered :=
  { s with cur := s.cur + 1, position := s.position + 1 }

/-! ## Byte sources and programs -/

class Source (σ : Type) where
  /-- `ensure_buffer` and, if it succeeded, the current byte -/
  peek : σ → Option UInt8 × σ
  /-- `increment_byte`; the parser calls it only directly after a successful `peek` -/
  incr : σ → σ

instance : Source Buffered := ⟨Buffered.peek, Buffered.incr⟩
instance : Source (List UInt8) := ⟨fun l => (l.head?, l), List.tail⟩

/-- A program over a byte source.  `step inc k`: call `ensure_buffer`; let `b` be the current byte (`none` if
`ensure_buffer` failed); if `b` is a byte and `inc b`, call `increment_byte`; continue with `k b`. -/
inductive Prog (α : Type) where
  | ret : α → Prog α
  | step : (inc : Option UInt8 → Bool) → (k : Option UInt8 → Prog α) → Prog α

def Prog.bind {α β : Type} : Prog α → (α → Prog β) → Prog β
  | .ret a, f => f a
  | .step inc k, f => .step inc (fun b => (k b).bind f)

def run {σ : Type} [Source σ] {α : Type} : Prog α → σ → α × σ
  | .ret a, s => (a, s)
  | .step inc k, s =>
    match Source.peek s with
    | (some b, s') => run (k (some b)) (if inc (some b) then Source.incr s' else s')
    | (none, s') => run (k none) s'

/-- programs returning `Result<α, PgnRawParserError>`; `>>=` is the `?` operator -/
def M (α : Type) : Type := Prog (Except Err α)

def M.pure {α : Type} (a : α) : M α := Prog.ret (.ok a)
def M.throw {α : Type} (e : Err) : M α := Prog.ret (.error e)
def M.bind {α β : Type} (p : M α) (f : α → M β) : M β :=
  Prog.bind p fun
    | .ok a => f a
    | .error e => Prog.ret (.error e)
/-- run `p` without propagating its error (`let value = self.read_until(..);`) -/
def M.attempt {α : Type} (p : M α) : M (Except Err α) := Prog.bind p fun r => Prog.ret (.ok r)

instance : Monad M where
  pure := M.pure
  bind := M.bind

/-! ## Byte level (`peek_byte`, `pop_byte`, `skip_byte`, `consume`) -/

def peekByte : M UInt8 :=
  Prog.step (fun _ => false) fun
    | some b => M.pure b
    | none => M.throw .closed

def popByte : M UInt8 :=
  Prog.step (fun _ => true) fun
    | some b => M.pure b
    | none => M.throw .closed

def skipByte : M Unit :=
  Prog.step (fun _ => true) fun
    | some _ => M.pure ()
    | none => M.throw .closed

def consume (expected : UInt8) : M Unit := do
  let actual ← popByte
  if actual = expected then pure () else M.throw .consume

def NL : UInt8 := 10   -- b'\n'
def SP : UInt8 := 32   -- b' '

/-! ## Loops.  Every loop returns `Err(closed)` (or what it has) when the fuel is used up; this never happens. -/

/-- `while self.peek_byte()? == b'\n' { self.skip_byte()?; }` -/
def skipBlankLines : Nat → M Unit
  | 0 => M.throw .closed
  | n + 1 => do
    let b ← peekByte
    if b = NL then do skipByte; skipBlankLines n else pure ()

/-- `while self.peek_byte()? == b'\n' || self.peek_byte()? == b' ' { self.skip_byte()?; }` (two peeks) -/
def skipBlankLinesAndSpaces : Nat → M Unit
  | 0 => M.throw .closed
  | n + 1 => do
    let b ← peekByte
    if b = NL then do skipByte; skipBlankLinesAndSpaces n
    else do
      let b2 ← peekByte
      if b2 = SP then do skipByte; skipBlankLinesAndSpaces n else pure ()

/-- `while self.peek_byte()? == b' ' { self.skip_byte()?; }` -/
def skipSpaces : Nat → M Unit
  | 0 => M.throw .closed
  | n + 1 => do
    let b ← peekByte
    if b = SP then do skipByte; skipSpaces n else pure ()

/-- `while self.pop_byte()? != b'\n' {}` -/
def skipToNextLine : Nat → M Unit
  | 0 => M.throw .closed
  | n + 1 => do
    let b ← popByte
    if b ≠ NL then skipToNextLine n else pure ()

/-- the `while cur_byte != byte` loop of `read_until` -/
def readUntilLoop (byte : UInt8) : Nat → List UInt8 → UInt8 → M (List UInt8)
  | 0, _, _ => M.throw .closed
  | n + 1, result, curByte =>
    if curByte ≠ byte then do
      skipByte
      let next ← peekByte
      readUntilLoop byte n (result ++ [curByte]) next
    else pure result

def readUntil (fuel : Nat) (byte : UInt8) : M (List UInt8) := do
  let curByte ← peekByte
  readUntilLoop byte fuel [] curByte

/-- `read_token`: `while self.ensure_buffer() { byte = buf[cur]; if blank break; push; increment_byte }` -/
def readTokenLoop : Nat → List UInt8 → Prog (List UInt8)
  | 0, result => .ret result
  | n + 1, result =>
    Prog.step
      (fun b => match b with
        | some c => !(c = SP || c = NL)
        | none => false)
      (fun b => match b with
        | some c => if c = SP || c = NL then .ret result else readTokenLoop n (result ++ [c])
        | none => .ret result)

def readToken (fuel : Nat) : M (List UInt8) :=
  Prog.bind (readTokenLoop fuel []) fun r => M.pure r

/-! ## Tag pairs -/

def readTagName (fuel : Nat) : M (List UInt8) := readUntil fuel SP

/-- the closing quote is consumed before the error of `read_until` is propagated -/
def readTagValue (fuel : Nat) : M (List UInt8) := do
  consume 34
  let value ← M.attempt (readUntil fuel 34)
  consume 34
  match value with
  | .ok v => pure v
  | .error e => M.throw e

def readTagPairLine (fuel : Nat) : M (List UInt8 × List UInt8) := do
  consume 91
  let name ← readTagName fuel
  consume SP
  let value ← readTagValue fuel
  consume 93
  consume NL
  pure (name, value)

/-- the `loop` of `read_tag_pairs`; `k` counts iterations -/
def readTagPairsLoop (fuel : Nat) : Nat → List (List UInt8 × List UInt8) → M (List (List UInt8 × List UInt8))
  | 0, _ => M.throw .closed
  | k + 1, result => do
    let b ← peekByte
    if b = 91 then do
      let (key, v) ← readTagPairLine fuel
      readTagPairsLoop fuel k (tagInsert key v result)
    else if b = NL then pure result
    else M.throw .symbol

def readTagPairs (fuel : Nat) : M (List (List UInt8 × List UInt8)) := readTagPairsLoop fuel fuel []

/-! ## Moves -/

def readBracedAnnotation (fuel : Nat) : M (List UInt8) := do
  consume 123
  let result ← M.attempt (readUntil fuel 125)
  consume 125
  match result with
  | .ok v => pure v
  | .error e => M.throw e

def readSemicolonAnnotation (fuel : Nat) : M (List UInt8) := do
  consume 59
  let result ← M.attempt (readUntil fuel NL)
  consume NL
  match result with
  | .ok v => pure v
  | .error e => M.throw e

/-- `"*" | "1-0" | "0-1" | "1/2-1/2"` -/
def isResultToken (t : List UInt8) : Bool :=
  t = [42] || t = [49, 45, 48] || t = [48, 45, 49] || t = [49, 47, 50, 45, 49, 47, 50]

def readMove (fuel : Nat) : M (Option RawMove) := do
  skipBlankLinesAndSpaces fuel
  let token ← readToken fuel
  if isResultToken token then pure none
  else do
    let mv ← (if token.contains 46 then do skipSpaces fuel; readToken fuel else pure token)
    skipSpaces fuel
    let byte ← peekByte
    let annotation ← (
      if byte = 123 then do let a ← readBracedAnnotation fuel; pure (some a)
      else if byte = 59 then do let a ← readSemicolonAnnotation fuel; pure (some a)
      else pure none)
    pure (some ⟨mv, annotation⟩)

/-- `while let Some(mv) = self.read_move()? { result.push(mv); }` -/
def readMovesLoop (fuel : Nat) : Nat → List RawMove → M (List RawMove)
  | 0, _ => M.throw .closed
  | k + 1, result => do
    let m ← readMove fuel
    match m with
    | some mv => readMovesLoop fuel k (result ++ [mv])
    | none => pure result

def readMoves (fuel : Nat) : M (List RawMove) := do
  let result ← readMovesLoop fuel fuel []
  let r ← M.attempt (skipToNextLine fuel)
  match r with
  | .ok () => pure result
  | .error .closed => pure result
  | .error e => M.throw e

def readPgn (fuel : Nat) : M RawGame := do
  let tagPairs ← readTagPairs fuel
  skipBlankLines fuel
  let moves ← readMoves fuel
  pure ⟨tagPairs, moves⟩

/-- `Iterator::next` -/
def next (fuel : Nat) : Prog (Option (Except Err RawGame)) :=
  Prog.bind (skipBlankLinesAndSpaces fuel) fun
    | .ok () => Prog.bind (readPgn fuel) fun r => .ret (some r)
    | .error .closed => .ret none
    | .error e => .ret (some (.error e))

/-- iterate `next` until `None` or the first `Some(Err _)` (kept as last item) -/
def readAllLoop (fuel : Nat) : Nat → Prog (List Item)
  | 0 => .ret []
  | k + 1 =>
    Prog.bind (next fuel) fun
      | none => .ret []
      | some (.error e) => .ret [Item.err e]
      | some (.ok g) => Prog.bind (readAllLoop fuel k) fun items => .ret (Item.game g :: items)

def readAllProg (fuel : Nat) : Prog (List Item) := readAllLoop fuel fuel

/-- all items over the plain byte list -/
def readAll (input : List UInt8) : List Item :=
  (run (readAllProg (input.length + 1)) input).1

/-- all items over `PgnRawParser::with_chunk_size(reader, chunk)` where `reader` fragments by `sched` -/
def readAllBuffered (chunk : Nat) (sched : Nat → Nat) (input : List UInt8) : List Item :=
  (run (readAllProg (input.length + 1)) (Buffered.new ⟨input, sched, 0⟩ chunk)).1

/-! ## Line protocol: `pgn <chunk> <schedule> x:<hex>` -/

/-- UTF-8 bytes of the Rust `String` built by `push(byte as char)` -/
def latin1Utf8 (cs : List UInt8) : List UInt8 :=
  cs.flatMap fun b => if b < 128 then [b] else [(192 : UInt8) ||| (b >>> 6), (128 : UInt8) ||| (b &&& 63)]

def hexStr (cs : List UInt8) : String := hexEncodeBytes (latin1Utf8 cs)

def parseDec (s : String) : Option Nat :=
  let cs := s.toList
  if cs.isEmpty || !cs.all (fun c => '0' ≤ c && c ≤ '9') then none
  else some (cs.foldl (fun acc c => 10 * acc + (c.toNat - 48)) 0)

def parseDecList : List String → Option (List Nat)
  | [] => some []
  | s :: rest =>
    match parseDec s, parseDecList rest with
    | some n, some ns => if n ≥ 1 then some (n :: ns) else none
    | _, _ => none

/-- `-` : every read fills the buffer; `a,b,c` : used cyclically -/
def parseSchedule (chunk : Nat) (s : String) : Option (Nat → Nat) :=
  if s = "-" then some (fun _ => chunk)
  else match parseDecList (s.splitOn ",") with
    | some [] => none
    | some (n :: ns) => some (fun k => (n :: ns).getD (k % (n :: ns).length) 1)
    | none => none

def renderErr : Err → String
  | .closed => "E:closed"
  | .consume => "E:consume"
  | .symbol => "E:symbol"

def renderItem : Item → String
  | .err e => renderErr e
  | .game g =>
    let tags := (g.tags.map fun kv => (latin1Utf8 kv.1, latin1Utf8 kv.2)).mergeSort (fun a b => decide (a.1 ≤ b.1))
    let ts := tags.map fun kv => " t:" ++ hexEncodeBytes kv.1 ++ "=" ++ hexEncodeBytes kv.2
    let ms := g.moves.map fun m =>
      match m.annotation with
      | none => " m:" ++ hexStr m.mv
      | some a => " m:" ++ hexStr m.mv ++ "/" ++ hexStr a
    "G" ++ String.join ts ++ String.join ms

def renderItems (items : List Item) : String :=
  if items.isEmpty then "-" else " | ".intercalate (items.map renderItem)

def handlePgn (args : List String) : String :=
  match args with
  | [chunkS, schedS, tok] =>
    match parseDec chunkS, tokenBytes tok with
    | some chunk, some input =>
      if chunk = 0 then "bad-request"
      else match parseSchedule chunk schedS with
        | some sched => renderItems (readAllBuffered chunk sched input)
        | none => "bad-request"
    | _, _ => "bad-request"
  | _ => "bad-request"

end Inkayaku.Pgn
