import Inkayaku.Model.Search
import Inkayaku.Model.Console
import Inkayaku.Model.Uci
/-!
What the ENGINE hands to the printer (`ConsoleUciTx`, `Inkayaku.Console`): the bridge between the search model
(`Inkayaku.Search`, whose `Out` stream carries depth / time / nodes / score / pv and best / ponder move) and the
printer model.  Core Lean only.

Sources
* `engine_core/src/engine.rs`, `impl UciEngine for Engine::accept` (lines 50-95): the command dispatcher;
* `engine_core/src/engine/search.rs`: `best_move` (iteration info, lines 276-283), `search_negamax` (periodic info, lines
  329-332), `generate_info` (542-549), `generate_debug_string[_if_enabled]` (551-564), `go` (`best_move` message, 158-159);
* `engine_core/src/lib.rs:10` `move_into_uci_move`, `board/src/board.rs:148` `impl From<Move> for MoveStructs`;
* `engine_app/src/main.rs`: stdout = `print_ln` = `println!("{}", line)`, one call per `TxMsg`; stderr = everything else.

## which `Info` fields the search fills in

| field                   | iteration info (`best_move`)                         | periodic info (`search_negamax`, flag poll) |
|-------------------------|------------------------------------------------------|---------------------------------------------|
| `depth`                 | `Some(if aborted {depth-1} else {depth})`            | `None`                                      |
| `time`                  | `Some(elapsed)` (printed `as_millis()`)              | `Some(elapsed)`                             |
| `nodes`                 | `Some(total_nodes())`                                | `Some(total_nodes())`                       |
| `principal_variation`   | `uci_pv.clone()` (`None` until an iteration completes)| `None`                                      |
| `score`                 | `score` (ditto)                                      | `None`                                      |
| `hash_full`             | `Some((load_factor() * 1000.0) as u32)`              | same                                        |
| `nps`                   | `Some(nps_with_duration(elapsed))`                   | same                                        |
| `string`                | `Some(debug string)` iff `options.debug`             | `None`                                      |
| the other nine fields   | `None` (`..Info::EMPTY`)                             | `None`                                      |

`Search.Out.info d t n sc pv` carries the first five; a periodic info is the one with `d = none`.  The remaining three do
not depend on the search result but on the runtime (wall clock, floating point, table occupancy, the debug switch): they
are the record `Aux`, one value per message, over which the theorems quantify universally.  How the engine derives them
is stated by `npsOf`, `hashfullOf`, `DebugRates` (reference definitions, used by the examples only).

## quirks kept
* `SetOption` / `SetOptionValue` are `todo!()`: the main thread panics (message on stderr), nothing reaches stdout; the
  model answers `[]`.
* `Register {..}` answers `registration checking` and `registration ok` at once; `RegisterLater` answers nothing.
* `go`, `stop`, `ponderhit`, `quit`, `position`, `ucinewgame`, `debug` write nothing in the dispatcher: they are sent to
  the search thread, whose only stdout output is the `Out` stream of `goCmd` (`set_position_from` reports an illegal move
  with `eprintln!`, `check_messages` reports the empty channel with `uci_tx.debug` = stderr).
-/
namespace Inkayaku.EngineOut
open Inkayaku.Board Inkayaku.Search Inkayaku.Console
open Inkayaku.Uci (UciMove Piece UciCommand)

/-! ## moves and scores -/

/-- `Piece::from_index` (`core/src/constants/piece.rs:55`): 1..6, everything else (0 = `NO_PIECE`, 7) is `None` -/
def pieceOfIndex : Nat → Option Piece
  | 1 => some .pawn | 2 => some .knight | 3 => some .bishop | 4 => some .rook | 5 => some .queen | 6 => some .king
  | _ => none

/-- `move_into_uci_move`: source and target are the 6-bit fields of the packed move word
(`Square::from_index_unchecked(i) = VALUES[i]`, in range because the fields are 6 bits wide), the promotion is the 3-bit
field through `Piece::from_index` -/
def uciOf (m : Move) : UciMove := ⟨m.f.source, m.f.target, pieceOfIndex m.f.promotion⟩

/-- `Heuristic::score_from_value` only builds `Score::Mate` and `Score::Centipawn` (never `CentipawnBounded`) -/
def scoreOf : Eval.Score → Console.Score
  | .cp v => .cp v
  | .mate n => .mate n

/-! ## the runtime dependent fields -/

/-- the six `f64` values of `generate_debug_string`, each as its `Display` text -/
structure DebugRates where
  tphitrate : List Char
  nrate : List Char
  qrate : List Char
  avgqdepth : List Char
  qstartedrate : List Char
  qtphitrate : List Char
deriving DecidableEq, Repr, Inhabited

/-- a character `impl Display for f64` can print: digits, `.`, `-`, and the letters of `NaN` and `inf`
(no exponent, no sign other than `-`, no white space) -/
def isF64Char (c : Char) : Bool := (48 ≤ c.toNat && c.toNat ≤ 57) || "-.NaNinf".toList.contains c

/-- `format!("tphitrate {} nrate {} qrate {} avgqdepth {} qstartedrate {} qtphitrate {}", …)` -/
def debugText (r : DebugRates) : List Char :=
  "tphitrate ".toList ++ (r.tphitrate ++ (" nrate ".toList ++ (r.nrate ++ (" qrate ".toList ++ (r.qrate ++
  (" avgqdepth ".toList ++ (r.avgqdepth ++ (" qstartedrate ".toList ++ (r.qstartedrate ++
  (" qtphitrate ".toList ++ r.qtphitrate))))))))))

/-- what `generate_info` and `generate_debug_string_if_enabled` add to one message -/
structure Aux where
  /-- `(transposition_table.load_factor() * 1000.0) as u32` -/
  hashfull : Nat := 0
  /-- `metrics.last.nps_with_duration(&elapsed)` (a `u64`) -/
  nps : Nat := 0
  /-- `Some` iff `options.debug` (start-up feature `debug`, or the last `debug on|off` the search thread has seen) -/
  debug : Option DebugRates := none
deriving DecidableEq, Repr, Inhabited

/-- `nps_with_duration`: `((total_nodes as f64 / duration.as_nanos() as f64) * 1_000_000_000.0) as u64`.
Lean's `Float` is IEEE binary64 and `Float.toUInt64` saturates like Rust's `as u64` (NaN ↦ 0, +∞ ↦ 2^64-1), so this is
the same function: `0/0 = NaN ↦ 0`, `n/0 = +∞ ↦ 18446744073709551615` (elapsed 0 ns is possible: the virtual clock at
node count 0, or a coarse wall clock). -/
def npsOf (totalNodes elapsedNs : Nat) : Nat :=
  ((Float.ofNat totalNodes / Float.ofNat elapsedNs) * 1000000000.0).toUInt64.toNat

/-- `hash_full`: `(len as f32 / capacity as f32 * 1000.0) as u32` with capacity 10 000 000 (`SearchState::default`) -/
def hashfullOf (tableLen : Nat) (capacity : Nat := 10000000) : Nat :=
  ((Float32.ofNat tableLen / Float32.ofNat capacity) * 1000.0).toUInt32.toNat

/-! ## search thread: `Out ↦ TxMsg` -/

/-- the `Info` value / the `best_move` call the search thread makes for one item of the model's output stream -/
def toTx (aux : Aux) : Out → TxMsg
  | .info depth timeMs nodes score pv =>
    .info { depth := depth
            time := timeMs
            nodes := some nodes
            pv := pv.map (·.map uciOf)
            score := score.map scoreOf
            hashfull := some aux.hashfull
            nps := some aux.nps
            string := match depth with
              | some _ => aux.debug.map debugText       -- iteration info
              | none => none }                          -- periodic info: `Info { time, ..generate_info() }`
  | .bestMove best ponder => .bestMove (best.map uciOf) (ponder.map uciOf)

/-! ## main thread: the dispatcher -/

def engineName : List Char := "Inkayaku".toList
def engineAuthor : List Char := "Marvin Kuhnke (see https://github.com/marvk/rust-chess)".toList
/-- `engine_app/src/main.rs:20`, printed once before the first command is read: free text, not a UCI message -/
def banner : List Char := "Inkayaku by Marvin Kuhnke (see https://github.com/marvk/rust-chess)".toList

/-- `Engine::accept`: the messages the dispatcher itself sends (synchronously, on the main thread) -/
def engineReplies : UciCommand → List TxMsg
  | .uci => [.idName engineName, .idAuthor engineAuthor, .uciOk]
  | .isReady => [.readyOk]
  | .register _ _ => [.registration .checking, .registration .ok]
  | .registerLater => []
  | .setOption _ => []            -- `todo!()`: panic, stderr only
  | .setOptionValue _ _ => []     -- `todo!()`: panic, stderr only
  | .setDebug _ => []             -- forwarded to the search thread (and to the printer's debug switch)
  | .uciNewGame => []
  | .positionFrom _ _ => []
  | .go _ => []                   -- forwarded: the search thread answers with the stream of `goCmd`
  | .stop => []
  | .ponderHit => []
  | .quit => []

/-- the lines one dispatcher call prints -/
def replyLines (c : UciCommand) : List String := (engineReplies c).map render

/-- the lines the search thread prints for a piece of output (`out` is newest first), given the runtime dependent
fields of each message -/
def searchLines (aux : Out → Aux) (out : List Out) : List String := out.reverse.map fun o => render (toTx (aux o) o)

/-! ## examples -/

#guard replyLines .uci == ["id name Inkayaku", "id author Marvin Kuhnke (see https://github.com/marvk/rust-chess)", "uciok"]
#guard replyLines .isReady == ["readyok"]
#guard replyLines (.register "a".toList "b".toList) == ["registration checking", "registration ok"]
#guard replyLines .registerLater == [] && replyLines (.setOption "Hash".toList) == [] && replyLines .stop == []

-- the parser's commands for these lines, and how many lines the dispatcher prints for each
#guard (["uci", "isready", "register later", "register name a code b", "ucinewgame", "stop", "ponderhit", "quit",
         "debug on", "position startpos", "go depth 1"].map fun l =>
          match Uci.parseLine l with | .ok c => (replyLines c).length | .error _ => 99)
       == [3, 1, 0, 2, 0, 0, 0, 0, 0, 0, 0]

#guard npsOf 0 0 == 0 && npsOf 20 0 == 18446744073709551615 && npsOf 21 21000 == 1000000
#guard hashfullOf 0 == 0 && hashfullOf 20000 == 2 && hashfullOf 10000000 == 1000

-- the `uciOf` text is the text the session projection (`Move.uci`, op `session`) uses
#guard (genPseudo FenBoard.startBoard).all fun m => String.ofList (uciOf m).render == m.uci

end Inkayaku.EngineOut
