import Inkayaku.Model.Util
import Inkayaku.Model.FenSyntax

/-!
Model of the UCI command parser: `uci/src/uci/parser.rs` (`CommandParser`), `uci/src/uci.rs` (`UciMove`, `Go`,
`UciCommand`), `core/src/constants/square.rs` (`Square::from_chars`), `core/src/constants/piece.rs`
(`Piece::from_char`).  Core Lean only.

Conventions of this model
* a Rust `&str` / `String` is a `List Char`; the token queue `VecDeque<&str>` is a `List (List Char)`;
* every Rust function that pops from the queue returns the remaining queue together with its result;
* all functions are total (no `panic!`/`get!`/`head!`-style operation is used anywhere): the Rust code contains no
  `unwrap`/indexing on the parse path either, so "no input line makes the parser panic" is reflected by the mere
  fact that `parseLine : String → Except ParserError UciCommand` is a total function;
* a `Square` is its index 0..63 (`a8 = 0, b8 = 1, …, h1 = 63`, index = file + 8 * (8 - rank));
* a `Duration` is its number of milliseconds (`Duration::from_millis` of a `u64` is total and injective);
* a `Fen` is its `.fen` string (the byte ranges of the Rust struct are a function of that string);
* the payload of the Rust error values is dropped, only the constructor is kept.
-/
namespace Inkayaku.Uci
open Inkayaku.FenSyntax (splitOnChar isAsciiDigit digitVal decimalValue)

abbrev Tok := List Char

/-! ## pieces, squares, moves -/

inductive Piece where
  | pawn | knight | bishop | rook | queen | king
deriving DecidableEq, Repr, Inhabited

/-- `Piece::from_char`: both cases of `KQRBNP` -/
def Piece.fromChar (c : Char) : Option Piece :=
  if c = 'K' ∨ c = 'k' then some .king
  else if c = 'Q' ∨ c = 'q' then some .queen
  else if c = 'R' ∨ c = 'r' then some .rook
  else if c = 'B' ∨ c = 'b' then some .bishop
  else if c = 'N' ∨ c = 'n' then some .knight
  else if c = 'P' ∨ c = 'p' then some .pawn
  else none

/-- `Piece.fen` (lower case) -/
def Piece.fen : Piece → Char
  | .pawn => 'p' | .knight => 'n' | .bishop => 'b' | .rook => 'r' | .queen => 'q' | .king => 'k'

/-- `Square::from_chars(file, rank)`; the result is the square index.
`(file as usize).checked_sub('a' as usize)?`, `rank.to_digit(10)?` (ASCII digits only),
`8_u32.wrapping_sub(i) as usize`, `from_indices` (both < 8), index = file + rank * 8. -/
def squareFromChars (f r : Char) : Option Nat :=
  if f.toNat < 97 then none
  else
    let file := f.toNat - 97
    if !isAsciiDigit r then none
    else
      let i := digitVal r
      let rank := (8 + 4294967296 - i) % 4294967296
      if file < 8 ∧ rank < 8 then some (file + rank * 8) else none

/-- `Square.fen` of the square with index `i` (`i < 64`) -/
def squareFen (i : Nat) : List Char := [Char.ofNat (97 + i % 8), Char.ofNat (56 - i / 8)]

structure UciMove where
  source : Nat
  target : Nat
  promotion : Option Piece
deriving DecidableEq, Repr, Inhabited

/-- `impl FromStr for UciMove`: four chars are required, a fifth (if present) must be a piece letter, everything after
the fifth char is ignored.  All failures are `InvalidFormat`. -/
def UciMove.parse : List Char → Except Unit UciMove
  | a :: b :: c :: d :: rest =>
    match squareFromChars a b with
    | none => .error ()
    | some s =>
      match squareFromChars c d with
      | none => .error ()
      | some t =>
        match rest with
        | [] => .ok ⟨s, t, none⟩
        | p :: _ =>
          match Piece.fromChar p with
          | none => .error ()
          | some pc => .ok ⟨s, t, some pc⟩
  | _ => .error ()

/-- `impl Display for UciMove` -/
def UciMove.render (m : UciMove) : List Char :=
  squareFen m.source ++ squareFen m.target ++ (match m.promotion with | none => [] | some p => [p.fen])

/-! ## command values -/

structure Go where
  searchMoves : List UciMove := []
  ponder : Bool := false
  wtime : Option Nat := none
  btime : Option Nat := none
  winc : Option Nat := none
  binc : Option Nat := none
  movesToGo : Option Nat := none
  depth : Option Nat := none
  nodes : Option Nat := none
  mate : Option Nat := none
  moveTime : Option Nat := none
  infinite : Bool := false
deriving DecidableEq, Repr, Inhabited

/-- `Go::EMPTY` -/
def Go.empty : Go := {}

inductive UciCommand where
  | uci
  | setDebug (debug : Bool)
  | isReady
  | setOption (name : List Char)
  | setOptionValue (name value : List Char)
  | registerLater
  | register (name code : List Char)
  | uciNewGame
  | positionFrom (fen : List Char) (moves : List UciMove)
  | go (go : Go)
  | stop
  | ponderHit
  | quit
deriving DecidableEq, Repr, Inhabited

inductive ParserError where
  | unknown   -- UnknownCommand
  | eoc       -- UnexpectedEndOfCommand
  | token     -- UnexpectedToken
  | fen       -- InvalidFen
  | int       -- InvalidInt
  | dup       -- DuplicatedToken
  | move      -- InvalidUciMove
deriving DecidableEq, Repr, Inhabited

/-! ## tokenizer: `command.trim().split(' ').filter(|s| !s.is_empty())` -/

/-- Unicode `White_Space` (what `char::is_whitespace`, hence `str::trim`, uses) -/
def isWhiteSpace (c : Char) : Bool :=
  let n := c.toNat
  (0x09 ≤ n && n ≤ 0x0D) || n == 0x20 || n == 0x85 || n == 0xA0 || n == 0x1680 ||
  (0x2000 ≤ n && n ≤ 0x200A) || n == 0x2028 || n == 0x2029 || n == 0x202F || n == 0x205F || n == 0x3000

def trimStart : List Char → List Char
  | [] => []
  | c :: cs => if isWhiteSpace c then trimStart cs else c :: cs

def trimEnd (l : List Char) : List Char := (trimStart l.reverse).reverse

/-- `str::trim` -/
def trim (l : List Char) : List Char := trimEnd (trimStart l)

/-- `CommandParser::new`: only U+0020 separates tokens -/
def tokenize (l : List Char) : List Tok := (splitOnChar ' ' (trim l)).filter (fun t => !t.isEmpty)

/-! ## integers -/

/-- the digits of `i64::from_str` / `u64::from_str` after the sign: at least one, ASCII only -/
def digitsValue? (ds : List Char) : Option Nat :=
  if !ds.isEmpty && ds.all isAsciiDigit then some (decimalValue ds) else none

/-- `i64::from_str`: one optional `+` or `-`, then digits; overflow is an error -/
def parseI64 : Tok → Option Int
  | [] => none
  | c :: ds =>
    if c = '+' then
      match digitsValue? ds with
      | some n => if n < 9223372036854775808 then some (Int.ofNat n) else none
      | none => none
    else if c = '-' then
      match digitsValue? ds with
      | some n => if n ≤ 9223372036854775808 then some (- Int.ofNat n) else none
      | none => none
    else
      match digitsValue? (c :: ds) with
      | some n => if n < 9223372036854775808 then some (Int.ofNat n) else none
      | none => none

/-- `u64::from_str`: one optional `+` (no `-`), then digits; overflow is an error -/
def parseU64 : Tok → Option Nat
  | [] => none
  | c :: ds =>
    if c = '+' then
      match digitsValue? ds with
      | some n => if n < 18446744073709551616 then some n else none
      | none => none
    else
      match digitsValue? (c :: ds) with
      | some n => if n < 18446744073709551616 then some n else none
      | none => none

/-- `parse_duration`: `next()?.parse::<i64>()`, `max(d, 0) as u64`, `Duration::from_millis` -/
def parseDuration : List Tok → Except ParserError (Nat × List Tok)
  | [] => .error .eoc
  | v :: q =>
    match parseI64 v with
    | none => .error .int
    | some d => .ok (d.toNat, q)

/-- `parse_u64` -/
def parseU64Tok : List Tok → Except ParserError (Nat × List Tok)
  | [] => .error .eoc
  | v :: q =>
    match parseU64 v with
    | none => .error .int
    | some n => .ok (n, q)

/-! ## queue helpers -/

/-- `consume(token)`: pops one token (also when it is the wrong one) -/
def consume (tok : Tok) : List Tok → Except ParserError Unit × List Tok
  | [] => (.error .eoc, [])
  | t :: q => (if t = tok then .ok () else .error .token, q)

/-- the `while` loop of `until_one_of_or_end`: the text appended to the first token, and the remaining queue -/
def untilLoop (stops : List Tok) : List Tok → List Char × List Tok
  | [] => ([], [])
  | t :: q =>
    if stops.contains t then ([], t :: q)
    else
      let (r, q') := untilLoop stops q
      (' ' :: (t ++ r), q')

/-- `until_one_of_or_end`: the first token is taken unconditionally (even if it is a stop token) -/
def untilOneOfOrEnd (stops : List Tok) : List Tok → Except ParserError (List Char × List Tok)
  | [] => .error .eoc
  | t :: q =>
    let (r, q') := untilLoop stops q
    .ok (t ++ r, q')

/-- `parse_moves_until_one_of_or_end` -/
def parseMovesUntil (stops : List Tok) : List Tok → Except ParserError (List UciMove × List Tok)
  | [] => .ok ([], [])
  | t :: q =>
    if stops.contains t then .ok ([], t :: q)
    else
      match UciMove.parse t with
      | .error _ => .error .move
      | .ok m =>
        match parseMovesUntil stops q with
        | .error e => .error e
        | .ok (ms, r) => .ok (m :: ms, r)

theorem parseMovesUntil_length (stops : List Tok) (q : List Tok) :
    ∀ ms r, parseMovesUntil stops q = .ok (ms, r) → r.length ≤ q.length := by
  induction q with
  | nil => intro ms r h; simp [parseMovesUntil] at h; simp [h]
  | cons t q ih =>
    intro ms r h
    unfold parseMovesUntil at h
    split at h
    · simp at h; simp [← h.2]
    · split at h
      · simp at h
      · split at h
        · simp at h
        · rename_i ms' r' heq
          simp at h
          have := ih ms' r' heq
          simp [← h.2]; omega

/-! ## `go` -/

inductive GoKey where
  | searchmoves | ponder | wtime | btime | winc | binc | movestogo | depth | nodes | mate | movetime | infinite
deriving DecidableEq, Repr, Inhabited

def GoKey.word : GoKey → Tok
  | .searchmoves => "searchmoves".toList | .ponder => "ponder".toList
  | .wtime => "wtime".toList | .btime => "btime".toList | .winc => "winc".toList | .binc => "binc".toList
  | .movestogo => "movestogo".toList | .depth => "depth".toList | .nodes => "nodes".toList | .mate => "mate".toList
  | .movetime => "movetime".toList | .infinite => "infinite".toList

/-- `GO_TOKENS` -/
def goTokens : List Tok :=
  ["searchmoves".toList, "ponder".toList, "wtime".toList, "btime".toList, "winc".toList, "binc".toList,
   "movestogo".toList, "depth".toList, "nodes".toList, "mate".toList, "movetime".toList, "infinite".toList]

/-- which arm of `match token { "searchmoves" => …, …, _ => Err(UnexpectedToken) }` is taken -/
def goKey? (t : Tok) : Option GoKey :=
  if t = "searchmoves".toList then some .searchmoves
  else if t = "ponder".toList then some .ponder
  else if t = "wtime".toList then some .wtime
  else if t = "btime".toList then some .btime
  else if t = "winc".toList then some .winc
  else if t = "binc".toList then some .binc
  else if t = "movestogo".toList then some .movestogo
  else if t = "depth".toList then some .depth
  else if t = "nodes".toList then some .nodes
  else if t = "mate".toList then some .mate
  else if t = "movetime".toList then some .movetime
  else if t = "infinite".toList then some .infinite
  else none

/-- the body of one arm of the `match token` in `parse_go` -/
def goStep (g : Go) (k : GoKey) (q : List Tok) : Except ParserError (Go × List Tok) :=
  match k with
  | .searchmoves =>
    match parseMovesUntil goTokens q with
    | .error e => .error e
    | .ok (ms, r) => .ok ({ g with searchMoves := ms }, r)
  | .ponder => .ok ({ g with ponder := true }, q)
  | .wtime => match parseDuration q with
    | .error e => .error e | .ok (d, r) => .ok ({ g with wtime := some d }, r)
  | .btime => match parseDuration q with
    | .error e => .error e | .ok (d, r) => .ok ({ g with btime := some d }, r)
  | .winc => match parseDuration q with
    | .error e => .error e | .ok (d, r) => .ok ({ g with winc := some d }, r)
  | .binc => match parseDuration q with
    | .error e => .error e | .ok (d, r) => .ok ({ g with binc := some d }, r)
  | .movestogo => match parseU64Tok q with
    | .error e => .error e | .ok (n, r) => .ok ({ g with movesToGo := some n }, r)
  | .depth => match parseU64Tok q with
    | .error e => .error e | .ok (n, r) => .ok ({ g with depth := some n }, r)
  | .nodes => match parseU64Tok q with
    | .error e => .error e | .ok (n, r) => .ok ({ g with nodes := some n }, r)
  | .mate => match parseU64Tok q with
    | .error e => .error e | .ok (n, r) => .ok ({ g with mate := some n }, r)
  | .movetime => match parseDuration q with
    | .error e => .error e | .ok (d, r) => .ok ({ g with moveTime := some d }, r)
  | .infinite => .ok ({ g with infinite := true }, q)

theorem parseDuration_length {q : List Tok} {d : Nat} {r : List Tok} (h : parseDuration q = .ok (d, r)) :
    r.length ≤ q.length := by
  cases q with
  | nil => simp [parseDuration] at h
  | cons v q =>
    simp only [parseDuration] at h
    split at h
    · simp at h
    · simp at h; simp [← h.2]

theorem parseU64Tok_length {q : List Tok} {d : Nat} {r : List Tok} (h : parseU64Tok q = .ok (d, r)) :
    r.length ≤ q.length := by
  cases q with
  | nil => simp [parseU64Tok] at h
  | cons v q =>
    simp only [parseU64Tok] at h
    split at h
    · simp at h
    · simp at h; simp [← h.2]

theorem goStep_length {g g' : Go} {k : GoKey} {q r : List Tok} (h : goStep g k q = .ok (g', r)) :
    r.length ≤ q.length := by
  cases k <;> simp only [goStep] at h
  case searchmoves =>
    split at h
    · simp at h
    · rename_i ms r' heq
      simp at h
      have := parseMovesUntil_length _ _ _ _ heq
      simp [← h.2]; exact this
  case ponder => simp at h; simp [h.2]
  case infinite => simp at h; simp [h.2]
  all_goals
    split at h
    · simp at h
    · rename_i d r' heq
      simp at h
      first
        | (have := parseDuration_length heq; simp [← h.2]; exact this)
        | (have := parseU64Tok_length heq; simp [← h.2]; exact this)

set_option linter.unusedVariables false in
/-- the `loop` of `parse_go`; `vis` is `visited_tokens` -/
def goLoop (vis : List Tok) (g : Go) (q : List Tok) : Except ParserError Go :=
  match q with
  | [] => .ok g
  | t :: q =>
    if vis.contains t then .error .dup
    else
      match goKey? t with
      | none => .error .token
      | some k =>
        match h : goStep g k q with
        | .error e => .error e
        | .ok (g', r) => goLoop (t :: vis) g' r
termination_by q.length
decreasing_by
  have := goStep_length h
  simp only [List.length_cons]
  omega

/-- `parse_go` -/
def parseGo (q : List Tok) : Except ParserError UciCommand :=
  match goLoop [] Go.empty q with
  | .error e => .error e
  | .ok g => .ok (.go g)

/-! ## the other commands -/

/-- the `Fen` value (its `.fen` string) that `Fen::from_str(text)` yields, if any.
`Fen::from_str("startpos")` returns `Fen::default()`, whose string is the start position. -/
def fenOfText (text : List Char) : Except ParserError (List Char) :=
  match Inkayaku.FenSyntax.parse (String.ofList text) with
  | .error _ => .error .fen
  | .ok _ => .ok (if text = "startpos".toList then Inkayaku.FenSyntax.startposString.toList else text)

/-- `parse_position` -/
def parsePosition : List Tok → Except ParserError UciCommand
  | [] => .error .eoc
  | t :: q =>
    let fenR : Except ParserError (List Char × List Tok) :=
      if t = "fen".toList then
        match untilOneOfOrEnd ["moves".toList] q with
        | .error e => .error e
        | .ok (text, q') =>
          match fenOfText text with
          | .error e => .error e
          | .ok f => .ok (f, q')
      else if t = "startpos".toList then .ok (Inkayaku.FenSyntax.startposString.toList, q)
      else .error .token
    match fenR with
    | .error e => .error e
    | .ok (fen, q1) =>
      match consume "moves".toList q1 with
      | (.ok (), q2) =>
        match parseMovesUntil [] q2 with
        | .error e => .error e
        | .ok (ms, _) => .ok (.positionFrom fen ms)
      | (.error .eoc, _) => .ok (.positionFrom fen [])
      | (.error e, _) => .error e

/-- `parse_register` -/
def parseRegister : List Tok → Except ParserError UciCommand
  | [] => .error .eoc                                     -- `self.peek()?`
  | t :: q =>
    if t = "later".toList then .ok .registerLater
    else
      match consume "name".toList (t :: q) with
      | (.error e, _) => .error e
      | (.ok (), q1) =>
        match untilOneOfOrEnd ["code".toList] q1 with
        | .error e => .error e
        | .ok (name, q2) =>
          match consume "code".toList q2 with
          | (.error e, _) => .error e
          | (.ok (), q3) =>
            match untilOneOfOrEnd [] q3 with
            | .error e => .error e
            | .ok (code, _) => .ok (.register name code)

/-- `parse_setoption` -/
def parseSetOption (q : List Tok) : Except ParserError UciCommand :=
  match consume "name".toList q with
  | (.error e, _) => .error e
  | (.ok (), q1) =>
    match untilOneOfOrEnd ["value".toList] q1 with
    | .error e => .error e
    | .ok (name, q2) =>
      let (valueExists, q3) := consume "value".toList q2
      let value := untilOneOfOrEnd [] q3
      match valueExists, value with
      | .ok (), .ok (v, _) => .ok (.setOptionValue name v)
      | .error .eoc, _ => .ok (.setOption name)
      | .ok (), .error e => .error e
      | .error e, _ => .error e

/-- `parse_debug` -/
def parseDebug : List Tok → Except ParserError UciCommand
  | [] => .error .eoc
  | t :: _ =>
    if t = "on".toList then .ok (.setDebug true)
    else if t = "off".toList then .ok (.setDebug false)
    else .error .token

/-- the eleven words `parse_root` knows -/
def rootWords : List Tok :=
  ["uci".toList, "isready".toList, "ucinewgame".toList, "stop".toList, "ponderhit".toList, "quit".toList,
   "go".toList, "position".toList, "register".toList, "setoption".toList, "debug".toList]

/-- `parse_root` -/
def parseRoot (root : Tok) (q : List Tok) : Except ParserError UciCommand :=
  if root = "uci".toList then .ok .uci
  else if root = "isready".toList then .ok .isReady
  else if root = "ucinewgame".toList then .ok .uciNewGame
  else if root = "stop".toList then .ok .stop
  else if root = "ponderhit".toList then .ok .ponderHit
  else if root = "quit".toList then .ok .quit
  else if root = "go".toList then parseGo q
  else if root = "position".toList then parsePosition q
  else if root = "register".toList then parseRegister q
  else if root = "setoption".toList then parseSetOption q
  else if root = "debug".toList then parseDebug q
  else .error .unknown

/-- `CommandParser::parse` on the token queue -/
def parseTokens : List Tok → Except ParserError UciCommand
  | [] => .error .eoc
  | root :: q => parseRoot root q

/-- `CommandParser::new(line).parse()` on the chars of the line -/
def parseChars (l : List Char) : Except ParserError UciCommand := parseTokens (tokenize l)

/-- `CommandParser::new(line).parse()` -/
def parseLine (s : String) : Except ParserError UciCommand := parseChars s.toList

/-! ## line protocol -/

open Inkayaku.Util in
def charsToken (cs : List Char) : String := stringToken (String.ofList cs)

def renderOptNat : Option Nat → String
  | none => "-"
  | some n => toString n

def renderBool (b : Bool) : String := if b then "1" else "0"

def renderMoveStr (m : UciMove) : String := String.ofList m.render

def renderGo (g : Go) : String :=
  let sm := if g.searchMoves.isEmpty then "-" else ",".intercalate (g.searchMoves.map renderMoveStr)
  Inkayaku.Util.joinSp
    ["ok", "go", "sm=" ++ sm, "ponder=" ++ renderBool g.ponder,
     "wtime=" ++ renderOptNat g.wtime, "btime=" ++ renderOptNat g.btime,
     "winc=" ++ renderOptNat g.winc, "binc=" ++ renderOptNat g.binc,
     "mtg=" ++ renderOptNat g.movesToGo, "depth=" ++ renderOptNat g.depth,
     "nodes=" ++ renderOptNat g.nodes, "mate=" ++ renderOptNat g.mate,
     "movetime=" ++ renderOptNat g.moveTime, "inf=" ++ renderBool g.infinite]

def renderError : ParserError → String
  | .unknown => "err unknown" | .eoc => "err eoc" | .token => "err token" | .fen => "err fen"
  | .int => "err int" | .dup => "err dup" | .move => "err move"

def renderCommand : UciCommand → String
  | .uci => "ok uci"
  | .isReady => "ok isready"
  | .uciNewGame => "ok ucinewgame"
  | .stop => "ok stop"
  | .ponderHit => "ok ponderhit"
  | .quit => "ok quit"
  | .setDebug b => if b then "ok debug on" else "ok debug off"
  | .setOption n => "ok setoption " ++ charsToken n
  | .setOptionValue n v => "ok setoptionvalue " ++ charsToken n ++ " " ++ charsToken v
  | .registerLater => "ok registerlater"
  | .register n c => "ok register " ++ charsToken n ++ " " ++ charsToken c
  | .positionFrom f ms =>
    Inkayaku.Util.joinSp (["ok", "position", charsToken f, toString ms.length] ++ ms.map renderMoveStr)
  | .go g => renderGo g

def renderResult : Except ParserError UciCommand → String
  | .ok c => renderCommand c
  | .error e => renderError e

/-- op `uci-parse`: one token `x:<hex of the UTF-8 line>` -/
def handleUciParse (args : List String) : String :=
  match args with
  | [tok] =>
    match Inkayaku.Util.tokenString tok with
    | some line => renderResult (parseLine line)
    | none => "bad-request"
  | _ => "bad-request"

/-- op `uci-move`: one token `x:<hex of the move text>` -/
def handleUciMove (args : List String) : String :=
  match args with
  | [tok] =>
    match Inkayaku.Util.tokenString tok with
    | some s =>
      match UciMove.parse s.toList with
      | .ok m => "ok " ++ renderMoveStr m
      | .error _ => "err"
    | none => "bad-request"
  | _ => "bad-request"

/-! ## sanity checks: the unit tests of parser.rs / uci.rs replayed on the model -/

section Tests
open Inkayaku.Util

private def run (s : String) : String := handleUciParse [stringToken s]
private def fenTok (s : String) : String := stringToken s
private def startTok : String := stringToken Inkayaku.FenSyntax.startposString
private def goEmpty : String :=
  "ok go sm=- ponder=0 wtime=- btime=- winc=- binc=- mtg=- depth=- nodes=- mate=- movetime=- inf=0"

-- general
#guard run "" == "err eoc"
#guard run "   " == "err eoc"
#guard run "something" == "err unknown"
#guard run "something   " == "err unknown"
-- debug
#guard run "debug on" == "ok debug on"
#guard run "debug off" == "ok debug off"
#guard run "debug off something" == "ok debug off"
#guard run " debug off " == "ok debug off"
#guard run "debug something" == "err token"
#guard run "debug " == "err eoc"
#guard run "debug" == "err eoc"
-- setoption
#guard run "setoption name foo" == "ok setoption " ++ stringToken "foo"
#guard run " setoption name foo " == "ok setoption " ++ stringToken "foo"
#guard run "setoption something foo" == "err token"
#guard run "setoption name foo something" == "ok setoption " ++ stringToken "foo something"
#guard run "setoption name foo value 1 2 3 " == "ok setoptionvalue " ++ stringToken "foo" ++ " " ++ stringToken "1 2 3"
#guard run "setoption name foo value  " == "err eoc"
#guard run "setoption   " == "err eoc"
-- register
#guard run "register" == "err eoc"
#guard run "register later" == "ok registerlater"
#guard run "   register later   something" == "ok registerlater"
#guard run "register name Stefan MK code 4359874324" ==
  "ok register " ++ stringToken "Stefan MK" ++ " " ++ stringToken "4359874324"
#guard run "  register name Stefan MK code 43598 74324 something  " ==
  "ok register " ++ stringToken "Stefan MK" ++ " " ++ stringToken "43598 74324 something"
-- position
#guard run "position fen" == "err eoc"
#guard run "position fen rnbqkbnr/pp1ppppp/8/2p5/4P3/5N2/PPPP1PPP/RNBQKB1R b - - 1 2" ==
  "ok position " ++ fenTok "rnbqkbnr/pp1ppppp/8/2p5/4P3/5N2/PPPP1PPP/RNBQKB1R b - - 1 2" ++ " 0"
#guard run "position fen rnbqkbnr/pp1ppppp/8/2p5/4P3/5N2/PPPP1PPP/RNBQKB1R b - - 1 2 moves" ==
  "ok position " ++ fenTok "rnbqkbnr/pp1ppppp/8/2p5/4P3/5N2/PPPP1PPP/RNBQKB1R b - - 1 2" ++ " 0"
#guard run "position fen rnbqkbnr/pp1ppppp/8/2p5/4P3/5N2/PPPP1PPP/RNBQKB1R b - - 1 2 moves h4h6q a1a2" ==
  "ok position " ++ fenTok "rnbqkbnr/pp1ppppp/8/2p5/4P3/5N2/PPPP1PPP/RNBQKB1R b - - 1 2" ++ " 2 h4h6q a1a2"
#guard run "position fen rnbqkbnr/pp1ppppp/8/2p5/4P3/5N2/PPPP1PPP/RNBQKB1R b - - 1 2 moves h4h6q a1a9" == "err move"
#guard run "position fen rnbqkbnr/pp1ppppp/8/44/4P3/5N2/PPPP1PPP/RNBQKB1R b - - 1 2 moves h4h6q a1a9" == "err fen"
#guard run "position startpos" == "ok position " ++ startTok ++ " 0"
#guard run "position startpos moves" == "ok position " ++ startTok ++ " 0"
#guard run "position startpos moves h4h6q a1a2" == "ok position " ++ startTok ++ " 2 h4h6q a1a2"
#guard run "position startpos something" == "err token"
-- go
#guard run "go" == goEmpty
#guard run "go searchmoves h4h6q a1a2 ponder wtime 60001 btime 60000 winc 1001 binc 1000 movestogo 10 depth 11 nodes 20000 mate 10 movetime 999 infinite" ==
  "ok go sm=h4h6q,a1a2 ponder=1 wtime=60001 btime=60000 winc=1001 binc=1000 mtg=10 depth=11 nodes=20000 mate=10 movetime=999 inf=1"
#guard run " go    searchmoves h4h6q a1a2 wtime 60001 winc 1001  btime 60000 binc 1000 movestogo 10 depth 11 nodes 20000 mate 10 movetime 999" ==
  "ok go sm=h4h6q,a1a2 ponder=0 wtime=60001 btime=60000 winc=1001 binc=1000 mtg=10 depth=11 nodes=20000 mate=10 movetime=999 inf=0"
#guard run " go    searchmoves h4h6q a1a2 wtime 60001 winc 1001  btime 60000 binc 1000 movestogo 10 depth 11 nodes 20000 mate 10 movetime 999  something" == "err token"
#guard run "go searchmoves h4h6x" == "err move"
#guard run "go btime -60000" ==
  "ok go sm=- ponder=0 wtime=- btime=0 winc=- binc=- mtg=- depth=- nodes=- mate=- movetime=- inf=0"
#guard run "go wtime 1 wtime 2" == "err dup"
#guard run "go depth -1" == "err int"
#guard run "go depth +7" ==
  "ok go sm=- ponder=0 wtime=- btime=- winc=- binc=- mtg=- depth=7 nodes=- mate=- movetime=- inf=0"
#guard run "go depth 18446744073709551616" == "err int"
#guard run "go wtime 9223372036854775808" == "err int"
#guard run "go wtime -9223372036854775808" ==
  "ok go sm=- ponder=0 wtime=0 btime=- winc=- binc=- mtg=- depth=- nodes=- mate=- movetime=- inf=0"
#guard run "go wtime" == "err eoc"
-- simple commands
#guard run "uci" == "ok uci"
#guard run " uci" == "ok uci"
#guard run "uci something" == "ok uci"
#guard run "isready " == "ok isready"
#guard run "ucinewgame" == "ok ucinewgame"
#guard run "stop" == "ok stop"
#guard run "ponderhit" == "ok ponderhit"
#guard run "quit" == "ok quit"
#guard run "\tquit " == "ok quit"
#guard run "go\twtime 5" == "err unknown"
-- uci moves
private def runMove (s : String) : String := handleUciMove [stringToken s]
#guard runMove "a1a2" == "ok a1a2"
#guard runMove "a8h8" == "ok a8h8"
#guard runMove "h1a1" == "ok h1a1"
#guard runMove "h1a1q" == "ok h1a1q"
#guard runMove "h1a1K" == "ok h1a1k"
#guard runMove "h1a0k" == "err"
#guard runMove "h1a9k" == "err"
#guard runMove "h1a1v" == "err"
#guard runMove "x1a1" == "err"
#guard runMove "e2e4qxyz" == "ok e2e4q"
#guard (match UciMove.parse "a8b8".toList with | .ok m => m == ⟨0, 1, none⟩ | .error _ => false)
#guard (match UciMove.parse "h1a1".toList with | .ok m => m == ⟨63, 56, none⟩ | .error _ => false)

end Tests

end Inkayaku.Uci
