import Std.Data.HashMap
import Inkayaku.Model.Board
import Inkayaku.Model.Zobrist
import Inkayaku.Model.Eval
import Inkayaku.Model.San
import Inkayaku.Model.History
import Inkayaku.Model.FenBoard
/-!
Executable model of the search thread (engine_core/src/engine/search.rs): `idle` message handling,
`set_position_from`, `go`/`best_move` (iterative deepening, time budget), `search_negamax` (alpha-beta,
transposition table, killer/PV/TT move ordering, repetition test, flag polling), `search_quiescence`,
`ValuedMove::calculate_principal_variation`, the info/bestmove output stream.

The runtime is replaced by explicit parameters, over which the theorems quantify universally:
* `pollPeriod`  – the stop flag / channel / move time is polled on entering a negamax node when the node counter is a
                  positive multiple of it (100 000 in the engine; the verification hook can lower it);
* `pending`     – the messages waiting in the channel when a poll happens (they are all consumed by the first poll);
* `nsPerNode`   – the virtual clock: elapsed time = total nodes × nsPerNode (the hook installs exactly this clock);
  `none` = "time does not advance" (elapsed 0), which is how a very fast machine looks to the engine.
Recursion takes fuel (`fuel` = an upper bound on the recursion depth: plies + quiescence depth).
The transposition table is a finite map (capacity 10 000 000 is never reached in the modelled runs; eviction is
property C18).  Core Lean + Std only.
-/
namespace Inkayaku.Search
open Inkayaku.Board Inkayaku.Eval

/-- `ValuedMove` -/
inductive VM where
  | mk (value : Int) (mv : Option Move) (child : Option VM)
deriving Inhabited

def VM.value : VM → Int | .mk v _ _ => v
def VM.mv : VM → Option Move | .mk _ m _ => m
def VM.child : VM → Option VM | .mk _ _ c => c
def VM.leaf (v : Int) : VM := .mk v none none

/-- `calculate_principal_variation` -/
def VM.pv : VM → List Move
  | .mk _ m c =>
    let rest := match c with
      | some ch => ch.pv
      | none => []
    match m with
    | some x => x :: rest
    | none => rest

inductive NodeType where
  | exact | lower | upper
deriving DecidableEq, Repr, Inhabited

structure TtEntry where
  mv : VM
  depth : Nat
  value : Int
  nodeType : NodeType
deriving Inhabited

inductive Msg where
  | newGame | debug (on : Bool) | position | go | stop | ponderHit | quit
deriving DecidableEq, Repr, Inhabited

/-- `Go` (times in milliseconds) -/
structure GoParams where
  searchMoves : List String := []     -- UCI text of the moves
  wtime : Option Nat := none
  btime : Option Nat := none
  winc : Option Nat := none
  binc : Option Nat := none
  depth : Option Nat := none
  moveTime : Option Nat := none       -- in NANOSECONDS once set by `best_move` (Duration arithmetic)
deriving Repr, Inhabited

inductive Out where
  | info (depth : Option Nat) (timeMs : Option Nat) (nodes : Nat) (score : Option Score) (pv : Option (List Move))
  | bestMove (best : Option Move) (ponder : Option Move)
deriving Inhabited

structure St where
  board : Board
  tt : Std.HashMap UInt64 TtEntry := {}
  killers : List Move := []
  pv : Option (List Move) := none
  history : Array Nat := Array.replicate 5000 0
  negamaxNodes : Nat := 0
  quiescenceNodes : Nat := 0
  stop : Bool := false
  quit : Bool := false
  resetNext : Bool := false
  go : GoParams := {}
  playedMoves : List Move := []       -- params.moves
  -- runtime parameters
  pollPeriod : Nat := 100000
  pending : List Msg := []
  nsPerNode : Option Nat := none
  out : List Out := []                -- emitted messages, newest first
deriving Inhabited

def St.totalNodes (s : St) : Nat := s.negamaxNodes + s.quiescenceNodes
/-- `elapsed()` in nanoseconds -/
def St.elapsedNs (s : St) : Nat := match s.nsPerNode with | some k => s.totalNodes * k | none => 0
def St.emit (s : St) (o : Out) : St := { s with out := o :: s.out }

def historySet (h : Array Nat) (i : Nat) (v : Nat) : Array Nat :=
  let h := if i ≥ h.size then h ++ Array.replicate (i + 1 - h.size) 0 else h
  h.setIfInBounds i v

def factor (color : Nat) : Int := if color == 0 then 1 else -1

/-- `Search::evaluate` -/
def evalFor (b : Board) (color : Nat) (legalRemaining : Bool) : Int := factor color * evaluate b legalRemaining

/-- `check_messages`: drain the channel -/
def checkMessages (s : St) : St :=
  let s := s.pending.foldl (fun s m =>
    match m with
    | .newGame => { s with resetNext := true }
    | .stop => { s with stop := true }
    | .quit => { s with stop := true, quit := true }
    | _ => s) s
  { s with pending := [] }

def moveKey (m : Move) (pv tt killer : Option Move) : Int :=
  let bonus (h : Option Move) (b : Int) : Int := match h with
    | some x => if x.bits == m.bits then b else 0
    | none => 0
  m.mvvlva + bonus pv 900000 + bonus tt 800000 + bonus killer 700000

/-- `MvvLvaMoveOrder::sort` = stable sort by descending key -/
def sortMoves (ms : List Move) (pv tt killer : Option Move) : List Move :=
  ms.mergeSort fun a b => moveKey a pv tt killer ≥ moveKey b pv tt killer

def killerGet (k : List Move) (d : Nat) : Option Move :=
  match k[d]? with
  | some m => if m.bits != 0 then some m else none
  | none => none

/-- `KillerTable::put`: `resize(depth + 1, default)` (truncates!) then store -/
def killerPut (k : List Move) (d : Nat) (m : Move) : List Move :=
  let k := if k.length ≥ d + 1 then k.take (d + 1) else k ++ List.replicate (d + 1 - k.length) ⟨0, 0⟩
  k.set d m

def moveUci (m : Move) : String := m.uci

mutual

/-- `search_quiescence` -/
def quiescence (fuel : Nat) (s : St) (alpha0 beta0 : Int) : VM × St :=
  match fuel with
  | 0 => (VM.leaf alpha0, s)          -- out of fuel (never reached with adequate fuel)
  | fuel + 1 =>
    let color := s.board.turn
    let standing := evalFor s.board color true
    if standing ≥ beta0 then (VM.leaf beta0, s)
    else
      let alpha := max alpha0 standing
      let moves := sortMoves (genNonQuiescent s.board) none none none
      quiescenceLoop fuel s moves alpha beta0 none none
termination_by (fuel, 0)

def quiescenceLoop (fuel : Nat) (s : St) (moves : List Move) (alpha beta0 : Int) (bestMove : Option Move)
    (bestChild : Option VM) : VM × St :=
  match moves with
  | [] => (.mk alpha bestMove bestChild, s)
  | m :: rest =>
    let b1 := make s.board m
    if !isValid b1 then quiescenceLoop fuel { s with board := unmake b1 m } rest alpha beta0 bestMove bestChild
    else
      let s1 := { s with board := b1, quiescenceNodes := s.quiescenceNodes + 1 }
      let (child, s2) := quiescence fuel s1 (-beta0) (-alpha)
      let value := -child.value
      let s3 := { s2 with board := unmake s2.board m }
      if value ≥ beta0 then (.mk beta0 (some m) (some child), s3)
      else if value > alpha then quiescenceLoop fuel s3 rest value beta0 (some m) (some child)
      else quiescenceLoop fuel s3 rest alpha beta0 bestMove bestChild
termination_by (fuel, moves.length + 1)

end

structure LoopAcc where
  alpha : Int
  bestValue : Int
  bestMove : Option Move
  bestChild : Option VM
  legalSeen : Bool

mutual

/-- `search_negamax` -/
def negamax (fuel : Nat) (s : St) (ply maxPly : Nat) (alpha0 beta0 : Int) (isPv : Bool) (hash pawnHash : UInt64) : VM × St :=
  match fuel with
  | 0 => (VM.leaf 0, s)     -- out of fuel (never reached with adequate fuel)
  | fuel + 1 =>
    let color := s.board.turn
    -- flag poll
    let poll := s.negamaxNodes % s.pollPeriod == 0 && s.negamaxNodes > 0
    let s := if poll then
        let s := checkMessages s
        s.emit (.info none (some (s.elapsedNs / 1000000)) s.totalNodes none none)
      else s
    let timedOut := poll && (match s.go.moveTime with | some mt => s.elapsedNs > mt | none => false)
    if timedOut then (VM.leaf 0, { s with stop := true })
    else
    let s := { s with negamaxNodes := s.negamaxNodes + 1 }
    let plyClock := plyClock s.board
    let s := { s with history := historySet s.history plyClock hash.toNat }
    if ply > 0 && History.countRepetitions (fun i => s.history.getD i 0) plyClock (s.board.halfmove % 65536) ≥ 3 then
      (VM.leaf (Gen.drawScore + (if ply % 2 == 0 then 1 else -1) * Gen.contempt), s)
    else
    let remaining := maxPly - ply
    let entry := s.tt.get? hash
    -- transposition table probe
    let probe : Option VM × Int × Int :=
      match entry with
      | some e =>
        if e.depth ≥ remaining then
          match e.nodeType with
          | .exact => (some e.mv, alpha0, beta0)
          | .lower =>
            let a := max alpha0 e.value
            if a ≥ beta0 then (some e.mv, a, beta0) else (none, a, beta0)
          | .upper =>
            let b := min beta0 e.value
            if alpha0 ≥ b then (some e.mv, alpha0, b) else (none, alpha0, b)
        else (none, alpha0, beta0)
      | none => (none, alpha0, beta0)
    match probe with
    | (some r, _, _) => (r, s)
    | (none, alpha, beta) =>
    let ttMove := match entry with | some e => e.mv.mv | none => none
    let buffer := genPseudo s.board
    let buffer := if ply == 0 && !s.go.searchMoves.isEmpty then buffer.filter (fun m => s.go.searchMoves.contains m.uci) else buffer
    if ply == 0 && buffer.isEmpty then (VM.leaf 0, s)
    else if ply == maxPly then
      let legalRemaining := isAnyMoveLegal s.board buffer
      if legalRemaining && buffer.any (fun m => m.isAttack || m.isPromotion) then
        quiescence fuel s alpha beta
      else (VM.leaf (evalFor s.board color legalRemaining), s)
    else
      let pvMove := if isPv then (match s.pv with | some l => l[ply]? | none => none) else none
      let killer := killerGet s.killers remaining
      let moves := sortMoves buffer pvMove ttMove killer
      let (acc, aborted, s) := negamaxLoop fuel s moves ply maxPly beta isPv pvMove hash pawnHash remaining
        { alpha := alpha, bestValue := lossScore, bestMove := none, bestChild := none, legalSeen := false }
      if aborted then (.mk 0 none none, s)
      else if !acc.legalSeen then (VM.leaf (evalFor s.board color false), s)
      else
        let result := VM.mk acc.bestValue acc.bestMove acc.bestChild
        if !isCheckmateValue acc.bestValue then
          let nodeType := if acc.bestValue ≤ alpha0 then NodeType.upper else if acc.bestValue ≥ beta then .lower else .exact
          (result, { s with tt := s.tt.insert hash { mv := result, depth := remaining, value := acc.bestValue, nodeType } })
        else (result, s)
termination_by (fuel, 0)

/-- the move loop of `search_negamax`; returns (accumulator, aborted?, state) -/
def negamaxLoop (fuel : Nat) (s : St) (moves : List Move) (ply maxPly : Nat) (beta : Int) (isPv : Bool) (pvMove : Option Move)
    (hash pawnHash : UInt64) (remaining : Nat) (acc : LoopAcc) : LoopAcc × Bool × St :=
  match moves with
  | [] => (acc, false, s)
  | m :: rest =>
    let b1 := make s.board m
    if !isValid b1 then negamaxLoop fuel { s with board := unmake b1 m } rest ply maxPly beta isPv pvMove hash pawnHash remaining acc
    else
      let (dx, dp) := Zobrist.xorOf m.f
      let childPv := isPv && (match pvMove with | some p => p.bits == m.bits | none => false)
      let (child, s2) := negamax fuel { s with board := b1 } (ply + 1) maxPly (-beta) (-acc.alpha) childPv (hash ^^^ dx) (pawnHash ^^^ dp)
      if s2.stop then
        (acc, true, { s2 with board := unmake s2.board m })
      else
        let childValue := -child.value
        let acc := if childValue > acc.bestValue then
            { acc with bestValue := childValue, bestMove := some m, bestChild := some child, legalSeen := true }
          else { acc with legalSeen := true }
        let acc := { acc with alpha := max acc.alpha acc.bestValue }
        let s3 := { s2 with board := unmake s2.board m }
        if acc.alpha ≥ beta then (acc, false, { s3 with killers := killerPut s3.killers remaining m })
        else negamaxLoop fuel s3 rest ply maxPly beta isPv pvMove hash pawnHash remaining acc
termination_by (fuel, moves.length + 1)

end

/-- `calculate_max_thinking_time` in nanoseconds -/
def maxThinkingNs (s : St) : Option Nat :=
  let inc := if s.board.turn == 0 then s.go.winc else s.go.binc
  let rem := if s.board.turn == 0 then s.go.wtime else s.go.btime
  match rem with
  | none => none
  | some remMs =>
    match inc with
    | some incMs =>
      let secs := remMs / 1000
      -- `Duration::mul_f64`: factors 1, 0.75, 0.5, 0.25 are exact on whole nanoseconds of a millisecond value
      let incNs := incMs * 1000000
      some (if secs ≥ 20 then incNs else if secs ≥ 10 then incNs * 3 / 4 else if secs ≥ 2 then incNs / 2 else incNs / 4)
    | none => some (remMs * 1000000 / 60)

/-- `try_set_pv_from_continuation` -/
def continuePv (s : St) : St :=
  let ponder := match s.pv with | some l => l[1]? | none => none
  match ponder, s.playedMoves.getLast? with
  | some p, some last =>
    if p.bits == last.bits then
      match s.pv with
      | some l => if l.length > 2 then { s with pv := some (l.take 2) } else { s with pv := none }
      | none => s
    else s
  | _, _ => s

def fuelFor (depth : Nat) : Nat := depth + 200

/-- the iterative deepening loop of `best_move`; `n` iterations left, current depth `d` -/
def deepen : Nat → St → (d : Nat) → (maxThinking : Nat) → (best : Option VM) → (uciPv : Option (List Move)) → (score : Option Score)
    → Option VM × St
  | 0, s, _, _, best, _, _ => (best, s)
  | n + 1, s, d, maxThinking, best, uciPv, score =>
    let (cur, s) := negamax (fuelFor d) s 0 d lossScore Gen.winScore s.pv.isSome (Zobrist.hash s.board) (Zobrist.pawnHash s.board)
    let elapsed := s.elapsedNs
    let tooLittle := elapsed > maxThinking / 3
    let aborted := s.stop || cur.mv.isNone
    let (best, uciPv, score, s) :=
      if !aborted then
        let pv := cur.pv
        (some cur, some pv, some (scoreFromValue cur.value s.board), { s with pv := some pv })
      else (best, uciPv, score, s)
    let s := s.emit (.info (some (if aborted then d - 1 else d)) (some (elapsed / 1000000)) s.totalNodes score uciPv)
    if aborted || tooLittle then (best, s) else deepen n s (d + 1) maxThinking best uciPv score

/-- `go` = `reset_for_go`; `best_move`; send the answer.  `maxIter` bounds the number of iterations explored by the
model (the engine's bound is 999 999). -/
def goCmd (s : St) (g : GoParams) (maxIter : Nat := 64) : St :=
  -- reset_for_go
  let s := if s.resetNext then { s with tt := {}, killers := [] } else s
  let s := { s with negamaxNodes := 0, quiescenceNodes := 0, stop := false, quit := false, resetNext := false, go := g }
  -- best_move
  let s := { s with tt := {}, killers := s.killers.drop 2 }
  let s := continuePv s
  let maxDepth := match g.depth with | some d => max d 1 | none => 999999
  let s := match s.go.moveTime with
    | none => { s with go := { s.go with moveTime := (maxThinkingNs s).map (· * 2) } }
    | some _ => s
  let maxThinking := match s.go.moveTime with | some t => t | none => 2 ^ 80
  let (best, s) := deepen (min maxDepth maxIter) s 1 maxThinking none none none
  let bestMove := match best with | some vm => vm.mv | none => none
  let ponder := match bestMove with | some _ => (match s.pv with | some l => l[1]? | none => none) | none => none
  s.emit (.bestMove bestMove ponder)

/-- `set_position_from`: `none` = some move was rejected (the engine keeps its old position) -/
def setPosition (s : St) (b : Board) (ucis : List String) : St :=
  let rec go (b : Board) (h : Array Nat) (made : List Move) : List String → Option (Board × Array Nat × List Move)
    | [] => some (b, h, made.reverse)
    | u :: rest =>
      match San.findUci b u with
      | (.ok m, b') =>
        let b2 := make b' m
        go b2 (historySet h (plyClock b2) (Zobrist.hash b2).toNat) (m :: made) rest
      | (.error _, _) => none
  let h0 := historySet (Array.replicate 5000 0) (plyClock b) (Zobrist.hash b).toNat
  match go b h0 [] ucis with
  | some (b', h, made) => { s with board := b', history := h, playedMoves := made }
  | none => s

def initial : St := { board := FenBoard.startBoard }

end Inkayaku.Search
