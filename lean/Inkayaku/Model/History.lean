/-!
Model of `inkayaku_core::engine::zobrist_history::ZobristHistory` (engine_core/src/engine/zobrist_history.rs).

```rust
pub struct ZobristHistory { history: Vec<u64> }           // Default: vec![0; 5000]
pub fn set(&mut self, index: u16, zobrist_hash: u64)       // grows with zeros up to index+1, then writes
pub fn count_repetitions(&self, start_index: u16, halfmove_clock: u16) -> usize {
    if start_index < 4 { return 0; }
    let mut current_index = start_index as i32 - 4;        // NB: start_index - 2 is never inspected
    let mut repetitions = 1_usize;
    let zobrist = self.history[start_index as usize];
    let min_index = max(0, start_index as i32 - halfmove_clock as i32);
    while current_index >= min_index {
        let current_zobrist = self.history[current_index as usize];
        if current_zobrist == zobrist { repetitions += 1; if repetitions >= 3 { return 3; } }
        current_index -= 2;
    }
    repetitions
}
```

Two models of `count_repetitions` are given and proved equal where the Rust does not panic:

* `countRepetitions (h : Nat → Nat) start hm` : total, the history is a function from ply to hash.  All theorems of
  `Props/C10.lean` are about this one.
* `countRepetitionsChecked (a : Array Nat) start hm : Option Nat` : reads go through `a[i]?`; `none` = Rust panic
  (index out of bounds).  `countRepetitionsChecked_eq` : when `start < a.size` no read is out of range and the result is
  `some (countRepetitions (a.getD · 0) start hm)`.

Number ranges.  In Rust `start_index`, `halfmove_clock` are `u16`, the running index and `min_index` are `i32`,
`repetitions` is `usize`, hashes are `u64`.  The model uses unbounded `Nat`/`Int`.  With `start, hm < 65536` every
intermediate Rust value lies in `[-65535-2, 65535]` (so no `i32` wrap) and `repetitions ≤ 3`, hence the unbounded model
computes the same value; the assumption `start < 65536` is therefore only needed for this correspondence and changes no
result (none of the theorems needs it).  `loopFuel` below is the only place where it is visible: the loop body runs at
most `start / 2` times, fuel `start` is always enough (`loop_fuel_irrelevant`).

Core Lean only.
-/
namespace Inkayaku.History

/-! ### The vector with `set` -/

/-- `ZobristHistory { history: Vec<u64> }` -/
structure ZobristHistory where
  history : Array Nat
deriving Repr, DecidableEq

/-- `impl Default`: 5000 zeros -/
def ZobristHistory.default : ZobristHistory := ⟨Array.replicate 5000 0⟩

/-- `set`: `resize(index+1, 0)` if `index >= len`, then write. Never panics. -/
def ZobristHistory.set (z : ZobristHistory) (index hash : Nat) : ZobristHistory :=
  let hist :=
    if index ≥ z.history.size then z.history ++ Array.replicate (index + 1 - z.history.size) 0 else z.history
  ⟨hist.setIfInBounds index hash⟩

/-- total read used by the function-style model: 0 beyond the end (like never-written cells of the zeroed vector;
the Rust would panic there, see `countRepetitionsChecked`) -/
def ZobristHistory.get (z : ZobristHistory) (i : Nat) : Nat := z.history.getD i 0

theorem ZobristHistory.size_set (z : ZobristHistory) (index hash : Nat) :
    (z.set index hash).history.size = max z.history.size (index + 1) := by
  unfold ZobristHistory.set
  by_cases hge : index ≥ z.history.size <;> simp [hge] <;> omega

theorem ZobristHistory.get_set (z : ZobristHistory) (index hash i : Nat) :
    (z.set index hash).get i = if i = index then hash else z.get i := by
  unfold ZobristHistory.set ZobristHistory.get
  by_cases hge : index ≥ z.history.size
  · simp only [hge, if_true, Array.getD_eq_getD_getElem?]
    rw [Array.getElem?_setIfInBounds]
    by_cases hi : i = index
    · subst hi
      have : i < z.history.size + (i + 1 - z.history.size) := by omega
      simp [this]
    · have hi' : ¬ index = i := fun e => hi e.symm
      simp only [hi, hi', if_false]
      rw [Array.getElem?_append]
      by_cases hlt : i < z.history.size
      · simp [hlt]
      · simp only [hlt, if_false]
        rw [Array.getElem?_replicate]
        have : z.history[i]? = none := by simp; omega
        rw [this]; split <;> rfl
  · simp only [hge, if_false, Array.getD_eq_getD_getElem?]
    rw [Array.getElem?_setIfInBounds]
    by_cases hi : i = index
    · subst hi
      have : i < z.history.size := by omega
      simp [this]
    · have hi' : ¬ index = i := fun e => hi e.symm
      simp [hi, hi']

/-! ### `count_repetitions`, function-style (total) model -/

/-- The `while` loop. `cur`/`minIdx` are the `i32` variables `current_index`/`min_index`, `reps` is `repetitions`,
`z` is `zobrist`. One unit of fuel per loop iteration. The read index `cur.toNat` is `cur` itself because the loop
condition gives `cur ≥ minIdx ≥ 0`. -/
def loop (h : Nat → Nat) (z : Nat) (minIdx : Int) : Nat → Int → Nat → Nat
  | 0, _, reps => reps
  | fuel + 1, cur, reps =>
    if cur ≥ minIdx then
      if h cur.toNat = z then
        if reps + 1 ≥ 3 then 3 else loop h z minIdx fuel (cur - 2) (reps + 1)
      else loop h z minIdx fuel (cur - 2) reps
    else reps

/-- `count_repetitions(start_index, halfmove_clock)` on a history given as a function ply ↦ hash. -/
def countRepetitions (h : Nat → Nat) (start hm : Nat) : Nat :=
  if start < 4 then 0
  else loop h (h start) (max 0 ((start : Int) - (hm : Int))) start ((start : Int) - 4) 1

/-! ### Specification-level definitions used by `Props/C10.lean`
(kept here because only this file and the property file belong to this task; they are plain `List.filter`s) -/

/-- The earlier plies that `count_repetitions` can count: `j + 4 ≤ start` (that is `j < start - 3`), inside the
halfmove window `start - hm ≤ j` (truncated subtraction = `max(0, start - hm)`), same parity as `start`, same hash. -/
def repIndices (h : Nat → Nat) (start hm : Nat) : List Nat :=
  (List.range (start - 3)).filter
    (fun j => decide (start - hm ≤ j) && decide ((start - j) % 2 = 0) && decide (h j = h start))

def repCount (h : Nat → Nat) (start hm : Nat) : Nat := (repIndices h start hm).length

theorem mem_repIndices (h : Nat → Nat) (start hm j : Nat) :
    j ∈ repIndices h start hm ↔ j + 4 ≤ start ∧ start - hm ≤ j ∧ (start - j) % 2 = 0 ∧ h j = h start := by
  simp only [repIndices, List.mem_filter, List.mem_range, Bool.and_eq_true, decide_eq_true_eq]
  omega

/-- All plies `j ≤ start` inside the window whose *position* equals the one at `start` (including `start`). -/
def occIndices {P : Type} [DecidableEq P] (pos : Nat → P) (start hm : Nat) : List Nat :=
  (List.range (start + 1)).filter (fun j => decide (start - hm ≤ j) && decide (pos j = pos start))

def occCount {P : Type} [DecidableEq P] (pos : Nat → P) (start hm : Nat) : Nat := (occIndices pos start hm).length

theorem mem_occIndices {P : Type} [DecidableEq P] (pos : Nat → P) (start hm j : Nat) :
    j ∈ occIndices pos start hm ↔ j ≤ start ∧ start - hm ≤ j ∧ pos j = pos start := by
  simp only [occIndices, List.mem_filter, List.mem_range, Bool.and_eq_true, decide_eq_true_eq, Nat.lt_succ_iff]

/-! ### Characterisation of the loop -/

/-- loop-level count: plies `j ≤ c`, `j ≥ m`, same parity as `c`, hash `z` -/
def cnt (h : Nat → Nat) (z m c : Nat) : Nat :=
  (List.range (c + 1)).countP (fun j => decide (m ≤ j) && decide ((c - j) % 2 = 0) && decide (h j = z))

theorem cnt_lt (h : Nat → Nat) (z m c : Nat) (hc : c < m) : cnt h z m c = 0 := by
  unfold cnt
  rw [List.countP_eq_zero]
  intro a ha
  have : a < c + 1 := List.mem_range.mp ha
  have : ¬ m ≤ a := by omega
  simp [this]

theorem cnt_zero (h : Nat → Nat) (z m : Nat) : cnt h z m 0 = if m ≤ 0 ∧ h 0 = z then 1 else 0 := by
  simp [cnt, List.range_succ, List.countP_cons]

theorem cnt_one (h : Nat → Nat) (z m : Nat) : cnt h z m 1 = if m ≤ 1 ∧ h 1 = z then 1 else 0 := by
  simp [cnt, List.range_succ, List.countP_cons]

theorem cnt_add_two (h : Nat → Nat) (z m c : Nat) :
    cnt h z m (c + 2) = cnt h z m c + if m ≤ c + 2 ∧ h (c + 2) = z then 1 else 0 := by
  unfold cnt
  have e : List.range (c + 2 + 1) = List.range (c + 1) ++ [c + 1, c + 2] := by
    rw [List.range_succ, List.range_succ]; simp
  rw [e, List.countP_append]
  congr 1
  · apply List.countP_congr
    intro j hj
    have : j < c + 1 := List.mem_range.mp hj
    have : (c + 2 - j) % 2 = (c - j) % 2 := by omega
    simp [this]
  · have h1 : (c + 2 - (c + 1)) % 2 = 1 := by omega
    simp [List.countP_cons]

theorem loop_lt (h : Nat → Nat) (z : Nat) (minIdx : Int) (fuel : Nat) (cur : Int) (reps : Nat)
    (hlt : cur < minIdx) : loop h z minIdx fuel cur reps = reps := by
  cases fuel with
  | zero => rfl
  | succ f =>
    unfold loop
    have : ¬ cur ≥ minIdx := by omega
    simp [this]

/-- With enough fuel (`c + 2 ≤ 2 * fuel`) and `reps ≤ 2` the loop returns `min 3 (reps + cnt)`. -/
theorem loop_spec (h : Nat → Nat) (z m : Nat) :
    ∀ (fuel c reps : Nat), c + 2 ≤ 2 * fuel → reps ≤ 2 →
      loop h z (m : Int) fuel (c : Int) reps = min 3 (reps + cnt h z m c) := by
  intro fuel
  induction fuel with
  | zero => intro c reps hf; omega
  | succ fuel ih =>
    intro c reps hf hr
    unfold loop
    by_cases hc : (c : Int) ≥ (m : Int)
    · have hmc : m ≤ c := by omega
      simp only [hc, if_true, Int.toNat_natCast]
      match c, hf, hmc with
      | 0, _, hmc =>
        rw [cnt_zero, loop_lt _ _ _ _ _ _ (by omega), loop_lt _ _ _ _ _ _ (by omega)]
        have hm0 : m ≤ 0 := hmc
        by_cases hz : h 0 = z <;> by_cases h3 : reps + 1 ≥ 3 <;> simp only [hz, hm0, h3, and_self, and_false, if_true, if_false] <;> omega
      | 1, _, hmc =>
        rw [cnt_one, loop_lt _ _ _ _ _ _ (by omega), loop_lt _ _ _ _ _ _ (by omega)]
        have hm1 : m ≤ 1 := hmc
        by_cases hz : h 1 = z <;> by_cases h3 : reps + 1 ≥ 3 <;> simp only [hz, hm1, h3, and_self, and_false, if_true, if_false] <;> omega
      | c' + 2, hf, hmc =>
        have e : ((c' + 2 : Nat) : Int) - 2 = (c' : Int) := by omega
        rw [e, cnt_add_two]
        by_cases hz : h (c' + 2) = z
        · simp only [hz, hmc, and_self, if_true]
          by_cases h3 : reps + 1 ≥ 3
          · simp only [h3, if_true]; omega
          · simp only [h3, if_false]
            rw [ih c' (reps + 1) (by omega) (by omega)]; omega
        · simp only [hz, and_false, if_false]
          rw [ih c' reps (by omega) hr]; omega
    · have hmc : c < m := by omega
      simp only [hc, if_false]
      rw [cnt_lt h z m c hmc]; omega

/-- Fuel beyond the needed amount does not matter (so the choice `fuel = start` in `countRepetitions` is harmless). -/
theorem loop_fuel_irrelevant (h : Nat → Nat) (z m fuel fuel' c reps : Nat)
    (hf : c + 2 ≤ 2 * fuel) (hf' : c + 2 ≤ 2 * fuel') (hr : reps ≤ 2) :
    loop h z (m : Int) fuel (c : Int) reps = loop h z (m : Int) fuel' (c : Int) reps := by
  rw [loop_spec h z m fuel c reps hf hr, loop_spec h z m fuel' c reps hf' hr]

theorem cnt_eq_repCount (h : Nat → Nat) (start hm : Nat) (h4 : 4 ≤ start) :
    cnt h (h start) (start - hm) (start - 4) = repCount h start hm := by
  unfold cnt repCount repIndices
  rw [← List.countP_eq_length_filter]
  have e : start - 4 + 1 = start - 3 := by omega
  rw [e]
  apply List.countP_congr
  intro j hj
  have : j < start - 3 := List.mem_range.mp hj
  have : (start - 4 - j) % 2 = (start - j) % 2 := by omega
  simp [this]

/-- Exact value of `countRepetitions`. -/
theorem countRepetitions_eq (h : Nat → Nat) (start hm : Nat) :
    countRepetitions h start hm = if start < 4 then 0 else min 3 (1 + repCount h start hm) := by
  unfold countRepetitions
  by_cases h4 : start < 4
  · simp [h4]
  · simp only [h4, if_false]
    have e1 : max 0 ((start : Int) - (hm : Int)) = ((start - hm : Nat) : Int) := by omega
    have e2 : (start : Int) - 4 = ((start - 4 : Nat) : Int) := by omega
    rw [e1, e2, loop_spec h (h start) (start - hm) start (start - 4) 1 (by omega) (by omega),
      cnt_eq_repCount h start hm (by omega)]

/-! ### `count_repetitions` with explicit panics -/

/-- The loop with bounds-checked reads: `none` = index out of bounds panic. -/
def loopChecked (a : Array Nat) (z : Nat) (minIdx : Int) : Nat → Int → Nat → Option Nat
  | 0, _, reps => some reps
  | fuel + 1, cur, reps =>
    if cur ≥ minIdx then
      match a[cur.toNat]? with
      | none => none
      | some cz =>
        if cz = z then
          if reps + 1 ≥ 3 then some 3 else loopChecked a z minIdx fuel (cur - 2) (reps + 1)
        else loopChecked a z minIdx fuel (cur - 2) reps
    else some reps

/-- `count_repetitions` on the real vector; `none` = Rust panics. (For `start < 4` nothing is read.) -/
def countRepetitionsChecked (a : Array Nat) (start hm : Nat) : Option Nat :=
  if start < 4 then some 0
  else
    match a[start]? with
    | none => none
    | some z => loopChecked a z (max 0 ((start : Int) - (hm : Int))) start ((start : Int) - 4) 1

theorem loopChecked_eq (a : Array Nat) (z : Nat) (minIdx : Int) (hmin : 0 ≤ minIdx) :
    ∀ (fuel : Nat) (cur : Int) (reps : Nat), cur < (a.size : Int) →
      loopChecked a z minIdx fuel cur reps = some (loop (fun i => a.getD i 0) z minIdx fuel cur reps) := by
  intro fuel
  induction fuel with
  | zero => intro cur reps _; rfl
  | succ fuel ih =>
    intro cur reps hcur
    unfold loopChecked loop
    by_cases hc : cur ≥ minIdx
    · have hlt : cur.toNat < a.size := by omega
      have h1 : a[cur.toNat]? = some a[cur.toNat] := by simp [hlt]
      have h2 : a.getD cur.toNat 0 = a[cur.toNat] := by simp [hlt]
      simp only [hc, if_true, h1, h2]
      rw [ih (cur - 2) (reps + 1) (by omega), ih (cur - 2) reps (by omega)]
      repeat' split
      all_goals rfl
    · simp [hc]

/-- **Reads are in range.** If `start < len` the Rust function does not panic and equals the total model on the
zero-extended vector. (`start ≥ len ∧ start ≥ 4` panics at `self.history[start_index]`.) -/
theorem countRepetitionsChecked_eq (a : Array Nat) (start hm : Nat) (hs : start < a.size) :
    countRepetitionsChecked a start hm = some (countRepetitions (fun i => a.getD i 0) start hm) := by
  unfold countRepetitionsChecked countRepetitions
  by_cases h4 : start < 4
  · simp [h4]
  · have h1 : a[start]? = some a[start] := by simp [hs]
    have h2 : a.getD start 0 = a[start] := by simp [hs]
    simp only [h4, if_false, h1, h2]
    exact loopChecked_eq a _ _ (by omega) _ _ _ (by omega)

theorem countRepetitionsChecked_panics (a : Array Nat) (start hm : Nat) (hs : a.size ≤ start) (h4 : 4 ≤ start) :
    countRepetitionsChecked a start hm = none := by
  unfold countRepetitionsChecked
  have h1 : a[start]? = none := by simp; omega
  have : ¬ start < 4 := by omega
  simp [this, h1]

/-! ### Line protocol: `reps <start> <hm> <h0> ... <hn-1>` -/

/-- strict decimal natural (digits only, non-empty) -/
def parseNat (s : String) : Option Nat :=
  let cs := s.toList
  if cs.isEmpty then none
  else if cs.all (fun c => '0' ≤ c ∧ c ≤ '9') then
    some (cs.foldl (fun acc c => 10 * acc + (c.toNat - 48)) 0)
  else none

def parseNats : List String → Option (List Nat)
  | [] => some []
  | s :: rest =>
    match parseNat s, parseNats rest with
    | some n, some ns => some (n :: ns)
    | _, _ => none

/-- args = `<start> <hm> <h0> <h1> ... <hn-1>`; history entry `i` is `h_i` for `i < n`, `0` beyond.
Answer: decimal `countRepetitions`. `bad-request` if malformed, if `start`/`hm` do not fit `u16`, if a hash does not
fit `u64`, or if `start ≥ n` (position at `start` was never stored; the harness never sends that). -/
def handleReps (args : List String) : String :=
  match parseNats args with
  | some (start :: hm :: hs) =>
    if start ≥ hs.length ∨ start ≥ 65536 ∨ hm ≥ 65536 ∨ hs.any (fun x => x ≥ 2 ^ 64) then "bad-request"
    else toString (countRepetitions (fun i => hs.getD i 0) start hm)
  | _ => "bad-request"

end Inkayaku.History
