import Inkayaku.Model.Board
import Inkayaku.Gen.Zobrist
/-!
Model of the Zobrist hashing in board/src/board.rs (`zobrist_xor`, `calculate_zobrist_hash`,
`calculate_zobrist_pawn_hash`) with the key material of the current build (`Gen.Zobrist`).
-/
namespace Inkayaku.Zobrist
open Inkayaku.Board Inkayaku.Gen

/-- `Zobrist::piece_square_hash(piece, square, color)` = `PIECE_SQUARE_HASHES[piece + 7 * color][square]` -/
def pieceSquare (piece sq color : Nat) : UInt64 := ((zobristPieceSquare.getD (piece + 7 * color) []).getD sq 0).toUInt64

/-- `Zobrist::en_passant_square_hash(square)` = `EN_PASSANT_HASHES[square % 8]` -/
def enPassant (sq : Nat) : UInt64 := (zobristEnPassant.getD (sq % 8) 0).toUInt64

/-- `Zobrist::castle_hash(side, color)` with side = QUEEN or KING -/
def castle (side color : Nat) : UInt64 :=
  (if color == 0 then (if side == QUEEN then zobristWhiteQueenCastle else zobristWhiteKingCastle)
   else (if side == QUEEN then zobristBlackQueenCastle else zobristBlackKingCastle)).toUInt64

def blackToMove : UInt64 := zobristBlackToMove.toUInt64

/-- `zobrist_hash_for_occupancy` -/
def hashOcc (occ : UInt64) (piece color : Nat) : UInt64 :=
  (bitsAsc occ).foldl (fun acc sq => acc ^^^ pieceSquare piece sq color) 0

/-- `_zobrist_pawn_hash` -/
def pawnHash (b : Board) : UInt64 :=
  let h := hashOcc b.white.pawns PAWN 0 ^^^ hashOcc b.black.pawns PAWN 1
  -- `BLACK_TO_MOVE_HASH * (1 - turn)`: the key is applied when WHITE is to move
  let h := if b.turn == 0 then h ^^^ blackToMove else h
  if b.ep != 0 then h ^^^ enPassant b.ep else h

/-- `_zobrist_hash` -/
def hash (b : Board) : UInt64 :=
  let h := hashOcc b.white.kings KING 0 ^^^ hashOcc b.white.queens QUEEN 0 ^^^ hashOcc b.white.rooks ROOK 0
    ^^^ hashOcc b.white.bishops BISHOP 0 ^^^ hashOcc b.white.knights KNIGHT 0
    ^^^ hashOcc b.black.kings KING 1 ^^^ hashOcc b.black.queens QUEEN 1 ^^^ hashOcc b.black.rooks ROOK 1
    ^^^ hashOcc b.black.bishops BISHOP 1 ^^^ hashOcc b.black.knights KNIGHT 1
  let h := if b.white.qs then h ^^^ castle QUEEN 0 else h
  let h := if b.white.ks then h ^^^ castle KING 0 else h
  let h := if b.black.qs then h ^^^ castle QUEEN 1 else h
  let h := if b.black.ks then h ^^^ castle KING 1 else h
  h ^^^ pawnHash b

/-- `zobrist_xor(mv)` → (full delta, pawn delta) -/
def xorOf (f : MoveF) : UInt64 × UInt64 :=
  let self := f.side
  let opp := 1 - f.side
  let result : UInt64 := 0
  let pawn : UInt64 := blackToMove
  let result := if f.selfLostKing then result ^^^ castle KING self else result
  let result := if f.selfLostQueen then result ^^^ castle QUEEN self else result
  let result := if f.oppLostKing then result ^^^ castle KING opp else result
  let result := if f.oppLostQueen then result ^^^ castle QUEEN opp else result
  let pawn := if f.prevEp != 0 then pawn ^^^ enPassant f.prevEp else pawn
  let pawn := if f.nextEp != 0 then pawn ^^^ enPassant f.nextEp else pawn
  let white := self == 0
  let (result, pawn) :=
    if f.castle then
      match castleRook f.target with
      | some (rs, rt) =>
        -- the king squares are the constants E1/E8 and the target in the Rust match arms
        let ksrc := if f.target == C1 || f.target == G1 then E1 else E8
        (result ^^^ pieceSquare ROOK rs self ^^^ pieceSquare ROOK rt self
          ^^^ pieceSquare KING ksrc self ^^^ pieceSquare KING f.target self, pawn)
      | none => (result, pawn)   -- Rust: panic!()
    else if f.enPassant then
      let victim := if white then f.target + 8 else f.target - 8
      (result, pawn ^^^ pieceSquare PAWN f.source self ^^^ pieceSquare PAWN f.target self
        ^^^ pieceSquare PAWN victim opp)
    else
      let (result, pawn) :=
        if f.promotion != NO_PIECE then
          (result ^^^ pieceSquare f.promotion f.target self, pawn ^^^ pieceSquare PAWN f.source self)
        else if f.pieceMoved == PAWN then
          (result, pawn ^^^ pieceSquare PAWN f.source self ^^^ pieceSquare PAWN f.target self)
        else
          (result ^^^ pieceSquare f.pieceMoved f.source self ^^^ pieceSquare f.pieceMoved f.target self, pawn)
      if f.pieceAttacked == PAWN then (result, pawn ^^^ pieceSquare PAWN f.target opp)
      else (result ^^^ pieceSquare f.pieceAttacked f.target opp, pawn)
  (result ^^^ pawn, pawn)

end Inkayaku.Zobrist
