/-! Shared helpers for the line protocol (hex coding, number parsing). Core Lean only. -/
namespace Inkayaku.Util

def hexDigit (n : Nat) : Char :=
  if n < 10 then Char.ofNat (48 + n) else Char.ofNat (87 + n)

def hexVal (c : Char) : Option Nat :=
  if '0' ≤ c ∧ c ≤ '9' then some (c.toNat - 48)
  else if 'a' ≤ c ∧ c ≤ 'f' then some (c.toNat - 87)
  else if 'A' ≤ c ∧ c ≤ 'F' then some (c.toNat - 55)
  else none

def hexEncodeBytes (bs : List UInt8) : String :=
  String.ofList (bs.flatMap fun b => [hexDigit (b.toNat / 16), hexDigit (b.toNat % 16)])

def hexDecodeBytes : List Char → Option (List UInt8)
  | [] => some []
  | [_] => none
  | a :: b :: rest =>
    match hexVal a, hexVal b, hexDecodeBytes rest with
    | some x, some y, some r => some (UInt8.ofNat (16 * x + y) :: r)
    | _, _, _ => none

/-- `x:<hex>` token to raw bytes -/
def tokenBytes (tok : String) : Option (List UInt8) :=
  match tok.toList with
  | 'x' :: ':' :: rest => hexDecodeBytes rest
  | _ => none

def bytesToken (bs : List UInt8) : String := "x:" ++ hexEncodeBytes bs

def stringToken (s : String) : String := bytesToken s.toUTF8.toList

/-- decode a token to a `String`; invalid UTF-8 gives `none` -/
def tokenString (tok : String) : Option String :=
  match tokenBytes tok with
  | some bs => String.fromUTF8? (ByteArray.mk bs.toArray)
  | none => none

def joinSp (xs : List String) : String := " ".intercalate xs

end Inkayaku.Util

namespace Inkayaku.Util

/-- Unicode `White_Space` (what Rust's `str::trim` removes) -/
def isRustWhitespace (c : Char) : Bool :=
  let n := c.toNat
  (0x9 ≤ n && n ≤ 0xD) || n == 0x20 || n == 0x85 || n == 0xA0 || n == 0x1680 || (0x2000 ≤ n && n ≤ 0x200A)
    || n == 0x2028 || n == 0x2029 || n == 0x202F || n == 0x205F || n == 0x3000

def rustTrimChars (s : List Char) : List Char :=
  ((s.dropWhile isRustWhitespace).reverse.dropWhile isRustWhitespace).reverse

def rustTrim (s : String) : String := String.ofList (rustTrimChars s.toList)

end Inkayaku.Util
