/-!
Model of `inkayaku_core::fen::Fen::from_str` (core/src/fen.rs): the `FEN_REGEX` grammar, `validate_ranks`
and the clock-field check.  The regex

  ^([PNBRQKpnbrqk1-8]{1,8}(?:/[PNBRQKpnbrqk1-8]{1,8}){7}) ([bw]) (KQ?k?q?|Qk?q?|kq?|q|-) ([a-h][1-8]|-)(?: ([0-9]+) ([0-9]+))?$

is anchored at both ends and none of its character classes contains a space, so a string matches iff splitting it at
single spaces gives exactly 4 or 6 fields of the shapes below (hand translation; the `regex` crate itself is trusted).
Core Lean only.
-/
namespace Inkayaku.FenSyntax

inductive FenErr where
  | capture      -- FenParseError::InvalidCapture
  | count        -- RankWithInvalidPieceCount
  | concurrent   -- ConcurrentNumbers
deriving DecidableEq, Repr, Inhabited

structure FenFields where
  placement : List Char
  side : Char
  castling : List Char
  ep : List Char
  hasClocks : Bool
  half : Nat
  full : Nat
deriving DecidableEq, Repr, Inhabited

/-- split at every occurrence of `sep` (like Rust `str::split(char)`: n separators give n+1 pieces) -/
def splitOnChar (sep : Char) : List Char → List (List Char)
  | [] => [[]]
  | c :: cs =>
    if c = sep then [] :: splitOnChar sep cs
    else match splitOnChar sep cs with
      | [] => [[c]]            -- unreachable: result is never empty
      | p :: ps => (c :: p) :: ps

def isPlacementChar (c : Char) : Bool :=
  "PNBRQKpnbrqk12345678".toList.contains c

def isAsciiDigit (c : Char) : Bool := '0' ≤ c && c ≤ '9'

def digitVal (c : Char) : Nat := c.toNat - 48

/-- `[PNBRQKpnbrqk1-8]{1,8}` -/
def rankShapeOk (r : List Char) : Bool :=
  1 ≤ r.length && r.length ≤ 8 && r.all isPlacementChar

/-- group 1 -/
def placementShapeOk (p : List Char) : Bool :=
  let rs := splitOnChar '/' p
  rs.length == 8 && rs.all rankShapeOk

/-- group 3: `KQ?k?q?|Qk?q?|kq?|q|-` = "-" or a non-empty subsequence of "KQkq" in that order -/
def dropOpt (c : Char) : List Char → List Char
  | [] => []
  | d :: ds => if d = c then ds else d :: ds

def castlingShapeOk (s : List Char) : Bool :=
  if s = ['-'] then true
  else !s.isEmpty && (dropOpt 'q' (dropOpt 'k' (dropOpt 'Q' (dropOpt 'K' s)))).isEmpty

/-- group 4: `[a-h][1-8]|-` -/
def epShapeOk (s : List Char) : Bool :=
  match s with
  | ['-'] => true
  | [f, r] => 'a' ≤ f && f ≤ 'h' && '1' ≤ r && r ≤ '8'
  | _ => false

/-- `[0-9]+` that also parses as `u32` (leading zeros allowed) -/
def decimalValue (s : List Char) : Nat := s.foldl (fun acc c => 10 * acc + digitVal c) 0

def clockOk (s : List Char) : Bool :=
  !s.isEmpty && s.all isAsciiDigit && decimalValue s < 4294967296

/-- `c.to_digit(10).unwrap_or(1)` summed over the rank -/
def rankCount (r : List Char) : Nat := (r.map fun c => if isAsciiDigit c then digitVal c else 1).sum

def hasAdjacentDigits : List Char → Bool
  | a :: b :: rest => (isAsciiDigit a && isAsciiDigit b) || hasAdjacentDigits (b :: rest)
  | _ => false

def validateRank (r : List Char) : Option FenErr :=
  if rankCount r ≠ 8 then some .count
  else if hasAdjacentDigits r then some .concurrent
  else none

def validateRanks (p : List Char) : Option FenErr :=
  (splitOnChar '/' p).findSome? validateRank

def startposString : String := "rnbqkbnr/pppppppp/8/8/8/8/PPPPPPPP/RNBQKBNR w KQkq - 0 1"

/-- the regex match: the captured groups, or `none` -/
def regexGroups (s : List Char) : Option (List Char × Char × List Char × List Char × Option (List Char × List Char)) :=
  match splitOnChar ' ' s with
  | [p, [c], k, e] =>
    if placementShapeOk p && (c = 'b' || c = 'w') && castlingShapeOk k && epShapeOk e then some (p, c, k, e, none) else none
  | [p, [c], k, e, h, f] =>
    if placementShapeOk p && (c = 'b' || c = 'w') && castlingShapeOk k && epShapeOk e
        && !h.isEmpty && h.all isAsciiDigit && !f.isEmpty && f.all isAsciiDigit
    then some (p, c, k, e, some (h, f)) else none
  | _ => none

def parseChars (s : List Char) : Except FenErr FenFields :=
  match regexGroups s with
  | none => .error .capture
  | some (p, c, k, e, clocks) =>
    match validateRanks p with
    | some err => .error err
    | none =>
      match clocks with
      | none => .ok { placement := p, side := c, castling := k, ep := e, hasClocks := false, half := 0, full := 1 }
      | some (h, f) =>
        if clockOk h && clockOk f then
          .ok { placement := p, side := c, castling := k, ep := e, hasClocks := true, half := decimalValue h, full := decimalValue f }
        else .error .capture

/-- `Fen::from_str` -/
def parse (s : String) : Except FenErr FenFields :=
  if s = "startpos" then parseChars startposString.toList else parseChars s.toList

def isValid (s : String) : Bool := match parse s with | .ok _ => true | .error _ => false

end Inkayaku.FenSyntax
