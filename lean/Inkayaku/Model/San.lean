import Inkayaku.Model.Board
import Inkayaku.Model.Util
/-!
Model of the UCI-text and SAN functions of board/src/board.rs: `find_uci`, `make_uci`, `make_all_uci`,
`pgn_to_bb` (with a hand translation of `PGN_REGEX`, leftmost-first priority) and `uci_to_pgn`.
Every function returns the board it leaves behind, so that "a rejected move changes nothing" is a statement
about the model and not an assumption.
-/
namespace Inkayaku.San
open Inkayaku.Board Inkayaku.Util

inductive UciErr where
  | notExist
  | notValid
deriving DecidableEq, Repr, Inhabited

/-- `find_uci`: (result, board afterwards) -/
def findUci (b : Board) (s : String) : Except UciErr Move × Board :=
  let uci := rustTrim s
  match (genPseudo b).find? (fun m => m.uci == uci) with
  | none => (.error .notExist, b)
  | some m =>
    let b1 := make b m
    if !isValid b1 then (.error .notValid, unmake b1 m)
    else (.ok m, unmake b1 m)

/-- `make_uci` -/
def makeUci (b : Board) (s : String) : Except UciErr Unit × Board :=
  match findUci b s with
  | (.ok m, b') => (.ok (), make b' m)
  | (.error e, b') => (.error e, b')

/-- `make_all_uci` with its rollback list -/
def makeAllUciAux : Board → List String → List Move → Except UciErr Unit × Board
  | b, [], _ => (.ok (), b)
  | b, s :: rest, made =>
    match findUci b s with
    | (.ok m, b') => makeAllUciAux (make b' m) rest (m :: made)
    | (.error e, b') => (.error e, made.foldl (fun acc m => unmake acc m) b')

def makeAllUci (b : Board) (ss : List String) : Except UciErr Unit × Board := makeAllUciAux b ss []

/-! ### PGN_REGEX

`^(?:(?:(?P<piece>[BNRQK])?(?P<from_file>[a-h])?(?P<from_rank>[1-8])?(?P<takes>x)?(?P<target>[a-h][1-8])(?:=(?P<promotion>[BNRQ]))?)|(?P<castle>O-O(?P<long_castle>-O)?))(?P<check>[+#])?(?P<annotation>[!?]+)?$`
-/

structure SanCaps where
  piece : Option Char := none
  fromFile : Option Char := none
  fromRank : Option Char := none
  takes : Bool := false
  target : Option (Char × Char) := none
  promotion : Option Char := none
  castle : Bool := false
  longCastle : Bool := false
deriving DecidableEq, Repr, Inhabited

def isFileChar (c : Char) : Bool := 'a' ≤ c && c ≤ 'h'
def isRankChar (c : Char) : Bool := '1' ≤ c && c ≤ '8'

/-- `(?P<check>[+#])?(?P<annotation>[!?]+)?$` -/
def suffixOk (s : List Char) : Bool :=
  let s := match s with
    | c :: rest => if c == '+' || c == '#' then rest else s
    | [] => s
  s.all fun c => c == '!' || c == '?'

/-- target, optional promotion, suffix -/
def matchTail (caps : SanCaps) (s : List Char) : Option SanCaps :=
  match s with
  | f :: r :: rest =>
    if isFileChar f && isRankChar r then
      let caps := { caps with target := some (f, r) }
      match rest with
      | '=' :: p :: rest' =>
        if "BNRQ".toList.contains p && suffixOk rest' then some { caps with promotion := some p }
        else if suffixOk rest then some caps else none
      | _ => if suffixOk rest then some caps else none
    else none
  | _ => none

/-- optional single-character group with greedy-then-backtrack priority -/
def optChar (ok : Char → Bool) (s : List Char) (k : Option Char → List Char → Option SanCaps) : Option SanCaps :=
  match s with
  | c :: rest =>
    if ok c then
      match k (some c) rest with
      | some r => some r
      | none => k none s
    else k none s
  | [] => k none s

def matchMove (s : List Char) : Option SanCaps :=
  optChar (fun c => "BNRQK".toList.contains c) s fun piece s =>
  optChar isFileChar s fun ff s =>
  optChar isRankChar s fun fr s =>
  optChar (· == 'x') s fun x s =>
  matchTail { piece, fromFile := ff, fromRank := fr, takes := x.isSome } s

def matchCastle (s : List Char) : Option SanCaps :=
  match s with
  | 'O' :: '-' :: 'O' :: rest =>
    match rest with
    | '-' :: 'O' :: rest' =>
      if suffixOk rest' then some { castle := true, longCastle := true }
      else if suffixOk rest then some { castle := true } else none
    | _ => if suffixOk rest then some { castle := true } else none
  | _ => none

def sanCaptures (s : List Char) : Option SanCaps :=
  match matchMove s with
  | some c => some c
  | none => matchCastle s

def fileIdx (c : Char) : Nat := c.toNat - 97
/-- row index (0 = rank 8) of a rank character -/
def rowIdx (c : Char) : Nat := 8 - (c.toNat - 48)

def pieceOfLetter (c : Char) : Nat :=
  match c with
  | 'K' => KING | 'Q' => QUEEN | 'R' => ROOK | 'B' => BISHOP | 'N' => KNIGHT | _ => 99

/-- `pgn_to_bb` (the board is not modified: every probe is `is_move_legal` = make, test, unmake) -/
def sanToMove (b : Board) (san : String) : Option Move :=
  match sanCaptures san.toList with
  | none => none
  | some caps =>
    let moves := genLegal b
    let fileOk (m : Move) := match caps.fromFile with | some c => m.f.source % 8 == fileIdx c | none => true
    let rankOk (m : Move) := match caps.fromRank with | some c => m.f.source / 8 == rowIdx c | none => true
    let targetOk (m : Move) := match caps.target with
      | some (f, r) => m.f.target == fileIdx f + 8 * rowIdx r
      | none => false
    let cands :=
      match caps.piece with
      | some p =>
        moves.filter fun (m : Move) => m.f.pieceMoved == pieceOfLetter p && (!caps.takes || m.isAttack) && fileOk m && rankOk m && targetOk m
      | none =>
        if caps.castle then
          moves.filter fun (m : Move) => m.f.castle && m.f.target % 8 == (if caps.longCastle then 2 else 6)
        else
          moves.filter fun (m : Move) => m.f.pieceMoved == PAWN && (!caps.takes || m.isAttack)
            && (match caps.promotion with
                | some p => m.isPromotion && m.f.promotion == pieceOfLetter p
                | none => true)
            && fileOk m && targetOk m
    match cands.filter (isMoveLegal b) with
    | [m] => some m
    | _ => none

def upperPieceLetter : Nat → String
  | 1 => "P" | 2 => "N" | 3 => "B" | 4 => "R" | 5 => "Q" | 6 => "K" | _ => ""

/-- `uci_to_pgn` -/
def uciToSan (b : Board) (s : String) : Except UciErr String × Board :=
  let uci := rustTrim s
  let moves := genPseudo b
  match moves.find? (fun m => m.uci == uci) with
  | none => (.error .notExist, b)
  | some result =>
    let b1 := make b result
    if !isValid b1 then (.error .notValid, unmake b1 result)
    else
      let isCheck := isCurrentInCheck b1
      let isMate := isCheck && !isAnyMoveLegal b1 (genPseudo b1)
      let b2 := unmake b1 result
      let f := result.f
      let cands := moves.filter fun (m : Move) => isMoveLegal b2 m && m.f.target == f.target && m.f.pieceMoved == f.pieceMoved
      let shareRank := cands.any fun (m : Move) => m.f.source / 8 == f.source / 8 && m.f.source % 8 != f.source % 8
      let shareFile := cands.any fun (m : Move) => m.f.source % 8 == f.source % 8 && m.f.source / 8 != f.source / 8
      let anyOther := cands.any fun (m : Move) => m.f.source != f.source
      let isPawn := f.pieceMoved == PAWN
      let captures := 1 ≤ f.pieceAttacked && f.pieceAttacked ≤ 6
      let fileS := String.ofList [fileChar f.source]
      let rankS := String.ofList [rankChar f.source]
      let piece := if !isPawn then upperPieceLetter f.pieceMoved else if captures then fileS else ""
      let disamb :=
        if shareFile && isPawn then fileS
        else if !shareFile && !isPawn && anyOther then fileS
        else if shareFile && shareRank && !isPawn then fileS ++ rankS
        else if shareFile && !shareRank && !isPawn then rankS
        else ""
      let capture := if captures then "x" else ""
      let promo := if 1 ≤ f.promotion && f.promotion ≤ 6 then "=" ++ upperPieceLetter f.promotion else ""
      let checkStr := if isMate then "#" else if isCheck then "+" else ""
      let castle : Option String :=
        if f.pieceMoved == KING then
          if f.source % 8 == 4 && f.target % 8 == 6 then some "O-O"
          else if f.source % 8 == 4 && f.target % 8 == 2 then some "O-O-O" else none
        else none
      match castle with
      | some c => (.ok (c ++ checkStr), b2)
      | none => (.ok (piece ++ disamb ++ capture ++ squareString f.target ++ promo ++ checkStr), b2)

end Inkayaku.San
