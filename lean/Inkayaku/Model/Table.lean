import Inkayaku.Spec.FifoMap
/-!
Model of `HashTable<K, V>` in engine_core/src/engine/table.rs (the keyed table behind the transposition table).

    pub struct HashTable<K, V> { capacity: usize, entry_list: VecDeque<K>, entry_map: HashMap<K, V, _> }

* `entry_list : VecDeque<K>` is a `List K`, head = front = oldest (`push_back` = `++ [k]`, `pop_front` = head/tail).
* `entry_map : HashMap<K, V>` is an association list with pairwise distinct keys.  Only the `HashMap` API that the
  Rust uses is modelled (`insert` returning the previous value, `remove`, `get`, `len`, `clear`).  The order of the
  association list is a representation detail: nothing below (abstraction function, theorems) depends on it.
* `pop_front().unwrap()` on an empty queue sets the `panicked` flag (sticky) and leaves the rest of the state as it
  is at that program point; C18 proves that this never happens.
* `load_factor` (`len as f32 / capacity as f32`) is not modelled (no floats in the protocol); it is a function of
  `len` and `capacity` only.
* `usize` overflow is not modelled (a table of 2^64 entries does not fit in memory).

The only import is the interface vocabulary `Op`/`Out` of Spec/FifoMap.lean.  Core Lean only.
-/
namespace Inkayaku.Table

open Inkayaku.FifoMap (Op Out)

variable {K V : Type} [DecidableEq K]

/-! ### the part of `HashMap` that is used -/

/-- `HashMap::get` -/
def mapGet : List (K × V) → K → Option V
  | [], _ => none
  | (k', v) :: rest, k => if k' = k then some v else mapGet rest k

/-- `HashMap::insert`: new map and the previous value (`None` = key was absent).
A present key keeps its slot and its key, only the value changes. -/
def mapInsert (m : List (K × V)) (k : K) (v : V) : List (K × V) × Option V :=
  match mapGet m k with
  | some old => (m.map (fun e => if e.1 = k then (e.1, v) else e), some old)
  | none     => (m ++ [(k, v)], none)

/-- `HashMap::remove` (the returned value is ignored by the caller) -/
def mapRemove (m : List (K × V)) (k : K) : List (K × V) :=
  m.filter (fun e => decide (e.1 ≠ k))

/-- `HashMap::len` -/
def mapLen (m : List (K × V)) : Nat := m.length

/-! ### `HashTable` -/

structure State (K V : Type) where
  cap : Nat
  queue : List K
  map : List (K × V)
  panicked : Bool
deriving Repr

/-- `HashTable::new` -/
def new (cap : Nat) : State K V := { cap := cap, queue := [], map := [], panicked := false }

/-- `HashTable::clear` -/
def clear (s : State K V) : State K V := { s with queue := [], map := [] }

/-- first statement of `put`:
`if self.entry_map.insert(key, value).is_none() { self.entry_list.push_back(key); }` -/
def insertPhase (s : State K V) (k : K) (v : V) : State K V :=
  let r := mapInsert s.map k v
  { s with map := r.1, queue := if r.2.isNone then s.queue ++ [k] else s.queue }

/-- second statement of `put`:
`if self.entry_map.len() > self.capacity { let remove_key = self.entry_list.pop_front().unwrap();
                                           self.entry_map.remove(&remove_key); }` -/
def evictPhase (s : State K V) : State K V :=
  if mapLen s.map > s.cap then
    match s.queue with
    | [] => { s with panicked := true }                                  -- `None.unwrap()`
    | removeKey :: rest => { s with queue := rest, map := mapRemove s.map removeKey }
  else s

/-- `HashTable::put`: the two statements in sequence -/
def put (s : State K V) (k : K) (v : V) : State K V :=
  evictPhase (insertPhase s k v)

/-- `HashTable::get` -/
def get (s : State K V) (k : K) : Option V := mapGet s.map k

/-- `HashTable::len` -/
def len (s : State K V) : Nat := mapLen s.map

/-! ### operation sequences -/

def step (s : State K V) : Op K V → State K V × Option (Out V)
  | .put k v => (put s k v, none)
  | .get k   => (s, some (.value (get s k)))
  | .clear   => (clear s, none)
  | .len     => (s, some (.size (len s)))

/-- run a sequence of operations: final state and the answers in order -/
def run (s : State K V) : List (Op K V) → State K V × List (Out V)
  | [] => (s, [])
  | op :: ops =>
    let r := step s op
    let rest := run r.1 ops
    (rest.1, r.2.toList ++ rest.2)

/-! ### line protocol: `table <cap> <op> ...` with `p:<k>:<v>`, `g:<k>`, `c`, `l` -/

/-- decimal natural: one or more ASCII digits, nothing else -/
def parseNat (cs : List Char) : Option Nat :=
  if cs.isEmpty then none
  else if cs.all (fun c => '0' ≤ c && c ≤ '9') then
    some (cs.foldl (fun n c => 10 * n + (c.toNat - 48)) 0)
  else none

/-- split at every `sep` (n separators give n+1 pieces) -/
def splitChars (sep : Char) : List Char → List (List Char)
  | [] => [[]]
  | c :: cs =>
    if c = sep then [] :: splitChars sep cs
    else match splitChars sep cs with
      | [] => [[c]]            -- unreachable: the result is never empty
      | p :: ps => (c :: p) :: ps

def parseOp (tok : String) : Option (Op Nat Nat) :=
  match splitChars ':' tok.toList with
  | [['p'], k, v] =>
    match parseNat k, parseNat v with
    | some k, some v => some (.put k v)
    | _, _ => none
  | [['g'], k] =>
    match parseNat k with
    | some k => some (.get k)
    | none => none
  | [['c']] => some .clear
  | [['l']] => some .len
  | _ => none

def parseOps : List String → Option (List (Op Nat Nat))
  | [] => some []
  | t :: ts =>
    match parseOp t, parseOps ts with
    | some o, some os => some (o :: os)
    | _, _ => none

def showOut : Out Nat → String
  | .value (some v) => toString v
  | .value none => "-"
  | .size n => toString n

def handleTable (args : List String) : String :=
  match args with
  | [] => "bad-request"
  | capTok :: opToks =>
    match parseNat capTok.toList, parseOps opToks with
    | some cap, some ops =>
      let r := run (new cap : State Nat Nat) ops
      if r.1.panicked then "PANIC"
      else " ".intercalate (r.2.map showOut ++ ["|", toString (len r.1), toString r.1.queue.length])
    | _, _ => "bad-request"

#guard handleTable ["2", "p:1:10", "p:2:20", "g:1", "p:3:30", "g:1", "l"] = "10 - 2 | 2 2"
#guard handleTable ["2", "p:1:10", "p:2:20", "p:3:30", "p:1:11", "g:1", "g:2", "g:3", "c", "l", "g:3"] = "11 - 30 0 - | 0 0"
#guard handleTable ["0", "p:1:10", "g:1", "l"] = "- 0 | 0 0"
#guard handleTable ["3"] = "| 0 0"
#guard handleTable [] = "bad-request"
#guard handleTable ["2", "p:1"] = "bad-request"
#guard handleTable ["2", "g:"] = "bad-request"
#guard handleTable ["x", "l"] = "bad-request"
#guard handleTable ["2", "p:1:+3"] = "bad-request"

end Inkayaku.Table
