import Inkayaku.Model.Board
/-!
The decidable well-formedness predicate `wf` ("legal position" in the sense of the theorems) and the *visible*
part of a board (everything except the scratch occupancy slot 0 that `make`/`unmake` scribble on).
-/
namespace Inkayaku.WF
open Inkayaku.Board

/-- the chess position held by a `Side`: all fields except the scratch word -/
def visSide (s : Side) : Side := { s with o0 := 0 }

/-- the chess position held by a `Board` -/
def vis (b : Board) : Board := { b with white := visSide b.white, black := visSide b.black }


def disjointAll (xs : List UInt64) : Bool :=
  let rec go (acc : UInt64) : List UInt64 → Bool
    | [] => true
    | x :: rest => (acc &&& x == 0) && go (acc ||| x) rest
  go 0 xs

def popcount (x : UInt64) : Nat := (bitsAsc x).length

def rank18U : UInt64 := (Gen.rank1 ||| Gen.rank8).toUInt64

/-- decidable "legal position":
(1) the twelve piece sets are pairwise disjoint; (2) exactly one king per side; (3) no pawn on rank 1 or 8;
(4) the side NOT to move is not in check; (5) a castling right implies king and rook on their home squares;
(6) no e.p. square, or it lies behind an enemy pawn that can just have made a double step;
(7) `1 ≤ fullmove < 2^31`, `halfmove ≤ 4095` (12-bit undo field), turn is 0 or 1. -/
def wf (b : Board) : Bool :=
  let w := b.white
  let k := b.black
  disjointAll [w.pawns, w.knights, w.bishops, w.rooks, w.queens, w.kings, k.pawns, k.knights, k.bishops, k.rooks, k.queens, k.kings]
  && popcount w.kings == 1 && popcount k.kings == 1
  && (w.pawns ||| k.pawns) &&& rank18U == 0
  && b.turn ≤ 1
  && isValid b
  && (!w.ks || (testU w.kings E1 && testU w.rooks H1)) && (!w.qs || (testU w.kings E1 && testU w.rooks A1))
  && (!k.ks || (testU k.kings E8 && testU k.rooks H8)) && (!k.qs || (testU k.kings E8 && testU k.rooks A8))
  && (b.ep == 0 ||
      (let full := w.full ||| k.full
       if b.turn == 0 then  -- white to move: black pawn went from rank 7 to rank 5, ep square on rank 6 (row 2)
         b.ep / 8 == 2 && testU k.pawns (b.ep + 8) && !testU full b.ep && !testU full (b.ep - 8)
       else
         b.ep / 8 == 5 && testU w.pawns (b.ep - 8) && !testU full b.ep && !testU full (b.ep + 8)))
  && 1 ≤ b.fullmove && b.fullmove < 2147483648 && b.halfmove ≤ 4095


end Inkayaku.WF
