import Inkayaku.Spec.Minimax
import Inkayaku.Model.Search
import Inkayaku.Model.ChessOps
/-!
The minimax specification of the search (property C08) instantiated on the board model, and the executable oracle
`spec-search` of the line protocol.

Positions are pairs `(board, only)`: `only` is the `searchmoves` restriction, which applies to the root alone
(`[]` = no restriction, as in the engine); every child has `only = []`.

* moves            = the legal moves (`genLegal`), at the root restricted to `only`;
* terminal value   = `evalFor b b.turn false`: mated = −(2^24 − fullmove), stalemate = 0 — from the mover's view;
* horizon value    = the code's rule: some PSEUDO-legal move is a capture or a promotion → capture resolution, else the
                     static value `evalFor b b.turn true`;
* capture children = the legal moves among `genNonQuiescent b`; stand-pat = `evalFor b b.turn true`; quiescence never
                     tests for mate (a mated side without capture "stands pat").

`specValue` runs the VERIFIED alpha-beta `Minimax.ab` (natural move order, full window; captures by descending
MVV-LVA, which `quiescence_clamp` shows to be irrelevant) – Props/C08 proves it equal to the plain minimax `Minimax.mm`.
Core Lean only.
-/
namespace Inkayaku.SpecSearch
open Inkayaku.Board Inkayaku.Eval Inkayaku.Minimax

abbrev Pos := Board × List String

def rootMoves (b : Board) (only : List String) : List Move :=
  if only.isEmpty then genLegal b else (genLegal b).filter fun m => only.contains m.uci

def legalCaptures (b : Board) : List Move := (genNonQuiescent b).filter (isMoveLegal b)

/-- the horizon test of `search_negamax` (on the unrestricted pseudo-legal buffer; the root is never a horizon node) -/
def noisy (b : Board) : Bool := (genPseudo b).any fun m => m.isAttack || m.isPromotion

def quiescenceFuel : Nat := 64

/-- the game the engine searches -/
def chess : SearchGame Pos Move :=
  { moves := fun p => rootMoves p.1 p.2
    child := fun p m => (make p.1 m, [])
    term := fun p => Search.evalFor p.1 p.1.turn false
    captures := fun p => legalCaptures p.1
    standPat := fun p => Search.evalFor p.1 p.1.turn true
    noisy := fun p => noisy p.1
    static := fun p => Search.evalFor p.1 p.1.turn true
    loss := lossScore
    fuel := quiescenceFuel }

/-- no reordering -/
def natural : Pos → List Move → List Move := fun _ l => l

/-- captures by descending MVV-LVA (stable), as `MvvLvaMoveOrder::sort` without hints -/
def byMvvLva : Pos → List Move → List Move := fun _ l => l.mergeSort fun a b => a.mvvlva ≥ b.mvvlva

/-- the specification game (exact horizon values) together with the windowed horizon evaluator -/
def game : Game Pos Move := chess.game byMvvLva

/-- the verified alpha-beta, full window `[lossScore, winScore]` -/
def specSearch (depth : Nat) (p : Pos) : Int × Option Move := ab game natural depth p lossScore (-lossScore)

/-- exact minimax value of depth `depth` (see `C08.specValue_eq_mm`) -/
def specValue (depth : Nat) (b : Board) : Int := (specSearch depth (b, [])).1

/-- the same with a `searchmoves` restriction at the root -/
def specValueOnly (depth : Nat) (b : Board) (only : List String) : Int := (specSearch depth (b, only)).1

/-- every root move with its exact value (each child is searched on its own with the full window) -/
def rootValues (depth : Nat) (b : Board) (only : List String) : List (Move × Int) :=
  (rootMoves b only).map fun m => (m, - specValue (depth - 1) (make b m))

/-- all root moves attaining the value, as UCI strings -/
def specBestMovesOnly (depth : Nat) (b : Board) (only : List String) : List String :=
  let v := specValueOnly depth b only
  ((rootValues depth b only).filter fun mv => mv.2 == v).map fun mv => mv.1.uci

def specBestMoves (depth : Nat) (b : Board) : List String := specBestMovesOnly depth b []

def renderValue (v : Int) (b : Board) : String := (scoreFromValue v b).render

def specScore (depth : Nat) (b : Board) : String := renderValue (specValue depth b) b

/-- `spec-search <fen_> <depth> [searchmove …]` → `<score> <best1,best2,…>` | `nomoves` -/
def handleSpecSearch (args : List String) : String :=
  match args with
  | f :: d :: only =>
    match d.toNat? with
    | some depth =>
      if depth == 0 then "bad-request" else
      ChessOps.withBoard f fun b =>
        if (rootMoves b only).isEmpty then "nomoves"
        else s!"{renderValue (specValueOnly depth b only) b} {ChessOps.sortedJoin (specBestMovesOnly depth b only)}"
    | none => "bad-request"
  | _ => "bad-request"

end Inkayaku.SpecSearch
