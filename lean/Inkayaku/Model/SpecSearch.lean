import Inkayaku.Spec.Minimax
import Inkayaku.Model.Search
import Inkayaku.Model.ChessOps
/-!
The minimax specification of the search (property C08) instantiated on the board model, and the executable oracle
`spec-search` of the line protocol.

Positions are pairs `(board, only)`: `only` is the `searchmoves` restriction, which applies to the root alone
(`[]` = no restriction, as in the engine); every child has `only = []`.

* moves            = the legal moves (`genLegal`), at the root restricted to `only`;
* terminal value   = `evalFor b b.turn false`: mated = −(2^24 − fullmove), stalemate = 0 — from the mover's view;
* horizon value    = the code's rule: some PSEUDO-legal move is a capture or a promotion → capture resolution, else the
                     static value `evalFor b b.turn true`;
* capture children = the legal moves among `genNonQuiescent b`; stand-pat = `evalFor b b.turn true`; quiescence never
                     tests for mate (a mated side without capture "stands pat").

`specValue` runs the VERIFIED alpha-beta `Minimax.ab` with the full window – Props/C08 proves it equal to the plain
minimax `Minimax.mm` for EVERY move order (`specValue_eq_mm`, `specValue_order_irrelevant`).  The oracle visits moves
and captures by descending MVV-LVA (`searchOrder`): with the generator's natural order the depth-3 search of a
middlegame position takes minutes instead of seconds (measured 155 s vs 2.8 s), the values are the same.
Core Lean only.
-/
namespace Inkayaku.SpecSearch
open Inkayaku.Board Inkayaku.Eval Inkayaku.Minimax

abbrev Pos := Board × List String

def rootMoves (b : Board) (only : List String) : List Move :=
  if only.isEmpty then genLegal b else (genLegal b).filter fun m => only.contains m.uci

def legalCaptures (b : Board) : List Move := (genNonQuiescent b).filter (isMoveLegal b)

/-- the horizon test of `search_negamax` (on the unrestricted pseudo-legal buffer; the root is never a horizon node) -/
def noisy (b : Board) : Bool := (genPseudo b).any fun m => m.isAttack || m.isPromotion

def quiescenceFuel : Nat := 64

/-- the game the engine searches -/
def chess : SearchGame Pos Move :=
  { moves := fun p => rootMoves p.1 p.2
    child := fun p m => (make p.1 m, [])
    term := fun p => Search.evalFor p.1 p.1.turn false
    captures := fun p => legalCaptures p.1
    standPat := fun p => Search.evalFor p.1 p.1.turn true
    noisy := fun p => noisy p.1
    static := fun p => Search.evalFor p.1 p.1.turn true
    loss := lossScore
    fuel := quiescenceFuel }

/-- no reordering -/
def natural : Pos → List Move → List Move := fun _ l => l

/-- captures by descending MVV-LVA (stable), as `MvvLvaMoveOrder::sort` without hints -/
def byMvvLva : Pos → List Move → List Move := fun _ l => l.mergeSort fun a b => a.mvvlva ≥ b.mvvlva

/-- the specification game (exact horizon values) together with the windowed horizon evaluator -/
def game : Game Pos Move := chess.game byMvvLva

/-- the move order used by the oracle (any order gives the same values: `C08.order_irrelevant`) -/
def searchOrder : Pos → List Move → List Move := byMvvLva

/-- the verified alpha-beta, full window `[lossScore, winScore]` -/
def specSearch (depth : Nat) (p : Pos) : Int × Option Move := ab game searchOrder depth p lossScore (-lossScore)

/-- exact minimax value of depth `depth` (see `C08.specValue_eq_mm`) -/
def specValue (depth : Nat) (b : Board) : Int := (specSearch depth (b, [])).1

/-- the same with a `searchmoves` restriction at the root -/
def specValueOnly (depth : Nat) (b : Board) (only : List String) : Int := (specSearch depth (b, only)).1

/-- does the root move `m` attain the value `v`?  The child is searched on its own with the null window around `-v`
(`C08.attains_iff`: by the fail-soft contract the answer is `-v` exactly when the child's minimax value is `-v`);
for a value on the rim of the score range, with the full window. -/
def attains (depth : Nat) (b : Board) (v : Int) (m : Move) : Bool :=
  if lossScore < v && v < -lossScore then
    (ab game searchOrder (depth - 1) (make b m, []) (-v - 1) (-v + 1)).1 == -v
  else (specSearch (depth - 1) (make b m, [])).1 == -v

/-- all root moves attaining the value, as UCI strings -/
def specBestMovesOnly (depth : Nat) (b : Board) (only : List String) : List String :=
  let v := specValueOnly depth b only
  ((rootMoves b only).filter (attains depth b v)).map Move.uci

def specBestMoves (depth : Nat) (b : Board) : List String := specBestMovesOnly depth b []

/-! ## Forced mate (specification side of the second half of C08) -/

/-- checkmated: no legal move and in check -/
def Checkmated (b : Board) : Prop := genLegal b = [] ∧ isCurrentInCheck b = true

/-- the move `m` mates at once, or the opponent has replies and after each of them the mover can force mate in `n` -/
def KeepsMate (F : Board → Prop) (b : Board) (m : Move) : Prop :=
  Checkmated (make b m) ∨ (genLegal (make b m) ≠ [] ∧ ∀ m' ∈ genLegal (make b m), F (make (make b m) m'))

/-- the side to move can force mate in at most `n` moves of its own, against every defence -/
def ForcedMate : Nat → Board → Prop
  | 0, _ => False
  | n + 1, b => ∃ m ∈ genLegal b, KeepsMate (ForcedMate n) b m

/-- the full-move number at which a mate delivered by the `n`-th move of the side to move in `b` stands on the board
(`make` advances the number after a black move) -/
def mateFull (b : Board) (n : Nat) : Int := (b.fullmove : Int) + (n : Int) - 1 + (b.turn : Int)

def renderValue (v : Int) (b : Board) : String := (scoreFromValue v b).render

def specScore (depth : Nat) (b : Board) : String := renderValue (specValue depth b) b

/-- `spec-search <fen_> <depth> [searchmove …]` → `<score> <best1,best2,…>` | `nomoves` -/
def handleSpecSearch (args : List String) : String :=
  match args with
  | f :: d :: only =>
    match d.toNat? with
    | some depth =>
      if depth == 0 then "bad-request" else
      ChessOps.withBoard f fun b =>
        if (rootMoves b only).isEmpty then "nomoves"
        else s!"{renderValue (specValueOnly depth b only) b} {ChessOps.sortedJoin (specBestMovesOnly depth b only)}"
    | none => "bad-request"
  | _ => "bad-request"

end Inkayaku.SpecSearch
