import Inkayaku.Model.Search
import Inkayaku.Model.Uci
import Inkayaku.Model.ChessOps
/-!
Model side of the `session` op (see /verif/harness/src/engine_ops.rs).  The answer is the PROJECTION of the engine's
output that the properties speak about: per go, for every iteration info `D:<depth>:<score>:<pv>` and
`B:<bestmove>:<ponder>`; node counts, times, nps and hashfull are deliberately not part of it, and the
intermediate poll infos (without depth) are dropped.  The Python side projects the implementation's answer the
same way before comparing.
-/
namespace Inkayaku.SessionOps
open Inkayaku.Search Inkayaku.Board

def renderMoves (ms : List Move) : String := if ms.isEmpty then "-" else ",".intercalate (ms.map Move.uci)

def renderOut : Out → Option String
  | .info (some d) _ _ score pv =>
    some s!"D:{d}:{match score with | some s => s.render | none => "-"}:{match pv with | some l => renderMoves l | none => "-"}"
  | .info none _ _ _ _ => none
  | .bestMove b p =>
    some s!"B:{match b with | some m => m.uci | none => "0000"}:{match p with | some m => m.uci | none => "-"}"

def goParamsOf (g : Uci.Go) : GoParams :=
  { searchMoves := g.searchMoves.map fun m => String.ofList m.render
    wtime := g.wtime, btime := g.btime, winc := g.winc, binc := g.binc, depth := g.depth
    moveTime := g.moveTime.map (· * 1000000) }

def splitCmds (toks : List String) : List (List String) :=
  let rec go (cur : List String) (acc : List (List String)) : List String → List (List String)
    | [] => (if cur.isEmpty then acc else cur.reverse :: acc).reverse
    | t :: rest => if t == ";" then go [] (if cur.isEmpty then acc else cur.reverse :: acc) rest else go (t :: cur) acc rest
  go [] [] toks

def optNum (t : String) : Option Nat := if t == "-" then none else t.toNat?

def runGo (s : St) (args : List String) (interrupt : Option (Bool × Nat)) (maxIter : Nat) : Option (String × St) :=
  match Uci.parseLine (" ".intercalate ("go" :: args)) with
  | .ok (.go g) =>
    let s0 := { s with out := [] }
    let s0 := match interrupt with
      | some (q, n) => { s0 with pollPeriod := n, pending := [if q then Msg.quit else Msg.stop] }
      | none => s0
    let s1 := goCmd s0 (goParamsOf g) maxIter
    -- a message not consumed during the search is consumed by idle afterwards
    let quitAfter := match interrupt with
      | some (q, _) => q && (s1.quit || !s1.pending.isEmpty)
      | none => false
    let outs := s1.out.reverse.filterMap renderOut
    some (if outs.isEmpty then "-" else " ".intercalate outs,
          { s1 with pending := [], pollPeriod := s.pollPeriod, quit := quitAfter, out := [] })
  | _ => none

/-- a message waiting in the channel behind a `go` (`midgo`); a position message carries its board -/
inductive Pend where
  | msg (m : Msg)
  | pos (b : Board)

def Pend.toMsg : Pend → Msg
  | .msg m => m
  | .pos _ => .position

def pendOf (t : String) : Option Pend :=
  match t with
  | "new" => some (.msg .newGame)
  | "stop" => some (.msg .stop)
  | "quit" => some (.msg .quit)
  | "ponderhit" => some (.msg .ponderHit)
  | "debugon" => some (.msg (.debug true))
  | "debugoff" => some (.msg (.debug false))
  | _ =>
    if t.startsWith "pos=" then
      match Uci.parseLine ("position fen " ++ ChessOps.fenArg ((t.drop 4).toString)) with
      | .ok (.positionFrom fenChars _) =>
        match FenBoard.fromFenString (String.ofList fenChars) with
        | .ok b => some (.pos b)
        | .error _ => none
      | _ => none
    else none

/-- `idle` consuming one message that the search left in the channel -/
def idleStep (s : St) (p : Pend) : St :=
  if s.quit then s else
  match p with
  | .msg .newGame => { s with resetNext := true }
  | .msg .quit => { s with quit := true }
  | .pos b => setPosition s b []
  | _ => s

/-- `midgo`: go with arbitrary messages waiting behind it -/
def runGoPending (s : St) (args : List String) (pend : List Pend) (n : Nat) (maxIter : Nat) : Option (String × St) :=
  match Uci.parseLine (" ".intercalate ("go" :: args)) with
  | .ok (.go g) =>
    let s0 := { s with out := [], pollPeriod := n, pending := pend.map Pend.toMsg }
    let s1 := goCmd s0 (goParamsOf g) maxIter
    let outs := s1.out.reverse.filterMap renderOut
    -- not consumed during the search (no poll happened): idle consumes them afterwards
    let s2 := if s1.pending.isEmpty then s1 else pend.foldl idleStep s1
    some (if outs.isEmpty then "-" else " ".intercalate outs,
          { s2 with pending := [], pollPeriod := s.pollPeriod, out := [] })
  | _ => none

/-- iteration bound for the model: explicit depth, else 200 (only interrupted / time-limited searches have no
depth; the generators size the virtual clock so that they stop long before) -/
def iterBound (args : List String) : Nat :=
  let rec find : List String → Option Nat
    | "depth" :: d :: _ => d.toNat?
    | _ :: rest => find rest
    | [] => none
  match find args with
  | some d => max d 1
  | none => 200

def handleSession (args : List String) : String :=
  let cmds := splitCmds args
  let rec go (s : St) (acc : List String) : List (List String) → String
    | [] => " ; ".intercalate acc.reverse
    | cmd :: rest =>
      if s.quit then go s ("Q" :: acc) rest else
      match cmd with
      | ["new"] => go { s with resetNext := true } ("." :: acc) rest
      | "pos" :: f :: ucis =>
        let fen := if f == "startpos" then FenSyntax.startposString else ChessOps.fenArg f
        -- the harness builds `position …` text and parses it with the real UCI parser
        let text := (if f == "startpos" then "position startpos" else "position fen " ++ fen)
          ++ (if ucis.isEmpty then "" else " moves " ++ " ".intercalate ucis)
        match Uci.parseLine text with
        | .ok (.positionFrom fenChars ms) =>
          match FenBoard.fromFenString (String.ofList fenChars) with
          | .ok b => go (setPosition s b (ms.map fun m => String.ofList m.render)) ("." :: acc) rest
          | .error _ => go s ("E" :: acc) rest
        | _ => go s ("E" :: acc) rest
      | "go" :: a =>
        match runGo s a none (iterBound a) with
        | some (o, s') => go s' (o :: acc) rest
        | none => go s ("E" :: acc) rest
      | "stopgo" :: n :: a =>
        match runGo s a (some (false, (optNum n).getD 100000)) (iterBound a) with
        | some (o, s') => go s' (o :: acc) rest
        | none => go s ("E" :: acc) rest
      | "quitgo" :: n :: a =>
        match runGo s a (some (true, (optNum n).getD 100000)) (iterBound a) with
        | some (o, s') => go s' (o :: acc) rest
        | none => go s ("E" :: acc) rest
      | "midgo" :: n :: ms :: a =>
        let toks := (ms.splitOn ",").filter fun t => t != "" && t != "-"
        let pend := toks.filterMap pendOf
        if pend.length != toks.length then go s ("E" :: acc) rest else
        match runGoPending s a pend ((optNum n).getD 100000) (iterBound a) with
        | some (o, s') => go s' (o :: acc) rest
        | none => go s ("E" :: acc) rest
      | ["clock", n] => go { s with nsPerNode := optNum n } ("." :: acc) rest
      | ["poll", n] => go { s with pollPeriod := (optNum n).getD 100000 } ("." :: acc) rest
      | ["board"] => go s (s!"F:{ChessOps.fenOut s.board}" :: acc) rest
      | _ => go s ("bad-request" :: acc) rest
  go Search.initial [] cmds

end Inkayaku.SessionOps
