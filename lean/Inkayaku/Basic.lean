def hello := "world"
