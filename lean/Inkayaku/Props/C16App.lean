import Inkayaku.Model.App
import Inkayaku.Props.C16Wf
import Inkayaku.Props.C16
import Inkayaku.Props.C07
/-!
# C16 end-to-end — the engine PROCESS (`Model/App.lean`)

"Every line the engine process writes in response to a command is a syntactically valid UCI engine-to-GUI message (only
the start-up banner is free text).  Within one search the reported depth, node count and time never decrease, […] and
the announced bestmove and ponder move are the first and second move of the last reported principal variation."

`Inkayaku.App.appRun lines cfg` is the stdout of the process for the stdin lines `lines` under the sequential schedule
(see the header of `Model/App.lean`): parser (`Uci.parseLine`, C15) → dispatcher (`Engine::accept`) → search thread
(`Search.setPosition`, `Search.goCmd`) → `EngineOut.toTx` → printer (`Console.render`).  The theorems below quantify over
**every** list of input lines (no hypothesis: garbage, unknown commands, unreadable FENs, illegal moves, `setoption`
included), every start state of the process, and every assignment of the run dependent numbers (`Cfg`: `hashfull`, `nps`,
the texts of the debug statistics — the only side condition, `CfgOk`, is that those `f64` texts contain no line break).

* `app_lines_accepted` — every stdout line after the banner is accepted by the independent grammar `UciOut.accepts`.
  This holds **unconditionally**, also when the process dies: a `setoption` line makes the main thread panic
  (`todo!()` in `Engine::accept`, exit status 101) — the panic writes nothing to stdout and nothing is written after it
  (`app_setoption_panics`, `app_dead_silent`), so the stream is cut, never malformed.  `app_panicked_iff` says exactly when
  that happens: the first line that parses to `quit` or `setoption` is a `setoption` line.  The banner itself is free
  text and is rejected by the grammar (`banner_rejected`).
* `app_one_bestmove_per_go` — the number of `bestmove` lines equals the number of lines that parse to a `go` command
  among the lines the process reads before it ends (`liveLines`: up to and including the first `quit`/`setoption`).
* `app_parse_error_silent` — a line that does not parse writes nothing and changes nothing.
* `app_isready`, `app_uci`, `app_register` — the main-thread answers, exactly.
* `app_silent_commands` — `debug`, `ucinewgame`, `position`, `stop`, `ponderhit`, `quit`, `register later` write nothing;
  `app_stop_ponderhit_inert` — `stop` and `ponderhit` change nothing at all (idle loop).
* `app_position_illegal_keeps` — a `position` whose move list is rejected leaves the state as it was;
  `position_fen_readable` — the `.error` branch of `App.runPosition` is unreachable (a FEN the parser accepted is read).
* `app_go_stream` — what one `go` line prints is the printed output of `Search.goCmd` on a state with empty output, and
  for that output: depths, node counts and times never decrease, it ends with exactly one `bestmove`, whose move and
  ponder move are the first and second move of the PV of the info printed immediately before it; no ponder move without a
  best move.  (PV legality: `C16Pv.pv_legal_line_rules`, stated on the same `goCmd`.)
* `app_run_live`, `app_after_quit_silent` — input after `quit` is never read.
-/
namespace Inkayaku.C16App
open Inkayaku.App Inkayaku.Search Inkayaku.EngineOut
open Inkayaku.Uci (UciCommand UciMove parseLine)
open Inkayaku.Console (TxMsg render renderChars)
open Inkayaku.UciOut (accepts)
open Inkayaku.C16Wf (AuxOk RatesOk)

/-! ## 0. side condition on the run dependent texts -/

/-- the `f64` texts of the debug statistics contain no line break -/
def CfgOk (cfg : Cfg) : Prop := ∀ o, RatesOk (cfg.rates o)

theorem cfgOk_default : CfgOk {} := fun _ =>
  (by decide : RatesOk ⟨"0".toList, "1".toList, "0".toList, "0".toList, "0".toList, "NaN".toList⟩)

/-- … which is the case when they are `Display` texts of `f64` values -/
theorem cfgOk_of_f64 (cfg : Cfg)
    (h : ∀ o, ∀ t ∈ [(cfg.rates o).tphitrate, (cfg.rates o).nrate, (cfg.rates o).qrate, (cfg.rates o).avgqdepth,
      (cfg.rates o).qstartedrate, (cfg.rates o).qtphitrate], t.all isF64Char = true) : CfgOk cfg := by
  intro o t ht c hc
  exact C16Wf.f64Char_noBreak (List.all_eq_true.mp (h o t ht) c hc)

theorem auxOk_auxOf {cfg : Cfg} (h : CfgOk cfg) (d : Bool) (o : Out) : AuxOk (auxOf cfg d o) := by
  intro r hr
  unfold auxOf at hr
  cases d with
  | false => cases hr
  | true =>
    have : cfg.rates o = r := by simpa using hr
    exact this ▸ h o

/-! ## 1. the state machine: dead processes, single steps -/

theorem appStep_dead (cfg : Cfg) {s : AppSt} (h : s.alive = false) (l : String) : appStep cfg s l = (s, []) := by
  unfold appStep; rw [h]; rfl

/-- a process that has ended writes nothing, whatever is sent -/
theorem app_dead_silent (cfg : Cfg) {s : AppSt} (h : s.alive = false) (ls : List String) :
    appSteps cfg s ls = (s, []) := by
  induction ls with
  | nil => rfl
  | cons l ls ih => simp only [appSteps, appStep_dead cfg h, ih, List.append_nil]

theorem appStep_ok (cfg : Cfg) {s : AppSt} (h : s.alive = true) {l : String} {c : UciCommand}
    (hp : parseLine l = .ok c) : appStep cfg s l = accept cfg s c := by
  unfold appStep; rw [h, hp]; rfl

/-- **`app_parse_error_silent`**: a line the parser rejects (empty, blank, unknown command, malformed parameters) is
reported on stderr only — no stdout line, state unchanged.  (For a dead process this holds for every line.) -/
theorem app_parse_error_silent (cfg : Cfg) (s : AppSt) {l : String} {e : Uci.ParserError}
    (hp : parseLine l = .error e) : appStep cfg s l = (s, []) := by
  unfold appStep; rw [hp]; split <;> rfl

/-- the empty line and a line of blanks are parse errors -/
example (cfg : Cfg) (s : AppSt) : appStep cfg s "" = (s, []) := app_parse_error_silent cfg s (e := .eoc) (by rfl)
example (cfg : Cfg) (s : AppSt) : appStep cfg s "  \n" = (s, []) := app_parse_error_silent cfg s (e := .eoc) (by rfl)

/-- **`app_isready`**: a live process answers `isready` by exactly `readyok` and nothing changes -/
theorem app_isready (cfg : Cfg) {s : AppSt} (h : s.alive = true) {l : String} (hp : parseLine l = .ok .isReady) :
    appStep cfg s l = (s, ["readyok"]) := by
  rw [appStep_ok cfg h hp]; rfl

theorem app_uci (cfg : Cfg) {s : AppSt} (h : s.alive = true) {l : String} (hp : parseLine l = .ok .uci) :
    appStep cfg s l =
      (s, ["id name Inkayaku", "id author Marvin Kuhnke (see https://github.com/marvk/rust-chess)", "uciok"]) := by
  rw [appStep_ok cfg h hp]; rfl

theorem app_register (cfg : Cfg) {s : AppSt} (h : s.alive = true) {l : String} {n c : List Char}
    (hp : parseLine l = .ok (.register n c)) :
    appStep cfg s l = (s, ["registration checking", "registration ok"]) := by
  rw [appStep_ok cfg h hp]; rfl

/-- **`setoption` kills the process**: `todo!()` — nothing on stdout for this line, and nothing for any later line -/
theorem app_setoption_panics (cfg : Cfg) {s : AppSt} (h : s.alive = true) {l : String}
    (hp : (∃ n, parseLine l = .ok (.setOption n)) ∨ (∃ n v, parseLine l = .ok (.setOptionValue n v)))
    (post : List String) : appSteps cfg s (l :: post) = ({ s with panicked := true }, []) := by
  have h1 : appStep cfg s l = ({ s with panicked := true }, []) := by
    rcases hp with ⟨n, hp⟩ | ⟨n, v, hp⟩ <;> rw [appStep_ok cfg h hp] <;> rfl
  simp only [appSteps, h1]
  rw [app_dead_silent cfg (by simp [AppSt.alive])]
  rfl

/-- the commands that never write to stdout -/
theorem app_silent_commands (cfg : Cfg) (s : AppSt) {l : String} {c : UciCommand} (hp : parseLine l = .ok c)
    (hc : match c with
      | .setDebug _ | .uciNewGame | .positionFrom _ _ | .stop | .ponderHit | .quit | .registerLater
      | .setOption _ | .setOptionValue _ _ => True
      | _ => False) : (appStep cfg s l).2 = [] := by
  unfold appStep; split
  · rw [hp]; cases c <;> first | rfl | exact hc.elim
  · rfl

/-- `stop` and `ponderhit` reach the idle loop (sequential schedule) and are ignored -/
theorem app_stop_ponderhit_inert (cfg : Cfg) (s : AppSt) {l : String}
    (hp : parseLine l = .ok .stop ∨ parseLine l = .ok .ponderHit) : appStep cfg s l = (s, []) := by
  unfold appStep; split
  · rcases hp with hp | hp <;> rw [hp] <;> rfl
  · rfl

/-- `debug on|off` only sets the switch -/
theorem app_debug (cfg : Cfg) {s : AppSt} (h : s.alive = true) {l : String} {d : Bool}
    (hp : parseLine l = .ok (.setDebug d)) : appStep cfg s l = ({ s with debug := d }, []) := by
  rw [appStep_ok cfg h hp]; rfl

theorem app_quit (cfg : Cfg) {s : AppSt} (h : s.alive = true) {l : String} (hp : parseLine l = .ok .quit) :
    (appStep cfg s l).2 = [] ∧ (appStep cfg s l).1.terminated = true ∧ (appStep cfg s l).1.alive = false := by
  rw [appStep_ok cfg h hp]; exact ⟨rfl, rfl, rfl⟩

/-- nothing is read after `quit` -/
theorem app_after_quit_silent (cfg : Cfg) {s : AppSt} (h : s.alive = true) {l : String} (hp : parseLine l = .ok .quit)
    (post : List String) : (appSteps cfg s (l :: post)).2 = [] := by
  simp only [appSteps]
  rw [app_dead_silent cfg (app_quit cfg h hp).2.2, (app_quit cfg h hp).1]; rfl

/-! ## 2. every stdout line is a UCI message -/

/-- the main-thread answers are lines of the grammar -/
theorem replyLines_accepted (c : UciCommand) : ∀ line ∈ replyLines c, accepts line.toList = true := by
  intro line hl
  unfold replyLines at hl
  obtain ⟨m, hm, rfl⟩ := List.mem_map.mp hl
  apply C16Console.render_accepts
  cases c <;> simp only [engineReplies, List.mem_cons, List.not_mem_nil, or_false] at hm
  all_goals first
    | exact hm.elim
    | (rcases hm with rfl | rfl | rfl <;> decide)
    | (rcases hm with rfl | rfl <;> decide)
    | (subst hm; decide)

/-- the search state a `go` line starts from: the search thread's state with the (already printed) output dropped and
no message waiting -/
def goStart (s : AppSt) : Search.St := { s.search with out := [], pending := [] }

theorem goStart_out (s : AppSt) : (goStart s).out = [] := rfl

/-- the search a `go` line runs -/
def goRun (cfg : Cfg) (s : AppSt) (g : Uci.Go) : Search.St :=
  goCmd (goStart s) (SessionOps.goParamsOf g) (maxIterOf cfg g)

theorem runGo_lines (cfg : Cfg) (s : AppSt) (g : Uci.Go) :
    (runGo cfg s g).2 = searchLines (auxOf cfg s.debug) (goRun cfg s g).out := rfl

theorem runGo_alive (cfg : Cfg) (s : AppSt) (g : Uci.Go) : (runGo cfg s g).1.alive = s.alive := rfl

/-- everything a `go` line prints is a line of the grammar — for every state of the process -/
theorem runGo_accepted {cfg : Cfg} (hcfg : CfgOk cfg) (s : AppSt) (g : Uci.Go) :
    ∀ line ∈ (runGo cfg s g).2, accepts line.toList = true := by
  obtain ⟨news, hn, -, hok⟩ := C16Wf.engine_searchLines_accepted (goStart s) (SessionOps.goParamsOf g) (maxIterOf cfg g)
    (auxOf cfg s.debug) (auxOk_auxOf hcfg s.debug)
  rw [goStart_out, List.append_nil] at hn
  rw [runGo_lines]
  unfold goRun
  rw [hn]
  exact hok

theorem accept_accepted {cfg : Cfg} (hcfg : CfgOk cfg) (s : AppSt) (c : UciCommand) :
    ∀ line ∈ (accept cfg s c).2, accepts line.toList = true := by
  cases c
  case go g => exact runGo_accepted hcfg s g
  case uci => exact replyLines_accepted .uci
  case isReady => exact replyLines_accepted .isReady
  case register n c => exact replyLines_accepted (.register n c)
  all_goals (intro line hl; cases hl)

theorem appStep_accepted {cfg : Cfg} (hcfg : CfgOk cfg) (s : AppSt) (l : String) :
    ∀ line ∈ (appStep cfg s l).2, accepts line.toList = true := by
  unfold appStep
  split
  · split
    · exact accept_accepted hcfg s _
    · intro line hl; cases hl
  · intro line hl; cases hl

theorem appSteps_accepted {cfg : Cfg} (hcfg : CfgOk cfg) (s : AppSt) (ls : List String) :
    ∀ line ∈ (appSteps cfg s ls).2, accepts line.toList = true := by
  induction ls generalizing s with
  | nil => intro line hl; cases hl
  | cons l ls ih =>
    intro line hl
    simp only [appSteps, List.mem_append] at hl
    rcases hl with hl | hl
    · exact appStep_accepted hcfg s l line hl
    · exact ih _ line hl

/-- **`app_lines_accepted`.**  For EVERY list of input lines — garbage, unknown commands, unreadable FENs, illegal moves,
`setoption` included — the first stdout line is the banner and every later line is accepted by the engine-to-GUI grammar
`UciOut.accepts`.  No "unless the process panicked" clause is needed: the panic of `setoption` (`todo!()`) writes to
stderr only and ends the output (`app_setoption_panics`, `app_panicked_iff`); what was written before it is well
formed. -/
theorem app_lines_accepted (lines : List String) (cfg : Cfg) (hcfg : CfgOk cfg) :
    ∃ out, appRun lines cfg = bannerLine :: out ∧ ∀ line ∈ out, accepts line.toList = true :=
  ⟨_, rfl, appSteps_accepted hcfg _ lines⟩

/-- … with the default run dependent numbers no hypothesis is left -/
theorem app_lines_accepted_default (lines : List String) :
    ∀ line ∈ (appRun lines).tail, accepts line.toList = true :=
  appSteps_accepted cfgOk_default _ lines

/-- the same from any state of the process (e.g. in the middle of a session) -/
theorem app_lines_accepted_from (cfg : Cfg) (hcfg : CfgOk cfg) (s : AppSt) (lines : List String) :
    ∀ line ∈ (appSteps cfg s lines).2, accepts line.toList = true :=
  appSteps_accepted hcfg s lines

/-- the banner is free text: it is the one line of stdout that is NOT a UCI message -/
theorem banner_rejected : accepts bannerLine.toList = false := by decide

/-! ## 3. which lines the process reads; when it panics -/

/-- the line ends the process: it parses to `quit` (exit 0) or to `setoption` (panic) -/
def stops (l : String) : Bool :=
  match parseLine l with
  | .ok .quit | .ok (.setOption _) | .ok (.setOptionValue _ _) => true
  | _ => false

def isSetOptionLine (l : String) : Bool :=
  match parseLine l with
  | .ok (.setOption _) | .ok (.setOptionValue _ _) => true
  | _ => false

def isGoLine (l : String) : Bool :=
  match parseLine l with
  | .ok (.go _) => true
  | _ => false

/-- the lines a process that starts alive reads and handles: up to and including the first line that ends it -/
def liveLines : List String → List String
  | [] => []
  | l :: ls => if stops l then [l] else l :: liveLines ls

/-- the first line that ends the process, if any -/
def firstStop : List String → Option String
  | [] => none
  | l :: ls => if stops l then some l else firstStop ls

theorem appStep_alive_of_not_stops (cfg : Cfg) {s : AppSt} (h : s.alive = true) {l : String} (hl : stops l = false) :
    (appStep cfg s l).1.alive = true := by
  unfold appStep; rw [h]
  simp only [if_true]
  unfold stops at hl
  cases hc : parseLine l with
  | error e => exact h
  | ok c =>
    rw [hc] at hl
    cases c <;> first
      | exact h
      | (simp at hl; done)
      | (show (runPosition s _ _).alive = true; unfold runPosition; split <;> exact h)

theorem appStep_dead_of_stops (cfg : Cfg) {s : AppSt} (h : s.alive = true) {l : String} (hl : stops l = true) :
    (appStep cfg s l).1.alive = false ∧ (appStep cfg s l).2 = [] ∧
      ((appStep cfg s l).1.panicked = isSetOptionLine l) := by
  unfold appStep; rw [h]
  simp only [if_true]
  unfold stops at hl
  unfold isSetOptionLine
  have hal := h
  unfold AppSt.alive at hal
  simp only [Bool.and_eq_true, Bool.not_eq_true'] at hal
  cases hc : parseLine l with
  | error e => rw [hc] at hl; simp at hl
  | ok c =>
    rw [hc] at hl
    cases c <;> first
      | (refine ⟨?_, rfl, ?_⟩ <;> simp [accept, AppSt.alive, hal.2]; done)
      | (simp at hl; done)

/-- **input after the end is never read**: the run is the run on `liveLines` -/
theorem app_run_live (cfg : Cfg) {s : AppSt} (h : s.alive = true) (ls : List String) :
    appSteps cfg s ls = appSteps cfg s (liveLines ls) := by
  induction ls generalizing s with
  | nil => rfl
  | cons l ls ih =>
    unfold liveLines
    cases hl : stops l with
    | true =>
      simp only [if_true, appSteps]
      rw [app_dead_silent cfg (appStep_dead_of_stops cfg h hl).1]
    | false =>
      simp only [appSteps]
      rw [ih (appStep_alive_of_not_stops cfg h hl)]
      rfl

theorem appSteps_panicked (cfg : Cfg) {s : AppSt} (h : s.alive = true) (ls : List String) :
    (appSteps cfg s ls).1.panicked = (match firstStop ls with | some l => isSetOptionLine l | none => false) ∧
    (appSteps cfg s ls).1.alive = (firstStop ls).isNone := by
  induction ls generalizing s with
  | nil =>
    have hal := h
    unfold AppSt.alive at hal
    simp only [Bool.and_eq_true, Bool.not_eq_true'] at hal
    exact ⟨hal.2, h⟩
  | cons l ls ih =>
    unfold firstStop
    cases hl : stops l with
    | true =>
      obtain ⟨h1, -, h3⟩ := appStep_dead_of_stops cfg h hl
      simp only [appSteps, if_true]
      rw [app_dead_silent cfg h1]
      exact ⟨h3, h1⟩
    | false =>
      simp only [appSteps]
      exact ih (appStep_alive_of_not_stops cfg h hl)

/-- **when the process panics**: exactly when the first line that parses to `quit` or `setoption` is a `setoption`
line (with or without `value`).  Any number of unparsable lines, searches, … may precede it. -/
theorem app_panicked_iff (lines : List String) (cfg : Cfg) :
    (appFinal lines cfg).panicked = true ↔ ∃ l, firstStop lines = some l ∧ isSetOptionLine l = true := by
  have h0 : (appInit cfg).alive = true := rfl
  unfold appFinal
  rw [(appSteps_panicked cfg h0 lines).1]
  cases firstStop lines with
  | none => simp
  | some l => simp

/-- … and it is still reading (the real process: spinning on EOF) iff no line ended it -/
theorem app_alive_iff (lines : List String) (cfg : Cfg) :
    (appFinal lines cfg).alive = true ↔ firstStop lines = none := by
  have h0 : (appInit cfg).alive = true := rfl
  unfold appFinal
  rw [(appSteps_panicked cfg h0 lines).2]
  cases firstStop lines <;> simp

/-- at end of input a live process writes nothing and stays alive (it never terminates by itself) -/
theorem app_eof_spins (cfg : Cfg) (s : AppSt) : atEof cfg s = (s, []) :=
  app_parse_error_silent cfg s (e := .eoc) (by rfl)

/-! ## 4. one `bestmove` line per `go` line -/

/-- the line is a `bestmove` message (its first field is `bestmove`) -/
def isBestmoveLine (line : String) : Bool := "bestmove ".toList.isPrefixOf line.toList

def countBestmoves (lines : List String) : Nat := (lines.filter isBestmoveLine).length

theorem countBestmoves_append (a b : List String) : countBestmoves (a ++ b) = countBestmoves a + countBestmoves b := by
  simp [countBestmoves, List.filter_append]

def isBestOut : Out → Bool
  | .bestMove _ _ => true
  | .info .. => false

theorem prefix_renderChars (aux : Aux) (o : Out) :
    "bestmove ".toList.isPrefixOf (renderChars (toTx aux o)) = isBestOut o := by
  cases o with
  | bestMove b p =>
    show "bestmove ".toList.isPrefixOf (Console.bestMoveText _ _) = true
    unfold Console.bestMoveText
    rw [List.isPrefixOf_iff_prefix]
    exact List.prefix_append _ _
  | info d t n sc pv =>
    show "bestmove ".toList.isPrefixOf (Console.infoText _) = false
    unfold Console.infoText
    have h1 : "bestmove ".toList = 'b' :: "estmove ".toList := by decide
    have h2 : "info".toList = 'i' :: "nfo".toList := by decide
    rw [h1, h2, List.cons_append, List.isPrefixOf]
    simp

theorem isBestmoveLine_render (aux : Aux) (o : Out) : isBestmoveLine (render (toTx aux o)) = isBestOut o := by
  have h : isBestmoveLine (render (toTx aux o)) = "bestmove ".toList.isPrefixOf (renderChars (toTx aux o)) := by
    unfold isBestmoveLine render
    rw [String.toList_ofList (l := renderChars (toTx aux o))]
  rw [h, prefix_renderChars]

theorem filter_isBestOut_of_bestMoves_nil : ∀ (infos : List Out), bestMoves infos = [] → infos.filter isBestOut = []
  | [], _ => rfl
  | .info .. :: rest, h => by
    have : bestMoves rest = [] := by simpa [bestMoves] using h
    simp [List.filter, isBestOut, filter_isBestOut_of_bestMoves_nil rest this]
  | .bestMove .. :: rest, h => by simp [bestMoves] at h

/-- a `go` line prints exactly one `bestmove` line -/
theorem runGo_one_bestmove (cfg : Cfg) (s : AppSt) (g : Uci.Go) : countBestmoves (runGo cfg s g).2 = 1 := by
  obtain ⟨best, ponder, infos, hout, hnil⟩ :=
    C07.go_exactly_one_bestmove (goStart s) (SessionOps.goParamsOf g) (maxIterOf cfg g) (goStart_out s)
  rw [runGo_lines]
  unfold goRun
  rw [hout]
  unfold countBestmoves searchLines
  rw [List.filter_map, List.length_map]
  have hf : (isBestmoveLine ∘ fun o => render (toTx (auxOf cfg s.debug o) o)) = isBestOut := by
    funext o; exact isBestmoveLine_render _ o
  rw [hf, List.filter_reverse, List.length_reverse, List.filter_cons]
  simp [isBestOut, filter_isBestOut_of_bestMoves_nil infos hnil]

theorem replyLines_no_bestmove (c : UciCommand) : countBestmoves (replyLines c) = 0 := by
  cases c <;> simp only [replyLines, engineReplies, List.map] <;> decide

theorem appStep_bestmoves (cfg : Cfg) {s : AppSt} (h : s.alive = true) (l : String) :
    countBestmoves (appStep cfg s l).2 = if isGoLine l then 1 else 0 := by
  unfold appStep isGoLine; rw [h]
  simp only [if_true]
  cases hc : parseLine l with
  | error e => rfl
  | ok c =>
    cases c <;> first
      | exact runGo_one_bestmove cfg s _
      | exact replyLines_no_bestmove _
      | rfl

/-- the number of lines that parse to a `go` command among the lines the process reads before it ends -/
def goLines (lines : List String) : Nat := ((liveLines lines).filter isGoLine).length

theorem stops_not_go {l : String} (h : stops l = true) : isGoLine l = false := by
  unfold stops at h
  unfold isGoLine
  cases hc : parseLine l with
  | error e => rfl
  | ok c => rw [hc] at h; cases c <;> first | rfl | (simp at h; done)

theorem appSteps_bestmoves (cfg : Cfg) {s : AppSt} (h : s.alive = true) (ls : List String) :
    countBestmoves (appSteps cfg s ls).2 = goLines ls := by
  induction ls generalizing s with
  | nil => rfl
  | cons l ls ih =>
    simp only [appSteps, countBestmoves_append, appStep_bestmoves cfg h]
    unfold goLines liveLines
    cases hl : stops l with
    | true =>
      rw [app_dead_silent cfg (appStep_dead_of_stops cfg h hl).1]
      simp [stops_not_go hl, countBestmoves]
    | false =>
      rw [ih (appStep_alive_of_not_stops cfg h hl)]
      simp only [Bool.false_eq_true, if_false, List.filter_cons]
      unfold goLines
      cases isGoLine l <;> simp <;> omega

/-- **`app_one_bestmove_per_go`.**  For every list of input lines: the number of `bestmove` lines on stdout equals the
number of input lines that parse to a `go` command before the process ends (= before the first line that parses to
`quit` or `setoption`; all lines if there is none).  The banner and the main-thread answers are no `bestmove` lines, every
`go` — whatever its parameters, whatever position is held, legal moves or not — is answered by exactly one. -/
theorem app_one_bestmove_per_go (lines : List String) (cfg : Cfg) :
    countBestmoves (appRun lines cfg) = goLines lines := by
  unfold appRun
  have hb : countBestmoves [bannerLine] = 0 := by decide
  have := countBestmoves_append [bannerLine] (appSteps cfg (appInit cfg) lines).2
  rw [List.singleton_append] at this
  rw [this, hb, Nat.zero_add]
  exact appSteps_bestmoves cfg rfl lines

/-! ## 5. `position` -/

section Position
open Inkayaku.Uci

theorem parse_startpos_ok : ∃ f, FenSyntax.parse FenSyntax.startposString = .ok f := by
  have : (match FenSyntax.parse FenSyntax.startposString with | .ok _ => true | .error _ => false) = true := by decide
  cases h : FenSyntax.parse FenSyntax.startposString with
  | ok f => exact ⟨f, rfl⟩
  | error e => rw [h] at this; cases this

theorem fenOfText_readable {text f : List Char} (h : fenOfText text = .ok f) :
    ∃ x, FenSyntax.parse (String.ofList f) = .ok x := by
  unfold fenOfText at h
  split at h
  · cases h
  · rename_i x hx
    injection h with h
    subst h
    split
    · rw [String.ofList_toList]; exact parse_startpos_ok
    · exact ⟨x, hx⟩

theorem parsePosition_readable {q : List Tok} {fen : List Char} {ms : List UciMove}
    (h : parsePosition q = .ok (.positionFrom fen ms)) : ∃ x, FenSyntax.parse (String.ofList fen) = .ok x := by
  cases q with
  | nil => simp [parsePosition] at h
  | cons t q =>
    simp only [parsePosition] at h
    split at h
    · cases h
    · rename_i fen' q1 hfen
      have hfen_eq : fen' = fen := by
        split at h
        · split at h
          · cases h
          · injection h with h; injection h with h1 h2
        · injection h with h; injection h with h1 h2
        · cases h
      subst hfen_eq
      split at hfen
      · split at hfen
        · cases hfen
        · split at hfen
          · cases hfen
          · rename_i text q' hu f hf
            injection hfen with hfen; injection hfen with h1 h2
            subst h1
            exact fenOfText_readable hf
      · split at hfen
        · injection hfen with hfen; injection hfen with h1 h2
          subst h1
          rw [String.ofList_toList]; exact parse_startpos_ok
        · cases hfen

theorem parseGo_not_position {q : List Tok} {fen : List Char} {ms : List UciMove} :
    parseGo q ≠ .ok (.positionFrom fen ms) := by
  intro h; unfold parseGo at h; split at h <;> cases h

theorem parseRegister_not_position {q : List Tok} {fen : List Char} {ms : List UciMove} :
    parseRegister q ≠ .ok (.positionFrom fen ms) := by
  intro h
  unfold parseRegister at h
  repeat' (split at h)
  all_goals cases h

theorem parseSetOption_not_position {q : List Tok} {fen : List Char} {ms : List UciMove} :
    parseSetOption q ≠ .ok (.positionFrom fen ms) := by
  intro h
  unfold parseSetOption at h
  split at h
  · cases h
  · split at h
    · cases h
    · rename_i name q2 _
      generalize consume "value".toList q2 = r at h
      obtain ⟨ve, q3⟩ := r
      dsimp only at h
      split at h <;> cases h

theorem parseDebug_not_position {q : List Tok} {fen : List Char} {ms : List UciMove} :
    parseDebug q ≠ .ok (.positionFrom fen ms) := by
  intro h
  unfold parseDebug at h
  repeat' (split at h)
  all_goals cases h

theorem parseLine_position {l : String} {fen : List Char} {ms : List UciMove}
    (h : parseLine l = .ok (.positionFrom fen ms)) : ∃ q, parsePosition q = .ok (.positionFrom fen ms) := by
  unfold parseLine parseChars parseTokens at h
  split at h
  · cases h
  · rename_i root q _
    unfold parseRoot at h
    repeat' (split at h)
    all_goals first
      | cases h
      | exact absurd h parseGo_not_position
      | exact absurd h parseRegister_not_position
      | exact absurd h parseSetOption_not_position
      | exact absurd h parseDebug_not_position
      | exact ⟨q, h⟩

end Position

/-- **a FEN the parser accepted is always readable**: the `.error` branch of `App.runPosition` (where the Rust would
have to `panic!`) is unreachable -/
theorem position_fen_readable {l : String} {fen : List Char} {ms : List UciMove}
    (h : parseLine l = .ok (.positionFrom fen ms)) : ∃ b, FenBoard.fromFenString (String.ofList fen) = .ok b := by
  obtain ⟨q, hq⟩ := parseLine_position h
  obtain ⟨x, hx⟩ := parsePosition_readable hq
  exact ⟨FenBoard.boardOfFields x, by unfold FenBoard.fromFenString; rw [hx]⟩

/-- what a `position` line does: the search thread runs `set_position_from` on the board of the FEN; nothing is
printed -/
theorem app_position (cfg : Cfg) {s : AppSt} (h : s.alive = true) {l : String} {fen : List Char} {ms : List UciMove}
    (hp : parseLine l = .ok (.positionFrom fen ms)) :
    ∃ b, FenBoard.fromFenString (String.ofList fen) = .ok b ∧
      appStep cfg s l =
        ({ s with search := setPosition s.search b (ms.map fun m => String.ofList m.render) }, []) := by
  obtain ⟨b, hb⟩ := position_fen_readable hp
  refine ⟨b, hb, ?_⟩
  rw [appStep_ok cfg h hp]
  show (runPosition s fen ms, []) = _
  unfold runPosition; rw [hb]

/-- some move of the list is rejected by `find_uci` (does not exist / leaves the own king in check) on the board reached
by the moves before it -/
inductive Rejected : Board.Board → List String → Prop
  | here {b : Board.Board} {u : String} {rest : List String} {e : San.UciErr} {b' : Board.Board} :
      San.findUci b u = (.error e, b') → Rejected b (u :: rest)
  | later {b : Board.Board} {u : String} {rest : List String} {m : Board.Move} {b' : Board.Board} :
      San.findUci b u = (.ok m, b') → Rejected (Board.make b' m) rest → Rejected b (u :: rest)

theorem setPosition_go_rejected {b : Board.Board} {ucis : List String} (h : Rejected b ucis) :
    ∀ (hist : Array Nat) (made : List Board.Move), setPosition.go b hist made ucis = none := by
  induction h with
  | here hf => intro hist made; unfold setPosition.go; rw [hf]
  | later hf _ ih => intro hist made; unfold setPosition.go; rw [hf]; exact ih _ _

/-- `set_position_from` returns before assigning when a move is rejected: the search thread keeps everything -/
theorem setPosition_rejected (s : Search.St) {b : Board.Board} {ucis : List String} (h : Rejected b ucis) :
    setPosition s b ucis = s := by
  unfold setPosition
  simp only [setPosition_go_rejected h]

/-- **`position` with an illegal move keeps the old position** (and prints nothing on stdout): the state of the process
is exactly what it was -/
theorem app_position_illegal_keeps (cfg : Cfg) {s : AppSt} (h : s.alive = true) {l : String} {fen : List Char}
    {ms : List UciMove} (hp : parseLine l = .ok (.positionFrom fen ms)) {b : Board.Board}
    (hb : FenBoard.fromFenString (String.ofList fen) = .ok b)
    (hrej : Rejected b (ms.map fun m => String.ofList m.render)) : appStep cfg s l = (s, []) := by
  obtain ⟨b', hb', hs⟩ := app_position cfg h hp
  rw [hb] at hb'
  injection hb' with hb'
  subst hb'
  rw [hs, setPosition_rejected _ hrej]

/-! ## 6. one `go` line = one search: the stream properties of C16 at the process level -/

/-- **`app_go_stream`.**  A `go` line makes a live process print exactly the lines of the output `outs` (newest first) of
one `Search.goCmd` run that started with empty output, and for that output: the reported depths, node counts and times
never decrease; it ends with exactly one `bestmove`, all other messages are infos; an announced move is the first move
of the principal variation of the info printed immediately before `bestmove`, and the ponder move is its second move
(none if the PV has length 1); without a best move there is no ponder move. -/
theorem app_go_stream (cfg : Cfg) {s : AppSt} (h : s.alive = true) {l : String} {g : Uci.Go}
    (hp : parseLine l = .ok (.go g)) :
    ∃ outs : List Out,
      (appStep cfg s l).2 = searchLines (auxOf cfg s.debug) outs ∧
      outs = (goRun cfg s g).out ∧
      (infoDepths outs.reverse).Pairwise (· ≤ ·) ∧
      (infoNodes outs.reverse).Pairwise (· ≤ ·) ∧
      (infoTimes outs.reverse).Pairwise (· ≤ ·) ∧
      ∃ best ponder infos, outs = .bestMove best ponder :: infos ∧ bestMoves infos = [] ∧
        (∀ m, best = some m → ∃ d t n sc pvl rest, infos = .info d t n sc (some pvl) :: rest ∧
          pvl[0]? = some m ∧ pvl[1]? = ponder) ∧
        (best = none → ponder = none) := by
  refine ⟨(goRun cfg s g).out, ?_, rfl, ?_, ?_, ?_, ?_⟩
  · rw [appStep_ok cfg h hp]; rfl
  · exact C16.info_depth_mono _ _ _ (goStart_out s)
  · exact C16.info_nodes_mono _ _ _ (goStart_out s)
  · exact C16.info_time_mono _ _ _ (goStart_out s)
  · obtain ⟨best, ponder, infos, hout, hnil⟩ :=
      C07.go_exactly_one_bestmove (goStart s) (SessionOps.goParamsOf g) (maxIterOf cfg g) (goStart_out s)
    refine ⟨best, ponder, infos, hout, hnil, ?_, ?_⟩
    · intro m hm
      subst hm
      exact C16.bestmove_is_pv0_ponder_is_pv1 _ _ _ m ponder infos hout
    · intro hb
      subst hb
      exact C16.null_bestmove_no_ponder _ _ _ ponder infos hout

/-- the state after a `go` line: still alive, same debug switch; the search thread's output buffer is empty again -/
theorem app_go_state (cfg : Cfg) {s : AppSt} (h : s.alive = true) {l : String} {g : Uci.Go}
    (hp : parseLine l = .ok (.go g)) :
    (appStep cfg s l).1.alive = true ∧ (appStep cfg s l).1.debug = s.debug ∧ (appStep cfg s l).1.search.out = [] := by
  rw [appStep_ok cfg h hp]; exact ⟨h, rfl, rfl⟩

#print axioms app_lines_accepted
#print axioms app_lines_accepted_default
#print axioms app_lines_accepted_from
#print axioms banner_rejected
#print axioms app_one_bestmove_per_go
#print axioms app_parse_error_silent
#print axioms app_isready
#print axioms app_uci
#print axioms app_register
#print axioms app_setoption_panics
#print axioms app_panicked_iff
#print axioms app_alive_iff
#print axioms app_eof_spins
#print axioms app_dead_silent
#print axioms app_run_live
#print axioms app_after_quit_silent
#print axioms app_silent_commands
#print axioms app_stop_ponderhit_inert
#print axioms app_debug
#print axioms position_fen_readable
#print axioms app_position
#print axioms app_position_illegal_keeps
#print axioms app_go_stream
#print axioms app_go_state

/-! ## 7. non-vacuity: concrete runs -/

namespace Example

/-- the script of the task: uci, isready, position startpos moves e2e4, go depth 2, quit -/
def script : List String := ["uci", "isready", "position startpos moves e2e4", "go depth 2", "quit"]

#guard appRun script ==
  ["Inkayaku by Marvin Kuhnke (see https://github.com/marvk/rust-chess)",
   "id name Inkayaku", "id author Marvin Kuhnke (see https://github.com/marvk/rust-chess)", "uciok",
   "readyok",
   "info depth 1 time 0 nodes 23 pv b8c6 score cp 10 hashfull 0 nps 0",
   "info depth 2 time 0 nodes 181 pv b8c6 b1c3 score cp -40 hashfull 0 nps 0",
   "bestmove b8c6 ponder b1c3"]
-- the conclusions of the theorems, evaluated
#guard ((appRun script).tail).all fun l => accepts l.toList
#guard !accepts (appRun script).head!.toList
#guard countBestmoves (appRun script) == 1 && goLines script == 1
#guard (appFinal script).terminated && !(appFinal script).panicked
#guard liveLines (script ++ ["isready", "go depth 1"]) == script
#guard appRun (script ++ ["isready", "go depth 1"]) == appRun script

/-- the hypotheses of the step theorems are satisfiable: the lines of the script parse to the commands named -/
example : parseLine "isready" = .ok .isReady := by rfl
example : parseLine " uci \n" = .ok .uci := by rfl
example : (appInit).alive = true := rfl
example : appStep {} appInit "isready" = (appInit, ["readyok"]) := app_isready {} rfl (by rfl)
#guard (match parseLine "go depth x" with | .error .int => true | _ => false)
example : ∃ e, parseLine "position fen 8/8 w" = .error e := ⟨.fen, by rfl⟩
example : CfgOk {} := cfgOk_default

-- garbage, unknown commands, unreadable FEN, illegal move, duplicated parameters, stop/ponderhit while idle, debug:
-- only well-formed lines come out, one bestmove per go, the illegal `position` keeps the position after e2e4
def messy : List String :=
  ["", "   ", "foo", "go depth x", "position fen 8/8 w", "isready\n", "register later", "register name a code b",
   "position startpos moves e2e4", "position startpos moves e2e5", "position startpos moves e2e4 e7e5 e1e3",
   "debug on", "go depth 1", "stop", "ponderhit", "go depth 1 depth 2", "debug off", "go depth 1 wtime 5 wtime 6",
   "go depth 2", "ucinewgame", "go depth 1 searchmoves a7a6", "quit", "isready", "go depth 1"]

#guard (appRun messy).tail ==
  ["readyok", "registration checking", "registration ok",
   "info depth 1 time 0 nodes 23 pv b8c6 score cp 10 hashfull 0 nps 0 string tphitrate 0 nrate 1 qrate 0 avgqdepth 0 qstartedrate 0 qtphitrate NaN",
   "bestmove b8c6",
   "info depth 1 time 0 nodes 21 pv b8c6 score cp 10 hashfull 0 nps 0",
   "info depth 2 time 0 nodes 179 pv b8c6 b1c3 score cp -40 hashfull 0 nps 0",
   "bestmove b8c6 ponder b1c3",
   "info depth 1 time 0 nodes 4 pv a7a6 score cp -40 hashfull 0 nps 0",
   "bestmove a7a6"]
#guard ((appRun messy).tail).all fun l => accepts l.toList
#guard countBestmoves (appRun messy) == 3 && goLines messy == 3
#guard firstStop messy == some "quit" && (appFinal messy).terminated && !(appFinal messy).panicked

-- `setoption` panics: the stream is cut, what was printed is well formed, the bestmove count still matches
def withSetoption : List String :=
  ["isready", "go depth 1", "setoption name Hash value 16", "isready", "go depth 1", "quit"]
#guard appRun withSetoption ==
  [bannerLine, "readyok", "info depth 1 time 0 nodes 21 pv b1c3 score cp 50 hashfull 0 nps 0", "bestmove b1c3"]
#guard (appFinal withSetoption).panicked && !(appFinal withSetoption).terminated
#guard firstStop withSetoption == some "setoption name Hash value 16" && isSetOptionLine "setoption name Hash value 16"
#guard isSetOptionLine "setoption name Clear Hash" && !isSetOptionLine "setoption" && !isSetOptionLine "setoption value 3"
#guard countBestmoves (appRun withSetoption) == 1 && goLines withSetoption == 1
example : (∃ n, parseLine "setoption name Clear Hash" = .ok (.setOption n)) := ⟨_, by rfl⟩
example : (∃ n v, parseLine "setoption name Hash value 16" = .ok (.setOptionValue n v)) := ⟨_, _, by rfl⟩

-- no line ends the process: it is still reading (spinning on EOF in reality)
#guard (appFinal ["isready", "go depth 1"]).alive && firstStop ["isready", "go depth 1"] == none
-- run dependent numbers and debug texts are arbitrary
def cfg2 : Cfg :=
  { hashfull := fun _ => 7, nps := fun _ => 123456,
    rates := fun _ => ⟨"0.5".toList, "NaN".toList, "inf".toList, "1".toList, "0".toList, "-0".toList⟩ }
example : CfgOk cfg2 := cfgOk_of_f64 cfg2 fun _ =>
  (by decide : ∀ t ∈ ["0.5".toList, "NaN".toList, "inf".toList, "1".toList, "0".toList, "-0".toList],
    t.all isF64Char = true)
#guard (appRun ["debug on", "go depth 1"] cfg2).tail ==
  ["info depth 1 time 0 nodes 21 pv b1c3 score cp 50 hashfull 7 nps 123456 string tphitrate 0.5 nrate NaN qrate inf avgqdepth 1 qstartedrate 0 qtphitrate -0",
   "bestmove b1c3"]
-- mate / stalemate on the board: `bestmove 0000`, still one bestmove line
#guard (appRun ["position startpos moves f2f3 e7e5 g2g4 d8h4", "go depth 3"]).tail ==
  ["info depth 0 time 0 nodes 1 hashfull 0 nps 0", "bestmove 0000"]
-- `go` without depth: cut after `fuel` iterations (model parameter, see `Model/App.lean`)
#guard countBestmoves (appRun ["go", "go infinite", "go movetime 5"] { fuel := 2 }) == 3

/-- `Rejected` is satisfiable: `e2e5` does not exist in the start position -/
example : Rejected FenBoard.startBoard ["e2e5"] := by
  have h : (match (San.findUci FenBoard.startBoard "e2e5").1 with | .error _ => true | .ok _ => false) = true := by
    decide +kernel
  generalize hr : San.findUci FenBoard.startBoard "e2e5" = r at h
  obtain ⟨x, b'⟩ := r
  cases x with
  | error e => exact .here hr
  | ok m => simp at h

end Example

end Inkayaku.C16App
