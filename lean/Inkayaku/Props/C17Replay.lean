import Inkayaku.Props.C17
import Inkayaku.Props.C14
import Inkayaku.Proofs.WfStepProof
/-!
# C17 (clause "Replaying the yielded SAN moves on a board reproduces the game")

`C17.c17` shows that the PGN reader yields the SAN tokens of a well-formed database verbatim; `C14.san_roundtrip`
shows that the SAN text the model writes for a legal move is parsed back to exactly that move.  This file composes
them along a whole game.

* `sanLine b ms`  the SAN texts of a line of moves, each written by the model's `uci_to_pgn` (`San.uciToSan`) in the
  position reached (`none` if some text cannot be written);
* `replay b sans`  what a consumer of the reader does (`pgn_test`: `board.pgn_to_bb(&x.mv)` then `board.make(mv)`):
  fold `San.sanToMove` + `make`; `none` as soon as a token is rejected;
* `replay_sanLine`  for a well-formed board with clock room for the line (`Search.Inv ms.length b`), a legal line and
  its SAN texts, the replay accepts every token and ends in **exactly** `makeLine b ms` (not only up to `vis`);
* `sanLine_some`  the SAN texts of a legal line exist;
* `wfSan_of_sanLine`  the layout side condition `PgnLayout.WFSan` of C17 holds for every SAN text the model writes
  (alphabet `BNRQK a-h 1-8 x = O - + # ! ?`, at least two characters): it is proved, not assumed;
* `pgn_replay`  end to end: a PGN database whose games carry the SAN texts of legal lines from the start position
  (any tags, comments, move numbering, results, blank lines allowed by the layout) is read through the buffered reader
  with any chunk size ≥ 1 and any fragmentation, and replaying the yielded tokens of game `i` gives exactly the final
  board of line `i`.

Strings and bytes: the Rust reader builds its `String`s by `push(byte as char)`, so a yielded token is `dec bytes`
(code point U+00XX for byte XX, as in `Model/Pgn.lean`); a SAN text (ASCII) is written to the file as `enc s`.

The budget: `Search.Inv k b` = well-formed with room for `k` plies in both clocks (`halfmove + k ≤ 4095`,
`fullmove + k < 2^31`; the 12-bit undo field of the packed move).  From the start position this admits every line of
at most 4095 plies; the statement is not claimed for longer lines (they can leave the well-formed boards of the
model: `WF.wf` contains `halfmove ≤ 4095`).
-/
namespace Inkayaku.C17Replay
open Inkayaku.Board Inkayaku.San Inkayaku.WF Inkayaku.Pgn Inkayaku.PgnLayout
open Inkayaku.Spec.SanGrammar (isSanChar isPieceLetter isFile isRank isCheckMark isAnnot)
open Inkayaku.FenBoard (startBoard)
open Inkayaku.C03 (makeLine)

/-! ## 1. lines, their SAN texts, replay -/

/-- every move is a legal move (`generate_legal_moves`) of the position reached -/
def LegalLineB : Board → List Board.Move → Prop
  | _, [] => True
  | b, m :: ms => m ∈ genLegal b ∧ LegalLineB (make b m) ms

instance : (b : Board) → (ms : List Board.Move) → Decidable (LegalLineB b ms)
  | _, [] => isTrue trivial
  | b, m :: ms =>
    have := instDecidableLegalLineB (make b m) ms
    inferInstanceAs (Decidable (m ∈ genLegal b ∧ LegalLineB (make b m) ms))

/-- SAN of each move of a line, written by the model's `uci_to_pgn` in the position reached -/
def sanLine : Board → List Board.Move → Option (List String)
  | _, [] => some []
  | b, m :: ms =>
    match (uciToSan b m.uci).1, sanLine (make b m) ms with
    | .ok s, some rest => some (s :: rest)
    | _, _ => none

/-- read each token with `pgn_to_bb` and make the move; `none` as soon as a token is rejected -/
def replay : Board → List String → Option Board
  | b, [] => some b
  | b, s :: rest =>
    match sanToMove b s with
    | some m => replay (make b m) rest
    | none => none

theorem inv_step {k : Nat} {b : Board} {m : Board.Move} (hinv : Search.Inv (k + 1) b) (hm : m ∈ genLegal b) :
    Search.Inv k (make b m) :=
  Search.boardLaws.make_inv k b m hinv (Or.inl (SanProofs.mem_genPseudo_of_legal hm))
    (SanProofs.legal_of_mem_genLegal hm)

/-- **replaying the SAN texts of a legal line reproduces the line**: every token is accepted, the move found is the
move played, and the final board is `makeLine b ms` itself -/
theorem replay_sanLine {b : Board} {ms : List Board.Move} {sans : List String} (hinv : Search.Inv ms.length b)
    (hl : LegalLineB b ms) (hs : sanLine b ms = some sans) : replay b sans = some (makeLine b ms) := by
  induction ms generalizing b sans with
  | nil =>
    simp only [sanLine, Option.some.injEq] at hs
    subst hs; rfl
  | cons m ms ih =>
    obtain ⟨hm, hl'⟩ := hl
    unfold sanLine at hs
    split at hs
    · rename_i s rest h1 h2
      simp only [Option.some.injEq] at hs
      subst hs
      have hrt : sanToMove b s = some m := C14.san_roundtrip hinv.1 (C14.uciNodup_of_wf hinv.1) hm h1
      have hinv' : Search.Inv ms.length (make b m) := inv_step hinv hm
      show (match sanToMove b s with | some m => replay (make b m) rest | none => none) = _
      rw [hrt]
      exact ih hinv' hl' h2
    · exact absurd hs (by simp)

/-- the statement of the task: a final board with the visible position of the line's end -/
theorem replay_sanLine_vis {b : Board} {ms : List Board.Move} {sans : List String} (hwf : wf b = true)
    (hhm : b.halfmove + ms.length ≤ 4095) (hfm : b.fullmove + ms.length < 2147483648)
    (hl : LegalLineB b ms) (hs : sanLine b ms = some sans) :
    ∃ b', replay b sans = some b' ∧ vis b' = vis (makeLine b ms) :=
  ⟨_, replay_sanLine ⟨hwf, hhm, hfm⟩ hl hs, rfl⟩

/-- the SAN texts of a legal line exist (one per move) -/
theorem sanLine_some {b : Board} {ms : List Board.Move} (hinv : Search.Inv ms.length b) (hl : LegalLineB b ms) :
    ∃ sans, sanLine b ms = some sans ∧ sans.length = ms.length := by
  induction ms generalizing b with
  | nil => exact ⟨[], rfl, rfl⟩
  | cons m ms ih =>
    obtain ⟨hm, hl'⟩ := hl
    obtain ⟨s, hs⟩ := C14.uciToSan_legal_ok (C14.uciNodup_of_wf hinv.1) hm
    obtain ⟨rest, hr, hlen⟩ := ih (inv_step hinv hm) hl'
    exact ⟨s :: rest, by simp [sanLine, hs, hr], by simp [hlen]⟩

/-- every SAN text of a legal line is accepted by the SAN parser in some position -/
theorem sanLine_parses {b : Board} {ms : List Board.Move} {sans : List String} (hinv : Search.Inv ms.length b)
    (hl : LegalLineB b ms) (hs : sanLine b ms = some sans) :
    ∀ s ∈ sans, ∃ b' m, sanToMove b' s = some m := by
  induction ms generalizing b sans with
  | nil =>
    simp only [sanLine, Option.some.injEq] at hs
    subst hs; intro s h; simp at h
  | cons m ms ih =>
    obtain ⟨hm, hl'⟩ := hl
    unfold sanLine at hs
    split at hs
    · rename_i s rest h1 h2
      simp only [Option.some.injEq] at hs
      subst hs
      intro x hx
      rcases List.mem_cons.mp hx with rfl | hx
      · exact ⟨b, m, C14.san_roundtrip hinv.1 (C14.uciNodup_of_wf hinv.1) hm h1⟩
      · exact ih (inv_step hinv hm) hl' h2 x hx
    · exact absurd hs (by simp)

/-! ## 2. SAN texts as bytes: the layout condition `WFSan` is a theorem about the model -/

/-- the bytes of an ASCII text in the file -/
def enc (s : String) : List UInt8 := s.toList.map (fun c => UInt8.ofNat c.toNat)

/-- the reader's `String`: `push(byte as char)` -/
def dec (bs : List UInt8) : String := String.ofList (bs.map (fun b => Char.ofNat b.toNat))

def sanChars : List Char := "BNRQKabcdefgh12345678x=O-+#!?".toList

theorem char_of_toNat {c : Char} {n : Nat} (h : c.toNat = n) : c = Char.ofNat n := by
  rw [← h, Char.ofNat_toNat]

theorem range_toNat {c : Char} (lo hi : Char) (h1 : lo ≤ c) (h2 : c ≤ hi) :
    lo.toNat ≤ c.toNat ∧ c.toNat ≤ hi.toNat := by
  simp only [Char.le_def, UInt32.le_iff_toNat_le] at h1 h2
  exact ⟨h1, h2⟩

/-- the alphabet of SAN, enumerated -/
theorem sanChar_mem {c : Char} (h : isSanChar c = true) : c ∈ sanChars := by
  simp only [isSanChar, isPieceLetter, isFile, isRank, isCheckMark, isAnnot, Bool.or_eq_true, beq_iff_eq,
    Bool.and_eq_true, decide_eq_true_eq] at h
  rcases h with (((((((h | h) | h) | h) | h) | h) | h) | h) | h
  · rcases h with (((h | h) | h) | h) | h <;> (subst h; decide)
  · have := range_toNat _ _ h.1 h.2
    have : c.toNat = 97 ∨ c.toNat = 98 ∨ c.toNat = 99 ∨ c.toNat = 100 ∨ c.toNat = 101 ∨ c.toNat = 102 ∨
      c.toNat = 103 ∨ c.toNat = 104 := by simp at this; omega
    rcases this with e | e | e | e | e | e | e | e <;> (rw [char_of_toNat e]; decide)
  · have := range_toNat _ _ h.1 h.2
    have : c.toNat = 49 ∨ c.toNat = 50 ∨ c.toNat = 51 ∨ c.toNat = 52 ∨ c.toNat = 53 ∨ c.toNat = 54 ∨
      c.toNat = 55 ∨ c.toNat = 56 := by simp at this; omega
    rcases this with e | e | e | e | e | e | e | e <;> (rw [char_of_toNat e]; decide)
  all_goals (first | (subst h; decide) | (rcases h with h | h <;> (subst h; decide)))

/-- a byte of the SAN alphabet -/
def isSanByte (b : UInt8) : Bool := (sanChars.map (fun c => UInt8.ofNat c.toNat)).contains b

theorem sanChars_ok : ∀ c ∈ sanChars, isSanByte (UInt8.ofNat c.toNat) = true ∧
    Char.ofNat (UInt8.ofNat c.toNat).toNat = c := by decide

/-- a text accepted by the SAN parser: only SAN characters, at least two of them -/
theorem parsed_text {b : Board} {s : String} {m : Board.Move} (h : sanToMove b s = some m) :
    (∀ c ∈ s.toList, c ∈ sanChars) ∧ 2 ≤ s.toList.length := by
  obtain ⟨caps, hc, -⟩ := (C14.sanToMove_some_iff b s m).mp h
  constructor
  · intro c hcm
    apply sanChar_mem
    cases hsc : isSanChar c with
    | true => rfl
    | false => rw [C14.sanCaptures_illegal_char hcm hsc] at hc; cases hc
  · cases Nat.lt_or_ge s.toList.length 2 with
    | inl hlt => rw [C14.sanCaptures_short hlt] at hc; cases hc
    | inr hge => exact hge

theorem dec_enc {s : String} (h : ∀ c ∈ s.toList, c ∈ sanChars) : dec (enc s) = s := by
  unfold dec enc
  rw [List.map_map]
  have : s.toList.map ((fun b : UInt8 => Char.ofNat b.toNat) ∘ (fun c : Char => UInt8.ofNat c.toNat)) = s.toList := by
    rw [List.map_congr_left (g := id)]
    · simp
    · intro c hc; exact (sanChars_ok c (h c hc)).2
  rw [this, String.ofList_toList]

/-- **`WFSan` from the alphabet**: a non-empty token of SAN bytes has no space, line break, `.`; is not a result
token (`1-0`, `0-1`, `1/2-1/2`, `*` contain `0`, `/` or `*`) and does not start with `{` or `;` -/
theorem wfSan_of_bytes {bs : List UInt8} (hne : bs ≠ []) (ha : ∀ b ∈ bs, isSanByte b = true) : WFSan bs := by
  have no : ∀ x : UInt8, isSanByte x = false → x ∉ bs := fun x hx hm => by rw [ha x hm] at hx; cases hx
  refine ⟨hne, no 32 (by decide), no 10 (by decide), no 46 (by decide), ?_, ?_, ?_⟩
  · intro hr
    simp only [resultTokens, Result.token, List.mem_cons, List.not_mem_nil, or_false] at hr
    rcases hr with rfl | rfl | rfl | rfl
    · exact no 48 (by decide) (by simp)
    · exact no 48 (by decide) (by simp)
    · exact no 47 (by decide) (by simp)
    · exact no 42 (by decide) (by simp)
  · intro hh
    cases bs with
    | nil => cases hh
    | cons x xs => simp only [List.head?_cons, Option.some.injEq] at hh; subst hh; exact no 123 (by decide) (by simp)
  · intro hh
    cases bs with
    | nil => cases hh
    | cons x xs => simp only [List.head?_cons, Option.some.injEq] at hh; subst hh; exact no 59 (by decide) (by simp)

theorem wfSan_of_parsed {b : Board} {s : String} {m : Board.Move} (h : sanToMove b s = some m) : WFSan (enc s) := by
  obtain ⟨hc, hlen⟩ := parsed_text h
  apply wfSan_of_bytes
  · intro e
    have : (enc s).length = s.toList.length := by simp [enc]
    rw [e] at this; simp at this; omega
  · intro x hx
    obtain ⟨c, hcm, rfl⟩ := List.mem_map.mp hx
    exact (sanChars_ok c (hc c hcm)).1

/-- **the SAN texts the model writes for a legal line satisfy the layout side condition of C17** -/
theorem wfSan_of_sanLine {b : Board} {ms : List Board.Move} {sans : List String} (hinv : Search.Inv ms.length b)
    (hl : LegalLineB b ms) (hs : sanLine b ms = some sans) : ∀ s ∈ sans, WFSan (enc s) ∧ dec (enc s) = s := by
  intro s hsm
  obtain ⟨b', m, hp⟩ := sanLine_parses hinv hl hs s hsm
  exact ⟨wfSan_of_parsed hp, dec_enc (parsed_text hp).1⟩

/-! ## 3. end to end -/

/-- `WFGame` without the condition on the SAN tokens -/
def LayoutGame (g : Game) : Prop :=
  g.tags ≠ [] ∧ (∀ t ∈ g.tags, 32 ∉ t.1 ∧ 34 ∉ t.2) ∧ (g.tags.map (·.1)).Nodup ∧
    ∀ m ∈ g.moves, 125 ∉ m.comment.getD []

instance (g : Game) : Decidable (LayoutGame g) := by unfold LayoutGame; infer_instance

/-- `WFGames` without the condition on the SAN tokens -/
def LayoutOk : List Game → Prop
  | [] => True
  | [g] => LayoutGame g
  | g :: g' :: gs => LayoutGame g ∧ 1 ≤ g.trailing ∧ LayoutOk (g' :: gs)

instance : (gs : List Game) → Decidable (LayoutOk gs)
  | [] => isTrue trivial
  | [g] => inferInstanceAs (Decidable (LayoutGame g))
  | g :: g' :: gs =>
    have := instDecidableLayoutOk (g' :: gs)
    inferInstanceAs (Decidable (LayoutGame g ∧ 1 ≤ g.trailing ∧ LayoutOk (g' :: gs)))

theorem wfGame_of_layout {g : Game} (h : LayoutGame g) (hs : ∀ m ∈ g.moves, WFSan m.san) : WFGame g :=
  ⟨h.1, h.2.1, h.2.2.1, fun m hm => ⟨hs m hm, h.2.2.2 m hm⟩⟩

theorem wfGames_of_layout : ∀ (gs : List Game), LayoutOk gs → (∀ g ∈ gs, ∀ m ∈ g.moves, WFSan m.san) → WFGames gs
  | [], _, _ => trivial
  | [g], h, hs => wfGame_of_layout h (hs g (by simp))
  | g :: g' :: gs, h, hs =>
    ⟨wfGame_of_layout h.1 (hs g (by simp)), h.2.1,
      wfGames_of_layout (g' :: gs) h.2.2 (fun x hx => hs x (List.mem_cons_of_mem _ hx))⟩

/-- what the consumer does with one yielded item: replay its tokens from the start position -/
def replayItem : Item → Option Board
  | .game g => replay startBoard (g.moves.map (fun m => dec m.mv))
  | .err _ => none

theorem startBoard_inv {k : Nat} (hk : k ≤ 4095) : Search.Inv k startBoard := by
  have h1 : wf startBoard = true := by decide +kernel
  have h2 : startBoard.halfmove = 0 := by decide +kernel
  have h3 : startBoard.fullmove = 1 := by decide +kernel
  exact ⟨h1, by omega, by omega⟩

/-- **C17, replay, end to end.**  `gl` pairs each game of a PGN database with the line of moves it records.  If the
layout is well formed (`LayoutOk`: tags, comments, blank lines — nothing about the SAN tokens), every line is a legal
line from the start position of at most 4095 plies, and the SAN tokens of each game are the texts the model writes for
its line, then for every chunk size ≥ 1 and every fragmentation of the underlying reads the buffered reader yields one
item per game, and replaying the tokens of item `i` ends in exactly the final board of line `i`. -/
theorem pgn_replay (gl : List (Game × List Board.Move)) (hlay : LayoutOk (gl.map (·.1)))
    (hgl : ∀ p ∈ gl, p.2.length ≤ 4095 ∧ LegalLineB startBoard p.2 ∧
      (sanLine startBoard p.2).map (·.map enc) = some (p.1.moves.map (·.san)))
    (chunk : Nat) (sched : Nat → Nat) (hchunk : 1 ≤ chunk) (hsched : ∀ k, 1 ≤ sched k) :
    (readAllBuffered chunk sched (render (gl.map (·.1)))).map replayItem
      = gl.map (fun p => some (makeLine startBoard p.2)) := by
  -- per game: its SAN strings
  have hper : ∀ p ∈ gl, ∃ sans, sanLine startBoard p.2 = some sans ∧ p.1.moves.map (·.san) = sans.map enc ∧
      (∀ s ∈ sans, WFSan (enc s) ∧ dec (enc s) = s) ∧ replay startBoard sans = some (makeLine startBoard p.2) := by
    intro p hp
    obtain ⟨hlen, hl, hs⟩ := hgl p hp
    cases hsl : sanLine startBoard p.2 with
    | none => rw [hsl] at hs; cases hs
    | some sans =>
      rw [hsl] at hs
      simp only [Option.map_some, Option.some.injEq] at hs
      exact ⟨sans, rfl, hs.symm, wfSan_of_sanLine (startBoard_inv hlen) hl hsl,
        replay_sanLine (startBoard_inv hlen) hl hsl⟩
  have hwf : WFGames (gl.map (·.1)) := by
    apply wfGames_of_layout _ hlay
    intro g hg m hm
    obtain ⟨p, hp, rfl⟩ := List.mem_map.mp hg
    obtain ⟨sans, -, hsan, hok, -⟩ := hper p hp
    have : m.san ∈ sans.map enc := by rw [← hsan]; exact List.mem_map.mpr ⟨m, hm, rfl⟩
    obtain ⟨s, hs, e⟩ := List.mem_map.mp this
    rw [← e]; exact (hok s hs).1
  rw [C17.c17 _ hwf chunk sched hchunk hsched, List.map_map, List.map_map]
  apply List.map_congr_left
  intro p hp
  obtain ⟨sans, -, hsan, hok, hrep⟩ := hper p hp
  show replay startBoard (((C17.toRaw p.1).moves).map (fun m => dec m.mv)) = _
  have : ((C17.toRaw p.1).moves).map (fun m => dec m.mv) = sans := by
    simp only [C17.toRaw, List.map_map]
    have h1 : p.1.moves.map ((fun m : RawMove => dec m.mv) ∘ C17.toRawMove) = (p.1.moves.map (·.san)).map dec := by
      rw [List.map_map]; rfl
    rw [h1, hsan, List.map_map, List.map_congr_left (g := id)]
    · simp
    · intro s hs; exact (hok s hs).2
  rw [this, hrep]

#print axioms replay_sanLine
#print axioms replay_sanLine_vis
#print axioms sanLine_some
#print axioms wfSan_of_sanLine
#print axioms pgn_replay

/-! ## 4. non-vacuity: a game in which both sides castle, as a two-game Lichess-style database -/

section Examples
set_option maxRecDepth 100000

/-- the legal moves with the given UCI texts, played one after the other -/
def lineOfUcis : Board → List String → Option (List Board.Move)
  | _, [] => some []
  | b, u :: us =>
    match (genLegal b).find? (fun m => m.uci == u) with
    | some m => (lineOfUcis (make b m) us).map (m :: ·)
    | none => none

/-- 1. e4 e5 2. Nf3 Nc6 3. Bc4 Bc5 4. O-O Nf6 5. d3 O-O -/
def demoLine : List Board.Move :=
  (lineOfUcis startBoard ["e2e4", "e7e5", "g1f3", "b8c6", "f1c4", "f8c5", "e1g1", "g8f6", "d2d3", "e8g8"]).getD []

def demoSans : List String := ["e4", "e5", "Nf3", "Nc6", "Bc4", "Bc5", "O-O", "Nf6", "d3", "O-O"]

/-- 1. d4 d5 2. c4 dxc4 3. Qa4+ (a pawn capture and a check) -/
def demoLine2 : List Board.Move :=
  (lineOfUcis startBoard ["d2d4", "d7d5", "c2c4", "d5c4", "d1a4"]).getD []

def demoSans2 : List String := ["d4", "d5", "c4", "dxc4", "Qa4+"]

/-- the chess part of the hypotheses, evaluated by the kernel once per line -/
theorem demo_facts : demoLine.length = 10 ∧ LegalLineB startBoard demoLine ∧
    sanLine startBoard demoLine = some demoSans := by decide +kernel
theorem demo_facts2 : demoLine2.length = 5 ∧ LegalLineB startBoard demoLine2 ∧
    sanLine startBoard demoLine2 = some demoSans2 := by decide +kernel

-- from here on the lines are opaque to the elaborator (the kernel still evaluates them where asked to)
attribute [irreducible] demoLine demoLine2

/-- the hypotheses of `replay_sanLine` hold, its conclusion for the castling game -/
example : replay startBoard demoSans = some (makeLine startBoard demoLine) :=
  replay_sanLine (startBoard_inv (Nat.le_trans (Nat.le_of_eq demo_facts.1) (by decide))) demo_facts.2.1 demo_facts.2.2
/-- a token that is not legal in the position reached stops the replay -/
example : replay startBoard ["e4", "e5", "O-O"] = none := by decide +kernel

def B (s : String) : List UInt8 := s.toUTF8.data.toList

/-- Lichess numbering with a clock comment after White's first move, result `1/2-1/2`, two blank lines -/
def demoGame : Game :=
  { tags := [(B "Event", B "Casual game"), (B "Result", B "1/2-1/2")],
    moves := Numbering.lichess.apply
      ((demoSans.map enc).zip ([some (B " [%clk 0:05:00] ")] ++ List.replicate 9 none)),
    result := .draw, trailing := 3 }

/-- plain numbering, no comments, last game of the file without final line break -/
def demoGame2 : Game :=
  { tags := [(B "Event", B "?")],
    moves := Numbering.white.apply ((demoSans2.map enc).zip (List.replicate 5 none)),
    result := .unknown, trailing := 0 }

#guard String.fromUTF8! (ByteArray.mk (render [demoGame, demoGame2]).toArray) ==
  "[Event \"Casual game\"]\n[Result \"1/2-1/2\"]\n\n1. e4 { [%clk 0:05:00] } 1... e5 2. Nf3 Nc6 3. Bc4 Bc5 4. O-O Nf6 5. d3 O-O 1/2-1/2\n\n\n[Event \"?\"]\n\n1. d4 d5 2. c4 dxc4 3. Qa4+ *"

/-- the hypotheses of `pgn_replay` hold for this database (layout and token texts by kernel evaluation, the chess
part from `demo_facts`) … -/
theorem demo_hyps : LayoutOk ([(demoGame, demoLine), (demoGame2, demoLine2)].map (·.1)) ∧
    ∀ p ∈ [(demoGame, demoLine), (demoGame2, demoLine2)], p.2.length ≤ 4095 ∧ LegalLineB startBoard p.2 ∧
      (sanLine startBoard p.2).map (·.map enc) = some (p.1.moves.map (·.san)) := by
  refine ⟨by decide +kernel, ?_⟩
  intro p hp
  simp only [List.mem_cons, List.not_mem_nil, or_false] at hp
  rcases hp with rfl | rfl
  · show demoLine.length ≤ 4095 ∧ LegalLineB startBoard demoLine ∧
      (sanLine startBoard demoLine).map (·.map enc) = some (demoGame.moves.map (·.san))
    rw [demo_facts.1, demo_facts.2.2]
    exact ⟨by decide, demo_facts.2.1, by decide +kernel⟩
  · show demoLine2.length ≤ 4095 ∧ LegalLineB startBoard demoLine2 ∧
      (sanLine startBoard demoLine2).map (·.map enc) = some (demoGame2.moves.map (·.san))
    rw [demo_facts2.1, demo_facts2.2.2]
    exact ⟨by decide, demo_facts2.2.1, by decide +kernel⟩

/-- … so with every chunk size and every fragmentation the reader yields two games whose replay ends in the final
positions of the two lines (both sides have castled in the first one) -/
example (chunk : Nat) (sched : Nat → Nat) (hchunk : 1 ≤ chunk) (hsched : ∀ k, 1 ≤ sched k) :
    (readAllBuffered chunk sched (render [demoGame, demoGame2])).map replayItem
      = [some (makeLine startBoard demoLine), some (makeLine startBoard demoLine2)] :=
  pgn_replay [(demoGame, demoLine), (demoGame2, demoLine2)] demo_hyps.1 demo_hyps.2 chunk sched hchunk hsched

-- the same, by plain evaluation of the model for one chunk size (3 bytes, reads of 1 and 2 bytes alternating)
#guard ((readAllBuffered 3 (fun k => 1 + k % 2) (render [demoGame, demoGame2])).map replayItem).map
      (·.bind FenBoard.printFen)
    == [some "r1bq1rk1/pppp1ppp/2n2n2/2b1p3/2B1P3/3P1N2/PPP2PPP/RNBQ1RK1 w - - 1 6",
        some "rnbqkbnr/ppp1pppp/8/8/Q1pP4/8/PP2PPPP/RNB1KBNR b KQkq - 1 3"]

end Examples

end Inkayaku.C17Replay
