import Inkayaku.Proofs.SearchSimTransp13
import Inkayaku.Proofs.SearchSimTransp22
import Inkayaku.Props.C08Sim
/-!
# C08 – the two chess facts behind `HashInj b 3`: `transp13`, `transp22`; `go depth d` for `d ≤ 3` from `NoCollision` alone

`Props/C08Sim.lean` reduced `HashInj b 3` (a stored and a probed position with the same Zobrist hash are the same position at
the same ply) to the hash hypothesis `NoCollision b 3` plus two facts of chess, left there as TARGET.  Both are proved here for
every well-formed root with clock budget (`Inv 3 b`), whatever the position (castling, en passant, promotion included):

* `transp13` – a position one ply below the root never has the `HashKey` (twelve piece words, side, rights, e.p. file) of a
  position three plies below it;
* `transp22` – two positions two plies below the root with the same `HashKey` have the same half-move clock.

Hence `sameDraft_le3`, `hashInj_of_noCollision_le3` and `go_eq_spec_le3`: `go depth d` (`1 ≤ d ≤ 3`) after `position <b>`
reports the exact minimax value and a best move, assuming only the absence of hash collisions (`NoCollision`), `HashNonzero`
and the guards on the position — no chess fact and no property of the run.

Proof (helper files `Proofs/SearchSimTransp{Codes,13,22}.lean`): a side at a square is one piece code; a generated move of a
well-formed board is a pointwise update of the two code functions (`Transp.Mv`, from `Successor.codes_*`, `GenFacts`, `ArgsOK`);
equal keys give equal code functions; the number of pieces of a side tells which moves capture; the rest is a comparison of the
few squares the moves touch (`Transp.no13`, `Transp.same22`).
-/
namespace Inkayaku.C08Transp
open Inkayaku.Board Inkayaku.Eval Inkayaku.WF Inkayaku.BoardCongr Inkayaku.Minimax Inkayaku.SpecSearch Inkayaku.Search Inkayaku.SearchSim
open Inkayaku.SearchSim.Transp
open Inkayaku.C06 (HashKey)

theorem reach_three {b0 p : Board} :
    Reach b0 3 p ↔ ∃ m1 ∈ genLegal b0, ∃ m2 ∈ genLegal (make b0 m1), ∃ m3 ∈ genLegal (make (make b0 m1) m2),
      vis p = vis (make (make (make b0 m1) m2) m3) := by
  rw [reach_iff]
  simp only [reachList, List.flatMap_cons, List.flatMap_nil, List.append_nil, List.mem_flatMap, List.mem_map]
  constructor
  · rintro ⟨q, ⟨q2, ⟨q1, ⟨m1, hm1, rfl⟩, m2, hm2, rfl⟩, m3, hm3, rfl⟩, hv⟩
    exact ⟨m1, hm1, m2, hm2, m3, hm3, hv⟩
  · rintro ⟨m1, hm1, m2, hm2, m3, hm3, hv⟩
    exact ⟨_, ⟨_, ⟨_, ⟨m1, hm1, rfl⟩, m2, hm2, rfl⟩, m3, hm3, rfl⟩, hv⟩

/-- a legal move of a board with budget: the `Mv` description and the budget of the successor -/
theorem legal_step {k : Nat} {b : Board} (hinv : Inv (k + 1) b) {m : Move} (hm : m ∈ genLegal b) :
    Mv b.whiteTurn (act b) (pas b) (pas (make b m)) (act (make b m)) b.ep m.f ∧ Inv k (make b m) ∧
    (make b m).whiteTurn = (!b.whiteTurn) ∧ (make b m).ep = m.f.nextEp := by
  obtain ⟨g, l⟩ := List.mem_filter.mp hm
  have hwf := hinv.wf
  have hturn := ((MakeWf.wf_iff b).mp hwf).turn
  obtain ⟨-, -, h3, h4⟩ := make_sides' hturn m
  exact ⟨mv_of_gen hwf g, boardLaws.make_inv k b m hinv (Or.inl g) l, h3, h4⟩

/-- **a position at ply 1 does not recur at ply 3** -/
theorem transp13 (b : Board) (hinv : Inv 3 b) : Transp13 b := by
  intro p' p hr' hr hkey
  obtain ⟨m, hm, hv'⟩ := reach_one.mp hr'
  obtain ⟨a, ha, x, hx, c, hc, hv⟩ := reach_three.mp hr
  have hk : HashKey (make b m) = HashKey (make (make (make b a) x) c) := by
    rw [← hashKey_vis hv', ← hashKey_vis hv]; exact hkey
  obtain ⟨Mm, -, -, -⟩ := legal_step (k := 2) hinv hm
  obtain ⟨Ma, ia, ta, ea⟩ := legal_step (k := 2) hinv ha
  obtain ⟨Mx, ix, tx, ex⟩ := legal_step (k := 1) ia hx
  obtain ⟨Mc, -, -, -⟩ := legal_step (k := 0) ix hc
  rw [ta, ea] at Mx
  rw [tx, ta, Bool.not_not, ex] at Mc
  obtain ⟨eB, eW⟩ := codes_of_key hk
  exact no13 Mm Ma Mx Mc eW eB

/-- **two positions at ply 2 with the same key have the same half-move clock** -/
theorem transp22 (b : Board) (hinv : Inv 3 b) : Transp22 b := by
  intro p' p hr' hr hkey
  obtain ⟨m1, hm1, m2, hm2, hv'⟩ := reach_two.mp hr'
  obtain ⟨a1, ha1, a2, ha2, hv⟩ := reach_two.mp hr
  have hk : HashKey (make (make b m1) m2) = HashKey (make (make b a1) a2) := by
    rw [← hashKey_vis hv', ← hashKey_vis hv]; exact hkey
  obtain ⟨M1, i1, t1, e1⟩ := legal_step (k := 2) hinv hm1
  obtain ⟨M2, -, -, -⟩ := legal_step (k := 1) i1 hm2
  obtain ⟨A1, j1, u1, f1⟩ := legal_step (k := 2) hinv ha1
  obtain ⟨A2, -, -, -⟩ := legal_step (k := 1) j1 ha2
  rw [t1, e1] at M2
  rw [u1, f1] at A2
  obtain ⟨eW, eB⟩ := codes_of_key hk
  obtain ⟨r2, r1⟩ := same22 M1 M2 A1 A2 eW eB
  rw [halfmove_congr hv', halfmove_congr hv, make_halfmove, make_halfmove, make_halfmove, make_halfmove, ← r2]
  cases h : m2.f.halfmoveReset
  · rw [← r1 h]
  · rfl

/-- **the chess part of `HashInj` for depth ≤ 3** -/
theorem sameDraft_le3 {b : Board} {D : Nat} (hinv : Inv D b) (hD : D ≤ 3) : SameDraft b D :=
  sameDraft_core hinv hD (fun h => transp13 b (Inv_mono h hinv)) (fun h => transp22 b (Inv_mono h hinv))

/-- for depth ≤ 3 `HashInj` is exactly the absence of hash collisions -/
theorem hashInj_of_noCollision_le3 {b : Board} {D : Nat} (hinv : Inv D b) (hD : D ≤ 3) (h : NoCollision b D) : HashInj b D :=
  hashInj_of h (sameDraft_le3 hinv hD)

/-- `C08Sim.hashInj_of_noCollision_3` with its two chess hypotheses discharged -/
theorem hashInj_of_noCollision_3 {b : Board} (hinv : Inv 3 b) (h : NoCollision b 3) : HashInj b 3 :=
  C08Sim.hashInj_of_noCollision_3 hinv h (transp13 b hinv) (transp22 b hinv)

/-- **`go depth d` for `d ≤ 3`**: no chess fact and no property of the run is assumed – only the absence of hash collisions
(`NoCollision`), `HashNonzero`, and the guards on the position -/
theorem go_eq_spec_le3 (b : Board) (d : Nat) (hd1 : 1 ≤ d) (hd3 : d ≤ 3)
    (hinv : Inv (fuelFor d) b) (hlegal : genLegal b ≠ []) (hnowrap : ply2 b + d < 65536)
    (hnc : NoCollision b d) (hnz : HashNonzero b d) (hmat : material b ≤ 64) :
    let s := goCmd (setPosition initial b []) { depth := some d }
    ∃ pv nodes t, Out.info (some d) t nodes (some (scoreFromValue (specValue d b) b)) (some pv) ∈ s.out ∧
      ∃ m, Out.bestMove (some m) (pv[1]?) ∈ s.out ∧ m.uci ∈ specBestMoves d b :=
  C08Sim.go_eq_spec b d hd1 hd3 hinv hlegal hnowrap
    (hashInj_of_noCollision_le3 (Inv_mono (by unfold fuelFor; omega) hinv) hd3 hnc) hnz hmat

#print axioms transp13
#print axioms transp22
#print axioms sameDraft_le3
#print axioms hashInj_of_noCollision_le3
#print axioms hashInj_of_noCollision_3
#print axioms go_eq_spec_le3

/-! ## non-vacuity

`kr` = `k7/8/1K6/8/8/8/8/7R w - - 0 1`; `mix` has castling rights, an e.p. square and a pawn about to promote.  The hypothesis
`Inv 3` is checked in the kernel; that positions exist at plies 1, 2, 3 and that the conclusions hold on them is evaluated
(`#guard`), as are all hypotheses of `go_eq_spec_le3` at depth 3 (`C08Sim.Example.hypotheses` contains `hashInjB`, which implies
`NoCollision`) together with its conclusion. -/
namespace Example
open Inkayaku.C08.Example Inkayaku.C08Sim.Example

theorem kr_inv3 : Inv 3 kr := ⟨by decide +kernel, by decide, by decide⟩

example : Transp13 kr := transp13 kr kr_inv3
example : Transp22 kr := transp22 kr kr_inv3
example : SameDraft kr 3 := sameDraft_le3 kr_inv3 (Nat.le_refl _)

def mix : Board := boardOf "r3k3/1P6/8/3pP3/8/8/8/4K2R w Kq d6 0 2"

/-- `Transp13` evaluated: no key of ply 1 among the keys of ply 3 -/
def transp13B (b : Board) : Bool :=
  (reachList b 1).all fun p' => (reachList b 3).all fun p => decide (HashKey p' ≠ HashKey p)

/-- `Transp22` evaluated -/
def transp22B (b : Board) : Bool :=
  (reachList b 2).all fun p' => (reachList b 2).all fun p => decide (HashKey p' = HashKey p → p'.halfmove = p.halfmove)

#guard (reachList kr 1).length > 10 && (reachList kr 3).length > 100
#guard transp13B kr && transp22B kr
#guard wf mix && (reachList mix 1).length > 10 && (reachList mix 3).length > 1000
#guard transp13B mix && transp22B mix
-- all hypotheses of `go_eq_spec_le3` (with `HashInj`, hence `NoCollision`) and its conclusion at depth 3
#guard hypotheses kr 3 && conclusion kr 3

end Example

end Inkayaku.C08Transp
