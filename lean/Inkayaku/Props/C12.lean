import Inkayaku.Proofs.FenRoundtrip
/-!
# C12 — reading and writing FEN are mutually inverse; malformed text is rejected; nothing panics

Models: `FenSyntax.parse` (core/src/fen.rs `Fen::from_str`), `FenBoard.fromFenString` (`Bitboard::from_fen_string`),
`FenBoard.printFen` (`Fen::from(&Bitboard)`; `none` = the Rust panics).
Spec:   `FenText.printA` (Spec/FenText.lean): the canonical FEN text of an abstract position `APos`
        (a function from the 64 squares to an optional (colour, kind), side, four rights, e.p. square, two clocks).
Helper definitions used in the statements (all in Proofs/FenRoundtrip.lean):

* `Repr b`      the twelve piece words pairwise disjoint (`WF.disjointAll`), `turn ≤ 1`, `ep < 64`, clocks `< 2^32`;
                `wf_repr` shows every legal position (`WF.wf`) is representable;
* `absOf b`     the abstract position of a bitboard; `Holds b p`: bit `sq` of the word (colour, kind) is set iff
                `p` has that piece on `sq`; `Decodes b p` = `Holds` + scratch words 0 + side, rights, e.p., clocks;
* `epCode`      e.p. square → stored code (`none ↦ 0`, `some sq ↦ sq`).  QUIRK of the Rust: code 0 is both "none" and
                a8, so an `a8` e.p. field is read as "no e.p. square" and written back as `-`
                (`canonEp`; a8 is never a legal e.p. square, ranks 3 and 6 only);
* `canonText f` the fields of an accepted text re-joined, with `canonEp` and the clocks in `Nat.toDigits 10`;
* `WF.vis b`    the board without the two scratch occupancy words.

The literal `"startpos"` is an alias the parser accepts although it is not FEN; the rejection theorems therefore
carry `s ≠ "startpos"`.  Fields are the pieces of `splitOnChar ' '` (split at every single space, like the anchored
regex with space-free character classes does).
-/
namespace Inkayaku.C12
open Inkayaku Inkayaku.Board Inkayaku.FenBoard Inkayaku.FenSyntax Inkayaku.FenText Inkayaku.FenRoundtrip

/-! ## Part 0: small helpers for the statements below -/

/-- the text is refused with an error (never a panic: `fromFenString` has no `none`/panic result) -/
def Rejected (s : String) : Prop := ∃ e, FenSyntax.parse s = .error e ∧ fromFenString s = .error e

theorem rejected_of {s : String} (hs : s ≠ "startpos") (h : ∀ f, parseChars s.toList = .ok f → False) :
    Rejected s := by
  unfold Rejected fromFenString FenSyntax.parse
  rw [if_neg hs]
  cases hp : parseChars s.toList with
  | error e => exact ⟨e, rfl, rfl⟩
  | ok f => exact (h f hp).elim

/-- the fields of an accepted text, as a list -/
theorem fields_of_ok {l : List Char} {f : FenFields} (h : parseChars l = .ok f) :
    splitOnChar ' ' l = [f.placement, [f.side], f.castling, f.ep]
    ∨ ∃ hs fs, splitOnChar ' ' l = [f.placement, [f.side], f.castling, f.ep, hs, fs]
        ∧ clockOk hs = true ∧ clockOk fs = true := by
  rcases (parseChars_ok h).2.2.2.2.2 with h6 | ⟨hs, fs, h6⟩
  · exact .inl h6.2.2.2
  · exact .inr ⟨hs, fs, h6.2.1, h6.2.2.1, h6.2.2.2.1⟩

/-- mirrors the control flow of `placeRank` (= the loop body of `parse_player_states`): `false` as soon as the
`panic!()` arm would be taken or a square outside the board would be addressed (`1 << shift`, shift ≥ 64) -/
def rankSafe (rankIdx : Nat) : List Char → Nat → Bool
  | [], _ => true
  | c :: cs, file =>
    if isAsciiDigit c then rankSafe rankIdx cs (file + digitVal c)
    else match pieceOfChar c with
      | none => false
      | some _ => file + 8 * rankIdx < 64 && rankSafe rankIdx cs (file + 1)

def ranksSafe : List (List Char) → Nat → Bool
  | [], _ => true
  | r :: rs, idx => rankSafe idx r 0 && ranksSafe rs (idx + 1)

theorem rankSafe_of (idx : Nat) (hidx : idx < 8) : ∀ (r : List Char) (file : Nat),
    r.all isPlacementChar = true → file + rankCount r ≤ 8 → rankSafe idx r file = true
  | [], _, _, _ => rfl
  | c :: r, file, hall, hc => by
    simp only [List.all_cons, Bool.and_eq_true] at hall
    rw [rankCount_cons] at hc
    rcases placement_char_cases hall.1 with h | h
    · rw [rankSafe, if_pos h.1]
      rw [if_pos h.1] at hc
      exact rankSafe_of idx hidx r _ hall.2 (by omega)
    · rw [rankSafe, if_neg (by simp [h.1]), h.2.1]
      rw [if_neg (by simp [h.1])] at hc
      simp only [Bool.and_eq_true, decide_eq_true_eq]
      exact ⟨by omega, rankSafe_of idx hidx r _ hall.2 (by omega)⟩

theorem ranksSafe_of : ∀ (rs : List (List Char)) (idx : Nat), idx + rs.length ≤ 8 →
    (∀ r ∈ rs, r.all isPlacementChar = true ∧ rankCount r = 8) → ranksSafe rs idx = true
  | [], _, _, _ => rfl
  | r :: rs, idx, hl, h => by
    simp only [List.length_cons] at hl
    have hr := h r (by simp)
    rw [ranksSafe, rankSafe_of idx (by omega) r 0 hr.1 (by omega),
      ranksSafe_of rs (idx + 1) (by omega) (fun x hx => h x (List.mem_cons_of_mem _ hx))]
    rfl

/-- for the examples: is the text accepted -/
def accepted (s : String) : Bool := match fromFenString s with | .ok _ => true | .error _ => false

/-- for the examples: castling rights `Kq` only, an e.p. square, clocks at the top of the 32-bit range -/
def exBoard : Board :=
  match fromFenString "r3k2r/8/8/3pP3/8/8/8/R3K2R w Kq d6 4000000000 4294967295" with
  | .ok b => b
  | .error _ => default

theorem startA_valid : startA.Valid := by
  refine ⟨?_, by decide, by decide⟩
  have h : ∀ sq : Fin 64, (match startA.pieces sq with
      | none => true
      | some (_, k) => decide (1 ≤ k ∧ k ≤ 6)) = true := by decide
  intro sq w k hc
  have := h sq
  rw [hc] at this
  simpa using this

/-! ## Part 1: writing then reading (`Bitboard → Fen → Bitboard`) -/

/-- every legal position is representable -/
theorem wf_repr {b : Board} (h : WF.wf b = true) : Repr b := by
  simp only [WF.wf, Bool.and_eq_true, decide_eq_true_eq, and_assoc] at h
  obtain ⟨h1, _, _, _, h5, _, _, _, _, _, h11, _, h13, h14⟩ := h
  refine ⟨h1, h5, ?_, by omega, by omega⟩
  simp only [Bool.or_eq_true, beq_iff_eq] at h11
  rcases h11 with h11 | h11
  · omega
  · split at h11 <;> simp at h11 <;> omega

example : WF.wf startBoard = true := by decide +kernel

/-- Writing a representable board never panics, the text is the canonical FEN of the position the board stands for,
and reading it back gives the same position (all sixteen castling-right sets, every e.p. square, clocks of any
size below 2^32). -/
theorem print_parse_board {b : Board} (h : Repr b) :
    ∃ s b', printFen b = some s ∧ s = String.ofList (printA (absOf b))
      ∧ fromFenString s = .ok b' ∧ WF.vis b' = WF.vis b := by
  obtain ⟨b', h1, h2⟩ := decode_printA (absOf_valid h)
  exact ⟨_, b', printFen_eq (absOf_holds h) (absOf_valid h) (absOf_meta h), rfl, h1,
    vis_eq h2 (absOf_holds h) (absOf_meta h) h.turn⟩

example : Repr startBoard := ⟨by decide, by decide, by decide, by decide, by decide⟩
example : Repr exBoard := ⟨by decide, by decide, by decide, by decide, by decide⟩
example : exBoard.ep = 19 ∧ exBoard.white.ks = true ∧ exBoard.white.qs = false ∧ exBoard.black.qs = true
    ∧ exBoard.halfmove = 4000000000 ∧ exBoard.fullmove = 4294967295 := by decide
example : printFen exBoard = some "r3k2r/8/8/3pP3/8/8/8/R3K2R w Kq d6 4000000000 4294967295" := by decide

/-- in particular for every legal position -/
theorem print_parse_legal {b : Board} (h : WF.wf b = true) :
    ∃ s b', printFen b = some s ∧ fromFenString s = .ok b' ∧ WF.vis b' = WF.vis b := by
  obtain ⟨s, b', h1, _, h2, h3⟩ := print_parse_board (wf_repr h)
  exact ⟨s, b', h1, h2, h3⟩

/-! ## Part 2: the canonical text of a position is accepted and decoded to exactly that position -/

/-- `Decodes b p` spelled out: each piece on its square and nowhere else, side, each right, e.p. square, clocks -/
theorem decodes_iff (b : Board) (p : APos) : Decodes b p ↔
    ((∀ (white : Bool) (kind sq : Nat), 1 ≤ kind ∧ kind ≤ 6 → sq < 64 →
        (testU ((if white then b.white else b.black).get kind) sq = true ↔ p.at sq = some (white, kind)))
      ∧ b.white.o0 = 0 ∧ b.black.o0 = 0
      ∧ b.turn = (if p.whiteToMove then 0 else 1)
      ∧ b.white.ks = p.wK ∧ b.white.qs = p.wQ ∧ b.black.ks = p.bK ∧ b.black.qs = p.bQ
      ∧ b.ep = epCode p.ep ∧ b.halfmove = p.half ∧ b.fullmove = p.full) :=
  ⟨fun ⟨a1, a2, a3, a4, a5, a6, a7, a8, a9, a10, a11⟩ => ⟨a1, a2, a3, a4, a5, a6, a7, a8, a9, a10, a11⟩,
   fun ⟨a1, a2, a3, a4, a5, a6, a7, a8, a9, a10, a11⟩ => ⟨a1, a2, a3, a4, a5, a6, a7, a8, a9, a10, a11⟩⟩

/-- The canonical six-field text of a valid abstract position is accepted and decoded to exactly that position. -/
theorem decode_correct {p : APos} (hv : p.Valid) :
    ∃ b, fromFenString (String.ofList (printA p)) = .ok b ∧ Decodes b p :=
  decode_printA hv

example : startA.Valid := startA_valid
example : (match fromFenString (String.ofList (printA startA)) with
    | .ok b => decide (b = startBoard)
    | .error _ => false) = true := by decide

/-- The four-field text is accepted and decoded to the same position with the clocks defaulted to 0 and 1. -/
theorem decode_correct_four {p : APos} (hv : p.Valid) :
    ∃ b, fromFenString (String.ofList (printA4 p)) = .ok b ∧ Decodes b { p with half := 0, full := 1 } :=
  decode_printA4 hv

example : ({ startA with whiteToMove := false, wQ := false, ep := some 20 } : APos).Valid :=
  ⟨startA_valid.kinds, by decide, by decide⟩

/-- … and writing the decoded position gives the canonical text again (reading and writing are mutually inverse on
canonical texts).  `p.ep ≠ some 0`: a8 cannot be stored as e.p. square (see the header). -/
theorem decode_then_print {p : APos} (hv : p.Valid) (hep : p.ep ≠ some 0) :
    ∃ b, fromFenString (String.ofList (printA p)) = .ok b ∧ printFen b = some (String.ofList (printA p)) := by
  obtain ⟨b, h1, h2⟩ := decode_printA hv
  refine ⟨b, h1, printFen_eq h2.holds hv ⟨?_, h2.wK, h2.wQ, h2.bK, h2.bQ, h2.ep, hep, h2.half, h2.full⟩⟩
  simp only [Board.whiteTurn, h2.turn]
  cases p.whiteToMove <;> rfl

example : ({ startA with ep := some 20 } : APos).Valid ∧ ({ startA with ep := some 20 } : APos).ep ≠ some 0 :=
  ⟨⟨startA_valid.kinds, by decide, by decide⟩, by decide⟩

/-- A four-field FEN decodes with halfmove clock 0 and fullmove number 1. -/
theorem four_field_defaults {s : String} {b : Board} (h : fromFenString s = .ok b)
    (h4 : (splitOnChar ' ' s.toList).length = 4) : b.halfmove = 0 ∧ b.fullmove = 1 := by
  unfold fromFenString FenSyntax.parse at h
  have hs : s ≠ "startpos" := by
    intro e; subst e; revert h4; decide
  rw [if_neg hs] at h
  cases hp : parseChars s.toList with
  | error e => rw [hp] at h; cases h
  | ok f =>
    rw [hp] at h
    simp only [Except.ok.injEq] at h
    subst h
    rcases (parseChars_ok hp).2.2.2.2.2 with h6 | ⟨hs', fs, h6⟩
    · exact ⟨h6.2.1, h6.2.2.1⟩
    · rw [h6.2.1] at h4; simp at h4

example : accepted "4k3/8/8/8/8/8/8/4K3 b - -" = true
    ∧ (splitOnChar ' ' "4k3/8/8/8/8/8/8/4K3 b - -".toList).length = 4 := by decide

/-! ## Part 3: reading then writing (`Fen → Bitboard → Fen`) -/

/-- Whatever text is accepted, writing the decoded board never panics and yields the canonical form of the text. -/
theorem parse_print_canonical {s : String} {b : Board} (h : fromFenString s = .ok b) :
    ∃ f, FenSyntax.parse s = .ok f ∧ b = boardOfFields f ∧ printFen b = some (String.ofList (canonText f)) := by
  unfold fromFenString at h
  cases hp : FenSyntax.parse s with
  | error e => rw [hp] at h; cases h
  | ok f =>
    rw [hp] at h
    simp only [Except.ok.injEq] at h
    subst h
    refine ⟨f, rfl, rfl, ?_⟩
    unfold FenSyntax.parse at hp
    split at hp <;> exact printFen_boardOfFields hp

example : accepted "4k3/8/8/8/8/8/8/4K3 w - a8 007 010" = true := by decide
-- the canonical form of that text (a8 → `-`, leading zeros dropped)
example : (match fromFenString "4k3/8/8/8/8/8/8/4K3 w - a8 007 010" with
    | .ok b => printFen b
    | .error _ => none) = some "4k3/8/8/8/8/8/8/4K3 w - - 7 10" := by decide

/-- Six fields, clocks without leading zeros, e.p. field not `a8`, not the alias: writing back yields the same text. -/
theorem parse_print_same {s : String} {b : Board} (h : fromFenString s = .ok b) (hs : s ≠ "startpos")
    {pl sd k e hc fc : List Char} (h6 : splitOnChar ' ' s.toList = [pl, sd, k, e, hc, fc])
    (he : e ≠ ['a', '8']) (hz1 : NoLeadingZero hc) (hz2 : NoLeadingZero fc) :
    printFen b = some s := by
  obtain ⟨f, hp, _, hpr⟩ := parse_print_canonical h
  rw [hpr]
  unfold FenSyntax.parse at hp
  rw [if_neg hs] at hp
  rcases (parseChars_ok hp).2.2.2.2.2 with h' | ⟨hs', fs, h'⟩
  · rw [h'.2.2.2] at h6; simp at h6
  · rw [h'.2.1] at h6
    simp only [List.cons.injEq, and_true] at h6
    obtain ⟨rfl, rfl, rfl, rfl, rfl, rfl⟩ := h6
    have c1 := clockOk_lt h'.2.2.1
    have c2 := clockOk_lt h'.2.2.2.1
    have : canonText f = s.toList := by
      rw [canonText, h'.2.2.2.2.1, h'.2.2.2.2.2, decimal_decimalValue c1.1 c1.2.1 hz1,
        decimal_decimalValue c2.1 c2.2.1 hz2, canonEp, if_neg he, ← h'.2.1, joinWith_splitOnChar]
    rw [this, String.ofList_toList]

example : ∃ b, fromFenString "rnbqkbnr/pppp1ppp/8/4p3/4P3/8/PPPP1PPP/RNBQKBNR w KQkq e6 0 2" = .ok b
    ∧ printFen b = some "rnbqkbnr/pppp1ppp/8/4p3/4P3/8/PPPP1PPP/RNBQKBNR w KQkq e6 0 2" := by
  cases h : fromFenString "rnbqkbnr/pppp1ppp/8/4p3/4P3/8/PPPP1PPP/RNBQKBNR w KQkq e6 0 2" with
  | error e =>
    have : accepted "rnbqkbnr/pppp1ppp/8/4p3/4P3/8/PPPP1PPP/RNBQKBNR w KQkq e6 0 2" = true := by decide
    simp [accepted, h] at this
  | ok b =>
    exact ⟨b, rfl, parse_print_same h (by decide)
      (pl := "rnbqkbnr/pppp1ppp/8/4p3/4P3/8/PPPP1PPP/RNBQKBNR".toList) (sd := ['w']) (k := "KQkq".toList)
      (e := "e6".toList) (hc := ['0']) (fc := ['2']) (by decide) (by decide) (.inl rfl) (.inr (by decide))⟩

/-- Four fields (e.p. field not `a8`): writing back yields the text followed by the default clocks. -/
theorem parse_print_four {s : String} {b : Board} (h : fromFenString s = .ok b)
    {pl sd k e : List Char} (h4 : splitOnChar ' ' s.toList = [pl, sd, k, e]) (he : e ≠ ['a', '8']) :
    printFen b = some (s ++ " 0 1") := by
  obtain ⟨f, hp, _, hpr⟩ := parse_print_canonical h
  rw [hpr]
  have hl : (splitOnChar ' ' s.toList).length = 4 := by rw [h4]; rfl
  have hs : s ≠ "startpos" := by
    intro e; subst e; revert hl; decide
  unfold FenSyntax.parse at hp
  rw [if_neg hs] at hp
  rcases (parseChars_ok hp).2.2.2.2.2 with h' | ⟨hs', fs, h'⟩
  · rw [h'.2.2.2] at h4
    simp only [List.cons.injEq, and_true] at h4
    obtain ⟨rfl, rfl, rfl, rfl⟩ := h4
    have : canonText f = s.toList ++ " 0 1".toList := by
      have e1 : s.toList = joinWith ' ' [f.placement, [f.side], f.castling, f.ep] := by
        rw [← h'.2.2.2, joinWith_splitOnChar]
      rw [canonText, h'.2.1, h'.2.2.1, canonEp, if_neg he, e1]
      simp [joinWith, decimal]
      decide
    rw [this, String.ofList_append, String.ofList_toList]
    rfl
  · rw [h'.2.1] at h4; simp at h4

example : accepted "4k3/8/8/8/8/8/8/4K3 b - -" = true
    ∧ splitOnChar ' ' "4k3/8/8/8/8/8/8/4K3 b - -".toList = ["4k3/8/8/8/8/8/8/4K3".toList, ['b'], ['-'], ['-']] := by
  decide

/-! ## Part 4: malformed text is rejected -/

/-- wrong number of space-separated fields -/
theorem reject_field_count {s : String} (hs : s ≠ "startpos")
    (h4 : (splitOnChar ' ' s.toList).length ≠ 4) (h6 : (splitOnChar ' ' s.toList).length ≠ 6) : Rejected s := by
  apply rejected_of hs
  intro f hp
  rcases fields_of_ok hp with h | ⟨_, _, h, _⟩ <;> rw [h] at h4 h6 <;> simp at h4 h6

example : Rejected "8/8/8/8/8/8/8/8 w - - 0" := reject_field_count (by decide) (by decide) (by decide)
example : Rejected "" := reject_field_count (by decide) (by decide) (by decide)

/-- a character in the placement field outside `PNBRQKpnbrqk1-8/` -/
theorem reject_illegal_char {s : String} (hs : s ≠ "startpos") {pl : List Char}
    (h0 : (splitOnChar ' ' s.toList)[0]? = some pl) {c : Char} (hc : c ∈ pl)
    (hbad : c ∉ "PNBRQKpnbrqk12345678/".toList) : Rejected s := by
  apply rejected_of hs
  intro f hp
  have hpl : f.placement = pl := by
    rcases fields_of_ok hp with h | ⟨_, _, h, _⟩ <;> rw [h] at h0 <;> simpa using h0
  obtain ⟨h1, h2, _⟩ := parseChars_ok hp
  have hr := (placement_ok h1 h2).2
  rw [hpl] at hr
  rw [← joinWith_splitOnChar '/' pl] at hc
  rcases mem_joinWith hc with rfl | ⟨r, hr', hcr⟩
  · exact hbad (by decide)
  · have := List.all_eq_true.mp (hr r hr').1 c hcr
    apply hbad
    simp only [isPlacementChar, List.contains_eq_mem, decide_eq_true_eq] at this
    have hsub : ∀ x ∈ "PNBRQKpnbrqk12345678".toList, x ∈ "PNBRQKpnbrqk12345678/".toList := by decide
    exact hsub c this

example : Rejected "8/8/8/8/8/8/8/7x w - - 0 1" :=
  reject_illegal_char (by decide) (pl := "8/8/8/8/8/8/8/7x".toList) (by decide) (c := 'x') (by decide) (by decide)

/-- not exactly eight ranks, or a rank whose squares do not sum to eight -/
theorem reject_rank_sum {s : String} (hs : s ≠ "startpos") {pl : List Char}
    (h0 : (splitOnChar ' ' s.toList)[0]? = some pl)
    (hbad : (splitOnChar '/' pl).length ≠ 8 ∨ ∃ r ∈ splitOnChar '/' pl, rankCount r ≠ 8) : Rejected s := by
  apply rejected_of hs
  intro f hp
  have hpl : f.placement = pl := by
    rcases fields_of_ok hp with h | ⟨_, _, h, _⟩ <;> rw [h] at h0 <;> simpa using h0
  obtain ⟨h1, h2, _⟩ := parseChars_ok hp
  have hr := placement_ok h1 h2
  rw [hpl] at hr
  rcases hbad with hb | ⟨r, hr', hb⟩
  · exact hb hr.1
  · exact hb (hr.2 r hr').2.1

example : Rejected "8/8/8/8/8/8/8/7 w - - 0 1" :=
  reject_rank_sum (by decide) (pl := "8/8/8/8/8/8/8/7".toList) (by decide) (.inr ⟨['7'], by decide, by decide⟩)
example : Rejected "8/8/8/8/8/8/8 w - - 0 1" :=
  reject_rank_sum (by decide) (pl := "8/8/8/8/8/8/8".toList) (by decide) (.inl (by decide))

/-- two digits next to each other inside a rank -/
theorem reject_adjacent_digits {s : String} (hs : s ≠ "startpos") {pl : List Char}
    (h0 : (splitOnChar ' ' s.toList)[0]? = some pl) {r : List Char} (hr : r ∈ splitOnChar '/' pl)
    (hbad : hasAdjacentDigits r = true) : Rejected s := by
  apply rejected_of hs
  intro f hp
  have hpl : f.placement = pl := by
    rcases fields_of_ok hp with h | ⟨_, _, h, _⟩ <;> rw [h] at h0 <;> simpa using h0
  obtain ⟨h1, h2, _⟩ := parseChars_ok hp
  have := ((placement_ok h1 h2).2 r (hpl ▸ hr)).2.2
  rw [hbad] at this; cases this

example : Rejected "8/8/8/8/8/8/8/44 w - - 0 1" :=
  reject_adjacent_digits (by decide) (pl := "8/8/8/8/8/8/8/44".toList) (by decide) (r := "44".toList) (by decide)
    (by decide)

/-- side field other than `w` or `b` -/
theorem reject_bad_side {s : String} (hs : s ≠ "startpos")
    (hw : (splitOnChar ' ' s.toList)[1]? ≠ some ['w']) (hb : (splitOnChar ' ' s.toList)[1]? ≠ some ['b']) :
    Rejected s := by
  apply rejected_of hs
  intro f hp
  have hside := (parseChars_ok hp).2.2.1
  rcases fields_of_ok hp with h | ⟨_, _, h, _⟩ <;> rw [h] at hw hb <;> rcases hside with e | e <;>
    simp [e] at hw hb

example : Rejected "8/8/8/8/8/8/8/8 x - - 0 1" := reject_bad_side (by decide) (by decide) (by decide)

/-- castling field that is neither `-` nor a non-empty subsequence of `KQkq` in that order -/
theorem reject_bad_castling {s : String} (hs : s ≠ "startpos") {k : List Char}
    (h2 : (splitOnChar ' ' s.toList)[2]? = some k)
    (hbad : ¬ (k = ['-'] ∨ (k ≠ [] ∧ k.Sublist ['K', 'Q', 'k', 'q']))) : Rejected s := by
  apply rejected_of hs
  intro f hp
  have hk : f.castling = k := by
    rcases fields_of_ok hp with h | ⟨_, _, h, _⟩ <;> rw [h] at h2 <;> simpa using h2
  have hc := castling_enum (parseChars_ok hp).2.2.2.1
  rw [hk] at hc
  have : ∀ k ∈ castlingFields, k = ['-'] ∨ (k ≠ [] ∧ k.Sublist ['K', 'Q', 'k', 'q']) := by decide
  exact hbad (this k hc)

example : Rejected "8/8/8/8/8/8/8/8 w qK - 0 1" :=
  reject_bad_castling (by decide) (k := "qK".toList) (by decide) (by decide)

/-- e.p. field that is neither `-` nor a file letter `a`–`h` followed by a rank digit `1`–`8` -/
theorem reject_bad_ep {s : String} (hs : s ≠ "startpos") {e : List Char}
    (h3 : (splitOnChar ' ' s.toList)[3]? = some e)
    (hbad : ¬ (e = ['-'] ∨ ∃ fl rk, e = [fl, rk] ∧ 'a' ≤ fl ∧ fl ≤ 'h' ∧ '1' ≤ rk ∧ rk ≤ '8')) : Rejected s := by
  apply rejected_of hs
  intro f hp
  have he : f.ep = e := by
    rcases fields_of_ok hp with h | ⟨_, _, h, _⟩ <;> rw [h] at h3 <;> simpa using h3
  have hc := (parseChars_ok hp).2.2.2.2.1
  rw [he] at hc
  apply hbad
  unfold epShapeOk at hc
  split at hc
  · exact .inl rfl
  · rename_i fl rk
    simp only [Bool.and_eq_true, decide_eq_true_eq] at hc
    exact .inr ⟨fl, rk, rfl, hc.1.1.1, hc.1.1.2, hc.1.2, hc.2⟩
  · cases hc

example : Rejected "8/8/8/8/8/8/8/8 w - e9 0 1" :=
  reject_bad_ep (by decide) (e := "e9".toList) (by decide) (by
    rintro (h | ⟨fl, rk, h, -, -, -, h8⟩)
    · exact absurd h (by decide)
    · have h' : ['e', '9'] = [fl, rk] := h
      injection h' with _ h2
      injection h2 with h3 _
      subst h3
      exact absurd h8 (by decide))

/-- a clock field (fifth or sixth field) that is empty, contains a non-digit, or is not below 2^32 -/
theorem reject_bad_clock {s : String} (hs : s ≠ "startpos") {i : Nat} (hi : i = 4 ∨ i = 5) {c : List Char}
    (hf : (splitOnChar ' ' s.toList)[i]? = some c)
    (hbad : c = [] ∨ (∃ x ∈ c, isAsciiDigit x = false) ∨ 4294967296 ≤ decimalValue c) : Rejected s := by
  apply rejected_of hs
  intro f hp
  have hok : clockOk c = true := by
    rcases fields_of_ok hp with h | ⟨hs', fs, h, h1, h2⟩
    · rw [h] at hf; rcases hi with rfl | rfl <;> simp at hf
    · rw [h] at hf
      rcases hi with rfl | rfl
      · have : hs' = c := by simpa using hf
        rw [← this]; exact h1
      · have : fs = c := by simpa using hf
        rw [← this]; exact h2
  have := clockOk_lt hok
  rcases hbad with hb | ⟨x, hx, hb⟩ | hb
  · exact this.1 hb
  · have := List.all_eq_true.mp this.2.1 x hx
    rw [hb] at this; cases this
  · omega

example : Rejected "8/8/8/8/8/8/8/8 w - - 0 4294967296" :=
  reject_bad_clock (by decide) (i := 5) (.inr rfl) (c := "4294967296".toList) (by decide) (.inr (.inr (by decide)))
example : Rejected "8/8/8/8/8/8/8/8 w - - x 1" :=
  reject_bad_clock (by decide) (i := 4) (.inl rfl) (c := ['x']) (by decide) (.inr (.inl ⟨'x', by decide, by decide⟩))

/-! ## Part 5: no panic -/

/-- After the grammar check none of the panicking operations of the board-level decoding can be reached:
the `panic!()` arm of the piece match and an out-of-board square (`ranksSafe`), the `panic!()` arm of `parse_turn`,
the length assertion and the digit `unwrap` of `square_shift_from_fen_unchecked`, the `parse::<u32>().unwrap()`
of both clocks.  (The parser itself only returns `Ok`/`Err`; `fromFenString` is a total function.) -/
theorem parse_no_panic_branch {s : String} {f : FenFields} (h : FenSyntax.parse s = .ok f) :
    ranksSafe (splitOnChar '/' f.placement) 0 = true
    ∧ (f.side = 'b' ∨ f.side = 'w')
    ∧ (f.ep = ['-'] ∨ ∃ fl rk, f.ep = [fl, rk] ∧ 'a' ≤ fl ∧ fl ≤ 'h' ∧ isAsciiDigit rk = true ∧ 1 ≤ digitVal rk
        ∧ digitVal rk ≤ 8)
    ∧ f.half < 4294967296 ∧ f.full < 4294967296 := by
  have hp : ∃ l, parseChars l = .ok f := by
    unfold FenSyntax.parse at h
    split at h <;> exact ⟨_, h⟩
  obtain ⟨l, hp⟩ := hp
  obtain ⟨h1, h2, h3, _, h5, _⟩ := parseChars_ok hp
  have hv := (posOfFields_spec hp).1
  have hr := placement_ok h1 h2
  refine ⟨?_, h3, ?_, hv.half, hv.full⟩
  · exact ranksSafe_of _ 0 (by omega) (fun r hr' => ⟨(hr.2 r hr').1, (hr.2 r hr').2.1⟩)
  · generalize f.ep = e at h5
    unfold epShapeOk at h5
    split at h5
    · exact .inl rfl
    · rename_i fl rk
      simp only [Bool.and_eq_true, decide_eq_true_eq] at h5
      have hm := char_between h5.1.2 h5.2
      have : ∀ x ∈ (List.range ('8'.toNat + 1 - '1'.toNat)).map (fun i => Char.ofNat ('1'.toNat + i)),
          isAsciiDigit x = true ∧ 1 ≤ digitVal x ∧ digitVal x ≤ 8 := by decide
      exact .inr ⟨fl, rk, rfl, h5.1.1.1, h5.1.1.2, this rk hm⟩
    · cases h5

example : (match FenSyntax.parse "r3k2r/8/8/3pP3/8/8/8/R3K2R w Kq d6 4000000000 4294967295" with
    | .ok _ => true
    | .error _ => false) = true := by decide

/-! ## Axioms -/

#print axioms wf_repr
#print axioms print_parse_board
#print axioms print_parse_legal
#print axioms decode_correct
#print axioms decode_correct_four
#print axioms decode_then_print
#print axioms four_field_defaults
#print axioms parse_print_canonical
#print axioms parse_print_same
#print axioms parse_print_four
#print axioms reject_field_count
#print axioms reject_illegal_char
#print axioms reject_rank_sum
#print axioms reject_adjacent_digits
#print axioms reject_bad_side
#print axioms reject_bad_castling
#print axioms reject_bad_ep
#print axioms reject_bad_clock
#print axioms parse_no_panic_branch

end Inkayaku.C12
