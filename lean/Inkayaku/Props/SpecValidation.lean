import Inkayaku.Model.SpecOps
/-!
# Validation of the rules Spec against published perft numbers (TESTS, labelled as tests)

`Spec/Chess.lean` is the independent statement of the rules of chess that C01, C02, C05, C13, C14 refer to; it is part of the
trusted base (nobody can prove that a definition "is" the FIDE rules).  What can be done is to confront it with numbers published
independently of this project: the perft counts (number of legal move paths of a given length) of the six standard test positions of
the Chess Programming Wiki, which exercise castling, en passant, promotions, pins, checks and double checks.  These are executable
checks of finitely many values — tests, not theorems — run at every build of this module.
-/
namespace Inkayaku.SpecValidation
open Inkayaku

def perft (fen : String) (d : Nat) : String := SpecOps.withPos fen fun p => toString (SpecOps.perftCount p d)

-- 1. initial position
#guard perft "rnbqkbnr/pppppppp/8/8/8/8/PPPPPPPP/RNBQKBNR_w_KQkq_-_0_1" 1 == "20"
#guard perft "rnbqkbnr/pppppppp/8/8/8/8/PPPPPPPP/RNBQKBNR_w_KQkq_-_0_1" 2 == "400"
#guard perft "rnbqkbnr/pppppppp/8/8/8/8/PPPPPPPP/RNBQKBNR_w_KQkq_-_0_1" 3 == "8902"
-- 2. "kiwipete"
#guard perft "r3k2r/p1ppqpb1/bn2pnp1/3PN3/1p2P3/2N2Q1p/PPPBBPPP/R3K2R_w_KQkq_-_0_1" 1 == "48"
#guard perft "r3k2r/p1ppqpb1/bn2pnp1/3PN3/1p2P3/2N2Q1p/PPPBBPPP/R3K2R_w_KQkq_-_0_1" 2 == "2039"
-- 3. en passant with discovered checks along the rank
#guard perft "8/2p5/3p4/KP5r/1R3p1k/8/4P1P1/8_w_-_-_0_1" 1 == "14"
#guard perft "8/2p5/3p4/KP5r/1R3p1k/8/4P1P1/8_w_-_-_0_1" 2 == "191"
#guard perft "8/2p5/3p4/KP5r/1R3p1k/8/4P1P1/8_w_-_-_0_1" 3 == "2812"
-- 4. promotions, castling rights lost by capture
#guard perft "r3k2r/Pppp1ppp/1b3nbN/nP6/BBP1P3/q4N2/Pp1P2PP/R2Q1RK1_w_kq_-_0_1" 1 == "6"
#guard perft "r3k2r/Pppp1ppp/1b3nbN/nP6/BBP1P3/q4N2/Pp1P2PP/R2Q1RK1_w_kq_-_0_1" 2 == "264"
#guard perft "r3k2r/Pppp1ppp/1b3nbN/nP6/BBP1P3/q4N2/Pp1P2PP/R2Q1RK1_w_kq_-_0_1" 3 == "9467"
-- 5.
#guard perft "rnbq1k1r/pp1Pbppp/2p5/8/2B5/8/PPP1NnPP/RNBQK2R_w_KQ_-_1_8" 1 == "44"
#guard perft "rnbq1k1r/pp1Pbppp/2p5/8/2B5/8/PPP1NnPP/RNBQK2R_w_KQ_-_1_8" 2 == "1486"
-- 6.
#guard perft "r4rk1/1pp1qppp/p1np1n2/2b1p1B1/2B1P1b1/P1NP1N2/1PP1QPPP/R4RK1_w_-_-_0_10" 1 == "46"
#guard perft "r4rk1/1pp1qppp/p1np1n2/2b1p1B1/2B1P1b1/P1NP1N2/1PP1QPPP/R4RK1_w_-_-_0_10" 2 == "2079"

end Inkayaku.SpecValidation
