import Inkayaku.Proofs.AlphaBeta
import Inkayaku.Props.C11
/-!
# C08 – shallow scores are exact minimax; mates are found and real

Specification: `Spec/Minimax.lean` (abstract game, `mm`, `optimalMoves`, `ab`, `Qexact`, `q`, `abT`),
instance on the board model: `Model/SpecSearch.lean` (`game`, `specValue`, `specBestMoves`, `ForcedMate`),
helper proofs: `Proofs/AlphaBeta.lean`.

Part 1 (abstract game, every move order):
  `quiescence_clamp`, `ab_ok`, `order_irrelevant`, `root_exact`, `best_move_optimal`, `ab_tt_ok` (transposition table with
  the explicit `SameDraft` restriction, killer/PV/TT-move ordering as arbitrary state dependent permutations).
Part 2 (board instance, no hypothesis on the position):
  `specValue_eq_mm`, `search_eq_mm` (any move order, any capture order), `specBestMoves_eq_optimal`,
  `search_best_move_optimal`.
Part 3 (mates): `mate_found` (a forced mate in N that is not a mate in N-1 makes the depth 2N-1 value `mate N`, and the
  move played keeps the forced mate – for EVERY N, not only N ≤ 3), `mate_real` (a reported positive `mate N` comes from
  a forced mate in N moves).
TARGETs (not proved): the concrete `Search.negamax` (hash-keyed table, repetition test, fuel, abort flags) equals
  `specValue` for d ≤ 3; the principal-variation half of the mate statement, which speaks about `VM.pv` of that model.
-/
namespace Inkayaku.C08
open Inkayaku.Board Inkayaku.Eval Inkayaku.Gen Inkayaku.Minimax Inkayaku.SpecSearch

/-! ## Part 1 – abstract game -/

section Abstract
variable {P μ : Type}

/-- the fail-hard quiescence of the code returns the exhaustive capture resolution clamped to the window, whatever the
order in which the captures are tried -/
theorem quiescence_clamp (h : QGame P μ) (order : P → List μ → List μ) (ho : ∀ p l, (order p l).Perm l)
    (fuel : Nat) (p : P) (α β : Int) (hαβ : α < β) :
    q h order fuel p α β = clamp (Qexact h fuel p) α β :=
  Minimax.quiescence_clamp h order ho fuel p α β hαβ

/-- hence it satisfies the fail-soft contract w.r.t. the exhaustive resolution -/
theorem quiescence_ok (h : QGame P μ) (order : P → List μ → List μ) (ho : ∀ p l, (order p l).Perm l)
    (fuel : Nat) (p : P) (α β : Int) (hαβ : α < β) :
    Ok (Qexact h fuel p) (q h order fuel p α β) α β :=
  Minimax.quiescence_ok h order ho fuel p α β hαβ

/-- "exhaustive": when every capture decreases a rank (men + pawns on the board, say), fuel beyond the rank of the
position does not change the capture resolution – `Qexact` with enough fuel is the unbounded resolution -/
theorem Qexact_fuel_stable (h : QGame P μ) (rank : P → Nat)
    (hr : ∀ p m, m ∈ h.captures p → rank (h.child p m) < rank p) (p : P) (f : Nat) (hf : rank p ≤ f) :
    Qexact h f p = Qexact h (rank p) p :=
  Minimax.Qexact_fuel_stable h rank hr (rank p) p (Nat.le_refl _) f hf

/-- alpha-beta with ANY move order obeys the fail-soft contract w.r.t. plain minimax:
`r ≤ α → mm ≤ r`, `β ≤ r → r ≤ mm`, `α < r < β → r = mm` -/
theorem ab_ok (g : Game P μ) (order : P → List μ → List μ) (ho : ∀ p l, (order p l).Perm l)
    (hleaf : ∀ p a b, g.loss ≤ a → a < b → b ≤ -g.loss → Ok (g.leafExact p) (g.leaf p a b) a b)
    (d : Nat) (p : P) (α β : Int) (hL : g.loss ≤ α) (hαβ : α < β) (hU : β ≤ -g.loss) :
    Ok (mm g d p) (ab g order d p α β).1 α β :=
  Minimax.ab_ok g order ho hleaf d p α β hL hαβ hU

/-- the full window at the root gives the exact minimax value -/
theorem root_exact (g : Game P μ) (order : P → List μ → List μ) (ho : ∀ p l, (order p l).Perm l)
    (hleaf : ∀ p a b, g.loss ≤ a → a < b → b ≤ -g.loss → Ok (g.leafExact p) (g.leaf p a b) a b)
    (d : Nat) (p : P) (hneg : g.loss < 0) (hlo : g.loss ≤ mm g d p) (hhi : mm g d p ≤ -g.loss) :
    (ab g order d p g.loss (-g.loss)).1 = mm g d p :=
  Minimax.root_exact g order ho hleaf d p hneg hlo hhi

/-- two move orders give the same root value: pruning and move ordering never change the result -/
theorem order_irrelevant (g : Game P μ) (o₁ o₂ : P → List μ → List μ)
    (h₁ : ∀ p l, (o₁ p l).Perm l) (h₂ : ∀ p l, (o₂ p l).Perm l)
    (hleaf : ∀ p a b, g.loss ≤ a → a < b → b ≤ -g.loss → Ok (g.leafExact p) (g.leaf p a b) a b)
    (d : Nat) (p : P) (hneg : g.loss < 0) (hlo : g.loss ≤ mm g d p) (hhi : mm g d p ≤ -g.loss) :
    (ab g o₁ d p g.loss (-g.loss)).1 = (ab g o₂ d p g.loss (-g.loss)).1 :=
  Minimax.order_irrelevant g o₁ o₂ h₁ h₂ hleaf d p hneg hlo hhi

/-- the move announced at the root is a move of the root whose child has the negated root value -/
theorem best_move_optimal (g : Game P μ) (order : P → List μ → List μ) (ho : ∀ p l, (order p l).Perm l)
    (hleaf : ∀ p a b, g.loss ≤ a → a < b → b ≤ -g.loss → Ok (g.leafExact p) (g.leaf p a b) a b)
    (d : Nat) (p : P) (hne : (g.moves p).isEmpty = false)
    (hlo : g.loss < mm g (d + 1) p) (hhi : mm g (d + 1) p < -g.loss) :
    ∃ m, (ab g order (d + 1) p g.loss (-g.loss)).2 = some m ∧ m ∈ g.moves p ∧
      - mm g d (g.child p m) = mm g (d + 1) p :=
  Minimax.best_move_optimal g order ho hleaf d p hne hlo hhi

/-- **with transposition table and state dependent ordering** (`Heur`: killer / PV / TT-move hints are arbitrary
functions of the search state that permute the move list; mate values may or may not be stored).
`TTValid`: Exact ⇒ value = mm of the STORED draft, Lower ⇒ value ≤ it, Upper ⇒ it ≤ value.
`SameDraft draft`: no entry of `p` is deeper than the draft `draft p` with which `p` is searched, so an entry accepted by
the code's probe (`stored ≥ remaining`) has exactly the remaining draft.  Both are preserved by the search. -/
theorem ab_tt_ok {H : Type} [DecidableEq P] (g : Game P μ) (hr : Heur P μ H)
    (ho : ∀ h e d p l, (hr.order h e d p l).Perm l)
    (hleaf : ∀ p a b, g.loss ≤ a → a < b → b ≤ -g.loss → Ok (g.leafExact p) (g.leaf p a b) a b)
    (draft : P → Nat) (hdraft : ∀ p m, m ∈ g.moves p → 0 < draft p → draft (g.child p m) + 1 = draft p)
    (d : Nat) (p : P) (α β : Int) (s : TState P μ H) (hd : draft p = d)
    (hL : g.loss ≤ α) (hαβ : α < β) (hU : β ≤ -g.loss)
    (hv : TTValid g s.tt) (hsd : SameDraft draft s.tt) :
    Ok (mm g d p) (abT g hr d p α β s).1.1 α β ∧
      TTValid g (abT g hr d p α β s).2.tt ∧ SameDraft draft (abT g hr d p α β s).2.tt := by
  obtain ⟨h1, h2, h3⟩ := Minimax.abT_ok g hr ho hleaf draft hdraft d p α β s hd hL hαβ hU ⟨hv, hsd⟩
  exact ⟨h1, h2, h3⟩

/-- … and the full window gives the exact value with the table too -/
theorem root_exact_tt {H : Type} [DecidableEq P] (g : Game P μ) (hr : Heur P μ H)
    (ho : ∀ h e d p l, (hr.order h e d p l).Perm l)
    (hleaf : ∀ p a b, g.loss ≤ a → a < b → b ≤ -g.loss → Ok (g.leafExact p) (g.leaf p a b) a b)
    (draft : P → Nat) (hdraft : ∀ p m, m ∈ g.moves p → 0 < draft p → draft (g.child p m) + 1 = draft p)
    (d : Nat) (p : P) (s : TState P μ H) (hd : draft p = d)
    (hv : TTValid g s.tt) (hsd : SameDraft draft s.tt)
    (hneg : g.loss < 0) (hlo : g.loss ≤ mm g d p) (hhi : mm g d p ≤ -g.loss) :
    (abT g hr d p g.loss (-g.loss) s).1.1 = mm g d p :=
  (Minimax.abT_root_exact g hr ho hleaf draft hdraft d p s hd ⟨hv, hsd⟩ hneg hlo hhi).1

end Abstract

#print axioms quiescence_clamp
#print axioms quiescence_ok
#print axioms Qexact_fuel_stable
#print axioms ab_ok
#print axioms root_exact
#print axioms order_irrelevant
#print axioms best_move_optimal
#print axioms ab_tt_ok
#print axioms root_exact_tt

/-! ### non-vacuity: a three-level binary tree searched in reverse order, with and without table -/

namespace Toy

/-- positions = paths; two moves everywhere down to depth 3; leaf values from the path -/
def val (p : List Bool) : Int := (p.foldl (fun acc b => 3 * acc + (if b then 2 else -1)) 0) % 7 - 3

def g : Game (List Bool) Bool :=
  { moves := fun p => if p.length < 3 then [false, true] else []
    child := fun p m => p ++ [m]
    term := val
    leafExact := val
    leaf := fun p a b => clamp (val p) a b
    loss := -100 }

def qg : QGame (List Bool) Bool :=
  { captures := fun p => if p.length < 3 then [false, true] else []
    child := fun p m => p ++ [m]
    standPat := val }

def rev : List Bool → List Bool → List Bool := fun _ l => l.reverse

theorem rev_perm : ∀ (p : List Bool) (l : List Bool), (rev p l).Perm l := fun _ l => List.reverse_perm l

theorem leafOk : ∀ p a b, g.loss ≤ a → a < b → b ≤ -g.loss → Ok (g.leafExact p) (g.leaf p a b) a b :=
  fun p a b _ h _ => ok_clamp (val p) a b h

def hr : Heur (List Bool) Bool Unit :=
  { order := fun _ e _ _ l => match e with | some _ => l | none => l.reverse
    onCut := fun _ _ _ _ => ()
    storable := fun v => v != 3 }

theorem hr_perm : ∀ h e d p l, (hr.order h e d p l).Perm l := by
  intro _ e _ _ l
  cases e with
  | none => exact List.reverse_perm l
  | some _ => exact List.Perm.refl l

def draft (p : List Bool) : Nat := 3 - p.length

example : mm g 3 [] = 1 ∧ ab g rev 3 [] (-100) 100 = (1, some true) ∧ optimalMoves g 3 [] = [true] := by decide

example : (ab g rev 3 [] g.loss (-g.loss)).1 = mm g 3 [] :=
  root_exact g rev rev_perm leafOk 3 [] (by decide) (by decide) (by decide)

example : ∃ m, (ab g rev 3 [] g.loss (-g.loss)).2 = some m ∧ m ∈ g.moves [] ∧ - mm g 2 (g.child [] m) = mm g 3 [] :=
  best_move_optimal g rev rev_perm leafOk 2 [] (by decide) (by decide) (by decide)

example : q qg rev 3 [] (-2) 0 = clamp (Qexact qg 3 []) (-2) 0 ∧ Qexact qg 3 [] = 1 ∧ q qg rev 3 [] (-2) 0 = 0 :=
  ⟨quiescence_clamp qg rev rev_perm 3 [] (-2) 0 (by decide), by decide, by decide⟩

example : Qexact qg 64 [] = Qexact qg 3 [] :=
  Qexact_fuel_stable qg (fun p => 3 - p.length)
    (by intro p m hm
        have hlt : p.length < 3 := by
          by_cases h : p.length < 3
          · exact h
          · simp [qg, h] at hm
        show 3 - (p ++ [m]).length < 3 - p.length
        rw [List.length_append, List.length_singleton]
        omega)
    [] 64 (by decide)

example : (abT g hr 3 [] g.loss (-g.loss) { tt := fun _ => none, hints := () }).1.1 = mm g 3 [] :=
  root_exact_tt g hr hr_perm leafOk draft
    (by intro p m _ h
        show 3 - (p ++ [m]).length + 1 = 3 - p.length
        have : 0 < 3 - p.length := h
        rw [List.length_append, List.length_singleton]
        omega)
    3 [] _ rfl (fun _ _ h => by cases h) (fun _ _ h => by cases h) (by decide) (by decide) (by decide)

end Toy

/-! ## Part 2 – the board instance

`game` = legal moves; mate −(2^24 − fullmove) / stalemate 0 for the mover; horizon = capture resolution (stand-pat of the
static evaluation) when some pseudo-legal move is a capture or promotion, else the static evaluation.
No hypothesis on the board is needed: the static evaluation of the current build is within ±176 000
(`evaluateOngoing_bound`, from the piece values and the generated tables), far inside (−2^24, 2^24). -/

/-- **the verified search computes the minimax value** – for any order of the moves and any order of the captures,
for every depth, every board and every `searchmoves` restriction -/
theorem search_eq_mm (order qorder : Pos → List Move → List Move)
    (ho : ∀ p l, (order p l).Perm l) (hq : ∀ p l, (qorder p l).Perm l) (d : Nat) (p : Pos) :
    (ab (chess.game qorder) order d p lossScore (-lossScore)).1 = mm game d p := by
  have hl := lossScore_val
  rw [show game = chess.game byMvvLva from rfl, searchGame_mm_qorder chess byMvvLva qorder]
  exact root_exact' (chess.game qorder) order ho (game_leafOk qorder hq) (by show lossScore < 0; omega)
    (game_term_ge qorder)
    (fun p => by have := (game_leaf_bound qorder p).1; show lossScore ≤ _; omega)
    (fun p => by have := (game_leaf_bound qorder p).2; show _ ≤ -lossScore; omega) d p

/-- the oracle's value is the exact minimax value of depth `d` -/
theorem specValue_eq_mm (d : Nat) (b : Board) : specValue d b = mm game d (b, []) :=
  search_eq_mm searchOrder byMvvLva isOrder_searchOrder isOrder_byMvvLva d (b, [])

theorem specValueOnly_eq_mm (d : Nat) (b : Board) (only : List String) : specValueOnly d b only = mm game d (b, only) :=
  search_eq_mm searchOrder byMvvLva isOrder_searchOrder isOrder_byMvvLva d (b, only)

/-- natural order, MVV-LVA order, any order: the same value -/
theorem specValue_order_irrelevant (order qorder : Pos → List Move → List Move)
    (ho : ∀ p l, (order p l).Perm l) (hq : ∀ p l, (qorder p l).Perm l) (d : Nat) (b : Board) :
    (ab (chess.game qorder) order d (b, []) lossScore (-lossScore)).1 = specValue d b := by
  rw [specValue_eq_mm, search_eq_mm order qorder ho hq]

/-- the null-window test used for the list of best moves is exact -/
theorem attains_iff (depth : Nat) (b : Board) (v : Int) (m : Move) :
    attains depth b v m = true ↔ - mm game (depth - 1) (make b m, []) = v := by
  have hl := lossScore_val
  unfold attains
  split
  · rename_i h
    simp only [Bool.and_eq_true, decide_eq_true_eq] at h
    obtain ⟨a1, a2, a3⟩ := Minimax.ab_ok game searchOrder isOrder_searchOrder (game_leafOk _ isOrder_byMvvLva)
      (depth - 1) (make b m, []) (-v - 1) (-v + 1) (by show lossScore ≤ _; omega) (by omega)
      (by show _ ≤ -lossScore; omega)
    generalize (ab game searchOrder (depth - 1) (make b m, []) (-v - 1) (-v + 1)).1 = r at *
    generalize mm game (depth - 1) (make b m, []) = x at *
    rw [beq_iff_eq]
    constructor <;> intro h' <;> omega
  · rw [beq_iff_eq]
    have : (ab game searchOrder (depth - 1) (make b m, []) lossScore (-lossScore)).1 = mm game (depth - 1) (make b m, []) :=
      search_eq_mm searchOrder byMvvLva isOrder_searchOrder isOrder_byMvvLva (depth - 1) (make b m, [])
    unfold specSearch
    rw [this]
    omega

/-- **the announced set of best moves is exactly the set of minimax-optimal root moves** -/
theorem specBestMoves_eq_optimal (d : Nat) (b : Board) (only : List String) :
    specBestMovesOnly (d + 1) b only = (optimalMoves game (d + 1) (b, only)).map Move.uci := by
  unfold specBestMovesOnly optimalMoves
  simp only
  congr 1
  apply List.filter_congr
  intro m _
  rw [Bool.eq_iff_iff, attains_iff, beq_iff_eq, specValueOnly_eq_mm, Nat.add_sub_cancel]
  exact Iff.rfl

/-- **the move chosen by the search attains the minimax value**, for any move order and capture order.
Clock guards: side to move is 0/1, full-move number ≥ 1 and below 10^6 (mate scores and static values apart). -/
theorem search_best_move_optimal (order qorder : Pos → List Move → List Move)
    (ho : ∀ p l, (order p l).Perm l) (hq : ∀ p l, (qorder p l).Perm l) (d : Nat) (b : Board) (only : List String)
    (ht : b.turn ≤ 1) (hfm : 1 ≤ b.fullmove) (hbig : b.fullmove + (d + 1) < 1000000)
    (hne : (rootMoves b only).isEmpty = false) :
    ∃ m, (ab (chess.game qorder) order (d + 1) (b, only) lossScore (-lossScore)).2 = some m ∧ m ∈ rootMoves b only ∧
      - mm game d (make b m, []) = mm game (d + 1) (b, only) ∧
      m ∈ optimalMoves game (d + 1) (b, only) := by
  have e : ∀ d p, mm (chess.game qorder) d p = mm game d p :=
    fun d p => searchGame_mm_qorder chess qorder byMvvLva d p
  have hb := root_bounds d b only ⟨ht, hbig⟩ hfm hne
  obtain ⟨m, h1, h2, h3⟩ := Minimax.best_move_optimal (chess.game qorder) order ho (game_leafOk qorder hq) d (b, only) hne
    (by rw [e]; exact hb.1) (by rw [e]; show _ < -lossScore; have := hb.2; have := lossScore_val; have := winScore_val; omega)
  rw [e, e] at h3
  refine ⟨m, h1, h2, h3, ?_⟩
  simp only [optimalMoves, List.mem_filter, beq_iff_eq]
  exact ⟨h2, h3⟩

/-- the engine's move ordering (`MvvLvaMoveOrder::sort` with PV, table and killer bonuses) only permutes the moves,
whatever the hints are – so it is one of the orders the theorems above quantify over -/
theorem engine_order_is_permutation (ms : List Move) (pv tt killer : Option Move) :
    (Search.sortMoves ms pv tt killer).Perm ms := List.mergeSort_perm ms _

#print axioms engine_order_is_permutation
#print axioms search_eq_mm
#print axioms specValue_eq_mm
#print axioms specValueOnly_eq_mm
#print axioms specValue_order_irrelevant
#print axioms attains_iff
#print axioms specBestMoves_eq_optimal
#print axioms search_best_move_optimal

/-! ## Part 3 – mates are found and real -/

/-- **a forced mate is found**: if the side to move can force mate in `N` moves but not in `N-1`, the depth `2N-1`
value is reported as `mate N`, and the move played keeps the forced mate (it mates, or every reply allows a forced mate in
`N-1`).  Holds for every `N`; the restriction `N ≤ 3` of the property text comes from the engine's hash-keyed table. -/
theorem mate_found (b : Board) (N : Nat) (ht : b.turn ≤ 1) (hfm : 1 ≤ b.fullmove) (hbig : b.fullmove + 2 * N < 1000000)
    (hN : ForcedMate N b) (hmin : ¬ ForcedMate (N - 1) b) :
    scoreFromValue (specValue (2 * N - 1) b) b = Score.mate N ∧
    ∃ m, (specSearch (2 * N - 1) (b, [])).2 = some m ∧ m ∈ genLegal b ∧ KeepsMate (ForcedMate (N - 1)) b m := by
  have hw := winScore_val
  have hl := lossScore_val
  cases N with
  | zero => exact absurd hN (by simp [ForcedMate])
  | succ k =>
    have hd : 2 * (k + 1) - 1 = 2 * k + 1 := by omega
    have hlo := forcedMate_value (k + 1) b ⟨ht, hbig⟩ hN
    have hval : V (2 * k + 1) b = winScore - mateFull b (k + 1) := by
      rw [hd] at hlo
      have hup : ¬ (winScore - mateFull b k ≤ V (2 * k + 1) b) := fun h =>
        hmin (value_forcedMate (2 * k + 1) b k ⟨ht, by omega⟩ (by unfold mateFull; omega) h)
      unfold mateFull at *
      omega
    rw [hd]
    constructor
    · rw [specValue_eq_mm]
      show scoreFromValue (V (2 * k + 1) b) b = _
      rw [hval]
      have : b.turn = 0 ∨ b.turn = 1 := by omega
      rcases this with h | h
      · have e : winScore - mateFull b (k + 1) = winScore - ((b.fullmove : Int) + ((k + 1 : Nat) : Int) - 1) := by
          unfold mateFull; omega
        rw [e]
        exact C11.score_mate_white b (k + 1) h (by rw [EvalFlip.maxFullMoves_val]; omega)
      · have e : winScore - mateFull b (k + 1) = winScore - ((b.fullmove : Int) + ((k + 1 : Nat) : Int)) := by
          unfold mateFull; omega
        rw [e]
        exact C11.score_mate_black b (k + 1) h (by rw [EvalFlip.maxFullMoves_val]; omega)
    · have hne : (rootMoves b []).isEmpty = false := by
        obtain ⟨m, hm, _⟩ := hN
        have : rootMoves b [] = genLegal b := by simp [rootMoves]
        rw [this]
        cases hg : genLegal b with
        | nil => rw [hg] at hm; cases hm
        | cons _ _ => rfl
      obtain ⟨m, h1, h2, h3, _⟩ := search_best_move_optimal searchOrder byMvvLva isOrder_searchOrder isOrder_byMvvLva
        (2 * k) b [] ht hfm (by omega) hne
      have hmem : m ∈ genLegal b := by
        have : rootMoves b [] = genLegal b := by simp [rootMoves]
        rw [this] at h2; exact h2
      refine ⟨m, h1, hmem, ?_⟩
      show KeepsMate (ForcedMate k) b m
      apply keeps_of_value (2 * k) b k m ⟨ht, by omega⟩ (by unfold mateFull; omega)
      show mm game (2 * k) (make b m, []) ≤ _
      have : mm game (2 * k + 1) (b, []) = V (2 * k + 1) b := rfl
      rw [this, hval] at h3
      omega

/-- **a reported mate is real**: if the depth `d` value is reported as a positive `mate N`, the side to move has a forced
mate in `N` moves (against every defence, by legal moves, ending in checkmate) -/
theorem mate_real (b : Board) (d N : Nat) (ht : b.turn ≤ 1) (hbig : b.fullmove + d < 1000000) (hN : 0 < N)
    (h : scoreFromValue (specValue d b) b = Score.mate N) : ForcedMate N b := by
  have hw := winScore_val
  have hl := lossScore_val
  rw [specValue_eq_mm] at h
  have hb : lossScore + (b.fullmove : Int) ≤ mm game d (b, []) := (V_bounds d b ⟨ht, hbig⟩).1
  suffices hs : mateFull b N ≤ 8388608 ∧ winScore - mateFull b N ≤ mm game d (b, []) from
    value_forcedMate d b N ⟨ht, hbig⟩ hs.1 hs.2
  revert h hb
  generalize mm game d (b, []) = v
  intro h hb
  unfold scoreFromValue at h
  split at h
  · rename_i hv
    injection h with h
    unfold mateFull
    have hsign : v.sign = 1 ∨ v.sign = 0 ∨ v.sign = -1 := by
      rcases Int.lt_trichotomy v 0 with h0 | h0 | h0
      · right; right; exact Int.sign_eq_neg_one_of_neg h0
      · right; left; rw [h0]; rfl
      · left; exact Int.sign_eq_one_of_pos h0
    rcases hsign with hs | hs | hs
    · have hpos : 0 < v := Int.sign_eq_one_iff_pos.mp hs
      rw [hs, Int.mul_one] at h
      have hv' : (v.natAbs : Int) = v := Int.natAbs_of_nonneg (by omega)
      have : b.turn = 0 ∨ b.turn = 1 := by omega
      rcases this with h0 | h0 <;> simp [h0, hpos] at h <;> omega
    · rw [hs, Int.mul_zero] at h; omega
    · have hneg : v < 0 := Int.sign_eq_neg_one_iff_neg.mp hs
      have hv' : (v.natAbs : Int) = -v := by omega
      rw [hs] at h
      have : b.turn = 0 ∨ b.turn = 1 := by omega
      rcases this with h0 | h0 <;> simp [h0] at h <;> omega
  · cases h

#print axioms mate_found
#print axioms mate_real

/-! ### non-vacuity on real positions

`kr` = `k7/8/1K6/8/8/8/8/7R w - - 0 1` (mate in one by `h1h8`).  The values are computed IN THE KERNEL with the generator's
natural move and capture order and carried over to the oracle (which sorts by MVV-LVA) by `specValue_order_irrelevant` –
the theorem at work. -/

namespace Example

def kr : Board :=
  { white := { rooks := 9223372036854775808, kings := 131072 }
    black := { kings := 1 }
    turn := 0, ep := 0, fullmove := 1, halfmove := 0 }

def h1h8 : Move := ⟨2093060, 0⟩

theorem kr_value : specValue 1 kr = 16777215 := by
  rw [← specValue_order_irrelevant natural natural isOrder_natural isOrder_natural]
  decide +kernel

example : mm game 1 (kr, []) = winScore - 1 := by rw [← specValue_eq_mm, kr_value]; decide

example : scoreFromValue (specValue 1 kr) kr = Score.mate 1 := by rw [kr_value]; decide +kernel

theorem kr_forced : ForcedMate 1 kr :=
  ⟨h1h8, by decide +kernel, Or.inl ⟨by decide +kernel, by decide +kernel⟩⟩

/-- `mate_found` applies: its hypotheses hold for `kr`, `N = 1` -/
example : scoreFromValue (specValue (2 * 1 - 1) kr) kr = Score.mate (1 : Nat) ∧
    ∃ m, (specSearch (2 * 1 - 1) (kr, [])).2 = some m ∧ m ∈ genLegal kr ∧ KeepsMate (ForcedMate (1 - 1)) kr m :=
  mate_found kr 1 (by decide) (by decide) (by decide) kr_forced (fun h => h)

/-- `mate_real` applies -/
example : ForcedMate 1 kr :=
  mate_real kr 1 1 (by decide) (by decide) (by decide) (by rw [kr_value]; decide +kernel)

/-- `search_best_move_optimal` applies (natural orders, no restriction) -/
example : ∃ m, (ab (chess.game natural) natural (0 + 1) (kr, []) lossScore (-lossScore)).2 = some m ∧
    m ∈ rootMoves kr [] ∧ - mm game 0 (make kr m, []) = mm game (0 + 1) (kr, []) ∧ m ∈ optimalMoves game (0 + 1) (kr, []) :=
  search_best_move_optimal natural natural isOrder_natural isOrder_natural 0 kr [] (by decide) (by decide) (by decide)
    (by decide +kernel)

-- the oracle itself (compiled evaluation; strings and FEN parsing are not kernel material)
#guard specScore 1 kr == "mate1"
#guard specBestMoves 1 kr == ["h1h8"]
#guard handleSpecSearch ["k7/8/1K6/8/8/8/8/7R_w_-_-_0_1", "1"] == "mate1 h1h8"
#guard handleSpecSearch ["k7/8/2K5/8/8/8/8/7R_w_-_-_0_1", "3"] == "mate2 c6b6,c6c7"
#guard handleSpecSearch ["7K/8/5k2/8/8/8/8/r7_b_-_-_0_9", "3"] == "mate2 f6f7,f6g6"
#guard handleSpecSearch ["k7/8/2K5/8/8/8/8/7R_w_-_-_0_1", "1"] == "cp590 c6d5"
#guard handleSpecSearch ["k7/8/2K5/8/8/8/8/7R_w_-_-_0_1", "2", "h1h2", "c6d5"] == "cp570 c6d5"
#guard handleSpecSearch ["k7/2Q5/1K6/8/8/8/8/8_b_-_-_0_1", "2"] == "nomoves"

end Example

/-
TARGET (not yet proved): `negamax_eq_spec` – the faithful model of the engine agrees with the specification.

  ∀ (b : Board) (d : Nat), WF.wf b = true → 1 ≤ d → d ≤ 3 →
    let s₀ : Search.St := Search.setPosition Search.initial b []          -- history = the root only: no repetition
    let s  := Search.goCmd s₀ { depth := some d }
    -- the last iteration info
    ∃ pv nodes t, Search.Out.info (some d) t nodes (some (scoreFromValue (specValue d b) b)) (some pv) ∈ s.out ∧
      -- … and the best move
      (rootMoves b [] ≠ [] → ∃ m, Search.Out.bestMove (some m) (pv[1]?) ∈ s.out ∧ m.uci ∈ specBestMoves d b)

  i.e. `(Search.negamax (fuelFor d) s_d 0 d lossScore winScore _ (hash b) (pawnHash b)).1.value = specValue d b` for the state
  `s_d` reached after iterations `1 … d-1` (table filled by them, killers, previous PV), and `.mv` attains it.

What is proved towards it: everything that does not depend on the concrete data structures –
  * `ab_tt_ok` / `root_exact_tt`: alpha-beta + table (probe `stored ≥ remaining`, window narrowing, Upper/Lower/Exact
    classification with the ORIGINAL alpha and the NARROWED beta, mate values not stored) + arbitrary state dependent move
    permutations, under `TTValid` and `SameDraft`, both preserved; `inv_empty`, `inv_deepen` (iterative deepening keeps them);
  * `quiescence_clamp` for the capture search; `search_eq_mm`, `specBestMoves_eq_optimal` on the board instance.
What is missing (each a lemma about `Model/Search.lean`, to be proved with the phase equations of `Proofs/SearchShape.lean`):
  1. simulation: `Search.quiescence`/`Search.negamax` (state threading, `make`/`unmake` on one board, fuel, node counters,
     flag polls that never fire below 100 000 nodes) compute `q` / `abT` of `SpecSearch.chess`, with `sortMoves … pv tt killer`
     as the `Heur.order` (a `mergeSort`, hence a permutation) – needs C03 (`unmake (make b m) m` restores the visible
     position) and `Proofs/BoardCongr.lean`;
  2. the table is keyed by the Zobrist hash, not by the position: `HashInj` on the ≤ 3-ply neighbourhood of the root has to
     be assumed (or the statement made conditional on it), and then `sameDraft_le3`: a position at ply 1 cannot recur at
     ply 3, nor the root at ply 2 (one side has made a move the other cannot undo), so every entry hit by a probe has the
     remaining draft – for d ≥ 4 transpositions between plies 2 and 4 make deeper-draft entries answer shallower probes and
     the value may legitimately differ from `mm` (that is why the property stops at 3);
  3. the repetition test (`countRepetitions … ≥ 3` for ply > 0) is never true within 3 plies of a history that contains the
     root only;
  4. fuel: `fuelFor d = d + 200` exceeds `d` + the longest capture sequence (≤ 30 captures + 16 promotions), and
     `quiescenceFuel = 64` likewise (`Qexact_fuel_stable` gives the abstract half: a rank that decreases with every
     capture makes the fuel irrelevant).

TARGET (not yet proved): `mate_pv` – whenever `goCmd` reports a positive `mate N` at depth d ≤ 3, the reported principal
  variation (`VM.pv` of the root result) has `2N-1` moves, each legal in the position reached by its predecessors, and the
  final position is `Checkmated`.  The specification-level content is proved: `mate_real` (a forced mate in N exists) and
  `mate_found` (the move played keeps it); the statement about `VM.pv` needs item 1 above plus the observation that a
  table hit returns the stored `VM` (with its own continuation) – under `SameDraft` that continuation was computed for the
  same position and draft.
-/

end Inkayaku.C08
