import Inkayaku.Proofs.SearchSimCheck
import Inkayaku.Proofs.SearchSimFuel
import Inkayaku.Proofs.SearchSimHash
/-!
# C08 (simulation) – the faithful model of the engine's search computes the specification value for d ≤ 3

`Props/C08.lean` proves on the abstract game that alpha-beta + transposition table + any move order = minimax, and leaves as
TARGET that the executable model `Model/Search.lean` (`negamax`, `quiescence`, `deepen`, `goCmd`: one board with
`make`/`unmake`, hash-keyed table, repetition history, fuel, flag polls, killers, PV and TT move ordering) IS such a search.
This file states what is proved of that TARGET (helper proofs: `Proofs/SearchSim{Q,Rep,Inv,Loop,Node,Root,Fuel,Check,Hash}.lean`).

1. `quiescence_sim`     – `Search.quiescence` = the abstract fail-hard `Minimax.q` on `SpecSearch.chess`, board restored,
                          nothing but scratch words and the quiescence counter touched.
2. `repetition_inert`   – within three plies of a root below which the history is fresh, `count_repetitions ≥ 3` is never
                          true (counting fact for ANY contents of the cells at and above the root index), and
                          `repetition_return_not_taken` for the search state.
3. `negamax_node_sim`   – every node of an iteration of depth `D ≤ 3`: fail-soft contract w.r.t. `mm game (D − ply)`, board
                          restored, table invariant kept (`TTOK`: entries are keyed by the hash of a position of the
                          search, have at most the remaining draft of that position and tell the truth about `mm`).
4. `negamax_eq_spec`    – the root call of iteration `d` returns `specValue d b` and a move of `specBestMoves d b`;
   `go_eq_spec`         – `go depth d` after `position <b>` reports `specValue d b` in its last info line and announces
                          such a move (the TARGET statement of `Props/C08.lean`, with its hypotheses made explicit).
5. `fuel_adequate`      – capture sequences are bounded by the material (`material b ≤ 46` in a game), so
                          `quiescenceFuel = 64` and the engine's `fuelFor d = d + 200` are both enough.

6. `hashInj_of_noCollision_le2`, `hashInj_of_noCollision_3` – `HashInj` split into the genuine hash hypothesis `NoCollision`
                          (equal hash ⇒ equal `C06.HashKey` = everything the hash reads) and the chess facts `SameDraft`:
                          proved for `d ≤ 2` (`go_eq_spec_le2` assumes no chess fact), for `d = 3` reduced to `Transp13` and
                          `Transp22` (TARGET).

Explicit hypotheses of 3/4 (none is an axiom; all are decidable and evaluated below on sample positions):
* `HashInj b d`     – a position at a ply `< d` and a position at a ply `≤ d` of the search tree with the same Zobrist hash
                      are the same position at the same ply (= `NoCollision` + the chess facts `sameDraft`, see 6 and TARGET);
* `HashNonzero b d` – no position below the root hashes to 0 (the content of the never written history cells);
* `material b ≤ 64`, the clock budget `Inv (fuelFor d) b` (well-formed, `halfmove + d + 200 ≤ 4095`), no 16-bit wrap of the
  ply clock, a legal move exists, fresh history below the root, and no interruption (`NoIntr`): the node counter stays below
  the poll period (NoPoll), OR no message is waiting and no move time is set (`Calm`: a flag poll then only emits its
  periodic info line).  `go depth d` right after `position` is calm, so `go_eq_spec` needs neither.
-/
namespace Inkayaku.C08Sim
open Inkayaku.Board Inkayaku.Eval Inkayaku.WF Inkayaku.Minimax Inkayaku.SpecSearch Inkayaku.Search Inkayaku.SearchSim

/-! ## 1. quiescence -/

/-- **`search_quiescence` is the abstract fail-hard quiescence.**  `Inv fuel` = well-formed with clock budget `fuel`;
`QDepth k` = capture sequences are at most `k` long (`fuel_adequate`: `k = material`); `qorder` = the engine's capture order
(the legal ones among `sortMoves (genNonQuiescent b) none none none`), an `IsOrder` of the abstract game. -/
theorem quiescence_sim (fuel k n : Nat) (s : St) (α β : Int) (hinv : Inv fuel s.board) (hq : QDepth k s.board)
    (hk : k < fuel) (hn : k ≤ n) :
    (quiescence fuel s α β).1.value = q chess.qgame qorder n (s.board, []) α β ∧
    vis (quiescence fuel s α β).2.board = vis s.board ∧
    ∃ b' qn, (quiescence fuel s α β).2 = { s with board := b', quiescenceNodes := qn } :=
  SearchSim.quiescence_sim fuel k n s α β hinv hq hk hn

theorem qorder_is_order : IsOrder qorder := isOrder_qorder

/-- hence (by `C08.quiescence_clamp`) the value is the exhaustive capture resolution clamped to the window -/
theorem quiescence_sim_clamp (fuel k n : Nat) (s : St) (α β : Int) (hinv : Inv fuel s.board) (hq : QDepth k s.board)
    (hk : k < fuel) (hn : k ≤ n) (hαβ : α < β) :
    (quiescence fuel s α β).1.value = clamp (Qexact chess.qgame n (s.board, [])) α β :=
  SearchSim.quiescence_sim_clamp fuel k n s α β hinv hq hk hn hαβ

#print axioms quiescence_sim
#print axioms quiescence_sim_clamp

/-! ## 2. repetition -/

/-- **the counting fact**: for a node at most three plies above the root index `r`, fewer than three repetitions are counted
unless a cell BELOW `r` inside the half-move window holds the node's hash – whatever the cells `r … start` (current line,
stale entries of earlier branches and iterations) and the cells above `start` hold -/
theorem repetition_inert (h : Nat → Nat) (start hm r : Nat) (hr : start ≤ r + 3)
    (hfresh : ∀ j, j < r → start - hm ≤ j → h j ≠ h start) : ¬ History.countRepetitions h start hm ≥ 3 :=
  countRepetitions_inert h start hm r hr hfresh

/-- a position cannot occur three times within four plies -/
theorem repetition_inert_window (h : Nat → Nat) (start hm r : Nat) (hr : start ≤ r + 3) (hw : r ≤ start - hm) :
    ¬ History.countRepetitions h start hm ≥ 3 :=
  countRepetitions_inert_window h start hm r hr hw

/-- the repetition return of `search_negamax` is not taken: cells below the root are zero, the hash is not, the node is at
most three plies below the root, no flag poll -/
theorem repetition_return_not_taken {r : Nat} {s : St} (hz : HistZero r s) (hnf : pollFlag s = false) (hash : UInt64)
    (ply : Nat) (hlo : r ≤ plyClock s.board) (hhi : plyClock s.board ≤ r + 3) (hne : hash.toNat ≠ 0) :
    isRep (enter s hash) ply = false :=
  isRep_enter_false hz hnf hash ply hlo hhi hne

/-- `position <fen>` without moves leaves such a history -/
theorem fresh_after_position (s : St) (b : Board) : HistZero (plyClock b) (setPosition s b []) :=
  setPosition_histZero s b

#print axioms repetition_inert
#print axioms repetition_return_not_taken
#print axioms fresh_after_position

example : ¬ History.countRepetitions (fun i => [0, 0, 0, 0, 7, 9, 7, 9].getD i 0) 7 50 ≥ 3 :=
  repetition_inert _ 7 50 4 (by decide) (by decide)

/-! ## 5. fuel -/

/-- **fuel adequacy**: a capture or promotion strictly decreases the material, no move increases it, so capture sequences
from a well-formed board are at most `material b` long … -/
theorem fuel_adequate (k : Nat) (b : Board) (hinv : Inv k b) (hmat : material b ≤ k) : QDepth k b :=
  qdepth_of_material k b hinv hmat

theorem capture_decreases_material {b : Board} (hwf : wf b = true) {m : Move} (hm : m ∈ genNonQuiescent b) :
    material (make b m) < material b :=
  material_capture_lt hwf hm

/-- … and the hypothesis `QBound` of the simulation follows from `material b ≤ 64` at the root -/
theorem qbound_of_material {b : Board} {D : Nat} (hinv : Inv (D + quiescenceFuel) b) (hmat : material b ≤ quiescenceFuel) :
    QBound b D :=
  SearchSim.qbound_of_material hinv hmat

#print axioms fuel_adequate
#print axioms capture_decreases_material
#print axioms qbound_of_material

/-! ## 3. a node -/

/-- **a node of `search_negamax` in an iteration of depth `D ≤ 3`** (`Hyp b0 D` bundles `HashInj`, `HashNonzero`, `QBound`,
`D ≤ 3`, the clock guards; `SOK` = table invariant `TTOK`, fresh history below the root, not stopped, no `searchmoves`;
`NodePost` = fail-soft contract w.r.t. `mm game (D − k)`, board restored, `SOK` kept, best move attains the value) -/
theorem negamax_node_sim {b0 : Board} {D : Nat} (H : Hyp b0 D) (fuel : Nat) (s : St) (k : Nat) (α β : Int) (isPv : Bool)
    (hash ph : UInt64) (hk : k ≤ D) (hreach : Reach b0 k s.board) (hinv : Inv fuel s.board) (hfuel : 66 + (D - k) ≤ fuel)
    (hsok : SOK b0 D s) (hhash : hash = Zobrist.hash s.board) (hroot : k = 0 → genLegal s.board ≠ [])
    (hL : lossScore ≤ α) (hαβ : α < β) (hU : β ≤ -lossScore)
    (hN : NoIntr s (negamax fuel s k D α β isPv hash ph).2.negamaxNodes) :
    Ok (mm game (D - k) (s.board, [])) (negamax fuel s k D α β isPv hash ph).1.value α β ∧
    vis (negamax fuel s k D α β isPv hash ph).2.board = vis s.board ∧
    SOK b0 D (negamax fuel s k D α β isPv hash ph).2 :=
  let h := negamax_sim H fuel s k α β isPv hash ph hk hreach hinv hfuel hsok hhash hroot hL hαβ hU hN
  ⟨h.1, h.2.1, h.2.2.1⟩

#print axioms negamax_node_sim

/-! ## 4. the root, iterative deepening, `go` -/

/-- the explicit hypotheses, assembled from their checkable parts -/
theorem hyp_intro {b : Board} {d : Nat} (hd3 : d ≤ 3) (hinv : Inv (fuelFor d) b) (hnowrap : ply2 b + d < 65536)
    (hinj : HashInj b d) (hnz : HashNonzero b d) (hmat : material b ≤ 64) : Hyp b d :=
  ⟨hinj, hnz, SearchSim.qbound_of_material (Inv_mono (by unfold fuelFor quiescenceFuel; omega) hinv) hmat, hd3, hnowrap,
    Inv_mono (by unfold fuelFor; omega) hinv⟩

/-- **`negamax_eq_spec`**: iteration `d` (`1 ≤ d ≤ 3`) of a go.  `s` is any state whose board is `b` up to the scratch words,
whose table satisfies the invariant of the earlier iterations (`SOK b (d − 1) s`; the empty table of `go` for `d = 1`), with
a fresh repetition history.  The value returned by `negamax (fuelFor d) s 0 d lossScore winScore isPv hash pawnHash` is
`specValue d b` and the move returned is one of `specBestMoves d b`. -/
theorem negamax_eq_spec (b : Board) (d : Nat) (s : St) (hd1 : 1 ≤ d) (hd3 : d ≤ 3) (hb : vis s.board = vis b)
    (hinv : Inv (fuelFor d) b) (hlegal : genLegal b ≠ []) (hnowrap : ply2 b + d < 65536)
    (hinj : HashInj b d) (hnz : HashNonzero b d) (hmat : material b ≤ 64) (hsok : SOK b (d - 1) s)
    (hN : NoIntr s (negamax (fuelFor d) s 0 d lossScore Gen.winScore s.pv.isSome (Zobrist.hash s.board)
      (Zobrist.pawnHash s.board)).2.negamaxNodes) :
    let r := negamax (fuelFor d) s 0 d lossScore Gen.winScore s.pv.isSome (Zobrist.hash s.board) (Zobrist.pawnHash s.board)
    r.1.value = specValue d b ∧ (∃ m, r.1.mv = some m ∧ m.uci ∈ specBestMoves d b) ∧
    vis r.2.board = vis b ∧ SOK b d r.2 :=
  rootSearch_sim hd1 (hyp_intro hd3 hinv hnowrap hinj hnz hmat) s hb hinv hsok hlegal hN

/-- **`go_eq_spec`** – the TARGET of `Props/C08.lean`: after `position <b>` (no moves, so no repetition history),
`go depth d` with `1 ≤ d ≤ 3` reports the exact minimax value `specValue d b` in the info line of depth `d` and announces a
move of `specBestMoves d b`, the ponder move being the second move of the reported PV. -/
theorem go_eq_spec (b : Board) (d : Nat) (hd1 : 1 ≤ d) (hd3 : d ≤ 3)
    (hinv : Inv (fuelFor d) b) (hlegal : genLegal b ≠ []) (hnowrap : ply2 b + d < 65536)
    (hinj : HashInj b d) (hnz : HashNonzero b d) (hmat : material b ≤ 64) :
    let s := goCmd (setPosition initial b []) { depth := some d }
    ∃ pv nodes t, Out.info (some d) t nodes (some (scoreFromValue (specValue d b) b)) (some pv) ∈ s.out ∧
      ∃ m, Out.bestMove (some m) (pv[1]?) ∈ s.out ∧ m.uci ∈ specBestMoves d b := by
  have hs0 : (setPosition initial b []).board = b := by rw [setPosition_nil]
  have hpd : (setPosition initial b []).pending = [] := by rw [setPosition_nil]; rfl
  have hns : (setPosition initial b []).nsPerNode = none := by rw [setPosition_nil]; rfl
  obtain ⟨pv, nodes, t, m, older, h1, h2, _⟩ := goCmd_sim (setPosition initial b []) d 64 hd1 (by omega)
    (by rw [hs0]; exact hyp_intro hd3 hinv hnowrap hinj hnz hmat) (by rw [hs0]; exact hinv) (by rw [hs0]; exact hlegal)
    (by rw [hs0]; exact setPosition_histZero initial b) hns (Or.inr hpd)
  rw [hs0] at h1 h2
  refine ⟨pv, nodes, t, ?_, m, ?_, h2⟩
  · show _ ∈ (goCmd (setPosition initial b []) { depth := some d } 64).out
    rw [h1]; exact List.mem_cons_of_mem _ List.mem_cons_self
  · show _ ∈ (goCmd (setPosition initial b []) { depth := some d } 64).out
    rw [h1]; exact List.mem_cons_self

/-- the same for any starting state and iteration bound, with the shape of the output: the two newest lines are the
`bestmove` and the info of depth `d` -/
theorem go_eq_spec_general (s₀ : St) (d maxIter : Nat) (hd1 : 1 ≤ d) (hd3 : d ≤ 3) (hmi : d ≤ maxIter)
    (hinv : Inv (fuelFor d) s₀.board) (hlegal : genLegal s₀.board ≠ []) (hnowrap : ply2 s₀.board + d < 65536)
    (hinj : HashInj s₀.board d) (hnz : HashNonzero s₀.board d) (hmat : material s₀.board ≤ 64)
    (hz : HistZero (plyClock s₀.board) s₀) (hns : s₀.nsPerNode = none)
    (hN : (goCmd s₀ { depth := some d } maxIter).negamaxNodes < s₀.pollPeriod ∨ s₀.pending = []) :
    ∃ (pv : List Move) (nodes : Nat) (t : Option Nat) (m : Move) (older : List Out),
      (goCmd s₀ { depth := some d } maxIter).out =
        .bestMove (some m) (pv[1]?) ::
        .info (some d) t nodes (some (scoreFromValue (specValue d s₀.board) s₀.board)) (some pv) :: older ∧
      m.uci ∈ specBestMoves d s₀.board ∧ vis (goCmd s₀ { depth := some d } maxIter).board = vis s₀.board :=
  goCmd_sim s₀ d maxIter hd1 hmi (hyp_intro hd3 hinv hnowrap hinj hnz hmat) hinv hlegal hz hns hN

#print axioms negamax_eq_spec
#print axioms go_eq_spec
#print axioms go_eq_spec_general


/-! ## 6. `HashInj` = no collision + chess facts -/

/-- for depth ≤ 2 the chess part is proved: `HashInj` follows from the absence of hash collisions alone
(`NoCollision`: equal hashes in the neighbourhood ⇒ equal `C06.HashKey`, i.e. equal placement, side to move, rights, e.p. file) -/
theorem hashInj_of_noCollision_le2 {b : Board} {d : Nat} (hinv : Inv d b) (hd : d ≤ 2) (h : NoCollision b d) : HashInj b d :=
  hashInj_le2 hinv hd h

/-- depth 3: two chess facts remain (`Transp13`: a position at ply 1 does not recur at ply 3; `Transp22`: two 2-ply lines to
the same `HashKey` have the same half-move clock) -/
theorem hashInj_of_noCollision_3 {b : Board} (hinv : Inv 3 b) (h : NoCollision b 3) (h13 : Transp13 b) (h22 : Transp22 b) :
    HashInj b 3 :=
  hashInj_3 hinv h h13 h22

/-- the pieces of `SameDraft` that are proved: parity, the root does not recur after two plies, two root moves to the same key
reach the same visible position -/
theorem root_not_after_two_plies {b : Board} (hinv : Inv 1 b) {m1 m2 : Move} (h1 : m1 ∈ genLegal b)
    (h2 : m2 ∈ genLegal (make b m1)) : C06.HashKey (make (make b m1) m2) ≠ C06.HashKey b :=
  key_cross02 hinv h1 h2

theorem root_moves_distinct_clock {b : Board} (hwf : wf b = true) {m m' : Move} (h : m ∈ genLegal b) (h' : m' ∈ genLegal b)
    (hkey : C06.HashKey (make b m) = C06.HashKey (make b m')) : (make b m).halfmove = (make b m').halfmove :=
  key_same1 hwf h h' hkey

/-- **`go depth d` for `d ≤ 2`**: no chess fact and no property of the run is assumed – only the absence of hash collisions
(`NoCollision`), `HashNonzero`, and the guards on the position -/
theorem go_eq_spec_le2 (b : Board) (d : Nat) (hd1 : 1 ≤ d) (hd2 : d ≤ 2)
    (hinv : Inv (fuelFor d) b) (hlegal : genLegal b ≠ []) (hnowrap : ply2 b + d < 65536)
    (hnc : NoCollision b d) (hnz : HashNonzero b d) (hmat : material b ≤ 64) :
    let s := goCmd (setPosition initial b []) { depth := some d }
    ∃ pv nodes t, Out.info (some d) t nodes (some (scoreFromValue (specValue d b) b)) (some pv) ∈ s.out ∧
      ∃ m, Out.bestMove (some m) (pv[1]?) ∈ s.out ∧ m.uci ∈ specBestMoves d b :=
  go_eq_spec b d hd1 (by omega) hinv hlegal hnowrap
    (hashInj_le2 (Inv_mono (by unfold fuelFor; omega) hinv) hd2 hnc) hnz hmat

#print axioms hashInj_of_noCollision_le2
#print axioms hashInj_of_noCollision_3
#print axioms root_not_after_two_plies
#print axioms root_moves_distinct_clock
#print axioms go_eq_spec_le2

/-! ## non-vacuity

`kr` = `k7/8/1K6/8/8/8/8/7R w - - 0 1` (`C08.Example.kr`).  The hash hypotheses and the clock guards are evaluated IN THE KERNEL
for depth 1 (`hypB` is the executable conjunction, `hyp_of_check` its soundness); the search itself (`Std.HashMap`, strings)
is evaluated by the compiler (`#guard`), for depths 1, 2, 3 and several positions: all hypotheses hold and `goCmd` reports
`specScore` and a move of `specBestMoves`. -/

namespace Example
open Inkayaku.C08.Example

theorem kr_hyp1 : Hyp kr 1 := hyp_of_check (by decide +kernel)

example : HashInj kr 1 ∧ HashNonzero kr 1 ∧ QBound kr 1 := ⟨kr_hyp1.inj, kr_hyp1.nz, kr_hyp1.qb⟩

example : NoCollision kr 1 := noCollision_of_hashInj kr_hyp1.inj

example : material kr = 1 := by decide +kernel

example : Inv (fuelFor 1) kr := ⟨by decide +kernel, by decide, by decide⟩

example : genLegal kr ≠ [] := by decide +kernel

/-- the preconditions of `negamax_eq_spec` on the state `go` prepares for iteration 1 -/
example : SOK kr (1 - 1) (goPrep (setPosition initial kr []) { depth := some 1 }) := by
  obtain ⟨f1, f2, f3, _, _⟩ := goPrep_fields (setPosition initial kr []) { depth := some 1 }
  refine ⟨by rw [f1]; exact ttok_empty _ _, ?_, f3, SearchSim.goPrep_searchMoves _ _⟩
  intro j hj
  rw [f2]
  exact setPosition_histZero initial kr j hj

def boardOf (fen : String) : Board :=
  match FenBoard.fromFenString fen with
  | .ok b => b
  | .error _ => FenBoard.startBoard

def lastInfo (outs : List Out) : Option (Nat × Score) :=
  outs.findSome? fun | .info (some d) _ _ (some sc) _ => some (d, sc) | _ => none

def announced (outs : List Out) : Option Move :=
  outs.findSome? fun | .bestMove b _ => b | _ => none

/-- all decidable hypotheses of `go_eq_spec` -/
def hypotheses (b : Board) (d : Nat) : Bool :=
  hypB b d && decide (b.halfmove + fuelFor d ≤ 4095) && !(genLegal b).isEmpty && decide (material b ≤ 64)

/-- the conclusion of `go_eq_spec` -/
def conclusion (b : Board) (d : Nat) : Bool :=
  let s := goCmd (setPosition initial b []) { depth := some d }
  lastInfo s.out == some (d, scoreFromValue (specValue d b) b) &&
    (match announced s.out with | some m => (specBestMoves d b).contains m.uci | none => false)

#guard hypotheses kr 1 && conclusion kr 1
#guard hypotheses kr 2 && conclusion kr 2
#guard hypotheses kr 3 && conclusion kr 3
#guard specScore 3 (boardOf "k7/8/2K5/8/8/8/8/7R w - - 0 1") == "mate2"
#guard hypotheses (boardOf "k7/8/2K5/8/8/8/8/7R w - - 0 1") 2 && conclusion (boardOf "k7/8/2K5/8/8/8/8/7R w - - 0 1") 2
#guard conclusion (boardOf "k7/8/2K5/8/8/8/8/7R w - - 0 1") 3
-- captures, promotion, en passant, castling rights in the tree
#guard hypotheses (boardOf "r3k3/1P6/8/3pP3/8/8/8/4K2R w Kq d6 0 2") 2 && conclusion (boardOf "r3k3/1P6/8/3pP3/8/8/8/4K2R w Kq d6 0 2") 2
#guard hypotheses (boardOf "4k3/8/8/8/8/8/4P3/4K3 w - - 0 1") 3 && conclusion (boardOf "4k3/8/8/8/8/8/4P3/4K3 w - - 0 1") 3
-- black to move, a large half-move clock (the window of the repetition test reaches far below the root)
#guard hypotheses (boardOf "7K/8/5k2/8/8/8/8/r7 b - - 60 40") 2 && conclusion (boardOf "7K/8/5k2/8/8/8/8/r7 b - - 60 40") 2
#guard conclusion (boardOf "7K/8/5k2/8/8/8/8/r7 b - - 60 40") 3
-- flag polls in the middle of the search (poll period 7) that find an empty channel do not change the result
#guard (let s := goCmd { setPosition initial kr [] with pollPeriod := 7 } { depth := some 3 }
        lastInfo s.out == some (3, scoreFromValue (specValue 3 kr) kr) && s.out.length > 10)
-- the conclusion alone on full boards (the quadratic evaluation of `HashInj` is too slow there)
#guard conclusion FenBoard.startBoard 1 && conclusion FenBoard.startBoard 2

end Example

/-
The two chess facts that `HashInj b 3` needs beyond `NoCollision b 3` (`hashInj_of_noCollision_3`) were the TARGET of this file;
they are now PROVED in `Props/C08Transp.lean` (helper files `Proofs/SearchSimTransp{Codes,13,22}.lean`):

  theorem C08Transp.transp13 (b : Board) (hinv : Inv 3 b) : Transp13 b
     -- ∀ p' p, Reach b 1 p' → Reach b 3 p → C06.HashKey p' ≠ C06.HashKey p
  theorem C08Transp.transp22 (b : Board) (hinv : Inv 3 b) : Transp22 b
     -- ∀ p' p, Reach b 2 p' → Reach b 2 p → C06.HashKey p' = C06.HashKey p → p'.halfmove = p.halfmove
  theorem C08Transp.go_eq_spec_le3   -- `go depth d`, 1 ≤ d ≤ 3, from `NoCollision` + `HashNonzero` alone

  `HashKey` = the twelve piece words, side to move, castling rights, e.p. file: everything the hash reads.
  For `d ≥ 4` the analogue of `transp13` between plies 2 and 4 is false – a transposition of moves reaches the same position two
  plies later – and the engine's probe `stored ≥ remaining` then uses a deeper-draft entry; that is why C08 stops at depth 3.
  `go_eq_spec` has no hypothesis on the run: flag polls may happen (every 100 000 nodes) but find an empty channel and no move
  time, so they only emit info lines (`Calm`, `calm_stepRel`).
-/

end Inkayaku.C08Sim
