import Inkayaku.Proofs.SearchRoot
import Inkayaku.Proofs.SearchCongr
import Inkayaku.Proofs.WfStepProof
import Inkayaku.Model.FenBoard
/-!
# C09 — an interrupted search leaves the position alone and still answers once

"Interrupting a search at any point — by stop, by quit, or because the move time ran out in the middle of an
iteration — does not alter the position the engine holds: a following go without a new position command searches
the same position as before (…).  An interrupted search still answers with exactly one bestmove taken from the last
completed iteration."

Model: `Inkayaku.Search` (Model/Search.lean).  The interruption mechanisms are (a) a `stop`/`quit` message found in
the channel at a flag poll, (b) the move time exceeded at a flag poll; a poll happens on entering a negamax node whose
node counter is a positive multiple of `pollPeriod`.  All theorems below hold for EVERY state `s` — in particular
every `pollPeriod`, every list `pending` of waiting messages, every clock `nsPerNode`, every stop/quit flag, every
transposition table — and every `go` parameter set (depth, movetime, clock times), so every interruption point at
every ply and in every iteration, and every timing of stop or move-time expiry, is covered.

Hypotheses.
* H1 (`unmake ∘ make` restores the visible position of a well-formed board for every generated move) is PROVED
  (`Search.unmake_make_of_generated`, from C03).
* H2' (WF step with clock budget) is PROVED (`Search.boardLaws`, `Proofs/MakeWf.lean`, `Proofs/GenStrong.lean`): a
  generated move that passes `isValid` takes a board with `Inv (k+1)` to a board with `Inv k`, where
  `Inv k b := wf b ∧ b.halfmove + k ≤ 4095 ∧ b.fullmove + k < 2^31`.
  (The unbudgeted form `wf b → wf (make b m)` is FALSE: `wf` bounds the half-move clock by the 12-bit undo field of the
  packed move and the full-move counter by 2^31; a quiet move from `halfmove = 4095` leaves the well-formed boards.)
* H3 (every board function the search uses depends on the visible position `WF.vis` only) is PROVED:
  `BoardCongr.genPseudo_congr`, `genNonQuiescent_congr`, `isValid_congr`, `wf_congr`, `make_congr`, `unmake_congr`,
  `evaluate_congr`, `hash_congr`, `pawnHash_congr`, `plyClock_congr`, and lifted to the whole search:
  `Search.goCmd_congr` (states that differ in the scratch words only produce the same output).

Side conditions (real limits of the engine).  A node searched with recursion fuel `fuel` needs `Inv fuel s.board`: the
search may go `fuel` plies deep and every ply advances the clocks.  A `go` whose deepest iteration has depth ≤ `maxIter`
searches with fuel ≤ `maxIter + 200`, so it needs `Inv (goBudget maxIter) s.board`, `goBudget maxIter = maxIter + 201`,
i.e. `wf s.board`, `s.board.halfmove + maxIter + 201 ≤ 4095` and `s.board.fullmove + maxIter + 201 < 2^31`.

The position is compared through `WF.vis` (the board without the two scratch occupancy words `occupancy[NO_PIECE]`
that `make`/`unmake` scribble on, which no function ever reads back into the position).
-/
namespace Inkayaku.C09
open Inkayaku.Search Inkayaku.Board Inkayaku.WF

/-! ## the bracket: every search function returns the board it was given -/

/-- `search_quiescence`, every exit path -/
theorem quiescence_board (fuel : Nat) (s : St) (α β : Int) (hwf : Inv fuel s.board) :
    vis (quiescence fuel s α β).2.board = vis s.board :=
  quiescence_ok boardLaws fuel s α β hwf

/-- the move loop of `search_quiescence`, entered with any list of generated moves -/
theorem quiescenceLoop_board (fuel : Nat) (s : St) (moves : List Move) (α β : Int) (bm : Option Move)
    (bc : Option VM) (hwf : Inv (fuel + 1) s.board) (hmoves : ∀ m ∈ moves, m ∈ genPseudo s.board ∨ m ∈ genNonQuiescent s.board) :
    vis (quiescenceLoop fuel s moves α β bm bc).2.board = vis s.board :=
  qLoop_of_q boardLaws (quiescence_ok boardLaws fuel) s.board hwf moves hmoves s α β bm bc rfl

/-- `search_negamax`, every exit path: illegal move, cut-off, abort by flag at any node, time-out return,
transposition-table return, repetition return, out of fuel -/
theorem negamax_board (fuel : Nat) (s : St) (ply maxPly : Nat) (α β : Int) (isPv : Bool) (h ph : UInt64)
    (hwf : Inv fuel s.board) :
    vis (negamax fuel s ply maxPly α β isPv h ph).2.board = vis s.board :=
  negamax_ok boardLaws fuel s ply maxPly α β isPv h ph hwf

/-- the move loop of `search_negamax`, entered with any list of generated moves and any accumulator -/
theorem negamaxLoop_board (fuel : Nat) (s : St) (moves : List Move) (ply maxPly : Nat) (β : Int)
    (isPv : Bool) (pvMove : Option Move) (h ph : UInt64) (rem : Nat) (acc : LoopAcc) (hwf : Inv (fuel + 1) s.board)
    (hmoves : ∀ m ∈ moves, m ∈ genPseudo s.board ∨ m ∈ genNonQuiescent s.board) :
    vis (negamaxLoop fuel s moves ply maxPly β isPv pvMove h ph rem acc).2.2.board = vis s.board :=
  nLoop_of_n boardLaws (negamax_ok boardLaws fuel) s.board hwf moves hmoves s ply maxPly β isPv pvMove h ph rem acc rfl

/-- the iterative deepening loop of `best_move`, any number of iterations from any depth -/
theorem deepen_board (n : Nat) (s : St) (d maxThinking : Nat) (best : Option VM)
    (uciPv : Option (List Move)) (score : Option Eval.Score) (hwf : Inv (fuelFor d + n) s.board) :
    vis (deepen n s d maxThinking best uciPv score).2.board = vis s.board :=
  Search.deepen_board boardLaws n s d maxThinking best uciPv score hwf

/-- **a `go` — completed or interrupted at any point — does not alter the position the engine holds** -/
theorem go_preserves_board (s : St) (g : GoParams) (maxIter : Nat)
    (hwf : wf s.board = true) (hhalf : s.board.halfmove + (maxIter + 201) ≤ 4095)
    (hfull : s.board.fullmove + (maxIter + 201) < 2147483648) :
    vis (goCmd s g maxIter).board = vis s.board :=
  Search.go_preserves_board boardLaws s g maxIter ⟨hwf, hhalf, hfull⟩

/-- the same with the side conditions packed into `Inv (goBudget maxIter)` -/
theorem go_preserves_board' (s : St) (g : GoParams) (maxIter : Nat) (hinv : Inv (goBudget maxIter) s.board) :
    vis (goCmd s g maxIter).board = vis s.board :=
  Search.go_preserves_board boardLaws s g maxIter hinv

/-- … and the position stays well-formed, so the next `go` starts under the same hypotheses -/
theorem go_preserves_inv (s : St) (g : GoParams) (maxIter : Nat) (k : Nat)
    (hinv : Inv (goBudget maxIter) s.board) (hk : Inv k s.board) :
    Inv k (goCmd s g maxIter).board :=
  Inv_congr (Search.go_preserves_board boardLaws s g maxIter hinv).symm hk

/-- **any number of consecutive (possibly interrupted) searches without a position command**: between two searches
anything may happen to the search thread that does not touch the board (`GoStep.env`: messages arrive, `ucinewgame`,
poll period / clock / pending messages change) -/
theorem session_preserves_board (xs : List GoStep) (s : St)
    (hinv : ∀ x ∈ xs, Inv (goBudget x.maxIter) s.board) :
    vis (runGos s xs).board = vis s.board :=
  Search.session_preserves_board boardLaws xs s hinv


/-- **the following `go` searches the same position as before**: after a first search (completed or interrupted in any
way) a second `go` without a position command produces exactly the output it would produce if the board were reset to
the board held before the first search, and it again leaves that position in place.  (`Search.goCmd_congr`: the search
depends on the visible position only, so the scratch words left behind by the first search are irrelevant.) -/
theorem next_go_searches_same_position (s : St) (g1 g2 : GoParams) (n1 n2 : Nat)
    (hinv1 : Inv (goBudget n1) s.board) (hinv2 : Inv (goBudget n2) s.board) :
    (goCmd (goCmd s g1 n1) g2 n2).out = (goCmd { goCmd s g1 n1 with board := s.board } g2 n2).out ∧
    vis (goCmd (goCmd s g1 n1) g2 n2).board = vis s.board := by
  have h1 := Search.go_preserves_board boardLaws s g1 n1 hinv1
  have he : Eqv { goCmd s g1 n1 with board := s.board } (goCmd s g1 n1) := ⟨(goCmd s g1 n1).board, h1, rfl⟩
  refine ⟨(goCmd_congr he g2 n2).1, ?_⟩
  rw [Search.go_preserves_board boardLaws _ g2 n2 (Inv_congr h1.symm hinv2), h1]

/-! ## the answer of an interrupted search -/

/-- **exactly one `bestmove`**: whatever interrupts the search, the output of a `go` is a block of infos followed by
one `bestmove` (`bestMoves` lists the `bestmove` items of an output, newest first) -/
theorem go_one_bestmove (s : St) (g : GoParams) (maxIter : Nat) :
    ∃ best ponder infos, (goCmd s g maxIter).out = .bestMove best ponder :: (infos ++ s.out) ∧ bestMoves infos = [] := by
  obtain ⟨news, h, hc, -⟩ := goCmd_out s g maxIter
  exact ⟨_, _, news, h, hc.bestMoves_nil⟩

theorem go_one_bestmove' (s : St) (g : GoParams) (maxIter : Nat) (h0 : s.out = []) :
    (bestMoves (goCmd s g maxIter).out).length = 1 := by
  rw [goCmd_bestMoves, h0]; rfl

/-- **… taken from the last completed iteration**: `goIterations` lists the root results of the iterations that were
run, `completed` keeps those that were not aborted (`stop` flag clear and a move found); the announced best move is
the move of the last of them, and it is the null move (`none`) iff there is none. -/
theorem bestmove_from_last_completed_iteration (s : St) (g : GoParams) (maxIter : Nat) (h0 : s.out = []) :
    bestMoves (goCmd s g maxIter).out =
      [(match (completed (goIterations s g maxIter)).getLast? with
        | some r => r.1.mv
        | none => none,
        ponderOf (goDeepen s g maxIter).1 (goDeepen s g maxIter).2)] := by
  rw [goCmd_bestMoves, h0, goDeepen_best]
  cases (completed (goIterations s g maxIter)).getLast? <;> rfl

theorem bestmove_none_iff_no_completed_iteration (s : St) (g : GoParams) (maxIter : Nat) :
    bestMoveOf (goDeepen s g maxIter).1 = none ↔ completed (goIterations s g maxIter) = [] := by
  rw [goDeepen_best]
  constructor
  · intro h
    cases hl : (completed (goIterations s g maxIter)).getLast? with
    | none => exact List.getLast?_eq_none_iff.mp hl
    | some r =>
      rw [hl] at h
      have hr := (List.mem_filter.mp (List.mem_of_getLast? hl)).2
      have : r.1.mv.isNone = false := by
        unfold iterAborted at hr
        simp only [Bool.not_eq_true', Bool.or_eq_false_iff] at hr
        exact hr.2
      simp only [Option.map_some, bestMoveOf] at h
      rw [h] at this
      cases this
  · intro h
    rw [h]; rfl

#print axioms quiescence_board
#print axioms quiescenceLoop_board
#print axioms negamax_board
#print axioms negamaxLoop_board
#print axioms deepen_board
#print axioms go_preserves_board
#print axioms go_preserves_board'
#print axioms go_preserves_inv
#print axioms Search.unmake_make_of_generated
#print axioms Search.boardLaws
#print axioms session_preserves_board
#print axioms next_go_searches_same_position
#print axioms Search.goCmd_congr
#print axioms go_one_bestmove
#print axioms go_one_bestmove'
#print axioms bestmove_from_last_completed_iteration
#print axioms bestmove_none_iff_no_completed_iteration
#print axioms BoardCongr.genPseudo_congr
#print axioms BoardCongr.genNonQuiescent_congr
#print axioms BoardCongr.isValid_congr
#print axioms BoardCongr.wf_congr
#print axioms BoardCongr.make_congr
#print axioms BoardCongr.unmake_congr
#print axioms BoardCongr.evaluate_congr
#print axioms BoardCongr.hash_congr

/-! ## non-vacuity -/

/-- the side conditions hold for the initial state: budget for iterations up to depth 64 -/
example : Inv (goBudget 64) Search.initial.board := ⟨by decide +kernel, by decide, by decide⟩
example : wf Search.initial.board = true ∧ Search.initial.board.halfmove + (64 + 201) ≤ 4095 ∧
    Search.initial.board.fullmove + (64 + 201) < 2147483648 := ⟨by decide +kernel, by decide, by decide⟩
/-- … and for every go of the session `threeGos` below -/
example : ∀ k, k ≤ 3000 → Inv k Search.initial.board := fun k hk =>
  ⟨by decide +kernel, by show 0 + k ≤ 4095; omega, by show 1 + k < 2147483648; omega⟩

/-- H1 and the unbudgeted part of H2', evaluated on every generated move of the start position -/
def lawsHoldAt (b : Board) : Bool :=
  (genPseudo b ++ genNonQuiescent b).all fun m =>
    vis (unmake (make b m) m) == vis b && (!isValid (make b m) || wf (make b m))

#guard lawsHoldAt Search.initial.board
/-- the proved laws instantiated on a concrete move: 1. e4 from the start position keeps the budgeted invariant -/
example (m : Move) (hm : m ∈ genPseudo Search.initial.board) (hv : isValid (make Search.initial.board m) = true) :
    Inv 3000 (make Search.initial.board m) :=
  boardLaws.make_inv 3000 _ m ⟨by decide +kernel, by decide, by decide⟩ (Or.inl hm) hv

/-- an interrupted search: `stop` waiting in the channel, polled every 5 nodes, depth 4 -/
def interrupted : St := goCmd { Search.initial with pollPeriod := 5, pending := [.stop] } { depth := some 4 } 8

-- the search was interrupted (the flag is set), the board is the start position, there is exactly one bestmove
#guard interrupted.stop
#guard vis interrupted.board == vis Search.initial.board
#guard (bestMoves interrupted.out).length == 1
-- the scratch word is the reason for comparing through `vis`: after a search the raw boards differ
#guard (goCmd Search.initial { depth := some 2 } 4).board != Search.initial.board
-- move time running out in the middle of an iteration (1 ms per node, 3 ms move time, polled every 2 nodes)
def timedOutGo : St :=
  goCmd { Search.initial with pollPeriod := 2, nsPerNode := some 1000000 } { moveTime := some 3000000 } 8
#guard timedOutGo.stop
#guard vis timedOutGo.board == vis Search.initial.board
#guard (bestMoves timedOutGo.out).length == 1
-- a session of three consecutive interrupted searches
def threeGos : List GoStep :=
  [ { env := fun s => { s with pollPeriod := 3, pending := [.stop] }, env_board := fun _ => rfl, go := { depth := some 3 }, maxIter := 4 },
    { env := fun s => { s with pollPeriod := 7, pending := [.quit] }, env_board := fun _ => rfl, go := {}, maxIter := 4 },
    { env := fun s => { s with pollPeriod := 2, nsPerNode := some 1000000 }, env_board := fun _ => rfl,
      go := { moveTime := some 2000000 }, maxIter := 4 } ]
#guard vis (runGos Search.initial threeGos).board == vis Search.initial.board
#guard (bestMoves (runGos Search.initial threeGos).out).length == 3
-- after an interrupted search, a depth-2 search answers as from the untouched start position
#guard bestMoves (goCmd { interrupted with out := [], pending := [], pollPeriod := 100000 } { depth := some 2 } 4).out
  == bestMoves (goCmd { Search.initial with pv := interrupted.pv, killers := interrupted.killers } { depth := some 2 } 4).out

/-- the WF step evaluated on every legal move of positions that exercise castling (both sides, both wings), en passant,
promotions with and without capture, and captures of rooks on their home squares -/
def bd (s : String) : Board := match FenBoard.fromFenString s with | .ok b => b | .error _ => Search.initial.board
def stepHoldsAt (fen : String) : Bool :=
  let b := bd fen
  wf b && (genPseudo b ++ genNonQuiescent b).all fun m => !isValid (make b m) || wf (make b m)
#guard stepHoldsAt "r3k2r/p1ppqpb1/bn2pnp1/3PN3/1p2P3/2N2Q1p/PPPBBPPP/R3K2R w KQkq - 0 1"
#guard stepHoldsAt "r3k2r/p1ppqpb1/bn2pnp1/3PN3/1p2P3/2N2Q1p/PPPBBPPP/R3K2R b KQkq - 0 1"
#guard stepHoldsAt "rnbqkbnr/ppp1p1pp/8/3pPp2/8/8/PPPP1PPP/RNBQKBNR w KQkq f6 0 3"
#guard stepHoldsAt "r3k2r/Pppp1ppp/1b3nbN/nP6/BBP1P3/q4N2/Pp1P2PP/R2Q1RK1 w kq - 0 1"
#guard stepHoldsAt "r3k3/1P6/8/3pP3/8/8/8/4K2R w Kq d6 0 2"
-- the clock bounds are real: at half-move clock 4095 a quiet move leaves the well-formed boards
#guard (let b := { bd "4k3/8/8/8/8/8/8/4K2R w K - 0 1" with halfmove := 4095 }
        wf b && (genPseudo b).any fun m => isValid (make b m) && !wf (make b m))

end Inkayaku.C09
