import Inkayaku.Model.Table
import Inkayaku.Spec.FifoMap
/-!
# C18 — the keyed table behind the transposition table is a FIFO-evicting map

Model: `Inkayaku.Table` (Model/Table.lean, mirrors engine_core/src/engine/table.rs).
Spec:  `Inkayaku.FifoMap` (Spec/FifoMap.lean, one list of pairs in first-insertion order).

Everything is for an arbitrary key type with decidable equality, an arbitrary value type and an arbitrary capacity.
Capacity 0 is handled honestly: the Rust inserts and evicts at once, so the table stays empty; this is also what the
spec does, so `refines`, `len_le_cap`, `len_eq_card`, `get_put_other`, `get_after_clear`, `put_no_panic` hold for
every `cap`.  Only `get_put_same` and `evicts_oldest` need `1 ≤ cap`; their `cap = 0` counterparts are
`get_cap_zero` / `state_cap_zero`.

Core Lean only (no Mathlib).  Part 1 is helper lemmas (would live in Proofs/ if that file were in scope),
part 2 the property theorems.
-/
namespace Inkayaku.C18

open Inkayaku.Table
open Inkayaku.FifoMap (Op Out)

set_option linter.unusedSectionVars false

variable {K V : Type} [DecidableEq K]

/-! ## Part 1: helper lemmas -/

/-- the keys of the modelled `HashMap` -/
def keys (m : List (K × V)) : List K := m.map Prod.fst

theorem mapGet_eq_lookup (m : List (K × V)) (k : K) : mapGet m k = m.lookup k := by
  induction m with
  | nil => rfl
  | cons e m ih =>
    obtain ⟨k', v⟩ := e
    by_cases h : k' = k
    · subst h; simp [mapGet]
    · have h' : (k == k') = false := by simp; exact fun e => h e.symm
      simp [mapGet, List.lookup_cons, h, h', ih]

theorem mapGet_isSome_iff (m : List (K × V)) (k : K) : (mapGet m k).isSome ↔ k ∈ keys m := by
  induction m with
  | nil => simp [mapGet, keys]
  | cons e m ih =>
    obtain ⟨k', v⟩ := e
    by_cases h : k' = k
    · simp [mapGet, keys, h]
    · have : ¬ k = k' := fun e => h e.symm
      simp [mapGet, keys, h, this] at ih ⊢; exact ih

theorem mapGet_eq_none_iff (m : List (K × V)) (k : K) : mapGet m k = none ↔ k ∉ keys m := by
  rw [← mapGet_isSome_iff]; cases mapGet m k <;> simp

theorem mapGet_update (m : List (K × V)) (k k' : K) (v : V) :
    mapGet (m.map (fun e => if e.1 = k then (e.1, v) else e)) k'
      = if k' = k then (mapGet m k).map (fun _ => v) else mapGet m k' := by
  induction m with
  | nil => simp [mapGet]
  | cons e m ih =>
    obtain ⟨k'', x⟩ := e
    simp only [List.map_cons]
    by_cases h1 : k'' = k <;> by_cases h2 : k' = k <;> by_cases h3 : k'' = k' <;>
      simp_all [mapGet] <;> grind

theorem keys_update (m : List (K × V)) (k : K) (v : V) :
    keys (m.map (fun e => if e.1 = k then (e.1, v) else e)) = keys m := by
  induction m with
  | nil => rfl
  | cons e m ih =>
    simp only [keys, List.map_cons] at ih ⊢
    rw [ih]; split <;> rfl

theorem mapGet_append (m m' : List (K × V)) (k : K) :
    mapGet (m ++ m') k = (mapGet m k).or (mapGet m' k) := by
  induction m with
  | nil => simp [mapGet]
  | cons e m ih =>
    obtain ⟨k', x⟩ := e
    by_cases h : k' = k <;> simp [mapGet, h, ih]

theorem mapGet_remove (m : List (K × V)) (r k : K) :
    mapGet (mapRemove m r) k = if k = r then none else mapGet m k := by
  induction m with
  | nil => simp [mapGet, mapRemove]
  | cons e m ih =>
    obtain ⟨k', x⟩ := e
    simp only [mapRemove] at ih
    by_cases h1 : k' = r <;> by_cases h2 : k = r <;> by_cases h3 : k' = k <;>
      simp_all [mapGet, mapRemove] <;> grind

theorem keys_remove (m : List (K × V)) (r : K) :
    keys (mapRemove m r) = (keys m).filter (fun k => decide (k ≠ r)) := by
  unfold keys mapRemove; rw [List.filter_map]; rfl

theorem filterMap_congr' {α β : Type} (f g : α → Option β) (l : List α) (h : ∀ a ∈ l, f a = g a) :
    l.filterMap f = l.filterMap g := by
  induction l with
  | nil => rfl
  | cons a l ih =>
    have ha := h a (by simp)
    have hl := ih (fun b hb => h b (by simp [hb]))
    simp [List.filterMap_cons, ha, hl]

theorem length_eq_of_nodup {α : Type} {l₁ l₂ : List α} (h1 : l₁.Nodup) (h2 : l₂.Nodup)
    (h : ∀ a, a ∈ l₁ ↔ a ∈ l₂) : l₁.length = l₂.length :=
  ((List.perm_ext_iff_of_nodup h1 h2).2 h).length_eq

/-! ### the invariant -/

/-- Representation invariant of `HashTable`.  `keys_nodup` is the well-formedness of the modelled `HashMap`
(a hash map holds every key at most once); the other fields relate `entry_list` and `entry_map`. -/
structure Inv (s : State K V) : Prop where
  /-- `entry_list` has no duplicates -/
  queue_nodup : s.queue.Nodup
  /-- the association list is a map -/
  keys_nodup : (keys s.map).Nodup
  /-- `entry_list` and `entry_map` hold the same keys -/
  mem_iff : ∀ k, k ∈ s.queue ↔ k ∈ keys s.map
  /-- `entry_map.len() = entry_list.len()` -/
  length_eq : mapLen s.map = s.queue.length
  /-- no `unwrap` of `None` so far -/
  not_panicked : s.panicked = false

/-- `length_eq` follows from the other fields -/
theorem Inv.mk' {s : State K V} (h1 : s.queue.Nodup) (h2 : (keys s.map).Nodup)
    (h3 : ∀ k, k ∈ s.queue ↔ k ∈ keys s.map) (h4 : s.panicked = false) : Inv s :=
  ⟨h1, h2, h3, by
    have := length_eq_of_nodup h1 h2 h3
    simp [keys] at this; simp [mapLen, this], h4⟩

/-- reachable states additionally respect the capacity -/
structure WF (s : State K V) : Prop extends Inv s where
  bounded : mapLen s.map ≤ s.cap

theorem inv_new (cap : Nat) : Inv (new cap : State K V) :=
  ⟨List.nodup_nil, List.nodup_nil, by simp [new, keys], rfl, rfl⟩

theorem wf_new (cap : Nat) : WF (new cap : State K V) :=
  ⟨inv_new cap, by simp [new, mapLen]⟩

theorem inv_clear {s : State K V} (h : Inv s) : Inv (clear s) :=
  ⟨List.nodup_nil, List.nodup_nil, by simp [clear, keys], rfl, h.not_panicked⟩

theorem wf_clear {s : State K V} (h : WF s) : WF (clear s) :=
  ⟨inv_clear h.toInv, by simp [clear, mapLen]⟩

theorem insertPhase_present {s : State K V} {k : K} {old : V} (v : V) (h : mapGet s.map k = some old) :
    insertPhase s k v =
      { s with map := s.map.map (fun e => if e.1 = k then (e.1, v) else e) } := by
  simp [insertPhase, mapInsert, h]

theorem insertPhase_absent {s : State K V} {k : K} (v : V) (h : mapGet s.map k = none) :
    insertPhase s k v = { s with map := s.map ++ [(k, v)], queue := s.queue ++ [k] } := by
  simp [insertPhase, mapInsert, h]

theorem inv_insertPhase {s : State K V} (h : Inv s) (k : K) (v : V) : Inv (insertPhase s k v) := by
  cases hg : mapGet s.map k with
  | some old =>
    rw [insertPhase_present v hg]
    exact Inv.mk' h.queue_nodup (by simpa [keys_update] using h.keys_nodup)
      (by simpa [keys_update] using h.mem_iff) h.not_panicked
  | none =>
    rw [insertPhase_absent v hg]
    have hk : k ∉ keys s.map := (mapGet_eq_none_iff _ _).1 hg
    have hq : k ∉ s.queue := fun hm => hk ((h.mem_iff k).1 hm)
    refine Inv.mk' ?_ ?_ ?_ h.not_panicked
    · simp only [List.nodup_append]
      exact ⟨h.queue_nodup, by simp, by intro a ha b hb; simp at hb; subst hb; exact fun e => hq (e ▸ ha)⟩
    · simp only [keys, List.map_append, List.nodup_append]
      exact ⟨h.keys_nodup, by simp, by
        intro a ha b hb; simp at hb; subst hb; exact fun e => hk (e ▸ ha)⟩
    · intro a
      have := h.mem_iff a
      simp [keys] at this ⊢; rw [this]

theorem cap_insertPhase (s : State K V) (k : K) (v : V) : (insertPhase s k v).cap = s.cap := rfl

theorem len_insertPhase_le (s : State K V) (k : K) (v : V) :
    mapLen (insertPhase s k v).map ≤ mapLen s.map + 1 := by
  cases hg : mapGet s.map k with
  | some old => rw [insertPhase_present v hg]; simp [mapLen]
  | none => rw [insertPhase_absent v hg]; simp [mapLen]

/-- under the invariant the queue is non-empty whenever the map is over capacity: `unwrap` cannot fail -/
theorem queue_ne_nil_of_over {s : State K V} (h : Inv s) (ho : mapLen s.map > s.cap) : s.queue ≠ [] := by
  intro hq
  have := h.length_eq
  rw [hq] at this; simp at this; omega

theorem evictPhase_over {s : State K V} {r : K} {q : List K} (ho : mapLen s.map > s.cap) (hq : s.queue = r :: q) :
    evictPhase s = { s with queue := q, map := mapRemove s.map r } := by
  simp [evictPhase, ho, hq]

theorem evictPhase_under {s : State K V} (hu : ¬ mapLen s.map > s.cap) : evictPhase s = s := by
  simp [evictPhase, hu]

theorem cap_evictPhase (s : State K V) : (evictPhase s).cap = s.cap := by
  unfold evictPhase; split
  · split <;> rfl
  · rfl

theorem inv_evictPhase {s : State K V} (h : Inv s) : Inv (evictPhase s) := by
  by_cases ho : mapLen s.map > s.cap
  · cases hq : s.queue with
    | nil => exact absurd hq (queue_ne_nil_of_over h ho)
    | cons r q =>
      rw [evictPhase_over ho hq]
      have hnd := h.queue_nodup
      rw [hq, List.nodup_cons] at hnd
      refine Inv.mk' hnd.2 ?_ ?_ h.not_panicked
      · simp only [keys_remove]
        exact List.Nodup.sublist List.filter_sublist h.keys_nodup
      · intro a
        have := h.mem_iff a
        rw [hq] at this
        simp only [keys_remove, List.mem_filter, decide_eq_true_eq]
        constructor
        · intro ha
          exact ⟨this.1 (by simp [ha]), fun e => hnd.1 (e ▸ ha)⟩
        · intro ⟨ha, hne⟩
          have := this.2 ha
          simp [hne] at this; exact this
  · rw [evictPhase_under ho]; exact h

theorem wf_evictPhase {s : State K V} (h : Inv s) (hb : mapLen s.map ≤ s.cap + 1) : WF (evictPhase s) := by
  refine ⟨inv_evictPhase h, ?_⟩
  by_cases ho : mapLen s.map > s.cap
  · have hi := inv_evictPhase h
    cases hq : s.queue with
    | nil => exact absurd hq (queue_ne_nil_of_over h ho)
    | cons r q =>
      have h1 := hi.length_eq
      have h2 := h.length_eq
      rw [evictPhase_over ho hq] at h1 ⊢
      rw [hq] at h2
      simp at h1 h2 ⊢; omega
  · rw [evictPhase_under ho]; omega

theorem inv_put {s : State K V} (h : Inv s) (k : K) (v : V) : Inv (put s k v) :=
  inv_evictPhase (inv_insertPhase h k v)

theorem wf_put {s : State K V} (h : WF s) (k : K) (v : V) : WF (put s k v) :=
  wf_evictPhase (inv_insertPhase h.toInv k v) (by
    have := len_insertPhase_le s k v
    have := h.bounded
    rw [cap_insertPhase]; omega)

theorem cap_put (s : State K V) (k : K) (v : V) : (put s k v).cap = s.cap := by
  simp [put, cap_evictPhase, cap_insertPhase]

/-! ### the abstraction function -/

/-- The abstract FIFO map of a table state: walk the queue from oldest to youngest and pair every key with the value
the hash map holds for it.  (Independent of the order inside the modelled `HashMap`.) -/
def abs (s : State K V) : List (K × V) :=
  s.queue.filterMap (fun k => (mapGet s.map k).map (fun v => (k, v)))

theorem lookup_filterMap_pair (g : K → Option V) (q : List K) (k : K) :
    (q.filterMap (fun k' => (g k').map (fun v => (k', v)))).lookup k = if k ∈ q then g k else none := by
  induction q with
  | nil => simp
  | cons a q ih =>
    simp only [List.filterMap_cons]
    cases hg : g a with
    | none =>
      simp only [Option.map_none, ih, List.mem_cons]
      by_cases hka : k = a
      · subst hka; simp [hg]
      · simp [hka]
    | some x =>
      simp only [Option.map_some, List.lookup_cons, ih, List.mem_cons]
      by_cases hka : k = a
      · subst hka; simp [hg]
      · have : (k == a) = false := by simp [hka]
        simp [hka, this]

theorem lookup_abs {s : State K V} (h : Inv s) (k : K) : (abs s).lookup k = mapGet s.map k := by
  unfold abs
  rw [lookup_filterMap_pair]
  split
  · rfl
  · next hn =>
    exact ((mapGet_eq_none_iff _ _).2 (fun hm => hn ((h.mem_iff k).2 hm))).symm

theorem get_abs {s : State K V} (h : Inv s) (k : K) : FifoMap.get (abs s) k = get s k :=
  lookup_abs h k

theorem map_fst_filterMap_pair (g : K → Option V) (q : List K) (hq : ∀ k ∈ q, (g k).isSome) :
    (q.filterMap (fun k' => (g k').map (fun v => (k', v)))).map Prod.fst = q := by
  induction q with
  | nil => rfl
  | cons a q ih =>
    have ha := hq a (by simp)
    have := ih (fun k hk => hq k (by simp [hk]))
    cases hg : g a with
    | none => simp [hg] at ha
    | some x => simp [hg, this]

/-- the keys of the abstract map, oldest first, are exactly the queue -/
theorem keys_abs {s : State K V} (h : Inv s) : (abs s).map Prod.fst = s.queue :=
  map_fst_filterMap_pair _ _ (fun k hk => (mapGet_isSome_iff _ _).2 ((h.mem_iff k).1 hk))

theorem length_abs {s : State K V} (h : Inv s) : (abs s).length = mapLen s.map := by
  have := congrArg List.length (keys_abs h)
  simp at this; rw [this, h.length_eq]

theorem abs_insertPhase {s : State K V} (h : Inv s) (k : K) (v : V) :
    abs (insertPhase s k v) =
      if ((abs s).lookup k).isSome then (abs s).map (fun e => if e.1 = k then (k, v) else e)
      else abs s ++ [(k, v)] := by
  rw [lookup_abs h]
  cases hg : mapGet s.map k with
  | some old =>
    rw [insertPhase_present v hg]
    simp only [Option.isSome_some, if_true, abs, List.map_filterMap]
    congr 1
    funext k'
    rw [mapGet_update, hg]
    by_cases hk : k' = k
    · subst hk; simp [hg]
    · cases mapGet s.map k' <;> simp [hk]
  | none =>
    rw [insertPhase_absent v hg]
    have hq : k ∉ s.queue := fun hm => (mapGet_eq_none_iff _ _).1 hg ((h.mem_iff k).1 hm)
    simp only [Option.isSome_none, abs, List.filterMap_append]
    congr 1
    · apply filterMap_congr'
      intro a ha
      have hak : ¬ k = a := fun e => hq (e ▸ ha)
      simp [mapGet_append, mapGet, hak]
    · simp [mapGet_append, hg, mapGet]

theorem abs_evictPhase {s : State K V} (h : Inv s) :
    abs (evictPhase s) = if mapLen s.map > s.cap then (abs s).drop 1 else abs s := by
  by_cases ho : mapLen s.map > s.cap
  · cases hq : s.queue with
    | nil => exact absurd hq (queue_ne_nil_of_over h ho)
    | cons r q =>
      rw [evictPhase_over ho hq, if_pos ho]
      have hnd := h.queue_nodup
      rw [hq, List.nodup_cons] at hnd
      have hr : (mapGet s.map r).isSome := (mapGet_isSome_iff _ _).2 ((h.mem_iff r).1 (by simp [hq]))
      cases hg : mapGet s.map r with
      | none => simp [hg] at hr
      | some x =>
        simp only [abs, hq, List.filterMap_cons, hg, Option.map_some, List.drop_succ_cons, List.drop_zero]
        apply filterMap_congr'
        intro a ha
        have : ¬ a = r := fun e => hnd.1 (e ▸ ha)
        simp [mapGet_remove, this]
  · rw [evictPhase_under ho, if_neg ho]

/-- one `put` of the model is one `put` of the spec -/
theorem abs_put {s : State K V} (h : WF s) (k : K) (v : V) :
    abs (put s k v) = FifoMap.put s.cap (abs s) k v := by
  have hi := inv_insertPhase h.toInv k v
  have hlen := length_abs hi
  have hle := len_insertPhase_le s k v
  have hb := h.bounded
  unfold put FifoMap.put
  rw [abs_evictPhase hi, ← abs_insertPhase h.toInv k v, cap_insertPhase]
  simp only [hlen]
  split
  · next ho =>
    have : mapLen (insertPhase s k v).map - s.cap = 1 := by omega
    rw [this]
  · next ho =>
    have : mapLen (insertPhase s k v).map - s.cap = 0 := by omega
    rw [this, List.drop_zero]

/-! ### single steps and runs -/

theorem run_nil (s : State K V) : run s ([] : List (Op K V)) = (s, []) := rfl

theorem run_cons (s : State K V) (op : Op K V) (ops : List (Op K V)) :
    run s (op :: ops) = ((run (step s op).1 ops).1, (step s op).2.toList ++ (run (step s op).1 ops).2) := rfl

theorem run_append (s : State K V) (a b : List (Op K V)) :
    run s (a ++ b) = ((run (run s a).1 b).1, (run s a).2 ++ (run (run s a).1 b).2) := by
  induction a generalizing s with
  | nil => simp [run_nil]
  | cons op a ih => simp [run_cons, ih]

theorem step_refines {s : State K V} (h : WF s) (op : Op K V) :
    WF (step s op).1 ∧ (step s op).1.cap = s.cap ∧
    abs (step s op).1 = (FifoMap.step s.cap (abs s) op).1 ∧
    (step s op).2 = (FifoMap.step s.cap (abs s) op).2 := by
  cases op with
  | put k v => exact ⟨wf_put h k v, cap_put s k v, abs_put h k v, rfl⟩
  | get k => exact ⟨h, rfl, rfl, by simp [step, FifoMap.step, get_abs h.toInv]⟩
  | clear => exact ⟨wf_clear h, rfl, rfl, rfl⟩
  | len => exact ⟨h, rfl, rfl, by simp [step, FifoMap.step, FifoMap.len, len, length_abs h.toInv]⟩

theorem run_refines {s : State K V} (h : WF s) (ops : List (Op K V)) :
    WF (run s ops).1 ∧ (run s ops).1.cap = s.cap ∧
    abs (run s ops).1 = (FifoMap.run s.cap (abs s) ops).1 ∧
    (run s ops).2 = (FifoMap.run s.cap (abs s) ops).2 := by
  induction ops generalizing s with
  | nil => exact ⟨h, rfl, rfl, rfl⟩
  | cons op ops ih =>
    obtain ⟨h1, h2, h3, h4⟩ := step_refines h op
    obtain ⟨i1, i2, i3, i4⟩ := ih h1
    rw [h2, h3] at i3 i4
    refine ⟨i1, i2.trans h2, ?_, ?_⟩
    · rw [run_cons]; exact i3
    · rw [run_cons]; simp only [FifoMap.run]; rw [h4, i4]

/-- the state reached from the empty table of capacity `cap` by the operations `ops` -/
def reach (cap : Nat) (ops : List (Op K V)) : State K V := (run (new cap) ops).1

theorem reach_snoc (cap : Nat) (ops : List (Op K V)) (op : Op K V) :
    reach cap (ops ++ [op]) = (step (reach cap ops) op).1 := by
  simp [reach, run_append, run_cons, run_nil]

theorem wf_reach (cap : Nat) (ops : List (Op K V)) : WF (reach cap ops : State K V) :=
  (run_refines (wf_new cap) ops).1

theorem cap_reach (cap : Nat) (ops : List (Op K V)) : (reach cap ops : State K V).cap = cap :=
  (run_refines (wf_new cap) ops).2.1

/-- complete description of a lookup after a `put` (any capacity, including 0) -/
theorem get_put_full {s : State K V} (h : WF s) (k : K) (v : V) (k' : K) :
    get (put s k v) k' =
      if get s k = none ∧ len s = s.cap ∧ (s.queue ++ [k]).head? = some k' then none
      else if k' = k then some v else get s k' := by
  have hb := h.bounded
  unfold put Table.get len
  cases hg : mapGet s.map k with
  | some old =>
    have hu : ¬ mapLen (insertPhase s k v).map > (insertPhase s k v).cap := by
      rw [insertPhase_present v hg]; simp [mapLen] at hb ⊢; omega
    rw [evictPhase_under hu, insertPhase_present v hg]
    simp [mapGet_update, hg]
  | none =>
    have hor : ∀ a, mapGet (s.map ++ [(k, v)]) a = if a = k then some v else mapGet s.map a := by
      intro a
      rw [mapGet_append]
      by_cases hak : a = k
      · subst hak; simp [hg, mapGet]
      · have : ¬ k = a := fun e => hak e.symm
        simp [mapGet, hak, this]
    by_cases hfull : mapLen s.map = s.cap
    · have ho : mapLen (insertPhase s k v).map > (insertPhase s k v).cap := by
        rw [insertPhase_absent v hg]; simp [mapLen] at hfull ⊢; omega
      cases hq : s.queue ++ [k] with
      | nil => simp at hq
      | cons r q =>
        have hq' : (insertPhase s k v).queue = r :: q := by rw [insertPhase_absent v hg]; exact hq
        rw [evictPhase_over ho hq', insertPhase_absent v hg]
        simp only [mapGet_remove, hor, hfull, List.head?_cons, Option.some.injEq, true_and]
        by_cases hr : k' = r
        · subst hr; simp
        · have : ¬ r = k' := fun e => hr e.symm
          simp [hr, this]
    · have hu : ¬ mapLen (insertPhase s k v).map > (insertPhase s k v).cap := by
        rw [insertPhase_absent v hg]; simp [mapLen] at hfull hb ⊢; omega
      rw [evictPhase_under hu, insertPhase_absent v hg]
      simp [hor, hfull]

/-! ## Part 2: the property theorems -/

/-! ### the invariant: holds initially, preserved by every operation from ANY state satisfying it -/

/-- `Inv` holds for `HashTable::new(cap)`, every `cap` -/
theorem inv_initial (cap : Nat) : Inv (new cap : State K V) := inv_new cap

/-- every operation preserves `Inv` (every `cap`, any state with `Inv`, reachable or not) -/
theorem inv_step {s : State K V} (h : Inv s) (op : Op K V) : Inv (step s op).1 := by
  cases op with
  | put k v => exact inv_put h k v
  | get k => exact h
  | clear => exact inv_clear h
  | len => exact h

/-- under `Inv`, `pop_front().unwrap()` in `put` never fails (every `cap`) -/
theorem put_no_panic {s : State K V} (h : Inv s) (k : K) (v : V) : (put s k v).panicked = false :=
  (inv_put h k v).not_panicked

/-- `Inv` after every operation sequence; in particular no panic ever -/
theorem inv_reach (cap : Nat) (ops : List (Op K V)) :
    Inv (reach cap ops : State K V) ∧ (reach cap ops : State K V).panicked = false :=
  ⟨(wf_reach cap ops).toInv, (wf_reach cap ops).toInv.not_panicked⟩

example : Inv (reach 2 [.put 1 10, .put 2 20, .put 3 30, .put 1 11] : State Nat Nat) := (inv_reach _ _).1
-- the hypothesis of `inv_step`/`put_no_panic` is satisfiable by a full table with an eviction pending on the next put
example : (reach 2 [.put 1 10, .put 2 20] : State Nat Nat).queue = [1, 2] := by decide

#print axioms inv_initial
#print axioms inv_step
#print axioms put_no_panic
#print axioms inv_reach

/-! ### main theorem: the model refines the FIFO-map spec -/

/-- MAIN THEOREM (every `cap`, every operation sequence): the answers of the model are the answers of the spec, and
the final model state abstracts to the final spec state.  Since `ops` is arbitrary this holds after every prefix
(`refines_prefix`). -/
theorem refines (cap : Nat) (ops : List (Op K V)) :
    (run (new cap : State K V) ops).2 = (FifoMap.run cap [] ops).2 ∧
    abs (run (new cap : State K V) ops).1 = (FifoMap.run cap [] ops).1 := by
  have h := run_refines (wf_new cap : WF (new cap : State K V)) ops
  exact ⟨h.2.2.2, h.2.2.1⟩

theorem refines_prefix (cap : Nat) (ops : List (Op K V)) (n : Nat) :
    abs (reach cap (ops.take n) : State K V) = (FifoMap.run cap [] (ops.take n)).1 :=
  (refines cap (ops.take n)).2

/-- the same from any state that satisfies the invariant and the capacity bound -/
theorem refines_from {s : State K V} (h : WF s) (ops : List (Op K V)) :
    (run s ops).2 = (FifoMap.run s.cap (abs s) ops).2 ∧
    abs (run s ops).1 = (FifoMap.run s.cap (abs s) ops).1 :=
  ⟨(run_refines h ops).2.2.2, (run_refines h ops).2.2.1⟩

/-- the queue is exactly the key list of the spec state: oldest first, in order of first insertion -/
theorem queue_eq_spec_keys (cap : Nat) (ops : List (Op K V)) :
    (reach cap ops : State K V).queue = (FifoMap.run cap [] ops).1.map Prod.fst := by
  rw [← (refines cap ops).2]; exact (keys_abs (wf_reach cap ops).toInv).symm

example : WF (reach 2 [.put 1 10, .put 2 20, .put 3 30] : State Nat Nat) := wf_reach _ _  -- hypothesis of `refines_from`

#print axioms refines
#print axioms refines_prefix
#print axioms refines_from
#print axioms queue_eq_spec_keys

/-- a concrete run, capacity 2: overwrite of a present key (1), eviction of the oldest (1), re-insertion of the
evicted key 1 (which evicts 2), clear -/
def demoOps : List (Op Nat Nat) :=
  [.put 1 10, .put 2 20, .put 1 11, .len, .put 3 30, .get 1, .get 2, .put 1 12, .get 1, .get 2, .get 3, .len,
   .clear, .get 3, .len, .put 2 21, .get 2]

example : (run (new 2) demoOps).2 =
    [.size 2, .value none, .value (some 20), .value (some 12), .value none, .value (some 30), .size 2,
     .value none, .size 0, .value (some 21)] := by decide
example : (FifoMap.run 2 [] demoOps).2 = (run (new 2) demoOps).2 := by decide
example : (reach 2 (demoOps.take 11) : State Nat Nat).queue = [3, 1] ∧
          abs (reach 2 (demoOps.take 11) : State Nat Nat) = [(3, 30), (1, 12)] := by decide
example : (run (new 0) demoOps).2 =
    [.size 0, .value none, .value none, .value none, .value none, .value none, .size 0,
     .value none, .size 0, .value none] := by decide

/-! ### corollaries on operation sequences -/

/-- the number of stored entries never exceeds the capacity (every `cap`, also 0) -/
theorem len_le_cap (cap : Nat) (ops : List (Op K V)) : len (reach cap ops : State K V) ≤ cap := by
  have := (wf_reach cap ops : WF (reach cap ops : State K V)).bounded
  rw [cap_reach] at this; exact this

/-- the reported length is the real number of entries (every `cap`): it is the queue length, the number of entries of
the spec state, and the number of keys for which a lookup succeeds (counted over any duplicate-free list `ks` that
covers the successful lookups) -/
theorem len_eq_card (cap : Nat) (ops : List (Op K V)) :
    len (reach cap ops : State K V) = (reach cap ops : State K V).queue.length ∧
    len (reach cap ops : State K V) = (FifoMap.run cap [] ops).1.length ∧
    ∀ ks : List K, ks.Nodup → (∀ k, (get (reach cap ops : State K V) k).isSome → k ∈ ks) →
      (ks.filter (fun k => (get (reach cap ops : State K V) k).isSome)).length = len (reach cap ops : State K V) := by
  have h := (wf_reach cap ops : WF (reach cap ops : State K V)).toInv
  refine ⟨h.length_eq, ?_, ?_⟩
  · rw [← (refines cap ops).2]; exact (length_abs h).symm
  · intro ks hnd hcov
    have hmem : ∀ a, a ∈ ks.filter (fun k => (get (reach cap ops : State K V) k).isSome) ↔
        a ∈ keys (reach cap ops : State K V).map := by
      intro a
      rw [List.mem_filter, ← mapGet_isSome_iff]
      exact ⟨fun x => x.2, fun x => ⟨hcov a x, x⟩⟩
    have := length_eq_of_nodup (List.Nodup.sublist List.filter_sublist hnd) h.keys_nodup hmem
    rw [this]; simp [keys, len, mapLen]

example : len (reach 2 demoOps : State Nat Nat) = 1 ∧
    ([0, 1, 2, 3, 4].filter (fun k => (get (reach 2 demoOps : State Nat Nat) k).isSome)).length = 1 := by decide

#print axioms len_le_cap
#print axioms len_eq_card

/-- needs `1 ≤ cap`: a lookup right after a store under the same key returns the stored value
(new key, present key, previously evicted key alike) -/
theorem get_put_same {cap : Nat} (hcap : 1 ≤ cap) (ops : List (Op K V)) (k : K) (v : V) :
    get (reach cap (ops ++ [.put k v]) : State K V) k = some v := by
  have h := (wf_reach cap ops : WF (reach cap ops : State K V))
  rw [reach_snoc]; show get (put (reach cap ops) k v) k = some v
  rw [get_put_full h, cap_reach]
  rw [if_neg, if_pos rfl]
  intro ⟨hg, hl, hh⟩
  have hlen := h.toInv.length_eq
  cases hq : (reach cap ops : State K V).queue with
  | nil => rw [hq] at hlen; simp [len] at hl hlen; omega
  | cons r q =>
    rw [hq] at hh; simp at hh; subst hh
    have : r ∈ keys (reach cap ops : State K V).map := (h.toInv.mem_iff r).1 (by simp [hq])
    rw [← mapGet_isSome_iff] at this
    simp [Table.get] at hg; simp [hg] at this

/-- `cap = 0` counterpart of `get_put_same`: nothing is ever found, the table stays empty -/
theorem state_cap_zero (ops : List (Op K V)) :
    (reach 0 ops : State K V).queue = [] ∧ (reach 0 ops : State K V).map = [] := by
  have h := (wf_reach 0 ops : WF (reach 0 ops : State K V))
  have hb := h.bounded
  have hl := h.toInv.length_eq
  rw [cap_reach] at hb
  have h0 : mapLen (reach 0 ops : State K V).map = 0 := by omega
  rw [h0] at hl
  exact ⟨List.eq_nil_of_length_eq_zero hl.symm, List.eq_nil_of_length_eq_zero h0⟩

theorem get_cap_zero (ops : List (Op K V)) (k : K) : get (reach 0 ops : State K V) k = none := by
  simp [Table.get, (state_cap_zero ops).2, mapGet]

example : get (reach 2 ([.put 1 10, .put 2 20, .put 3 30] ++ [.put 1 7]) : State Nat Nat) 1 = some 7 := by decide
example : get (reach 0 ([.put 1 10] ++ [.put 1 7]) : State Nat Nat) 1 = none := by decide

#print axioms get_put_same
#print axioms state_cap_zero
#print axioms get_cap_zero

/-- every `cap`: a store under `k` changes the lookup of another key `k'` only by evicting it, which happens exactly
when `k` is new, the table is full and `k'` is the oldest key (front of the queue) -/
theorem get_put_other (cap : Nat) (ops : List (Op K V)) (k : K) (v : V) (k' : K) (hne : k' ≠ k) :
    get (reach cap (ops ++ [.put k v]) : State K V) k' =
      if get (reach cap ops : State K V) k = none ∧ len (reach cap ops : State K V) = cap ∧
         (reach cap ops : State K V).queue.head? = some k'
      then none else get (reach cap ops : State K V) k' := by
  have h := (wf_reach cap ops : WF (reach cap ops : State K V))
  rw [reach_snoc]; show get (put (reach cap ops) k v) k' = _
  rw [get_put_full h, cap_reach, if_neg hne]
  have : ((reach cap ops : State K V).queue ++ [k]).head? = some k' ↔
      (reach cap ops : State K V).queue.head? = some k' := by
    cases (reach cap ops : State K V).queue with
    | nil => simp; exact fun e => hne e.symm
    | cons r q => simp
  simp only [this]

-- side condition true (2 is evicted by the new key 3) and false (1 is present, nothing is evicted)
example : get (reach 2 ([.put 2 20, .put 1 10] ++ [.put 3 30]) : State Nat Nat) 2 = none := by decide
example : get (reach 2 ([.put 2 20, .put 1 10] ++ [.put 1 30]) : State Nat Nat) 2 = some 20 := by decide

#print axioms get_put_other

/-- needs `1 ≤ cap`: when a store of a new key overflows the full table, the queue is non-empty, exactly its front `r`
(the oldest still-present key, see `queue_eq_spec_keys`) disappears, the new key is appended as the youngest, and
every other key keeps its value; the length stays `cap` -/
theorem evicts_oldest {cap : Nat} (hcap : 1 ≤ cap) (ops : List (Op K V)) (k : K) (v : V)
    (hnew : get (reach cap ops : State K V) k = none) (hfull : len (reach cap ops : State K V) = cap) :
    ∃ r q, (reach cap ops : State K V).queue = r :: q ∧
      (get (reach cap ops : State K V) r).isSome ∧
      (reach cap (ops ++ [.put k v]) : State K V).queue = q ++ [k] ∧
      get (reach cap (ops ++ [.put k v]) : State K V) r = none ∧
      get (reach cap (ops ++ [.put k v]) : State K V) k = some v ∧
      (∀ k', k' ≠ r → k' ≠ k → get (reach cap (ops ++ [.put k v]) : State K V) k' = get (reach cap ops : State K V) k') ∧
      len (reach cap (ops ++ [.put k v]) : State K V) = cap := by
  have h := (wf_reach cap ops : WF (reach cap ops : State K V))
  have hlen := h.toInv.length_eq
  have hcapr := cap_reach cap ops (K := K) (V := V)  -- used by `omega` below
  cases hq : (reach cap ops : State K V).queue with
  | nil => rw [hq] at hlen; simp [len] at hfull hlen; omega
  | cons r q =>
    have hr : (get (reach cap ops : State K V) r).isSome :=
      (mapGet_isSome_iff _ _).2 ((h.toInv.mem_iff r).1 (by simp [hq]))
    have hrk : r ≠ k := by intro e; rw [e, hnew] at hr; simp at hr
    have ho : mapLen (insertPhase (reach cap ops) k v).map > (insertPhase (reach cap ops) k v).cap := by
      rw [insertPhase_absent v hnew]; simp [mapLen, len] at hfull ⊢; omega
    have hq' : (insertPhase (reach cap ops) k v).queue = r :: (q ++ [k]) := by
      rw [insertPhase_absent v hnew]; simp [hq]
    have hput : reach cap (ops ++ [.put k v]) = put (reach cap ops) k v := by rw [reach_snoc]; rfl
    have hi := inv_put h.toInv k v
    refine ⟨r, q, rfl, hr, ?_, ?_, get_put_same hcap ops k v, ?_, ?_⟩
    · rw [hput]; unfold put; rw [evictPhase_over ho hq']
    · rw [get_put_other cap ops k v r hrk, if_pos ⟨hnew, hfull, by simp [hq]⟩]
    · intro k' h1 h2
      rw [get_put_other cap ops k v k' h2, if_neg]
      intro ⟨_, _, hh⟩; rw [hq] at hh; simp at hh; exact h1 hh.symm
    · have := hi.length_eq
      rw [← hput] at this
      have hqn : (reach cap (ops ++ [.put k v]) : State K V).queue = q ++ [k] := by
        rw [hput]; unfold put; rw [evictPhase_over ho hq']
      rw [hqn] at this
      rw [hq] at hlen
      simp [len] at hfull hlen this ⊢; omega

-- hypotheses satisfiable: full table [1,2] (1 overwritten before, still the oldest), new key 3, then 1 again
example : get (reach 2 [.put 1 10, .put 2 20, .put 1 11] : State Nat Nat) 3 = none ∧
          len (reach 2 [.put 1 10, .put 2 20, .put 1 11] : State Nat Nat) = 2 := by decide
example : (reach 2 ([.put 1 10, .put 2 20, .put 1 11] ++ [.put 3 30]) : State Nat Nat).queue = [2, 3] := by decide
example : get (reach 2 [.put 1 10, .put 2 20, .put 3 30] : State Nat Nat) 1 = none ∧
          len (reach 2 [.put 1 10, .put 2 20, .put 3 30] : State Nat Nat) = 2 ∧
          (reach 2 ([.put 1 10, .put 2 20, .put 3 30] ++ [.put 1 12]) : State Nat Nat).queue = [3, 1] := by decide

#print axioms evicts_oldest

/-- every `cap`: after `clear` every lookup answers nothing and the length is 0 -/
theorem get_after_clear (cap : Nat) (ops : List (Op K V)) (k : K) :
    get (reach cap (ops ++ [.clear]) : State K V) k = none ∧ len (reach cap (ops ++ [.clear]) : State K V) = 0 := by
  rw [reach_snoc]; exact ⟨rfl, rfl⟩

/-- every `cap`: a key that has not been stored since the last `clear` is not found (`post` holds no `put k _`) -/
theorem get_none_since_clear (cap : Nat) (pre post : List (Op K V)) (k : K)
    (hpost : ∀ v, Op.put k v ∉ post) :
    get (reach cap (pre ++ [.clear] ++ post) : State K V) k = none := by
  have key : ∀ (post : List (Op K V)) (s : State K V), WF s → get s k = none → (∀ v, Op.put k v ∉ post) →
      get (run s post).1 k = none := by
    intro post
    induction post with
    | nil => intro s _ hg _; exact hg
    | cons op post ih =>
      intro s hs hg hp
      rw [run_cons]
      refine ih _ (step_refines hs op).1 ?_ (fun v hm => hp v (by simp [hm]))
      cases op with
      | put k2 v2 =>
        have hne : k ≠ k2 := by intro e; subst e; exact hp v2 (by simp)
        show get (put s k2 v2) k = none
        rw [get_put_full hs, if_neg hne, hg]; simp
      | get _ => exact hg
      | clear => rfl
      | len => exact hg
  have := key post (reach cap (pre ++ [.clear])) (wf_reach _ _) (get_after_clear cap pre k).1 hpost
  show get (run (new cap) (pre ++ [.clear] ++ post)).1 k = none
  rw [run_append]; exact this

example : get (reach 2 ([.put 1 10] ++ [.clear] ++ [.put 2 20, .get 1]) : State Nat Nat) 1 = none := by decide

#print axioms get_after_clear
#print axioms get_none_since_clear

end Inkayaku.C18
