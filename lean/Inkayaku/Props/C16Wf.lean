import Inkayaku.Model.EngineOut
import Inkayaku.Proofs.SearchTrace
import Inkayaku.Proofs.MoveBits
import Inkayaku.Props.C16Console
/-!
# C16 (`engine_out_wf`) — the values the search hands to the printer are well formed, hence every line is UCI

`Props/C16Console.lean` proves `render_accepts : WFMsg m → accepts (render m).toList = true` for every message value and
shows that the side condition "a present move list is not empty" is necessary (`empty_pv_rejected`).  This file closes
the gap recorded there as TARGET: the messages the search thread emits during one `go` satisfy `WFMsg`.

* `ofOut o aux` — the `UciTx` call the search thread makes for the item `o` of the model's output stream
  (`= EngineOut.toTx aux o`): `best_move` builds `Info { principal_variation: uci_pv, time, score, depth, string, nodes,
  hash_full, nps, ..EMPTY }`, the flag poll builds `Info { time, nodes, hash_full, nps, ..EMPTY }`, moves go through
  `move_into_uci_move` (`uciOf`: the two 6-bit square fields and the 3-bit promotion field of the packed move word).
  `aux` carries what does not come from the search result (`hash_full`, `nps`, the debug string); the theorems hold for
  **every** `aux` whose debug string — if the debug switch is on — contains no line break (`AuxOk`; the six numbers are
  `Display` texts of `f64` values, `auxOk_of_f64`).  The default `aux` (debug off) needs no hypothesis.
* `engine_out_wf` — **no hypothesis on the state**: for every state `s` (any board, well formed or not, any table, any
  pending messages, any clock), all go parameters and every `maxIter`, each message that `goCmd s g maxIter` adds to
  `s.out` satisfies `WFMsg (ofOut o aux)`.  Two facts carry it:
  - squares: `uciOf m` reads `source`/`target` through 6-bit masks, so they are `< 64` for *every* 64-bit move word
    (`moveOk_uciOf`); no lemma about the move generator is needed;
  - `pv ≠ some []` (`deepen_pvNonempty`): in `deepen` the PV variable is `none` until an iteration is not aborted,
    `aborted = stop || cur.mv.isNone`, and `cur.mv = some m` gives `cur.pv = m :: _` (`VM.pv_of_mv`); flag-poll infos
    carry `none` (`pollOnly_stepRel`).
* `engine_out_news` — the same in the sharper "appended segment" form (`out = news ++ s.out`, `news ≠ []`), which does not
  lose a new message that happens to equal an old one.
* `engine_lines_accepted`, `engine_searchLines_accepted` — with `C16Console.render_accepts`: every line printed for a
  message emitted by `goCmd` is accepted by the grammar `Spec/UciOut.lean`.
* `engine_pv_nonempty` — the "in particular": no new info carries `some []`.
-/
namespace Inkayaku.C16Wf
open Inkayaku.Board Inkayaku.Search Inkayaku.EngineOut Inkayaku.C16Console
open Inkayaku.Console (TxMsg Info render)
open Inkayaku.UciOut (accepts isLineBreak)
open Inkayaku.Uci (UciMove)

/-! ## 1. the conversion -/

/-- the `UciTx` call of the search thread for one item of the output stream; `aux` = the runtime dependent fields
(`hash_full`, `nps`, debug string), default: debug off -/
def ofOut (o : Out) (aux : Aux := {}) : TxMsg := toTx aux o

/-- which `Info` fields are `Some`: iteration info -/
example (d t n : Nat) (sc : Eval.Score) (l : List Move) (aux : Aux) :
    ofOut (.info (some d) (some t) n (some sc) (some l)) aux =
      .info { depth := some d, time := some t, nodes := some n, pv := some (l.map uciOf), score := some (scoreOf sc),
              hashfull := some aux.hashfull, nps := some aux.nps, string := aux.debug.map debugText } := rfl

/-- … flag-poll info: `Info { time, ..generate_info() }` -/
example (t n : Nat) (aux : Aux) :
    ofOut (.info none (some t) n none none) aux =
      .info { time := some t, nodes := some n, hashfull := some aux.hashfull, nps := some aux.nps } := rfl

example (b p : Option Move) (aux : Aux) : ofOut (.bestMove b p) aux = .bestMove (b.map uciOf) (p.map uciOf) := rfl

/-! ## 2. squares: every move word has squares `< 64` -/

theorem source_lt (m : Move) : m.f.source < 64 := by
  show field m.bits Gen.sourceSquareMask Gen.sourceSquareShift < 64
  rw [MoveBits.field_eq _ _ _ 6 (by decide) (by decide) (by decide)]
  exact Nat.mod_lt _ (by decide)

theorem target_lt (m : Move) : m.f.target < 64 := by
  show field m.bits Gen.targetSquareMask Gen.targetSquareShift < 64
  rw [MoveBits.field_eq _ _ _ 6 (by decide) (by decide) (by decide)]
  exact Nat.mod_lt _ (by decide)

/-- `move_into_uci_move` yields squares, whatever the 64-bit word is -/
theorem moveOk_uciOf (m : Move) : MoveOk (uciOf m) := ⟨source_lt m, target_lt m⟩

theorem moveOptOk_uciOf (o : Option Move) : MoveOptOk (o.map uciOf) := by
  cases o with
  | none => trivial
  | some m => exact moveOk_uciOf m

/-! ## 3. the debug string -/

/-- the six number texts of the debug string contain no line break -/
def RatesOk (r : DebugRates) : Prop :=
  ∀ t ∈ [r.tphitrate, r.nrate, r.qrate, r.avgqdepth, r.qstartedrate, r.qtphitrate], ∀ c ∈ t, isLineBreak c = false

/-- side condition on the runtime dependent fields of one message: if the debug switch is on, the number texts contain
no line break -/
def AuxOk (a : Aux) : Prop := ∀ r, a.debug = some r → RatesOk r

instance (r : DebugRates) : Decidable (RatesOk r) := by unfold RatesOk; infer_instance

instance (a : Aux) : Decidable (AuxOk a) := by
  unfold AuxOk
  cases h : a.debug with
  | none => exact isTrue (fun r hr => by cases hr)
  | some r => exact decidable_of_iff (RatesOk r) ⟨fun hr r' e => by cases e; exact hr, fun hr => hr r rfl⟩

/-- debug off -/
theorem auxOk_default : AuxOk {} := fun r hr => by cases hr

theorem auxOk_nodebug (h n : Nat) : AuxOk { hashfull := h, nps := n } := fun r hr => by cases hr

/-- a character of an `f64` `Display` text is not a line break -/
theorem f64Char_noBreak {c : Char} (h : isF64Char c = true) : isLineBreak c = false := by
  simp only [isLineBreak, Bool.or_eq_false_iff, decide_eq_false_iff_not]
  constructor <;> (intro e; subst e; revert h; decide)

/-- what the engine actually prints: `Display` texts of `f64` values -/
theorem auxOk_of_f64 (a : Aux)
    (h : ∀ r, a.debug = some r →
      ∀ t ∈ [r.tphitrate, r.nrate, r.qrate, r.avgqdepth, r.qstartedrate, r.qtphitrate], t.all isF64Char = true) :
    AuxOk a := by
  intro r hr t ht c hc
  exact f64Char_noBreak (List.all_eq_true.mp (h r hr t ht) c hc)

theorem debugText_noBreak {r : DebugRates} (h : RatesOk r) : ∀ c ∈ debugText r, isLineBreak c = false := by
  have lit : ∀ {l : List Char}, Plain l → All (fun c => isLineBreak c = false) l := fun hl => Plain.all tame_noBreak hl
  have f1 : All (fun c => isLineBreak c = false) r.tphitrate := h _ (by simp)
  have f2 : All (fun c => isLineBreak c = false) r.nrate := h _ (by simp)
  have f3 : All (fun c => isLineBreak c = false) r.qrate := h _ (by simp)
  have f4 : All (fun c => isLineBreak c = false) r.avgqdepth := h _ (by simp)
  have f5 : All (fun c => isLineBreak c = false) r.qstartedrate := h _ (by simp)
  have f6 : All (fun c => isLineBreak c = false) r.qtphitrate := h _ (by simp)
  unfold debugText
  exact (lit (by decide)).append (f1.append ((lit (by decide)).append (f2.append ((lit (by decide)).append
    (f3.append ((lit (by decide)).append (f4.append ((lit (by decide)).append (f5.append ((lit (by decide)).append
    f6))))))))))

/-! ## 4. a message is well formed as soon as its PV is not `some []` -/

/-- an output item that carries a PV carries a non-empty one -/
def PvNonempty : Out → Prop
  | .info _ _ _ _ (some l) => l ≠ []
  | _ => True

instance (o : Out) : Decidable (PvNonempty o) := by
  cases o with
  | info d t n sc pv => cases pv <;> unfold PvNonempty <;> infer_instance
  | bestMove b p => exact isTrue trivial

theorem PvNonempty_poll {o : Out} (h : IsPollInfo o) : PvNonempty o := by
  cases o with
  | info d t n sc pv =>
    cases pv with
    | none => trivial
    | some l => cases d <;> cases sc <;> exact h.elim
  | bestMove _ _ => trivial

/-- every conjunct of `WFMsg (ofOut o aux)` except `pv ≠ some []` holds for every `Out` value -/
theorem wf_ofOut {o : Out} (h : PvNonempty o) {aux : Aux} (haux : AuxOk aux) : WFMsg (ofOut o aux) := by
  cases o with
  | bestMove b p => exact ⟨moveOptOk_uciOf b, moveOptOk_uciOf p⟩
  | info d t n sc pv =>
    show WFInfo _
    refine ⟨?_, trivial, trivial, trivial, ?_⟩
    · show MovesOk (pv.map (·.map uciOf))
      cases pv with
      | none => trivial
      | some l =>
        refine ⟨?_, ?_⟩
        · have hl : l ≠ [] := h
          simpa using hl
        · intro m hm
          obtain ⟨x, -, rfl⟩ := List.mem_map.mp hm
          exact moveOk_uciOf x
    · intro s hs
      cases d with
      | none => cases hs
      | some d =>
        have hs' : aux.debug.map debugText = some s := hs
        cases hdbg : aux.debug with
        | none => rw [hdbg] at hs'; cases hs'
        | some r =>
          rw [hdbg] at hs'
          cases hs'
          exact debugText_noBreak (haux r hdbg)

/-- conversely, `WFMsg` of the converted message says that the PV is not `some []` -/
theorem pvNonempty_of_wf {o : Out} {aux : Aux} (h : WFMsg (ofOut o aux)) : PvNonempty o := by
  cases o with
  | bestMove b p => trivial
  | info d t n sc pv =>
    cases pv with
    | none => trivial
    | some l =>
      have h' : WFInfo _ := h
      have := h'.pv
      have h2 : MovesOk (some (l.map uciOf)) := this
      intro e
      exact h2.1 (by rw [e]; rfl)

/-! ## 5. the iterative deepening never reports `some []` -/

theorem rootSearch_pv_ne {r : VM × St} (ha : ¬ iterAborted r = true) : r.1.pv ≠ [] := by
  unfold iterAborted at ha
  cases hm : r.1.mv with
  | none => simp [hm] at ha
  | some m =>
    obtain ⟨rest, hr⟩ := VM.pv_of_mv hm
    rw [hr]; simp

theorem deepen_pvNonempty : ∀ (n : Nat) (s : St) (d mt : Nat) (best : Option VM) (u : Option (List Move))
    (sc : Option Eval.Score), u ≠ some [] →
    ∃ news, (deepen n s d mt best u sc).2.out = news ++ s.out ∧ ∀ o ∈ news, PvNonempty o := by
  intro n
  induction n with
  | zero => intro s d mt best u sc _; rw [deepen_zero]; exact ⟨[], rfl, by simp⟩
  | succ n ih =>
    intro s d mt best u sc hu
    obtain ⟨polls, hp, hpoll⟩ := rootSearch_rel (pollOnly_stepRel d) s
    have hout : (iterState (rootSearch s d) d sc u).out = (iterInfo (rootSearch s d) d sc u :: polls) ++ s.out := by
      rw [iterState_out, hp]; rfl
    have hinfo : PvNonempty (iterInfo (rootSearch s d) d sc u) := by
      unfold iterInfo
      split
      · cases u with
        | none => trivial
        | some l => exact fun e => hu (by rw [e])
      · rename_i ha
        exact rootSearch_pv_ne ha
    have hone : ∀ o ∈ iterInfo (rootSearch s d) d sc u :: polls, PvNonempty o := by
      intro o ho
      rcases List.mem_cons.mp ho with rfl | ho
      · exact hinfo
      · exact PvNonempty_poll (hpoll o ho)
    rw [deepen_succ]
    simp only
    split
    · exact ⟨_, hout, hone⟩
    · rename_i ha
      split
      · exact ⟨_, hout, hone⟩
      · obtain ⟨news, hn, hok⟩ := ih (iterState (rootSearch s d) d sc u) (d + 1) mt (some (rootSearch s d).1)
          (some (rootSearch s d).1.pv) (some (Eval.scoreFromValue (rootSearch s d).1.value (rootSearch s d).2.board))
          (by intro e; exact rootSearch_pv_ne ha (Option.some.inj e))
        refine ⟨news ++ (iterInfo (rootSearch s d) d sc u :: polls), by rw [hn, hout, List.append_assoc], ?_⟩
        intro o ho
        rcases List.mem_append.mp ho with h | h
        · exact hok o h
        · exact hone o h

/-- what one `go` appends to the output: a non-empty segment, whose items never carry `some []` -/
theorem goCmd_pvNonempty (s : St) (g : GoParams) (maxIter : Nat) :
    ∃ news, (goCmd s g maxIter).out = news ++ s.out ∧ news ≠ [] ∧ ∀ o ∈ news, PvNonempty o := by
  obtain ⟨news, hn, hok⟩ := deepen_pvNonempty (goIters g maxIter) (goPrep s g) 1 (goMaxThinking (goPrep s g))
    none none none (by intro e; cases e)
  rw [goPrep_out] at hn
  refine ⟨.bestMove (bestMoveOf (goDeepen s g maxIter).1) (ponderOf (goDeepen s g maxIter).1 (goDeepen s g maxIter).2)
    :: news, ?_, by simp, ?_⟩
  · rw [goCmd_eq]
    show _ :: (goDeepen s g maxIter).2.out = _
    unfold goDeepen
    rw [hn]; rfl
  · intro o ho
    rcases List.mem_cons.mp ho with rfl | ho
    · trivial
    · exact hok o ho

/-! ## 6. the theorems -/

/-- **C16 `engine_out_wf`, segment form.**  For every state, all go parameters and every iteration bound, the output of
`goCmd` is the old output with a non-empty segment `news` put in front, and every message of `news` is handed to the
printer as a well-formed value — whatever the runtime dependent fields are (debug text without line break). -/
theorem engine_out_news (s : St) (g : GoParams) (maxIter : Nat) :
    ∃ news, (goCmd s g maxIter).out = news ++ s.out ∧ news ≠ [] ∧
      ∀ o ∈ news, ∀ aux, AuxOk aux → WFMsg (ofOut o aux) := by
  obtain ⟨news, hn, hne, hok⟩ := goCmd_pvNonempty s g maxIter
  exact ⟨news, hn, hne, fun o ho aux haux => wf_ofOut (hok o ho) haux⟩

/-- **C16 `engine_out_wf`.**  For every state `s`, go parameters `g` and `maxIter`, every message `o` that
`Search.goCmd s g maxIter` adds to `s.out` satisfies `WFMsg (ofOut o aux)`: squares are `< 64`, no info carries
`pv = some []`, the free text has no line break.  No hypothesis on `s`. -/
theorem engine_out_wf (s : St) (g : GoParams) (maxIter : Nat) (o : Out) (ho : o ∈ (goCmd s g maxIter).out)
    (hnew : o ∉ s.out) (aux : Aux) (haux : AuxOk aux) : WFMsg (ofOut o aux) := by
  obtain ⟨news, hn, -, hok⟩ := engine_out_news s g maxIter
  rw [hn] at ho
  rcases List.mem_append.mp ho with h | h
  · exact hok o h aux haux
  · exact absurd h hnew

/-- … with the default runtime fields (debug off): no side condition at all -/
theorem engine_out_wf_default (s : St) (g : GoParams) (maxIter : Nat) (o : Out) (ho : o ∈ (goCmd s g maxIter).out)
    (hnew : o ∉ s.out) : WFMsg (ofOut o) :=
  engine_out_wf s g maxIter o ho hnew {} auxOk_default

/-- in particular: no info of a `go` carries the empty principal variation -/
theorem engine_pv_nonempty (s : St) (g : GoParams) (maxIter : Nat) (d t : Option Nat) (n : Nat)
    (sc : Option Eval.Score) (l : List Move) (ho : Out.info d t n sc (some l) ∈ (goCmd s g maxIter).out)
    (hnew : Out.info d t n sc (some l) ∉ s.out) : l ≠ [] :=
  pvNonempty_of_wf (engine_out_wf_default s g maxIter _ ho hnew)

/-- … and all squares of all moves of a new message are squares -/
theorem engine_moves_ok (s : St) (g : GoParams) (maxIter : Nat) (o : Out) (ho : o ∈ (goCmd s g maxIter).out)
    (hnew : o ∉ s.out) (aux : Aux) (haux : AuxOk aux) : ∀ mv ∈ movesOf (ofOut o aux), mv.source < 64 ∧ mv.target < 64 :=
  wf_moves (engine_out_wf s g maxIter o ho hnew aux haux)

/-- **C16 `engine_lines_accepted`.**  Every line printed for a message emitted by `goCmd` is a line of the UCI
engine-to-GUI grammar. -/
theorem engine_lines_accepted (s : St) (g : GoParams) (maxIter : Nat) (o : Out) (ho : o ∈ (goCmd s g maxIter).out)
    (hnew : o ∉ s.out) (aux : Aux) (haux : AuxOk aux) : accepts (render (ofOut o aux)).toList = true :=
  render_accepts _ (engine_out_wf s g maxIter o ho hnew aux haux)

theorem engine_lines_accepted_default (s : St) (g : GoParams) (maxIter : Nat) (o : Out)
    (ho : o ∈ (goCmd s g maxIter).out) (hnew : o ∉ s.out) : accepts (render (ofOut o)).toList = true :=
  render_accepts _ (engine_out_wf_default s g maxIter o ho hnew)

/-- one `tx` call, one line of stdout -/
theorem engine_lines_single (s : St) (g : GoParams) (maxIter : Nat) (o : Out) (ho : o ∈ (goCmd s g maxIter).out)
    (hnew : o ∉ s.out) (aux : Aux) (haux : AuxOk aux) : '\n' ∉ (render (ofOut o aux)).toList := by
  have hwf := engine_out_wf s g maxIter o ho hnew aux haux
  refine render_single_line _ (wf_moves hwf) ?_
  intro t ht hc
  have := wf_texts hwf t ht '\n' hc
  revert this; decide

/-- the stdout of the search thread for one `go` (`EngineOut.searchLines`, oldest first), for any assignment of the
runtime dependent fields to the messages: the output is `news ++ s.out` and all lines printed for `news` are UCI -/
theorem engine_searchLines_accepted (s : St) (g : GoParams) (maxIter : Nat) (aux : Out → Aux) (haux : ∀ o, AuxOk (aux o)) :
    ∃ news, (goCmd s g maxIter).out = news ++ s.out ∧ news ≠ [] ∧
      ∀ line ∈ searchLines aux news, accepts line.toList = true := by
  obtain ⟨news, hn, hne, hok⟩ := engine_out_news s g maxIter
  refine ⟨news, hn, hne, ?_⟩
  intro line hl
  unfold searchLines at hl
  obtain ⟨o, ho, rfl⟩ := List.mem_map.mp hl
  exact render_accepts _ (hok o (List.mem_reverse.mp ho) (aux o) (haux o))

#print axioms engine_out_news
#print axioms engine_out_wf
#print axioms engine_out_wf_default
#print axioms engine_pv_nonempty
#print axioms engine_moves_ok
#print axioms engine_lines_accepted
#print axioms engine_lines_accepted_default
#print axioms engine_lines_single
#print axioms engine_searchLines_accepted

/-! ## 7. non-vacuity -/

namespace Example

def boardOf (fen : String) : Board :=
  match FenBoard.fromFenString fen with
  | .ok b => b
  | .error _ => FenBoard.startBoard

/-- king and rook against king, white to move (the board `kr` of `Props/C08.lean`) -/
def kr : Board := boardOf "k7/8/2K5/8/8/8/8/7R w - - 0 1"

/-- debug on, with the texts the engine prints at node count 0 -/
def auxDebug : Aux :=
  { hashfull := 1, nps := 392583,
    debug := some ⟨"NaN".toList, "1".toList, "0".toList, "NaN".toList, "0.25".toList, "inf".toList⟩ }

example : AuxOk auxDebug := by decide
example : AuxOk auxDebug := auxOk_of_f64 _ (by decide)

/-- everything a `go` prints, oldest first -/
def linesOf (s : St) (g : GoParams) (aux : Aux := {}) : List String :=
  (goCmd s g).out.reverse.map fun o => render (ofOut o aux)

def allOk (s : St) (g : GoParams) (aux : Aux := {}) : Bool :=
  (goCmd s g).out.all fun o => decide (WFMsg (ofOut o aux)) && accepts (render (ofOut o aux)).toList

-- the stream of a depth 2 search
#guard linesOf (setPosition initial kr []) { depth := some 2 } ==
  ["info depth 1 time 0 nodes 22 pv c6d5 score cp 590 hashfull 0 nps 0",
   "info depth 2 time 0 nodes 67 pv c6d5 a8b8 score cp 570 hashfull 0 nps 0",
   "bestmove c6d5 ponder a8b8"]
#guard allOk (setPosition initial kr []) { depth := some 3 }
#guard allOk (setPosition initial kr []) { depth := some 3 } auxDebug
-- flag polls in the middle of the search (poll period 7): periodic infos `info time … nodes … hashfull … nps …`
#guard allOk { setPosition initial kr [] with pollPeriod := 7 } { depth := some 3 }
#guard (goCmd { setPosition initial kr [] with pollPeriod := 7 } { depth := some 3 }).out.length > 10
-- a `stop` arrives during iteration 2 (first poll at node 30): the aborted iteration re-reports the PV of iteration 1
#guard linesOf { setPosition initial kr [] with pollPeriod := 30, pending := [.stop] } { depth := some 3 } ==
  ["info depth 1 time 0 nodes 22 pv c6d5 score cp 590 hashfull 0 nps 0", "info time 0 nodes 30 hashfull 0 nps 0",
   "info depth 1 time 0 nodes 31 pv c6d5 score cp 590 hashfull 0 nps 0", "bestmove c6d5"]
#guard allOk { setPosition initial kr [] with pollPeriod := 30, pending := [.stop] } { depth := some 3 } auxDebug
-- the very first iteration is aborted: a periodic info, `info depth 0 …` without PV, `bestmove 0000`
#guard linesOf { setPosition initial kr [] with pollPeriod := 1, pending := [.stop] } { depth := some 3 } ==
  ["info time 0 nodes 1 hashfull 0 nps 0", "info depth 0 time 0 nodes 2 hashfull 0 nps 0", "bestmove 0000"]
#guard allOk { setPosition initial kr [] with pollPeriod := 1, pending := [.stop] } { depth := some 3 }
-- no legal move (stalemate, mate): no PV, `bestmove 0000`
#guard allOk (setPosition initial (boardOf "k7/2Q5/2K5/8/8/8/8/8 b - - 0 1") []) { depth := some 2 }
#guard allOk (setPosition initial (boardOf "k6R/8/1K6/8/8/8/8/8 b - - 0 1") []) { depth := some 2 }
#guard linesOf (setPosition initial (boardOf "k6R/8/1K6/8/8/8/8/8 b - - 0 1") []) { depth := some 2 } ==
  ["info depth 0 time 0 nodes 1 hashfull 0 nps 0", "bestmove 0000"]
-- promotions, captures, en passant, castling; full board; moves played before the search; `searchmoves`
#guard allOk (setPosition initial (boardOf "r3k3/1P6/8/3pP3/8/8/8/4K2R w Kq d6 0 2") []) { depth := some 2 } auxDebug
#guard allOk (setPosition initial FenBoard.startBoard ["e2e4", "e7e5"]) { depth := some 2 }
#guard allOk (setPosition initial FenBoard.startBoard []) { depth := some 2, searchMoves := ["a2a3"] }
-- a time budget instead of a depth (virtual clock 1 ms per node)
#guard allOk { setPosition initial kr [] with nsPerNode := some 1000000 } { wtime := some 6000, btime := some 6000 }

/-- the hypotheses of `engine_out_wf` are satisfiable, and the conclusion is what the evaluator computes: the newest
message of a concrete `go` is new, well formed, and printed as an accepted line -/
example : ∃ o, o ∈ (goCmd (setPosition initial kr []) { depth := some 1 }).out ∧
    o ∉ (setPosition initial kr []).out ∧ WFMsg (ofOut o auxDebug) ∧ accepts (render (ofOut o auxDebug)).toList = true := by
  obtain ⟨news, hn, hne, hok⟩ := engine_out_news (setPosition initial kr []) { depth := some 1 } 64
  cases news with
  | nil => exact absurd rfl hne
  | cons o rest =>
    have hold : (setPosition initial kr []).out = [] := by
      unfold setPosition
      simp only
      split <;> rfl
    refine ⟨o, by rw [hn]; simp, by rw [hold]; simp, hok o (by simp) _ (by decide), ?_⟩
    exact render_accepts _ (hok o (by simp) _ (by decide))

/-- the side condition `PvNonempty` is what the printer needs: the same message with `some []` is rejected -/
example : ¬ WFMsg (ofOut (.info (some 1) (some 0) 16 (some (.cp 3)) (some []))) := by decide
#guard !accepts (render (ofOut (.info (some 1) (some 0) 16 (some (.cp 3)) (some [])))).toList
-- `AuxOk` is what the printer needs: a debug text with a line break makes two lines
example : ¬ AuxOk { debug := some ⟨"1\nquit".toList, [], [], [], [], []⟩ } := by decide
#guard !accepts (render (ofOut (.info (some 1) (some 0) 16 none none)
  { debug := some ⟨"1\nquit".toList, [], [], [], [], []⟩ })).toList

end Example

end Inkayaku.C16Wf
