import Inkayaku.Proofs.RepSpecGame
import Inkayaku.Proofs.RepSpecOcc
import Inkayaku.Props.C10Search
/-!
# C10, the executable specification WITH the repetition rule (`Model/RepSpec.lean`) and its link to the search model

"A line is valued as a draw by repetition exactly when the position it reaches has then occurred at least three times —
counting the game history supplied with the position command and the line itself, with no capture or pawn move in between —
and that value ignores material (it is the draw score up to the engine's fixed contempt offset)."

`RepSpec.repSearch` is the oracle of the perpetual-check corpus (`corpus/perpetuals.txt`, depth 4).  This file proves what it
computes and ties it to the search model at depth 1.  Helper files: `Proofs/RepSpecGame.lean`, `Proofs/RepSpecOcc.lean`.

1. `rep_search_eq_mm`, `repSearch_eq_mm`, `repSearch_value` – the value of `repSearch depth b0 ucis only` is
   `Minimax.mm RepSpec.repGame depth ⟨b, only, 0, before⟩`: the exact, path-dependent minimax value of the game with the rule
   (`(b, before) = playHistory b0 ucis []`: the last board and the keys of the earlier positions, newest first);
   `repSearch_order_irrelevant` – any move order and any capture order give that value.
2. The rule in words: `rule_never_at_root`, `rule_value` (a node below the root whose position has occurred three times is worth
   `drawScore + contempt` at even and `drawScore − contempt` at odd plies, at every depth), `rule_otherwise` (otherwise the maximum
   over the children, each with the key of the node's own position prepended to its path), `rule_horizon`, `rule_terminal`.
3. `occurrences_agree` – `RepSpec.occurrences` (keys newest first, even distances, window `take halfmove`) and
   `C10Search`'s `SearchRep.occurrences` (boards oldest first, `HashKey`, last `halfmove` positions) are the same number for a
   position that continues a line of legal moves.
4. `playHistory_of_game` (the history walked by the oracle is the game of `SearchRep.gameBoards`), `mm_root1` (the depth-1 value
   of the specification = `SearchRep.repValue1`), and the end-to-end statements
   `go_depth1_eq_repSpec` (ENGINE MODEL: `go depth 1` after `position <b0> moves …` reports `scoreFromValue` of the value
   component of `repSearch 1 b0 ucis []`, and the announced move attains it) and `go_depth1_searchmoves_eq_repSpec`
   (`go depth 1 searchmoves m`: the value component of `repSearch 1 b0 ucis [m.uci]`), under the hypotheses
   `SearchRep.RootHyp` / `C10Search.GameHyp` of `Props/C10Search.lean`.
5. Non-vacuity: the K+Q shuffle of `C10Search.Example`, and a corpus position at depth 2.

TARGET (deeper than one ply): see the end of the file.
-/
namespace Inkayaku.C10Rep
open Inkayaku.Board Inkayaku.Eval Inkayaku.WF Inkayaku.BoardCongr Inkayaku.Minimax Inkayaku.SpecSearch Inkayaku.Search
open Inkayaku.SearchSim Inkayaku.History Inkayaku.SearchRep Inkayaku.C10Search
open Inkayaku.C06 (HashKey)
open Inkayaku.RepSpec (RPos Key key repGame repChess byMvvLvaR repSearch playHistory isRepetition repetitionValue)

/-! ## 1. the oracle computes the exact path-dependent minimax value -/

/-- **alpha-beta on the game with the repetition rule = its minimax**, any move order, any capture order, every node -/
theorem rep_search_eq_mm (order qorder : RPos → List Move → List Move)
    (ho : ∀ p l, (order p l).Perm l) (hq : ∀ p l, (qorder p l).Perm l) (d : Nat) (p : RPos) :
    (ab (repChess.game qorder) order d p lossScore (-lossScore)).1 = mm repGame d p :=
  RepSpec.rep_search_eq_mm order qorder ho hq d p

/-- **the value component of `repSearch`** is `mm repGame depth ⟨b, only, 0, before⟩` where `(b, before)` is what the history
walk returns; `repSearch` fails exactly when the history walk fails (a rejected UCI string) -/
theorem repSearch_value (depth : Nat) (b0 : Board) (ucis only : List String) :
    (repSearch depth b0 ucis only).map (fun r => (r.1, r.2.1)) =
      (playHistory b0 ucis []).map (fun hb => (hb.1, mm repGame depth ⟨hb.1, only, 0, hb.2⟩)) := by
  cases h : playHistory b0 ucis [] with
  | none => rw [RepSpec.repSearch_none h]; rfl
  | some hb =>
    obtain ⟨b, before⟩ := hb
    rw [RepSpec.repSearch_of_history h]
    simp only [Option.map_some]
    rw [show (ab repGame byMvvLvaR depth ⟨b, only, 0, before⟩ lossScore (-lossScore)).1 = mm repGame depth ⟨b, only, 0, before⟩
      from RepSpec.rep_search_eq_mm byMvvLvaR byMvvLvaR RepSpec.isOrder_byMvvLvaR RepSpec.isOrder_byMvvLvaR depth _]

theorem repSearch_eq_mm {depth : Nat} {b0 : Board} {ucis only : List String} {b : Board} {before : List Key}
    (h : playHistory b0 ucis [] = some (b, before)) :
    ∃ bm, repSearch depth b0 ucis only = some (b, mm repGame depth ⟨b, only, 0, before⟩, bm) := by
  refine ⟨(ab repGame byMvvLvaR depth ⟨b, only, 0, before⟩ lossScore (-lossScore)).2, ?_⟩
  rw [RepSpec.repSearch_of_history h,
    show (ab repGame byMvvLvaR depth ⟨b, only, 0, before⟩ lossScore (-lossScore)).1 = mm repGame depth ⟨b, only, 0, before⟩
      from RepSpec.rep_search_eq_mm byMvvLvaR byMvvLvaR RepSpec.isOrder_byMvvLvaR RepSpec.isOrder_byMvvLvaR depth _]

/-- natural order, MVV-LVA order, any order of moves and captures: the value the oracle computes -/
theorem repSearch_order_irrelevant (order qorder : RPos → List Move → List Move)
    (ho : ∀ p l, (order p l).Perm l) (hq : ∀ p l, (qorder p l).Perm l) (d : Nat) (p : RPos) :
    (ab (repChess.game qorder) order d p lossScore (-lossScore)).1 = (ab repGame byMvvLvaR d p lossScore (-lossScore)).1 := by
  rw [rep_search_eq_mm order qorder ho hq,
    show (ab repGame byMvvLvaR d p lossScore (-lossScore)).1 = mm repGame d p
      from RepSpec.rep_search_eq_mm byMvvLvaR byMvvLvaR RepSpec.isOrder_byMvvLvaR RepSpec.isOrder_byMvvLvaR d p]

/-- the move the oracle returns attains the value (value strictly inside the score range) -/
theorem repSearch_best_move_optimal (order qorder : RPos → List Move → List Move)
    (ho : ∀ p l, (order p l).Perm l) (hq : ∀ p l, (qorder p l).Perm l) (d : Nat) (p : RPos)
    (hne : (repGame.moves p).isEmpty = false)
    (hlo : lossScore < mm repGame (d + 1) p) (hhi : mm repGame (d + 1) p < -lossScore) :
    ∃ m, (ab (repChess.game qorder) order (d + 1) p lossScore (-lossScore)).2 = some m ∧ m ∈ repGame.moves p ∧
      - mm repGame d (repGame.child p m) = mm repGame (d + 1) p := by
  have e : ∀ d p, mm (repChess.game qorder) d p = mm repGame d p :=
    fun d p => searchGame_mm_qorder repChess qorder byMvvLvaR d p
  obtain ⟨m, h1, h2, h3⟩ := Minimax.best_move_optimal (repChess.game qorder) order ho (RepSpec.rep_leafOk qorder hq) d p hne
    (by rw [e]; exact hlo) (by rw [e]; exact hhi)
  rw [e, e] at h3
  exact ⟨m, h1, h2, h3⟩

#print axioms rep_search_eq_mm
#print axioms repSearch_value
#print axioms repSearch_eq_mm
#print axioms repSearch_order_irrelevant
#print axioms repSearch_best_move_optimal

/-! ## 2. the rule in words -/

/-- **at the root the rule is never applied**, whatever the history -/
theorem rule_never_at_root (b : Board) (only : List String) (before : List Key) :
    isRepetition ⟨b, only, 0, before⟩ = false := RepSpec.isRepetition_root _ rfl

/-- the rule applies to the nodes below the root whose position has occurred three times -/
theorem rule_applies_iff (p : RPos) : isRepetition p = true ↔ 0 < p.ply ∧ 3 ≤ RepSpec.occurrences p :=
  RepSpec.isRepetition_iff p

/-- **such a node is worth `drawScore + contempt` (even ply) / `drawScore − contempt` (odd ply) at every depth** – a constant:
no material, no piece-square term -/
theorem rule_value (d : Nat) (p : RPos) (h : isRepetition p = true) :
    mm repGame d p = if p.ply % 2 = 0 then Gen.drawScore + Gen.contempt else Gen.drawScore - Gen.contempt :=
  RepSpec.mm_repetition_parity d p h

/-- **otherwise: the usual maximum over the children**; a child is one ply deeper, carries no `searchmoves` restriction and has
the key of the node's own position prepended to its path -/
theorem rule_otherwise (d : Nat) (p : RPos) (h : isRepetition p = false) (hn : rootMoves p.board p.only ≠ []) :
    mm repGame (d + 1) p =
      mmFold (mm repGame d) lossScore
        ((rootMoves p.board p.only).map fun m =>
          ({ board := make p.board m, only := [], ply := p.ply + 1, before := key p.board :: p.before } : RPos)) :=
  RepSpec.mm_succ_norep d p h hn

/-- … at the horizon: the horizon value of the board (capture resolution or static evaluation) -/
theorem rule_horizon (p : RPos) (h : isRepetition p = false) (hn : rootMoves p.board p.only ≠ []) :
    mm repGame 0 p = game.leafExact (p.board, p.only) := RepSpec.mm_zero_norep p h hn

/-- … without a legal move: mate or stalemate -/
theorem rule_terminal (d : Nat) (p : RPos) (h : isRepetition p = false) (hn : rootMoves p.board p.only = []) :
    mm repGame d p = Search.evalFor p.board p.board.turn false := RepSpec.mm_norep_terminal d p h hn

/-- the root, spelled out -/
theorem rule_root (d : Nat) (b : Board) (only : List String) (before : List Key) (hn : rootMoves b only ≠ []) :
    mm repGame (d + 1) ⟨b, only, 0, before⟩ =
      mmFold (mm repGame d) lossScore
        ((rootMoves b only).map fun m => ({ board := make b m, only := [], ply := 1, before := key b :: before } : RPos)) :=
  RepSpec.mm_root_succ d b only before hn

#print axioms rule_never_at_root
#print axioms rule_applies_iff
#print axioms rule_value
#print axioms rule_otherwise
#print axioms rule_horizon
#print axioms rule_terminal
#print axioms rule_root

/-! ## 3. the two notions of "occurred three times" -/

/-- **agreement of the counts.**  Direction conventions: `L` lists the earlier positions OLDEST FIRST (as the lines of
`Props/C10Search.lean`: game history, then the search line), `c` is the position reached after them, and `L ++ [c]` is a line of
legal moves; the specification node holds the keys of `L` NEWEST FIRST, i.e. `L.reverse.map key`.  `searchmoves` and ply are
irrelevant to the count.  No well-formedness hypothesis. -/
theorem occurrences_agree (L : List Board) (c : Board) (hl : IsLine (L ++ [c])) (only : List String) (ply : Nat) :
    RepSpec.occurrences ⟨c, only, ply, L.reverse.map key⟩ = SearchRep.occurrences L c :=
  RepSpec.occurrences_agree L c hl only ply

/-- hence the rule of the specification is the third-occurrence test of `C10Search` -/
theorem isRepetition_iff_occurrences (L : List Board) (c : Board) (hl : IsLine (L ++ [c])) (only : List String) (ply : Nat)
    (hply : 0 < ply) :
    isRepetition ⟨c, only, ply, L.reverse.map key⟩ = true ↔ 3 ≤ SearchRep.occurrences L c := by
  rw [RepSpec.isRepetition_iff, occurrences_agree L c hl only ply]
  exact ⟨fun h => h.2, fun h => ⟨hply, h⟩⟩

#print axioms occurrences_agree
#print axioms isRepetition_iff_occurrences

/-! ## 4. the history walk, the depth-1 value, and the search model -/

/-- the keys of the game positions before the last one, newest first: what the root node of the specification carries -/
def histKeys (b0 : Board) (T : List Board) : List Key := ((b0 :: T).dropLast.reverse).map key

/-- the root node of the specification after the game `b0 :: T` -/
def rootNode (b0 : Board) (T : List Board) (only : List String) : RPos :=
  { board := lastBoard b0 T, only := only, ply := 0, before := histKeys b0 T }

/-- the node below the root move `m` -/
def childNode (b0 : Board) (T : List Board) (m : Move) : RPos :=
  { board := make (lastBoard b0 T) m, only := [], ply := 1, before := (b0 :: T).reverse.map key }

theorem playHistory_cons (b : Board) (u : String) (us : List String) (acc : List Key) :
    playHistory b (u :: us) acc =
      match playUci b u with
      | some b' => playHistory b' us (key b :: acc)
      | none => none := by
  rcases hf : San.findUci b u with ⟨r, bb⟩
  cases r with
  | error e => simp only [RepSpec.playHistory, playUci, hf]
  | ok m => simp only [RepSpec.playHistory, playUci, hf]

theorem playHistory_acc : ∀ (ucis : List String) (b0 : Board) (T : List Board) (acc : List Key),
    gameBoards b0 ucis = some (b0 :: T) →
    playHistory b0 ucis acc = some (lastBoard b0 T, histKeys b0 T ++ acc)
  | [], b0, T, acc, h => by
    simp only [gameBoards, Option.some.injEq, List.cons.injEq, true_and] at h
    subst h
    rfl
  | u :: us, b0, T, acc, h => by
    rw [gameBoards_cons] at h
    rw [playHistory_cons]
    cases hp : playUci b0 u with
    | none => rw [hp] at h; cases h
    | some b' =>
      rw [hp] at h
      simp only at h ⊢
      cases hg : gameBoards b' us with
      | none => rw [hg] at h; cases h
      | some L' =>
        rw [hg] at h
        simp only [Option.map_some, Option.some.injEq, List.cons.injEq, true_and] at h
        subst h
        obtain ⟨_, T', rfl⟩ := gameBoards_shape us b' L' hg
        rw [playHistory_acc us b' T' (key b0 :: acc) hg]
        show some (lastBoard b' T', _) = some (lastBoard b' T', _)
        congr 2
        unfold histKeys
        rw [List.dropLast_cons_cons]
        simp

/-- **the history walked by the oracle is the game**: last board, and the keys of the earlier positions newest first -/
theorem playHistory_of_game {b0 : Board} {ucis : List String} {T : List Board} (h : gameBoards b0 ucis = some (b0 :: T)) :
    playHistory b0 ucis [] = some (lastBoard b0 T, histKeys b0 T) := by
  rw [playHistory_acc ucis b0 T [] h, List.append_nil]

/-- a rejected string: the oracle fails, as the engine keeps its old state (`C10Search.setPosition_rejected`) -/
theorem playHistory_rejected : ∀ (ucis : List String) (b0 : Board) (acc : List Key), gameBoards b0 ucis = none →
    playHistory b0 ucis acc = none
  | [], _, _, h => by simp [gameBoards] at h
  | u :: us, b0, acc, h => by
    rw [gameBoards_cons] at h
    rw [playHistory_cons]
    cases hp : playUci b0 u with
    | none => rfl
    | some b' =>
      rw [hp] at h
      simp only at h ⊢
      cases hg : gameBoards b' us with
      | none => exact playHistory_rejected us b' _ hg
      | some L' => rw [hg] at h; cases h

/-- the path of a child of the root: the key of the last game position in front of the root's path = all game keys reversed -/
theorem key_last_histKeys : ∀ (T : List Board) (b0 : Board),
    key (lastBoard b0 T) :: histKeys b0 T = (b0 :: T).reverse.map key
  | [], b0 => rfl
  | q :: T, b0 => by
    have ih := key_last_histKeys T q
    unfold histKeys at ih ⊢
    rw [List.dropLast_cons_cons, List.reverse_cons, List.map_append, ← List.cons_append]
    show (key (lastBoard q T) :: _) ++ _ = _
    rw [ih]
    simp

theorem repGame_child_root (b0 : Board) (T : List Board) (only : List String) (m : Move) :
    repGame.child (rootNode b0 T only) m = childNode b0 T m := by
  show ({ board := _, only := [], ply := 0 + 1, before := key (lastBoard b0 T) :: histKeys b0 T } : RPos) = _
  rw [key_last_histKeys]
  rfl

theorem isLine_child {b0 : Board} {T : List Board} (hl : IsLine (b0 :: T)) {m : Move} (hm : m ∈ genLegal (lastBoard b0 T)) :
    IsLine (b0 :: (T ++ [make (lastBoard b0 T) m])) :=
  isLine_snoc T b0 _ hl ⟨m, hm, rfl⟩

/-- a horizon node to which the rule does not apply has the value of `SpecSearch.game` on its board -/
theorem mm_zero_norep_eq (p : RPos) (h : isRepetition p = false) : mm repGame 0 p = mm game 0 (p.board, p.only) := by
  by_cases hn : rootMoves p.board p.only = []
  · rw [RepSpec.mm_norep_terminal 0 p h hn, SearchSim.mm_zero]
    have : game.moves (p.board, p.only) = [] := hn
    rw [this]
    rfl
  · rw [RepSpec.mm_zero_norep p h hn, SearchSim.mm_zero]
    have : (game.moves (p.board, p.only)).isEmpty = false := by
      show (rootMoves p.board p.only).isEmpty = false
      cases hr : rootMoves p.board p.only with
      | nil => exact absurd hr hn
      | cons _ _ => rfl
    rw [this]
    rfl

/-- **the node below a root move**: its exact value in the specification is `SearchRep.childExact`, the value the search model's
node has (`root_child` of `Proofs/SearchRepRoot.lean`): the repetition value if `m` completes a threefold in the game line, the
horizon value otherwise -/
theorem mm_child_eq_childExact {b0 : Board} {T : List Board} (hl : IsLine (b0 :: T)) {m : Move}
    (hm : m ∈ genLegal (lastBoard b0 T)) :
    mm repGame 0 (childNode b0 T m) = childExact (b0 :: T) (lastBoard b0 T) m := by
  have hocc : RepSpec.occurrences (childNode b0 T m) = SearchRep.occurrences (b0 :: T) (make (lastBoard b0 T) m) :=
    RepSpec.occurrences_agree_cons b0 T _ (isLine_child hl hm) [] 1
  unfold childExact
  by_cases h3 : 3 ≤ SearchRep.occurrences (b0 :: T) (make (lastBoard b0 T) m)
  · rw [if_pos h3]
    have hr : isRepetition (childNode b0 T m) = true :=
      (RepSpec.isRepetition_iff _).mpr ⟨by show 0 < 1; omega, by rw [hocc]; exact h3⟩
    rw [RepSpec.mm_repetition 0 _ hr]
    rfl
  · rw [if_neg h3]
    have hr : isRepetition (childNode b0 T m) = false := by
      cases hx : isRepetition (childNode b0 T m) with
      | false => rfl
      | true => exact absurd (by rw [← hocc]; exact ((RepSpec.isRepetition_iff _).mp hx).2) h3
    rw [mm_zero_norep_eq _ hr]
    rfl

/-- **the depth-1 value of the specification after a game**, with any `searchmoves` list: the maximum over the root moves of
the negated `childExact` -/
theorem mm_root1 {b0 : Board} {T : List Board} (hl : IsLine (b0 :: T)) (only : List String)
    (hn : rootMoves (lastBoard b0 T) only ≠ []) :
    mm repGame 1 (rootNode b0 T only) =
      mmFold (childExact (b0 :: T) (lastBoard b0 T)) lossScore (rootMoves (lastBoard b0 T) only) := by
  have h := RepSpec.mm_succ_norep 0 (rootNode b0 T only) (RepSpec.isRepetition_root _ rfl) hn
  rw [h, RepSpec.mmFold_map]
  apply mmFold_congr
  intro m hm
  have hm' : m ∈ genLegal (lastBoard b0 T) := by
    have hm2 : m ∈ rootMoves (lastBoard b0 T) only := hm
    unfold rootMoves at hm2
    split at hm2
    · exact hm2
    · exact (List.mem_filter.mp hm2).1
  have := mm_child_eq_childExact hl hm'
  rw [← this, ← repGame_child_root b0 T only m]
  rfl

/-- without `searchmoves`: `SearchRep.repValue1`, the value `C10Search.go_depth1_game` speaks about -/
theorem mm_root1_eq_repValue1 {b0 : Board} {T : List Board} (hl : IsLine (b0 :: T)) (hlegal : genLegal (lastBoard b0 T) ≠ []) :
    mm repGame 1 (rootNode b0 T []) = repValue1 (b0 :: T) (lastBoard b0 T) := by
  have hr : rootMoves (lastBoard b0 T) [] = genLegal (lastBoard b0 T) := by simp [rootMoves]
  rw [mm_root1 hl [] (by rw [hr]; exact hlegal), hr]
  rfl

/-- **`go depth 1` after `position <b0> moves u1 … un` reports the value of the executable specification.**
`repSearch 1 b0 ucis []` succeeds on the last game position with value `v = mm repGame 1 (rootNode …)`; the search model's
`info depth 1` line carries `scoreFromValue v`, and the announced move `m` is a legal move whose node in the specification game
has the exact value `−v` and heads the PV.  Hypotheses: those of `C10Search.go_depth1_game`. -/
theorem go_depth1_eq_repSpec {b0 : Board} {ucis : List String} {T : List Board} (H : RootHyp b0 T)
    (hgame : gameBoards b0 ucis = some (b0 :: T)) (s₀ : St) (maxIter : Nat) (hmi : 1 ≤ maxIter)
    (hlegal : genLegal (lastBoard b0 T) ≠ []) (hpoll : (genPseudo (lastBoard b0 T)).length < s₀.pollPeriod) :
    ∃ v bm, repSearch 1 b0 ucis [] = some (lastBoard b0 T, v, bm) ∧ v = mm repGame 1 (rootNode b0 T []) ∧
      ∃ t nodes m pv,
        (goCmd (setPosition s₀ b0 ucis) { depth := some 1 } maxIter).out =
          .bestMove (some m) (pv[1]?) ::
          .info (some 1) t nodes (some (scoreFromValue v (lastBoard b0 T))) (some pv) :: s₀.out ∧
        m ∈ genLegal (lastBoard b0 T) ∧ - mm repGame 0 (childNode b0 T m) = v ∧ pv[0]? = some m := by
  obtain ⟨bm, hrs⟩ := repSearch_eq_mm (depth := 1) (only := []) (playHistory_of_game hgame)
  obtain ⟨t, nodes, m, pv, hout, hm, hval, hpv⟩ := go_depth1_game H hgame s₀ maxIter hmi hlegal hpoll
  have hv := mm_root1_eq_repValue1 H.line hlegal
  refine ⟨_, bm, hrs, rfl, t, nodes, m, pv, ?_, hm, ?_, hpv⟩
  · rw [show mm repGame 1 ⟨lastBoard b0 T, [], 0, histKeys b0 T⟩ = mm repGame 1 (rootNode b0 T []) from rfl, hv]
    exact hout
  · rw [mm_child_eq_childExact H.line hm, hval, ← hv]
    rfl

/-- **`go depth 1 searchmoves m`** after a game: the reported score is `scoreFromValue` of the value component of
`repSearch 1 b0 ucis [m.uci]`, whether `m` completes a threefold (then it is `cp (contempt − drawScore)` whatever the material) or
not (then it is the horizon value of the position after `m`); best move `m`, PV `m :: pv'`, ponder move `pv'[0]?`.
Hypotheses: those of `C10Search.go_threefold` / `go_no_threefold`. -/
theorem go_depth1_searchmoves_eq_repSpec {b0 : Board} {ucis : List String} {T : List Board} {m : Move}
    (H : GameHyp b0 ucis T m) (s₀ : St) (maxIter : Nat) (hmi : 1 ≤ maxIter) (hpp : 1 < s₀.pollPeriod)
    (hmat : material (lastBoard b0 T) ≤ 64) :
    ∃ v bm, repSearch 1 b0 ucis [m.uci] = some (lastBoard b0 T, v, bm) ∧ v = mm repGame 1 (rootNode b0 T [m.uci]) ∧
      v = - mm repGame 0 (childNode b0 T m) ∧
      ∃ t nodes pv',
        (goCmd (setPosition s₀ b0 ucis) { depth := some 1, searchMoves := [m.uci] } maxIter).out =
          .bestMove (some m) (pv'[0]?) ::
          .info (some 1) t nodes (some (scoreFromValue v (lastBoard b0 T))) (some (m :: pv')) :: s₀.out := by
  obtain ⟨bm, hrs⟩ := repSearch_eq_mm (depth := 1) (only := [m.uci]) (playHistory_of_game H.game)
  obtain ⟨hl, hlast⟩ := H.last
  have hmv : rootMoves (lastBoard b0 T) [m.uci] = [m] := rootMoves_single hlast.wf H.legal
  have hroot : mm repGame 1 (rootNode b0 T [m.uci]) = max lossScore (- childExact (b0 :: T) (lastBoard b0 T) m) := by
    rw [mm_root1 hl [m.uci] (by rw [hmv]; simp), hmv]
    rfl
  have hchild := mm_child_eq_childExact hl H.legal
  have hlv := lossScore_val
  by_cases h3 : 3 ≤ SearchRep.occurrences (b0 :: T) (make (lastBoard b0 T) m)
  · have hce : childExact (b0 :: T) (lastBoard b0 T) m = repValue 1 := by unfold childExact; rw [if_pos h3]
    have hb := repValue_one_bounds
    have hv : mm repGame 1 (rootNode b0 T [m.uci]) = -(repValue 1) := by rw [hroot, hce]; omega
    obtain ⟨t, nodes, hout⟩ := go_threefold H s₀ maxIter hmi hpp h3
    refine ⟨_, bm, hrs, rfl, ?_, t, nodes, [], ?_⟩
    · rw [show mm repGame 1 ⟨lastBoard b0 T, [m.uci], 0, histKeys b0 T⟩ = mm repGame 1 (rootNode b0 T [m.uci]) from rfl,
        hv, hchild, hce]
    · rw [show mm repGame 1 ⟨lastBoard b0 T, [m.uci], 0, histKeys b0 T⟩ = mm repGame 1 (rootNode b0 T [m.uci]) from rfl,
        hv, score_repValue_one]
      exact hout
  · have hce : childExact (b0 :: T) (lastBoard b0 T) m = mm game 0 (make (lastBoard b0 T) m, []) := by
      unfold childExact; rw [if_neg h3]
    obtain ⟨t, nodes, pv', hout⟩ := go_no_threefold H s₀ maxIter hmi hpp hmat h3
    -- the oracle without the rule has the same depth-1 value
    have hspec : specValueOnly 1 (lastBoard b0 T) [m.uci] = max lossScore (- mm game 0 (make (lastBoard b0 T) m, [])) := by
      rw [C08.specValueOnly_eq_mm, SearchSim.mm_succ]
      have hmv' : game.moves (lastBoard b0 T, [m.uci]) = [m] := hmv
      have hch : game.children (lastBoard b0 T, [m.uci]) = [(make (lastBoard b0 T) m, [])] := by
        unfold Game.children; rw [hmv']; rfl
      rw [hmv', hch]
      rfl
    -- the horizon value is strictly inside the window
    have hlo : lossScore < - mm game 0 (make (lastBoard b0 T) m, []) := by
      obtain ⟨hg, hv⟩ := List.mem_filter.mp H.legal
      have hcinv : Inv 200 (make (lastBoard b0 T) m) := boardLaws.make_inv 200 _ m hlast (Or.inl hg) hv
      have hcfm : (make (lastBoard b0 T) m).fullmove < 1000000 := by
        obtain ⟨_, hp2⟩ := line_facts T b0 (T.length + fuelFor 1) hl H.inv (by omega) T.length _ (getElem?_lastBoard T b0)
        have hcply : ply2 (make (lastBoard b0 T) m) < 65536 := by
          rw [ply2_make hlast.wf, hp2]
          have := H.nowrap
          omega
        have := ((MakeWf.wf_iff _).mp hcinv.wf).fm1
        unfold ply2 at hcply
        omega
      have := (horizon_bounds hcinv.wf hcfm).2
      have := winScore_val
      omega
    have hv : mm repGame 1 (rootNode b0 T [m.uci]) = specValueOnly 1 (lastBoard b0 T) [m.uci] := by
      rw [hroot, hce, hspec]
    refine ⟨_, bm, hrs, rfl, ?_, t, nodes, pv', ?_⟩
    · rw [show mm repGame 1 ⟨lastBoard b0 T, [m.uci], 0, histKeys b0 T⟩ = mm repGame 1 (rootNode b0 T [m.uci]) from rfl,
        hroot, hchild, hce]
      omega
    · rw [show mm repGame 1 ⟨lastBoard b0 T, [m.uci], 0, histKeys b0 T⟩ = mm repGame 1 (rootNode b0 T [m.uci]) from rfl, hv]
      exact hout

#print axioms playHistory_of_game
#print axioms playHistory_rejected
#print axioms mm_child_eq_childExact
#print axioms mm_root1
#print axioms mm_root1_eq_repValue1
#print axioms go_depth1_eq_repSpec
#print axioms go_depth1_searchmoves_eq_repSpec

/-! ## 5. non-vacuity

The king-and-queen shuffle of `C10Search.Example`: `7k/8/8/8/8/8/8/KQ6 w - - 0 1`, `Qb1-b3 Kh8-g7 Qb3-b1 Kg7-h8 Qb1-b3 Kh8-g7 Qb3-b1`;
`Kg7-h8` (`back`) reaches the root position for the third time, `Kg7-f7` (`aside`) does not.  The hypotheses `RootHyp` / `GameHyp`
are evaluated in the kernel there (`kq_root`, `kq_back`, `kq_aside`); the theorems of this file are instantiated on them.  The
specification itself (merge sort, strings) is run by the compiler (`#guard`). -/
namespace Example
open Inkayaku.C10Search.Example

/-- `go_depth1_eq_repSpec` applies to the shuffle -/
example : ∃ v bm, repSearch 1 kq shuffle [] = some (kqLast, v, bm) ∧ v = mm repGame 1 (rootNode kq kqT []) ∧
    ∃ t nodes m pv,
      (goCmd (setPosition initial kq shuffle) { depth := some 1 } 64).out =
        [.bestMove (some m) (pv[1]?), .info (some 1) t nodes (some (scoreFromValue v kqLast)) (some pv)] ∧
      m ∈ genLegal kqLast ∧ - mm repGame 0 (childNode kq kqT m) = v ∧ pv[0]? = some m :=
  go_depth1_eq_repSpec kq_root.1 kq_root.2 initial 64 (by decide) (by decide +kernel) (by decide +kernel)

/-- `go_depth1_searchmoves_eq_repSpec` applies to both kinds of root move -/
example : ∃ v bm, repSearch 1 kq shuffle [back.uci] = some (kqLast, v, bm) ∧ v = mm repGame 1 (rootNode kq kqT [back.uci]) ∧
    v = - mm repGame 0 (childNode kq kqT back) ∧
    ∃ t nodes pv',
      (goCmd (setPosition initial kq shuffle) { depth := some 1, searchMoves := [back.uci] } 64).out =
        [.bestMove (some back) (pv'[0]?), .info (some 1) t nodes (some (scoreFromValue v kqLast)) (some (back :: pv'))] :=
  go_depth1_searchmoves_eq_repSpec kq_back initial 64 (by decide) (by decide) (by decide +kernel)

example : ∃ v bm, repSearch 1 kq shuffle [aside.uci] = some (kqLast, v, bm) ∧ v = mm repGame 1 (rootNode kq kqT [aside.uci]) ∧
    v = - mm repGame 0 (childNode kq kqT aside) ∧
    ∃ t nodes pv',
      (goCmd (setPosition initial kq shuffle) { depth := some 1, searchMoves := [aside.uci] } 64).out =
        [.bestMove (some aside) (pv'[0]?), .info (some 1) t nodes (some (scoreFromValue v kqLast)) (some (aside :: pv'))] :=
  go_depth1_searchmoves_eq_repSpec kq_aside initial 64 (by decide) (by decide) (by decide +kernel)

/-- the history walk of the oracle on the shuffle (`playHistory_of_game`), hence `repSearch_eq_mm` applies -/
theorem kq_history : playHistory kq shuffle [] = some (kqLast, histKeys kq kqT) := playHistory_of_game kq_root.2

example : ∃ bm, repSearch 4 kq shuffle [] = some (kqLast, mm repGame 4 ⟨kqLast, [], 0, histKeys kq kqT⟩, bm) :=
  repSearch_eq_mm kq_history

theorem kq_line_back : IsLine ((kq :: kqT) ++ [make kqLast back]) := isLine_child kq_root.1.line kq_back.legal
theorem kq_line_aside : IsLine ((kq :: kqT) ++ [make kqLast aside]) := isLine_child kq_root.1.line kq_aside.legal

/-- `occurrences_agree` on the shuffle: three and one -/
example : RepSpec.occurrences (childNode kq kqT back) = 3 :=
  (occurrences_agree (kq :: kqT) _ kq_line_back [] 1).trans kq_back_third

example : RepSpec.occurrences (childNode kq kqT aside) = 1 :=
  (occurrences_agree (kq :: kqT) _ kq_line_aside [] 1).trans kq_aside_first

/-- the hypothesis of `rule_value` is satisfiable: the node below `Kg7-h8` is a repetition node, worth `drawScore − contempt`
at every depth; the node below `Kg7-f7` is not -/
theorem kq_back_rep : isRepetition (childNode kq kqT back) = true :=
  (isRepetition_iff_occurrences (kq :: kqT) _ kq_line_back [] 1 (by decide)).mpr (by
    rw [kq_back_third]; decide)

example (d : Nat) : mm repGame d (childNode kq kqT back) = Gen.drawScore - Gen.contempt := by
  rw [rule_value d _ kq_back_rep]; rfl

example : isRepetition (childNode kq kqT aside) = false := by
  cases h : isRepetition (childNode kq kqT aside) with
  | false => rfl
  | true =>
    have := (isRepetition_iff_occurrences (kq :: kqT) _ kq_line_aside [] 1 (by decide)).mp h
    rw [kq_aside_first] at this
    exact absurd this (by decide)

/-- the hypotheses of `rule_otherwise` / `rule_root` are satisfiable: the root of the shuffle -/
example : mm repGame 1 (rootNode kq kqT []) =
    mmFold (mm repGame 0) lossScore
      ((rootMoves kqLast []).map fun m => ({ board := make kqLast m, only := [], ply := 1, before := key kqLast :: histKeys kq kqT } : RPos)) :=
  rule_root 0 kqLast [] (histKeys kq kqT) (by decide +kernel)

/-! the same by running the specification and the search model -/

/-- `go depth d` of the search model after `position <b0> moves …` reports the value of `repSearch d` -/
def agreesRep (d : Nat) (b0 : Board) (ucis : List String) : Bool :=
  let s := goCmd (setPosition initial b0 ucis) { depth := some d }
  match repSearch d b0 ucis [] with
  | some (b, v, _) => lastInfo s.out == some (d, scoreFromValue v b)
  | none => false

-- Black, a queen down, takes the repetition: value 50 = `contempt − drawScore`, the `repValue1` of `C10Search`
#guard (repSearch 1 kq shuffle []).map (fun r => (r.2.1, r.2.2.map Move.uci)) == some (50, some "g7h8")
#guard (repSearch 1 kq shuffle []).map (fun r => r.2.1) == some (repValue1 (kq :: kqT) kqLast)
-- `searchmoves g7f7`: material decides
#guard (repSearch 1 kq shuffle ["g7f7"]).map (fun r => r.2.1) == some (-840) && RepSpec.plainValue 1 kqLast ["g7f7"] == -840
-- without the rule Black is simply lost
#guard RepSpec.plainValue 1 kqLast [] == -820
-- the two counts (`occurrences_agree`), computed
#guard RepSpec.occurrences (childNode kq kqT back) == 3 && SearchRep.occurrences (kq :: kqT) (make kqLast back) == 3
#guard (genLegal kqLast).all fun m =>
  RepSpec.occurrences (childNode kq kqT m) == SearchRep.occurrences (kq :: kqT) (make kqLast m)
-- the history walk: last board, keys newest first
#guard (playHistory kq shuffle []).map (fun r => r.2) == some (histKeys kq kqT) && (histKeys kq kqT).length == 7
-- a rejected string
#guard (repSearch 1 kq ["b1b3", "h8g7", "b3b9"] []).isNone
-- the search model reports the specification's value: depth 1 (proved: `go_depth1_eq_repSpec`) …
#guard agreesRep 1 kq shuffle && agreesRep 1 kq (shuffle.take 6) && agreesRep 1 kq []
-- … and deeper (TARGET below; here the table does not interfere)
#guard agreesRep 2 kq (shuffle.take 6) && agreesRep 2 kq (shuffle.take 5) && agreesRep 3 kq (shuffle.take 5)

/-! a position of `corpus/perpetuals.txt` (`5Q2/7k/q7/8/1r6/8/2P4K/8 w - - 0 40`, cycle `Qf8-f7+ Kh7-h8 Qf7-f8+ Kh8-h7`; depth 4 in the
corpus).  With the cycle played once and its first half again, the third occurrence of the root of the cycle is two plies below
the root: the rule decides the depth-2 value (`cp50`; without the rule `cp120`).  One ply earlier it decides the depth-3 value. -/

def perp : Board := boardOf "5Q2/7k/q7/8/1r6/8/2P4K/8 w - - 0 40"

#guard RepSpec.handleRepSearch ["5Q2/7k/q7/8/1r6/8/2P4K/8_w_-_-_0_40", "2", "f8f7", "h7h8", "f7f8", "h8h7", "f8f7", "h7h8"]
  == "cp50 cp120"
#guard RepSpec.handleRepSearch ["5Q2/7k/q7/8/1r6/8/2P4K/8_w_-_-_0_40", "3", "f8f7", "h7h8", "f7f8", "h8h7", "f8f7"] == "cp50 cp-100"
-- no repetition within two plies of the cycle played once: both values agree
#guard RepSpec.handleRepSearch ["5Q2/7k/q7/8/1r6/8/2P4K/8_w_-_-_0_40", "2", "f8f7", "h7h8", "f7f8", "h8h7"] == "cp100 cp100"
-- the search model agrees at depth 2 and 3
#guard agreesRep 2 perp ["f8f7", "h7h8", "f7f8", "h8h7", "f8f7", "h7h8"] && agreesRep 3 perp ["f8f7", "h7h8", "f7f8", "h8h7", "f8f7"]

end Example

/-
TARGET (not proved here): the end-to-end value of `go depth d` with a game history for `d ≥ 2`, now with the executable
specification as the right-hand side.

  theorem go_depth_d_eq_repSpec : … RootHyp-like hypotheses for the `d`-ply neighbourhood of the last game position …
    (goCmd (setPosition s₀ b0 ucis) { depth := some d }).out reports
      scoreFromValue (value component of RepSpec.repSearch d b0 ucis []) (lastBoard b0 T)
    i.e. the minimax value `mm repGame d (rootNode b0 T [])` of the game whose nodes below the root are worth
    `drawScore ± contempt` when `3 ≤ occurrences (game line ++ search line) position` …

Kept from `Props/C10Search.lean`: what IS proved for every depth is that the repetition test of every node of the search model is
exactly the third-occurrence test (`C10Search.node_repetition_iff`, `node_repetition`), and that its history hypothesis is an
invariant of the search (`search_never_writes_below`, `loop_never_writes_upto`, `node_hyp_inherited`); by `occurrences_agree`
above that test is `RepSpec.isRepetition` of the specification node carrying the same line, at every ply.  What is proved on the
specification side for every depth: `repSearch_value` (the oracle is the exact path-dependent minimax `mm repGame`), and the
unfolding `rule_value` / `rule_otherwise`.  What is missing for `d ≥ 2` is the transposition table: an entry stored at a node
whose subtree contained a repetition cut-off depends on the line that led to the node, so the table invariant `TTOK` of
`Props/C08Sim.lean` ("entries tell the truth about the minimax value of their position") has to be replaced by a line-dependent
one; for `d = 2` no two lines of one iteration reach the same interior position, so the statement should hold with the depth-1
proof pattern (`Proofs/SearchRepRoot.lean`) applied at ply 1 and `mm_child_eq_childExact` generalised to
`mm repGame 1 (child) = …`; for `d ≥ 3` transpositions at ply 2 make the engine's value genuinely path dependent (graph-history
interaction), `mm repGame` is what a table-free search returns, and a theorem would have to restrict to positions where the two
agree (forced lines, as the perpetual-check corpus: checked there by execution at depth 4, `#guard agreesRep …` above at 2 and 3).
-/

end Inkayaku.C10Rep
