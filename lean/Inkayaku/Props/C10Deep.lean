import Inkayaku.Proofs.SearchRepDeepHash
/-!
# C10 below the root: `go depth d`, d ≥ 2, after `position <b0> moves …` reports the value of the executable specification

"A line is valued as a draw by repetition exactly when the position it reaches has then occurred at least three times —
counting the game history supplied with the position command and the line itself, with no capture or pawn move in between —
and that value ignores material (it is the draw score up to the engine's fixed contempt offset)."

`Props/C10Search.lean` proves the repetition cut of every node and the value of `go depth 1`; `Props/C10Rep.lean` proves that
`RepSpec.repSearch` is the exact path-dependent minimax `mm repGame` and `go_depth1_eq_repSpec`.  This file closes their TARGET as
far as it is TRUE.  Helper files: `Proofs/SearchRepDeep{Inv,Node,Root,Hash}.lean`.

1. `node_value` – EVERY node of EVERY iteration depth `D`: entered at ply `k` with board `p` after the boards `Lb` (game, then search
   line) in a state whose history holds `Lb` and whose table satisfies the LINE-DEPENDENT invariant `RTTOK` (an entry tells the truth
   about `mm repGame draft` of its node ON THE LINE ON WHICH IT WAS STORED), `search_negamax` satisfies the fail-soft contract w.r.t.
   `mm repGame (D − k) (rnode Lb p k)`, restores the board and keeps the invariant.  The repetition return is taken exactly when the
   specification node is a repetition node.
2. `go_depth_eq_repSpec` – `go depth d` for EVERY `d ≥ 1` after a game: the reported score is `scoreFromValue` of the value component of
   `repSearch d b0 ucis []` and the announced move attains it — under the explicit, decidable hypotheses `RHyp b0 T d`.  Besides the
   hash hypotheses of depth 1 (non-zero hashes, no collision of a node with the positions of its line inside the window, now for all
   nodes of the `d`-ply tree) there is ONE hypothesis of a new kind, `RHashInj b0 T d`: a node at which the search stores and a node
   at which it probes that have the same hash stand at the same ply, show the same position AND HAVE THE SAME VALUES `mm repGame draft`
   for every draft the table can hold there.  Sufficient and executable (`rhashInj_of_window`, `injB`): their lines have THE SAME
   KEYS INSIDE THE WINDOW of the repetition test (the last `halfmove` positions: `mm_rep_window` – older positions are never compared
   with anything again).
3. `rhashInj_le3`, `go_depth2_eq_repSpec`, `go_depth3_eq_repSpec` (and `go_depth_le3_eq_repSpec`) – for `d ≤ 3` that hypothesis is a
   THEOREM.  `go depth 2` (resp. 3) after a game reports `scoreFromValue (mm repGame d root)` and plays a move attaining it, under
   `DeepHyp`: no hash collision in the ≤ d-ply neighbourhood (`NoCollision`), non-zero hashes, no collision of a node with its line
   inside the window, no 16-bit wrap, material ≤ 64, clock budget.  What the table can hit (checked against `Model/Search.lean`):
   iteration 1 stores the root with draft 1; iteration 2 probes it with remaining 2 (no cut, only the move hint); ply-1 nodes are
   stored with draft 1 and probed with remaining 1 – a hit needs a sibling with the same position, which has the same line; ply-2
   nodes are probed with remaining 0, so ANY entry with their hash would be used – but the ply-1 nodes have the other side to move,
   the root differs by a vacated square (`key_cross02`), and ply-2 nodes are never stored.  At depth 3 ply-2 nodes ARE stored
   (draft 1) and two lines CAN reach one ply-2 position (`Ne4xd6 e7xd6` / `Ne4xf6 e7xf6` with black pawns on d6, e7, f6) – but the
   lines differ in the key of the ply-1 position only, which the node never looks at (distance 1: other side to move) and which
   its children never match (`C08Transp.transp13`: a ply-1 position does not recur at ply 3); ply-3 nodes probe with remaining 0,
   and no stored node has their position (`sameDraft_le3`).
4. For `d ≥ 4` `RHashInj` is a genuine restriction: it fails wherever two move orders transpose inside the window or a cycle returns
   to a stored position (`Example`: the king-and-queen shuffle at depth 4).  Often the value still agrees; `Props/C10DeepGhi.lean`
   shows a game on which at depth 5 it does NOT (`ghiWitness`) while the same position without history agrees: graph-history
   interaction – a precise reason why the exactness claim of the property cannot extend to arbitrary depth.
-/
namespace Inkayaku.C10Deep
open Inkayaku.Board Inkayaku.Eval Inkayaku.WF Inkayaku.BoardCongr Inkayaku.Minimax Inkayaku.SpecSearch Inkayaku.Search
open Inkayaku.SearchSim Inkayaku.History Inkayaku.SearchRep Inkayaku.SearchRepDeep
open Inkayaku.C06 (HashKey)
open Inkayaku.RepSpec (RPos Key key repGame repSearch isRepetition)
open Inkayaku.C10Rep (rootNode childNode histKeys)

/-! ## 1. a node -/

/-- **a node of `search_negamax` in an iteration of depth `D` after a game** (any `D`).  `RNode b0 T k Lb p`: `p` is the board of a
node at ply `k` below the last position of the game `b0 :: T`, `Lb` the boards before it (oldest first); `RSOK`: table invariant
`RTTOK`, the history holds `Lb`, not stopped, no `searchmoves`; `NoIntr`: the node counter stays below the poll period, or no
message is waiting and no move time is set. -/
theorem node_value {b0 : Board} {T : List Board} {D : Nat} (H : RHyp b0 T D) (fuel : Nat) (s : St) (k : Nat) (Lb : List Board)
    (p : Board) (α β : Int) (isPv : Bool) (hash ph : UInt64) (hk : k ≤ D) (hnode : RNode b0 T k Lb p)
    (hb : vis s.board = vis p) (hinv : Inv fuel s.board) (hfuel : 66 + (D - k) ≤ fuel) (hsok : RSOK b0 T D Lb s)
    (hhash : hash = Zobrist.hash s.board) (hroot : k = 0 → genLegal s.board ≠ [])
    (hL : lossScore ≤ α) (hαβ : α < β) (hU : β ≤ -lossScore)
    (hN : NoIntr s (negamax fuel s k D α β isPv hash ph).2.negamaxNodes) :
    Ok (mm repGame (D - k) (rnode Lb p k)) (negamax fuel s k D α β isPv hash ph).1.value α β ∧
    vis (negamax fuel s k D α β isPv hash ph).2.board = vis s.board ∧
    RSOK b0 T D Lb (negamax fuel s k D α β isPv hash ph).2 :=
  let h := rnegamax_sim H fuel s k Lb p α β isPv hash ph hk hnode hb hinv hfuel hsok hhash hroot hL hαβ hU hN
  ⟨h.1, h.2.1, h.2.2.1⟩

/-- the repetition return of a node below the root is taken exactly when the specification node is a repetition node -/
theorem node_repetition_iff_spec {b0 : Board} {T : List Board} {D : Nat} (H : RHyp b0 T D) {k : Nat} {Lb : List Board} {p : Board}
    (hk1 : 1 ≤ k) (hk : k ≤ D) (hn : RNode b0 T k Lb p) {s : St} (hv : vis s.board = vis p)
    (hh : LineHist (plyClock b0) Lb s.history) :
    isRep (enter s (Zobrist.hash s.board)) k = isRepetition (rnode Lb p k) :=
  rep_iff H hk1 hk hn hv hh

#print axioms node_value
#print axioms node_repetition_iff_spec

/-! ## 2. `go depth d`, every `d`, under `RHyp` -/

/-- **`go depth d` after `position <b0> moves u1 … un` reports the value of the executable specification**, for every `d ≥ 1`.
`repSearch d b0 ucis []` succeeds on the last game position with value `v = mm repGame d (rootNode …)` (the exact minimax of the
game in which a node below the root whose position has occurred three times is worth `drawScore ± contempt`); the search model's
`info depth d` line carries `scoreFromValue v`; the announced move `m` is a legal move whose node has the exact value `−v` at
depth `d − 1`, and it heads the PV.  Hypotheses: `RHyp b0 T d` (see the header), the clock budget, a legal move, the virtual
clock stands still, no interruption (the node counter of the go stays below the poll period, or no message is waiting). -/
theorem go_depth_eq_repSpec {b0 : Board} {ucis : List String} {T : List Board} (s₀ : St) (d maxIter : Nat) (hd1 : 1 ≤ d)
    (hmi : d ≤ maxIter) (H : RHyp b0 T d) (hgame : gameBoards b0 ucis = some (b0 :: T))
    (hinv : Inv (T.length + fuelFor d) b0) (hlegal : genLegal (lastBoard b0 T) ≠ []) (hns : s₀.nsPerNode = none)
    (hN : (goCmd (setPosition s₀ b0 ucis) { depth := some d } maxIter).negamaxNodes < s₀.pollPeriod ∨ s₀.pending = []) :
    ∃ v bm, repSearch d b0 ucis [] = some (lastBoard b0 T, v, bm) ∧ v = mm repGame d (rootNode b0 T []) ∧
      ∃ (pv : List Move) (nodes : Nat) (t : Option Nat) (m : Move) (older : List Out),
        (goCmd (setPosition s₀ b0 ucis) { depth := some d } maxIter).out =
          .bestMove (some m) (pv[1]?) ::
          .info (some d) t nodes (some (scoreFromValue v (lastBoard b0 T))) (some pv) :: older ∧
        m ∈ genLegal (lastBoard b0 T) ∧ - mm repGame (d - 1) (childNode b0 T m) = v ∧ pv[0]? = some m := by
  obtain ⟨bm, hrs⟩ := C10Rep.repSearch_eq_mm (depth := d) (only := []) (C10Rep.playHistory_of_game hgame)
  obtain ⟨pv, nodes, t, m, older, h1, h2, h3, h4⟩ := rgoCmd_sim s₀ d maxIter hd1 hmi H hgame hinv hlegal hns hN
  exact ⟨_, bm, hrs, rfl, pv, nodes, t, m, older, h1, h2, h3, h4⟩

#print axioms go_depth_eq_repSpec

/-! ## 3. depth ≤ 3: no line-dependent hypothesis -/

/-- **for `D ≤ 3` the line-dependent injectivity is a theorem**: from the absence of hash collisions in the ≤ 3-ply neighbourhood
of the last game position (`NoCollision`: equal hash ⇒ equal placement, side to move, rights, e.p. file) -/
theorem rhashInj_le3 {b0 : Board} {T : List Board} {D : Nat} (hD : D ≤ 3) (h : DeepHyp b0 T D) : RHashInj b0 T D :=
  (rhyp_le3 hD h).inj

/-- `go depth d`, `d ≤ 3`, after a game -/
theorem go_depth_le3_eq_repSpec {b0 : Board} {ucis : List String} {T : List Board} (s₀ : St) (d maxIter : Nat) (hd1 : 1 ≤ d)
    (hd3 : d ≤ 3) (hmi : d ≤ maxIter) (H : DeepHyp b0 T d) (hgame : gameBoards b0 ucis = some (b0 :: T))
    (hlegal : genLegal (lastBoard b0 T) ≠ []) (hns : s₀.nsPerNode = none)
    (hN : (goCmd (setPosition s₀ b0 ucis) { depth := some d } maxIter).negamaxNodes < s₀.pollPeriod ∨ s₀.pending = []) :
    ∃ v bm, repSearch d b0 ucis [] = some (lastBoard b0 T, v, bm) ∧ v = mm repGame d (rootNode b0 T []) ∧
      ∃ (pv : List Move) (nodes : Nat) (t : Option Nat) (m : Move) (older : List Out),
        (goCmd (setPosition s₀ b0 ucis) { depth := some d } maxIter).out =
          .bestMove (some m) (pv[1]?) ::
          .info (some d) t nodes (some (scoreFromValue v (lastBoard b0 T))) (some pv) :: older ∧
        m ∈ genLegal (lastBoard b0 T) ∧ - mm repGame (d - 1) (childNode b0 T m) = v ∧ pv[0]? = some m :=
  go_depth_eq_repSpec s₀ d maxIter hd1 hmi (rhyp_le3 hd3 H) hgame H.inv hlegal hns hN

/-- **`go depth 2` after `position <b0> moves u1 … un` reports `scoreFromValue (mm repGame 2 root)` and plays a move attaining it.**
Hypotheses `DeepHyp b0 T 2`: the game is a line of legal moves, clock budget `half-move clock + n + 202 ≤ 4095`, no 16-bit wrap of
the ply counter, no hash collision among the positions within two plies of the last game position (`NoCollision`), none of them
below the root hashes to zero, no collision between such a position and the game/search-line positions inside its repetition window
(`LineColl`), material ≤ 64.  No hypothesis on the run: `go depth 2` right after `position` from a state without pending
messages is calm. -/
theorem go_depth2_eq_repSpec {b0 : Board} {ucis : List String} {T : List Board} (s₀ : St) (maxIter : Nat) (hmi : 2 ≤ maxIter)
    (H : DeepHyp b0 T 2) (hgame : gameBoards b0 ucis = some (b0 :: T)) (hlegal : genLegal (lastBoard b0 T) ≠ [])
    (hns : s₀.nsPerNode = none) (hpd : s₀.pending = []) :
    ∃ v bm, repSearch 2 b0 ucis [] = some (lastBoard b0 T, v, bm) ∧ v = mm repGame 2 (rootNode b0 T []) ∧
      ∃ (pv : List Move) (nodes : Nat) (t : Option Nat) (m : Move) (older : List Out),
        (goCmd (setPosition s₀ b0 ucis) { depth := some 2 } maxIter).out =
          .bestMove (some m) (pv[1]?) ::
          .info (some 2) t nodes (some (scoreFromValue v (lastBoard b0 T))) (some pv) :: older ∧
        m ∈ genLegal (lastBoard b0 T) ∧ - mm repGame 1 (childNode b0 T m) = v ∧ pv[0]? = some m :=
  go_depth_le3_eq_repSpec s₀ 2 maxIter (by omega) (by omega) hmi H hgame hlegal hns (Or.inr hpd)

/-- **`go depth 3` after a game**: the same with the three-ply neighbourhood -/
theorem go_depth3_eq_repSpec {b0 : Board} {ucis : List String} {T : List Board} (s₀ : St) (maxIter : Nat) (hmi : 3 ≤ maxIter)
    (H : DeepHyp b0 T 3) (hgame : gameBoards b0 ucis = some (b0 :: T)) (hlegal : genLegal (lastBoard b0 T) ≠ [])
    (hns : s₀.nsPerNode = none) (hpd : s₀.pending = []) :
    ∃ v bm, repSearch 3 b0 ucis [] = some (lastBoard b0 T, v, bm) ∧ v = mm repGame 3 (rootNode b0 T []) ∧
      ∃ (pv : List Move) (nodes : Nat) (t : Option Nat) (m : Move) (older : List Out),
        (goCmd (setPosition s₀ b0 ucis) { depth := some 3 } maxIter).out =
          .bestMove (some m) (pv[1]?) ::
          .info (some 3) t nodes (some (scoreFromValue v (lastBoard b0 T))) (some pv) :: older ∧
        m ∈ genLegal (lastBoard b0 T) ∧ - mm repGame 2 (childNode b0 T m) = v ∧ pv[0]? = some m :=
  go_depth_le3_eq_repSpec s₀ 3 maxIter (by omega) (by omega) hmi H hgame hlegal hns (Or.inr hpd)

#print axioms rhashInj_le3
#print axioms go_depth_le3_eq_repSpec
#print axioms go_depth2_eq_repSpec
#print axioms go_depth3_eq_repSpec

/-! ## non-vacuity

The king-and-queen shuffle of `C10Search.Example` (`7k/8/8/8/8/8/8/KQ6 w - - 0 1`, `Qb1-b3 Kh8-g7 Qb3-b1 Kg7-h8` once and then
`Qb1-b3 Kh8-g7 Qb3-b1`; Black to move; `Kg7-h8` completes a threefold).  `deepHypB` / `rhypB` are the executable conjunctions of
`DeepHyp` / `RHyp` (`deepHyp_of_check`, `rhyp_of_check`: soundness; the 139 nodes of the two-ply tree are enumerated, each hash is
computed once).  For depth 2 they are evaluated IN THE KERNEL and the theorem is instantiated; for depth 3 (and a position of the
perpetual-check corpus in which the rule DECIDES the value) by the compiler (`#guard`), together with the conclusion. -/
namespace Example
open Inkayaku.C10Search.Example (kq shuffle kqT kqLast boardOf tailOf lastInfo announced)
open Inkayaku.C10Rep.Example (perp agreesRep)

set_option maxRecDepth 100000 in
/-- the hypotheses of `go_depth2_eq_repSpec` hold for the shuffle (kernel evaluation) -/
theorem kq_deep2 : DeepHyp kq kqT 2 ∧ gameBoards kq shuffle = some (kq :: kqT) := deepHyp_of_check (by decide +kernel)

/-- `go depth 2` after the shuffle -/
example : ∃ v bm, repSearch 2 kq shuffle [] = some (kqLast, v, bm) ∧ v = mm repGame 2 (rootNode kq kqT []) ∧
    ∃ (pv : List Move) (nodes : Nat) (t : Option Nat) (m : Move) (older : List Out),
      (goCmd (setPosition initial kq shuffle) { depth := some 2 } 64).out =
        .bestMove (some m) (pv[1]?) :: .info (some 2) t nodes (some (scoreFromValue v kqLast)) (some pv) :: older ∧
      m ∈ genLegal kqLast ∧ - mm repGame 1 (childNode kq kqT m) = v ∧ pv[0]? = some m :=
  go_depth2_eq_repSpec initial 64 (by decide) kq_deep2.1 kq_deep2.2 (by decide +kernel) rfl rfl

/-- the derived hypothesis bundle of the general theorem, and with it `RHashInj kq kqT 2` -/
example : RHyp kq kqT 2 := rhyp_le2 (by decide) kq_deep2.1
example : RHashInj kq kqT 2 := rhashInj_le3 (by decide) kq_deep2.1

/-- hypotheses `RHyp b0 T d` hold (executable form) and `go depth d` of the search model reports the specification value and a
move attaining it -/
def agreesDeep (d : Nat) (b0 : Board) (ucis : List String) : Bool :=
  let T := tailOf b0 ucis
  let bn := lastBoard b0 T
  let s := goCmd (setPosition initial b0 ucis) { depth := some d }
  rhypB b0 ucis T d && !(genLegal bn).isEmpty &&
  match repSearch d b0 ucis [] with
  | some (b, v, _) =>
    lastInfo s.out == some (d, scoreFromValue v b) &&
    (match announced s.out with
     | some m => decide (m ∈ genLegal bn) && (- mm repGame (d - 1) (childNode b0 T m) == v)
     | none => false)
  | none => false

-- depth 2 and 3 on the shuffle and its prefixes: Black takes the repetition (`cp 50`) a queen down
#guard agreesDeep 2 kq shuffle && agreesDeep 3 kq shuffle
#guard (repSearch 2 kq shuffle []).map (fun r => (r.2.1, r.2.2.map Move.uci)) == some (50, some "g7h8")
#guard agreesDeep 2 kq (shuffle.take 6) && agreesDeep 3 kq (shuffle.take 5) && agreesDeep 2 kq []
-- the hypotheses `DeepHyp` of `go_depth2_eq_repSpec` / `go_depth3_eq_repSpec` in their own executable form
#guard deepHypB kq shuffle kqT 2 && deepHypB kq (shuffle.take 6) (tailOf kq (shuffle.take 6)) 2 && deepHypB kq shuffle kqT 3
-- `5Q2/7k/q7/8/1r6/8/2P4K/8 w - - 0 40` (corpus/perpetuals.txt): the third occurrence lies two plies below the root, the rule
-- decides the depth-2 value (`cp50`, without the rule `cp120`); one ply earlier it decides the depth-3 value (`cp50` / `cp-100`)
#guard agreesDeep 2 perp ["f8f7", "h7h8", "f7f8", "h8h7", "f8f7", "h7h8"]
#guard agreesDeep 3 perp ["f8f7", "h7h8", "f7f8", "h8h7", "f8f7"]
#guard RepSpec.handleRepSearch ["5Q2/7k/q7/8/1r6/8/2P4K/8_w_-_-_0_40", "3", "f8f7", "h7h8", "f7f8", "h8h7", "f8f7"] == "cp50 cp-100"
-- a transposition TWO plies below the root: `Ne4xd6+ e7xd6` and `Ne4xf6+ e7xf6` reach one position over lines with different keys;
-- the entry of that ply-2 node is line independent all the same (`rhashInj_le3`), the hypotheses of depth 3 hold, the values agree
def knightFork : Board := boardOf "4k3/4p3/3p1p2/8/4N3/8/8/4K3 w - - 0 1"
#guard (let A := (gameBoards knightFork ["e4d6", "e7d6"]).getD []
        let B := (gameBoards knightFork ["e4f6", "e7f6"]).getD []
        A.length == 3 && B.length == 3 && decide (vis (A.getLastD kq) = vis (B.getLastD kq)) &&
        A.dropLast.map key != B.dropLast.map key)
#guard deepHypB knightFork [] [] 3 && agreesDeep 3 knightFork [] && agreesDeep 3 knightFork ["e1d1", "e8d8", "d1e1", "d8e8"]
-- at depth 4 the hypothesis `RHashInj kq kqT 4` fails: `Kg7-f7 Qb1-b2 Kf7-e7` and `Kg7-f8 Qb1-b2 Kf8-e7` reach one position three
-- plies below the root over lines with different keys inside the window (the clock is 10: no capture, no pawn move) …
#guard (let A := (gameBoards kqLast ["g7f7", "b1b2", "f7e7"]).getD []
        let B := (gameBoards kqLast ["g7f8", "b1b2", "f8e7"]).getD []
        A.length == 4 && B.length == 4 && Zobrist.hash (A.getLastD kq) == Zobrist.hash (B.getLastD kq) &&
        decide (vis (A.getLastD kq) = vis (B.getLastD kq)) && (A.getLastD kq).halfmove == 10 &&
        A.dropLast.map key != B.dropLast.map key)
-- … although the value still agrees here (see `Props/C10DeepGhi.lean` for a game on which it does not)
#guard agreesRep 4 kq shuffle

end Example

/-
STATUS of the TARGET of `Props/C10Search.lean` / `Props/C10Rep.lean` ("the end-to-end value of `go depth d`, d ≥ 2, with a game history"):

* d = 2, d = 3: PROVED (`go_depth2_eq_repSpec`, `go_depth3_eq_repSpec`), from hash hypotheses only (`DeepHyp`: no collision, non-zero
  hashes – finite, decidable sets, evaluated above) and the guards on clocks and material.
* every d: PROVED under the additional decidable hypothesis `RHashInj b0 T d` (`go_depth_eq_repSpec`; executable sufficient form
  `injB`: a stored and a probed node with one hash stand at one ply, show one position and have the same keys inside the window).
* d ≥ 4 without that hypothesis: FALSE in general – `Props/C10DeepGhi.lean` (`ghiWitness`, `not_rhashInj`): a perpetual-check game on
  which `go depth 5` reports `cp -75` where the specification says `cp 0`, although the position without its history gives `cp -75`
  in both: the root entry of iteration 4 is used for the root position reached again at ply 4, where one more occurrence of the
  position below it has to be counted.  (At depth 4 the search model also deviates from `mm repGame` on some games, but there the
  position without history deviates as well – the draft effect `stored ≥ remaining` that limits C08 to depth 3.)
Not proved (and not provable here): the hash hypotheses themselves; they are hypotheses of every theorem that identifies positions
by a 64-bit key.
-/

end Inkayaku.C10Deep
