import Inkayaku.Props.C07
import Inkayaku.Proofs.SearchDepth1Final
/-!
# C07 (completion) — a position with a legal move is never answered with the null move

This file discharges the two hypotheses that `C07.depth1_completes_partial` still carried:

(a) `(genPseudo s.board).length < s.pollPeriod`: EVERY board (well-formed or not) has at most 41 218 pseudo-legal
    moves (`genPseudo_length_le`, a crude count of the generator loops: 64 sources × 64 targets per pass), which is
    below the engine's poll period 100 000.  The theorems below ask for `41218 < s.pollPeriod`.
(b) `HorizonBelowWin`: every depth-1 child value is `< winScore` (`horizonBelowWin_of_wf`): static evaluations are
    within ±176 000 (`SpecSearch.evaluateOngoing_bound`, every board), the repetition value is −50, the fail-hard
    quiescence search returns at most `max α 176000` (`Search.quiescence_ub`; no adequacy of the quiescence fuel is
    needed), and a mate score `lossScore + fullmove` is below `winScore = 2^24` iff `fullmove < 2^25`.

Remaining side conditions of `depth1_completes` / `go_answers_legal_move` (all about the position held):
* `Inv (fuelFor 1) s.board` resp. `Inv (goBudget maxIter) s.board`: well-formed, and the clocks leave room for the
  deepest line (`halfmove + k ≤ 4095`, `fullmove + k < 2^31`; `k = 201` resp. `maxIter + 201`);
* `s.board.fullmove < 33554431 = 2^25 - 1`.  This one is NECESSARY, not an artefact: from full-move number `2^25` on,
  a root move that mates is valued `-(lossScore + fullmove) ≤ lossScore`, never beats the initial `bestValue`, and a
  position whose only legal moves are such moves is answered with the null move.  (FEN full-move numbers of real
  games are < 10^4.)
* `41218 < s.pollPeriod` (engine: 100 000; the verification hook may lower it, then the theorem does not apply),
  `1 ≤ maxIter`, `s.out = []` (only so that the bestmove is the head of the whole output).

Nothing is left as a TARGET.
-/
namespace Inkayaku.C07
open Inkayaku.Search Inkayaku.Board Inkayaku.WF

/-- (a) the pseudo-legal move list of ANY board is shorter than the engine's poll period (no `wf` needed) -/
theorem genPseudo_length_le (b : Board) : (genPseudo b).length ≤ 41218 := GenLength.genPseudo_length_le b

theorem genPseudo_length_lt (b : Board) : (genPseudo b).length < 100000 := GenLength.genPseudo_length_lt b

/-- the form asked for by `depth1_completes_partial` (the hypothesis `wf` is not needed) -/
theorem genPseudo_length_lt_of_wf {b : Board} (_ : wf b = true) : (genPseudo b).length < 100000 :=
  GenLength.genPseudo_length_lt b

/-- (b) value range of the quiescence search the engine runs (fail-hard), for every state, window and fuel ≥ 2 -/
theorem quiescence_value_le (fuel : Nat) (s : St) (α β : Int) :
    (quiescence (fuel + 2) s α β).1.value ≤ max α 176000 := quiescence_ub fuel s α β

/-- (b) **the value-range invariant holds**: in a well-formed position with `fullmove < 2^25 - 1` every depth-1 child
search started between two polls with an empty table and window `[lossScore, β]`, `β ≤ winScore`, returns a value
`< winScore` -/
theorem horizonBelowWin_of_wf {b : Board} (hwf : wf b = true) (hfm : b.fullmove < 33554431) :
    HorizonBelowWin b (fuelFor 1 - 1) := Search.horizonBelowWin_of_wf hwf hfm

/-- the same from the search invariant -/
theorem horizonBelowWin_of_inv (s : St) (hinv : Inv (fuelFor 1) s.board) (hfm : s.board.fullmove < 33554431) :
    HorizonBelowWin s.board (fuelFor 1 - 1) := Search.horizonBelowWin_of_wf hinv.wf hfm

/-- **`depth1_completes`: a position with a legal move never gets the null move**, under ANY limit (depth, movetime,
clock times, zero increment, `go infinite` with a `stop` already waiting), because the first iteration cannot be
interrupted (no node of it polls the flags or the clock) and its result is kept -/
theorem depth1_completes (s : St) (g : GoParams) (maxIter : Nat) (hwf : Inv (fuelFor 1) s.board)
    (hfm : s.board.fullmove < 33554431) (hiter : 1 ≤ maxIter)
    (hpoll : 41218 < s.pollPeriod)                                   -- the engine polls every 100 000 nodes
    (hlegal : ∃ m, LegalRoot s.board g.searchMoves m) (h0 : s.out = []) :
    ∃ m ponder infos, (goCmd s g maxIter).out = .bestMove (some m) ponder :: infos :=
  depth1_completes_partial s g maxIter hwf hiter
    (Nat.lt_of_le_of_lt (GenLength.genPseudo_length_le s.board) hpoll) hlegal
    (Search.horizonBelowWin_of_wf hwf.wf hfm) h0

/-- the engine's own poll period -/
theorem depth1_completes_engine (s : St) (g : GoParams) (maxIter : Nat) (hwf : Inv (fuelFor 1) s.board)
    (hfm : s.board.fullmove < 33554431) (hiter : 1 ≤ maxIter) (hpoll : s.pollPeriod = 100000)
    (hlegal : ∃ m, LegalRoot s.board g.searchMoves m) (h0 : s.out = []) :
    ∃ m ponder infos, (goCmd s g maxIter).out = .bestMove (some m) ponder :: infos :=
  depth1_completes s g maxIter hwf hfm hiter (by rw [hpoll]; decide) hlegal h0

/-- **C07**: asked to search a position that has a legal move (among `searchmoves` when given), under any limits `g`,
from any state `s` (pending messages, clock, flags, table, previous PV), the engine answers with exactly one
bestmove, after infos only; it is not the null move; it is a legal move of the position held and one of
`searchmoves` when given. -/
theorem go_answers_legal_move (s : St) (g : GoParams) (maxIter : Nat) (hwf : Inv (goBudget maxIter) s.board)
    (hfm : s.board.fullmove < 33554431) (hiter : 1 ≤ maxIter) (hpoll : 41218 < s.pollPeriod)
    (hlegal : ∃ m, LegalRoot s.board g.searchMoves m) (h0 : s.out = []) :
    ∃ m ponder infos, (goCmd s g maxIter).out = .bestMove (some m) ponder :: infos ∧ bestMoves infos = [] ∧
      m ∈ genPseudo s.board ∧ isValid (make s.board m) = true ∧ (g.searchMoves ≠ [] → m.uci ∈ g.searchMoves) := by
  have hwf1 : Inv (fuelFor 1) s.board := Inv_mono (by unfold fuelFor goBudget; omega) hwf
  obtain ⟨m, ponder, infos, h⟩ := depth1_completes s g maxIter hwf1 hfm hiter hpoll hlegal h0
  obtain ⟨best, ponder', infos', h', hb⟩ := go_exactly_one_bestmove s g maxIter h0
  have heq : infos' = infos := by
    rw [h] at h'; exact (List.cons.inj h').2.symm
  subst heq
  exact ⟨m, ponder, infos', h, hb, bestmove_legal s g maxIter hwf m ponder infos' h⟩

#print axioms genPseudo_length_le
#print axioms genPseudo_length_lt
#print axioms quiescence_value_le
#print axioms horizonBelowWin_of_wf
#print axioms depth1_completes
#print axioms depth1_completes_engine
#print axioms go_answers_legal_move

/-! ## non-vacuity: the start position, near-zero limits -/

/- all hypotheses of `go_answers_legal_move` hold for the initial state, for every `g` without `searchmoves` -/
example : Inv (goBudget 8) Search.initial.board := ⟨by decide +kernel, by decide, by decide⟩
example : Search.initial.board.fullmove < 33554431 := by decide
example : 41218 < Search.initial.pollPeriod := by decide
example : Search.initial.pollPeriod = 100000 := rfl
example : Search.initial.out = [] := rfl

/-- `e2e4` is a legal root move of the start position (so `hlegal` holds for every `g` with `searchMoves = []`) -/
def startHasLegal : Bool :=
  (genPseudo Search.initial.board).any fun m => isValid (make Search.initial.board m) && m.uci == "e2e4"
#guard startHasLegal

example : ∃ m, LegalRoot Search.initial.board ({ moveTime := some 0 } : GoParams).searchMoves m := by
  have h : ((genPseudo Search.initial.board).any fun m => isValid (make Search.initial.board m)) = true := by
    decide +kernel
  obtain ⟨m, hm, hv⟩ := List.any_eq_true.mp h
  exact ⟨m, hm, hv, fun hne => absurd rfl hne⟩

/-- the theorem instantiated: `go movetime 0` from the initial state is answered by a legal move -/
example : ∃ m ponder infos, (goCmd Search.initial { moveTime := some 0 } 8).out = .bestMove (some m) ponder :: infos ∧
    bestMoves infos = [] ∧ m ∈ genPseudo Search.initial.board ∧ isValid (make Search.initial.board m) = true ∧
    (({ moveTime := some 0 } : GoParams).searchMoves ≠ [] → m.uci ∈ ({ moveTime := some 0 } : GoParams).searchMoves) := by
  refine go_answers_legal_move Search.initial { moveTime := some 0 } 8 ⟨by decide +kernel, by decide, by decide⟩
    (by decide) (by decide) (by decide) ?_ rfl
  have h : ((genPseudo Search.initial.board).any fun m => isValid (make Search.initial.board m)) = true := by
    decide +kernel
  obtain ⟨m, hm, hv⟩ := List.any_eq_true.mp h
  exact ⟨m, hm, hv, fun hne => absurd rfl hne⟩

/-- is the answer a legal move of `b`, with exactly one bestmove in the output -/
def answersLegal (b : Board) (st : St) : Bool :=
  (bestMoves st.out).length == 1 &&
  match st.out with
  | .bestMove (some m) _ :: _ => (genPseudo b).contains m && isValid (make b m)
  | _ => false

/-- `go movetime 0`: time is up before the search starts; a slow machine (1 ms per node) -/
def dMovetime0 : St := goCmd { Search.initial with nsPerNode := some 1000000 } { moveTime := some 0 } 8
#guard answersLegal Search.initial.board dMovetime0

/-- `go wtime 1 btime 1 winc 0 binc 0`: one millisecond on the clock, zero increment, slow machine -/
def dClock1 : St := goCmd { Search.initial with nsPerNode := some 1000000 }
  { wtime := some 1, btime := some 1, winc := some 0, binc := some 0 } 8
#guard answersLegal Search.initial.board dClock1

/-- `go wtime 1 btime 1` without increments -/
def dClock1NoInc : St := goCmd { Search.initial with nsPerNode := some 1000000 } { wtime := some 1, btime := some 1 } 8
#guard answersLegal Search.initial.board dClock1NoInc

/-- `go infinite` with `stop` and `quit` already waiting in the channel -/
def dStopWaiting : St := goCmd { Search.initial with pending := [.stop, .quit] } { depth := some 2 } 8
#guard answersLegal Search.initial.board dStopWaiting

/- the two discharged hypotheses, evaluated on the start position: 20 ≤ 41218 pseudo-legal moves; all 20 child
   values are far below `winScore` -/
#guard (genPseudo Search.initial.board).length ≤ 41218
#guard childValuesBelowWin Search.initial.board

/-- the quiescence bound on a position with captures (after 1. e4 d5): value within ±176000 for the full window -/
def qAfterE4D5 : Int :=
  match San.findUci Search.initial.board "e2e4" with
  | (.ok m1, b1) =>
    let b2 := make b1 m1
    match San.findUci b2 "d7d5" with
    | (.ok m2, b3) => (quiescence 199 { Search.initial with board := make b3 m2 } Eval.lossScore Gen.winScore).1.value
    | _ => Gen.winScore
  | _ => Gen.winScore
#guard qAfterE4D5 ≤ 176000 && -176000 ≤ qAfterE4D5

end Inkayaku.C07
