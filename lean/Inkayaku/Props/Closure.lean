import Inkayaku.Props.C01
import Inkayaku.Props.C02
import Inkayaku.Props.C05
import Inkayaku.Props.C13
import Inkayaku.Props.C14
import Inkayaku.Proofs.WfStepProof
/-!
# Closing the cross-property hypotheses

Several property theorems were proved relative to a named hypothesis that is itself the conclusion of another
property's theorem (they were developed in parallel).  This file instantiates them, so that the final statements
depend on `WF.wf` (and the explicit clock budget) only:

* C01 `genLegal_eq_rules`   := C01.genLegal_eq_spec  with `hsucc`  := C02.make_eq_apply
* C05 `no_moves_iff_rules`  := C05.no_moves_iff      with `hlegal` from `genLegal_eq_rules`
* C13 `findUci_ok_iff_legal_wf`, `makeAllUci_all_or_nothing_wf` := with `UciNodup` := C01.genPseudo_nodup and
       `WfStep` := Search.make_inv (the proved well-formedness step)
-/
namespace Inkayaku.Closure
open Inkayaku.Board Inkayaku.WF Inkayaku.Abs Inkayaku.San Inkayaku.Util

/-- **C01.** On every well-formed board the moves offered as legal are exactly the legal moves of the rules of chess
(as (source, target, promotion) triples; `C01.uci_agree` / `uci_injective` transfer it to UCI strings, `C01.genLegal_nodup`
excludes duplicates). -/
theorem genLegal_eq_rules {b : Board} (h : wf b = true) (sm : Spec.SMove) :
    sm ∈ (genLegal b).map (absMove ∘ Move.f) ↔ sm ∈ Spec.legalMoves (abs b) :=
  C01.genLegal_eq_spec h (fun _ hm => C02.make_eq_apply h hm) sm

theorem genLegal_isEmpty_iff {b : Board} (h : wf b = true) :
    (genLegal b).isEmpty = (Spec.legalMoves (abs b)).isEmpty := by
  have key := genLegal_eq_rules h
  cases hg : genLegal b with
  | nil =>
    cases hs : Spec.legalMoves (abs b) with
    | nil => rfl
    | cons sm rest =>
      have := (key sm).mpr (by rw [hs]; exact List.mem_cons_self)
      rw [hg] at this
      simp at this
  | cons m rest =>
    cases hs : Spec.legalMoves (abs b) with
    | nil =>
      have := (key ((absMove ∘ Move.f) m)).mp (by rw [hg]; simp)
      rw [hs] at this
      simp at this
    | cons sm rest' => rfl

/-- **C05.** no legal move ⇔ checkmate or stalemate by the rules, never both; the in-check test decides which. -/
theorem no_moves_iff_rules (b : Board) (h : wf b = true) :
    ((genLegal b).isEmpty && isCurrentInCheck b) = Spec.isCheckmate (abs b) ∧
    ((genLegal b).isEmpty && !isCurrentInCheck b) = Spec.isStalemate (abs b) ∧
    (genLegal b = [] ↔ (Spec.isCheckmate (abs b) = true ∨ Spec.isStalemate (abs b) = true)) ∧
    ¬ (Spec.isCheckmate (abs b) = true ∧ Spec.isStalemate (abs b) = true) :=
  C05.no_moves_iff b h (genLegal_isEmpty_iff h)

/-- the well-formedness step in the form the C13 theorems ask for -/
theorem wfStep : MoveText.WfStep := by
  intro k b m hinv hm hv
  have := Search.make_inv k b m ⟨hinv.1, hinv.2.1, hinv.2.2⟩ (Or.inl hm) hv
  exact ⟨this.1, this.2.1, this.2.2⟩

/-- **C13.** a move string is accepted iff (trimmed) it is the UCI text of a legal move -/
theorem findUci_ok_iff_legal_wf (b : Board) (h : wf b = true) (s : String) (m : Move) :
    (findUci b s).1 = .ok m ↔ m ∈ genLegal b ∧ m.uci = rustTrim s :=
  C13.findUci_ok_iff_legal b (C01.genPseudo_nodup h) s m

/-- **C13.** applying a list of moves is all-or-nothing (within the clock budget of the undo field) -/
theorem makeAllUci_all_or_nothing_wf (b : Board) (ss : List String) (hwf : wf b = true)
    (hclk : b.halfmove + ss.length ≤ 4095 ∧ b.fullmove + ss.length < 2147483648) :
    match (makeAllUci b ss).1 with
    | .error e => vis (makeAllUci b ss).2 = vis b ∧ MoveText.RejectedAt b ss e
    | .ok _ => ∃ ms, MoveText.Accepts b ss ms ∧ vis (makeAllUci b ss).2 = vis (C03.makeLine b ms) :=
  C13.makeAllUci_all_or_nothing wfStep b ss hwf hclk

#print axioms genLegal_eq_rules
#print axioms no_moves_iff_rules
#print axioms wfStep
#print axioms findUci_ok_iff_legal_wf
#print axioms makeAllUci_all_or_nothing_wf

end Inkayaku.Closure
