import Inkayaku.Model.Magic
import Inkayaku.Model.Board
import Inkayaku.Props.C04
import Inkayaku.Gen.Rs.Magic
import Inkayaku.Props.Translated.Basic
/-! Part of `Props/Translated`: see `Props/Translated/Basic.lean` for the overview.  One file per translated Rust source, so that a
change of one Rust function re-opens exactly the obligations (and the properties) that depend on it.

### j. `magic_hash`, `MagicConfiguration::{hash, get_attacks}` (board/src/board/precalculated/magic.rs) = `Inkayaku.Magic`

The generated functions work on `UInt64` (bit-manipulating translation mode), the model `Magic.magicIndex` / `lookup`
on `Nat` with an explicit `% 2^64`; the attack slice of a configuration is `attacksOf c` (the dump packs it into the
number `c.tbl`).  `get_unchecked` is translated as a checked access, so `rs_magic_get_attacks_eq` also shows that the
Rust access is in bounds whenever the model's index is (`C04.rook_correct` / `bishop_correct`: always).
-/
namespace Inkayaku.Translated
open Inkayaku.Rs Inkayaku.Magic Inkayaku.Gen

/-- the fields of a configuration are `u64` / shift values, as in the Rust struct -/
def CfgOk (c : MagicCfg) : Prop :=
  c.mask < 18446744073709551616 ∧ c.magic < 18446744073709551616 ∧ c.hmask < 18446744073709551616 ∧ c.hshift < 64

instance (c : MagicCfg) : Decidable (CfgOk c) := by unfold CfgOk; infer_instance

theorem rook_cfg_ok : ∀ sq, sq < 64 → CfgOk (rookCfg sq) := by decide
theorem bishop_cfg_ok : ∀ sq, sq < 64 → CfgOk (bishopCfg sq) := by decide

theorem rs_magic_hash_eq (c : MagicCfg) (h : CfgOk c) (occ : UInt64) :
    magic_hash c.mask.toUInt64 (c.hshift : Int) c.hmask.toUInt64 c.magic.toUInt64 occ =
      some ((magicIndex c occ.toNat : Nat) : Int) := by
  obtain ⟨h1, h2, h3, h4⟩ := h
  unfold magic_hash
  have hs : (0 : Int) ≤ (c.hshift : Int) ∧ (c.hshift : Int) < 64 := by omega
  simp only [u64Shr, u64OverflowingMul, hs, and_self, if_true, Option.bind_eq_bind, Option.bind_some, Option.pure_def, Int.toNat_natCast]
  have key : (((occ &&& c.mask.toUInt64) * c.magic.toUInt64) >>> UInt64.ofNat c.hshift &&& c.hmask.toUInt64).toNat
      = magicIndex c occ.toNat := by
    unfold magicIndex
    simp only [UInt64.toNat_and, UInt64.toNat_shiftRight, UInt64.toNat_mul, Nat.toUInt64, UInt64.toNat_ofNat']
    have e1 : c.mask % 2 ^ 64 = c.mask := Nat.mod_eq_of_lt h1
    have e2 : c.magic % 2 ^ 64 = c.magic := Nat.mod_eq_of_lt h2
    have e3 : c.hmask % 2 ^ 64 = c.hmask := Nat.mod_eq_of_lt h3
    have e4 : c.hshift % 2 ^ 64 % 64 = c.hshift := by omega
    simp only [e1, e2, e3, e4]
  unfold u64ToInt
  rw [key, cast_usize (by omega)]
  have : magicIndex c occ.toNat ≤ c.hmask := by unfold magicIndex; exact Nat.and_le_right
  omega

#print axioms rs_magic_hash_eq

/-- the Rust slice `attacks` of a configuration (the dump packs it into `tbl`) -/
def attacksOf (c : MagicCfg) : List UInt64 := (List.range c.len).map fun i => (entry c i).toUInt64

theorem rs_magic_cfg_hash_eq (c : MagicCfg) (h : CfgOk c) (occ : UInt64) :
    MagicConfiguration.hash c.mask.toUInt64 c.magic.toUInt64 c.hmask.toUInt64 (c.hshift : Int) occ =
      some ((magicIndex c occ.toNat : Nat) : Int) := by
  unfold MagicConfiguration.hash
  exact rs_magic_hash_eq c h occ

/-- `MagicConfiguration::get_attacks`: with the index inside the table (what C04 proves for every configuration of the
engine and EVERY occupancy) the unchecked access is defined and yields the model's `lookup` -/
theorem rs_magic_get_attacks_eq (c : MagicCfg) (h : CfgOk c) (occ : UInt64) (hi : magicIndex c occ.toNat < c.len) :
    MagicConfiguration.get_attacks c.mask.toUInt64 c.magic.toUInt64 c.hmask.toUInt64 (c.hshift : Int) (attacksOf c) occ =
      some (lookup c occ.toNat).toUInt64 := by
  unfold MagicConfiguration.get_attacks
  rw [rs_magic_cfg_hash_eq c h occ]
  simp only [Option.bind_eq_bind, Option.bind_some, vecIdx, Int.toNat_natCast, attacksOf, List.getElem?_map,
    List.getElem?_range hi, Option.map_some, lookup]

#print axioms rs_magic_get_attacks_eq

/-- the index is OUTSIDE the table exactly when the translated function is undefined (`get_unchecked` out of bounds) -/
theorem rs_magic_get_attacks_ub (c : MagicCfg) (h : CfgOk c) (occ : UInt64) (hi : ¬ magicIndex c occ.toNat < c.len) :
    MagicConfiguration.get_attacks c.mask.toUInt64 c.magic.toUInt64 c.hmask.toUInt64 (c.hshift : Int) (attacksOf c) occ = none := by
  unfold MagicConfiguration.get_attacks
  rw [rs_magic_cfg_hash_eq c h occ]
  have : (attacksOf c)[magicIndex c occ.toNat]? = none := by
    rw [List.getElem?_eq_none_iff]; simp [attacksOf]; omega
  simp only [Option.bind_eq_bind, Option.bind_some, vecIdx, Int.toNat_natCast, this]

/-- rook lookups of the engine: defined for every square and every occupancy, equal to the model's `rookAttacks`
(which C04 proves equal to the ray attacks) -/
theorem rs_rook_attacks_eq (sq : Nat) (hsq : sq < 64) (occ : UInt64) :
    MagicConfiguration.get_attacks (rookCfg sq).mask.toUInt64 (rookCfg sq).magic.toUInt64 (rookCfg sq).hmask.toUInt64
      ((rookCfg sq).hshift : Int) (attacksOf (rookCfg sq)) occ = some (Board.rookAttacks sq occ) :=
  rs_magic_get_attacks_eq _ (rook_cfg_ok sq hsq) occ (C04.rook_correct_u64 sq hsq occ).1

theorem rs_bishop_attacks_eq (sq : Nat) (hsq : sq < 64) (occ : UInt64) :
    MagicConfiguration.get_attacks (bishopCfg sq).mask.toUInt64 (bishopCfg sq).magic.toUInt64 (bishopCfg sq).hmask.toUInt64
      ((bishopCfg sq).hshift : Int) (attacksOf (bishopCfg sq)) occ = some (Board.bishopAttacks sq occ) :=
  rs_magic_get_attacks_eq _ (bishop_cfg_ok sq hsq) occ (C04.bishop_correct_u64 sq hsq occ).1

#print axioms rs_rook_attacks_eq
#print axioms rs_bishop_attacks_eq

/-! #### the 64-element arrays: `impl UnsafeMagicsExt for Magics` (`self.get_unchecked(square).get_attacks(occupancy)`) -/

/-- the Rust `MagicConfiguration` value of a dumped configuration -/
def toRsCfg (c : MagicCfg) : Rs.MagicConfiguration :=
  { mask := c.mask.toUInt64, magic := c.magic.toUInt64, hash_mask := c.hmask.toUInt64, hash_shift := (c.hshift : Int),
    attacks := attacksOf c }

/-- `ROOK_MAGICS` / `BISHOP_MAGICS` as the dump describes them -/
def rookMagics : List Rs.MagicConfiguration := (List.range 64).map fun i => toRsCfg (rookCfg i)
def bishopMagics : List Rs.MagicConfiguration := (List.range 64).map fun i => toRsCfg (bishopCfg i)

theorem magics_idx (g : Nat → MagicCfg) (sq : Nat) (hsq : sq < 64) :
    vecIdx ((List.range 64).map fun i => toRsCfg (g i)) (Rs.cast .usize (sq : Int)) = some (toRsCfg (g sq)) := by
  rw [Rs.cast_usize (by omega) (by omega)]
  simp only [vecIdx, Int.toNat_natCast, List.getElem?_map, List.getElem?_range hsq, Option.map_some]

/-- `ROOK_MAGICS.get_attacks(sq, occ)`: for every square `< 64` and every occupancy both unchecked accesses are in bounds
and the result is the model's `rookAttacks` (= the ray attacks, by C04) -/
theorem rs_rook_magics_eq (sq : Nat) (hsq : sq < 64) (occ : UInt64) :
    Magics.get_attacks rookMagics (sq : Int) occ = some (Board.rookAttacks sq occ) := by
  unfold Magics.get_attacks rookMagics
  simp only [magics_idx rookCfg sq hsq, Option.bind_eq_bind, Option.bind_some]
  exact rs_rook_attacks_eq sq hsq occ

theorem rs_bishop_magics_eq (sq : Nat) (hsq : sq < 64) (occ : UInt64) :
    Magics.get_attacks bishopMagics (sq : Int) occ = some (Board.bishopAttacks sq occ) := by
  unfold Magics.get_attacks bishopMagics
  simp only [magics_idx bishopCfg sq hsq, Option.bind_eq_bind, Option.bind_some]
  exact rs_bishop_attacks_eq sq hsq occ

/-- a square `≥ 64` indexes past the 64-element array: undefined behaviour (`none`) -/
theorem rs_rook_magics_ub (sq : Nat) (hsq : 64 ≤ sq) (hsq' : sq < 4294967296) (occ : UInt64) :
    Magics.get_attacks rookMagics (sq : Int) occ = none := by
  unfold Magics.get_attacks rookMagics
  have : vecIdx ((List.range 64).map fun i => toRsCfg (rookCfg i)) (Rs.cast .usize (sq : Int)) = none := by
    rw [Rs.cast_usize (by omega) (by omega)]
    simp only [vecIdx, Int.toNat_natCast]
    rw [List.getElem?_eq_none_iff]; simp; omega
  simp only [this, Option.bind_eq_bind, Option.bind_none]

#print axioms rs_rook_magics_eq
#print axioms rs_bishop_magics_eq

/-! non-vacuity: a concrete configuration and occupancy; a shift amount ≥ 64 is a panic -/
example : magic_hash 0x7e 52 0xfff 0x80102040008040 0x12 = some 144 := by decide
example : magic_hash 0x7e 64 0xfff 0x80102040008040 0x12 = none := by decide
example : CfgOk (rookCfg 35) := rook_cfg_ok 35 (by decide)
example : MagicConfiguration.get_attacks 1 1 1 0 [5, 7] 1 = some 7 := by decide
example : MagicConfiguration.get_attacks 1 1 1 0 [5] 1 = none := by decide
example : Magics.get_attacks [⟨1, 1, 1, 0, [5, 7]⟩, ⟨1, 1, 1, 0, [8, 9]⟩] 1 1 = some 9 := by decide
example : Magics.get_attacks [⟨1, 1, 1, 0, [5, 7]⟩] 1 1 = none := by decide

/-! axiom audit of the remaining `rs_*` theorems of this file -/
#print axioms rs_magic_cfg_hash_eq
#print axioms rs_magic_get_attacks_ub
#print axioms rs_rook_magics_ub

end Inkayaku.Translated
