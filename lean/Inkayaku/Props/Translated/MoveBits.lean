import Inkayaku.Model.Board
import Inkayaku.Proofs.MoveBits
import Inkayaku.Gen.Rs.MoveBits
import Inkayaku.Props.Translated.Basic
/-! Part of `Props/Translated`: see `Props/Translated/Basic.lean` for the overview.  One file per translated Rust source, so that a
change of one Rust function re-opens exactly the obligations (and the properties) that depend on it.

### k. the packed move word: constants of board/src/board/constants.rs, getters / setters / predicates of `impl Move` (board/src/board.rs)

* `rs_move_masks`, `rs_move_shifts`, `rs_piece_consts`: the constants REGENERATED from constants.rs (the shifts are
  `MASK.trailing_zeros()` there) equal the constants dumped from the build (`Gen.BoardConsts`) the model uses.
* `rs_move_decode_eq`: the 16 generated getters and 7 flag predicates never panic and compute the model's `decode`
  (= `Move.f`); `rs_is_attack_eq`, `rs_is_promotion_eq` for the two remaining predicates.
* `rs_move_encode_eq`: the 16 generated setters, called in the order of `Bitboard::make_move`, never panic and build the
  model's `encode`.
* `rs_move_roundtrip`: C03's `field_roundtrip` stated for the generated code.
-/

set_option linter.unusedSimpArgs false

namespace Inkayaku.Translated
open Inkayaku.Board Inkayaku.Gen Inkayaku.MoveBits

/-! #### the regenerated constants are the constants of the build (`Gen.BoardConsts`, dumped by the harness) -/

theorem rs_move_masks :
    Rs.PIECE_MOVED_MASK = pieceMovedMask.toUInt64 ∧ Rs.PIECE_ATTACKED_MASK = pieceAttackedMask.toUInt64 ∧
    Rs.SELF_LOST_KING_SIDE_CASTLE_MASK = selfLostKingMask.toUInt64 ∧ Rs.SELF_LOST_QUEEN_SIDE_CASTLE_MASK = selfLostQueenMask.toUInt64 ∧
    Rs.OPPONENT_LOST_KING_SIDE_CASTLE_MASK = oppLostKingMask.toUInt64 ∧ Rs.OPPONENT_LOST_QUEEN_SIDE_CASTLE_MASK = oppLostQueenMask.toUInt64 ∧
    Rs.CASTLE_MOVE_MASK = castleMoveMask.toUInt64 ∧ Rs.EN_PASSANT_ATTACK_MASK = enPassantAttackMask.toUInt64 ∧
    Rs.SOURCE_SQUARE_MASK = sourceSquareMask.toUInt64 ∧ Rs.TARGET_SQUARE_MASK = targetSquareMask.toUInt64 ∧
    Rs.HALFMOVE_RESET_MASK = halfmoveResetMask.toUInt64 ∧ Rs.PREVIOUS_HALFMOVE_MASK = previousHalfmoveMask.toUInt64 ∧
    Rs.PREVIOUS_EN_PASSANT_SQUARE_MASK = previousEnPassantMask.toUInt64 ∧ Rs.NEXT_EN_PASSANT_SQUARE_MASK = nextEnPassantMask.toUInt64 ∧
    Rs.PROMOTION_PIECE_MASK = promotionPieceMask.toUInt64 ∧ Rs.SIDE_TO_MOVE_MASK = sideToMoveMask.toUInt64 := by
  decide

theorem rs_move_shifts :
    Rs.PIECE_MOVED_SHIFT = (pieceMovedShift : Int) ∧ Rs.PIECE_ATTACKED_SHIFT = (pieceAttackedShift : Int) ∧
    Rs.SELF_LOST_KING_SIDE_CASTLE_SHIFT = (selfLostKingShift : Int) ∧ Rs.SELF_LOST_QUEEN_SIDE_CASTLE_SHIFT = (selfLostQueenShift : Int) ∧
    Rs.OPPONENT_LOST_KING_SIDE_CASTLE_SHIFT = (oppLostKingShift : Int) ∧ Rs.OPPONENT_LOST_QUEEN_SIDE_CASTLE_SHIFT = (oppLostQueenShift : Int) ∧
    Rs.CASTLE_MOVE_SHIFT = (castleMoveShift : Int) ∧ Rs.EN_PASSANT_ATTACK_SHIFT = (enPassantAttackShift : Int) ∧
    Rs.SOURCE_SQUARE_SHIFT = (sourceSquareShift : Int) ∧ Rs.TARGET_SQUARE_SHIFT = (targetSquareShift : Int) ∧
    Rs.HALFMOVE_RESET_SHIFT = (halfmoveResetShift : Int) ∧ Rs.PREVIOUS_HALFMOVE_SHIFT = (previousHalfmoveShift : Int) ∧
    Rs.PREVIOUS_EN_PASSANT_SQUARE_SHIFT = (previousEnPassantShift : Int) ∧ Rs.NEXT_EN_PASSANT_SQUARE_SHIFT = (nextEnPassantShift : Int) ∧
    Rs.PROMOTION_PIECE_SHIFT = (promotionPieceShift : Int) ∧ Rs.SIDE_TO_MOVE_SHIFT = (sideToMoveShift : Int) := by
  decide

theorem rs_piece_consts :
    Rs.NO_PIECE = NO_PIECE.toUInt64 ∧ Rs.PAWN = PAWN.toUInt64 ∧ Rs.KNIGHT = KNIGHT.toUInt64 ∧ Rs.BISHOP = BISHOP.toUInt64 ∧
    Rs.ROOK = ROOK.toUInt64 ∧ Rs.QUEEN = QUEEN.toUInt64 ∧ Rs.KING = KING.toUInt64 := by decide


/-! #### shifts by an in-range amount -/

theorem u64Shr_natCast (a : UInt64) (s : Nat) (h : s < 64) : Rs.u64Shr a (s : Int) = some (a >>> s.toUInt64) := by
  have : (0 : Int) ≤ (s : Int) ∧ (s : Int) < 64 := by omega
  simp only [Rs.u64Shr, this, and_self, if_true, Int.toNat_natCast, Nat.toUInt64_eq]

theorem u64Shl_natCast (a : UInt64) (s : Nat) (h : s < 64) : Rs.u64Shl a (s : Int) = some (a <<< s.toUInt64) := by
  have : (0 : Int) ≤ (s : Int) ∧ (s : Int) < 64 := by omega
  simp only [Rs.u64Shl, this, and_self, if_true, Int.toNat_natCast, Nat.toUInt64_eq]

theorem u64OfInt_natCast (n : Nat) : Rs.u64OfInt (n : Int) = n.toUInt64 := by
  unfold Rs.u64OfInt
  apply UInt64.toNat_inj.mp
  simp only [Nat.toUInt64_eq, UInt64.toNat_ofNat']
  omega

/-- a getter `(bits & MASK) >> SHIFT` of the generated code is the model's `field` -/
theorem getter64 (b M : UInt64) (S : Int) (mask shift : Nat) (hM : M = mask.toUInt64) (hS : S = (shift : Int))
    (hs : shift < 64) : Rs.u64Shr (b &&& M) S = some (field b mask shift).toUInt64 := by
  subst hM hS
  rw [u64Shr_natCast _ _ hs]
  simp only [field, Nat.toUInt64_eq, UInt64.ofNat_toNat]

/-- a getter with a final `as u32` -/
theorem getter32 (b M : UInt64) (S : Int) (mask shift w : Nat) (hM : M = mask.toUInt64) (hS : S = (shift : Int))
    (hm : mask = (2^w - 1) <<< shift) (hs : shift + w ≤ 64) (hs' : shift < 64) (hw : w ≤ 32) :
    (do pure (Rs.cast .u32 (Rs.u64ToInt (← Rs.u64Shr (b &&& M) S))) : Option Int) = some ((field b mask shift : Nat) : Int) := by
  rw [getter64 b M S mask shift hM hS hs']
  have hlt : field b mask shift < 2 ^ 32 := by
    rw [field_eq b mask shift w hm hs hs']
    exact Nat.lt_of_lt_of_le (Nat.mod_lt _ (Nat.two_pow_pos w)) (Nat.pow_le_pow_right (by decide) hw)
  have h64 : field b mask shift < 2 ^ 64 := Nat.lt_trans hlt (by decide)
  simp only [Option.bind_eq_bind, Option.bind_some, Option.pure_def, Rs.u64ToInt, Nat.toUInt64_eq, UInt64.toNat_ofNat',
    Nat.mod_eq_of_lt h64]
  rw [Rs.cast_eq_self (by simp [Rs.Ty.lo]) (by simp only [Rs.Ty.hi]; omega)]


/-! #### the getters (`(self.bits & X_MASK) >> X_SHIFT`, some with `as u32`) are the model's `field` -/

theorem rs_get_piece_moved (b : UInt64) : Rs.Move.get_piece_moved b = some (field b pieceMovedMask pieceMovedShift).toUInt64 :=
  getter64 b _ _ pieceMovedMask pieceMovedShift rs_move_masks.1 rs_move_shifts.1 (by decide)

theorem rs_get_piece_attacked (b : UInt64) : Rs.Move.get_piece_attacked b = some (field b pieceAttackedMask pieceAttackedShift).toUInt64 :=
  getter64 b _ _ pieceAttackedMask pieceAttackedShift rs_move_masks.2.1 rs_move_shifts.2.1 (by decide)

theorem rs_get_self_lost_king_side_castle (b : UInt64) : Rs.Move.get_self_lost_king_side_castle b = some (field b selfLostKingMask selfLostKingShift).toUInt64 :=
  getter64 b _ _ selfLostKingMask selfLostKingShift rs_move_masks.2.2.1 rs_move_shifts.2.2.1 (by decide)

theorem rs_get_self_lost_queen_side_castle (b : UInt64) : Rs.Move.get_self_lost_queen_side_castle b = some (field b selfLostQueenMask selfLostQueenShift).toUInt64 :=
  getter64 b _ _ selfLostQueenMask selfLostQueenShift rs_move_masks.2.2.2.1 rs_move_shifts.2.2.2.1 (by decide)

theorem rs_get_opponent_lost_king_side_castle (b : UInt64) : Rs.Move.get_opponent_lost_king_side_castle b = some (field b oppLostKingMask oppLostKingShift).toUInt64 :=
  getter64 b _ _ oppLostKingMask oppLostKingShift rs_move_masks.2.2.2.2.1 rs_move_shifts.2.2.2.2.1 (by decide)

theorem rs_get_opponent_lost_queen_side_castle (b : UInt64) : Rs.Move.get_opponent_lost_queen_side_castle b = some (field b oppLostQueenMask oppLostQueenShift).toUInt64 :=
  getter64 b _ _ oppLostQueenMask oppLostQueenShift rs_move_masks.2.2.2.2.2.1 rs_move_shifts.2.2.2.2.2.1 (by decide)

theorem rs_get_castle_move (b : UInt64) : Rs.Move.get_castle_move b = some (field b castleMoveMask castleMoveShift).toUInt64 :=
  getter64 b _ _ castleMoveMask castleMoveShift rs_move_masks.2.2.2.2.2.2.1 rs_move_shifts.2.2.2.2.2.2.1 (by decide)

theorem rs_get_en_passant_attack (b : UInt64) : Rs.Move.get_en_passant_attack b = some (field b enPassantAttackMask enPassantAttackShift).toUInt64 :=
  getter64 b _ _ enPassantAttackMask enPassantAttackShift rs_move_masks.2.2.2.2.2.2.2.1 rs_move_shifts.2.2.2.2.2.2.2.1 (by decide)

theorem rs_get_halfmove_reset (b : UInt64) : Rs.Move.get_halfmove_reset b = some (field b halfmoveResetMask halfmoveResetShift).toUInt64 :=
  getter64 b _ _ halfmoveResetMask halfmoveResetShift rs_move_masks.2.2.2.2.2.2.2.2.2.2.1 rs_move_shifts.2.2.2.2.2.2.2.2.2.2.1 (by decide)

theorem rs_get_promotion_piece (b : UInt64) : Rs.Move.get_promotion_piece b = some (field b promotionPieceMask promotionPieceShift).toUInt64 :=
  getter64 b _ _ promotionPieceMask promotionPieceShift rs_move_masks.2.2.2.2.2.2.2.2.2.2.2.2.2.2.1 rs_move_shifts.2.2.2.2.2.2.2.2.2.2.2.2.2.2.1 (by decide)

theorem rs_get_source_square (b : UInt64) : Rs.Move.get_source_square b = some ((field b sourceSquareMask sourceSquareShift : Nat) : Int) :=
  getter32 b _ _ sourceSquareMask sourceSquareShift 6 rs_move_masks.2.2.2.2.2.2.2.2.1 rs_move_shifts.2.2.2.2.2.2.2.2.1 (by decide) (by decide) (by decide) (by decide)

theorem rs_get_target_square (b : UInt64) : Rs.Move.get_target_square b = some ((field b targetSquareMask targetSquareShift : Nat) : Int) :=
  getter32 b _ _ targetSquareMask targetSquareShift 6 rs_move_masks.2.2.2.2.2.2.2.2.2.1 rs_move_shifts.2.2.2.2.2.2.2.2.2.1 (by decide) (by decide) (by decide) (by decide)

theorem rs_get_previous_halfmove (b : UInt64) : Rs.Move.get_previous_halfmove b = some ((field b previousHalfmoveMask previousHalfmoveShift : Nat) : Int) :=
  getter32 b _ _ previousHalfmoveMask previousHalfmoveShift 12 rs_move_masks.2.2.2.2.2.2.2.2.2.2.2.1 rs_move_shifts.2.2.2.2.2.2.2.2.2.2.2.1 (by decide) (by decide) (by decide) (by decide)

theorem rs_get_previous_en_passant_square (b : UInt64) : Rs.Move.get_previous_en_passant_square b = some ((field b previousEnPassantMask previousEnPassantShift : Nat) : Int) :=
  getter32 b _ _ previousEnPassantMask previousEnPassantShift 6 rs_move_masks.2.2.2.2.2.2.2.2.2.2.2.2.1 rs_move_shifts.2.2.2.2.2.2.2.2.2.2.2.2.1 (by decide) (by decide) (by decide) (by decide)

theorem rs_get_next_en_passant_square (b : UInt64) : Rs.Move.get_next_en_passant_square b = some ((field b nextEnPassantMask nextEnPassantShift : Nat) : Int) :=
  getter32 b _ _ nextEnPassantMask nextEnPassantShift 6 rs_move_masks.2.2.2.2.2.2.2.2.2.2.2.2.2.1 rs_move_shifts.2.2.2.2.2.2.2.2.2.2.2.2.2.1 (by decide) (by decide) (by decide) (by decide)

theorem rs_get_side_to_move (b : UInt64) : Rs.Move.get_side_to_move b = some ((field b sideToMoveMask sideToMoveShift : Nat) : Int) :=
  getter32 b _ _ sideToMoveMask sideToMoveShift 1 rs_move_masks.2.2.2.2.2.2.2.2.2.2.2.2.2.2.2 rs_move_shifts.2.2.2.2.2.2.2.2.2.2.2.2.2.2.2 (by decide) (by decide) (by decide) (by decide)


/-! #### the predicates (`self.get_x() != 0`, `!= NO_PIECE`) -/

theorem field_ne_zero (b : UInt64) (mask shift : Nat) :
    decide ((field b mask shift).toUInt64 ≠ (0 : UInt64)) = (field b mask shift != 0) := by
  unfold field
  generalize (b &&& mask.toUInt64) >>> shift.toUInt64 = x
  rw [Nat.toUInt64_eq, UInt64.ofNat_toNat]
  by_cases h : x = 0
  · subst h; rfl
  · have : x.toNat ≠ 0 := fun h' => h (UInt64.toNat_inj.mp h')
    simp [h, this]

theorem rs_is_self_lost_king_side_castle (b : UInt64) : Rs.Move.is_self_lost_king_side_castle b = some (field b selfLostKingMask selfLostKingShift != 0) := by
  simp only [Rs.Move.is_self_lost_king_side_castle, rs_get_self_lost_king_side_castle, Option.bind_eq_bind, Option.bind_some, Option.pure_def, field_ne_zero]

theorem rs_is_self_lost_queen_side_castle (b : UInt64) : Rs.Move.is_self_lost_queen_side_castle b = some (field b selfLostQueenMask selfLostQueenShift != 0) := by
  simp only [Rs.Move.is_self_lost_queen_side_castle, rs_get_self_lost_queen_side_castle, Option.bind_eq_bind, Option.bind_some, Option.pure_def, field_ne_zero]

theorem rs_is_opponent_lost_king_side_castle (b : UInt64) : Rs.Move.is_opponent_lost_king_side_castle b = some (field b oppLostKingMask oppLostKingShift != 0) := by
  simp only [Rs.Move.is_opponent_lost_king_side_castle, rs_get_opponent_lost_king_side_castle, Option.bind_eq_bind, Option.bind_some, Option.pure_def, field_ne_zero]

theorem rs_is_opponent_lost_queen_side_castle (b : UInt64) : Rs.Move.is_opponent_lost_queen_side_castle b = some (field b oppLostQueenMask oppLostQueenShift != 0) := by
  simp only [Rs.Move.is_opponent_lost_queen_side_castle, rs_get_opponent_lost_queen_side_castle, Option.bind_eq_bind, Option.bind_some, Option.pure_def, field_ne_zero]

theorem rs_is_en_passant_attack (b : UInt64) : Rs.Move.is_en_passant_attack b = some (field b enPassantAttackMask enPassantAttackShift != 0) := by
  simp only [Rs.Move.is_en_passant_attack, rs_get_en_passant_attack, Option.bind_eq_bind, Option.bind_some, Option.pure_def, field_ne_zero]

theorem rs_is_castle_move (b : UInt64) : Rs.Move.is_castle_move b = some (field b castleMoveMask castleMoveShift != 0) := by
  simp only [Rs.Move.is_castle_move, rs_get_castle_move, Option.bind_eq_bind, Option.bind_some, Option.pure_def, field_ne_zero]

theorem rs_is_halfmove_reset (b : UInt64) : Rs.Move.is_halfmove_reset b = some (field b halfmoveResetMask halfmoveResetShift != 0) := by
  simp only [Rs.Move.is_halfmove_reset, rs_get_halfmove_reset, Option.bind_eq_bind, Option.bind_some, Option.pure_def, field_ne_zero]

theorem rs_is_attack (b : UInt64) : Rs.Move.is_attack b = some (field b pieceAttackedMask pieceAttackedShift != 0) := by
  have h0 : Rs.NO_PIECE = (0 : UInt64) := rfl
  unfold Rs.Move.is_attack
  rw [h0]
  simp only [rs_get_piece_attacked, Option.bind_eq_bind, Option.bind_some, Option.pure_def, field_ne_zero]

theorem rs_is_promotion (b : UInt64) : Rs.Move.is_promotion b = some (field b promotionPieceMask promotionPieceShift != 0) := by
  have h0 : Rs.NO_PIECE = (0 : UInt64) := rfl
  unfold Rs.Move.is_promotion
  rw [h0]
  simp only [rs_get_promotion_piece, Option.bind_eq_bind, Option.bind_some, Option.pure_def, field_ne_zero]


/-! #### all getters together: the generated code decodes a move word exactly as the model's `decode` (= `Move.f`) -/

/-- the fields of a packed move, read with the GENERATED getters and predicates -/
def rsDecode (b : UInt64) : Option MoveF := do
  pure {
    pieceMoved := (← Rs.Move.get_piece_moved b).toNat
    pieceAttacked := (← Rs.Move.get_piece_attacked b).toNat
    selfLostKing := (← Rs.Move.is_self_lost_king_side_castle b)
    selfLostQueen := (← Rs.Move.is_self_lost_queen_side_castle b)
    oppLostKing := (← Rs.Move.is_opponent_lost_king_side_castle b)
    oppLostQueen := (← Rs.Move.is_opponent_lost_queen_side_castle b)
    castle := (← Rs.Move.is_castle_move b)
    enPassant := (← Rs.Move.is_en_passant_attack b)
    source := (← Rs.Move.get_source_square b).toNat
    target := (← Rs.Move.get_target_square b).toNat
    halfmoveReset := (← Rs.Move.is_halfmove_reset b)
    prevHalfmove := (← Rs.Move.get_previous_halfmove b).toNat
    prevEp := (← Rs.Move.get_previous_en_passant_square b).toNat
    nextEp := (← Rs.Move.get_next_en_passant_square b).toNat
    promotion := (← Rs.Move.get_promotion_piece b).toNat
    side := (← Rs.Move.get_side_to_move b).toNat }

theorem field_toUInt64_toNat (b : UInt64) (mask shift : Nat) : (field b mask shift).toUInt64.toNat = field b mask shift := by
  unfold field
  rw [Nat.toUInt64_eq, UInt64.ofNat_toNat]

/-- no getter panics (all shift amounts are < 64) and together they compute `decode` -/
theorem rs_move_decode_eq (b : UInt64) : rsDecode b = some (decode b) := by
  simp only [rsDecode, decode, rs_get_piece_moved, rs_get_piece_attacked, rs_is_self_lost_king_side_castle,
    rs_is_self_lost_queen_side_castle, rs_is_opponent_lost_king_side_castle, rs_is_opponent_lost_queen_side_castle,
    rs_is_castle_move, rs_is_en_passant_attack, rs_get_source_square, rs_get_target_square, rs_is_halfmove_reset,
    rs_get_previous_halfmove, rs_get_previous_en_passant_square, rs_get_next_en_passant_square, rs_get_promotion_piece,
    rs_get_side_to_move, Option.bind_eq_bind, Option.bind_some, Option.pure_def, field_toUInt64_toNat, Int.toNat_natCast]

#print axioms rs_move_decode_eq

theorem rs_is_attack_eq (m : Board.Move) : Rs.Move.is_attack m.bits = some m.isAttack := rs_is_attack m.bits
theorem rs_is_promotion_eq (m : Board.Move) : Rs.Move.is_promotion m.bits = some m.isPromotion := rs_is_promotion m.bits

/-! #### the setters (`self.bits |= value << X_SHIFT`, `self.bits |= X_MASK`, `self.bits |= value`): never panic -/

theorem rs_set_piece_moved (b v : UInt64) : Rs.Move.set_piece_moved b v = some (b ||| (v <<< pieceMovedShift.toUInt64)) := by
  unfold Rs.Move.set_piece_moved
  rw [rs_move_shifts.1, u64Shl_natCast _ _ (by decide)]; rfl

theorem rs_set_piece_attacked (b v : UInt64) : Rs.Move.set_piece_attacked b v = some (b ||| (v <<< pieceAttackedShift.toUInt64)) := by
  unfold Rs.Move.set_piece_attacked
  rw [rs_move_shifts.2.1, u64Shl_natCast _ _ (by decide)]; rfl

theorem rs_set_promotion_piece (b v : UInt64) : Rs.Move.set_promotion_piece b v = some (b ||| (v <<< promotionPieceShift.toUInt64)) := by
  unfold Rs.Move.set_promotion_piece
  rw [rs_move_shifts.2.2.2.2.2.2.2.2.2.2.2.2.2.2.1, u64Shl_natCast _ _ (by decide)]; rfl

theorem rs_set_source_square (b : UInt64) (v : Nat) : Rs.Move.set_source_square b (v : Int) = some (b ||| (v.toUInt64 <<< sourceSquareShift.toUInt64)) := by
  unfold Rs.Move.set_source_square
  rw [rs_move_shifts.2.2.2.2.2.2.2.2.1, u64Shl_natCast _ _ (by decide), u64OfInt_natCast]; rfl

theorem rs_set_target_square (b : UInt64) (v : Nat) : Rs.Move.set_target_square b (v : Int) = some (b ||| (v.toUInt64 <<< targetSquareShift.toUInt64)) := by
  unfold Rs.Move.set_target_square
  rw [rs_move_shifts.2.2.2.2.2.2.2.2.2.1, u64Shl_natCast _ _ (by decide), u64OfInt_natCast]; rfl

theorem rs_set_previous_halfmove (b : UInt64) (v : Nat) : Rs.Move.set_previous_halfmove b (v : Int) = some (b ||| (v.toUInt64 <<< previousHalfmoveShift.toUInt64)) := by
  unfold Rs.Move.set_previous_halfmove
  rw [rs_move_shifts.2.2.2.2.2.2.2.2.2.2.2.1, u64Shl_natCast _ _ (by decide), u64OfInt_natCast]; rfl

theorem rs_set_previous_en_passant_square (b : UInt64) (v : Nat) : Rs.Move.set_previous_en_passant_square b (v : Int) = some (b ||| (v.toUInt64 <<< previousEnPassantShift.toUInt64)) := by
  unfold Rs.Move.set_previous_en_passant_square
  rw [rs_move_shifts.2.2.2.2.2.2.2.2.2.2.2.2.1, u64Shl_natCast _ _ (by decide), u64OfInt_natCast]; rfl

theorem rs_set_next_en_passant_square (b : UInt64) (v : Nat) : Rs.Move.set_next_en_passant_square b (v : Int) = some (b ||| (v.toUInt64 <<< nextEnPassantShift.toUInt64)) := by
  unfold Rs.Move.set_next_en_passant_square
  rw [rs_move_shifts.2.2.2.2.2.2.2.2.2.2.2.2.2.1, u64Shl_natCast _ _ (by decide), u64OfInt_natCast]; rfl

theorem rs_set_side_to_move (b : UInt64) (v : Nat) : Rs.Move.set_side_to_move b (v : Int) = some (b ||| (v.toUInt64 <<< sideToMoveShift.toUInt64)) := by
  unfold Rs.Move.set_side_to_move
  rw [rs_move_shifts.2.2.2.2.2.2.2.2.2.2.2.2.2.2.2, u64Shl_natCast _ _ (by decide), u64OfInt_natCast]; rfl

theorem rs_set_self_lost_king_side_castle (b : UInt64) : Rs.Move.set_self_lost_king_side_castle b = some (b ||| selfLostKingMask.toUInt64) := by
  unfold Rs.Move.set_self_lost_king_side_castle
  rw [rs_move_masks.2.2.1]; rfl

theorem rs_set_self_lost_queen_side_castle (b : UInt64) : Rs.Move.set_self_lost_queen_side_castle b = some (b ||| selfLostQueenMask.toUInt64) := by
  unfold Rs.Move.set_self_lost_queen_side_castle
  rw [rs_move_masks.2.2.2.1]; rfl

theorem rs_set_opponent_lost_king_side_castle (b : UInt64) : Rs.Move.set_opponent_lost_king_side_castle b = some (b ||| oppLostKingMask.toUInt64) := by
  unfold Rs.Move.set_opponent_lost_king_side_castle
  rw [rs_move_masks.2.2.2.2.1]; rfl

theorem rs_set_opponent_lost_queen_side_castle (b : UInt64) : Rs.Move.set_opponent_lost_queen_side_castle b = some (b ||| oppLostQueenMask.toUInt64) := by
  unfold Rs.Move.set_opponent_lost_queen_side_castle
  rw [rs_move_masks.2.2.2.2.2.1]; rfl

theorem rs_set_halfmove_reset (b : UInt64) : Rs.Move.set_halfmove_reset b = some (b ||| halfmoveResetMask.toUInt64) := by
  unfold Rs.Move.set_halfmove_reset
  rw [rs_move_masks.2.2.2.2.2.2.2.2.2.2.1]; rfl

theorem rs_set_castle_move (b v : UInt64) : Rs.Move.set_castle_move b v = some (b ||| v) := rfl
theorem rs_set_en_passant_attack (b v : UInt64) : Rs.Move.set_en_passant_attack b v = some (b ||| v) := rfl

/-! #### all setters together: building a move word with the GENERATED setters, in the order of `Bitboard::make_move`
(board.rs; the model's `encode` mirrors that function), gives `encode` -/

/-- `make_move`'s sequence of `set_*` calls (flags: the call happens only if the flag is set) -/
def rsEncode (f : MoveF) : Option UInt64 := do
  let b : UInt64 := 0
  let b ← Rs.Move.set_en_passant_attack b (flagBits f.enPassant enPassantAttackTrueMask)
  let b ← Rs.Move.set_next_en_passant_square b (f.nextEp : Int)
  let b ← Rs.Move.set_piece_moved b f.pieceMoved.toUInt64
  let b ← Rs.Move.set_piece_attacked b f.pieceAttacked.toUInt64
  let b ← Rs.Move.set_source_square b (f.source : Int)
  let b ← Rs.Move.set_target_square b (f.target : Int)
  let b ← Rs.Move.set_castle_move b (flagBits f.castle castleMoveTrueMask)
  let b ← Rs.Move.set_previous_halfmove b (f.prevHalfmove : Int)
  let b ← Rs.Move.set_previous_en_passant_square b (f.prevEp : Int)
  let b ← Rs.Move.set_promotion_piece b f.promotion.toUInt64
  let b ← Rs.Move.set_side_to_move b (f.side : Int)
  let b ← (if f.halfmoveReset then Rs.Move.set_halfmove_reset b else pure b)
  let b ← (if f.oppLostQueen then Rs.Move.set_opponent_lost_queen_side_castle b else pure b)
  let b ← (if f.oppLostKing then Rs.Move.set_opponent_lost_king_side_castle b else pure b)
  let b ← (if f.selfLostQueen then Rs.Move.set_self_lost_queen_side_castle b else pure b)
  let b ← (if f.selfLostKing then Rs.Move.set_self_lost_king_side_castle b else pure b)
  pure b

theorem or_flag (b : UInt64) (c : Bool) (m : Nat) :
    (if c then some (b ||| m.toUInt64) else pure b : Option UInt64) = some (b ||| flagBits c m) := by
  cases c <;> simp [flagBits]

/-- EVERY field record (no range hypothesis: both sides truncate alike): the generated setters never panic and build
the model's `encode` -/
theorem rs_move_encode_eq (f : MoveF) : rsEncode f = some (encode f) := by
  simp only [rsEncode, encode, rs_set_en_passant_attack, rs_set_next_en_passant_square, rs_set_piece_moved,
    rs_set_piece_attacked, rs_set_source_square, rs_set_target_square, rs_set_castle_move, rs_set_previous_halfmove,
    rs_set_previous_en_passant_square, rs_set_promotion_piece, rs_set_side_to_move, rs_set_halfmove_reset,
    rs_set_opponent_lost_queen_side_castle, rs_set_opponent_lost_king_side_castle, rs_set_self_lost_queen_side_castle,
    rs_set_self_lost_king_side_castle, Option.bind_eq_bind, Option.bind_some, or_flag]

#print axioms rs_move_encode_eq

/-- C03's `field_roundtrip` for the GENERATED code: every generated getter returns what the generated setters stored -/
theorem rs_move_roundtrip (f : MoveF) (h : FieldsFit f) : (rsEncode f).bind rsDecode = some f := by
  rw [rs_move_encode_eq, Option.bind_some, rs_move_decode_eq, decode_encode h]

#print axioms rs_move_roundtrip

/-- folding `field b MASK SHIFT` back into the model's `decode b` (a statement about the model only; used by `ZobristXor.lean`,
`Make.lean`, `Unmake.lean` after rewriting with the getter lemmas above) -/
theorem fold_decode (b : UInt64) :
    field b pieceMovedMask pieceMovedShift = (decode b).pieceMoved ∧
    field b pieceAttackedMask pieceAttackedShift = (decode b).pieceAttacked ∧
    (field b selfLostKingMask selfLostKingShift != 0) = (decode b).selfLostKing ∧
    (field b selfLostQueenMask selfLostQueenShift != 0) = (decode b).selfLostQueen ∧
    (field b oppLostKingMask oppLostKingShift != 0) = (decode b).oppLostKing ∧
    (field b oppLostQueenMask oppLostQueenShift != 0) = (decode b).oppLostQueen ∧
    (field b castleMoveMask castleMoveShift != 0) = (decode b).castle ∧
    (field b enPassantAttackMask enPassantAttackShift != 0) = (decode b).enPassant ∧
    field b sourceSquareMask sourceSquareShift = (decode b).source ∧
    field b targetSquareMask targetSquareShift = (decode b).target ∧
    (field b halfmoveResetMask halfmoveResetShift != 0) = (decode b).halfmoveReset ∧
    field b previousHalfmoveMask previousHalfmoveShift = (decode b).prevHalfmove ∧
    field b previousEnPassantMask previousEnPassantShift = (decode b).prevEp ∧
    field b nextEnPassantMask nextEnPassantShift = (decode b).nextEp ∧
    field b promotionPieceMask promotionPieceShift = (decode b).promotion ∧
    field b sideToMoveMask sideToMoveShift = (decode b).side :=
  ⟨rfl, rfl, rfl, rfl, rfl, rfl, rfl, rfl, rfl, rfl, rfl, rfl, rfl, rfl, rfl, rfl⟩

/-! non-vacuity -/
example : rsDecode 0x1000000041043 = some (decode 0x1000000041043) := rs_move_decode_eq _
example : (decode 0x1000000041043).source = 1 ∧ (decode 0x1000000041043).pieceMoved = 3 := by decide
example : FieldsFit { pieceMoved := 6, source := 60, target := 62, castle := true, prevHalfmove := 4095, side := 1 } := by decide
example : Rs.Move.get_piece_moved 0x2b = some 3 := by decide
example : Rs.Move.set_source_square 0 63 = some 0x3f000 := by decide

#print axioms rs_move_masks
#print axioms rs_move_shifts
#print axioms rs_piece_consts

/-! axiom audit of the remaining `rs_*` theorems of this file -/
#print axioms rs_get_piece_moved
#print axioms rs_get_piece_attacked
#print axioms rs_get_self_lost_king_side_castle
#print axioms rs_get_self_lost_queen_side_castle
#print axioms rs_get_opponent_lost_king_side_castle
#print axioms rs_get_opponent_lost_queen_side_castle
#print axioms rs_get_castle_move
#print axioms rs_get_en_passant_attack
#print axioms rs_get_halfmove_reset
#print axioms rs_get_promotion_piece
#print axioms rs_get_source_square
#print axioms rs_get_target_square
#print axioms rs_get_previous_halfmove
#print axioms rs_get_previous_en_passant_square
#print axioms rs_get_next_en_passant_square
#print axioms rs_get_side_to_move
#print axioms rs_is_self_lost_king_side_castle
#print axioms rs_is_self_lost_queen_side_castle
#print axioms rs_is_opponent_lost_king_side_castle
#print axioms rs_is_opponent_lost_queen_side_castle
#print axioms rs_is_en_passant_attack
#print axioms rs_is_castle_move
#print axioms rs_is_halfmove_reset
#print axioms rs_is_attack
#print axioms rs_is_promotion
#print axioms rs_is_attack_eq
#print axioms rs_is_promotion_eq
#print axioms rs_set_piece_moved
#print axioms rs_set_piece_attacked
#print axioms rs_set_promotion_piece
#print axioms rs_set_source_square
#print axioms rs_set_target_square
#print axioms rs_set_previous_halfmove
#print axioms rs_set_previous_en_passant_square
#print axioms rs_set_next_en_passant_square
#print axioms rs_set_side_to_move
#print axioms rs_set_self_lost_king_side_castle
#print axioms rs_set_self_lost_queen_side_castle
#print axioms rs_set_opponent_lost_king_side_castle
#print axioms rs_set_opponent_lost_queen_side_castle
#print axioms rs_set_halfmove_reset
#print axioms rs_set_castle_move
#print axioms rs_set_en_passant_attack

end Inkayaku.Translated
