import Inkayaku.Model.FenBoard
import Inkayaku.Gen.Rs.FenWrite
import Inkayaku.Props.Translated.GenerateCtor
import Inkayaku.Props.Translated.FenFromStr
/-! Part of `Props/Translated` (round 4, property C12): the FEN WRITER `From<&Bitboard> for Fen` (board/src/board.rs).

Generated module `FenWrite`: `PlayerState.find_piece_struct_by_square_mask`, `Bitboard.get_colored_piece`, `square_to_string`,
`Fen.from` (two nested range loops `Fen.from.for_1` / `.for_2`: empty-run counting, piece letters; side, castling letters in `KQkq`
order, e.p. square text, clocks via `uintToString`; the final `result.parse().unwrap()` is the translated `Fen.from_str`).
The constants of `inkayaku_core::constants` (`Square::VALUES`, `Piece::VALUES`, `ColoredPiece::VALUES`) are OPAQUE: `PieceTables`
states what the opaque accessors are assumed to return (the piece letters of `ColoredPiece`).

PROVED here: `rs_get_colored_piece_eq` — the piece letter the writer pushes for a square = the model's `coloredPiece` (including the
`panic!()` arm for a square occupied by both colours); the loop invariants `rs_for_2` (files of a rank: accumulator + pending empty
run of the Rust after the loop = what the model's right-to-left `printRank` renders) and `rs_for_1` (ranks, `printRanks`); and
`rs_fen_write_eq`:
  `printFen b = some s → ∃ fn f, Rs.Fen.from (toRsSide b.white) (toRsSide b.black) b.turn b.ep b.fullmove b.halfmove <tables> dflt parse get range fuel
     = some fn ∧ fn.fen = s.toList ∧ parseChars s.toList = .ok f ∧ FenView fn f`
for `17 ≤ fuel`, `b.ep < 64`, under the mapping assumptions `RegexModel` (regex of `Fen::from_str`), `PieceTables` and `SquareTables`
(opaque constants of `inkayaku_core`).  The composition with the translated reader is `rs_fen_roundtrip` in `FenRoundtrip.lean`. -/

set_option linter.unusedSimpArgs false

namespace Inkayaku.Translated
open Inkayaku.Board Inkayaku.FenSyntax Inkayaku.FenBoard

/-- MAPPING ASSUMPTION for the opaque piece constants: `Piece::from_index(k)` is `Some` exactly for `1 ≤ k ≤ 6`, and the FEN letter
of `to_white()` / `to_black()` of that piece is the upper / lower case letter of the kind -/
structure PieceTables {P CP : Type} (fromIndex : Int → Option P) (toWhite toBlack : P → CP) (fen : CP → Char) : Prop where
  none0 : fromIndex 0 = none
  some : ∀ k : Nat, 1 ≤ k → k ≤ 6 → ∃ pc, fromIndex (k : Int) = some pc ∧ fen (toWhite pc) = pieceFenChar k true
    ∧ fen (toBlack pc) = pieceFenChar k false

theorem rs_find_piece {P : Type} (fromIndex : Int → Option P) (s : Side) (m : UInt64) :
    Rs.PlayerState.find_piece_struct_by_square_mask (toRsSide s).occupancy m fromIndex = some (fromIndex ((s.pieceAtMask m : Nat) : Int)) := by
  unfold Rs.PlayerState.find_piece_struct_by_square_mask
  rw [rs_piece_at_mask]
  simp only [Option.bind_eq_bind, Option.bind_some, Option.pure_def, Rs.u64ToInt]
  have h := pieceAtMask_le s m
  have e : (s.pieceAtMask m).toUInt64.toNat = s.pieceAtMask m := by
    simp only [Nat.toUInt64_eq, UInt64.toNat_ofNat']; omega
  rw [e, Rs.cast_usize (by omega) (by omega)]

/-- **`Bitboard::get_colored_piece` (translated) = the model's `coloredPiece`**: `none` (panic) iff both colours occupy the square,
otherwise the piece whose FEN letter is the model's -/
theorem rs_get_colored_piece_eq {S P CP : Type} (mask : S → UInt64) (fromIndex : Int → Option P) (toWhite toBlack : P → CP)
    (fen : CP → Char) (ht : PieceTables fromIndex toWhite toBlack fen) (b : Board) (q : S) (sq : Nat) (hq : mask q = bitU sq) :
    (Rs.Bitboard.get_colored_piece (toRsSide b.white) (toRsSide b.black) q mask fromIndex toWhite toBlack).map (fun o => o.map fen)
      = coloredPiece b sq := by
  unfold Rs.Bitboard.get_colored_piece coloredPiece
  rw [rs_find_piece, rs_find_piece, hq]
  simp only [Option.bind_eq_bind, Option.bind_some]
  simp only [Side.pieceAt]
  have hw := pieceAtMask_le b.white (bitU sq)
  have hb := pieceAtMask_le b.black (bitU sq)
  have z : ((0 : Nat) : Int) = 0 := rfl
  by_cases hw0 : b.white.pieceAtMask (bitU sq) = 0 <;> by_cases hb0 : b.black.pieceAtMask (bitU sq) = 0
  · simp [hw0, hb0, z, ht.none0]
  · obtain ⟨pc, h1, _, h3⟩ := ht.some _ (by omega) hb
    simp [hw0, z, ht.none0, h1, h3, hb0]
  · obtain ⟨pc, h1, h2, _⟩ := ht.some _ (by omega) hw
    simp [hb0, z, ht.none0, h1, h2, hw0]
  · obtain ⟨pw, h1, _, _⟩ := ht.some _ (by omega) hw
    obtain ⟨pb, h2, _, _⟩ := ht.some _ (by omega) hb
    simp [h1, h2, hw0, hb0]

#print axioms rs_get_colored_piece_eq

/-- non-vacuity of `PieceTables`: pieces as their kind, coloured pieces as their FEN letter -/
example : PieceTables (P := Nat) (CP := Char) (fun i => if 1 ≤ i ∧ i ≤ 6 then some i.toNat else none)
    (fun k => pieceFenChar k true) (fun k => pieceFenChar k false) id :=
  ⟨by decide, fun k h1 h6 => ⟨k, by simp [h1, h6]; omega, rfl, rfl⟩⟩

/-- MAPPING ASSUMPTION for the opaque `Square` constants: `Square::from_index(i)` is `Some` for `i < 64`, its `mask` is the
one-bit mask of the index and its `fen()` text is the model's `squareString` -/
structure SquareTables {S : Type} (fromIndex : Int → Option S) (mask : S → UInt64) (fen : S → List Char) : Prop where
  some : ∀ i : Nat, i < 64 → ∃ q, fromIndex (i : Int) = some q ∧ mask q = bitU i ∧ fen q = (squareString i).toList

theorem fromDigit10_nat (e : Nat) (h : e ≤ 9) :
    Rs.fromDigit10 (e : Int) = some (Char.ofNat (48 + e)) ∧ natToChars e = [Char.ofNat (48 + e)] := by
  have : ∀ e : Fin 10, Rs.fromDigit10 ((e.val : Nat) : Int) = some (Char.ofNat (48 + e.val)) ∧ natToChars e.val = [Char.ofNat (48 + e.val)] := by
    decide
  exact this ⟨e, by omega⟩

theorem rs_from_indices {S : Type} (fromIndex : Int → Option S) (file rank : Nat) (hf : file < 8) (hr : rank < 8) :
    Rs.Square.from_indices (file : Int) (rank : Int) fromIndex = some (fromIndex ((file + 8 * rank : Nat) : Int)) := by
  unfold Rs.Square.from_indices Rs.to_square_index_from_indices
  have h1 : ((file : Int) < 8) ∧ ((rank : Int) < 8) := by omega
  rw [if_pos h1]
  have c1 : Rs.chk .usize ((rank : Int) * 8) = some ((rank : Int) * 8) := by
    unfold Rs.chk; rw [if_pos]; simp only [Rs.Ty.lo, Rs.Ty.hi]; omega
  have c2 : Rs.chk .usize ((file : Int) + (rank : Int) * 8) = some ((file : Int) + (rank : Int) * 8) := by
    unfold Rs.chk; rw [if_pos]; simp only [Rs.Ty.lo, Rs.Ty.hi]; omega
  simp only [Option.bind_eq_bind, Option.bind_some, Option.pure_def, c1, c2]
  congr 2
  omega

theorem chk_u32_small (x : Int) (h0 : 0 ≤ x) (h1 : x ≤ 100) : Rs.chk .u32 x = some x := by
  unfold Rs.chk; rw [if_pos]; simp only [Rs.Ty.lo, Rs.Ty.hi]; omega

section loops
variable {S P CP : Type} (fromIndex : Int → Option S) (mask : S → UInt64) (sqfen : S → List Char)
  (pfromIndex : Int → Option P) (toWhite toBlack : P → CP) (fen : CP → Char)

/-- the inner loop (files of one rank): the accumulator and the pending empty-run of the Rust after the loop, against the model's
`printRank` (which renders the pending run at the end) -/
theorem rs_for_2 (hs : SquareTables fromIndex mask sqfen) (ht : PieceTables pfromIndex toWhite toBlack fen) (b : Board)
    (rank : Nat) (hr : rank < 8) :
    ∀ (n file empty : Nat) (result s : List Char) (fuel : Nat), file + n = 8 → empty ≤ file → n + 1 ≤ fuel →
      printRank b rank n file empty = some s →
      ∃ (r : List Char) (e : Nat), Rs.Fen.from.for_2 (toRsSide b.white) (toRsSide b.black) fromIndex mask pfromIndex toWhite toBlack fen
          (rank : Int) 8 fuel (file : Int) result (empty : Int) = some ((8 : Int), r, (e : Int)) ∧ e ≤ 8 ∧
        result ++ s = r ++ (if e > 0 then natToChars e else []) := by
  intro n
  induction n with
  | zero =>
    intro file empty result s fuel hfn he hfuel hp
    obtain ⟨fuel, rfl⟩ : ∃ k, fuel = k + 1 := ⟨fuel - 1, by omega⟩
    have hf : file = 8 := by omega
    subst hf
    rw [Rs.Fen.from.for_2, if_neg (by omega)]
    simp only [printRank, Option.some.injEq] at hp
    subst hp
    exact ⟨result, empty, rfl, he, rfl⟩
  | succ n ih =>
    intro file empty result s fuel hfn he hfuel hp
    obtain ⟨fuel, rfl⟩ : ∃ k, fuel = k + 1 := ⟨fuel - 1, by omega⟩
    rw [Rs.Fen.from.for_2, if_pos (by omega), rs_from_indices fromIndex file rank (by omega) hr]
    obtain ⟨q, hq1, hq2, _⟩ := hs.some (file + 8 * rank) (by omega)
    have hcp := rs_get_colored_piece_eq mask pfromIndex toWhite toBlack fen ht b q _ hq2
    rw [printRank] at hp
    simp only [Option.bind_eq_bind, Option.bind_some, hq1]
    cases hg : Rs.Bitboard.get_colored_piece (toRsSide b.white) (toRsSide b.black) q mask pfromIndex toWhite toBlack with
    | none => rw [hg] at hcp; rw [← hcp] at hp; cases hp
    | some o =>
      rw [hg] at hcp
      rw [← hcp] at hp
      cases o with
      | none =>
        simp only [Option.map_some, Option.map_none] at hp
        simp only [Option.bind_some, chk_u32_small ((empty : Int) + 1) (by omega) (by omega), Option.pure_def]
        have := ih (file + 1) (empty + 1) result s fuel (by omega) (by omega) (by omega) hp
        simpa only [Int.natCast_add, Int.natCast_one] using this
      | some pc =>
        simp only [Option.map_some] at hp
        cases hrest : printRank b rank n (file + 1) 0 with
        | none => rw [hrest] at hp; cases hp
        | some rest =>
          rw [hrest] at hp
          simp only [Option.some.injEq] at hp
          subst hp
          obtain ⟨hd1, hd2⟩ := fromDigit10_nat empty (by omega)
          by_cases he0 : empty > 0
          · have he0' : (empty : Int) > 0 := by omega
            simp only [Option.bind_some, if_pos he0', if_pos he0, hd1, hd2, Option.pure_def]
            obtain ⟨r, e, h1, h2, h3⟩ := ih (file + 1) 0 (result ++ [Char.ofNat (48 + empty)] ++ [fen pc]) rest fuel (by omega) (by omega) (by omega) hrest
            refine ⟨r, e, by simpa only [Int.natCast_add, Int.natCast_one, Int.natCast_zero] using h1, h2, ?_⟩
            rw [← h3]; simp only [List.append_assoc, List.cons_append, List.nil_append]
          · have he0' : ¬ (empty : Int) > 0 := by omega
            simp only [Option.bind_some, if_neg he0', if_neg he0, Option.pure_def]
            obtain ⟨r, e, h1, h2, h3⟩ := ih (file + 1) 0 (result ++ [fen pc]) rest fuel (by omega) (by omega) (by omega) hrest
            refine ⟨r, e, by simpa only [Int.natCast_add, Int.natCast_one, Int.natCast_zero] using h1, h2, ?_⟩
            rw [← h3]; simp only [List.append_assoc, List.cons_append, List.nil_append]

/-- the outer loop (ranks) -/
theorem rs_for_1 (hs : SquareTables fromIndex mask sqfen) (ht : PieceTables pfromIndex toWhite toBlack fen) (b : Board) :
    ∀ (n rank : Nat) (result s : List Char) (fuel : Nat), rank + n = 8 → n + 9 ≤ fuel →
      printRanks b n rank = some s →
      Rs.Fen.from.for_1 (toRsSide b.white) (toRsSide b.black) fromIndex mask pfromIndex toWhite toBlack fen 8 fuel (rank : Int) result
        = some ((8 : Int), result ++ s) := by
  intro n
  induction n with
  | zero =>
    intro rank result s fuel hrn hfuel hp
    obtain ⟨fuel, rfl⟩ : ∃ k, fuel = k + 1 := ⟨fuel - 1, by omega⟩
    have hf : rank = 8 := by omega
    subst hf
    rw [Rs.Fen.from.for_1, if_neg (by omega)]
    simp only [printRanks, Option.some.injEq] at hp
    subst hp
    simp only [List.append_nil]; rfl
  | succ n ih =>
    intro rank result s fuel hrn hfuel hp
    obtain ⟨fuel, rfl⟩ : ∃ k, fuel = k + 1 := ⟨fuel - 1, by omega⟩
    rw [printRanks] at hp
    cases h1 : printRank b rank 8 0 0 with
    | none => rw [h1] at hp; cases hp
    | some r1 =>
      cases h2 : printRanks b n (rank + 1) with
      | none => rw [h1, h2] at hp; cases hp
      | some rest =>
        rw [h1, h2] at hp
        simp only [Option.some.injEq] at hp
        subst hp
        obtain ⟨r, e, g1, g2, g3⟩ := rs_for_2 fromIndex mask sqfen pfromIndex toWhite toBlack fen hs ht b rank (by omega) 8 0 0 result r1 fuel
          (by omega) (by omega) (by omega) h1
        rw [Rs.Fen.from.for_1, if_pos (by omega)]
        simp only [Int.natCast_zero] at g1
        simp only [Option.bind_eq_bind, g1, Option.bind_some]
        obtain ⟨hd1, hd2⟩ := fromDigit10_nat e (by omega)
        have key : (if (e : Int) > 0 then (Rs.fromDigit10 (e : Int)).bind fun c => some (r ++ [c]) else some r) = some (result ++ r1) := by
          rw [g3]
          by_cases he0 : e > 0
          · have he0' : (e : Int) > 0 := by omega
            rw [if_pos he0', if_pos he0, hd1, hd2]; rfl
          · have he0' : ¬ (e : Int) > 0 := by omega
            rw [if_neg he0', if_neg he0, List.append_nil]
        simp only [Option.pure_def, key, Option.bind_some]
        have := ih (rank + 1) (result ++ r1 ++ (if rank < 7 then ['/'] else [])) rest fuel (by omega) (by omega) h2
        simp only [Int.natCast_add, Int.natCast_one] at this
        by_cases h7 : rank < 7
        · have h7' : (rank : Int) < 7 := by omega
          simp only [if_pos h7, if_pos h7', Option.bind_some] at this ⊢
          rw [this]; simp only [List.append_assoc]
        · have h7' : ¬ (rank : Int) < 7 := by omega
          simp only [if_neg h7, if_neg h7', Option.bind_some, List.append_nil] at this ⊢
          rw [this]; simp only [List.append_assoc]

end loops

theorem castle_letters (wk wq bk bq : Bool) :
    (([('K', wk), ('Q', wq), ('k', bk), ('q', bq)] : List (Char × Bool)).filter (fun t => t.2)).map (fun t => t.1)
      = (if wk then ['K'] else []) ++ (if wq then ['Q'] else []) ++ (if bk then ['k'] else []) ++ (if bq then ['q'] else []) := by
  cases wk <;> cases wq <;> cases bk <;> cases bq <;> rfl

theorem castle_rs (w bl : Side) :
    (([('K', (toRsSide w).king_side_castle), ('Q', (toRsSide w).queen_side_castle), ('k', (toRsSide bl).king_side_castle),
        ('q', (toRsSide bl).queen_side_castle)] : List (Char × Bool)).filter (fun t => t.2)).map (fun t => t.1)
      = (if w.ks then ['K'] else []) ++ (if w.qs then ['Q'] else []) ++ (if bl.ks then ['k'] else []) ++ (if bl.qs then ['q'] else []) :=
  castle_letters _ _ _ _

theorem rs_square_to_string {S : Type} (fromIndex : Int → Option S) (mask : S → UInt64) (sqfen : S → List Char)
    (hs : SquareTables fromIndex mask sqfen) (ep : Nat) (h : ep < 64) :
    Rs.square_to_string (ep : Int) fromIndex sqfen = some (squareString ep).toList := by
  unfold Rs.square_to_string
  obtain ⟨q, h1, _, h3⟩ := hs.some ep h
  rw [Rs.cast_usize (by omega) (by omega), h1]
  simp only [Option.pure_def, h3]

/-- **the FEN writer `From<&Bitboard> for Fen` (translated) = the model printer `printFen`**: whenever the model prints `s`
(i.e. no square is occupied by both colours and the text passes the grammar again), the translated writer does not panic and returns
a `Fen` value whose text is `s` (and whose fields are those the model parser reads off `s`). -/
theorem rs_fen_write_eq {S P CP C M : Type} (fromIndex : Int → Option S) (mask : S → UInt64) (sqfen : S → List Char)
    (pfromIndex : Int → Option P) (toWhite toBlack : P → CP) (fen : CP → Char)
    (parse : List Char → Except Rs.FenParseError C) (get : C → Int → Option M) (range : M → Int × Int)
    (hs : SquareTables fromIndex mask sqfen) (ht : PieceTables pfromIndex toWhite toBlack fen) (hm : RegexModel parse get range)
    (dflt : Rs.Fen) (fuel : Nat) (hfuel : 17 ≤ fuel) (b : Board) (hep : b.ep < 64) (s : String) (hp : printFen b = some s) :
    ∃ fn f, Rs.Fen.from (toRsSide b.white) (toRsSide b.black) (b.turn : Int) (b.ep : Int) (b.fullmove : Int) (b.halfmove : Int)
        fromIndex mask pfromIndex toWhite toBlack fen fromIndex sqfen dflt parse get range fuel = some fn
      ∧ fn.fen = s.toList ∧ parseChars s.toList = .ok f ∧ FenView fn f := by
  unfold printFen at hp
  cases h1 : printRanks b 8 0 with
  | none => rw [h1] at hp; cases hp
  | some placement =>
    rw [h1] at hp
    simp only [] at hp
    split at hp
    · rename_i f hf
      simp only [Option.some.injEq] at hp
      subst hp
      rw [String.toList_ofList]
      have hne : ∀ l, parseChars l = .ok f → l ≠ "startpos".toList := by
        intro l hl he
        have : parseChars "startpos".toList = .error .capture := by rfl
        rw [he, this] at hl; cases hl
      obtain ⟨r, e1, e2⟩ := rs_fen_from_str_eq parse get range hm dflt _ (hne _ hf) fuel (by omega)
      rw [hf] at e2
      obtain ⟨fn, rfl, e3, e4⟩ := e2
      refine ⟨fn, f, ?_, e3, hf, e4⟩
      unfold Rs.Fen.from
      have l1 := rs_for_1 fromIndex mask sqfen pfromIndex toWhite toBlack fen hs ht b 8 0 [] placement fuel (by omega) (by omega) h1
      simp only [Int.natCast_zero, List.nil_append] at l1
      simp only [Option.bind_eq_bind, l1, Option.bind_some, rs_is_white_turn_eq, Option.pure_def, castle_rs]
      have hturn : (if (b.turn == 0) = true then some 'w' else some 'b') = some (if b.whiteTurn then 'w' else 'b') := by
        unfold Board.whiteTurn; cases (b.turn == 0) <;> rfl
      rw [hturn]
      simp only [Option.bind_some]
      generalize ((((if b.white.ks = true then ['K'] else []) ++ if b.white.qs = true then ['Q'] else []) ++
        if b.black.ks = true then ['k'] else []) ++ if b.black.qs = true then ['q'] else []) = castle at hf e1 e3 ⊢
      have hu : ∀ n : Nat, Rs.uintToString (n : Int) = natToChars n := fun n => rfl
      have hepe : ∀ res : List Char, (if (b.ep : Int) = Rs.NO_SQUARE then some (res ++ [Char.ofNat 32] ++ ['-'])
          else (Rs.square_to_string (b.ep : Int) fromIndex sqfen).bind fun p6 => some (res ++ [Char.ofNat 32] ++ p6))
          = some (res ++ [' '] ++ (if (b.ep == 0) = true then ['-'] else (squareString b.ep).toList)) := by
        intro res
        rw [rs_square_to_string fromIndex mask sqfen hs b.ep hep]
        unfold Rs.NO_SQUARE
        by_cases h0 : b.ep = 0
        · rw [if_pos (by omega), h0]; rfl
        · rw [if_neg (by omega), if_neg (by simpa using h0)]; rfl
      have hc : ∀ res : List Char, (if castle.isEmpty = true then some (res ++ ['-']) else some (res ++ castle))
          = some (res ++ (if castle.isEmpty = true then ['-'] else castle)) := by
        intro res; split <;> rfl
      rw [hc, Option.bind_some, hepe, Option.bind_some, hu, hu]
      have ht : placement ++ [Char.ofNat 32] ++ [if b.whiteTurn = true then 'w' else 'b'] ++ [Char.ofNat 32] ++
            (if castle.isEmpty = true then ['-'] else castle) ++ [' '] ++
            (if (b.ep == 0) = true then ['-'] else (squareString b.ep).toList) ++ [Char.ofNat 32] ++ natToChars b.halfmove ++ [Char.ofNat 32] ++
            natToChars b.fullmove
          = (((placement ++ [' ', if b.whiteTurn = true then 'w' else 'b', ' '] ++ if castle.isEmpty = true then ['-'] else castle) ++
                  [' '] ++ if (b.ep == 0) = true then ['-'] else (squareString b.ep).toList) ++ [' '] ++ natToChars b.halfmove ++ [' '] ++
            natToChars b.fullmove) := by
        simp only [List.append_assoc, List.cons_append, List.nil_append]
      rw [ht, e1]; rfl
    · cases hp

#print axioms rs_for_2
#print axioms rs_for_1
#print axioms rs_fen_write_eq

/-- non-vacuity of `SquareTables`: squares as their index -/
example : SquareTables (S := Nat) (fun i => if 0 ≤ i ∧ i < 64 then some i.toNat else none) bitU (fun i => (squareString i).toList) :=
  ⟨fun i h => ⟨i, by simp; omega, rfl, rfl⟩⟩

end Inkayaku.Translated
