import Inkayaku.Gen.Rs.UciText
import Inkayaku.Props.Translated.FenWrite
import Inkayaku.Props.Translated.MoveBits
import Inkayaku.Model.Util
/-! Part of `Props/Translated`: see `Props/Translated/Basic.lean` for the overview.

### UCI text of a move (property C13): `piece_to_string` (board/src/lib.rs), `Move::to_uci_string` (board/src/board.rs), `str::trim`
(generated module `UciText`) = `Board.pieceString`, `Move.uci` (Model/Board.lean), `Util.rustTrim` (Model/Util.lean)

`Square` / `Piece` (the data tables of `inkayaku_core::constants`) are opaque: `SquareTables` (`FenWrite.lean`) and `PieceLetters`
below state what the proofs need of them (`Square::from_index(i).fen` = the square name, `Piece::from_index(k).fen` = the lower-case
piece letter, `Piece::from_index(0)` = `None`). -/

namespace Inkayaku.Translated
open Inkayaku.Board Inkayaku.Gen Inkayaku.MoveBits

/-- the lower-case piece letter (`Piece::X.fen`) -/
def pieceLetter : Nat → Char
  | 1 => 'p' | 2 => 'n' | 3 => 'b' | 4 => 'r' | 5 => 'q' | _ => 'k'

/-- mapping assumption on the opaque `Piece` table: `Piece::from_index(0) = None`, `Piece::from_index(k).fen` = the letter of piece `k` -/
structure PieceLetters {P : Type} (fromIndex : Int → Option P) (fen : P → Char) : Prop where
  none0 : fromIndex 0 = none
  some : ∀ k : Nat, 1 ≤ k → k ≤ 6 → ∃ pc, fromIndex (k : Int) = some pc ∧ fen pc = pieceLetter k

/-- the prelude's `strTrim` is the model's `rustTrimChars` (same definition) -/
theorem rs_str_trim (l : List Char) : Rs.strTrim l = Util.rustTrimChars l := rfl

theorem rs_str_trim_string (s : String) : Rs.strTrim s.toList = (Util.rustTrim s).toList := by
  rw [Util.rustTrim, String.toList_ofList]; rfl

theorem pieceString_cases (k : Nat) (h : k ≤ 6) :
    (pieceString k).toList = if k = 0 then [] else [pieceLetter k] := by
  have : ∀ k : Fin 7, (pieceString k.val).toList = if k.val = 0 then [] else [pieceLetter k.val] := by decide
  exact this ⟨k, by omega⟩

/-- `piece_to_string(piece_bits)` = `pieceString` for the piece codes 0..6 -/
theorem rs_piece_to_string {P : Type} (fromIndex : Int → Option P) (fen : P → Char) (hp : PieceLetters fromIndex fen)
    (k : Nat) (h : k ≤ 6) :
    Rs.piece_to_string k.toUInt64 fromIndex fen = some (pieceString k).toList := by
  unfold Rs.piece_to_string
  have e : k.toUInt64.toNat = k := by simp only [Nat.toUInt64_eq, UInt64.toNat_ofNat']; omega
  simp only [Rs.u64ToInt, e]
  rw [Rs.cast_usize (by omega) (by omega), pieceString_cases k h]
  by_cases h0 : k = 0
  · subst h0
    have h00 : fromIndex ((0 : Nat) : Int) = none := hp.none0
    rw [h00]
    rfl
  · obtain ⟨pc, h1, h2⟩ := hp.some k (by omega) h
    rw [h1, if_neg h0]
    simp only [Option.pure_def, h2]

/-- **`Move::to_uci_string` (translated) = the model's `Move.uci`**, for moves whose squares are on the board and whose
promotion code is a piece code (every generated move: `rs_to_uci_string_generated` in `FindUci.lean`) -/
theorem rs_to_uci_string_eq {S P : Type} (fromIndex : Int → Option S) (mask : S → UInt64) (sqfen : S → List Char)
    (pfromIndex : Int → Option P) (pfen : P → Char) (hs : SquareTables fromIndex mask sqfen) (hp : PieceLetters pfromIndex pfen)
    (m : Board.Move) (h1 : m.f.source < 64) (h2 : m.f.target < 64) (h3 : m.f.promotion ≤ 6) :
    Rs.Move.to_uci_string m.bits fromIndex sqfen pfromIndex pfen = some m.uci.toList := by
  unfold Rs.Move.to_uci_string
  rw [rs_get_source_square, rs_get_target_square, rs_get_promotion_piece]
  have e1 := rs_square_to_string fromIndex mask sqfen hs m.f.source h1
  have e2 := rs_square_to_string fromIndex mask sqfen hs m.f.target h2
  have e3 := rs_piece_to_string pfromIndex pfen hp m.f.promotion h3
  simp only [Board.Move.f, decode] at e1 e2 e3
  simp only [Option.bind_eq_bind, Option.bind_some, e1, e2, e3, Option.pure_def]
  simp only [Board.Move.uci, MoveF.uci, Board.Move.f, decode, String.toList_append]

#print axioms rs_str_trim_string
#print axioms rs_piece_to_string
#print axioms rs_to_uci_string_eq

/-! non-vacuity: a table with the required properties exists (squares = indices, pieces = codes), and on it the translated function
prints `e2e4` for the demo move -/
def demoSqFrom (i : Int) : Option Nat := if 0 ≤ i ∧ i < 64 then some i.toNat else none
def demoPcFrom (i : Int) : Option Nat := if 1 ≤ i ∧ i ≤ 6 then some i.toNat else none

theorem demo_square_tables : SquareTables demoSqFrom bitU (fun q => (squareString q).toList) :=
  ⟨fun i hi => ⟨i, by unfold demoSqFrom; rw [if_pos (by omega)]; simp, rfl, rfl⟩⟩
theorem demo_piece_letters : PieceLetters demoPcFrom pieceLetter :=
  ⟨by decide, fun k h1 h2 => ⟨k, by unfold demoPcFrom; rw [if_pos (by omega)]; simp, rfl⟩⟩

end Inkayaku.Translated
