import Inkayaku.Model.Board
import Inkayaku.Gen.Rs.Fen
import Inkayaku.Model.FenSyntax
import Inkayaku.Props.Translated.Basic
/-! Part of `Props/Translated`: see `Props/Translated/Basic.lean` for the overview.  One file per translated Rust source, so that a
change of one Rust function re-opens exactly the obligations (and the properties) that depend on it. -/

namespace Inkayaku.Translated
open Inkayaku.Rs Inkayaku.Board

/-! ### e. `Fen::validate_rank` -/

theorem int_sum_nonneg (l : List Int) (hl : ∀ x ∈ l, 0 ≤ x) : 0 ≤ l.sum := by
  induction l with
  | nil => simp
  | cons x xs ih =>
    have := hl x (by simp)
    have := ih (fun y hy => hl y (by simp [hy]))
    simp only [List.sum_cons]; omega

theorem iterSum_go (t : Ty) (l : List Int) (hl : ∀ x ∈ l, 0 ≤ x) (a : Int) (ha : t.lo ≤ a) (hs : a + l.sum ≤ t.hi) :
    l.foldl (fun acc x => acc.bind fun a => chk t (a + x)) (some a) = some (a + l.sum) := by
  induction l generalizing a with
  | nil => simp
  | cons x xs ih =>
    have hx : 0 ≤ x := hl x (by simp)
    have hxs : ∀ y ∈ xs, 0 ≤ y := fun y hy => hl y (by simp [hy])
    have hsum : 0 ≤ xs.sum := int_sum_nonneg xs hxs
    simp only [List.sum_cons] at hs
    simp only [List.foldl_cons, Option.bind_some]
    rw [chk_eq_some (by omega) (by omega), ih hxs (a + x) (by omega) (by omega)]
    simp only [List.sum_cons]; congr 1; omega

theorem isAsciiDigit_iff (c : Char) : FenSyntax.isAsciiDigit c = true ↔ 48 ≤ c.toNat ∧ c.toNat ≤ 57 := by
  simp [FenSyntax.isAsciiDigit, Char.le_def, ← Char.toNat_val, UInt32.le_iff_toNat_le]

theorem rs_isAsciiDigit_eq (c : Char) : Rs.isAsciiDigit c = FenSyntax.isAsciiDigit c := by
  by_cases h : FenSyntax.isAsciiDigit c = true
  · rw [h]; simpa [Rs.isAsciiDigit] using (isAsciiDigit_iff c).mp h
  · have h' : ¬ (48 ≤ c.toNat ∧ c.toNat ≤ 57) := fun x => h ((isAsciiDigit_iff c).mpr x)
    simp only [Bool.not_eq_true] at h
    rw [h]; simpa [Rs.isAsciiDigit] using h'


/-- the summand of `count`: `c.to_digit(10).unwrap_or(1)` -/
theorem rs_digit_or_one (c : Char) :
    (toDigit10 c).getD 1 = ((if FenSyntax.isAsciiDigit c then FenSyntax.digitVal c else 1 : Nat) : Int) := by
  by_cases h : FenSyntax.isAsciiDigit c = true
  · have h' := (isAsciiDigit_iff c).mp h
    simp only [toDigit10, h', and_self, if_true, h, Option.getD_some, FenSyntax.digitVal]; omega
  · have h' : ¬ (48 ≤ c.toNat ∧ c.toNat ≤ 57) := fun x => h ((isAsciiDigit_iff c).mpr x)
    simp [toDigit10, h', h]

theorem rs_count_eq (r : List Char) (hlen : r.length ≤ 400000000) :
    iterSum .u32 (r.map (fun c => (toDigit10 c).getD 1)) = some ((FenSyntax.rankCount r : Nat) : Int) := by
  have hmap : r.map (fun c => (toDigit10 c).getD 1) =
      r.map (fun c => ((if FenSyntax.isAsciiDigit c then FenSyntax.digitVal c else 1 : Nat) : Int)) :=
    List.map_congr_left (fun c _ => rs_digit_or_one c)
  have hsum : ∀ l : List Char, ((l.map (fun c => ((if FenSyntax.isAsciiDigit c then FenSyntax.digitVal c else 1 : Nat) : Int))).sum : Int)
      = (((l.map fun c => if FenSyntax.isAsciiDigit c then FenSyntax.digitVal c else 1).sum : Nat) : Int) := by
    intro l; induction l with
    | nil => simp
    | cons x xs ih => simp only [List.map_cons, List.sum_cons, ih]; omega
  have hbound : ∀ l : List Char, (l.map fun c => if FenSyntax.isAsciiDigit c then FenSyntax.digitVal c else 1).sum ≤ 9 * l.length := by
    intro l; induction l with
    | nil => simp
    | cons x xs ih =>
      simp only [List.map_cons, List.sum_cons, List.length_cons]
      by_cases h : FenSyntax.isAsciiDigit x = true
      · have := (isAsciiDigit_iff x).mp h
        have : FenSyntax.digitVal x ≤ 9 := by simp only [FenSyntax.digitVal]; omega
        simp only [h, if_true]; omega
      · simp only [h]; simp only [Bool.false_eq_true, if_false]; omega
  unfold iterSum
  rw [hmap, iterSum_go .u32 _ (by intro x hx; simp only [List.mem_map] at hx; obtain ⟨c, _, rfl⟩ := hx; omega) 0 (by simp [Ty.lo])
    (by rw [hsum]; have := hbound r; simp only [Ty.hi]; omega)]
  rw [hsum]; simp [FenSyntax.rankCount]

theorem rs_strLen_ascii (r : List Char) (hascii : ∀ c ∈ r, c.toNat < 128) : strLen r = (r.length : Int) := by
  unfold strLen
  congr 1
  induction r with
  | nil => rfl
  | cons x xs ih =>
    have hx : x.toNat < 128 := hascii x (by simp)
    have h1 : x.utf8Size = 1 := by
      have : x.val.toNat ≤ 127 := by have : x.val.toNat = x.toNat := Char.toNat_val; omega
      simp only [Char.utf8Size]
      have h' : x.val ≤ 127 := by rw [UInt32.le_iff_toNat_le]; exact this
      simp [h']
    simp only [List.map_cons, List.sum_cons, List.length_cons, h1, ih (fun c hc => hascii c (by simp [hc]))]; omega

/-- the result the Rust function gives for a model verdict -/
def rankResult (r : List Char) : Except Rs.FenParseError Unit :=
  match FenSyntax.validateRank r with
  | none => .ok ()
  | some .count => .error (.RankWithInvalidPieceCount r (FenSyntax.rankCount r))
  | some .concurrent => .error (.ConcurrentNumbers r)
  | some .capture => .ok ()   -- never produced by `validateRank`

theorem validate_rank_loop (r : List Char) (hne : 1 ≤ r.length) (hlen : r.length ≤ 400000000) :
    ∀ (k i : Nat), i + k = r.length - 1 →
      Fen.validate_rank.for_1 r r ((r.length : Int) - 1) (k + 1) (i : Int) =
        some (if FenSyntax.hasAdjacentDigits (r.drop i) then Ctl.ret (Except.error (FenParseError.ConcurrentNumbers r))
              else Ctl.next ((r.length : Int) - 1)) := by
  intro k
  induction k with
  | zero =>
    intro i hi
    have hi' : i = r.length - 1 := by omega
    have hd : r.drop i = [r[i]'(by omega)] := by
      rw [List.drop_eq_getElem_cons (by omega)]; congr 1; apply List.drop_of_length_le; omega
    unfold Fen.validate_rank.for_1
    have : ¬ ((i : Int) < (r.length : Int) - 1) := by omega
    simp only [this, if_false, hd, FenSyntax.hasAdjacentDigits, Option.pure_def, Bool.false_eq_true]
    congr 2; omega
  | succ k ih =>
    intro i hi
    have hlt : (i : Int) < (r.length : Int) - 1 := by omega
    have hd : r.drop i = r[i]'(by omega) :: r[i+1]'(by omega) :: r.drop (i + 2) := by
      rw [List.drop_eq_getElem_cons (by omega), List.drop_eq_getElem_cons (by omega)]
    unfold Fen.validate_rank.for_1
    have e1 : vecIdx r (i : Int) = some (r[i]'(by omega)) := by simp [vecIdx]
    have e2 : chk .usize ((i : Int) + 1) = some ((i : Int) + 1) := chk_usize (by omega) (by omega)
    have e3 : vecIdx r ((i : Int) + 1) = some (r[i+1]'(by omega)) := by
      have : ((i : Int) + 1).toNat = i + 1 := by omega
      simp [vecIdx, this]
    have hd1 : r.drop (i + 1) = r[i+1]'(by omega) :: r.drop (i + 2) := by
      rw [List.drop_eq_getElem_cons (by omega)]
    have hrec := ih (i + 1) (by omega)
    rw [hd1] at hrec
    simp only [hlt, if_true, e1, e2, e3, Option.bind_eq_bind, Option.bind_some, Option.pure_def, rs_isAsciiDigit_eq, hd,
      FenSyntax.hasAdjacentDigits]
    by_cases ha : FenSyntax.isAsciiDigit (r[i]'(by omega)) = true
    · by_cases hb : FenSyntax.isAsciiDigit (r[i+1]'(by omega)) = true
      · simp [ha, hb]
      · simp only [Bool.not_eq_true] at hb
        simp only [ha, hb, if_true, Bool.and_false, Bool.false_or, Bool.false_eq_true, if_false]
        have : ((i : Int) + 1) = ((i + 1 : Nat) : Int) := by omega
        rw [this]; exact hrec
    · simp only [Bool.not_eq_true] at ha
      simp only [ha, Bool.false_eq_true, if_false, Bool.false_and, Bool.false_or]
      have : ((i : Int) + 1) = ((i + 1 : Nat) : Int) := by omega
      rw [this]; exact hrec


/-- **`Fen::validate_rank` (translated) equals the model verdict.**  Preconditions: the rank is ASCII (guaranteed by
`FEN_REGEX`, which is matched first; for non-ASCII input the Rust loop bound `rank.len()` counts BYTES and `chars[i + 1]`
can go out of bounds, see the example below) and short enough for the `u32` sum not to overflow. -/
theorem rs_validate_rank_eq (r : List Char) (hascii : ∀ c ∈ r, c.toNat < 128) (hlen : r.length ≤ 400000000) :
    Fen.validate_rank r r.length = some (rankResult r) := by
  unfold Fen.validate_rank rankResult FenSyntax.validateRank
  rw [rs_count_eq r hlen]
  simp only [Option.bind_eq_bind, Option.bind_some, Option.pure_def]
  by_cases hc : FenSyntax.rankCount r ≠ 8
  · have hc' : ((FenSyntax.rankCount r : Nat) : Int) ≠ 8 := by omega
    simp [hc, hc']
  · have hc' : ¬ ((FenSyntax.rankCount r : Nat) : Int) ≠ 8 := by omega
    have hne : 1 ≤ r.length := by
      cases r with
      | nil => simp [FenSyntax.rankCount] at hc
      | cons x xs => simp
    rw [rs_strLen_ascii r hascii]
    simp only [hc, hc', if_false]
    rw [chk_usize (by omega) (by omega)]
    simp only [Option.bind_some]
    have hl := validate_rank_loop r hne hlen (r.length - 1) 0 (by omega)
    have e : r.length - 1 + 1 = r.length := by omega
    rw [e] at hl
    simp only [List.drop_zero] at hl
    have z : ((0 : Nat) : Int) = 0 := rfl
    rw [z] at hl
    rw [hl]
    by_cases had : FenSyntax.hasAdjacentDigits r = true
    · simp [had]
    · simp [had]

#print axioms rs_validate_rank_eq

/-- non-vacuity: accepted rank, wrong count, adjacent digits -/
example : Fen.validate_rank ['4', 'p', '3'] 3 = some (.ok ()) := by rfl
example : Fen.validate_rank ['p', 'p', 'p'] 3 = some (.error (.RankWithInvalidPieceCount ['p', 'p', 'p'] 3)) := by rfl
example : Fen.validate_rank ['4', '4'] 2 = some (.error (.ConcurrentNumbers ['4', '4'])) := by rfl
/-- outside the precondition (non-ASCII) the Rust function PANICS (`rank.len()` counts bytes; `chars[8]` is out of
bounds); unreachable in the engine because `FEN_REGEX` is matched first -/
example : Fen.validate_rank "éééééééé".toList 20 = none := by decide


/-! axiom audit of the remaining `rs_*` theorems of this file -/
#print axioms rs_isAsciiDigit_eq
#print axioms rs_digit_or_one
#print axioms rs_count_eq
#print axioms rs_strLen_ascii

end Inkayaku.Translated
