import Inkayaku.Gen.Rs.Pgn
import Inkayaku.Props.C17
/-! Part of `Props/Translated` (round 5, property C17): the BUFFER layer of the PGN reader `PgnRawParser<R: Read>` (pgn/src/reader.rs;
generated module `Pgn`, translated in MONADIC MODE: see the header of `Gen/Rs/Pgn.lean`) against the model `Buffered` of `Model/Pgn.lean`.

* `toRs : Buffered → Rs.PgnRawParser Reader`: the regenerated struct value of a model state (the reader state is the model's abstract `Reader`:
  remaining input + fragmentation schedule); `ReadModel rd`: the MAPPING ASSUMPTION for the opaque `Read::read` (`rd = readF`: writes
  `min buf.len() (sched calls) rest.length` bytes to the front of the buffer, returns `Ok(n)`; so `0` only at the end of the input).
* `Good s`: `C17.Inv` + machine bounds (`chunk_size` a `usize`, `position + remaining stream < 2^64`, so `position += 1` never overflows).
* `rs_ensure_buffer_eq`, `rs_increment_byte_eq`: `ensure_buffer` / `increment_byte` = `Buffered.ensure` / `incr` EXACTLY (no panic);
  `peek_cases`: the two outcomes of `ensure_buffer` + `current_buffer[current_byte]` + `increment_byte` in step with `Buffered.peek`.
* `Sim m p rel` / `Total m`, `sim_bind`, `sim_pure`, `good_run`: the simulation framework the other `Pgn*.lean` files use.
* evaluation lemmas of the state monad `RsM` (`run_bind`, `bind_some`, …), deliberately not `rfl`-lemmas. -/

set_option linter.unusedSimpArgs false

namespace Inkayaku.Translated
open Inkayaku.Pgn Inkayaku.C17

/-- a byte as the translation represents a `u8` -/
def byteI (b : UInt8) : Int := (b.toNat : Int)

/-- the regenerated `PgnRawParser` value of a model state (the reader state IS the model's abstract `Reader`) -/
def toRs (s : Buffered) : Rs.PgnRawParser Reader :=
  { reader := s.reader, chunk_size := (s.chunkSize : Int), eof_reached := s.eofReached, current_buffer := s.buf.map byteI,
    current_byte := (s.cur : Int), position := (s.position : Int) }

/-- MAPPING ASSUMPTION for `Read::read(&mut self.reader, &mut self.current_buffer)`: the call never fails, it writes
`n = min buf.len() (sched calls) rest.length` bytes to the front of the buffer (the rest of the buffer is unchanged) and returns `Ok(n)`,
exactly as the model's `Reader.read` -/
def readF {E : Type} (r : Reader) (buf : List Int) : Except E Int × Reader × List Int :=
  ((Except.ok (((r.read buf.length).1.length : Nat) : Int)), (r.read buf.length).2,
    (r.read buf.length).1.map byteI ++ buf.drop (r.read buf.length).1.length)

def ReadModel {E : Type} (rd : Reader → List Int → Except E Int × Reader × List Int) : Prop := ∀ r buf, rd r buf = readF r buf

/-- the states the theorems are about: the invariant of C17, machine-size bounds (`chunk_size: usize`, `position: u64` never overflows
while the rest of the stream is read) -/
structure Good (s : Buffered) : Prop where
  inv : Inv s
  chunk : s.chunkSize < 18446744073709551616
  pos : s.position + (stream s).length < 18446744073709551616

section
variable {σ α β : Type}
/-! evaluation lemmas of the state monad; deliberately NOT `rfl`-lemmas (`simp` would use those by definitional unfolding, and the kernel
then evaluates `chk` on 64-bit literals in unary) -/
theorem run_bind (m : Rs.RsM σ α) (f : α → Rs.RsM σ β) (s : σ) :
    (m >>= f) s = match m s with | none => none | some (a, s') => f a s' := by
  show Rs.RsM.bind' m f s = _
  unfold Rs.RsM.bind'
  rfl
theorem run_pure (a : α) (s : σ) : (pure a : Rs.RsM σ α) s = some (a, s) := by
  show Rs.RsM.pure' a s = _
  unfold Rs.RsM.pure'
  rfl
theorem run_get (s : σ) : (Rs.RsM.get : Rs.RsM σ σ) s = some (s, s) := by unfold Rs.RsM.get; rfl
theorem run_set (s t : σ) : (Rs.RsM.set t : Rs.RsM σ Unit) s = some ((), t) := by unfold Rs.RsM.set; rfl
theorem run_liftO (o : Option α) (s : σ) : (Rs.RsM.liftO o : Rs.RsM σ α) s = o.map (fun a => (a, s)) := by unfold Rs.RsM.liftO; rfl
theorem run_panic (s : σ) : (Rs.RsM.panic : Rs.RsM σ α) s = none := by unfold Rs.RsM.panic; rfl
theorem bind_some {m : Rs.RsM σ α} {f : α → Rs.RsM σ β} {s s' : σ} {a : α} (h : m s = some (a, s')) : (m >>= f) s = f a s' := by
  rw [run_bind, h]
theorem bind_none {m : Rs.RsM σ α} {f : α → Rs.RsM σ β} {s : σ} (h : m s = none) : (m >>= f) s = none := by
  rw [run_bind, h]
theorem omap_some {γ : Type} (f : α → γ) (a : α) : Option.map f (some a) = some (f a) := by unfold Option.map; rfl
theorem ite_true' (a b : α) : (if True then a else b) = a := if_pos trivial
theorem ite_false' (a b : α) : (if False then a else b) = b := if_neg id
theorem run_ite (c : Prop) [Decidable c] (m1 m2 : Rs.RsM σ α) (s : σ) : (if c then m1 else m2) s = if c then m1 s else m2 s := by
  split <;> rfl
end

theorem vecResize_prefix {α : Type} (a b : List α) (d : α) : Rs.vecResize (a ++ b) ((a.length : Nat) : Int) d = a := by
  unfold Rs.vecResize
  rw [if_pos (by simp)]
  simp

/-- **`ensure_buffer` (translated) = the model's `Buffered.ensure`** (refill when the buffer is used up, short reads shrink the buffer,
`Ok(0)` clears it and sets `eof_reached`): same verdict, same state; no panic on a `Good` state (`bytes_read ≤ chunk_size`) -/
theorem rs_ensure_buffer_eq {E : Type} (rd : Reader → List Int → Except E Int × Reader × List Int) (hrd : ReadModel rd)
    (s : Buffered) (hg : Good s) :
    Rs.PgnRawParser.ensure_buffer rd (toRs s) = some (s.ensure.1, toRs s.ensure.2) := by
  unfold Rs.PgnRawParser.ensure_buffer
  simp only [run_bind, run_get, run_ite]
  have hlen : Rs.vecLen (toRs s).current_buffer = (s.buf.length : Int) := by simp [Rs.vecLen, toRs]
  have hcb : (toRs s).current_byte = (s.cur : Int) := rfl
  rw [hlen, hcb]
  unfold Buffered.ensure
  by_cases hc : s.cur ≥ s.buf.length
  · have hc' : decide ((s.cur : Int) ≥ (s.buf.length : Int)) = true := by simp; omega
    rw [if_pos hc', if_pos hc]
    simp only [run_set, hrd _ _, readF]
    simp only [run_bind, run_get, run_ite, run_set, run_pure, run_panic, run_liftO]
    have hbl : (toRs s).current_buffer.length = s.buf.length := by simp [toRs]
    rw [hbl]
    simp only [show (toRs s).reader = s.reader from rfl, show (toRs s).chunk_size = (s.chunkSize : Int) from rfl,
      show (toRs s).current_buffer = s.buf.map byteI from rfl, show (toRs s).position = (s.position : Int) from rfl,
      show (toRs s).eof_reached = s.eofReached from rfl]
    obtain ⟨h1, h2, h3, h4⟩ := read_spec s.reader s.buf.length hg.inv.sched_pos
    generalize s.reader.read s.buf.length = p at h1 h2 h3 h4 ⊢
    obtain ⟨data, rdr⟩ := p
    simp only at h1 h2 h3 h4 ⊢
    have hl := hg.inv.len_le
    by_cases h0 : data.length = 0
    · have h0' : (((data.length : Nat) : Int) == 0) = true := by simp [h0]
      rw [if_pos h0', if_pos h0]; rfl
    · have h0' : ¬ (((data.length : Nat) : Int) == 0) = true := by simpa using h0
      rw [if_neg h0', if_neg h0]
      by_cases hlt : data.length < s.chunkSize
      · have hlt' : decide (((data.length : Nat) : Int) < (s.chunkSize : Int)) = true := by simp; omega
        rw [if_pos hlt', if_pos hlt]
        have := vecResize_prefix (data.map byteI) (List.drop data.length (s.buf.map byteI)) 0
        rw [List.length_map] at this
        rw [this]
        simp only [toRs, List.map_take, List.map_append, List.map_drop, List.take_left']
        simp
      · have hlt' : ¬ decide (((data.length : Nat) : Int) < (s.chunkSize : Int)) = true := by simp; omega
        have hgt' : ¬ decide (((data.length : Nat) : Int) > (s.chunkSize : Int)) = true := by simp; omega
        rw [if_neg hlt', if_neg hlt, if_neg hgt']
        simp only [toRs, List.map_append, List.map_drop]
        rfl
  · have hc' : ¬ decide ((s.cur : Int) ≥ (s.buf.length : Int)) = true := by simp; omega
    rw [if_neg hc', if_neg hc]
    rfl

theorem ensure_fields (s : Buffered) : s.ensure.2.chunkSize = s.chunkSize ∧ s.ensure.2.position = s.position := by
  unfold Buffered.ensure
  split
  · simp only []
    split
    · exact ⟨rfl, rfl⟩
    · split <;> exact ⟨rfl, rfl⟩
  · exact ⟨rfl, rfl⟩

theorem good_ensure (s : Buffered) (hg : Good s) : Good s.ensure.2 := by
  obtain ⟨h1, h2, _, _⟩ := ensure_spec s hg.inv
  obtain ⟨h3, h4⟩ := ensure_fields s
  exact ⟨h1, by rw [h3]; exact hg.chunk, by rw [h2, h4]; exact hg.pos⟩

theorem good_incr (s : Buffered) (hg : Good s) (hlt : s.cur < s.buf.length) : Good s.incr := by
  obtain ⟨h1, h2⟩ := incr_spec s hg.inv hlt
  refine ⟨h1, hg.chunk, ?_⟩
  have hp := hg.pos
  have hne : 1 ≤ (stream s).length := by
    simp only [stream, List.length_append, List.length_drop]; omega
  rw [h2, List.length_tail]
  show s.position + 1 + _ < _
  omega

/-- **`increment_byte` (translated) = the model's `Buffered.incr`**; the two checked additions do not overflow on a `Good` state with
an unread byte in the buffer -/
theorem rs_increment_byte_eq {E : Type} (rd : Reader → List Int → Except E Int × Reader × List Int) (s : Buffered) (hg : Good s)
    (hlt : s.cur < s.buf.length) :
    Rs.PgnRawParser.increment_byte rd (toRs s) = some ((), toRs s.incr) := by
  unfold Rs.PgnRawParser.increment_byte
  have hl := hg.inv.len_le
  have hc := hg.chunk
  have hp := hg.pos
  have hne : 1 ≤ (stream s).length := by
    simp only [stream, List.length_append, List.length_drop]; omega
  have c1 : Rs.chk .usize ((toRs s).current_byte + 1) = some ((s.cur : Int) + 1) := by
    show Rs.chk .usize ((s.cur : Int) + 1) = _
    unfold Rs.chk; rw [if_pos]; simp only [Rs.Ty.lo, Rs.Ty.hi]; omega
  have c2 : Rs.chk .u64 ((toRs s).position + 1) = some ((s.position : Int) + 1) := by
    show Rs.chk .u64 ((s.position : Int) + 1) = _
    unfold Rs.chk; rw [if_pos]; simp only [Rs.Ty.lo, Rs.Ty.hi]; omega
  simp only [run_bind, run_get, run_set, run_liftO, c1, c2, Option.map_some]
  simp only [toRs, Buffered.incr, Int.natCast_add, Int.natCast_one]

/-- the two outcomes of `ensure_buffer` followed by `current_buffer[current_byte]` / `increment_byte`, in step with the model's
`Buffered.peek` / `incr` -/
theorem peek_cases {E : Type} (rd : Reader → List Int → Except E Int × Reader × List Int) (hrd : ReadModel rd)
    (s : Buffered) (hg : Good s) :
    (∃ b s1, s.peek = (some b, s1) ∧ Rs.PgnRawParser.ensure_buffer rd (toRs s) = some (true, toRs s1)
      ∧ Rs.vecIdx (toRs s1).current_buffer (toRs s1).current_byte = some (byteI b)
      ∧ Rs.PgnRawParser.increment_byte rd (toRs s1) = some ((), toRs s1.incr) ∧ Good s1 ∧ Good s1.incr)
    ∨ (∃ s1, s.peek = (none, s1) ∧ Rs.PgnRawParser.ensure_buffer rd (toRs s) = some (false, toRs s1) ∧ Good s1) := by
  have he := rs_ensure_buffer_eq rd hrd s hg
  have hg1 := good_ensure s hg
  obtain ⟨_, _, h3, _⟩ := ensure_spec s hg.inv
  unfold Buffered.peek
  generalize s.ensure = p at he hg1 h3 ⊢
  obtain ⟨ok, s1⟩ := p
  cases ok
  · exact Or.inr ⟨s1, rfl, he, hg1⟩
  · have hlt := h3 rfl
    simp only at hlt hg1 he ⊢
    refine Or.inl ⟨s1.buf[s1.cur], s1, ?_, he, ?_, rs_increment_byte_eq rd s1 hg1 hlt, hg1, good_incr s1 hg1 hlt⟩
    · rw [List.getElem?_eq_getElem hlt]
    · simp only [Rs.vecIdx, toRs, Int.toNat_natCast, List.getElem?_map, List.getElem?_eq_getElem hlt, Option.map_some]

/-! ### the simulation relation between translated methods and model programs -/

/-- `m` (a translated `&mut self` method) simulates the model program `p`: whenever `m` returns (no panic, fuel not exhausted) on
the image of a `Good` model state, the model program ends in the corresponding state with a related result -/
def Sim {α β : Type} (m : Rs.RsM (Rs.PgnRawParser Reader) α) (p : Prog β) (rel : α → β → Prop) : Prop :=
  ∀ s a t, Good s → m (toRs s) = some (a, t) → t = toRs (run p s).2 ∧ rel a (run p s).1

/-- `m` never panics on `Good` states -/
def Total {α : Type} (m : Rs.RsM (Rs.PgnRawParser Reader) α) : Prop := ∀ s, Good s → m (toRs s) ≠ none

theorem good_run {α : Type} (p : Prog α) : ∀ s, Good s → Good (run p s).2 := by
  induction p with
  | ret a => intro s h; exact h
  | step inc k ih =>
    intro s hg
    rcases peek_cases (E := Unit) readF (fun _ _ => rfl) s hg with ⟨b, s1, h1, _, _, _, g1, g2⟩ | ⟨s1, h1, _, g1⟩
    · simp only [run, Source.peek, h1]
      split
      · exact ih _ _ g2
      · exact ih _ _ g1
    · simp only [run, Source.peek, h1]
      exact ih _ _ g1

theorem sim_bind {α β γ δ : Type} {m : Rs.RsM (Rs.PgnRawParser Reader) α} {f : α → Rs.RsM (Rs.PgnRawParser Reader) γ}
    {p : Prog β} {g : β → Prog δ} {rel : α → β → Prop} {rel' : γ → δ → Prop}
    (h1 : Sim m p rel) (h2 : ∀ a b, rel a b → Sim (f a) (g b) rel') : Sim (m >>= f) (Prog.bind p g) rel' := by
  intro s c t hg h
  rw [run_bind] at h
  cases hm : m (toRs s) with
  | none => rw [hm] at h; cases h
  | some x =>
    obtain ⟨a, s1⟩ := x
    rw [hm] at h
    obtain ⟨e1, e2⟩ := h1 s a s1 hg hm
    subst e1
    rw [run_pbind]
    exact h2 a _ e2 _ c t (good_run p s hg) h

theorem sim_pure {α β : Type} {a : α} {b : β} {rel : α → β → Prop} (h : rel a b) : Sim (pure a) (Prog.ret b) rel := by
  intro s c t _ hh
  rw [run_pure] at hh
  cases hh
  exact ⟨rfl, h⟩

theorem total_bind {α γ : Type} {β : Type} {m : Rs.RsM (Rs.PgnRawParser Reader) α} {f : α → Rs.RsM (Rs.PgnRawParser Reader) γ}
    {p : Prog β} {rel : α → β → Prop} (h0 : Total m) (h1 : Sim m p rel) (h2 : ∀ a, Total (f a)) : Total (m >>= f) := by
  intro s hg
  rw [run_bind]
  cases hm : m (toRs s) with
  | none => exact absurd hm (h0 s hg)
  | some x =>
    obtain ⟨a, s1⟩ := x
    obtain ⟨e1, _⟩ := h1 s a s1 hg hm
    subst e1
    exact h2 a _ (good_run p s hg)

/-- error kinds (the model drops the payloads `position` / `expected` / `actual`) -/
def pgnErrKind : Rs.PgnRawParserError → Err
  | .ReadingFromClosedRead => .closed
  | .IllegalConsume _ _ _ => .consume
  | .IllegalSymbol _ _ => .symbol

/-- related `Result`s: both `Ok` with related values, or both `Err` of the same kind -/
def relRes {α β : Type} (r : α → β → Prop) : Except Rs.PgnRawParserError α → Except Err β → Prop
  | .ok a, .ok b => r a b
  | .error e, .error e' => pgnErrKind e = e'
  | _, _ => False

def relByte (a : Int) (b : UInt8) : Prop := a = byteI b

#print axioms rs_ensure_buffer_eq
#print axioms rs_increment_byte_eq
#print axioms peek_cases
#print axioms sim_bind

/-- non-vacuity: the initial state `with_chunk_size(reader, 3)` over a fragmenting reader is `Good` -/
example : Good (Buffered.new ⟨[91, 10], fun _ => 2, 0⟩ 3) :=
  ⟨(R_new 3 (fun _ => 2) [91, 10] (by decide) (fun _ => by decide)).1, by decide, by decide⟩

end Inkayaku.Translated
