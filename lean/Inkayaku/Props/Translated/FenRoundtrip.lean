import Inkayaku.Props.Translated.FenDecode
import Inkayaku.Props.Translated.FenFromStr
import Inkayaku.Props.Translated.FenWrite
import Inkayaku.Props.C12
/-! Part of `Props/Translated` (round 4, property C12): composition with `C12.print_parse_board`.

`rs_fen_read_eq`: the two translated halves of the READER composed — `Fen::from_str` (regex opaque, `RegexModel`) followed by
`Bitboard::from(&Fen)` is the model's `fromFenString` on every text other than the alias: same verdict, same board.

`rs_fen_roundtrip_read`: for every representable board (`C12.Repr`, in particular every legal position) the canonical text the
model printer `printFen` writes is accepted by the TRANSLATED reader, which gives back the same position (`WF.vis`).

`rs_fen_roundtrip`: the same statement with the translated WRITER `Rs.Fen.from` (generated module `FenWrite`: `From<&Bitboard> for Fen`,
`get_colored_piece`, `square_to_string`) in place of the model printer: the writer does not panic on a representable board, its text is
`printFen b`, and `Rs.Bitboard.from` of the `Fen` VALUE the writer returns is the same position (`rs_fen_write_eq` of `FenWrite.lean`
composed with `rs_fen_decode_eq`), under the table assumptions `SquareTables` / `PieceTables` for the opaque constants. -/

namespace Inkayaku.Translated
open Inkayaku.Board Inkayaku.FenSyntax Inkayaku.FenBoard

/-- **the translated reader = `fromFenString`** (`s` not the alias `startpos`) -/
theorem rs_fen_read_eq {C M : Type} (parse : List Char → Except Rs.FenParseError C) (get : C → Int → Option M)
    (range : M → Int × Int) (hm : RegexModel parse get range) (dflt : Rs.Fen) (s : String) (hs : s ≠ "startpos")
    (fuel : Nat) (hfuel : 8 ≤ fuel) :
    ∃ r, Rs.Fen.from_str s.toList dflt parse get range fuel = some r ∧
      (match fromFenString s with
       | .error e => ∃ err, r = .error err ∧ errKind err = e
       | .ok b => ∃ fen, r = .ok fen ∧ fen.fen = s.toList ∧ Rs.Bitboard.from fen = some (boardFields b)) := by
  have hs' : s.toList ≠ "startpos".toList := by
    intro h; apply hs; rw [← String.ofList_toList (s := s), h]; rfl
  obtain ⟨r, h1, h2⟩ := rs_fen_from_str_eq parse get range hm dflt s.toList hs' fuel hfuel
  refine ⟨r, h1, ?_⟩
  unfold fromFenString FenSyntax.parse
  rw [if_neg hs]
  cases hp : parseChars s.toList with
  | error e => rw [hp] at h2; exact h2
  | ok f =>
    rw [hp] at h2
    obtain ⟨fen, e1, e2, hv⟩ := h2
    exact ⟨fen, e1, e2, rs_fen_decode_eq fen f _ hp hv⟩

/-- **round trip through the translated reader**: the text the model printer writes for a representable board is accepted by the
translated `Fen::from_str` + `Bitboard::from(&Fen)`, and decodes to the same position -/
theorem rs_fen_roundtrip_read {C M : Type} (parse : List Char → Except Rs.FenParseError C) (get : C → Int → Option M)
    (range : M → Int × Int) (hm : RegexModel parse get range) (dflt : Rs.Fen) (fuel : Nat) (hfuel : 8 ≤ fuel)
    {b : Board} (h : FenRoundtrip.Repr b) :
    ∃ s fen b', printFen b = some s ∧ Rs.Fen.from_str s.toList dflt parse get range fuel = some (.ok fen) ∧ fen.fen = s.toList
      ∧ Rs.Bitboard.from fen = some (boardFields b') ∧ WF.vis b' = WF.vis b := by
  obtain ⟨s, b', hp, hs0, hr, hv⟩ := C12.print_parse_board h
  have hs : s ≠ "startpos" := by
    intro he
    have hpc := FenRoundtrip.parseChars_printA (FenRoundtrip.absOf_valid h)
    have e : FenText.printA (FenRoundtrip.absOf b) = "startpos".toList := by
      rw [← String.toList_ofList (l := FenText.printA (FenRoundtrip.absOf b)), ← hs0, he]
    have : parseChars "startpos".toList = .error .capture := by rfl
    rw [e, this] at hpc
    cases hpc
  obtain ⟨r, h1, h2⟩ := rs_fen_read_eq parse get range hm dflt s hs fuel hfuel
  rw [hr] at h2
  obtain ⟨fen, e1, e2, e3⟩ := h2
  exact ⟨s, fen, b', hp, by rw [h1, e1], e2, e3, hv⟩

/-- **FEN round trip on the translated source** (C12): for every representable board the translated WRITER `From<&Bitboard> for Fen`
does not panic, writes the canonical text of the model printer, and the translated READER `Bitboard::from(&Fen)` applied to the very
`Fen` value the writer returns gives back the same position. -/
theorem rs_fen_roundtrip {S P CP C M : Type} (fromIndex : Int → Option S) (mask : S → UInt64) (sqfen : S → List Char)
    (pfromIndex : Int → Option P) (toWhite toBlack : P → CP) (fen : CP → Char)
    (parse : List Char → Except Rs.FenParseError C) (get : C → Int → Option M) (range : M → Int × Int)
    (hs : SquareTables fromIndex mask sqfen) (ht : PieceTables pfromIndex toWhite toBlack fen) (hm : RegexModel parse get range)
    (dflt : Rs.Fen) (fuel : Nat) (hfuel : 17 ≤ fuel) {b : Board} (h : FenRoundtrip.Repr b) :
    ∃ s fn b', printFen b = some s ∧
      Rs.Fen.from (toRsSide b.white) (toRsSide b.black) (b.turn : Int) (b.ep : Int) (b.fullmove : Int) (b.halfmove : Int)
        fromIndex mask pfromIndex toWhite toBlack fen fromIndex sqfen dflt parse get range fuel = some fn
      ∧ fn.fen = s.toList ∧ Rs.Bitboard.from fn = some (boardFields b') ∧ WF.vis b' = WF.vis b := by
  obtain ⟨s, b', hp, hs0, hr, hv⟩ := C12.print_parse_board h
  obtain ⟨fn, f, e1, e2, e3, e4⟩ := rs_fen_write_eq fromIndex mask sqfen pfromIndex toWhite toBlack fen parse get range hs ht hm dflt fuel
    hfuel b h.ep s hp
  refine ⟨s, fn, boardOfFields f, hp, e1, e2, rs_fen_decode_eq fn f _ e3 e4, ?_⟩
  have : fromFenString s = .ok (boardOfFields f) := by
    have hne : s ≠ "startpos" := by
      intro he
      subst he
      have : parseChars "startpos".toList = .error .capture := by rfl
      rw [this] at e3; cases e3
    unfold fromFenString FenSyntax.parse
    rw [if_neg hne, e3]
  rw [this] at hr
  cases hr
  exact hv

#print axioms rs_fen_read_eq
#print axioms rs_fen_roundtrip_read
#print axioms rs_fen_roundtrip

/-- non-vacuity: the hypothesis `Repr` holds for the start position and for the example board of C12 -/
example : FenRoundtrip.Repr startBoard := ⟨by decide, by decide, by decide, by decide, by decide⟩
example : FenRoundtrip.Repr C12.exBoard := ⟨by decide, by decide, by decide, by decide, by decide⟩

end Inkayaku.Translated
