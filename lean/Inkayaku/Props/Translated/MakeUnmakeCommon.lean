import Inkayaku.Model.Board
import Inkayaku.Gen.Rs.MakeUnmake
import Inkayaku.Props.Translated.MoveBits
import Inkayaku.Props.Translated.Check
import Inkayaku.Props.Translated.Demo
import Inkayaku.Proofs.BoardCongr
/-! Part of `Props/Translated`: see `Props/Translated/Basic.lean` for the overview.  One file per translated Rust function group, so
that a change of one Rust function re-opens exactly the obligations (and the properties) that depend on it.

### n. `Bitboard::{make, unmake, make_castle, unmake_castle}` (board/src/board.rs) = `Board.makeF` / `unmakeF` (Model/Board.lean)

The generated `Bitboard.make` / `.unmake` take the six fields of the Rust `Bitboard` (`white`, `black` as regenerated
`PlayerState` structures = `toRsSide` of the model's sides) and the move word, and return the six new fields.
`get_active_and_passive_mut()` is translated as copy-in / write-back of the two borrowed fields, the `*x.pawns_ref() &= ..`
statements as bounds-checked array updates (`PlayerState::{occupancy_ref, kings_ref, rooks_ref, pawns_ref}` yield the
index), `make_castle(active, ..)` as a function returning the new `PlayerState`.

The theorems are split over three files so that a change of `make` does not take down the theorems about `unmake` and vice versa
(a theorem module that fails to build fails all its theorems):

* `MakeUnmakeCommon.lean` (this file): what BOTH proofs need and nothing else — array accesses of `PlayerState` through
  `toRsSide`, the index functions `PlayerState::{occupancy_ref, kings_ref, rooks_ref, pawns_ref}`, the castle masks `A1_MASK` …,
  `is_white_turn`, `boardFields`.  No statement about the bodies of `Bitboard.make`, `.unmake`, `.make_castle`, `.unmake_castle`.
* `Make.lean`: `rs_make_castle_eq`, `rs_make_eq`, `rs_make_move_eq`.
* `Unmake.lean`: `rs_unmake_castle_eq`, `rs_unmake_eq`, `rs_unmake_move_eq` (does not import `Make.lean`; the Rust
  `unmake_castle` calls `make_castle`, so `rs_unmake_castle_eq` unfolds both).
* `MakeUnmake.lean`: imports both (compatibility).

`rs_make_eq` / `rs_unmake_eq`: under hypotheses that are exactly the ways the Rust can panic (colour code above 1, `u32`
clock overflow / underflow, the `_ => panic!()` arm of the castle `match`, a piece code 7 indexing the 7-element
occupancy array) the generated function returns the fields of the model's `makeF` / `unmakeF` on the decoded move.
All of these hold for well-formed boards and generated moves (Model/WF.lean; `GenMake.lean`, `GenUnmake.lean`).
-/

set_option linter.unusedSimpArgs false

namespace Inkayaku.Translated
open Inkayaku.Board Inkayaku.Gen Inkayaku.MoveBits Inkayaku.BoardCongr

/-! #### array accesses of `PlayerState` through `toRsSide` -/

theorem side_idx (s : Side) (p : Nat) (hp : p < 7) : Rs.vecIdx (toRsSide s).occupancy (p : Int) = some (s.get p) := by
  have : p = 0 ∨ p = 1 ∨ p = 2 ∨ p = 3 ∨ p = 4 ∨ p = 5 ∨ p = 6 := by omega
  rcases this with h | h | h | h | h | h | h <;> subst h <;> rfl

theorem side_set (s : Side) (p : Nat) (hp : p < 7) (v : UInt64) :
    Rs.vecSet (toRsSide s).occupancy (p : Int) v = some (toRsSide (s.set p v)).occupancy := by
  have : p = 0 ∨ p = 1 ∨ p = 2 ∨ p = 3 ∨ p = 4 ∨ p = 5 ∨ p = 6 := by omega
  rcases this with h | h | h | h | h | h | h <;> subst h <;> rfl

theorem set_ge (s : Side) (p : Nat) (hp : 7 ≤ p) (v : UInt64) : s.set p v = s := by
  obtain ⟨k, rfl⟩ : ∃ k, p = k + 7 := ⟨p - 7, by omega⟩
  rfl

theorem side_with_occ (s : Side) (p : Nat) (v : UInt64) :
    ({ toRsSide s with occupancy := (toRsSide (s.set p v)).occupancy } : Rs.PlayerState) = toRsSide (s.set p v) := by
  by_cases hp : p < 7
  · have : p = 0 ∨ p = 1 ∨ p = 2 ∨ p = 3 ∨ p = 4 ∨ p = 5 ∨ p = 6 := by omega
    rcases this with h | h | h | h | h | h | h <;> subst h <;> rfl
  · rw [set_ge s p (by omega)]

theorem side_idx_oob (s : Side) (p : Nat) (hp : 7 ≤ p) : Rs.vecIdx (toRsSide s).occupancy (p : Int) = none := by
  unfold Rs.vecIdx
  rw [List.getElem?_eq_none_iff]
  simp [toRsSide]; omega

theorem get_set_same (s : Side) (p : Nat) (hp : p < 7) (v : UInt64) : (s.set p v).get p = v := by
  have : p = 0 ∨ p = 1 ∨ p = 2 ∨ p = 3 ∨ p = 4 ∨ p = 5 ∨ p = 6 := by omega
  rcases this with h | h | h | h | h | h | h <;> subst h <;> rfl

theorem set_set_same (s : Side) (p : Nat) (v w : UInt64) : (s.set p v).set p w = s.set p w := by
  by_cases hp : p < 7
  · have : p = 0 ∨ p = 1 ∨ p = 2 ∨ p = 3 ∨ p = 4 ∨ p = 5 ∨ p = 6 := by omega
    rcases this with h | h | h | h | h | h | h <;> subst h <;> rfl
  · rw [set_ge s p (by omega), set_ge s p (by omega)]

/-- one `*x.place(p) op= ..` statement of the generated code on `toRsSide s`: the model's `Side.set` -/
theorem place_update (s : Side) (p : Nat) (hp : p < 7) (g : UInt64 → UInt64) :
    (do
      let old ← Rs.vecIdx (toRsSide s).occupancy (p : Int)
      let arr ← Rs.vecSet (toRsSide s).occupancy (p : Int) (g old)
      pure ({ toRsSide s with occupancy := arr } : Rs.PlayerState)) = some (toRsSide (s.set p (g (s.get p)))) := by
  rw [side_idx s p hp]
  simp only [Option.bind_eq_bind, Option.bind_some, side_set s p hp, side_with_occ, Option.pure_def]

theorem pawns_index : Rs.PlayerState.pawns_ref_index = some ((1 : Nat) : Int) := by decide
theorem rooks_index : Rs.PlayerState.rooks_ref_index = some ((4 : Nat) : Int) := by decide
theorem kings_index : Rs.PlayerState.kings_ref_index = some ((6 : Nat) : Int) := by decide
theorem occ_index (p : Nat) (hp : p < 18446744073709551616) :
    Rs.PlayerState.occupancy_ref_index p.toUInt64 = some (p : Int) := by
  unfold Rs.PlayerState.occupancy_ref_index Rs.u64ToInt
  simp only [Nat.toUInt64_eq, UInt64.toNat_ofNat', Nat.mod_eq_of_lt hp, Option.pure_def]
  rw [Rs.cast_usize (by omega) (by omega)]

theorem shl_one (s : Nat) (hs : s < 64) : Rs.u64Shl (1 : UInt64) (s : Int) = some (bitU s) := by
  rw [u64Shl_natCast _ _ hs]; rfl

theorem set_qs (s : Side) (p : Nat) (v : UInt64) : (s.set p v).qs = s.qs := by
  by_cases hp : p < 7
  · have : p = 0 ∨ p = 1 ∨ p = 2 ∨ p = 3 ∨ p = 4 ∨ p = 5 ∨ p = 6 := by omega
    rcases this with h | h | h | h | h | h | h <;> subst h <;> rfl
  · rw [set_ge s p (by omega)]

theorem set_ks (s : Side) (p : Nat) (v : UInt64) : (s.set p v).ks = s.ks := by
  by_cases hp : p < 7
  · have : p = 0 ∨ p = 1 ∨ p = 2 ∨ p = 3 ∨ p = 4 ∨ p = 5 ∨ p = 6 := by omega
    rcases this with h | h | h | h | h | h | h <;> subst h <;> rfl
  · rw [set_ge s p (by omega)]

theorem toRs_qs (s : Side) : (toRsSide s).queen_side_castle = s.qs := rfl
theorem toRs_ks (s : Side) : (toRsSide s).king_side_castle = s.ks := rfl

/-- a `PlayerState` assembled from the occupancy of one side and the castling flags of another -/
theorem repack (s' : Side) (q k : Bool) :
    Rs.PlayerState.mk (toRsSide s').occupancy q k = toRsSide { s' with qs := q, ks := k } := rfl

theorem side_eta (s : Side) : ({ s with qs := s.qs, ks := s.ks } : Side) = s := by cases s; rfl

theorem shl8 (x : UInt64) : Rs.u64Shl x 8 = some (x <<< 8) := by
  simp [Rs.u64Shl]
theorem shr8 (x : UInt64) : Rs.u64Shr x 8 = some (x >>> 8) := by
  simp [Rs.u64Shr]

theorem castle_masks :
    Rs.A1_MASK = some (bitU A1) ∧ Rs.D1_MASK = some (bitU D1) ∧ Rs.F1_MASK = some (bitU F1) ∧ Rs.H1_MASK = some (bitU H1) ∧
    Rs.A8_MASK = some (bitU A8) ∧ Rs.D8_MASK = some (bitU D8) ∧ Rs.F8_MASK = some (bitU F8) ∧ Rs.H8_MASK = some (bitU H8) := by
  decide

theorem with_flags_set (X : Side) (p : Nat) (v : UInt64) (q k : Bool) (hq : X.qs = q) (hk : X.ks = k) :
    ({ X.set p v with qs := q, ks := k } : Side) = X.set p v := by
  subst hq hk
  by_cases hp : p < 7
  · have : p = 0 ∨ p = 1 ∨ p = 2 ∨ p = 3 ∨ p = 4 ∨ p = 5 ∨ p = 6 := by omega
    rcases this with h | h | h | h | h | h | h <;> subst h <;> rfl
  · rw [set_ge X p (by omega)]

theorem set_one (s : Side) (v : UInt64) : s.set 1 v = { s with pawns := v } := rfl
theorem get_one (s : Side) : s.get 1 = s.pawns := rfl

/-- the six fields of the Rust `Bitboard` for a model board -/
def boardFields (b : Board) : Rs.PlayerState × Rs.PlayerState × Int × Int × Int × Int :=
  (toRsSide b.white, toRsSide b.black, (b.turn : Int), (b.ep : Int), (b.fullmove : Int), (b.halfmove : Int))

theorem rs_is_white_turn_eq (t : Nat) : Rs.Bitboard.is_white_turn (t : Int) = some (t == 0) := by
  unfold Rs.Bitboard.is_white_turn Rs.WHITE
  by_cases h : t = 0 <;> simp [h]

/-- the two `if mv.is_.._lost_.._castle() { x.king_side_castle = v; }` statements on `toRsSide s` -/
theorem flags2 {β : Type} (s : Side) (k q v : Bool) (F : Rs.PlayerState → Option β) :
    ((if k = true then some (Rs.PlayerState.mk (toRsSide s).occupancy (toRsSide s).queen_side_castle v) else some (toRsSide s)).bind
      fun a => (if q = true then some (Rs.PlayerState.mk a.occupancy v a.king_side_castle) else some a).bind F) =
    F (toRsSide (if v then giveRights s k q else dropRights s k q)) := by
  cases k <;> cases q <;> cases v <;> rfl

theorem target_lt (b : UInt64) : (decode b).target < 64 := by
  show field b targetSquareMask targetSquareShift < 64
  rw [field_eq b targetSquareMask targetSquareShift 6 (by decide) (by decide) (by decide)]
  exact Nat.mod_lt _ (by decide)

theorem source_lt (b : UInt64) : (decode b).source < 64 := by
  show field b sourceSquareMask sourceSquareShift < 64
  rw [field_eq b sourceSquareMask sourceSquareShift 6 (by decide) (by decide) (by decide)]
  exact Nat.mod_lt _ (by decide)

theorem field_lt64 (b : UInt64) (m s : Nat) : field b m s < 18446744073709551616 := by
  unfold field; exact UInt64.toNat_lt _
#print axioms rs_is_white_turn_eq

end Inkayaku.Translated
