import Inkayaku.Props.Translated.Demo
import Inkayaku.Proofs.GenOK
/-! Part of `Props/Translated`: see `Props/Translated/Basic.lean` for the overview.

### o. the translated `make` / `unmake` / `zobrist_xor` / `is_valid` / `is_move_legal` on GENERATED moves of WELL-FORMED boards

`Props/Translated/Make.lean`, `Unmake.lean` and `ZobristXor.lean` prove the equivalences under hypotheses that are exactly the panic
conditions of the Rust.  In `GenMake.lean`, `GenUnmake.lean`, `GenXor.lean` these hypotheses are discharged for every move the
(model) generator emits on a board satisfying the decidable legality predicate `WF.wf` (`GenOK.genPseudo_ok`,
`GenFacts.genPseudo_hashok`): on such inputs the Rust functions, as translated from the current source, NEVER PANIC and compute
the model's results — and `unmake ∘ make` restores the position (C03), `is_valid` after `make` is the model's legality test (C05).

One file per Rust function (a theorem module that fails to build fails all its theorems, so a change of one function must not
take down the theorems about the others):

* `GenCommon.lean` (this file): model-only helpers — `wf_clocks`, and the shared non-vacuity facts `demo_wf`, `demo_gen` (the
  hypotheses of all `…_generated` theorems are satisfiable: 1. e2-e4 in the small legal position of `Demo.lean`).  No generated
  (`Gen/Rs`) definition is mentioned, so this file is never re-opened by a change of the Rust source.
* `GenMake.lean`: `rs_make_generated`, `rs_is_valid_after_make` (imports `Make.lean`, `Check.lean`).
* `GenUnmake.lean`: `rs_unmake_generated`, `rs_is_move_legal_generated` (imports `Unmake.lean`, `GenMake.lean`, `Gen/Rs/Legal.lean`).
* `GenXor.lean`: `rs_zobrist_xor_generated` (imports `ZobristXor.lean` only).
* `Generated.lean`: imports the three (compatibility).
-/

namespace Inkayaku.Translated
open Inkayaku.Board Inkayaku.Gen Inkayaku.WF

theorem wf_clocks {b : Board} (h : wf b = true) : 1 ≤ b.fullmove ∧ b.fullmove < 2147483648 ∧ b.halfmove ≤ 4095 ∧ b.turn ≤ 1 := by
  unfold wf at h
  simp only [Bool.and_eq_true, decide_eq_true_eq] at h
  obtain ⟨⟨⟨h1, h2⟩, h3⟩, h4⟩ := h
  have := (GenOK.wf_facts (by unfold wf; simp only [Bool.and_eq_true, decide_eq_true_eq]; exact ⟨⟨⟨h1, h2⟩, h3⟩, h4⟩)).basic.turn
  exact ⟨h2, h3, h4, this⟩

/-! non-vacuity of the hypotheses `wf b = true`, `m ∈ genPseudo b` of the `…_generated` theorems -/
theorem demo_wf : wf demoPos = true := by decide +kernel
theorem demo_gen : demoMove ∈ genPseudo demoPos := by decide +kernel

end Inkayaku.Translated
