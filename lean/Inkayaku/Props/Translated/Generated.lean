import Inkayaku.Props.Translated.MakeUnmake
import Inkayaku.Props.Translated.ZobristXor
import Inkayaku.Props.Translated.Check
import Inkayaku.Gen.Rs.Legal
import Inkayaku.Proofs.GenOK
import Inkayaku.Proofs.GenFacts
/-! Part of `Props/Translated`: see `Props/Translated/Basic.lean` for the overview.

### o. the translated `make` / `unmake` / `zobrist_xor` / `is_valid` on GENERATED moves of WELL-FORMED boards

`Props/Translated/MakeUnmake.lean` and `ZobristXor.lean` prove the equivalences under hypotheses that are exactly the panic
conditions of the Rust.  Here these hypotheses are discharged for every move the (model) generator emits on a board
satisfying the decidable legality predicate `WF.wf` (`GenOK.genPseudo_ok`, `GenFacts.genPseudo_hashok`): on such inputs
the Rust functions, as translated from the current source, NEVER PANIC and compute the model's results — and
`unmake ∘ make` restores the position (C03), `is_valid` after `make` is the model's legality test (C05).
-/

namespace Inkayaku.Translated
open Inkayaku.Board Inkayaku.Gen Inkayaku.MoveBits Inkayaku.BoardCongr Inkayaku.WF Inkayaku.MakeUnmake

theorem wf_clocks {b : Board} (h : wf b = true) : 1 ≤ b.fullmove ∧ b.fullmove < 2147483648 ∧ b.halfmove ≤ 4095 ∧ b.turn ≤ 1 := by
  unfold wf at h
  simp only [Bool.and_eq_true, decide_eq_true_eq] at h
  obtain ⟨⟨⟨h1, h2⟩, h3⟩, h4⟩ := h
  have := (GenOK.wf_facts (by unfold wf; simp only [Bool.and_eq_true, decide_eq_true_eq]; exact ⟨⟨⟨h1, h2⟩, h3⟩, h4⟩)).basic.turn
  exact ⟨h2, h3, h4, this⟩


/-- GENERATED MOVES ON WELL-FORMED BOARDS: the translated `Bitboard::make` never panics and yields the model's successor -/
theorem rs_make_generated {b : Board} (h : wf b = true) {m : Board.Move} (hm : m ∈ genPseudo b) :
    Rs.Bitboard.make (toRsSide b.white) (toRsSide b.black) b.turn b.ep b.fullmove b.halfmove m.bits =
      some (boardFields (Board.make b m)) := by
  obtain ⟨hf1, hf2, hh, ht⟩ := wf_clocks h
  obtain ⟨-, hok⟩ := GenOK.genPseudo_ok h m hm
  obtain ⟨-, -, -, -, -, hmv, hot⟩ := hok
  obtain ⟨-, -, hshape⟩ := hmv
  obtain ⟨-, -, hoth⟩ := hot
  unfold ShapeOK at hshape
  refine rs_make_move_eq b m ht (by omega) (fun _ => by omega) ?_ ?_
  · intro hc
    rw [if_pos hc] at hshape
    intro hn
    rw [hn] at hshape
    exact hshape
  · intro hc he
    simp only [hc, he, Bool.false_eq_true, if_false] at hshape hoth
    refine ⟨by omega, ?_⟩
    by_cases hp : (m.f.promotion != NO_PIECE) = true
    · rw [if_pos hp] at hshape
      have : (m.f.promotion != 0) = true := hp
      rw [if_pos this]; omega
    · rw [if_neg hp] at hshape
      have : ¬ (m.f.promotion != 0) = true := hp
      rw [if_neg this]; omega

#print axioms rs_make_generated

/-- … and the translated `Bitboard::unmake` applied to the successor never panics, yields the model's `unmake`, which is
the original position (up to the scratch word `occupancy[NO_PIECE]`, C03) -/
theorem rs_unmake_generated {b : Board} (h : wf b = true) {m : Board.Move} (hm : m ∈ genPseudo b) :
    Rs.Bitboard.unmake (toRsSide (Board.make b m).white) (toRsSide (Board.make b m).black) (Board.make b m).turn
        (Board.make b m).ep (Board.make b m).fullmove (Board.make b m).halfmove m.bits =
      some (boardFields (Board.unmake (Board.make b m) m)) ∧
    vis (Board.unmake (Board.make b m) m) = vis b := by
  obtain ⟨hf1, hf2, hh, ht⟩ := wf_clocks h
  obtain ⟨-, hok⟩ := GenOK.genPseudo_ok h m hm
  refine ⟨?_, MakeUnmake.unmake_make hok⟩
  obtain ⟨-, -, -, -, -, hmv, hot⟩ := hok
  obtain ⟨-, -, hshape⟩ := hmv
  obtain ⟨-, -, hoth⟩ := hot
  unfold ShapeOK at hshape
  have e1 : (Board.make b m).turn = 1 - b.turn := rfl
  have e2 : (Board.make b m).fullmove = b.fullmove + b.turn := rfl
  refine rs_unmake_move_eq (Board.make b m) m (by rw [e1]; omega) (by rw [e1, e2]; omega) (by rw [e2]; omega) ?_ ?_
  · intro hc
    rw [if_pos hc] at hshape
    intro hn
    rw [hn] at hshape
    exact hshape
  · intro hc
    simp only [hc, Bool.false_eq_true, if_false] at hshape hoth
    by_cases he : m.f.enPassant = true
    · rw [if_pos he] at hoth
      refine ⟨by rw [hoth.1]; decide, fun h' => ?_⟩
      rw [he] at h'; exact absurd h' (by decide)
    · rw [if_neg he] at hoth hshape
      refine ⟨by omega, fun _ => ?_⟩
      by_cases hp : (m.f.promotion != NO_PIECE) = true
      · rw [if_pos hp] at hshape
        have : (m.f.promotion != 0) = true := hp
        rw [if_pos this]; omega
      · rw [if_neg hp] at hshape
        have : ¬ (m.f.promotion != 0) = true := hp
        rw [if_neg this]; omega

#print axioms rs_unmake_generated

/-- … and the translated `Bitboard::zobrist_xor` never panics and yields the model's hash delta -/
theorem rs_zobrist_xor_generated {b : Board} (h : wf b = true) {m : Board.Move} (hm : m ∈ genPseudo b) :
    Rs.Bitboard.zobrist_xor m.bits Zobrist.blackToMove zCastleF zEnPassantF zPieceSquareF = some (Zobrist.xorOf m.f) := by
  obtain ⟨-, hside, -, -, -, -, -, -, -, hk⟩ := GenFacts.genPseudo_hashok h m hm
  refine rs_zobrist_xor_move m ?_ ?_
  · intro hc
    rw [if_pos hc] at hk
    unfold ZobristStep.CastleOK at hk
    intro hn
    rw [hn] at hk
    exact hk
  · intro hc he hs
    simp only [hc, he, Bool.false_eq_true, if_false, if_true] at hk
    have : ¬ b.turn = 0 := by rw [← hside]; exact hs
    rw [if_neg this] at hk
    exact hk.2.2.1

#print axioms rs_zobrist_xor_generated

/-- `is_move_legal` = `make; is_valid; unmake` with the translated functions: the middle step on the successor -/
theorem rs_is_valid_after_make {b : Board} (h : wf b = true) (m : Board.Move) :
    Rs.Bitboard.is_valid (toRsSide (Board.make b m).white) (toRsSide (Board.make b m).black) (Board.make b m).turn
      rookF bishopF knightF whitePawnF blackPawnF kingF = some (isMoveLegal b m) := by
  obtain ⟨-, -, -, ht⟩ := wf_clocks h
  have e1 : (Board.make b m).turn = 1 - b.turn := rfl
  exact rs_is_valid_eq (Board.make b m) (by rw [e1]; omega)

#print axioms rs_is_valid_after_make

/-- END-TO-END `is_move_legal` (`make; is_valid; unmake`, translated from the current source): for every generated move of
a well-formed board it never panics, returns the model's legality verdict and leaves the model's `unmake (make b m)` —
the original position up to the scratch word (second component of `rs_unmake_generated`) -/
theorem rs_is_move_legal_generated {b : Board} (h : wf b = true) {m : Board.Move} (hm : m ∈ genPseudo b) :
    Rs.Bitboard.is_move_legal (toRsSide b.white) (toRsSide b.black) b.turn b.ep b.fullmove b.halfmove m.bits
      rookF bishopF knightF whitePawnF blackPawnF kingF =
    some (isMoveLegal b m, boardFields (Board.unmake (Board.make b m) m)) := by
  unfold Rs.Bitboard.is_move_legal
  rw [rs_make_generated h hm]
  simp only [boardFields, Option.bind_eq_bind, Option.bind_some, rs_is_valid_after_make h m, (rs_unmake_generated h hm).1,
    Option.pure_def]

#print axioms rs_is_move_legal_generated

/-! non-vacuity: the hypotheses are satisfiable (1. e2-e4 in a small legal position) -/
example : wf demoPos = true := by decide +kernel
example : demoMove ∈ genPseudo demoPos := by decide +kernel

end Inkayaku.Translated
