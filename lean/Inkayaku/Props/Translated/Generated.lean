import Inkayaku.Props.Translated.GenMake
import Inkayaku.Props.Translated.GenUnmake
import Inkayaku.Props.Translated.GenXor
/-! Part of `Props/Translated`: compatibility umbrella.  The theorems about the translated functions on GENERATED moves of
WELL-FORMED boards are in `GenMake.lean` (`rs_make_generated`, `rs_is_valid_after_make`), `GenUnmake.lean` (`rs_unmake_generated`,
`rs_is_move_legal_generated`) and `GenXor.lean` (`rs_zobrist_xor_generated`); see `GenCommon.lean` for the description.  A property
lists the file(s) of the functions it relies on, not this one. -/
