import Inkayaku.Props.Translated.GenerateLegal
import Inkayaku.Props.Closure
/-! Part of `Props/Translated`: see `Props/Translated/Basic.lean` for the overview.

### w. C01 for the REGENERATED source: the legal-move generator translated from the current board/src/board.rs offers exactly
the legal moves of the rules

`rs_generate_legal_eq_rules` composes `rs_generate_legal_moves_eq` (the translated `Bitboard::generate_legal_moves` — move
constructor, bit-scan loops, the five generator helpers, the two top-level generators, the make / is_valid / unmake filter, all
translated from the Rust source on every run — returns the model's `genLegal b`) with `Closure.genLegal_eq_rules` /
`C01.legal_moves_exact` (the model's `genLegal b` is the set of legal moves of `Spec/Chess.lean`, without duplicates): for every
well-formed board the translated Rust function never panics, and the moves it returns, decoded with the getters' `decode` and
written as (source, target, promotion) triples resp. as UCI strings, are exactly the legal moves of the rules — nothing missing,
nothing extra, no duplicates — and `self` holds the same position afterwards.
Trusted: the semantics rs2lean gives to the Rust subset (header of `Gen/Rs/Prelude.lean`) and the six attack-table lookups taken
as the functions `rookF` … `kingF` (`Props/Translated/Magic.lean` ties the two magic lookups to the translated `get_attacks`).
-/

namespace Inkayaku.Translated
open Inkayaku.Board Inkayaku.Gen Inkayaku.WF Inkayaku.Abs

/-- the packed move word of a translated move, decoded -/
def decMove (p : UInt64 × Int) : MoveF := decode p.1

theorem decMove_enc (m : Board.Move) : decMove (encMove m) = m.f := rfl

/-- **C01 for the translated generator** -/
theorem rs_generate_legal_eq_rules {b : Board} (h : wf b = true) (fuel : Nat) (hf : 130 ≤ fuel) :
    ∃ (out : List (UInt64 × Int)) (c' : Board),
      Rs.Bitboard.generate_legal_moves (toRsSide b.white) (toRsSide b.black) b.turn b.ep b.fullmove b.halfmove rookF bishopF
        knightF kingF whitePawnF blackPawnF fuel = some (out, boardFields c') ∧
      vis c' = vis b ∧
      (∀ sm : Spec.SMove, sm ∈ out.map (fun p => absMove (decMove p)) ↔ sm ∈ Spec.legalMoves (abs b)) ∧
      (∀ s : String, s ∈ out.map (fun p => (decMove p).uci) ↔ s ∈ (Spec.legalMoves (abs b)).map Spec.SMove.uci) ∧
      (out.map (fun p => (decMove p).uci)).Nodup := by
  obtain ⟨c', hc', e⟩ := rs_generate_legal_moves_eq h fuel hf
  obtain ⟨huci, hnodup, -, -, -⟩ := C01.legal_moves_exact h (fun _ hm => C02.make_eq_apply h hm)
  have e1 : ((genLegal b).map encMove).map (fun p => absMove (decMove p)) = (genLegal b).map (absMove ∘ Move.f) := by
    rw [List.map_map]; rfl
  have e2 : ((genLegal b).map encMove).map (fun p => (decMove p).uci) = (genLegal b).map Move.uci := by
    rw [List.map_map]; rfl
  refine ⟨(genLegal b).map encMove, c', e, hc', ?_, ?_, ?_⟩
  · intro sm; rw [e1]; exact Closure.genLegal_eq_rules h sm
  · intro s; rw [e2]; exact huci s
  · rw [e2]; exact hnodup

#print axioms rs_generate_legal_eq_rules

/-- the pseudo-legal generator, in the same form (`C01.genPseudo_iff`) -/
theorem rs_generate_pseudo_legal_eq_rules {b : Board} (h : wf b = true) (fuel : Nat) (hf : 130 ≤ fuel) :
    ∃ out : List (UInt64 × Int),
      Rs.Bitboard.generate_pseudo_legal_moves (toRsSide b.white) (toRsSide b.black) b.turn b.ep b.halfmove rookF bishopF
        knightF kingF whitePawnF blackPawnF fuel = some out ∧
      (∀ sm : Spec.SMove, sm ∈ out.map (fun p => absMove (decMove p)) ↔ sm ∈ Spec.pseudoMoves (abs b)) ∧
      (out.map (fun p => (decMove p).uci)).Nodup := by
  refine ⟨(genPseudo b).map encMove, rs_generate_pseudo_legal_wf h fuel hf, ?_, ?_⟩
  · intro sm
    have : ((genPseudo b).map encMove).map (fun p => absMove (decMove p)) = (genPseudo b).map (absMove ∘ Move.f) := by
      rw [List.map_map]; rfl
    rw [this]; exact C01.genPseudo_iff h sm
  · have : ((genPseudo b).map encMove).map (fun p => (decMove p).uci) = (genPseudo b).map Move.uci := by
      rw [List.map_map]; rfl
    rw [this]; exact C01.genPseudo_nodup h

#print axioms rs_generate_pseudo_legal_eq_rules

/-! non-vacuity: the hypotheses hold for `demoPos` (a small legal position, `Props/Translated/Demo.lean`) and fuel 130 -/
example : wf demoPos = true := demo_wf
example : ∃ (out : List (UInt64 × Int)) (c' : Board),
    Rs.Bitboard.generate_legal_moves (toRsSide demoPos.white) (toRsSide demoPos.black) demoPos.turn demoPos.ep demoPos.fullmove
      demoPos.halfmove rookF bishopF knightF kingF whitePawnF blackPawnF 130 = some (out, boardFields c') ∧ vis c' = vis demoPos :=
  let ⟨out, c', h1, h2, _⟩ := rs_generate_legal_eq_rules demo_wf 130 (Nat.le_refl _)
  ⟨out, c', h1, h2⟩

end Inkayaku.Translated
