import Inkayaku.Props.Translated.PgnMoves
/-! Part of `Props/Translated` (round 5, property C17): the ITERATION of the translated `Iterator::next` over
`PgnRawParser::with_chunk_size(reader, chunk)` and the composition with `C17.chunk_independent`: for every chunk size ≥ 1 and every
fragmentation schedule with entries ≥ 1 (the mapping assumption `ReadModel` for `Read::read`) the items the REGENERATED reader yields
— whenever it yields them, i.e. no panic and the loop counters (`fuel`) do not run out — are those the model parser yields on the plain
byte list (`readAll`), which `C17.parse_render` relates to the printed games. -/

set_option linter.unusedSimpArgs false
set_option linter.unusedSectionVars false

namespace Inkayaku.Translated
open Inkayaku.Pgn Inkayaku.C17

/-- `for item in parser { items.push(item) }` over the translated `next`, stopping after the first `Some(Err _)` (kept), at most `k` items;
`none` = a call of `next` panicked or ran out of fuel -/
def rsItems {E : Type} (rd : Reader → List Int → Except E Int × Reader × List Int) (fuel : Nat) :
    Nat → Rs.PgnRawParser Reader → Option (List (Except Rs.PgnRawParserError Rs.PgnRaw))
  | 0, _ => some []
  | k + 1, st =>
    match Rs.PgnRawParser.next rd fuel st with
    | none => none
    | some (none, _) => some []
    | some (some (.error e), _) => some [.error e]
    | some (some (.ok g), st') => (rsItems rd fuel k st').map (fun l => .ok g :: l)

def itemRel : Except Rs.PgnRawParserError Rs.PgnRaw → Item → Prop
  | .ok g, .game g' => g = gameOf g'
  | .error e, .err e' => pgnErrKind e = e'
  | _, _ => False

def itemsRel : List (Except Rs.PgnRawParserError Rs.PgnRaw) → List Item → Prop
  | [], [] => True
  | x :: xs, y :: ys => itemRel x y ∧ itemsRel xs ys
  | _, _ => False

theorem readAllLoop_acc (fuel : Nat) : ∀ k (items : List Item) (s : Buffered),
    (run (readAllLoop fuel k items) s).1 = items ++ (run (readAllLoop fuel k []) s).1 := by
  intro k
  induction k with
  | zero => intro items s; simp [readAllLoop, run]
  | succ k ih =>
    intro items s
    unfold readAllLoop
    rw [run_pbind, run_pbind]
    cases h : (run (Pgn.next fuel) s).1 with
    | none => simp [run]
    | some r =>
      cases r with
      | error e => simp [run]
      | ok g =>
        dsimp only []
        rw [ih (items ++ [Item.game g]), ih ([] ++ [Item.game g])]
        simp

section
variable {E : Type} (rd : Reader → List Int → Except E Int × Reader × List Int) (hrd : ReadModel rd)
include hrd

theorem rs_items_eq (fuel : Nat) : ∀ k (s : Buffered) l, Good s → rsItems rd fuel k (toRs s) = some l →
    itemsRel l (run (readAllLoop fuel k []) s).1 := by
  intro k
  induction k with
  | zero => intro s l _ h; simp only [rsItems, Option.some.injEq] at h; subst h; simp [readAllLoop, run, itemsRel]
  | succ k ih =>
    intro s l hg h
    unfold rsItems at h
    unfold readAllLoop
    rw [run_pbind]
    cases hn : Rs.PgnRawParser.next rd fuel (toRs s) with
    | none => rw [hn] at h; cases h
    | some x =>
      obtain ⟨r, t⟩ := x
      rw [hn] at h
      obtain ⟨e1, e2⟩ := rs_pgn_next_eq rd hrd fuel s r t hg hn
      subst e1
      cases r with
      | none =>
        simp only [Option.some.injEq] at h; subst h
        cases hm : (run (Pgn.next fuel) s).1 with
        | none => simp [run, itemsRel]
        | some y => rw [hm] at e2; exact absurd e2 id
      | some x =>
        cases hm : (run (Pgn.next fuel) s).1 with
        | none => rw [hm] at e2; exact absurd e2 id
        | some y =>
          rw [hm] at e2
          cases x with
          | error e =>
            simp only [Option.some.injEq] at h; subst h
            cases y with
            | ok g' => exact absurd e2 id
            | error e' => simp only [run]; exact ⟨e2, trivial⟩
          | ok g =>
            cases y with
            | error e' => exact absurd e2 id
            | ok g' =>
              dsimp only [] at h ⊢
              cases hr : rsItems rd fuel k (toRs (run (Pgn.next fuel) s).2) with
              | none => rw [hr] at h; cases h
              | some l' =>
                rw [hr] at h
                simp only [Option.map_some, Option.some.injEq] at h; subst h
                rw [readAllLoop_acc]
                exact ⟨e2, ih _ l' (good_run _ s hg) hr⟩

omit hrd in
/-- `PgnRawParser::with_chunk_size(reader, chunk)` (translated) is the image of the model's `Buffered.new` -/
theorem rs_with_chunk_size_eq (r : Reader) (chunk : Nat) :
    Rs.PgnRawParser.with_chunk_size r (chunk : Int) = toRs (Buffered.new r chunk) := by
  simp [Rs.PgnRawParser.with_chunk_size, toRs, Buffered.new, byteI]

omit hrd in
theorem good_new (input : List UInt8) (chunk : Nat) (sched : Nat → Nat) (hchunk : 1 ≤ chunk) (hsched : ∀ k, 1 ≤ sched k)
    (hc : chunk < 18446744073709551616) (hi : input.length < 18446744073709551616) : Good (Buffered.new ⟨input, sched, 0⟩ chunk) := by
  obtain ⟨h1, h2⟩ := R_new chunk sched input hchunk hsched
  refine ⟨h1, hc, ?_⟩
  rw [h2]
  show 0 + input.length < _
  omega

/-- **C17 on the regenerated reader**: whatever chunk size (≥ 1, a `usize`) and fragmentation of the underlying `Read` (`sched`, entries
≥ 1; `ReadModel`), if iterating the TRANSLATED `PgnRawParser::with_chunk_size(reader, chunk)` with loop bound `fuel = input.length + 1`
yields the items `l` (no panic, no bound exhausted), then `l` is — item by item, strings as code-point lists, error payloads dropped —
what the model parser yields on the plain bytes (`readAll input`, independent of `chunk` and `sched` by `C17.chunk_independent`). -/
theorem rs_pgn_chunk_independent (input : List UInt8) (chunk : Nat) (sched : Nat → Nat) (hchunk : 1 ≤ chunk) (hsched : ∀ k, 1 ≤ sched k)
    (hc : chunk < 18446744073709551616) (hi : input.length < 18446744073709551616) (l : List (Except Rs.PgnRawParserError Rs.PgnRaw))
    (h : rsItems rd (input.length + 1) (input.length + 1) (Rs.PgnRawParser.with_chunk_size ⟨input, sched, 0⟩ (chunk : Int)) = some l) :
    itemsRel l (readAll input) := by
  rw [rs_with_chunk_size_eq] at h
  have := rs_items_eq rd hrd (input.length + 1) (input.length + 1) _ l (good_new input chunk sched hchunk hsched hc hi) h
  rw [← chunk_independent input chunk sched hchunk hsched]
  exact this

/-- the two runs of the translated reader under different chunk sizes / schedules yield related item lists (both related to `readAll input`) -/
theorem rs_pgn_chunk_independent' (input : List UInt8) (c₁ c₂ : Nat) (s₁ s₂ : Nat → Nat) (h₁ : 1 ≤ c₁) (h₂ : 1 ≤ c₂)
    (hs₁ : ∀ k, 1 ≤ s₁ k) (hs₂ : ∀ k, 1 ≤ s₂ k) (hc₁ : c₁ < 18446744073709551616) (hc₂ : c₂ < 18446744073709551616)
    (hi : input.length < 18446744073709551616) (l₁ l₂ : List (Except Rs.PgnRawParserError Rs.PgnRaw))
    (e₁ : rsItems rd (input.length + 1) (input.length + 1) (Rs.PgnRawParser.with_chunk_size ⟨input, s₁, 0⟩ (c₁ : Int)) = some l₁)
    (e₂ : rsItems rd (input.length + 1) (input.length + 1) (Rs.PgnRawParser.with_chunk_size ⟨input, s₂, 0⟩ (c₂ : Int)) = some l₂) :
    itemsRel l₁ (readAll input) ∧ itemsRel l₂ (readAll input) :=
  ⟨rs_pgn_chunk_independent rd hrd input c₁ s₁ h₁ hs₁ hc₁ hi l₁ e₁, rs_pgn_chunk_independent rd hrd input c₂ s₂ h₂ hs₂ hc₂ hi l₂ e₂⟩

#print axioms rs_items_eq
#print axioms rs_pgn_chunk_independent

end

/-- non-vacuity: the translated reader run (kernel-evaluated) on a two-byte chunk, reads of 1,2,1,2,.. bytes: it yields one game, no panic -/
example : (rsItems (E := Unit) readF 12 12 (Rs.PgnRawParser.with_chunk_size ⟨"[a \"b\"]\n\ne4 *".toUTF8.toList, fun k => 1 + k % 2, 0⟩ 2)).map List.length
    = some 1 := by decide +kernel

end Inkayaku.Translated
