import Inkayaku.Props.Translated.Unmake
import Inkayaku.Props.Translated.GenMake
import Inkayaku.Props.Translated.GenCommon
import Inkayaku.Gen.Rs.Legal
import Inkayaku.Proofs.GenOK
/-! Part of `Props/Translated`: see `Props/Translated/GenCommon.lean` for the description of the `…_generated` theorems.

### o2. the translated `Bitboard::unmake` and `Bitboard::is_move_legal` (`make; is_valid; unmake`) on generated moves of well-formed boards

`rs_unmake_generated` uses `Unmake.lean` only; the end-to-end `rs_is_move_legal_generated` composes it with `rs_make_generated` and
`rs_is_valid_after_make` (`GenMake.lean`) — the Rust `is_move_legal` calls all three.  Must not import `ZobristXor.lean` / `GenXor.lean`. -/

namespace Inkayaku.Translated
open Inkayaku.Board Inkayaku.Gen Inkayaku.MoveBits Inkayaku.BoardCongr Inkayaku.WF Inkayaku.MakeUnmake

/-- GENERATED MOVES ON WELL-FORMED BOARDS: the translated `Bitboard::unmake` applied to the successor never panics, yields the
model's `unmake`, which is the original position (up to the scratch word `occupancy[NO_PIECE]`, C03) -/
theorem rs_unmake_generated {b : Board} (h : wf b = true) {m : Board.Move} (hm : m ∈ genPseudo b) :
    Rs.Bitboard.unmake (toRsSide (Board.make b m).white) (toRsSide (Board.make b m).black) (Board.make b m).turn
        (Board.make b m).ep (Board.make b m).fullmove (Board.make b m).halfmove m.bits =
      some (boardFields (Board.unmake (Board.make b m) m)) ∧
    vis (Board.unmake (Board.make b m) m) = vis b := by
  obtain ⟨hf1, hf2, hh, ht⟩ := wf_clocks h
  obtain ⟨-, hok⟩ := GenOK.genPseudo_ok h m hm
  refine ⟨?_, MakeUnmake.unmake_make hok⟩
  obtain ⟨-, -, -, -, -, hmv, hot⟩ := hok
  obtain ⟨-, -, hshape⟩ := hmv
  obtain ⟨-, -, hoth⟩ := hot
  unfold ShapeOK at hshape
  have e1 : (Board.make b m).turn = 1 - b.turn := rfl
  have e2 : (Board.make b m).fullmove = b.fullmove + b.turn := rfl
  refine rs_unmake_move_eq (Board.make b m) m (by rw [e1]; omega) (by rw [e1, e2]; omega) (by rw [e2]; omega) ?_ ?_
  · intro hc
    rw [if_pos hc] at hshape
    intro hn
    rw [hn] at hshape
    exact hshape
  · intro hc
    simp only [hc, Bool.false_eq_true, if_false] at hshape hoth
    by_cases he : m.f.enPassant = true
    · rw [if_pos he] at hoth
      refine ⟨by rw [hoth.1]; decide, fun h' => ?_⟩
      rw [he] at h'; exact absurd h' (by decide)
    · rw [if_neg he] at hoth hshape
      refine ⟨by omega, fun _ => ?_⟩
      by_cases hp : (m.f.promotion != NO_PIECE) = true
      · rw [if_pos hp] at hshape
        have : (m.f.promotion != 0) = true := hp
        rw [if_pos this]; omega
      · rw [if_neg hp] at hshape
        have : ¬ (m.f.promotion != 0) = true := hp
        rw [if_neg this]; omega

#print axioms rs_unmake_generated

/-- END-TO-END `is_move_legal` (`make; is_valid; unmake`, translated from the current source): for every generated move of
a well-formed board it never panics, returns the model's legality verdict and leaves the model's `unmake (make b m)` —
the original position up to the scratch word (second component of `rs_unmake_generated`) -/
theorem rs_is_move_legal_generated {b : Board} (h : wf b = true) {m : Board.Move} (hm : m ∈ genPseudo b) :
    Rs.Bitboard.is_move_legal (toRsSide b.white) (toRsSide b.black) b.turn b.ep b.fullmove b.halfmove m.bits
      rookF bishopF knightF whitePawnF blackPawnF kingF =
    some (isMoveLegal b m, boardFields (Board.unmake (Board.make b m) m)) := by
  unfold Rs.Bitboard.is_move_legal
  rw [rs_make_generated h hm]
  simp only [boardFields, Option.bind_eq_bind, Option.bind_some, rs_is_valid_after_make h m, (rs_unmake_generated h hm).1,
    Option.pure_def]

#print axioms rs_is_move_legal_generated

/-! non-vacuity: the hypotheses are satisfiable (1. e2-e4 in a small legal position, `GenCommon.demo_wf`, `demo_gen`) -/
example : vis (Board.unmake (Board.make demoPos demoMove) demoMove) = vis demoPos := (rs_unmake_generated demo_wf demo_gen).2
example : Rs.Bitboard.is_move_legal (toRsSide demoPos.white) (toRsSide demoPos.black) demoPos.turn demoPos.ep demoPos.fullmove
    demoPos.halfmove demoMove.bits rookF bishopF knightF whitePawnF blackPawnF kingF =
    some (isMoveLegal demoPos demoMove, boardFields (Board.unmake (Board.make demoPos demoMove) demoMove)) :=
  rs_is_move_legal_generated demo_wf demo_gen

end Inkayaku.Translated
