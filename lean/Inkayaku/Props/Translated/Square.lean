import Inkayaku.Model.Board
import Inkayaku.Gen.Rs.Square
import Inkayaku.Model.Uci
import Inkayaku.Props.Translated.Basic
/-! Part of `Props/Translated`: see `Props/Translated/Basic.lean` for the overview.  One file per translated Rust source, so that a
change of one Rust function re-opens exactly the obligations (and the properties) that depend on it. -/

namespace Inkayaku.Translated
open Inkayaku.Rs Inkayaku.Board

/-! ### e. `Square::from_chars` -/

/-- `Square::from_index` seen through the square index: `Some(square i)` for `i < 64` (the 64 `match` arms) -/
def squareFromIndex (i : Int) : Option Nat := if 0 ≤ i ∧ i < 64 then some i.toNat else none

theorem char_lt_2_21 (c : Char) : c.toNat < 1114112 := by
  have := c.valid
  rcases this with h | h
  · have : c.toNat < 55296 := h; omega
  · exact h.2

theorem rs_from_chars_eq (f r : Char) :
    Square.from_chars f r squareFromIndex = some (Uci.squareFromChars f r) := by
  unfold Square.from_chars Uci.squareFromChars
  have hf := char_lt_2_21 f
  have hr := char_lt_2_21 r
  have c1 : cast .usize (ofChar f) = (f.toNat : Int) := cast_usize (by simp [ofChar]) (by simp only [ofChar]; omega)
  have c2 : cast .usize (ofChar 'a') = 97 := by decide
  simp only [c1, c2, checkedSub]
  by_cases h97 : f.toNat < 97
  · rw [chk_eq_none (by left; simp only [Ty.lo]; omega)]
    simp [h97]
  · rw [chk_usize (by omega) (by omega)]
    simp only [h97, if_false]
    by_cases hd : FenSyntax.isAsciiDigit r = true
    · have hd' : 48 ≤ r.toNat ∧ r.toNat ≤ 57 := by
        simpa [FenSyntax.isAsciiDigit, Char.le_def, Char.lt_def, ← Char.toNat_val, UInt32.le_iff_toNat_le] using hd
      simp only [toDigit10, hd', and_self, if_true, hd, Bool.not_true, Bool.false_eq_true, if_false]
      have hw : cast .usize (wrappingSub .u32 8 ((r.toNat : Int) - 48)) = (((8 + 4294967296 - FenSyntax.digitVal r) % 4294967296 : Nat) : Int) := by
        simp only [wrappingSub, Rs.cast, Ty.lo, Ty.hi, Ty.modulus, FenSyntax.digitVal]; omega
      rw [hw]
      unfold Square.from_indices to_square_index_from_indices
      generalize (8 + 4294967296 - FenSyntax.digitVal r) % 4294967296 = rank
      by_cases h8 : f.toNat - 97 < 8 ∧ rank < 8
      · have h8' : ((f.toNat : Int) - 97 < 8) ∧ ((rank : Int) < 8) := by omega
        simp only [h8, h8', and_self, if_true, Option.bind_eq_bind, Option.pure_def]
        rw [chk_usize (by omega) (by omega)]
        simp only [Option.bind_some]
        rw [chk_usize (by omega) (by omega)]
        simp only [Option.bind_some, squareFromIndex]
        have : (0 : Int) ≤ (f.toNat : Int) - 97 + (rank : Int) * 8 ∧ (f.toNat : Int) - 97 + (rank : Int) * 8 < 64 := by omega
        simp only [this, and_self, if_true]
        congr 2; omega
      · have h8' : ¬ (((f.toNat : Int) - 97 < 8) ∧ ((rank : Int) < 8)) := by omega
        simp [h8, h8']
    · have hd' : ¬ (48 ≤ r.toNat ∧ r.toNat ≤ 57) := by
        simpa [FenSyntax.isAsciiDigit, Char.le_def, Char.lt_def, ← Char.toNat_val, UInt32.le_iff_toNat_le] using hd
      simp [toDigit10, hd', hd]


#print axioms rs_from_chars_eq

example : Square.from_chars 'e' '4' squareFromIndex = some (some 36) := by decide
example : Square.from_chars 'e' '9' squareFromIndex = some none := by decide
example : Square.from_chars 'A' '1' squareFromIndex = some none := by decide


end Inkayaku.Translated
