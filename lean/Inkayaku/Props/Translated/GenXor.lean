import Inkayaku.Props.Translated.ZobristXor
import Inkayaku.Props.Translated.GenCommon
import Inkayaku.Proofs.GenFacts
/-! Part of `Props/Translated`: see `Props/Translated/GenCommon.lean` for the description of the `…_generated` theorems.

### o3. the translated `Bitboard::zobrist_xor` on generated moves of well-formed boards

Must not import `Make.lean` / `Unmake.lean` / `GenMake.lean` / `GenUnmake.lean`: a change of the Rust `make` / `unmake` must leave
this theorem standing. -/

namespace Inkayaku.Translated
open Inkayaku.Board Inkayaku.Gen Inkayaku.MoveBits Inkayaku.WF

/-- GENERATED MOVES ON WELL-FORMED BOARDS: the translated `Bitboard::zobrist_xor` never panics and yields the model's hash delta -/
theorem rs_zobrist_xor_generated {b : Board} (h : wf b = true) {m : Board.Move} (hm : m ∈ genPseudo b) :
    Rs.Bitboard.zobrist_xor m.bits Zobrist.blackToMove zCastleF zEnPassantF zPieceSquareF = some (Zobrist.xorOf m.f) := by
  obtain ⟨-, hside, -, -, -, -, -, -, -, hk⟩ := GenFacts.genPseudo_hashok h m hm
  refine rs_zobrist_xor_move m ?_ ?_
  · intro hc
    rw [if_pos hc] at hk
    unfold ZobristStep.CastleOK at hk
    intro hn
    rw [hn] at hk
    exact hk
  · intro hc he hs
    simp only [hc, he, Bool.false_eq_true, if_false, if_true] at hk
    have : ¬ b.turn = 0 := by rw [← hside]; exact hs
    rw [if_neg this] at hk
    exact hk.2.2.1

#print axioms rs_zobrist_xor_generated

/-! non-vacuity: the hypotheses are satisfiable (1. e2-e4 in a small legal position, `GenCommon.demo_wf`, `demo_gen`) -/
example : Rs.Bitboard.zobrist_xor demoMove.bits Zobrist.blackToMove zCastleF zEnPassantF zPieceSquareF =
    some (Zobrist.xorOf demoMove.f) := rs_zobrist_xor_generated demo_wf demo_gen

end Inkayaku.Translated
