import Inkayaku.Props.Translated.GenerateScan
import Inkayaku.Props.Translated.Magic
/-! Part of `Props/Translated`: see `Props/Translated/Basic.lean` for the overview.

### r. piece moves of the generator: `Bitboard::{generate_attacks, sliding_moves, single_moves}` (board/src/board.rs; generated
module `Generate`) = `Board.genAttacks`, `slidingMoves`, `singleMoves` (Model/Board.lean) AS LISTS, in the same order

`result: &mut Vec<Move>` is an in/out list of packed moves; the theorems take it as `acc.map encMove` for the model's
accumulator `acc` and show that the function returns `(model acc).map encMove`.  The attack table passed as `magics: &Magics` /
`nonmagics: &Nonmagics` is the lookup FUNCTION of the table (`rookF` / `bishopF` = what `Props/Translated/Magic.lean` proves
`Magics::get_attacks` computes; `leaperAttacks tbl`).  Panics: none for a piece code ≤ 6; the fuel (one unit per loop
iteration, two nested loops) suffices from 130 on.
-/

namespace Inkayaku.Translated
open Inkayaku.Board Inkayaku.Gen Inkayaku.Bits

/-- a quiet / capturing move of a piece (`generate_attacks`' call of `make_move`): no panic for a target on the board -/
theorem rs_make_move_plain (b : Board) (acc : List Board.Move) (nq : Bool) (src tgt piece : Nat) (hp : piece ≤ 6) (ht : tgt < 64) :
    Rs.Bitboard.make_move (toRsSide b.white) (toRsSide b.black) b.turn b.ep b.halfmove (acc.map encMove) nq src tgt piece.toUInt64
        Rs.CASTLE_MOVE_FALSE_MASK Rs.EN_PASSANT_ATTACK_FALSE_MASK Rs.NO_PIECE Rs.NO_SQUARE =
      some ((pushOpt acc (mkMove b nq src tgt piece false false NO_PIECE 0)).map encMove) := by
  rw [rs_flag_consts.2.1, rs_flag_consts.2.2.2.1, rs_flag_consts.2.2.2.2, rs_piece_consts.1]
  exact rs_make_move_push b acc nq src tgt piece false false NO_PIECE 0 hp (by decide) (by cases b.whiteTurn <;> simpa using ht)
    (by intro _ h; cases h)

theorem rs_generate_attacks_eq (b : Board) (acc : List Board.Move) (nq : Bool) (src : Nat) (att : UInt64) (piece : Nat)
    (hp : piece ≤ 6) (fuel : Nat) (hf : 65 ≤ fuel) :
    Rs.Bitboard.generate_attacks (toRsSide b.white) (toRsSide b.black) b.turn b.ep b.halfmove (acc.map encMove) nq src att
        piece.toUInt64 fuel = some ((genAttacks b nq src att piece acc).map encMove) := by
  unfold Rs.Bitboard.generate_attacks genAttacks
  have key := scan_loop
    (fun fuel st x => Rs.Bitboard.generate_attacks.while_1 (toRsSide b.white) (toRsSide b.black) b.turn b.ep b.halfmove nq src
      piece.toUInt64 fuel st x)
    (List.map encMove) (fun acc tgt => pushOpt acc (mkMove b nq src tgt piece false false NO_PIECE 0)) 0 (fun _ => True)
    (by intro fuel a; simp [Rs.Bitboard.generate_attacks.while_1])
    (by
      intro fuel a x hx _ _
      simp only [Rs.Bitboard.generate_attacks.while_1, ne_eq, hx, not_false_eq_true, if_true, rs_mask_and_shift x hx,
        Option.bind_eq_bind, Option.bind_some, rs_make_move_plain b a nq src _ piece hp (tz_lt x hx)])
    fuel att acc (fun _ _ => trivial) (by have := GenLength.bitsAsc_length_le att; omega)
  simp only [key, Option.bind_eq_bind, Option.bind_some, Option.pure_def]


theorem rs_sliding_moves_eq (b : Board) (acc : List Board.Move) (nq : Bool) (pieceOcc activeOcc fullOcc : UInt64) (rook : Bool)
    (piece : Nat) (hp : piece ≤ 6) (fuel : Nat) (hf : 130 ≤ fuel) :
    Rs.Bitboard.sliding_moves (toRsSide b.white) (toRsSide b.black) b.turn b.ep b.halfmove (acc.map encMove) nq pieceOcc
        activeOcc fullOcc (if rook then rookF else bishopF) piece.toUInt64 fuel =
      some ((slidingMoves b nq pieceOcc activeOcc fullOcc rook piece acc).map encMove) := by
  unfold Rs.Bitboard.sliding_moves slidingMoves
  have key := scan_loop
    (fun fuel st x => Rs.Bitboard.sliding_moves.while_1 (toRsSide b.white) (toRsSide b.black) b.turn b.ep b.halfmove nq
      activeOcc fullOcc (if rook then rookF else bishopF) piece.toUInt64 fuel st x)
    (List.map encMove)
    (fun acc src => genAttacks b nq src ((if rook then rookAttacks src fullOcc else bishopAttacks src fullOcc) &&& ~~~activeOcc) piece acc)
    65 (fun _ => True)
    (by intro fuel a; simp [Rs.Bitboard.sliding_moves.while_1])
    (by
      intro fuel a x hx hK _
      have e : (if rook then rookF else bishopF) ((trailingZeros x : Nat) : Int) fullOcc =
          (if rook then rookAttacks (trailingZeros x) fullOcc else bishopAttacks (trailingZeros x) fullOcc) := by
        cases rook <;> simp [rookF, bishopF]
      simp only [Rs.Bitboard.sliding_moves.while_1, ne_eq, hx, not_false_eq_true, if_true, rs_mask_and_shift x hx,
        Option.bind_eq_bind, Option.bind_some, e, rs_generate_attacks_eq b a nq _ _ piece hp fuel hK])
    fuel pieceOcc acc (fun _ _ => trivial) (fuel_ok _ _ _ (by omega) hf)
  simp only [key, Option.bind_eq_bind, Option.bind_some, Option.pure_def]

theorem rs_single_moves_eq (b : Board) (acc : List Board.Move) (nq : Bool) (pieceOcc activeOcc : UInt64) (tbl : List Nat)
    (piece : Nat) (hp : piece ≤ 6) (fuel : Nat) (hf : 130 ≤ fuel) :
    Rs.Bitboard.single_moves (toRsSide b.white) (toRsSide b.black) b.turn b.ep b.halfmove (acc.map encMove) nq pieceOcc
        activeOcc (fun sq => leaperAttacks tbl sq.toNat) piece.toUInt64 fuel =
      some ((singleMoves b nq pieceOcc activeOcc tbl piece acc).map encMove) := by
  unfold Rs.Bitboard.single_moves singleMoves
  have key := scan_loop
    (fun fuel st x => Rs.Bitboard.single_moves.while_1 (toRsSide b.white) (toRsSide b.black) b.turn b.ep b.halfmove nq
      activeOcc (fun sq => leaperAttacks tbl sq.toNat) piece.toUInt64 fuel st x)
    (List.map encMove)
    (fun acc src => genAttacks b nq src (leaperAttacks tbl src &&& ~~~activeOcc) piece acc)
    65 (fun _ => True)
    (by intro fuel a; simp [Rs.Bitboard.single_moves.while_1])
    (by
      intro fuel a x hx hK _
      simp only [Rs.Bitboard.single_moves.while_1, ne_eq, hx, not_false_eq_true, if_true, rs_mask_and_shift x hx,
        Option.bind_eq_bind, Option.bind_some, Int.toNat_natCast, rs_generate_attacks_eq b a nq _ _ piece hp fuel hK])
    fuel pieceOcc acc (fun _ _ => trivial) (fuel_ok _ _ _ (by omega) hf)
  simp only [key, Option.bind_eq_bind, Option.bind_some, Option.pure_def]

#print axioms rs_generate_attacks_eq
#print axioms rs_sliding_moves_eq
#print axioms rs_single_moves_eq

/-! non-vacuity: the knight moves of the initial position -/
example : (singleMoves ctorDemo false 0x4200000000000000 ctorDemo.white.full knightTable KNIGHT []).length = 4 := by decide +kernel

end Inkayaku.Translated
