import Inkayaku.Model.Board
import Inkayaku.Proofs.Bits
import Inkayaku.Proofs.GenLength
import Inkayaku.Gen.Rs.Generate
import Inkayaku.Props.Translated.GenerateCtor
/-! Part of `Props/Translated`: see `Props/Translated/Basic.lean` for the overview.

### q. the bit-scan loops of the move generator and the constants it uses (generated module `Generate`)

Every loop of the generator has the shape `while occ != 0 { let (mask, shift) = mask_and_shift_from_lowest_one_bit(occ);
occ &= !mask; BODY(shift) }`; the model writes it as a fold over `bitsAsc occ = (List.range 64).filter (testU occ)`.

* `bitsAsc_pop`: popping the lowest set bit enumerates `bitsAsc occ` in increasing order;
* `rs_mask_and_shift`: the translated `mask_and_shift_from_lowest_one_bit` on a non-empty word;
* `scan_loop`: a translated loop of that shape (a function of the remaining FUEL, the state and the word) whose body is a
  model step `g` computes `(bitsAsc occ).foldl g`, as soon as the fuel exceeds the number of set bits (≤ 64) plus what the
  body needs;
* `rs_gen_consts`: the rank / castling masks and flag masks REGENERATED from constants.rs are those of the build
  (`Gen.BoardConsts`) the model uses.
-/

namespace Inkayaku.Translated
open Inkayaku.Board Inkayaku.Gen Inkayaku.Bits

/-! #### popping the lowest set bit -/

theorem filter_of_find {α : Type} [DecidableEq α] (p : α → Bool) :
    ∀ (l : List α) (t : α), l.Nodup → l.find? p = some t → l.filter p = t :: l.filter (fun s => p s && s != t)
  | [], _, _, h => by simp at h
  | a :: l, t, hn, h => by
    have hn' := List.nodup_cons.mp hn
    by_cases hp : p a = true
    · have : t = a := by simpa [List.find?_cons, hp] using h.symm
      subst this
      rw [List.filter_cons_of_pos hp]
      congr 1
      rw [List.filter_cons_of_neg (by simp)]
      apply List.filter_congr
      intro s hs
      have : s ≠ t := fun e => hn'.1 (e ▸ hs)
      simp [this]
    · have hp' : p a = false := by simpa using hp
      have h' : l.find? p = some t := by simpa [List.find?_cons, hp'] using h
      rw [List.filter_cons_of_neg (by simp [hp']), filter_of_find p l t hn'.2 h', List.filter_cons_of_neg (by simp [hp'])]

theorem tz_spec (x : UInt64) (h : x ≠ 0) :
    (List.range 64).find? (testU x) = some (trailingZeros x) ∧ trailingZeros x < 64 ∧ testU x (trailingZeros x) = true := by
  have hne : (x != 0) = true := by simpa using h
  obtain ⟨t, ht, hx⟩ := (Bits.ne_zero_iff x).mp hne
  have hsome : ((List.range 64).find? (testU x)).isSome = true := by
    rw [List.find?_isSome]; exact ⟨t, List.mem_range.mpr ht, hx⟩
  obtain ⟨u, hu⟩ := Option.isSome_iff_exists.mp hsome
  have e : trailingZeros x = u := by simp [trailingZeros, hu]
  rw [e]
  exact ⟨hu, List.mem_range.mp (List.mem_of_find?_eq_some hu), List.find?_some hu⟩

theorem tz_lt (x : UInt64) (h : x ≠ 0) : trailingZeros x < 64 := (tz_spec x h).2.1

theorem testU_compl (x : UInt64) (t : Nat) (ht : t < 64) : testU (~~~x) t = !testU x t := by
  unfold testU
  rw [UInt64.toNat_not, show 2 ^ 64 - 1 - x.toNat = 2 ^ 64 - (x.toNat + 1) by omega]
  exact (Nat.testBit_two_pow_sub_succ x.toNat_lt t).trans (by simp [ht])

theorem testU_pop (x : UInt64) (t s : Nat) (ht : t < 64) (hs : s < 64) :
    testU (x &&& ~~~bitU t) s = (testU x s && s != t) := by
  rw [testU_and, testU_compl _ _ hs, testU_bitU t s ht]
  by_cases e : t = s
  · subst e; simp
  · have : s ≠ t := fun h => e h.symm
    simp [e, this]

/-- popping the lowest set bit enumerates `bitsAsc` in increasing order -/
theorem bitsAsc_pop (x : UInt64) (h : x ≠ 0) :
    bitsAsc x = trailingZeros x :: bitsAsc (x &&& ~~~bitU (trailingZeros x)) := by
  obtain ⟨hf, hlt, _⟩ := tz_spec x h
  unfold bitsAsc
  rw [filter_of_find (testU x) _ _ List.nodup_range hf]
  congr 1
  apply List.filter_congr
  intro s hs
  rw [testU_pop x _ s hlt (List.mem_range.mp hs)]

theorem bitsAsc_zero : bitsAsc 0 = [] := by decide

theorem mem_bitsAsc_pop {x : UInt64} (h : x ≠ 0) {s : Nat} (hs : s ∈ bitsAsc (x &&& ~~~bitU (trailingZeros x))) :
    s ∈ bitsAsc x := by
  rw [bitsAsc_pop x h]; exact List.mem_cons_of_mem _ hs

theorem tz_mem_bitsAsc {x : UInt64} (h : x ≠ 0) : trailingZeros x ∈ bitsAsc x := by
  rw [bitsAsc_pop x h]; exact List.mem_cons_self

/-- `mask_and_shift_from_lowest_one_bit` on a non-empty word (on 0 the shift `1 << 64` panics; every loop tests `!= 0` first) -/
theorem rs_mask_and_shift (x : UInt64) (h : x ≠ 0) :
    Rs.mask_and_shift_from_lowest_one_bit x = some (bitU (trailingZeros x), ((trailingZeros x : Nat) : Int)) := by
  unfold Rs.mask_and_shift_from_lowest_one_bit
  simp only [u64Tz_eq, u64Shl_natCast _ _ (tz_lt x h), Option.bind_eq_bind, Option.bind_some, Option.pure_def, bitU]

theorem rs_mask_and_shift_zero : Rs.mask_and_shift_from_lowest_one_bit 0 = none := by decide

/-! #### a translated bit-scan loop = a fold over `bitsAsc` -/

/-- `loop fuel state occ` is a translated `while occ != 0 { pop lowest bit; BODY }` with state `enc a` (`a` = the model's
accumulator).  If one iteration with at least `K` units of fuel left performs the model step `g` (`hstep`, for squares
satisfying `P`) and the loop exits on the empty word (`hexit`), then with more than `K + popcount` units of fuel the loop
computes the model's fold.  (`K` = what the body needs: 0 for `make_move`, 65 for a nested scan.) -/
theorem scan_loop {σ τ : Type} (loop : Nat → σ → UInt64 → Option (σ × UInt64)) (enc : τ → σ) (g : τ → Nat → τ) (K : Nat)
    (P : Nat → Prop)
    (hexit : ∀ fuel a, loop (fuel + 1) (enc a) 0 = some (enc a, 0))
    (hstep : ∀ fuel a x, x ≠ 0 → K ≤ fuel → P (trailingZeros x) →
      loop (fuel + 1) (enc a) x = loop fuel (enc (g a (trailingZeros x))) (x &&& ~~~bitU (trailingZeros x))) :
    ∀ (fuel : Nat) (x : UInt64) (a : τ), (∀ s ∈ bitsAsc x, P s) → K + (bitsAsc x).length < fuel →
      loop fuel (enc a) x = some (enc ((bitsAsc x).foldl g a), 0)
  | 0, _, _, _, h => by omega
  | fuel + 1, x, a, hP, h => by
    by_cases hx : x = 0
    · subst hx; rw [hexit, bitsAsc_zero]; rfl
    · have hpop := bitsAsc_pop x hx
      rw [hstep fuel a x hx (by omega) (hP _ (tz_mem_bitsAsc hx))]
      rw [scan_loop loop enc g K P hexit hstep fuel _ _ (fun s hs => hP s (mem_bitsAsc_pop hx hs))
        (by rw [hpop, List.length_cons] at h; omega)]
      rw [hpop, List.foldl_cons]

/-- every fuel from 130 on suffices for two nested scans (64 + 1 units each) -/
theorem fuel_ok (x : UInt64) (K fuel : Nat) (hK : K ≤ 65) (h : 130 ≤ fuel) : K + (bitsAsc x).length < fuel := by
  have := GenLength.bitsAsc_length_le x
  omega

/-! #### the regenerated constants -/

theorem rs_gen_consts :
    Rs.RANK_1_OCCUPANCY = some rank1.toUInt64 ∧ Rs.RANK_2_OCCUPANCY = some rank2.toUInt64 ∧
    Rs.RANK_7_OCCUPANCY = some rank7.toUInt64 ∧ Rs.RANK_8_OCCUPANCY = some rank8.toUInt64 ∧
    Rs.WHITE_QUEEN_SIDE_CASTLE_EMPTY_OCCUPANCY = some whiteQueenSideCastleEmpty.toUInt64 ∧
    Rs.WHITE_KING_SIDE_CASTLE_EMPTY_OCCUPANCY = some whiteKingSideCastleEmpty.toUInt64 ∧
    Rs.BLACK_QUEEN_SIDE_CASTLE_EMPTY_OCCUPANCY = some blackQueenSideCastleEmpty.toUInt64 ∧
    Rs.BLACK_KING_SIDE_CASTLE_EMPTY_OCCUPANCY = some blackKingSideCastleEmpty.toUInt64 ∧
    Rs.WHITE_QUEEN_SIDE_CASTLE_CHECK_OCCUPANCY = some whiteQueenSideCastleCheck.toUInt64 ∧
    Rs.WHITE_KING_SIDE_CASTLE_CHECK_OCCUPANCY = some whiteKingSideCastleCheck.toUInt64 ∧
    Rs.BLACK_QUEEN_SIDE_CASTLE_CHECK_OCCUPANCY = some blackQueenSideCastleCheck.toUInt64 ∧
    Rs.BLACK_KING_SIDE_CASTLE_CHECK_OCCUPANCY = some blackKingSideCastleCheck.toUInt64 := by
  decide +kernel

theorem rs_flag_consts :
    Rs.CASTLE_MOVE_TRUE_MASK = flagBits true castleMoveTrueMask ∧ Rs.CASTLE_MOVE_FALSE_MASK = flagBits false castleMoveTrueMask ∧
    Rs.EN_PASSANT_ATTACK_TRUE_MASK = flagBits true enPassantAttackTrueMask ∧
    Rs.EN_PASSANT_ATTACK_FALSE_MASK = flagBits false enPassantAttackTrueMask ∧
    Rs.NO_SQUARE = ((0 : Nat) : Int) := by
  decide +kernel

#print axioms bitsAsc_pop
#print axioms scan_loop
#print axioms rs_gen_consts

/-! non-vacuity -/
example : bitsAsc 0x8100000000000081 = [0, 7, 56, 63] := by decide +kernel
example : Rs.mask_and_shift_from_lowest_one_bit 0x8100000000000080 = some (bitU 7, 7) := by decide +kernel

end Inkayaku.Translated
