import Inkayaku.Model.Board
import Inkayaku.Gen.Rs.MoveCtor
import Inkayaku.Props.Translated.MoveBits
import Inkayaku.Props.Translated.Check
/-! Part of `Props/Translated`: see `Props/Translated/Basic.lean` for the overview.

### p. the move constructor of the generator: `Bitboard::make_move`, `Bitboard::mvv_lva`, `PIECE_VALUES`,
`PlayerState::{get_piece_const_by_square_shift, get_piece_const_by_square_mask}` (board/src/board.rs; generated module `MoveCtor`)
= `Board.mkMove`, `mvvLva`, `pieceValues`, `Side.pieceAt`, `Side.pieceAtMask` (Model/Board.lean)

`make_move` computes, at GENERATION time, all side effects of a move (captured piece, lost castling rights of both sides,
half-move reset, previous clock / e.p. square, the e.p. victim square) and packs them with the setters of `impl Move`; it
pushes the move onto `result: &mut Vec<Move>` unless the capture/promotion-only generator asked for it and it is quiet.

Translation: `result` is an in/out parameter, a `List (UInt64 × Int)` of PACKED moves (`(bits, mvvlva)`; `Move` is a
flattened struct in bit-manipulating functions); the local `mv` is the pair of variables `mv_bits`, `mv_mvvlva`.

`rs_make_move_ctor_eq`: for piece codes ≤ 6 the translated function never panics and appends exactly the model's move
(`mkMove`), provided the square looked up for the captured piece is on the board (`hatt`) and — black to move, e.p. — the
`u32` subtraction `target - 8` does not underflow (`hep`); these are the exact panic conditions.
-/

set_option linter.unusedSimpArgs false

namespace Inkayaku.Translated
open Inkayaku.Board Inkayaku.Gen Inkayaku.MoveBits

/-- the packed form of a move in the translated generator: the fields of `struct Move` in declaration order -/
def encMove (m : Board.Move) : UInt64 × Int := (m.bits, m.mvvlva)

theorem rs_is_white_turn (t : Nat) : Rs.Bitboard.is_white_turn (t : Int) = some (t == 0) := by
  unfold Rs.Bitboard.is_white_turn Rs.WHITE
  by_cases h : t = 0
  · subst h; rfl
  · have : ¬ ((t : Int) = 0) := by omega
    simp [h, this]

theorem rs_piece_at_mask (s : Side) (m : UInt64) :
    Rs.PlayerState.get_piece_const_by_square_mask (toRsSide s).occupancy m = some (s.pieceAtMask m).toUInt64 := by
  unfold Rs.PlayerState.get_piece_const_by_square_mask Side.pieceAtMask
  simp only [rs_side_kings, rs_side_queens, rs_side_rooks, rs_side_bishops, rs_side_knights, rs_side_pawns,
    Option.bind_eq_bind, Option.bind_some, Option.pure_def, bne_iff_ne, ne_eq]
  obtain ⟨h0, h1, h2, h3, h4, h5, h6⟩ := rs_piece_consts
  rw [h0, h1, h2, h3, h4, h5, h6]
  repeat' split
  all_goals rfl

theorem pieceAtMask_le (s : Side) (m : UInt64) : s.pieceAtMask m ≤ 6 := by
  unfold Side.pieceAtMask
  repeat' split
  all_goals decide

theorem rs_piece_at (s : Side) (sq : Nat) (h : sq < 64) :
    Rs.PlayerState.get_piece_const_by_square_shift (toRsSide s).occupancy (sq : Int) = some (s.pieceAt sq).toUInt64 := by
  unfold Rs.PlayerState.get_piece_const_by_square_shift Side.pieceAt
  rw [u64Shl_natCast _ _ h]
  simp only [Option.bind_eq_bind, Option.bind_some]
  exact rs_piece_at_mask s _

theorem rs_mvv_lva (piece attacked : Nat) (hp : piece ≤ 6) (ha : attacked ≤ 6) :
    Rs.Bitboard.mvv_lva piece.toUInt64 attacked.toUInt64 = some (mvvLva piece attacked) := by
  have : piece = 0 ∨ piece = 1 ∨ piece = 2 ∨ piece = 3 ∨ piece = 4 ∨ piece = 5 ∨ piece = 6 := by omega
  have : attacked = 0 ∨ attacked = 1 ∨ attacked = 2 ∨ attacked = 3 ∨ attacked = 4 ∨ attacked = 5 ∨ attacked = 6 := by omega
  rcases ‹piece = 0 ∨ _› with h | h | h | h | h | h | h <;> subst h <;>
  rcases ‹attacked = 0 ∨ _› with h | h | h | h | h | h | h <;> subst h <;> decide


theorem flagBits_eq_zero (c : Bool) : (flagBits c enPassantAttackTrueMask = (0 : UInt64)) ↔ c = false := by
  cases c <;> decide

/-- `passive.flag && target == (SQ + d)` / the first disjunct of the `self lost` tests: the `u32` sum / difference cannot overflow -/
theorem flag_and_eq (c : Bool) (t : Nat) (x : Int) (n : Nat) (hx : Rs.chk .u32 x = some (n : Int)) :
    (if c = true then (Rs.chk .u32 x).bind (fun l => some (decide ((t : Int) = l))) else some false) = some (c && t == n) := by
  rw [hx]
  cases c
  · rfl
  · by_cases h : t = n
    · subst h; simp
    · have : ¬ ((t : Int) = (n : Int)) := by omega
      simp [h, this]

theorem flag_and_or_eq (c : Bool) (s : Nat) (x y : Int) (n m : Nat) (hx : Rs.chk .u32 x = some (n : Int))
    (hy : Rs.chk .u32 y = some (m : Int)) :
    (if c = true then (Rs.chk .u32 x).bind (fun l => if (s : Int) = l then some true else
        (Rs.chk .u32 y).bind fun l => some (decide ((s : Int) = l))) else some false) = some (c && (s == n || s == m)) := by
  rw [hx, hy]
  cases c
  · rfl
  · by_cases h : s = n
    · subst h; simp
    · have : ¬ ((s : Int) = (n : Int)) := by omega
      by_cases h2 : s = m
      · subst h2; simp [this]
      · have : ¬ ((s : Int) = (m : Int)) := by omega
        simp [h, h2, *]

theorem toUInt64_eq_iff (a c : Nat) (ha : a ≤ 6) (hc : c ≤ 6) : a.toUInt64 = c.toUInt64 ↔ a = c := by
  constructor
  · intro h
    have := congrArg UInt64.toNat h
    simp only [Nat.toUInt64_eq, UInt64.toNat_ofNat'] at this
    omega
  · intro h; rw [h]

theorem piece_const_iff (a : Nat) (ha : a ≤ 6) :
    (a.toUInt64 = Rs.NO_PIECE ↔ a = NO_PIECE) ∧ (a.toUInt64 = Rs.PAWN ↔ a = PAWN) := by
  rw [rs_piece_consts.1, rs_piece_consts.2.1]
  exact ⟨toUInt64_eq_iff a NO_PIECE ha (by decide), toUInt64_eq_iff a PAWN ha (by decide)⟩

theorem if_flag (P : Prop) [Decidable P] (x : UInt64) (m : Nat) :
    (if P then some (x ||| m.toUInt64) else some x) = some (x ||| flagBits (decide P) m) := by
  by_cases h : P <;> simp [h, flagBits]

theorem if_flagB (c : Bool) (x : UInt64) (m : Nat) :
    (if c = true then some (x ||| m.toUInt64) else some x) = some (x ||| flagBits c m) := by
  cases c <;> simp [flagBits]

theorem if_flag2 (oq c : Bool) (x : UInt64) (q k : Nat) :
    (if oq = true then some (x ||| q.toUInt64) else some (x ||| flagBits c k)) =
      some (x ||| flagBits oq q ||| flagBits (!oq && c) k) := by
  cases oq <;> cases c <;> simp [flagBits]

/-- the part of `make_move` after the side-dependent prologue: the setter chain builds `encode` of the model's field record -/
theorem ctor_tail (active passive : Side) (b : Board) (result : List (UInt64 × Int)) (nq : Bool) (src tgt piece : Nat)
    (castle ep : Bool) (promo epOpp att : Nat) (a8 h8 a1 e1 h1 e1' : Nat) (hp : piece ≤ 6) (hpr : promo ≤ 6) (hatt6 : att ≤ 6) :
    (if (decide (att.toUInt64 = Rs.NO_PIECE) && decide (promo.toUInt64 = Rs.NO_PIECE) && nq) = true then some result
    else
      (Rs.Move.set_en_passant_attack 0 (flagBits ep enPassantAttackTrueMask)).bind fun mv_bits =>
        (Rs.Move.set_next_en_passant_square mv_bits ↑epOpp).bind fun mv_bits =>
          (Rs.Move.set_piece_moved mv_bits piece.toUInt64).bind fun mv_bits =>
            (Rs.Move.set_piece_attacked mv_bits att.toUInt64).bind fun mv_bits =>
              (Rs.Move.set_source_square mv_bits ↑src).bind fun mv_bits =>
                (Rs.Move.set_target_square mv_bits ↑tgt).bind fun mv_bits =>
                  (Rs.Move.set_castle_move mv_bits (flagBits castle castleMoveTrueMask)).bind fun mv_bits =>
                    (Rs.Move.set_previous_halfmove mv_bits ↑b.halfmove).bind fun mv_bits =>
                      (Rs.Move.set_previous_en_passant_square mv_bits ↑b.ep).bind fun mv_bits =>
                        (Rs.Move.set_promotion_piece mv_bits promo.toUInt64).bind fun mv_bits =>
                          (Rs.Move.set_side_to_move mv_bits ↑b.turn).bind fun mv_bits =>
                            (if piece.toUInt64 = Rs.PAWN ∨ att.toUInt64 ≠ Rs.NO_PIECE then Rs.Move.set_halfmove_reset mv_bits
                                else some mv_bits).bind fun mv_bits =>
                              (some ((toRsSide passive).queen_side_castle && tgt == a8)).bind fun __do_lift =>
                                (if __do_lift = true then Rs.Move.set_opponent_lost_queen_side_castle mv_bits
                                    else
                                      (some ((toRsSide passive).king_side_castle && tgt == h8)).bind fun __do_lift =>
                                        if __do_lift = true then Rs.Move.set_opponent_lost_king_side_castle mv_bits
                                        else some mv_bits).bind fun mv_bits =>
                                  (some ((toRsSide active).queen_side_castle && (src == a1 || src == e1))).bind fun __do_lift =>
                                    (if __do_lift = true then Rs.Move.set_self_lost_queen_side_castle mv_bits
                                        else some mv_bits).bind fun mv_bits =>
                                      (some ((toRsSide active).king_side_castle && (src == h1 || src == e1'))).bind fun __do_lift =>
                                        (if __do_lift = true then Rs.Move.set_self_lost_king_side_castle mv_bits
                                            else some mv_bits).bind fun mv_bits =>
                                          (Rs.Bitboard.mvv_lva piece.toUInt64 att.toUInt64).bind fun mv_mvvlva =>
                                            some (result ++ [(mv_bits, mv_mvvlva)])) =
    some (result ++ List.map encMove
      (if (att == NO_PIECE && promo == NO_PIECE && nq) = true then none
       else some
        { bits := encode
            { pieceMoved := piece, pieceAttacked := att,
              selfLostKing := active.ks && (src == h1 || src == e1'),
              selfLostQueen := active.qs && (src == a1 || src == e1),
              oppLostKing := !(passive.qs && tgt == a8) && passive.ks && tgt == h8,
              oppLostQueen := passive.qs && tgt == a8, castle := castle, enPassant := ep, source := src,
              target := tgt, halfmoveReset := piece == PAWN || att != NO_PIECE, prevHalfmove := b.halfmove,
              prevEp := b.ep, nextEp := epOpp, promotion := promo, side := b.turn },
          mvvlva := mvvLva piece att }).toList) := by
  simp only [Option.bind_some, rs_set_en_passant_attack, rs_set_next_en_passant_square, rs_set_piece_moved,
    rs_set_piece_attacked, rs_set_source_square, rs_set_target_square, rs_set_castle_move, rs_set_previous_halfmove,
    rs_set_previous_en_passant_square, rs_set_promotion_piece, rs_set_side_to_move, rs_set_halfmove_reset,
    rs_set_opponent_lost_queen_side_castle, rs_set_opponent_lost_king_side_castle, rs_set_self_lost_queen_side_castle,
    rs_set_self_lost_king_side_castle, rs_mvv_lva piece att hp hatt6]
  simp only [if_flagB]
  simp only [if_flag, ne_eq, (piece_const_iff att hatt6).1, (piece_const_iff promo hpr).1, (piece_const_iff piece hp).2]
  simp only [if_flag2, Option.bind_some]
  by_cases hret : (att == NO_PIECE && promo == NO_PIECE && nq) = true
  · have : (decide (att = NO_PIECE) && decide (promo = NO_PIECE) && nq) = true := by simpa using hret
    rw [if_pos this, if_pos hret]; simp
  · have : ¬ (decide (att = NO_PIECE) && decide (promo = NO_PIECE) && nq) = true := by simpa using hret
    rw [if_neg this, if_neg hret]
    simp only [Option.toList, List.map, encMove, encode]
    have e1 : decide (piece = PAWN ∨ ¬att = NO_PIECE) = (piece == PAWN || att != NO_PIECE) := by
      by_cases h1 : piece = PAWN <;> by_cases h2 : att = NO_PIECE <;> simp [h1, h2]
    rw [e1]
    simp only [toRsSide, Bool.and_assoc]

theorem rs_make_move_ctor_eq (b : Board) (result : List (UInt64 × Int)) (nq : Bool) (src tgt piece : Nat) (castle ep : Bool)
    (promo epOpp : Nat) (hp : piece ≤ 6) (hpr : promo ≤ 6)
    (hatt : (if b.whiteTurn then tgt + (if ep then 8 else 0) else tgt - (if ep then 8 else 0)) < 64)
    (hep : b.whiteTurn = false → ep = true → 8 ≤ tgt) :
    Rs.Bitboard.make_move (toRsSide b.white) (toRsSide b.black) b.turn b.ep b.halfmove result nq src tgt piece.toUInt64
        (flagBits castle castleMoveTrueMask) (flagBits ep enPassantAttackTrueMask) promo.toUInt64 epOpp =
      some (result ++ (mkMove b nq src tgt piece castle ep promo epOpp).toList.map encMove) := by
  unfold Rs.Bitboard.make_move mkMove
  simp only [rs_is_white_turn, flagBits_eq_zero, Option.bind_eq_bind, Option.bind_some, Option.pure_def]
  by_cases hw : b.turn = 0
  · have hw' : b.whiteTurn = true := by simp [Board.whiteTurn, hw]
    have hbeq : (b.turn == 0) = true := by simp [hw]
    simp only [hw', if_true] at hatt
    simp only [hbeq, hw', if_true, Board.active, Board.passive]
    have h1 : Rs.chk .u32 ((tgt : Int) + if ep = false then 0 else 8) = some ((tgt + if ep = true then 8 else 0 : Nat) : Int) := by
      cases ep <;> simp at hatt ⊢ <;> exact Rs.chk_u32 (by omega) (by omega)
    rw [h1]
    simp only [Option.bind_some, rs_piece_at _ _ hatt]
    have hatt6 := pieceAtMask_le b.black (bitU (tgt + if ep = true then 8 else 0))
    change b.black.pieceAt _ ≤ 6 at hatt6
    generalize b.black.pieceAt (tgt + if ep = true then 8 else 0) = att at hatt6 ⊢
    rw [flag_and_eq _ _ _ 0 (by decide), flag_and_eq _ _ _ 7 (by decide), flag_and_or_eq _ _ _ _ 56 60 (by decide) (by decide),
      flag_and_or_eq _ _ _ _ 63 60 (by decide) (by decide)]
    exact ctor_tail b.white b.black b result nq src tgt piece castle ep promo epOpp att _ _ _ _ _ _ hp hpr hatt6
  · have hw' : b.whiteTurn = false := by simp [Board.whiteTurn, hw]
    have hbeq : ¬ (b.turn == 0) = true := by simp [hw]
    simp only [hw', Bool.false_eq_true, if_false] at hatt
    simp only [hbeq, hw', Bool.false_eq_true, if_false, Board.active, Board.passive]
    have h1 : Rs.chk .u32 ((tgt : Int) - if ep = false then 0 else 8) = some ((tgt - if ep = true then 8 else 0 : Nat) : Int) := by
      cases ep
      · simp at hatt ⊢; exact Rs.chk_u32 (by omega) (by omega)
      · have := hep hw' rfl
        simp at hatt ⊢
        rw [Rs.chk_u32 (by omega) (by omega)]; congr 1; omega
    rw [h1]
    simp only [Option.bind_some, rs_piece_at _ _ hatt]
    have hatt6 := pieceAtMask_le b.white (bitU (tgt - if ep = true then 8 else 0))
    change b.white.pieceAt _ ≤ 6 at hatt6
    generalize b.white.pieceAt (tgt - if ep = true then 8 else 0) = att at hatt6 ⊢
    rw [flag_and_eq _ _ _ 56 (by decide), flag_and_eq _ _ _ 63 (by decide), flag_and_or_eq _ _ _ _ 0 4 (by decide) (by decide),
      flag_and_or_eq _ _ _ _ 7 4 (by decide) (by decide)]
    exact ctor_tail b.black b.white b result nq src tgt piece castle ep promo epOpp att _ _ _ _ _ _ hp hpr hatt6


#print axioms rs_make_move_ctor_eq

/-- the same in the accumulator style of the model's generator (`pushOpt`) -/
theorem rs_make_move_push (b : Board) (acc : List Board.Move) (nq : Bool) (src tgt piece : Nat) (castle ep : Bool)
    (promo epOpp : Nat) (hp : piece ≤ 6) (hpr : promo ≤ 6)
    (hatt : (if b.whiteTurn then tgt + (if ep then 8 else 0) else tgt - (if ep then 8 else 0)) < 64)
    (hep : b.whiteTurn = false → ep = true → 8 ≤ tgt) :
    Rs.Bitboard.make_move (toRsSide b.white) (toRsSide b.black) b.turn b.ep b.halfmove (acc.map encMove) nq src tgt piece.toUInt64
        (flagBits castle castleMoveTrueMask) (flagBits ep enPassantAttackTrueMask) promo.toUInt64 epOpp =
      some ((pushOpt acc (mkMove b nq src tgt piece castle ep promo epOpp)).map encMove) := by
  rw [rs_make_move_ctor_eq b _ nq src tgt piece castle ep promo epOpp hp hpr hatt hep]
  cases mkMove b nq src tgt piece castle ep promo epOpp <;> simp [pushOpt]

#print axioms rs_make_move_push

/-- the exact panic condition `hep`: black to move, e.p. flag, target on rank 8 — `target_square_shift - 8` underflows -/
theorem rs_make_move_panics (b : Board) (result : List (UInt64 × Int)) (nq : Bool) (src tgt : Nat) (piece castle promo : UInt64)
    (epOpp : Int) (hb : b.turn ≠ 0) (ht : tgt < 8) :
    Rs.Bitboard.make_move (toRsSide b.white) (toRsSide b.black) b.turn b.ep b.halfmove result nq src tgt piece
        castle (flagBits true enPassantAttackTrueMask) promo epOpp = none := by
  unfold Rs.Bitboard.make_move
  have hbeq : ¬ (b.turn == 0) = true := by simp [hb]
  have : Rs.chk .u32 ((tgt : Int) - 8) = none := Rs.chk_eq_none (Or.inl (by simp only [Rs.Ty.lo]; omega))
  simp only [rs_is_white_turn, flagBits_eq_zero, Option.bind_eq_bind, Option.bind_some, Option.pure_def, hbeq, if_false,
    Bool.true_eq_false, this, Option.bind_none]
  rfl

/-! non-vacuity: 1. e2-e4 in the initial position (white to move: source 52, target 36, pawn, next e.p. square 44) -/
def ctorDemo : Board :=
  { white := { pawns := 0x00FF000000000000, rooks := 0x8100000000000000, kings := bitU 60, qs := true, ks := true },
    black := { pawns := 0x000000000000FF00, rooks := 0x0000000000000081, kings := bitU 4, qs := true, ks := true },
    turn := 0, ep := 0, fullmove := 1, halfmove := 0 }
example : (mkMove ctorDemo false 52 36 PAWN false false NO_PIECE 44).isSome = true := by decide +kernel
example : Rs.Bitboard.make_move (toRsSide ctorDemo.white) (toRsSide ctorDemo.black) 0 0 0 [] false 52 36 1 0 0 0 44 =
    some ((mkMove ctorDemo false 52 36 PAWN false false NO_PIECE 44).toList.map encMove) :=
  rs_make_move_ctor_eq ctorDemo [] false 52 36 PAWN false false NO_PIECE 44 (by decide) (by decide) (by decide) (by decide)

end Inkayaku.Translated
