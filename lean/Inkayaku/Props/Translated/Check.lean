import Inkayaku.Model.Board
import Inkayaku.Gen.Rs.Check
import Inkayaku.Props.Translated.Magic
import Inkayaku.Props.Translated.Basic
/-! Part of `Props/Translated`: see `Props/Translated/Basic.lean` for the overview.  One file per translated Rust source, so that a
change of one Rust function re-opens exactly the obligations (and the properties) that depend on it.

### l. check detection: `Bitboard::{is_valid, is_current_in_check, is_in_check, _is_in_check_by_bits, _is_square_in_check}`,
`PlayerState::{kings, .., pawns, full_occupancy}`, `opposite_color` (board/src/board.rs, board/src/lib.rs)
= `Board.isValid`, `isCurrentInCheck`, `inCheck`, `squareInCheck`, `Side.full` (Model/Board.lean)

`PlayerState` is regenerated as a Lean structure (`occupancy : List UInt64`, indexing is bounds-checked like the Rust
array); `toRsSide` maps the model's `Side` (seven named words) to it.  The attack-table lookups
(`ROOK_MAGICS.get_attacks(sq, occ)`, `KNIGHT_NONMAGICS.get_attacks(sq)`, ..) are OPAQUE FUNCTION parameters of the generated
definitions; the theorems instantiate them with the model's lookups (`rookAttacks` = what `Props/Translated/Magic.lean`
proves `MagicConfiguration::get_attacks` computes, `leaperAttacks` on the dumped tables).
-/

namespace Inkayaku.Translated
open Inkayaku.Board Inkayaku.Gen

/-- the Rust `PlayerState` of a model `Side` -/
def toRsSide (s : Side) : Rs.PlayerState :=
  { occupancy := [s.o0, s.pawns, s.knights, s.bishops, s.rooks, s.queens, s.kings],
    queen_side_castle := s.qs, king_side_castle := s.ks }

/-! the table lookups the generated functions are instantiated with -/
def rookF (sq : Int) (occ : UInt64) : UInt64 := rookAttacks sq.toNat occ
def bishopF (sq : Int) (occ : UInt64) : UInt64 := bishopAttacks sq.toNat occ
def knightF (sq : Int) : UInt64 := leaperAttacks knightTable sq.toNat
def whitePawnF (sq : Int) : UInt64 := leaperAttacks whitePawnTable sq.toNat
def blackPawnF (sq : Int) : UInt64 := leaperAttacks blackPawnTable sq.toNat
def kingF (sq : Int) : UInt64 := leaperAttacks kingTable sq.toNat

/-- what the opaque parameter `ROOK_MAGICS_get_attacks` stands for: on a square `< 64` the translated
`Magics::get_attacks` on the rook configurations is defined and is `rookF` (for a square `≥ 64` — a side without king,
`trailing_zeros` = 64 — the Rust indexes `get_unchecked` out of bounds, `rs_rook_magics_ub`; the model excludes that
by well-formedness) -/
theorem rookF_is_translated_lookup (sq : Nat) (hsq : sq < 64) (occ : UInt64) :
    Rs.Magics.get_attacks rookMagics (sq : Int) occ = some (rookF (sq : Int) occ) := by
  rw [rs_rook_magics_eq sq hsq occ]; simp only [rookF, Int.toNat_natCast]

theorem bishopF_is_translated_lookup (sq : Nat) (hsq : sq < 64) (occ : UInt64) :
    Rs.Magics.get_attacks bishopMagics (sq : Int) occ = some (bishopF (sq : Int) occ) := by
  rw [rs_bishop_magics_eq sq hsq occ]; simp only [bishopF, Int.toNat_natCast]

/-! #### `PlayerState` accessors (array indexing never out of bounds: the piece constants are 1..6) -/

theorem rs_side_kings (s : Side) : Rs.PlayerState.kings (toRsSide s).occupancy = some s.kings := rfl
theorem rs_side_queens (s : Side) : Rs.PlayerState.queens (toRsSide s).occupancy = some s.queens := rfl
theorem rs_side_rooks (s : Side) : Rs.PlayerState.rooks (toRsSide s).occupancy = some s.rooks := rfl
theorem rs_side_bishops (s : Side) : Rs.PlayerState.bishops (toRsSide s).occupancy = some s.bishops := rfl
theorem rs_side_knights (s : Side) : Rs.PlayerState.knights (toRsSide s).occupancy = some s.knights := rfl
theorem rs_side_pawns (s : Side) : Rs.PlayerState.pawns (toRsSide s).occupancy = some s.pawns := rfl

theorem rs_side_full_occupancy (s : Side) : Rs.PlayerState.full_occupancy (toRsSide s).occupancy = some s.full := by
  simp only [Rs.PlayerState.full_occupancy, rs_side_kings, rs_side_queens, rs_side_rooks, rs_side_bishops, rs_side_knights,
    rs_side_pawns, Option.bind_eq_bind, Option.bind_some, Option.pure_def, Side.full]

/-- `occupancy(piece)` for a piece code `< 7` is the model's `Side.get`; a larger code panics (array of 7) -/
theorem rs_side_occupancy (s : Side) (p : Nat) (hp : p < 7) :
    Rs.PlayerState.occupancy_fn (toRsSide s).occupancy p.toUInt64 = some (s.get p) := by
  have : p = 0 ∨ p = 1 ∨ p = 2 ∨ p = 3 ∨ p = 4 ∨ p = 5 ∨ p = 6 := by omega
  rcases this with h | h | h | h | h | h | h <;> subst h <;> rfl

/-! #### `_is_square_in_check` -/

theorem ne_zero_iff (x : UInt64) : (decide (x ≠ (0 : UInt64))) = (x != 0) := by
  by_cases h : x = 0 <;> simp [h]

theorem rs_is_square_in_check_eq (color : Nat) (passive : Side) (sq : Nat) (occ : UInt64) :
    Rs.Bitboard._is_square_in_check (color : Int) (toRsSide passive) (sq : Int) occ rookF bishopF knightF whitePawnF
      blackPawnF kingF = some (squareInCheck color passive sq occ) := by
  have hc : ((color : Int) = Rs.WHITE) ↔ color = 0 := by unfold Rs.WHITE; omega
  unfold Rs.Bitboard._is_square_in_check squareInCheck
  simp only [rs_side_kings, rs_side_queens, rs_side_rooks, rs_side_bishops, rs_side_knights, rs_side_pawns,
    Option.bind_eq_bind, Option.bind_some, Option.pure_def, rookF, bishopF, knightF, whitePawnF, blackPawnF, kingF,
    Int.toNat_natCast, hc]
  by_cases h1 : rookAttacks sq occ &&& (passive.rooks ||| passive.queens) = 0
  · by_cases h2 : bishopAttacks sq occ &&& (passive.bishops ||| passive.queens) = 0
    · by_cases h3 : leaperAttacks knightTable sq &&& passive.knights = 0
      · by_cases h0 : color = 0
        · by_cases h4 : leaperAttacks whitePawnTable sq &&& passive.pawns = 0 <;>
            by_cases h5 : leaperAttacks kingTable sq &&& passive.kings = 0 <;> simp [h1, h2, h3, h0, h4, h5]
        · by_cases h4 : leaperAttacks blackPawnTable sq &&& passive.pawns = 0 <;>
            by_cases h5 : leaperAttacks kingTable sq &&& passive.kings = 0 <;> simp [h1, h2, h3, h0, h4, h5]
      · simp [h1, h2, h3]
    · simp [h1, h2]
  · simp [h1]

#print axioms rs_is_square_in_check_eq

/-! #### `_is_in_check_by_bits`, `is_current_in_check`, `is_in_check`, `is_valid` -/

theorem u64Tz_eq (x : UInt64) : Rs.u64Tz x = (trailingZeros x : Int) := rfl

theorem rs_is_in_check_by_bits_eq (b : Board) (color : Nat) :
    Rs.Bitboard._is_in_check_by_bits (toRsSide b.white) (toRsSide b.black) (color : Int) rookF bishopF knightF whitePawnF
      blackPawnF kingF = some (inCheck b color) := by
  have hc : ((color : Int) = Rs.WHITE) ↔ color = 0 := by unfold Rs.WHITE; omega
  unfold Rs.Bitboard._is_in_check_by_bits inCheck
  by_cases h0 : color = 0
  · have : (color : Int) = Rs.WHITE := hc.mpr h0
    simp only [this, if_true, rs_side_full_occupancy, rs_side_kings, Option.bind_eq_bind, Option.bind_some, u64Tz_eq]
    rw [← this, rs_is_square_in_check_eq]
    simp [h0]
  · have : ¬ (color : Int) = Rs.WHITE := fun h => h0 (hc.mp h)
    simp only [this, if_false, rs_side_full_occupancy, rs_side_kings, Option.bind_eq_bind, Option.bind_some, u64Tz_eq]
    rw [rs_is_square_in_check_eq]
    simp [h0]

#print axioms rs_is_in_check_by_bits_eq

/-- `is_current_in_check` -/
theorem rs_is_current_in_check_eq (b : Board) :
    Rs.Bitboard.is_current_in_check (toRsSide b.white) (toRsSide b.black) (b.turn : Int) rookF bishopF knightF whitePawnF
      blackPawnF kingF = some (isCurrentInCheck b) := by
  unfold Rs.Bitboard.is_current_in_check isCurrentInCheck
  exact rs_is_in_check_by_bits_eq b b.turn

/-- `is_in_check(&Color)`: `color.index` is the colour code -/
theorem rs_is_in_check_eq (b : Board) (color : Nat) :
    Rs.Bitboard.is_in_check (toRsSide b.white) (toRsSide b.black) (color : Int) rookF bishopF knightF whitePawnF
      blackPawnF kingF = some (inCheck b color) := by
  unfold Rs.Bitboard.is_in_check
  exact rs_is_in_check_by_bits_eq b color

/-- `opposite_color` / `opposite_turn`: `1 - c` in `u32`, a panic for a colour code above 1 -/
theorem rs_opposite_turn_eq (t : Nat) (h : t ≤ 1) : Rs.Bitboard.opposite_turn (t : Int) = some ((1 - t : Nat) : Int) := by
  unfold Rs.Bitboard.opposite_turn Rs.opposite_color
  rw [Rs.chk_u32 (by omega) (by omega)]
  congr 1; omega

theorem rs_opposite_turn_panics (t : Nat) (h : 1 < t) : Rs.Bitboard.opposite_turn (t : Int) = none := by
  unfold Rs.Bitboard.opposite_turn Rs.opposite_color
  exact Rs.chk_eq_none (Or.inl (by simp only [Rs.Ty.lo]; omega))

/-- `is_valid` (the side that just moved is not in check), for a board whose `turn` is a colour code -/
theorem rs_is_valid_eq (b : Board) (h : b.turn ≤ 1) :
    Rs.Bitboard.is_valid (toRsSide b.white) (toRsSide b.black) (b.turn : Int) rookF bishopF knightF whitePawnF
      blackPawnF kingF = some (isValid b) := by
  unfold Rs.Bitboard.is_valid isValid
  rw [rs_opposite_turn_eq b.turn h]
  simp only [Option.bind_eq_bind, Option.bind_some, rs_is_in_check_by_bits_eq, Option.pure_def]

#print axioms rs_is_current_in_check_eq
#print axioms rs_is_in_check_eq
#print axioms rs_is_valid_eq

/-! non-vacuity: a concrete position (white king e1 attacked by a black rook on e8, nothing in between) -/
def demoBoard : Board :=
  { white := { kings := bitU 60 }, black := { kings := bitU 0, rooks := bitU 4 }, turn := 0, ep := 0, fullmove := 1, halfmove := 0 }
example : isCurrentInCheck demoBoard = true := by decide +kernel
example : Rs.Bitboard.is_current_in_check (toRsSide demoBoard.white) (toRsSide demoBoard.black) 0 rookF bishopF knightF
    whitePawnF blackPawnF kingF = some true := by
  rw [show (0 : Int) = ((demoBoard.turn : Nat) : Int) from rfl, rs_is_current_in_check_eq]; decide +kernel
example : Rs.PlayerState.occupancy_fn [1, 2, 3, 4, 5, 6, 7] 7 = none := by decide
example : demoBoard.turn ≤ 1 := by decide

/-! axiom audit of the remaining `rs_*` theorems of this file -/
#print axioms rs_side_kings
#print axioms rs_side_queens
#print axioms rs_side_rooks
#print axioms rs_side_bishops
#print axioms rs_side_knights
#print axioms rs_side_pawns
#print axioms rs_side_full_occupancy
#print axioms rs_side_occupancy
#print axioms rs_opposite_turn_eq
#print axioms rs_opposite_turn_panics

end Inkayaku.Translated
