import Inkayaku.Props.Translated.PgnBuffer
/-! Part of `Props/Translated` (round 5, property C17): the byte-level methods of the PGN reader `PgnRawParser` (pgn/src/reader.rs;
generated module `Pgn`, MONADIC MODE) against the model programs of `Model/Pgn.lean`: `peek_byte`, `pop_byte`, `skip_byte`, `consume`.
Each is total (never panics on a `Good` state) and simulates the model program (`Sim`, see `PgnBuffer.lean`). -/

set_option linter.unusedSimpArgs false

namespace Inkayaku.Translated
open Inkayaku.Pgn Inkayaku.C17

section
variable {E : Type} (rd : Reader → List Int → Except E Int × Reader × List Int) (hrd : ReadModel rd)
include hrd

/-- **`peek_byte` = `peekByte`** -/
theorem rs_peek_byte_eq (s : Buffered) (hg : Good s) :
    ∃ a, Rs.PgnRawParser.peek_byte rd (toRs s) = some (a, toRs (run peekByte s).2) ∧ relRes relByte a (run peekByte s).1 := by
  unfold Rs.PgnRawParser.peek_byte peekByte
  rcases peek_cases rd hrd s hg with ⟨b, s1, h1, h2, h3, _, _, _⟩ | ⟨s1, h1, h2, _⟩
  · simp only [run_bind, h2, run_ite, run_get, run_liftO, h3, omap_some, run_pure, eq_self, ite_true', run, Source.peek, h1]
    exact ⟨_, rfl, rfl⟩
  · simp only [run_bind, h2, run_ite, run_pure, run, Source.peek, h1]
    exact ⟨_, rfl, rfl⟩

theorem idx_run (s1 : Buffered) (b : UInt8)
    (h3 : Rs.vecIdx (toRs s1).current_buffer (toRs s1).current_byte = some (byteI b)) (t : Rs.PgnRawParser Reader) :
    (Rs.RsM.liftO (Rs.vecIdx (toRs s1).current_buffer (toRs s1).current_byte) : Rs.RsM (Rs.PgnRawParser Reader) Int) t = some (byteI b, t) := by
  rw [run_liftO, h3, omap_some]

/-- **`pop_byte` = `popByte`** -/
theorem rs_pop_byte_eq (s : Buffered) (hg : Good s) :
    ∃ a, Rs.PgnRawParser.pop_byte rd (toRs s) = some (a, toRs (run popByte s).2) ∧ relRes relByte a (run popByte s).1 := by
  rcases peek_cases rd hrd s hg with ⟨b, s1, h1, h2, h3, h4, _, _⟩ | ⟨s1, h1, h2, _⟩
  · have hm : run popByte s = (.ok b, s1.incr) := by simp only [popByte, run, Source.peek, h1]; rfl
    rw [hm]
    unfold Rs.PgnRawParser.pop_byte Rs.PgnRawParser.peek_byte
    rw [bind_some (s' := toRs s1) (a := Except.ok (byteI b))]
    · dsimp only []
      rw [bind_some (run_pure _ _), bind_some h4, run_pure]
      exact ⟨_, rfl, rfl⟩
    · rw [bind_some h2, if_pos rfl, bind_some (run_get _), bind_some (run_get _), bind_some (idx_run rd hrd s1 b h3 _), run_pure]
  · have hm : run popByte s = (.error .closed, s1) := by simp only [popByte, run, Source.peek, h1]; rfl
    rw [hm]
    unfold Rs.PgnRawParser.pop_byte Rs.PgnRawParser.peek_byte
    rw [bind_some (s' := toRs s1) (a := Except.error .ReadingFromClosedRead)]
    · dsimp only []
      rw [run_pure]
      exact ⟨_, rfl, rfl⟩
    · rw [bind_some h2, if_neg (by decide), run_pure]

/-- **`skip_byte` = `skipByte`** -/
theorem rs_skip_byte_eq (s : Buffered) (hg : Good s) :
    ∃ a, Rs.PgnRawParser.skip_byte rd (toRs s) = some (a, toRs (run skipByte s).2) ∧ relRes (fun _ _ => True) a (run skipByte s).1 := by
  rcases peek_cases rd hrd s hg with ⟨b, s1, h1, h2, h3, h4, _, _⟩ | ⟨s1, h1, h2, _⟩
  · have hm : run skipByte s = (.ok (), s1.incr) := by simp only [skipByte, run, Source.peek, h1]; rfl
    rw [hm]
    unfold Rs.PgnRawParser.skip_byte
    rw [bind_some h2, if_pos rfl, bind_some h4, run_pure]
    exact ⟨_, rfl, trivial⟩
  · have hm : run skipByte s = (.error .closed, s1) := by simp only [skipByte, run, Source.peek, h1]; rfl
    rw [hm]
    unfold Rs.PgnRawParser.skip_byte
    rw [bind_some h2, if_neg (by decide), run_pure]
    exact ⟨_, rfl, rfl⟩

/-! ### the same as simulations, and `consume` -/
omit hrd in
theorem sim_of_exists {α β : Type} {m : Rs.RsM (Rs.PgnRawParser Reader) α} {p : Prog β} {rel : α → β → Prop}
    (h : ∀ s, Good s → ∃ a, m (toRs s) = some (a, toRs (run p s).2) ∧ rel a (run p s).1) : Sim m p rel ∧ Total m := by
  refine ⟨?_, ?_⟩
  · intro s a t hg hm
    obtain ⟨a', h1, h2⟩ := h s hg
    rw [h1] at hm; cases hm; exact ⟨rfl, h2⟩
  · intro s hg hn
    obtain ⟨a', h1, _⟩ := h s hg
    rw [h1] at hn; cases hn

omit hrd in
theorem pure_bind_run {σ α β : Type} (a : α) (f : α → Rs.RsM σ β) : (pure a >>= f) = f a := by
  funext s; rw [run_bind, run_pure]

omit hrd in
theorem sim_pure_bind {α β γ : Type} {a : α} {f : α → Rs.RsM (Rs.PgnRawParser Reader) γ} {p : Prog β} {rel : γ → β → Prop}
    (h : Sim (f a) p rel) : Sim (pure a >>= f) p rel := by
  rw [pure_bind_run]; exact h

omit hrd in
theorem sim_get_bind {β γ : Type} {f : Rs.PgnRawParser Reader → Rs.RsM (Rs.PgnRawParser Reader) γ} {p : Prog β} {rel : γ → β → Prop}
    (h : ∀ g, Sim (f g) p rel) : Sim (Rs.RsM.get >>= f) p rel := by
  intro s a t hg hm
  rw [bind_some (run_get _)] at hm
  exact h _ s a t hg hm

omit hrd in
theorem sim_panic {α β : Type} {p : Prog β} {rel : α → β → Prop} : Sim (Rs.RsM.panic : Rs.RsM (Rs.PgnRawParser Reader) α) p rel := by
  intro s a t _ hm
  rw [run_panic] at hm; cases hm

theorem rs_peek_byte_sim : Sim (Rs.PgnRawParser.peek_byte rd) peekByte (relRes relByte) := (sim_of_exists (rs_peek_byte_eq rd hrd)).1
theorem rs_pop_byte_sim : Sim (Rs.PgnRawParser.pop_byte rd) popByte (relRes relByte) := (sim_of_exists (rs_pop_byte_eq rd hrd)).1
theorem rs_skip_byte_sim : Sim (Rs.PgnRawParser.skip_byte rd) skipByte (relRes (fun _ _ => True)) := (sim_of_exists (rs_skip_byte_eq rd hrd)).1
theorem rs_peek_byte_total : Total (Rs.PgnRawParser.peek_byte rd) := (sim_of_exists (rs_peek_byte_eq rd hrd)).2
theorem rs_pop_byte_total : Total (Rs.PgnRawParser.pop_byte rd) := (sim_of_exists (rs_pop_byte_eq rd hrd)).2
theorem rs_skip_byte_total : Total (Rs.PgnRawParser.skip_byte rd) := (sim_of_exists (rs_skip_byte_eq rd hrd)).2

omit hrd in
theorem byteI_inj {a b : UInt8} (h : byteI a = byteI b) : a = b := by
  unfold byteI at h
  exact UInt8.toNat_inj.mp (by omega)

/-- **`consume` = `consume`** (the payload of `IllegalConsume` is dropped by the model) -/
theorem rs_consume_sim (c : UInt8) : Sim (Rs.PgnRawParser.consume rd (byteI c)) (Pgn.consume c) (relRes (fun _ _ => True)) := by
  unfold Rs.PgnRawParser.consume Pgn.consume M.bind
  refine sim_bind (rs_pop_byte_sim rd hrd) (fun a b hab => ?_)
  cases a with
  | error e =>
    cases b with
    | error e' => exact sim_pure hab
    | ok b => exact absurd hab id
  | ok v =>
    cases b with
    | error e' => exact absurd hab id
    | ok b =>
      have hv : v = byteI b := hab
      subst hv
      dsimp only []
      refine sim_pure_bind ?_
      by_cases hbc : b = c
      · subst hbc
        rw [if_pos (by simp), if_pos rfl]
        exact sim_pure trivial
      · have : ¬ (byteI b == byteI c) = true := by
          intro h; exact hbc (byteI_inj (by simpa using h))
        rw [if_neg this, if_neg hbc]
        exact sim_get_bind (fun g => sim_pure rfl)

#print axioms rs_peek_byte_eq
#print axioms rs_pop_byte_eq
#print axioms rs_skip_byte_eq
#print axioms rs_consume_sim

end
end Inkayaku.Translated
