import Inkayaku.Props.Translated.PgnBuffer
/-! Part of `Props/Translated` (round 5, property C17): the byte-level methods of the PGN reader `PgnRawParser` (pgn/src/reader.rs;
generated module `Pgn`, MONADIC MODE) against the model programs of `Model/Pgn.lean`: `peek_byte`, `pop_byte`, `skip_byte`, `consume`.
Each is total (never panics on a `Good` state) and simulates the model program (`Sim`, see `PgnBuffer.lean`). -/

set_option linter.unusedSimpArgs false

namespace Inkayaku.Translated
open Inkayaku.Pgn Inkayaku.C17

section
variable {E : Type} (rd : Reader → List Int → Except E Int × Reader × List Int) (hrd : ReadModel rd)
include hrd

/-- **`peek_byte` = `peekByte`** -/
theorem rs_peek_byte_eq (s : Buffered) (hg : Good s) :
    ∃ a, Rs.PgnRawParser.peek_byte rd (toRs s) = some (a, toRs (run peekByte s).2) ∧ relRes relByte a (run peekByte s).1 := by
  unfold Rs.PgnRawParser.peek_byte peekByte
  rcases peek_cases rd hrd s hg with ⟨b, s1, h1, h2, h3, _, _, _⟩ | ⟨s1, h1, h2, _⟩
  · simp only [run_bind, h2, run_ite, run_get, run_liftO, h3, omap_some, run_pure, eq_self, ite_true', run, Source.peek, h1]
    exact ⟨_, rfl, rfl⟩
  · simp only [run_bind, h2, run_ite, run_pure, run, Source.peek, h1]
    exact ⟨_, rfl, rfl⟩

theorem idx_run (s1 : Buffered) (b : UInt8)
    (h3 : Rs.vecIdx (toRs s1).current_buffer (toRs s1).current_byte = some (byteI b)) (t : Rs.PgnRawParser Reader) :
    (Rs.RsM.liftO (Rs.vecIdx (toRs s1).current_buffer (toRs s1).current_byte) : Rs.RsM (Rs.PgnRawParser Reader) Int) t = some (byteI b, t) := by
  rw [run_liftO, h3, omap_some]

/-- **`pop_byte` = `popByte`** -/
theorem rs_pop_byte_eq (s : Buffered) (hg : Good s) :
    ∃ a, Rs.PgnRawParser.pop_byte rd (toRs s) = some (a, toRs (run popByte s).2) ∧ relRes relByte a (run popByte s).1 := by
  rcases peek_cases rd hrd s hg with ⟨b, s1, h1, h2, h3, h4, _, _⟩ | ⟨s1, h1, h2, _⟩
  · have hm : run popByte s = (.ok b, s1.incr) := by simp only [popByte, run, Source.peek, h1]; rfl
    rw [hm]
    unfold Rs.PgnRawParser.pop_byte Rs.PgnRawParser.peek_byte
    rw [bind_some (s' := toRs s1) (a := Except.ok (byteI b))]
    · dsimp only []
      rw [bind_some (run_pure _ _), bind_some h4, run_pure]
      exact ⟨_, rfl, rfl⟩
    · rw [bind_some h2, if_pos rfl, bind_some (run_get _), bind_some (run_get _), bind_some (idx_run rd hrd s1 b h3 _), run_pure]
  · have hm : run popByte s = (.error .closed, s1) := by simp only [popByte, run, Source.peek, h1]; rfl
    rw [hm]
    unfold Rs.PgnRawParser.pop_byte Rs.PgnRawParser.peek_byte
    rw [bind_some (s' := toRs s1) (a := Except.error .ReadingFromClosedRead)]
    · dsimp only []
      rw [run_pure]
      exact ⟨_, rfl, rfl⟩
    · rw [bind_some h2, if_neg (by decide), run_pure]

/-- **`skip_byte` = `skipByte`** -/
theorem rs_skip_byte_eq (s : Buffered) (hg : Good s) :
    ∃ a, Rs.PgnRawParser.skip_byte rd (toRs s) = some (a, toRs (run skipByte s).2) ∧ relRes (fun _ _ => True) a (run skipByte s).1 := by
  rcases peek_cases rd hrd s hg with ⟨b, s1, h1, h2, h3, h4, _, _⟩ | ⟨s1, h1, h2, _⟩
  · have hm : run skipByte s = (.ok (), s1.incr) := by simp only [skipByte, run, Source.peek, h1]; rfl
    rw [hm]
    unfold Rs.PgnRawParser.skip_byte
    rw [bind_some h2, if_pos rfl, bind_some h4, run_pure]
    exact ⟨_, rfl, trivial⟩
  · have hm : run skipByte s = (.error .closed, s1) := by simp only [skipByte, run, Source.peek, h1]; rfl
    rw [hm]
    unfold Rs.PgnRawParser.skip_byte
    rw [bind_some h2, if_neg (by decide), run_pure]
    exact ⟨_, rfl, rfl⟩

end
end Inkayaku.Translated
