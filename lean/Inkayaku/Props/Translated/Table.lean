import Inkayaku.Model.Table
import Inkayaku.Props.C18
import Inkayaku.Gen.Rs.Table
import Inkayaku.Props.Translated.Basic
/-! Part of `Props/Translated`: see `Props/Translated/Basic.lean` for the overview.  One file per translated Rust source, so that a
change of one Rust function re-opens exactly the obligations (and the properties) that depend on it.

### i. `HashTable::{new, clear, put, get, len}` (engine_core/src/engine/table.rs) = `Inkayaku.Table` (Model/Table.lean)

The generated definitions work on the three fields `capacity`, `entry_list`, `entry_map` of the Rust struct, with the
std collections mapped to the prelude's `VecDeque` / `HMap` (header of `Gen/Rs/Prelude.lean`: "std `HashMap` /
`VecDeque` behave as a map / a queue" — the same assumption the hand-written model makes).  Keys are `ZobristHash = u64`
values, i.e. `Int`s; the value type is arbitrary.  The model's `panicked` flag corresponds to the result `none` of the
generated `put` (`pop_front().unwrap()` on an empty queue): `rs_table_put_eq` is the exact correspondence for EVERY
state, `rs_table_put_no_panic` shows with C18's invariant that `none` never occurs.
-/

namespace Inkayaku.Translated
open Inkayaku.Rs Inkayaku.Table

variable {V : Type}

/-! #### the prelude's map / queue operations are the model's -/

theorem hmGet_eq (m : List (Int × V)) (k : Int) : hmGet m k = mapGet m k := by
  induction m with
  | nil => rfl
  | cons e rest ih => obtain ⟨k', v⟩ := e; simp only [hmGet, mapGet, ih]

theorem hmInsert_eq (m : List (Int × V)) (k : Int) (v : V) : hmInsert m k v = mapInsert m k v := by
  simp only [hmInsert, mapInsert, hmGet_eq]
  cases mapGet m k <;> rfl

theorem hmRemove_fst_eq (m : List (Int × V)) (k : Int) : (hmRemove m k).1 = mapRemove m k := rfl

theorem hmLen_eq (m : List (Int × V)) : hmLen m = (mapLen m : Int) := rfl

/-! #### the five functions -/

/-- `HashTable::new(cap)`: the fields of the model's initial state -/
theorem rs_table_new_eq (cap : Nat) :
    HashTable.new (V := V) (cap : Int) =
      some (((Table.new cap : State Int V).cap : Int), (Table.new cap : State Int V).queue, (Table.new cap : State Int V).map) := rfl

/-- `HashTable::clear` -/
theorem rs_table_clear_eq (s : State Int V) :
    HashTable.clear s.queue s.map = some ((Table.clear s).queue, (Table.clear s).map) := rfl

/-- `HashTable::get` -/
theorem rs_table_get_eq (s : State Int V) (k : Int) : HashTable.get s.map k = some (Table.get s k) := by
  simp only [HashTable.get, Table.get, hmGet_eq, Option.pure_def]

/-- `HashTable::len` -/
theorem rs_table_len_eq (s : State Int V) : HashTable.len s.map = some ((Table.len s : Nat) : Int) := rfl

/-- second statement of `put` = `evictPhase` -/
theorem evict_eq (t : State Int V) (hp : t.panicked = false) :
    (if hmLen t.map > (t.cap : Int) then do
        let remove_key ← (vdPopFront t.queue).snd
        pure ((vdPopFront t.queue).fst, (hmRemove t.map remove_key).fst)
      else pure (t.queue, t.map) : Option (VecDeque Int × HMap Int V)) =
    if (evictPhase t).panicked then none else some ((evictPhase t).queue, (evictPhase t).map) := by
  unfold evictPhase
  by_cases ho : mapLen t.map > t.cap
  · have ho' : hmLen t.map > (t.cap : Int) := by simp only [hmLen_eq]; omega
    rw [if_pos ho', if_pos ho]
    cases hq : t.queue with
    | nil => rfl
    | cons x rest =>
      simp only [vdPopFront, hp, hmRemove_fst_eq, Option.bind_eq_bind, Option.bind_some, Option.pure_def]
      rfl
  · have ho' : ¬ hmLen t.map > (t.cap : Int) := by simp only [hmLen_eq]; omega
    rw [if_neg ho', if_neg ho]
    simp only [hp, Option.pure_def]
    rfl

/-- `HashTable::put`, every state: the Rust function panics exactly when the model sets its `panicked` flag, and
otherwise the new `entry_list` / `entry_map` are the model's (`capacity` and the flag itself are not touched). -/
theorem rs_table_put_eq (s : State Int V) (hp : s.panicked = false) (k : Int) (v : V) :
    HashTable.put (s.cap : Int) s.queue s.map k v =
      if (Table.put s k v).panicked then none else some ((Table.put s k v).queue, (Table.put s k v).map) := by
  unfold HashTable.put Table.put
  rw [hmInsert_eq]
  -- first statement = `insertPhase`: case split on the value returned by `insert`
  have hi : insertPhase s k v =
      ⟨s.cap, if (mapInsert s.map k v).2.isNone then s.queue ++ [k] else s.queue, (mapInsert s.map k v).1, s.panicked⟩ := rfl
  rw [hi]
  generalize mapInsert s.map k v = p
  obtain ⟨m', r⟩ := p
  cases r with
  | none => exact evict_eq ⟨s.cap, s.queue ++ [k], m', s.panicked⟩ hp
  | some old => exact evict_eq ⟨s.cap, s.queue, m', s.panicked⟩ hp

#print axioms rs_table_put_eq

/-- under C18's representation invariant the Rust `put` never panics (`pop_front().unwrap()` always finds an element) and
computes the model's new state -/
theorem rs_table_put_no_panic (s : State Int V) (h : C18.Inv s) (k : Int) (v : V) :
    HashTable.put (s.cap : Int) s.queue s.map k v = some ((Table.put s k v).queue, (Table.put s k v).map) := by
  rw [rs_table_put_eq s h.not_panicked, C18.put_no_panic h]; rfl

#print axioms rs_table_put_no_panic

/-! #### operation sequences: running the GENERATED functions from `HashTable::new(cap)` is the model's `run` -/

open Inkayaku.FifoMap (Op Out)

/-- one operation on the three Rust fields, by the generated functions (`none` = panic) -/
def rsStep (cap : Int) (st : List Int × List (Int × V)) : Op Int V → Option ((List Int × List (Int × V)) × Option (Out V))
  | .put k v => (HashTable.put cap st.1 st.2 k v).map fun st' => (st', none)
  | .get k => (HashTable.get st.2 k).map fun r => (st, some (.value r))
  | .clear => (HashTable.clear st.1 st.2).map fun st' => (st', none)
  | .len => (HashTable.len st.2).map fun n => (st, some (.size n.toNat))

def rsRun (cap : Int) (st : List Int × List (Int × V)) : List (Op Int V) → Option ((List Int × List (Int × V)) × List (Out V))
  | [] => some (st, [])
  | op :: ops => do
    let (st', o) ← rsStep cap st op
    let (st'', os) ← rsRun cap st' ops
    pure (st'', o.toList ++ os)

theorem rsStep_eq (s : State Int V) (h : C18.Inv s) (op : Op Int V) :
    rsStep (s.cap : Int) (s.queue, s.map) op = some (((Table.step s op).1.queue, (Table.step s op).1.map), (Table.step s op).2) := by
  cases op with
  | put k v => simp only [rsStep, rs_table_put_no_panic s h, Option.map_some, Table.step]
  | get k => simp only [rsStep, rs_table_get_eq, Option.map_some, Table.step]
  | clear => simp only [rsStep, rs_table_clear_eq, Option.map_some, Table.step]
  | len => simp [rsStep, rs_table_len_eq, Table.step]

theorem step_cap (s : State Int V) (op : Op Int V) : (Table.step s op).1.cap = s.cap := by
  cases op with
  | put k v => exact C18.cap_put s k v
  | get k => rfl
  | clear => rfl
  | len => rfl

theorem rsRun_eq (s : State Int V) (h : C18.Inv s) (ops : List (Op Int V)) :
    rsRun (s.cap : Int) (s.queue, s.map) ops = some (((Table.run s ops).1.queue, (Table.run s ops).1.map), (Table.run s ops).2) := by
  induction ops generalizing s with
  | nil => rfl
  | cons op ops ih =>
    have h' := C18.inv_step h op
    have ih' := ih (Table.step s op).1 h'
    rw [step_cap] at ih'
    simp only [rsRun, rsStep_eq s h, ih', Table.run, Option.bind_eq_bind, Option.bind_some, Option.pure_def]

/-- END-TO-END: every operation sequence run with the generated Rust functions from `HashTable::new(cap)` never
panics and yields the answers and the final fields of the model's `run` (whose answers are the FIFO-map spec's by
`C18.refines`). -/
theorem rs_table_run_eq (cap : Nat) (ops : List (Op Int V)) :
    (do let (c, q, m) ← HashTable.new (V := V) (cap : Int); rsRun c (q, m) ops) =
      some (((Table.run (Table.new cap : State Int V) ops).1.queue, (Table.run (Table.new cap : State Int V) ops).1.map),
            (Table.run (Table.new cap : State Int V) ops).2) := by
  rw [rs_table_new_eq]
  exact rsRun_eq (Table.new cap) (C18.inv_initial cap) ops

#print axioms rs_table_run_eq

/-- the generated functions' answers are the spec's answers -/
theorem rs_table_run_spec (cap : Nat) (ops : List (Op Int V)) :
    ((do let (c, q, m) ← HashTable.new (V := V) (cap : Int); rsRun c (q, m) ops).map Prod.snd) =
      some (FifoMap.run cap [] ops).2 := by
  rw [rs_table_run_eq, Option.map_some, (C18.refines cap ops).1]

#print axioms rs_table_run_spec

/-! non-vacuity: concrete runs (an eviction, an overwrite, capacity 0), and the panic branch of `rs_table_put_eq` is real
for a state violating the invariant -/
example : HashTable.put 2 [1, 2] [(1, 10), (2, 20)] 3 (30 : Nat) = some ([2, 3], [(2, 20), (3, 30)]) := by decide
example : HashTable.put 2 [1, 2] [(1, 10), (2, 20)] 1 (11 : Nat) = some ([1, 2], [(1, 11), (2, 20)]) := by decide
example : HashTable.put 0 [] [] 7 (1 : Nat) = some ([], []) := by decide
example : HashTable.put 1 [] [(1, 10), (2, 20)] 2 (21 : Nat) = none := by decide
example : C18.Inv (C18.reach 2 [.put 1 10, .put 2 20] : State Int Nat) := (C18.inv_reach _ _).1
example : (do let (c, q, m) ← HashTable.new (V := Nat) 2; rsRun c (q, m) [.put 1 10, .put 2 20, .get 1, .put 3 30, .get 1, .len])
    = some (([2, 3], [(2, 20), (3, 30)]), [.value (some 10), .value none, .size 2]) := by decide

#print axioms rs_table_get_eq
#print axioms rs_table_len_eq
#print axioms rs_table_clear_eq
#print axioms rs_table_new_eq

end Inkayaku.Translated
