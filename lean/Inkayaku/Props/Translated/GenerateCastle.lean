import Inkayaku.Props.Translated.GenerateScan
/-! Part of `Props/Translated`: see `Props/Translated/Basic.lean` for the overview.

### t. castling moves of the generator: `Bitboard::{_is_occupancy_in_check, make_castle_move, castle_moves}` (board/src/board.rs;
generated module `Generate`) = `Board.occupancyInCheck`, `castleMoves` (Model/Board.lean), same order (queen side first)

`_is_occupancy_in_check` is a bit-scan loop with an early `return true` (`Ctl.ret`); its body is the translated
`_is_square_in_check` of `Props/Translated/Check.lean` with the same opaque table lookups.  No panic conditions.
-/

set_option linter.unusedSimpArgs false

namespace Inkayaku.Translated
open Inkayaku.Board Inkayaku.Gen Inkayaku.Bits

/-! #### `_is_occupancy_in_check` (a bit-scan loop with an early `return true`) -/

theorem rs_occupancy_loop (color : Nat) (passive : Side) (occ : UInt64) :
    ∀ (fuel : Nat) (x : UInt64), (bitsAsc x).length < fuel →
      Rs.Bitboard._is_occupancy_in_check.while_1 (color : Int) (toRsSide passive) occ rookF bishopF knightF whitePawnF blackPawnF kingF
          fuel x =
        some (if (bitsAsc x).any (fun sq => squareInCheck color passive sq occ) then Rs.Ctl.ret true else Rs.Ctl.next 0)
  | 0, _, h => by omega
  | fuel + 1, x, h => by
    by_cases hx : x = 0
    · subst hx; simp [Rs.Bitboard._is_occupancy_in_check.while_1, bitsAsc_zero]
    · have hpop := bitsAsc_pop x hx
      simp only [Rs.Bitboard._is_occupancy_in_check.while_1, ne_eq, hx, not_false_eq_true, if_true, rs_mask_and_shift x hx,
        Option.bind_eq_bind, Option.bind_some, rs_is_square_in_check_eq, Option.pure_def]
      rw [hpop, List.any_cons]
      cases hc : squareInCheck color passive (trailingZeros x) occ
      · simp only [Bool.false_eq_true, if_false, Bool.false_or]
        exact rs_occupancy_loop color passive occ fuel _ (by rw [hpop, List.length_cons] at h; omega)
      · simp

theorem rs_is_occupancy_in_check_eq (color : Nat) (passive : Side) (occ squares : UInt64) (fuel : Nat) (hf : 65 ≤ fuel) :
    Rs.Bitboard._is_occupancy_in_check (color : Int) (toRsSide passive) occ squares rookF bishopF knightF whitePawnF blackPawnF kingF
        fuel = some (occupancyInCheck color passive occ squares) := by
  unfold Rs.Bitboard._is_occupancy_in_check occupancyInCheck
  rw [rs_occupancy_loop color passive occ fuel squares (by have := GenLength.bitsAsc_length_le squares; omega)]
  cases (bitsAsc squares).any fun sq => squareInCheck color passive sq occ <;> rfl


/-! #### `make_castle_move`, `castle_moves` -/

theorem rs_make_castle_move_eq (b : Board) (acc : List Board.Move) (src tgt : Nat) (ht : tgt < 64) :
    Rs.Bitboard.make_castle_move (toRsSide b.white) (toRsSide b.black) b.turn b.ep b.halfmove (acc.map encMove) src tgt =
      some ((pushOpt acc (mkMove b false src tgt KING true false NO_PIECE 0)).map encMove) := by
  unfold Rs.Bitboard.make_castle_move
  rw [rs_flag_consts.1, rs_flag_consts.2.2.2.1, rs_flag_consts.2.2.2.2, rs_piece_consts.1, rs_piece_consts.2.2.2.2.2.2]
  rw [rs_make_move_push b acc false src tgt KING true false NO_PIECE 0 (by decide) (by decide)
    (by cases b.whiteTurn <;> simpa using ht) (by intro _ h; cases h)]

theorem and_some (c d : Bool) : (if c = true then some d else some false) = some (c && d) := by cases c <;> rfl

theorem rs_castle_moves_eq (b : Board) (acc : List Board.Move) (fullOcc : UInt64) (fuel : Nat) (hf : 65 ≤ fuel) :
    Rs.Bitboard.castle_moves (toRsSide b.white) (toRsSide b.black) b.turn b.ep b.halfmove (acc.map encMove) fullOcc rookF bishopF
        knightF whitePawnF blackPawnF kingF fuel = some ((castleMoves b fullOcc acc).map encMove) := by
  unfold Rs.Bitboard.castle_moves castleMoves
  obtain ⟨-, -, -, -, e1, e2, e3, e4, e5, e6, e7, e8⟩ := rs_gen_consts
  have w0 : Rs.WHITE = ((0 : Nat) : Int) := rfl
  have b1 : Rs.BLACK = ((1 : Nat) : Int) := rfl
  simp only [rs_is_white_turn, Option.bind_eq_bind, Option.bind_some, Option.pure_def, e1, e2, e3, e4, e5, e6, e7, e8, w0, b1,
    rs_is_occupancy_in_check_eq _ _ _ _ fuel hf, and_some]
  have hd : ∀ x : UInt64, decide (x = 0) = (x == 0) := by intro x; by_cases h : x = 0 <;> simp [h]
  have q1 : Rs.E1 = ((E1 : Nat) : Int) := rfl
  have q2 : Rs.C1 = ((C1 : Nat) : Int) := rfl
  have q3 : Rs.G1 = ((G1 : Nat) : Int) := rfl
  have q4 : Rs.E8 = ((E8 : Nat) : Int) := rfl
  have q5 : Rs.C8 = ((C8 : Nat) : Int) := rfl
  have q6 : Rs.G8 = ((G8 : Nat) : Int) := rfl
  have t1 : (toRsSide b.white).queen_side_castle = b.white.qs := rfl
  have t2 : (toRsSide b.white).king_side_castle = b.white.ks := rfl
  have t3 : (toRsSide b.black).queen_side_castle = b.black.qs := rfl
  have t4 : (toRsSide b.black).king_side_castle = b.black.ks := rfl
  rw [q1, q2, q3, q4, q5, q6, t1, t2, t3, t4]
  simp only [hd]
  unfold Board.whiteTurn
  cases (b.turn == 0)
  · simp only [Bool.false_eq_true, if_false]
    generalize (b.black.qs && fullOcc &&& blackQueenSideCastleEmpty.toUInt64 == 0 &&
      !occupancyInCheck 1 b.white fullOcc blackQueenSideCastleCheck.toUInt64) = cq
    generalize (b.black.ks && fullOcc &&& blackKingSideCastleEmpty.toUInt64 == 0 &&
      !occupancyInCheck 1 b.white fullOcc blackKingSideCastleCheck.toUInt64) = ck
    cases cq <;> cases ck <;>
      simp only [Bool.false_eq_true, if_false, if_true, Option.bind_some,
        rs_make_castle_move_eq b _ E8 C8 (by decide), rs_make_castle_move_eq b _ E8 G8 (by decide)]
  · simp only [if_true]
    generalize (b.white.qs && fullOcc &&& whiteQueenSideCastleEmpty.toUInt64 == 0 &&
      !occupancyInCheck 0 b.black fullOcc whiteQueenSideCastleCheck.toUInt64) = cq
    generalize (b.white.ks && fullOcc &&& whiteKingSideCastleEmpty.toUInt64 == 0 &&
      !occupancyInCheck 0 b.black fullOcc whiteKingSideCastleCheck.toUInt64) = ck
    cases cq <;> cases ck <;>
      simp only [Bool.false_eq_true, if_false, if_true, Option.bind_some,
        rs_make_castle_move_eq b _ E1 C1 (by decide), rs_make_castle_move_eq b _ E1 G1 (by decide)]

#print axioms rs_is_occupancy_in_check_eq
#print axioms rs_castle_moves_eq


/-! non-vacuity: white may castle king side in a position with king e1, rook h1 and nothing between -/
def castleDemo : Board :=
  { white := { rooks := bitU 63, kings := bitU 60, ks := true }, black := { kings := bitU 4 }, turn := 0, ep := 0, fullmove := 1, halfmove := 0 }
example : (castleMoves castleDemo (castleDemo.white.full ||| castleDemo.black.full) []).length = 1 := by decide +kernel

end Inkayaku.Translated
