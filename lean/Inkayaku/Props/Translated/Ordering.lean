import Inkayaku.Model.Board
import Inkayaku.Gen.Rs.KillerTable
import Inkayaku.Gen.Rs.MoveOrder
import Inkayaku.Gen.Rs.Board
import Inkayaku.Model.Search
import Inkayaku.Props.Translated.Basic
/-! Part of `Props/Translated`: see `Props/Translated/Basic.lean` for the overview.  One file per translated Rust source, so that a
change of one Rust function re-opens exactly the obligations (and the properties) that depend on it. -/

namespace Inkayaku.Translated
open Inkayaku.Rs Inkayaku.Board

/-! ### f. `KillerTable::put/get`, the `MvvLvaMoveOrder` sort key -/

/-- the Rust `Move` value of a model move -/
def toRsMove (m : Board.Move) : Rs.Move := { bits := m.bits.toNat, mvvlva := m.mvvlva }

theorem toRsMove_bits_eq (a b : Board.Move) : ((toRsMove a).bits = (toRsMove b).bits) ↔ a.bits = b.bits := by
  simp [toRsMove, Int.natCast_inj, UInt64.toNat_inj]

theorem rs_killer_get_eq (k : List Board.Move) (d : Nat) :
    KillerTable.get (k.map toRsMove) (d : Int) = some ((Search.killerGet k d).map toRsMove) := by
  unfold KillerTable.get Search.killerGet vecGet
  simp only [Option.pure_def, Int.toNat_natCast, List.getElem?_map]
  cases k[d]? with
  | none => rfl
  | some m =>
    by_cases hb : m.bits = 0
    · simp [hb, toRsMove]
    · have : ¬ m.bits.toNat = 0 := fun h => hb (UInt64.toNat_inj.mp (by simpa using h))
      simp [hb, toRsMove, this]

#print axioms rs_killer_get_eq

theorem rs_killer_put_eq (k : List Board.Move) (d : Nat) (m : Board.Move) (hd : d < 18446744073709551615) :
    KillerTable.put (k.map toRsMove) (d : Int) (toRsMove m) = some ((Search.killerPut k d m).map toRsMove) := by
  unfold KillerTable.put Search.killerPut vecResize vecSet
  rw [chk_usize (by omega) (by omega)]
  have e1 : ((d : Int) + 1).toNat = d + 1 := by omega
  have z : ({ bits := 0, mvvlva := 0 } : Rs.Move) = toRsMove ⟨0, 0⟩ := rfl
  simp only [Option.bind_eq_bind, Option.bind_some, e1, Int.toNat_natCast, List.length_map, z]
  by_cases hl : k.length ≥ d + 1
  · simp only [hl, if_true, ← List.map_take, List.length_map, List.length_take]
    have : d < min (d + 1) k.length := by omega
    simp [this, List.map_set]
  · simp only [hl, if_false, List.length_append, List.length_map, List.length_replicate]
    have : d < k.length + (d + 1 - k.length) := by omega
    simp [this, List.map_set]

#print axioms rs_killer_put_eq

/-- non-vacuity: `put` truncates a longer table (the `resize` quirk the model describes) and extends a shorter one -/
example : KillerTable.put [⟨5, 0⟩, ⟨6, 0⟩, ⟨7, 0⟩] 1 ⟨9, 1⟩ = some [⟨5, 0⟩, ⟨9, 1⟩] := by decide
example : KillerTable.put [] 2 ⟨9, 1⟩ = some [⟨0, 0⟩, ⟨0, 0⟩, ⟨9, 1⟩] := by decide
example : KillerTable.get [⟨5, 0⟩, ⟨0, 3⟩] 1 = some none := by decide
example : KillerTable.get [⟨5, 0⟩, ⟨0, 3⟩] 0 = some (some ⟨5, 0⟩) := by decide

theorem rs_move_bonus_eq (m : Board.Move) (h : Option Board.Move) (b : Int) :
    MvvLvaMoveOrder.move_bonus (toRsMove m) (h.map toRsMove) b =
      some (match h with | some x => if x.bits == m.bits then b else 0 | none => 0) := by
  unfold MvvLvaMoveOrder.move_bonus
  cases h with
  | none => rfl
  | some x =>
    by_cases hb : x.bits = m.bits
    · have := (toRsMove_bits_eq x m).mpr hb
      simp [Option.filter, this, hb]
    · have hne : ¬ (toRsMove x).bits = (toRsMove m).bits := fun h => hb ((toRsMove_bits_eq x m).mp h)
      simp [Option.filter, hne, hb]

theorem rs_sort_key_eq (m : Board.Move) (pv tt killer : Option Board.Move)
    (hlo : -2147483648 ≤ m.mvvlva) (hhi : m.mvvlva + 2400000 ≤ 2147483647) :
    MvvLvaMoveOrder.sort_key (toRsMove m) (pv.map toRsMove) (tt.map toRsMove) (killer.map toRsMove) =
      some (Search.moveKey m pv tt killer) := by
  unfold MvvLvaMoveOrder.sort_key Search.moveKey MvvLvaMoveOrder.eval
  simp only [rs_move_bonus_eq, Option.bind_eq_bind, Option.bind_some, Option.pure_def]
  generalize h1 : (match pv with | some x => if x.bits == m.bits then (900000 : Int) else 0 | none => 0) = b1
  generalize h2 : (match tt with | some x => if x.bits == m.bits then (800000 : Int) else 0 | none => 0) = b2
  generalize h3 : (match killer with | some x => if x.bits == m.bits then (700000 : Int) else 0 | none => 0) = b3
  have r1 : 0 ≤ b1 ∧ b1 ≤ 900000 := by
    subst h1; split
    · split <;> omega
    · omega
  have r2 : 0 ≤ b2 ∧ b2 ≤ 800000 := by
    subst h2; split
    · split <;> omega
    · omega
  have r3 : 0 ≤ b3 ∧ b3 ≤ 700000 := by
    subst h3; split
    · split <;> omega
    · omega
  have e : (toRsMove m).mvvlva = m.mvvlva := rfl
  rw [e, chk_i32 (by omega) (by omega)]
  simp only [Option.bind_some]
  rw [chk_i32 (by omega) (by omega)]
  simp only [Option.bind_some]
  rw [chk_i32 (by omega) (by omega)]
  subst h1 h2 h3; rfl


#print axioms rs_sort_key_eq

example : MvvLvaMoveOrder.sort_key ⟨77, 500⟩ (some ⟨77, 0⟩) none (some ⟨77, 1⟩) = some 1600500 := by decide
/-- outside the precondition the Rust really overflows -/
example : MvvLvaMoveOrder.sort_key ⟨77, 2147000000⟩ (some ⟨77, 0⟩) none none = none := by decide


/-! axiom audit of the remaining `rs_*` theorems of this file -/
#print axioms rs_move_bonus_eq

end Inkayaku.Translated
