import Inkayaku.Props.Translated.GenerateAttacks
import Inkayaku.Props.Translated.GeneratePawns
import Inkayaku.Props.Translated.GenerateCastle
import Inkayaku.Proofs.GenSpecList
import Inkayaku.Proofs.GenSpecKeys
/-! Part of `Props/Translated`: see `Props/Translated/Basic.lean` for the overview.

### u. the pseudo-legal move generators: `Bitboard::{generate_pseudo_legal_moves_with_buffer, generate_pseudo_legal_moves,
generate_pseudo_legal_non_quiescent_moves_with_buffer, generate_pseudo_legal_non_quiescent_moves, get_active_and_passive}`
(board/src/board.rs; generated module `Generate`) = `Board.genPseudo`, `genNonQuiescent` (Model/Board.lean) AS LISTS

The `_with_buffer` functions APPEND to the caller's buffer (`rs_generate_pseudo_legal_buffer_eq`: `acc ++ genPseudo b`); the
plain ones start from `Vec::new()`.  Remaining hypotheses = the exact panic conditions of the pawn code (`b.ep < 64`, no pawn
of the side to move on its last rank); both follow from `WF.wf` (`rs_generate_pseudo_legal_wf`).  The attack tables are the
opaque lookup functions of `Props/Translated/Check.lean` (`rookF` …), in the order the generated definition takes them.
-/

set_option linter.unusedSimpArgs false

namespace Inkayaku.Translated
open Inkayaku.Board Inkayaku.Gen Inkayaku.Bits

theorem rs_get_active_and_passive (b : Board) :
    Rs.Bitboard.get_active_and_passive (toRsSide b.white) (toRsSide b.black) b.turn = some (toRsSide b.active, toRsSide b.passive) := by
  unfold Rs.Bitboard.get_active_and_passive Board.active Board.passive Board.whiteTurn
  simp only [rs_is_white_turn, Option.bind_eq_bind, Option.bind_some, Option.pure_def]
  by_cases hw : b.turn = 0
  · have : (b.turn == 0) = true := by simp [hw]
    simp only [this, if_true]
  · have : (b.turn == 0) = false := by simp [hw]
    simp only [this, Bool.false_eq_true, if_false]

theorem rs_generate_pseudo_legal_buffer_eq (b : Board) (acc : List Board.Move) (hep : b.ep < 64)
    (hpawn : ∀ s ∈ bitsAsc b.active.pawns, 8 ≤ s ∧ s < 56) (fuel : Nat) (hf : 130 ≤ fuel) :
    Rs.Bitboard.generate_pseudo_legal_moves_with_buffer (toRsSide b.white) (toRsSide b.black) b.turn b.ep b.halfmove
        (acc.map encMove) rookF bishopF knightF kingF whitePawnF blackPawnF fuel = some ((acc ++ genPseudo b).map encMove) := by
  unfold Rs.Bitboard.generate_pseudo_legal_moves_with_buffer
  have sr := fun acc occ a f p hp => rs_sliding_moves_eq b acc false occ a f true p hp fuel hf
  have sb := fun acc occ a f p hp => rs_sliding_moves_eq b acc false occ a f false p hp fuel hf
  simp only [if_true, Bool.false_eq_true, if_false] at sr sb
  have skn : ∀ acc occ a, Rs.Bitboard.single_moves (toRsSide b.white) (toRsSide b.black) b.turn b.ep b.halfmove
      (List.map encMove acc) false occ a knightF KNIGHT.toUInt64 fuel = some ((singleMoves b false occ a knightTable KNIGHT acc).map encMove) :=
    fun acc occ a => rs_single_moves_eq b acc false occ a knightTable KNIGHT (by decide) fuel hf
  have ski : ∀ acc occ a, Rs.Bitboard.single_moves (toRsSide b.white) (toRsSide b.black) b.turn b.ep b.halfmove
      (List.map encMove acc) false occ a kingF KING.toUInt64 fuel = some ((singleMoves b false occ a kingTable KING acc).map encMove) :=
    fun acc occ a => rs_single_moves_eq b acc false occ a kingTable KING (by decide) fuel hf
  obtain ⟨-, -, h2, h3, h4, h5, h6⟩ := rs_piece_consts
  rw [h2, h3, h4, h5, h6]
  rw [rs_get_active_and_passive, Option.bind_eq_bind, Option.bind_some]
  simp only [Option.bind_eq_bind, Option.bind_some, Option.pure_def, rs_side_full_occupancy,
    rs_side_queens, rs_side_bishops, rs_side_rooks, rs_side_knights, rs_side_kings, rs_side_pawns,
    sr _ _ _ _ QUEEN (by decide), sb _ _ _ _ QUEEN (by decide), sb _ _ _ _ BISHOP (by decide), sr _ _ _ _ ROOK (by decide),
    skn, ski,
    rs_pawn_attacks_eq b _ _ _ _ hep fuel hf, rs_pawn_moves_eq b _ false _ _ hpawn fuel hf,
    rs_castle_moves_eq b _ _ fuel (by omega)]
  congr 2
  simp only [GenSpec.slidingMoves_eq, GenSpec.singleMoves_eq, GenSpec.pawnAttacks_eq, GenSpec.pawnMoves_eq,
    GenSpec.castleMoves_eq, GenSpec.genPseudo_eq, List.append_assoc]


theorem rs_generate_non_quiescent_buffer_eq (b : Board) (acc : List Board.Move) (hep : b.ep < 64)
    (hpawn : ∀ s ∈ bitsAsc b.active.pawns, 8 ≤ s ∧ s < 56) (fuel : Nat) (hf : 130 ≤ fuel) :
    Rs.Bitboard.generate_pseudo_legal_non_quiescent_moves_with_buffer (toRsSide b.white) (toRsSide b.black) b.turn b.ep b.halfmove
        (acc.map encMove) rookF bishopF knightF kingF whitePawnF blackPawnF fuel = some ((acc ++ genNonQuiescent b).map encMove) := by
  unfold Rs.Bitboard.generate_pseudo_legal_non_quiescent_moves_with_buffer
  have sr := fun acc occ a f p hp => rs_sliding_moves_eq b acc true occ a f true p hp fuel hf
  have sb := fun acc occ a f p hp => rs_sliding_moves_eq b acc true occ a f false p hp fuel hf
  simp only [if_true, Bool.false_eq_true, if_false] at sr sb
  have skn : ∀ acc occ a, Rs.Bitboard.single_moves (toRsSide b.white) (toRsSide b.black) b.turn b.ep b.halfmove
      (List.map encMove acc) true occ a knightF KNIGHT.toUInt64 fuel = some ((singleMoves b true occ a knightTable KNIGHT acc).map encMove) :=
    fun acc occ a => rs_single_moves_eq b acc true occ a knightTable KNIGHT (by decide) fuel hf
  have ski : ∀ acc occ a, Rs.Bitboard.single_moves (toRsSide b.white) (toRsSide b.black) b.turn b.ep b.halfmove
      (List.map encMove acc) true occ a kingF KING.toUInt64 fuel = some ((singleMoves b true occ a kingTable KING acc).map encMove) :=
    fun acc occ a => rs_single_moves_eq b acc true occ a kingTable KING (by decide) fuel hf
  obtain ⟨-, -, h2, h3, h4, h5, h6⟩ := rs_piece_consts
  rw [h2, h3, h4, h5, h6]
  rw [rs_get_active_and_passive, Option.bind_eq_bind, Option.bind_some]
  simp only [Option.bind_eq_bind, Option.bind_some, Option.pure_def, rs_side_full_occupancy,
    rs_side_queens, rs_side_bishops, rs_side_rooks, rs_side_knights, rs_side_kings, rs_side_pawns,
    sr _ _ _ _ QUEEN (by decide), sb _ _ _ _ QUEEN (by decide), sb _ _ _ _ BISHOP (by decide), sr _ _ _ _ ROOK (by decide),
    skn, ski,
    rs_pawn_attacks_eq b _ _ _ _ hep fuel hf, rs_pawn_moves_eq b _ true _ _ hpawn fuel hf]
  congr 2
  simp only [GenSpec.slidingMoves_eq, GenSpec.singleMoves_eq, GenSpec.pawnAttacks_eq, GenSpec.pawnMoves_eq,
    GenSpec.genNonQuiescent_eq, List.append_assoc]

/-- `generate_pseudo_legal_moves` (`Vec::new()`, then `_with_buffer`) -/
theorem rs_generate_pseudo_legal_eq (b : Board) (hep : b.ep < 64) (hpawn : ∀ s ∈ bitsAsc b.active.pawns, 8 ≤ s ∧ s < 56)
    (fuel : Nat) (hf : 130 ≤ fuel) :
    Rs.Bitboard.generate_pseudo_legal_moves (toRsSide b.white) (toRsSide b.black) b.turn b.ep b.halfmove rookF bishopF knightF kingF
        whitePawnF blackPawnF fuel = some ((genPseudo b).map encMove) := by
  unfold Rs.Bitboard.generate_pseudo_legal_moves
  have := rs_generate_pseudo_legal_buffer_eq b [] hep hpawn fuel hf
  simp only [List.map_nil, List.nil_append] at this
  simp only [this, Option.bind_eq_bind, Option.bind_some, Option.pure_def]

/-- `generate_pseudo_legal_non_quiescent_moves` -/
theorem rs_generate_non_quiescent_eq (b : Board) (hep : b.ep < 64) (hpawn : ∀ s ∈ bitsAsc b.active.pawns, 8 ≤ s ∧ s < 56)
    (fuel : Nat) (hf : 130 ≤ fuel) :
    Rs.Bitboard.generate_pseudo_legal_non_quiescent_moves (toRsSide b.white) (toRsSide b.black) b.turn b.ep b.halfmove rookF bishopF
        knightF kingF whitePawnF blackPawnF fuel = some ((genNonQuiescent b).map encMove) := by
  unfold Rs.Bitboard.generate_pseudo_legal_non_quiescent_moves
  have := rs_generate_non_quiescent_buffer_eq b [] hep hpawn fuel hf
  simp only [List.map_nil, List.nil_append] at this
  simp only [this, Option.bind_eq_bind, Option.bind_some, Option.pure_def]

/-! #### on well-formed boards the generators never panic -/

theorem wf_gen_hyps {b : Board} (h : WF.wf b = true) : b.ep < 64 ∧ ∀ s ∈ bitsAsc b.active.pawns, 8 ≤ s ∧ s < 56 :=
  ⟨(GenOK.wf_facts h).basic.ep, fun _ hs => GenSpec.pawn_mid' (GenOK.wf_facts h) hs⟩

theorem rs_generate_pseudo_legal_wf {b : Board} (h : WF.wf b = true) (fuel : Nat) (hf : 130 ≤ fuel) :
    Rs.Bitboard.generate_pseudo_legal_moves (toRsSide b.white) (toRsSide b.black) b.turn b.ep b.halfmove rookF bishopF knightF kingF
        whitePawnF blackPawnF fuel = some ((genPseudo b).map encMove) :=
  rs_generate_pseudo_legal_eq b (wf_gen_hyps h).1 (wf_gen_hyps h).2 fuel hf

theorem rs_generate_non_quiescent_wf {b : Board} (h : WF.wf b = true) (fuel : Nat) (hf : 130 ≤ fuel) :
    Rs.Bitboard.generate_pseudo_legal_non_quiescent_moves (toRsSide b.white) (toRsSide b.black) b.turn b.ep b.halfmove rookF bishopF
        knightF kingF whitePawnF blackPawnF fuel = some ((genNonQuiescent b).map encMove) :=
  rs_generate_non_quiescent_eq b (wf_gen_hyps h).1 (wf_gen_hyps h).2 fuel hf

#print axioms rs_generate_pseudo_legal_buffer_eq
#print axioms rs_generate_non_quiescent_buffer_eq
#print axioms rs_generate_pseudo_legal_wf
#print axioms rs_generate_non_quiescent_wf

/-! non-vacuity: the hypotheses hold in the initial position (kings, rooks and pawns only), which has 25 pseudo-legal moves
(16 pawn pushes, 5 rook moves, 2 king steps, 2 castlings) -/
example : ctorDemo.ep < 64 ∧ ∀ s ∈ bitsAsc ctorDemo.active.pawns, 8 ≤ s ∧ s < 56 := by decide +kernel
example : (genPseudo ctorDemo).length = 25 := by decide +kernel

end Inkayaku.Translated
