import Inkayaku.Model.Board
import Inkayaku.Gen.Rs.MakeUnmake
import Inkayaku.Props.Translated.MoveBits
import Inkayaku.Props.Translated.Check
import Inkayaku.Props.Translated.ZobristXor
import Inkayaku.Proofs.BoardCongr
/-! Part of `Props/Translated`: see `Props/Translated/Basic.lean` for the overview.  One file per translated Rust source, so that a
change of one Rust function re-opens exactly the obligations (and the properties) that depend on it.

### n. `Bitboard::{make, unmake, make_castle, unmake_castle}` (board/src/board.rs) = `Board.makeF` / `unmakeF` (Model/Board.lean)

The generated `Bitboard.make` / `.unmake` take the six fields of the Rust `Bitboard` (`white`, `black` as regenerated
`PlayerState` structures = `toRsSide` of the model's sides) and the move word, and return the six new fields.
`get_active_and_passive_mut()` is translated as copy-in / write-back of the two borrowed fields, the `*x.pawns_ref() &= ..`
statements as bounds-checked array updates (`PlayerState::{occupancy_ref, kings_ref, rooks_ref, pawns_ref}` yield the
index), `make_castle(active, ..)` as a function returning the new `PlayerState`.

`rs_make_eq` / `rs_unmake_eq`: under hypotheses that are exactly the ways the Rust can panic (colour code above 1, `u32`
clock overflow / underflow, the `_ => panic!()` arm of the castle `match`, a piece code 7 indexing the 7-element
occupancy array) the generated function returns the fields of the model's `makeF` / `unmakeF` on the decoded move.
All of these hold for well-formed boards and generated moves (Model/WF.lean).
-/

set_option linter.unusedSimpArgs false

namespace Inkayaku.Translated
open Inkayaku.Board Inkayaku.Gen Inkayaku.MoveBits Inkayaku.BoardCongr

/-! #### array accesses of `PlayerState` through `toRsSide` -/

theorem side_idx (s : Side) (p : Nat) (hp : p < 7) : Rs.vecIdx (toRsSide s).occupancy (p : Int) = some (s.get p) := by
  have : p = 0 ∨ p = 1 ∨ p = 2 ∨ p = 3 ∨ p = 4 ∨ p = 5 ∨ p = 6 := by omega
  rcases this with h | h | h | h | h | h | h <;> subst h <;> rfl

theorem side_set (s : Side) (p : Nat) (hp : p < 7) (v : UInt64) :
    Rs.vecSet (toRsSide s).occupancy (p : Int) v = some (toRsSide (s.set p v)).occupancy := by
  have : p = 0 ∨ p = 1 ∨ p = 2 ∨ p = 3 ∨ p = 4 ∨ p = 5 ∨ p = 6 := by omega
  rcases this with h | h | h | h | h | h | h <;> subst h <;> rfl

theorem set_ge (s : Side) (p : Nat) (hp : 7 ≤ p) (v : UInt64) : s.set p v = s := by
  obtain ⟨k, rfl⟩ : ∃ k, p = k + 7 := ⟨p - 7, by omega⟩
  rfl

theorem side_with_occ (s : Side) (p : Nat) (v : UInt64) :
    ({ toRsSide s with occupancy := (toRsSide (s.set p v)).occupancy } : Rs.PlayerState) = toRsSide (s.set p v) := by
  by_cases hp : p < 7
  · have : p = 0 ∨ p = 1 ∨ p = 2 ∨ p = 3 ∨ p = 4 ∨ p = 5 ∨ p = 6 := by omega
    rcases this with h | h | h | h | h | h | h <;> subst h <;> rfl
  · rw [set_ge s p (by omega)]

theorem side_idx_oob (s : Side) (p : Nat) (hp : 7 ≤ p) : Rs.vecIdx (toRsSide s).occupancy (p : Int) = none := by
  unfold Rs.vecIdx
  rw [List.getElem?_eq_none_iff]
  simp [toRsSide]; omega

theorem get_set_same (s : Side) (p : Nat) (hp : p < 7) (v : UInt64) : (s.set p v).get p = v := by
  have : p = 0 ∨ p = 1 ∨ p = 2 ∨ p = 3 ∨ p = 4 ∨ p = 5 ∨ p = 6 := by omega
  rcases this with h | h | h | h | h | h | h <;> subst h <;> rfl

theorem set_set_same (s : Side) (p : Nat) (v w : UInt64) : (s.set p v).set p w = s.set p w := by
  by_cases hp : p < 7
  · have : p = 0 ∨ p = 1 ∨ p = 2 ∨ p = 3 ∨ p = 4 ∨ p = 5 ∨ p = 6 := by omega
    rcases this with h | h | h | h | h | h | h <;> subst h <;> rfl
  · rw [set_ge s p (by omega), set_ge s p (by omega)]

/-- one `*x.place(p) op= ..` statement of the generated code on `toRsSide s`: the model's `Side.set` -/
theorem place_update (s : Side) (p : Nat) (hp : p < 7) (g : UInt64 → UInt64) :
    (do
      let old ← Rs.vecIdx (toRsSide s).occupancy (p : Int)
      let arr ← Rs.vecSet (toRsSide s).occupancy (p : Int) (g old)
      pure ({ toRsSide s with occupancy := arr } : Rs.PlayerState)) = some (toRsSide (s.set p (g (s.get p)))) := by
  rw [side_idx s p hp]
  simp only [Option.bind_eq_bind, Option.bind_some, side_set s p hp, side_with_occ, Option.pure_def]

theorem pawns_index : Rs.PlayerState.pawns_ref_index = some ((1 : Nat) : Int) := by decide
theorem rooks_index : Rs.PlayerState.rooks_ref_index = some ((4 : Nat) : Int) := by decide
theorem kings_index : Rs.PlayerState.kings_ref_index = some ((6 : Nat) : Int) := by decide
theorem occ_index (p : Nat) (hp : p < 18446744073709551616) :
    Rs.PlayerState.occupancy_ref_index p.toUInt64 = some (p : Int) := by
  unfold Rs.PlayerState.occupancy_ref_index Rs.u64ToInt
  simp only [Nat.toUInt64_eq, UInt64.toNat_ofNat', Nat.mod_eq_of_lt hp, Option.pure_def]
  rw [Rs.cast_usize (by omega) (by omega)]

theorem shl_one (s : Nat) (hs : s < 64) : Rs.u64Shl (1 : UInt64) (s : Int) = some (bitU s) := by
  rw [u64Shl_natCast _ _ hs]; rfl

/-- `make_castle` on `toRsSide s` -/
theorem rs_make_castle_eq (s : Side) (rs ks rt kt : UInt64) :
    Rs.Bitboard.make_castle (toRsSide s) rs ks rt kt =
      some (toRsSide { s with rooks := clearBit s.rooks rs ||| rt, kings := clearBit s.kings ks ||| kt }) := by
  unfold Rs.Bitboard.make_castle
  simp only [rooks_index, kings_index, Option.bind_eq_bind, Option.bind_some, Option.pure_def,
    side_idx _ 4 (by decide), side_idx _ 6 (by decide), side_set _ 4 (by decide), side_set _ 6 (by decide), side_with_occ]
  rfl

theorem rs_unmake_castle_eq (s : Side) (rs ks rt kt : UInt64) :
    Rs.Bitboard.unmake_castle (toRsSide s) rs ks rt kt =
      some (toRsSide { s with rooks := clearBit s.rooks rt ||| rs, kings := clearBit s.kings kt ||| ks }) := by
  unfold Rs.Bitboard.unmake_castle
  simp only [rs_make_castle_eq, Option.bind_eq_bind, Option.bind_some, Option.pure_def]


theorem set_qs (s : Side) (p : Nat) (v : UInt64) : (s.set p v).qs = s.qs := by
  by_cases hp : p < 7
  · have : p = 0 ∨ p = 1 ∨ p = 2 ∨ p = 3 ∨ p = 4 ∨ p = 5 ∨ p = 6 := by omega
    rcases this with h | h | h | h | h | h | h <;> subst h <;> rfl
  · rw [set_ge s p (by omega)]

theorem set_ks (s : Side) (p : Nat) (v : UInt64) : (s.set p v).ks = s.ks := by
  by_cases hp : p < 7
  · have : p = 0 ∨ p = 1 ∨ p = 2 ∨ p = 3 ∨ p = 4 ∨ p = 5 ∨ p = 6 := by omega
    rcases this with h | h | h | h | h | h | h <;> subst h <;> rfl
  · rw [set_ge s p (by omega)]

theorem toRs_qs (s : Side) : (toRsSide s).queen_side_castle = s.qs := rfl
theorem toRs_ks (s : Side) : (toRsSide s).king_side_castle = s.ks := rfl

/-- a `PlayerState` assembled from the occupancy of one side and the castling flags of another -/
theorem repack (s' : Side) (q k : Bool) :
    Rs.PlayerState.mk (toRsSide s').occupancy q k = toRsSide { s' with qs := q, ks := k } := rfl

theorem side_eta (s : Side) : ({ s with qs := s.qs, ks := s.ks } : Side) = s := by cases s; rfl

theorem shl8 (x : UInt64) : Rs.u64Shl x 8 = some (x <<< 8) := by
  simp [Rs.u64Shl]
theorem shr8 (x : UInt64) : Rs.u64Shr x 8 = some (x >>> 8) := by
  simp [Rs.u64Shr]

theorem castle_masks :
    Rs.A1_MASK = some (bitU A1) ∧ Rs.D1_MASK = some (bitU D1) ∧ Rs.F1_MASK = some (bitU F1) ∧ Rs.H1_MASK = some (bitU H1) ∧
    Rs.A8_MASK = some (bitU A8) ∧ Rs.D8_MASK = some (bitU D8) ∧ Rs.F8_MASK = some (bitU F8) ∧ Rs.H8_MASK = some (bitU H8) := by
  decide

theorem with_flags_set (X : Side) (p : Nat) (v : UInt64) (q k : Bool) (hq : X.qs = q) (hk : X.ks = k) :
    ({ X.set p v with qs := q, ks := k } : Side) = X.set p v := by
  subst hq hk
  by_cases hp : p < 7
  · have : p = 0 ∨ p = 1 ∨ p = 2 ∨ p = 3 ∨ p = 4 ∨ p = 5 ∨ p = 6 := by omega
    rcases this with h | h | h | h | h | h | h <;> subst h <;> rfl
  · rw [set_ge X p (by omega)]

theorem set_one (s : Side) (v : UInt64) : s.set 1 v = { s with pawns := v } := rfl
theorem get_one (s : Side) : s.get 1 = s.pawns := rfl

/-- the six fields of the Rust `Bitboard` for a model board -/
def boardFields (b : Board) : Rs.PlayerState × Rs.PlayerState × Int × Int × Int × Int :=
  (toRsSide b.white, toRsSide b.black, (b.turn : Int), (b.ep : Int), (b.fullmove : Int), (b.halfmove : Int))

theorem rs_is_white_turn_eq (t : Nat) : Rs.Bitboard.is_white_turn (t : Int) = some (t == 0) := by
  unfold Rs.Bitboard.is_white_turn Rs.WHITE
  by_cases h : t = 0 <;> simp [h]

/-- the two `if mv.is_.._lost_.._castle() { x.king_side_castle = v; }` statements on `toRsSide s` -/
theorem flags2 {β : Type} (s : Side) (k q v : Bool) (F : Rs.PlayerState → Option β) :
    ((if k = true then some (Rs.PlayerState.mk (toRsSide s).occupancy (toRsSide s).queen_side_castle v) else some (toRsSide s)).bind
      fun a => (if q = true then some (Rs.PlayerState.mk a.occupancy v a.king_side_castle) else some a).bind F) =
    F (toRsSide (if v then giveRights s k q else dropRights s k q)) := by
  cases k <;> cases q <;> cases v <;> rfl

theorem target_lt (b : UInt64) : (decode b).target < 64 := by
  show field b targetSquareMask targetSquareShift < 64
  rw [field_eq b targetSquareMask targetSquareShift 6 (by decide) (by decide) (by decide)]
  exact Nat.mod_lt _ (by decide)

theorem source_lt (b : UInt64) : (decode b).source < 64 := by
  show field b sourceSquareMask sourceSquareShift < 64
  rw [field_eq b sourceSquareMask sourceSquareShift 6 (by decide) (by decide) (by decide)]
  exact Nat.mod_lt _ (by decide)

theorem field_lt64 (b : UInt64) (m s : Nat) : field b m s < 18446744073709551616 := by
  unfold field; exact UInt64.toNat_lt _

theorem rs_make_eq (b : Board) (bits : UInt64)
    (hturn : b.turn ≤ 1) (hfull : b.fullmove + b.turn < 4294967296)
    (hhalf : (decode bits).halfmoveReset = false → b.halfmove + 1 < 4294967296)
    (hC : (decode bits).castle = true → castleRook (decode bits).target ≠ none)
    (hP : (decode bits).castle = false → (decode bits).enPassant = false →
      (decode bits).pieceAttacked < 7 ∧
        (if (decode bits).promotion != 0 then (decode bits).promotion < 7 else (decode bits).pieceMoved < 7)) :
    Rs.Bitboard.make (toRsSide b.white) (toRsSide b.black) b.turn b.ep b.fullmove b.halfmove bits =
      some (boardFields (makeF b (decode bits))) := by
  have htg := target_lt bits
  have hsrc := source_lt bits
  have hprom : (decode bits).promotion < 18446744073709551616 := field_lt64 _ _ _
  have hpm : (decode bits).pieceMoved < 18446744073709551616 := field_lt64 _ _ _
  have hpa : (decode bits).pieceAttacked < 18446744073709551616 := field_lt64 _ _ _
  have hnep : (decode bits).nextEp < 4294967296 := by
    show field bits nextEnPassantMask nextEnPassantShift < 4294967296
    rw [field_eq bits nextEnPassantMask nextEnPassantShift 6 (by decide) (by decide) (by decide)]
    exact Nat.lt_of_lt_of_le (Nat.mod_lt _ (by decide)) (by decide)
  unfold Rs.Bitboard.make
  obtain ⟨f1, f2, f3, f4, f5, f6, f7, f8, f9, f10, f11, f12, f13, f14, f15, f16⟩ := fold_decode bits
  simp only [rs_is_halfmove_reset, rs_get_next_en_passant_square, rs_is_self_lost_king_side_castle,
    rs_is_self_lost_queen_side_castle, rs_is_opponent_lost_king_side_castle, rs_is_opponent_lost_queen_side_castle,
    rs_get_piece_moved, rs_get_promotion_piece,
    rs_get_piece_attacked, rs_get_source_square, rs_get_target_square, rs_is_castle_move, rs_is_en_passant_attack,
    rs_is_promotion, f1, f2, f3, f4, f5, f6, f7, f8, f9, f10, f11, f12, f13, f14, f15, f16]
  clear f1 f2 f3 f4 f5 f6 f7 f8 f9 f10 f11 f12 f13 f14 f15 f16
  generalize decode bits = f at *
  clear bits
  have hfullchk : Rs.chk Rs.Ty.u32 ((b.fullmove : Int) + (b.turn : Int)) = some ((b.fullmove + b.turn : Nat) : Int) := by
    rw [Rs.chk_u32 (by omega) (by omega)]; rfl
  simp only [rs_is_white_turn_eq, hfullchk, rs_opposite_turn_eq b.turn hturn, Option.bind_eq_bind, Option.bind_some,
    Option.pure_def, shl_one _ hsrc, shl_one _ htg]
  have hhchk : (if f.halfmoveReset = true then some 0 else Rs.chk Rs.Ty.u32 ((b.halfmove : Int) + 1)) =
      some (((if f.halfmoveReset then 0 else b.halfmove + 1 : Nat)) : Int) := by
    cases hr : f.halfmoveReset
    · have := hhalf hr
      simp only [Bool.false_eq_true, if_false]
      rw [Rs.chk_u32 (by omega) (by omega)]; rfl
    · rfl
  simp only [hhchk, Option.bind_some]
  have hT : b.turn = 0 ∨ b.turn = 1 := by omega
  obtain ⟨mA1, mD1, mF1, mH1, mA8, mD8, mF8, mH8⟩ := castle_masks
  rw [makeF_eq]
  unfold mkMover mkOther
  rcases hT with hT | hT <;>
  · simp only [hT, show ((1 - 0 : Nat) == 0) = false from rfl, show ((0 : Nat) == 0) = true from rfl,
      show ((1 - 1 : Nat) == 0) = true from rfl, show ((1 : Nat) == 0) = false from rfl, Bool.false_eq_true,
      if_false, if_true, flags2, Board.whiteTurn, Board.active, Board.passive, boardFields]
    cases hcas : f.castle
    · simp only [Bool.false_eq_true, if_false]
      cases hep : f.enPassant
      · simp only [Bool.false_eq_true, if_false]
        obtain ⟨hpa7, hx⟩ := hP hcas hep
        cases hpr : (f.promotion != 0)
        · -- normal move
          simp only [hpr, Bool.false_eq_true, if_false] at hx ⊢
          simp only [occ_index _ hpm, occ_index _ hpa, Option.bind_some, side_idx _ _ hx, side_idx _ _ hpa7,
            side_set _ _ hx, side_set _ _ hpa7, repack, toRs_qs, toRs_ks, get_set_same _ _ hx, set_set_same, NO_PIECE,
            with_flags_set _ _ _ _ _ rfl rfl, clearBit, Nat.sub_zero, Nat.add_zero, hpr, Bool.false_eq_true, if_false, if_true]
        · -- promotion
          simp only [hpr, if_true] at hx ⊢
          simp only [occ_index _ hprom, occ_index _ hpa, pawns_index, Option.bind_some, side_idx _ _ hx, side_idx _ _ hpa7,
            side_idx _ 1 (by decide), side_set _ 1 (by decide),
            side_set _ _ hx, side_set _ _ hpa7, repack, toRs_qs, toRs_ks, NO_PIECE, set_one, get_one,
            with_flags_set _ _ _ _ _ rfl rfl, clearBit, Nat.sub_zero, Nat.add_zero, hpr, Bool.false_eq_true, if_false, if_true]
      · -- en passant
        simp only [if_true, pawns_index, Option.bind_some, side_idx _ 1 (by decide), side_set _ 1 (by decide), shl8, shr8,
          repack, toRs_qs, toRs_ks, set_one, get_one, clearBit, epVictim, Nat.sub_zero, Nat.add_zero, Bool.false_eq_true,
          if_false, if_true]
    · -- castle
      have hr := hC hcas
      simp only [if_true]
      unfold castleRook at hr ⊢
      have c1 : Rs.C1 = ((C1 : Nat) : Int) := rfl
      have g1 : Rs.G1 = ((G1 : Nat) : Int) := rfl
      have c8 : Rs.C8 = ((C8 : Nat) : Int) := rfl
      have g8 : Rs.G8 = ((G8 : Nat) : Int) := rfl
      simp only [c1, g1, c8, g8, Int.natCast_inj, mA1, mD1, mF1, mH1, mA8, mD8, mF8, mH8, Option.bind_some,
        rs_make_castle_eq]
      by_cases t1 : f.target = C1
      · simp [t1, C1, G1]
      · by_cases t2 : f.target = G1
        · simp [t2, G1, C1]
        · by_cases t3 : f.target = C8
          · simp [t3, C8, G1, C1]
          · by_cases t4 : f.target = G8
            · simp [t4, G8, C8, G1, C1]
            · exfalso; simp [t1, t2, t3, t4] at hr

#print axioms rs_make_eq

theorem rs_unmake_eq (b : Board) (bits : UInt64)
    (hturn : b.turn ≤ 1) (hfull : 1 - b.turn ≤ b.fullmove) (hfull' : b.fullmove < 4294967296)
    (hC : (decode bits).castle = true → castleRook (decode bits).target ≠ none)
    (hP : (decode bits).castle = false → (decode bits).pieceAttacked < 7 ∧ ((decode bits).enPassant = false →
        (if (decode bits).promotion != 0 then (decode bits).promotion < 7 else (decode bits).pieceMoved < 7))) :
    Rs.Bitboard.unmake (toRsSide b.white) (toRsSide b.black) b.turn b.ep b.fullmove b.halfmove bits =
      some (boardFields (unmakeF b (decode bits))) := by
  have htg := target_lt bits
  have hsrc := source_lt bits
  have hprom : (decode bits).promotion < 18446744073709551616 := field_lt64 _ _ _
  have hpm : (decode bits).pieceMoved < 18446744073709551616 := field_lt64 _ _ _
  have hpa : (decode bits).pieceAttacked < 18446744073709551616 := field_lt64 _ _ _
  unfold Rs.Bitboard.unmake
  obtain ⟨f1, f2, f3, f4, f5, f6, f7, f8, f9, f10, f11, f12, f13, f14, f15, f16⟩ := fold_decode bits
  simp only [rs_get_previous_halfmove, rs_get_previous_en_passant_square, rs_is_self_lost_king_side_castle,
    rs_is_self_lost_queen_side_castle, rs_is_opponent_lost_king_side_castle, rs_is_opponent_lost_queen_side_castle,
    rs_get_piece_moved, rs_get_promotion_piece,
    rs_get_piece_attacked, rs_get_source_square, rs_get_target_square, rs_is_castle_move, rs_is_en_passant_attack,
    rs_is_promotion, f1, f2, f3, f4, f5, f6, f7, f8, f9, f10, f11, f12, f13, f14, f15, f16]
  clear f1 f2 f3 f4 f5 f6 f7 f8 f9 f10 f11 f12 f13 f14 f15 f16
  generalize decode bits = f at *
  clear bits
  have hc1 : Rs.chk Rs.Ty.u32 (1 - (b.turn : Int)) = some ((1 - b.turn : Nat) : Int) := by
    rw [Rs.chk_u32 (by omega) (by omega)]; congr 1; omega
  have hc2 : Rs.chk Rs.Ty.u32 ((b.fullmove : Int) - ((1 - b.turn : Nat) : Int)) = some ((b.fullmove - (1 - b.turn) : Nat) : Int) := by
    rw [Rs.chk_u32 (by omega) (by omega)]; congr 1; omega
  simp only [rs_is_white_turn_eq, hc1, hc2, rs_opposite_turn_eq b.turn hturn, Option.bind_eq_bind, Option.bind_some,
    Option.pure_def, shl_one _ hsrc, shl_one _ htg]
  have hT : b.turn = 0 ∨ b.turn = 1 := by omega
  obtain ⟨mA1, mD1, mF1, mH1, mA8, mD8, mF8, mH8⟩ := castle_masks
  rw [unmakeF_eq]
  unfold unMover unOther
  rcases hT with hT | hT <;>
  · simp only [hT, show ((1 - 0 : Nat) == 0) = false from rfl, show ((0 : Nat) == 0) = true from rfl,
      show ((1 - 1 : Nat) == 0) = true from rfl, show ((1 : Nat) == 0) = false from rfl, Bool.false_eq_true,
      if_false, if_true, flags2, Board.whiteTurn, Board.active, Board.passive, boardFields, Bool.not_true, Bool.not_false]
    cases hcas : f.castle
    · simp only [Bool.false_eq_true, if_false]
      obtain ⟨hpa7, hx'⟩ := hP hcas
      cases hep : f.enPassant
      · simp only [Bool.false_eq_true, if_false]
        have hx := hx' hep
        cases hpr : (f.promotion != 0)
        · -- normal move
          simp only [hpr, Bool.false_eq_true, if_false] at hx ⊢
          simp only [occ_index _ hpm, occ_index _ hpa, Option.bind_some, side_idx _ _ hx, side_idx _ _ hpa7,
            side_set _ _ hx, side_set _ _ hpa7, repack, toRs_qs, toRs_ks, get_set_same _ _ hx, set_set_same, NO_PIECE,
            with_flags_set _ _ _ _ _ rfl rfl, clearBit, Nat.sub_zero, Nat.add_zero, hpr, Bool.false_eq_true, if_false, if_true]
        · -- promotion
          simp only [hpr, if_true] at hx ⊢
          simp only [occ_index _ hprom, occ_index _ hpa, pawns_index, Option.bind_some, side_idx _ _ hx, side_idx _ _ hpa7,
            side_idx _ 1 (by decide), side_set _ 1 (by decide),
            side_set _ _ hx, side_set _ _ hpa7, repack, toRs_qs, toRs_ks, NO_PIECE, set_one, get_one,
            with_flags_set _ _ _ _ _ rfl rfl, clearBit, Nat.sub_zero, Nat.add_zero, hpr, Bool.false_eq_true, if_false, if_true]
      · -- en passant
        simp only [if_true, pawns_index, occ_index _ hpa, Option.bind_some, side_idx _ 1 (by decide), side_set _ 1 (by decide),
          side_idx _ _ hpa7, side_set _ _ hpa7, shl8, shr8,
          repack, toRs_qs, toRs_ks, set_one, get_one, clearBit, epVictim, Nat.sub_zero, Nat.add_zero, Bool.false_eq_true,
          with_flags_set _ _ _ _ _ rfl rfl, if_false, if_true]
    · -- castle
      have hr := hC hcas
      simp only [if_true]
      unfold castleRook at hr ⊢
      have c1 : Rs.C1 = ((C1 : Nat) : Int) := rfl
      have g1 : Rs.G1 = ((G1 : Nat) : Int) := rfl
      have c8 : Rs.C8 = ((C8 : Nat) : Int) := rfl
      have g8 : Rs.G8 = ((G8 : Nat) : Int) := rfl
      simp only [c1, g1, c8, g8, Int.natCast_inj, mA1, mD1, mF1, mH1, mA8, mD8, mF8, mH8, Option.bind_some,
        rs_unmake_castle_eq]
      by_cases t1 : f.target = C1
      · simp [t1, C1, G1]
      · by_cases t2 : f.target = G1
        · simp [t2, G1, C1]
        · by_cases t3 : f.target = C8
          · simp [t3, C8, G1, C1]
          · by_cases t4 : f.target = G8
            · simp [t4, G8, C8, G1, C1]
            · exfalso; simp [t1, t2, t3, t4] at hr

#print axioms rs_unmake_eq

/-- `make` on a model move -/
theorem rs_make_move_eq (b : Board) (m : Board.Move)
    (hturn : b.turn ≤ 1) (hfull : b.fullmove + b.turn < 4294967296)
    (hhalf : m.f.halfmoveReset = false → b.halfmove + 1 < 4294967296)
    (hC : m.f.castle = true → castleRook m.f.target ≠ none)
    (hP : m.f.castle = false → m.f.enPassant = false →
      m.f.pieceAttacked < 7 ∧ (if m.f.promotion != 0 then m.f.promotion < 7 else m.f.pieceMoved < 7)) :
    Rs.Bitboard.make (toRsSide b.white) (toRsSide b.black) b.turn b.ep b.fullmove b.halfmove m.bits =
      some (boardFields (Board.make b m)) :=
  rs_make_eq b m.bits hturn hfull hhalf hC hP

/-- `unmake` on a model move -/
theorem rs_unmake_move_eq (b : Board) (m : Board.Move)
    (hturn : b.turn ≤ 1) (hfull : 1 - b.turn ≤ b.fullmove) (hfull' : b.fullmove < 4294967296)
    (hC : m.f.castle = true → castleRook m.f.target ≠ none)
    (hP : m.f.castle = false → m.f.pieceAttacked < 7 ∧ (m.f.enPassant = false →
        (if m.f.promotion != 0 then m.f.promotion < 7 else m.f.pieceMoved < 7))) :
    Rs.Bitboard.unmake (toRsSide b.white) (toRsSide b.black) b.turn b.ep b.fullmove b.halfmove m.bits =
      some (boardFields (Board.unmake b m)) :=
  rs_unmake_eq b m.bits hturn hfull hfull' hC hP

/-! non-vacuity: 1. e2-e4 on a small position; a piece code 7 panics (array of 7) -/
def demoPos : Board :=
  { white := { pawns := bitU 52, kings := bitU 60 }, black := { kings := bitU 4 }, turn := 0, ep := 0, fullmove := 1, halfmove := 3 }
def demoMove : Board.Move := ⟨encode { pieceMoved := 1, source := 52, target := 36, nextEp := 44, prevHalfmove := 3, halfmoveReset := true }, 0⟩
example : (Board.make demoPos demoMove).white.pawns = bitU 36 ∧ (Board.make demoPos demoMove).ep = 44 ∧
    (Board.make demoPos demoMove).turn = 1 := by decide
example : Rs.Bitboard.make (toRsSide demoPos.white) (toRsSide demoPos.black) 0 0 1 3 demoMove.bits =
    some (boardFields (Board.make demoPos demoMove)) :=
  rs_make_move_eq demoPos demoMove (by decide) (by decide) (by decide) (by decide) (by decide)
example : Rs.Bitboard.unmake (toRsSide (Board.make demoPos demoMove).white) (toRsSide (Board.make demoPos demoMove).black) 1 44 1 0
    demoMove.bits = some (boardFields (Board.unmake (Board.make demoPos demoMove) demoMove)) :=
  rs_unmake_move_eq (Board.make demoPos demoMove) demoMove (by decide) (by decide) (by decide) (by decide) (by decide)
example : Rs.Bitboard.make (toRsSide demoPos.white) (toRsSide demoPos.black) 0 0 1 3 (encode { pieceMoved := 7, source := 52, target := 36 }) = none := by
  decide

end Inkayaku.Translated