import Inkayaku.Props.Translated.Make
import Inkayaku.Props.Translated.Unmake
/-! Part of `Props/Translated`: compatibility umbrella.  The theorems about `Bitboard::{make, make_castle}` are in `Make.lean`
(`rs_make_castle_eq`, `rs_make_eq`, `rs_make_move_eq`), those about `Bitboard::{unmake, unmake_castle}` in `Unmake.lean`
(`rs_unmake_castle_eq`, `rs_unmake_eq`, `rs_unmake_move_eq`), the shared helper lemmas in `MakeUnmakeCommon.lean`.  A property
lists the file(s) of the functions it relies on, not this one. -/
