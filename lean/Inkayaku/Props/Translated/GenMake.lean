import Inkayaku.Props.Translated.Make
import Inkayaku.Props.Translated.Check
import Inkayaku.Props.Translated.GenCommon
import Inkayaku.Proofs.GenOK
/-! Part of `Props/Translated`: see `Props/Translated/GenCommon.lean` for the description of the `…_generated` theorems.

### o1. the translated `Bitboard::make`, and `is_valid` on its result, on generated moves of well-formed boards

Must not import `Unmake.lean` / `GenUnmake.lean` / `ZobristXor.lean` / `GenXor.lean`: a change of the Rust `unmake` or `zobrist_xor`
must leave these theorems standing. -/

namespace Inkayaku.Translated
open Inkayaku.Board Inkayaku.Gen Inkayaku.MoveBits Inkayaku.BoardCongr Inkayaku.WF Inkayaku.MakeUnmake

/-- GENERATED MOVES ON WELL-FORMED BOARDS: the translated `Bitboard::make` never panics and yields the model's successor -/
theorem rs_make_generated {b : Board} (h : wf b = true) {m : Board.Move} (hm : m ∈ genPseudo b) :
    Rs.Bitboard.make (toRsSide b.white) (toRsSide b.black) b.turn b.ep b.fullmove b.halfmove m.bits =
      some (boardFields (Board.make b m)) := by
  obtain ⟨hf1, hf2, hh, ht⟩ := wf_clocks h
  obtain ⟨-, hok⟩ := GenOK.genPseudo_ok h m hm
  obtain ⟨-, -, -, -, -, hmv, hot⟩ := hok
  obtain ⟨-, -, hshape⟩ := hmv
  obtain ⟨-, -, hoth⟩ := hot
  unfold ShapeOK at hshape
  refine rs_make_move_eq b m ht (by omega) (fun _ => by omega) ?_ ?_
  · intro hc
    rw [if_pos hc] at hshape
    intro hn
    rw [hn] at hshape
    exact hshape
  · intro hc he
    simp only [hc, he, Bool.false_eq_true, if_false] at hshape hoth
    refine ⟨by omega, ?_⟩
    by_cases hp : (m.f.promotion != NO_PIECE) = true
    · rw [if_pos hp] at hshape
      have : (m.f.promotion != 0) = true := hp
      rw [if_pos this]; omega
    · rw [if_neg hp] at hshape
      have : ¬ (m.f.promotion != 0) = true := hp
      rw [if_neg this]; omega

#print axioms rs_make_generated

/-- `is_move_legal` = `make; is_valid; unmake` with the translated functions: the middle step on the successor -/
theorem rs_is_valid_after_make {b : Board} (h : wf b = true) (m : Board.Move) :
    Rs.Bitboard.is_valid (toRsSide (Board.make b m).white) (toRsSide (Board.make b m).black) (Board.make b m).turn
      rookF bishopF knightF whitePawnF blackPawnF kingF = some (isMoveLegal b m) := by
  obtain ⟨-, -, -, ht⟩ := wf_clocks h
  have e1 : (Board.make b m).turn = 1 - b.turn := rfl
  exact rs_is_valid_eq (Board.make b m) (by rw [e1]; omega)

#print axioms rs_is_valid_after_make

/-! non-vacuity: the hypotheses are satisfiable (1. e2-e4 in a small legal position, `GenCommon.demo_wf`, `demo_gen`) -/
example : Rs.Bitboard.make (toRsSide demoPos.white) (toRsSide demoPos.black) demoPos.turn demoPos.ep demoPos.fullmove
    demoPos.halfmove demoMove.bits = some (boardFields (Board.make demoPos demoMove)) := rs_make_generated demo_wf demo_gen
example : Rs.Bitboard.is_valid (toRsSide (Board.make demoPos demoMove).white) (toRsSide (Board.make demoPos demoMove).black)
    (Board.make demoPos demoMove).turn rookF bishopF knightF whitePawnF blackPawnF kingF = some (isMoveLegal demoPos demoMove) :=
  rs_is_valid_after_make demo_wf demoMove

end Inkayaku.Translated
