import Inkayaku.Gen.Rs.FindUci
import Inkayaku.Props.Translated.UciText
import Inkayaku.Props.Translated.GenerateTop
import Inkayaku.Props.Translated.GenUnmake
import Inkayaku.Model.San
import Inkayaku.Proofs.BoardCongr
import Inkayaku.Proofs.GenSpecLegal
/-! Part of `Props/Translated`: see `Props/Translated/Basic.lean` for the overview.

### `Bitboard::{find_uci, make_uci}` (board/src/board.rs; generated module `FindUci`) = `San.findUci`, `San.makeUci` (Model/San.lean); property C13

`find_uci` = trim the text, generate the pseudo-legal moves, `find` the first one whose `to_uci_string()` is the text (the generated
`find_uci.find_1`, by structural recursion on the list), then `make; is_valid; unmake` on `self`.  The translation returns the
`Result` AND the six fields of `self` afterwards.  On a well-formed board the translated function never panics, its result is the
model's (`Ok(mv)` = the packed model move; the error KIND is the model's, payloads = the trimmed text / the found move), and the board
it leaves is the model's `(findUci b s).2` — which holds the same position as before (`vis`, composing with `rs_unmake_generated`):
a rejected move leaves the position as it was.  The board may start as any `c` with `vis c = vis b` (the scratch words
`occupancy[NO_PIECE]` differ after an `unmake`), which is what `make_all_uci` needs. -/

namespace Inkayaku.Translated
open Inkayaku.Board Inkayaku.Gen Inkayaku.WF Inkayaku.BoardCongr Inkayaku.San

/-- the model's error kind of a `MoveFromUciError` (payloads dropped) -/
def uciErrKind : Rs.MoveFromUciError → UciErr
  | .MoveDoesNotExist _ => .notExist
  | .MoveIsNotValid _ => .notValid

/-- a translated result against a model result: `Ok` payloads related by `r`, errors of the same kind; the payload of
`MoveDoesNotExist` is the text `t` -/
def uciResRel {α β : Type} (t : List Char) (r : α → β → Prop) : Except Rs.MoveFromUciError α → Except UciErr β → Prop
  | .ok a, .ok x => r a x
  | .error (.MoveDoesNotExist t'), .error .notExist => t' = t
  | .error (.MoveIsNotValid _), .error .notValid => True
  | _, _ => False

theorem rs_to_uci_string_generated {S P : Type} {fromIndex : Int → Option S} {mask : S → UInt64} {sqfen : S → List Char}
    {pfromIndex : Int → Option P} {pfen : P → Char} (hs : SquareTables fromIndex mask sqfen) (hp : PieceLetters pfromIndex pfen)
    {b : Board} (h : wf b = true) {m : Board.Move} (hm : m ∈ genPseudo b) :
    Rs.Move.to_uci_string m.bits fromIndex sqfen pfromIndex pfen = some m.uci.toList := by
  obtain ⟨h1, h2, h3⟩ := GenSpec.gen_bounds h hm
  exact rs_to_uci_string_eq fromIndex mask sqfen pfromIndex pfen hs hp m h1 h2 h3

theorem find_1_cons {S P : Type} (uci : List Char) (SF : Int → Option S) (Sf : S → List Char) (PF : Int → Option P) (Pf : P → Char)
    (mb : UInt64) (mv : Int) (rest : List (UInt64 × Int)) :
    Rs.Bitboard.find_uci.find_1 uci SF Sf PF Pf ((mb, mv) :: rest) =
      (Rs.Move.to_uci_string mb SF Sf PF Pf).bind fun t =>
        if decide (t = uci) = true then some (some (mb, mv)) else Rs.Bitboard.find_uci.find_1 uci SF Sf PF Pf rest := by
  rw [Rs.Bitboard.find_uci.find_1]
  rfl

theorem uci_beq (a u : String) : decide (a.toList = u.toList) = (a == u) := by
  rw [Bool.eq_iff_iff]
  simp only [decide_eq_true_eq, beq_iff_eq, String.toList_inj]

/-- the translated `find` = `List.find?` on the model moves, given the text of every move in the list -/
theorem rs_find_loop {S P : Type} (u : String) (SF : Int → Option S) (Sf : S → List Char) (PF : Int → Option P) (Pf : P → Char) :
    ∀ ms : List Board.Move, (∀ m ∈ ms, Rs.Move.to_uci_string m.bits SF Sf PF Pf = some m.uci.toList) →
      Rs.Bitboard.find_uci.find_1 u.toList SF Sf PF Pf (ms.map encMove) =
        some ((ms.find? (fun m => m.uci == u)).map encMove)
  | [], _ => rfl
  | m :: ms, hms => by
    rw [List.map_cons]
    show Rs.Bitboard.find_uci.find_1 u.toList SF Sf PF Pf ((m.bits, m.mvvlva) :: ms.map encMove) = _
    rw [find_1_cons, hms m List.mem_cons_self, Option.bind_some, uci_beq, List.find?_cons]
    cases hq : (m.uci == u)
    · rw [if_neg (by simp)]
      exact rs_find_loop u SF Sf PF Pf ms (fun x hx => hms x (List.mem_cons_of_mem _ hx))
    · rw [if_pos rfl]; rfl

section
variable {S P : Type} {fromIndex : Int → Option S} {mask : S → UInt64} {sqfen : S → List Char}
  {pfromIndex : Int → Option P} {pfen : P → Char}

/-- **`Bitboard::find_uci` (translated) = `San.findUci`**, started on any board `c` holding the position of the well-formed `b` -/
theorem rs_find_uci_vis (hs : SquareTables fromIndex mask sqfen) (hp : PieceLetters pfromIndex pfen)
    {b c : Board} (h : wf b = true) (hc : vis c = vis b) (s : String) (fuel : Nat) (hf : 130 ≤ fuel) :
    ∃ r c', vis c' = vis b ∧
      Rs.Bitboard.find_uci (toRsSide c.white) (toRsSide c.black) c.turn c.ep c.fullmove c.halfmove s.toList rookF bishopF knightF
        kingF whitePawnF blackPawnF fromIndex sqfen pfromIndex pfen fuel = some (r, boardFields c') ∧
      uciResRel (Util.rustTrim s).toList (fun p m => p = encMove m) r (findUci b s).1 ∧
      (∀ m, (findUci b s).1 = .ok m → m ∈ genPseudo b ∧ isMoveLegal b m = true) ∧ (c = b → c' = (findUci b s).2) := by
  have hwc : wf c = true := by rw [wf_congr hc]; exact h
  have hgc : genPseudo c = genPseudo b := genPseudo_congr hc
  unfold Rs.Bitboard.find_uci findUci
  rw [rs_str_trim_string, rs_generate_pseudo_legal_wf hwc fuel hf, hgc]
  simp only [Option.bind_eq_bind, Option.bind_some]
  rw [rs_find_loop (Util.rustTrim s) fromIndex sqfen pfromIndex pfen (genPseudo b)
    (fun m hm => rs_to_uci_string_generated hs hp h hm), Option.bind_some]
  cases hfind : (genPseudo b).find? (fun m => m.uci == Util.rustTrim s) with
  | none =>
    refine ⟨_, c, hc, rfl, ?_, ?_, fun e => e⟩
    · simp only [uciResRel]
    · intro m hm; simp only [reduceCtorEq] at hm
  | some m =>
    have hm : m ∈ genPseudo b := List.mem_of_find?_eq_some hfind
    have hmc : m ∈ genPseudo c := by rw [hgc]; exact hm
    have e1 := rs_make_generated hwc hmc
    have e2 := rs_is_valid_after_make hwc m
    have e3 := (rs_unmake_generated hwc hmc).1
    have e4 := (rs_unmake_generated hwc hmc).2
    have el : isMoveLegal c m = isMoveLegal b m := isMoveLegal_congr hc m
    simp only [boardFields] at e1 e3
    simp only [Option.map_some, encMove, e1, Option.bind_some, e2, e3, Option.pure_def, el]
    have hv : isValid (Board.make b m) = isMoveLegal b m := rfl
    rw [hv]
    cases hl : isMoveLegal b m
    · refine ⟨.error (.MoveIsNotValid (m.bits, m.mvvlva)), Board.unmake (Board.make c m) m, e4.trans hc, rfl, ?_, ?_, ?_⟩
      case' refine_3 => intro e; subst e; rfl
      · simp only [Bool.not_false, if_true, uciResRel]
      · intro m' hm'; simp only [Bool.not_false, if_true, reduceCtorEq] at hm'
    · refine ⟨.ok (m.bits, m.mvvlva), Board.unmake (Board.make c m) m, e4.trans hc, rfl, ?_, ?_, ?_⟩
      case' refine_3 => intro e; subst e; rfl
      · simp only [Bool.not_true, Bool.false_eq_true, if_false, uciResRel]
      · intro m' hm'
        simp only [Bool.not_true, Bool.false_eq_true, if_false, Except.ok.injEq] at hm'
        rw [← hm']; exact ⟨hm, hl⟩

/-- the board the model's `findUci` leaves holds the position it started from: a rejected (or accepted) lookup changes nothing -/
theorem findUci_vis {b : Board} (h : wf b = true) (s : String) : vis (findUci b s).2 = vis b := by
  unfold findUci
  simp only
  cases hfind : (genPseudo b).find? (fun m => m.uci == Util.rustTrim s) with
  | none => rfl
  | some m =>
    have e := (rs_unmake_generated h (List.mem_of_find?_eq_some hfind)).2
    simp only
    cases (!isValid (Board.make b m)) <;> exact e

/-- **`Bitboard::find_uci` (translated from the current source) = `San.findUci`** on a well-formed board: no panic, the model's
result, the model's board afterwards, which holds the same position as before -/
theorem rs_find_uci_eq (hs : SquareTables fromIndex mask sqfen) (hp : PieceLetters pfromIndex pfen)
    {b : Board} (h : wf b = true) (s : String) (fuel : Nat) (hf : 130 ≤ fuel) :
    ∃ r, Rs.Bitboard.find_uci (toRsSide b.white) (toRsSide b.black) b.turn b.ep b.fullmove b.halfmove s.toList rookF bishopF knightF
        kingF whitePawnF blackPawnF fromIndex sqfen pfromIndex pfen fuel = some (r, boardFields (findUci b s).2) ∧
      uciResRel (Util.rustTrim s).toList (fun p m => p = encMove m) r (findUci b s).1 ∧
      vis (findUci b s).2 = vis b := by
  obtain ⟨r, c', -, e, hr, -, hcb⟩ := rs_find_uci_vis hs hp h (rfl : vis b = vis b) s fuel hf
  rw [hcb rfl] at e
  exact ⟨r, e, hr, findUci_vis h s⟩

/-- **`Bitboard::make_uci` (translated) = `San.makeUci`**, started on any board `c` holding the position of the well-formed `b` -/
theorem rs_make_uci_vis (hs : SquareTables fromIndex mask sqfen) (hp : PieceLetters pfromIndex pfen)
    {b c : Board} (h : wf b = true) (hc : vis c = vis b) (s : String) (fuel : Nat) (hf : 130 ≤ fuel) :
    ∃ r c', vis c' = vis (makeUci b s).2 ∧
      Rs.Bitboard.make_uci (toRsSide c.white) (toRsSide c.black) c.turn c.ep c.fullmove c.halfmove s.toList rookF bishopF knightF
        kingF whitePawnF blackPawnF fromIndex sqfen pfromIndex pfen fuel = some (r, boardFields c') ∧
      uciResRel (Util.rustTrim s).toList (fun _ _ => True) r (makeUci b s).1 ∧ (c = b → c' = (makeUci b s).2) := by
  obtain ⟨r, c', hc', e, hr, hgen, hcb⟩ := rs_find_uci_vis hs hp h hc s fuel hf
  have hv := findUci_vis h s
  unfold Rs.Bitboard.make_uci makeUci
  rw [e]
  simp only [Option.bind_eq_bind, Option.bind_some, boardFields]
  revert hr hgen hcb hv
  cases (findUci b s) with
  | mk res b' =>
  intro hr hgen hcb hv
  simp only at hr hgen hcb hv
  cases res with
  | error er =>
    cases r with
    | ok p => cases er <;> simp [uciResRel] at hr
    | error e' =>
      refine ⟨.error e', c', hc'.trans hv.symm, rfl, ?_, hcb⟩
      cases e' <;> cases er <;> simp_all [uciResRel]
  | ok m =>
    cases r with
    | error e' => cases e' <;> simp [uciResRel] at hr
    | ok p =>
      have hp' : p = encMove m := hr
      subst hp'
      have hwc' : wf c' = true := by rw [wf_congr hc']; exact h
      have hm' : m ∈ genPseudo c' := by rw [genPseudo_congr hc']; exact (hgen m rfl).1
      have e1 := rs_make_generated hwc' hm'
      simp only [boardFields] at e1
      simp only [encMove, e1, Option.bind_some, Option.pure_def]
      refine ⟨.ok (), Board.make c' m, make_congr (hc'.trans hv.symm) m, rfl, ?_, ?_⟩
      · simp only [uciResRel]
      · intro e; rw [hcb e]

/-- **`Bitboard::make_uci` (translated from the current source) = `San.makeUci`** on a well-formed board -/
theorem rs_make_uci_eq (hs : SquareTables fromIndex mask sqfen) (hp : PieceLetters pfromIndex pfen)
    {b : Board} (h : wf b = true) (s : String) (fuel : Nat) (hf : 130 ≤ fuel) :
    ∃ r, Rs.Bitboard.make_uci (toRsSide b.white) (toRsSide b.black) b.turn b.ep b.fullmove b.halfmove s.toList rookF bishopF knightF
        kingF whitePawnF blackPawnF fromIndex sqfen pfromIndex pfen fuel = some (r, boardFields (makeUci b s).2) ∧
      uciResRel (Util.rustTrim s).toList (fun _ _ => True) r (makeUci b s).1 := by
  obtain ⟨r, c', -, e, hr, hcb⟩ := rs_make_uci_vis hs hp h (rfl : vis b = vis b) s fuel hf
  rw [hcb rfl] at e
  exact ⟨r, e, hr⟩

/-- a rejected `make_uci` leaves the position as it was -/
theorem makeUci_error_vis {b : Board} (h : wf b = true) (s : String) (er : UciErr) (he : (makeUci b s).1 = .error er) :
    vis (makeUci b s).2 = vis b := by
  have hv := findUci_vis h s
  unfold makeUci at he ⊢
  revert he hv
  cases findUci b s with
  | mk res b' =>
  cases res with
  | error e' => intro _ hv; exact hv
  | ok m => intro he; simp only [reduceCtorEq] at he

end

#print axioms rs_find_uci_vis
#print axioms rs_find_uci_eq
#print axioms rs_make_uci_vis
#print axioms rs_make_uci_eq
#print axioms makeUci_error_vis

/-! non-vacuity: the hypotheses are satisfiable (`demo_wf`, the demo tables of `UciText.lean`); in the demo position the model finds
`e2e4` (with surrounding blanks), and rejects `e2e5` without changing the board -/
example : ∃ r, Rs.Bitboard.find_uci (toRsSide demoPos.white) (toRsSide demoPos.black) demoPos.turn demoPos.ep demoPos.fullmove
    demoPos.halfmove " e2e4 ".toList rookF bishopF knightF kingF whitePawnF blackPawnF demoSqFrom (fun q => (squareString q).toList)
    demoPcFrom pieceLetter 130 = some (r, boardFields (findUci demoPos " e2e4 ").2) :=
  (rs_find_uci_eq demo_square_tables demo_piece_letters demo_wf " e2e4 " 130 (Nat.le_refl _)).imp fun _ h => h.1
example : (match (findUci demoPos " e2e4 ").1 with | .ok m => m == demoMove | .error _ => false) = true := by decide +kernel
example : (match (findUci demoPos "e2e5").1 with | .error e => e == .notExist | .ok _ => false) = true := by decide +kernel

end Inkayaku.Translated
