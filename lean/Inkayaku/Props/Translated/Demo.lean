import Inkayaku.Model.Board
/-! Part of `Props/Translated`: the small concrete position and move the non-vacuity examples of `Make.lean`, `Unmake.lean`,
`GenMake.lean`, `GenUnmake.lean`, `GenXor.lean` share (1. e2-e4 with a white pawn e2, kings e1 / e8).  Model only: no
generated (`Gen/Rs`) definition is mentioned, so this file is never re-opened by a change of the Rust source. -/

namespace Inkayaku.Translated
open Inkayaku.Board Inkayaku.Gen

def demoPos : Board :=
  { white := { pawns := bitU 52, kings := bitU 60 }, black := { kings := bitU 4 }, turn := 0, ep := 0, fullmove := 1, halfmove := 3 }
def demoMove : Board.Move := ⟨encode { pieceMoved := 1, source := 52, target := 36, nextEp := 44, prevHalfmove := 3, halfmoveReset := true }, 0⟩
example : (Board.make demoPos demoMove).white.pawns = bitU 36 ∧ (Board.make demoPos demoMove).ep = 44 ∧
    (Board.make demoPos demoMove).turn = 1 := by decide

end Inkayaku.Translated
