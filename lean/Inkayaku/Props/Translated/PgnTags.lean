import Inkayaku.Props.Translated.PgnLoops
/-! Part of `Props/Translated` (round 5, property C17): the TAG-PAIR section of the PGN reader (generated module `Pgn`, monadic mode)
against the model: `read_tag_name`, `read_tag_value` (the closing quote is consumed BEFORE the error of `read_until` is propagated),
`read_tag_pair_line`, `read_tag_pairs` (`loop { match self.peek_byte()? { b'[' => .., b'\n' => return Ok(..), other => return Err(..) } }`;
`HashMap::insert` = `hmInsert` on an association list against the model's `tagInsert`). -/

set_option linter.unusedSimpArgs false
set_option linter.unusedSectionVars false

namespace Inkayaku.Translated
open Inkayaku.Pgn Inkayaku.C17

/-- one `?` step: `refine sim_bind h ..`, the two mixed cases are impossible, the `Err` case returns; leaves the `Ok`/`Ok` case -/
macro "sim_step " h:term : tactic =>
  `(tactic| (refine sim_bind $h (fun a b hab => ?_); cases a <;> cases b <;> first | exact sim_pure hab | exact absurd hab id | skip))

theorem char_byte_inv' : ∀ n : Fin 256, (Char.ofNat n.val).toNat = n.val := by decide +kernel
theorem char_byte_inj (x y : UInt8) (h : Char.ofNat x.toNat = Char.ofNat y.toNat) : x = y := by
  have hx := char_byte_inv' ⟨x.toNat, x.toNat_lt⟩
  have hy := char_byte_inv' ⟨y.toNat, y.toNat_lt⟩
  simp only at hx hy
  exact UInt8.toNat_inj.mp (by rw [← hx, ← hy, h])

theorem strOf_inj : ∀ {a b : List UInt8}, strOf a = strOf b → a = b
  | [], [], _ => rfl
  | [], _ :: _, h => by simp [strOf] at h
  | _ :: _, [], h => by simp [strOf] at h
  | x :: a, y :: b, h => by
    simp only [strOf, List.map_cons, List.cons.injEq] at h
    rw [char_byte_inj x y h.1, strOf_inj (a := a) (b := b) h.2]

/-- the `HashMap<String, String>` of the translation for the model's tag list -/
def tagsOf (l : List (List UInt8 × List UInt8)) : Rs.HMap (List Char) (List Char) := l.map (fun kv => (strOf kv.1, strOf kv.2))

theorem hmGet_none_of_notin (l : List (List UInt8 × List UInt8)) (k : List UInt8) (h : k ∉ l.map Prod.fst) :
    Rs.hmGet (tagsOf l) (strOf k) = none := by
  induction l with
  | nil => rfl
  | cons x l ih =>
    simp only [List.map_cons, List.mem_cons, not_or] at h
    simp only [tagsOf, List.map_cons, Rs.hmGet]
    rw [if_neg (fun e => h.1 (strOf_inj e).symm)]
    exact ih h.2

theorem map_replace_notin (l : List (List UInt8 × List UInt8)) (k : List UInt8) (v : List Char) (h : k ∉ l.map Prod.fst) :
    (tagsOf l).map (fun e => if e.1 = strOf k then (e.1, v) else e) = tagsOf l := by
  induction l with
  | nil => rfl
  | cons x l ih =>
    simp only [List.map_cons, List.mem_cons, not_or] at h
    simp only [tagsOf, List.map_cons]
    rw [if_neg (fun e => h.1 (strOf_inj e).symm)]
    congr 1
    exact ih h.2

theorem hmInsert_cons_ne {K V : Type} [DecidableEq K] (x : K × V) (m : Rs.HMap K V) (k : K) (v : V) (h : x.1 ≠ k) :
    (Rs.hmInsert (x :: m) k v).1 = x :: (Rs.hmInsert m k v).1 := by
  unfold Rs.hmInsert
  simp only [Rs.hmGet, if_neg h]
  cases Rs.hmGet m k with
  | none => rfl
  | some old => simp only [List.map_cons, if_neg h]

/-- **`HashMap::insert` on the association list = the model's `tagInsert`** (keys stay distinct) -/
theorem hmInsert_tagsOf (k v : List UInt8) : ∀ (l : List (List UInt8 × List UInt8)), (l.map Prod.fst).Nodup →
    (Rs.hmInsert (tagsOf l) (strOf k) (strOf v)).1 = tagsOf (tagInsert k v l) ∧ ((tagInsert k v l).map Prod.fst).Nodup := by
  intro l
  induction l with
  | nil => intro _; exact ⟨rfl, by simp [tagInsert]⟩
  | cons x l ih =>
    intro hn
    obtain ⟨k', v'⟩ := x
    simp only [List.map_cons, List.nodup_cons] at hn
    unfold tagInsert
    by_cases hk : k' = k
    · subst hk
      rw [if_pos rfl]
      refine ⟨?_, by simp only [List.map_cons, List.nodup_cons]; exact hn⟩
      unfold Rs.hmInsert
      simp only [tagsOf, List.map_cons, Rs.hmGet, if_pos]
      have := map_replace_notin l k' (strOf v) hn.1
      simp only [tagsOf] at this
      simp only [if_pos, this]
    · rw [if_neg hk]
      obtain ⟨e1, e2⟩ := ih hn.2
      refine ⟨?_, ?_⟩
      · show (Rs.hmInsert ((strOf k', strOf v') :: tagsOf l) (strOf k) (strOf v)).1 = _
        rw [hmInsert_cons_ne _ _ _ _ (fun e => hk (strOf_inj e)), e1]
        rfl
      · simp only [List.map_cons, List.nodup_cons]
        refine ⟨?_, e2⟩
        intro hm
        -- keys of `tagInsert k v l` are keys of `l` or `k`
        have : ∀ (l : List (List UInt8 × List UInt8)) (q : List UInt8), q ∈ (tagInsert k v l).map Prod.fst → q = k ∨ q ∈ l.map Prod.fst := by
          intro l
          induction l with
          | nil => intro q hq; simp [tagInsert] at hq; exact Or.inl hq
          | cons y l ih2 =>
            intro q hq
            unfold tagInsert at hq
            split at hq
            · simp only [List.map_cons, List.mem_cons] at hq ⊢
              exact Or.inr hq
            · simp only [List.map_cons, List.mem_cons] at hq ⊢
              rcases hq with hq | hq
              · exact Or.inr (Or.inl hq)
              · rcases ih2 q hq with h | h
                · exact Or.inl h
                · exact Or.inr (Or.inr h)
        rcases this l k' hm with h | h
        · exact hk h
        · exact hn.1 h

section
variable {E : Type} (rd : Reader → List Int → Except E Int × Reader × List Int) (hrd : ReadModel rd)
include hrd

omit hrd in
theorem attempt_bind {β δ : Type} (p : M β) (g : Except Err β → M δ) : M.bind (M.attempt p) g = Prog.bind p g := by
  unfold M.bind M.attempt
  induction p with
  | ret a => rfl
  | step inc k ih => simp only [Prog.bind]; congr 1; funext b; exact ih b

/-- `let value = p;` (no `?`): the model's `M.attempt` -/
theorem sim_attempt {α β γ δ : Type} {m : Rs.RsM (Rs.PgnRawParser Reader) α} {f : α → Rs.RsM (Rs.PgnRawParser Reader) γ}
    {p : M β} {g : Except Err β → M δ} {rel : α → Except Err β → Prop} {rel' : γ → Except Err δ → Prop}
    (h1 : Sim m p rel) (h2 : ∀ a b, rel a b → Sim (f a) (g b) rel') : Sim (m >>= f) (M.bind (M.attempt p) g) rel' := by
  rw [attempt_bind]
  exact sim_bind h1 h2

/-- **`read_tag_name` = `readTagName`** -/
theorem rs_read_tag_name_sim (fuel : Nat) :
    Sim (Rs.PgnRawParser.read_tag_name rd fuel) (readTagName fuel) (relRes (fun r out => r = strOf out)) := by
  unfold Rs.PgnRawParser.read_tag_name readTagName
  exact rs_read_until_sim rd hrd fuel SP

/-- **`read_tag_value` = `readTagValue`** -/
theorem rs_read_tag_value_sim (fuel : Nat) :
    Sim (Rs.PgnRawParser.read_tag_value rd fuel) (readTagValue fuel) (relRes (fun r out => r = strOf out)) := by
  unfold Rs.PgnRawParser.read_tag_value readTagValue
  rw [M.bind]
  sim_step (rs_consume_sim rd hrd 34)
  try dsimp only []
  refine sim_attempt rd hrd (rs_read_until_sim rd hrd fuel 34) (fun value out hv => ?_)
  try dsimp only []
  rw [M.bind]
  sim_step (rs_consume_sim rd hrd 34)
  try dsimp only []
  exact sim_pure hv

/-- **`read_tag_pair_line` = `readTagPairLine`** -/
theorem rs_read_tag_pair_line_sim (fuel : Nat) :
    Sim (Rs.PgnRawParser.read_tag_pair_line rd fuel) (readTagPairLine fuel)
      (relRes (fun r out => r = (strOf out.1, strOf out.2))) := by
  unfold Rs.PgnRawParser.read_tag_pair_line readTagPairLine
  rw [M.bind]
  sim_step (rs_consume_sim rd hrd 91)
  try dsimp only []
  rw [M.bind]
  sim_step (rs_read_tag_name_sim rd hrd fuel)
  rename_i name name' hn
  try dsimp only []
  refine sim_pure_bind ?_
  try dsimp only []
  rw [M.bind]
  sim_step (rs_consume_sim rd hrd SP)
  try dsimp only []
  rw [M.bind]
  sim_step (rs_read_tag_value_sim rd hrd fuel)
  rename_i value value' hv
  try dsimp only []
  refine sim_pure_bind ?_
  try dsimp only []
  rw [M.bind]
  sim_step (rs_consume_sim rd hrd 93)
  try dsimp only []
  rw [M.bind]
  sim_step (rs_consume_sim rd hrd NL)
  try dsimp only []
  have hn' : name = strOf name' := hn
  have hv' : value = strOf value' := hv
  subst hn' hv'
  exact sim_pure rfl

theorem rs_read_tag_pairs_loop (fuel : Nat) : ∀ k (l : List (List UInt8 × List UInt8)), (l.map Prod.fst).Nodup →
    Sim (Rs.PgnRawParser.read_tag_pairs.loop_1 rd fuel k (tagsOf l)) (readTagPairsLoop fuel k l)
      (relCtl (fun _ _ => False) (fun r out => r = tagsOf out)) := by
  intro k
  induction k with
  | zero => intro l _; rw [Rs.PgnRawParser.read_tag_pairs.loop_1]; exact sim_panic
  | succ k ih =>
    intro l hn
    rw [Rs.PgnRawParser.read_tag_pairs.loop_1]
    unfold readTagPairsLoop
    rw [M.bind]
    sim_step (rs_peek_byte_sim rd hrd)
    rename_i v b hab
    have hv : v = byteI b := hab
    subst hv
    try dsimp only []
    refine sim_pure_bind ?_
    try dsimp only []
    rw [show (91 : Int) = byteI 91 from rfl, show (10 : Int) = byteI NL from rfl, byteI_beq, byteI_beq]
    by_cases h91 : b = 91
    · rw [if_pos (by simp [h91]), if_pos h91, M.bind]
      sim_step (rs_read_tag_pair_line_sim rd hrd fuel)
      rename_i kv kv' hkv
      have hkv' : kv = (strOf kv'.1, strOf kv'.2) := hkv
      subst hkv'
      try dsimp only []
      refine sim_pure_bind ?_
      try dsimp only []
      obtain ⟨e1, e2⟩ := hmInsert_tagsOf kv'.1 kv'.2 l hn
      rw [e1]
      exact ih _ e2
    · rw [if_neg (by rw [decide_eq_false h91]; decide), if_neg h91]
      by_cases hnl : b = NL
      · rw [if_pos (by simp [hnl]), if_pos hnl]
        exact sim_pure rfl
      · rw [if_neg (by rw [decide_eq_false hnl]; decide), if_neg hnl]
        try dsimp only []
        exact sim_get_bind (fun g => sim_pure rfl)

/-- **`read_tag_pairs` = `readTagPairs`** (the map is the association list of the code-point strings, in first-insertion order) -/
theorem rs_read_tag_pairs_sim (fuel : Nat) :
    Sim (Rs.PgnRawParser.read_tag_pairs rd fuel) (readTagPairs fuel) (relRes (fun r out => r = tagsOf out)) := by
  unfold Rs.PgnRawParser.read_tag_pairs readTagPairs
  try dsimp only []
  have hl := rs_read_tag_pairs_loop rd hrd fuel fuel [] (by simp)
  intro s a t hg hm
  rw [run_bind] at hm
  cases hc : Rs.PgnRawParser.read_tag_pairs.loop_1 rd fuel fuel Rs.hmNew (toRs s) with
  | none => rw [hc] at hm; cases hm
  | some x =>
    obtain ⟨c, s1⟩ := x
    rw [hc] at hm
    obtain ⟨e1, e2⟩ := hl s c s1 hg hc
    subst e1
    cases c with
    | next st =>
      dsimp only [] at hm
      rw [run_panic] at hm; cases hm
    | ret r =>
      dsimp only [] at hm
      rw [run_pure] at hm; cases hm
      refine ⟨rfl, ?_⟩
      cases a with
      | ok u =>
        cases hr : (run (readTagPairsLoop fuel fuel []) s).1 with
        | ok b => rw [hr] at e2; exact e2
        | error e' => rw [hr] at e2; exact absurd e2 id
      | error e =>
        cases hr : (run (readTagPairsLoop fuel fuel []) s).1 with
        | ok b => rw [hr] at e2; exact absurd e2 id
        | error e' => rw [hr] at e2; exact e2

#print axioms rs_read_tag_value_sim
#print axioms rs_read_tag_pair_line_sim
#print axioms rs_read_tag_pairs_sim

end
end Inkayaku.Translated
