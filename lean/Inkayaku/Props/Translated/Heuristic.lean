import Inkayaku.Model.Board
import Inkayaku.Gen.Rs.Heuristic
import Inkayaku.Gen.Rs.Uci
import Inkayaku.Gen.Rs.Board
import Inkayaku.Model.Eval
import Inkayaku.Props.Translated.Basic
/-! Part of `Props/Translated`: see `Props/Translated/Basic.lean` for the overview.  One file per translated Rust source, so that a
change of one Rust function re-opens exactly the obligations (and the properties) that depend on it. -/

namespace Inkayaku.Translated
open Inkayaku.Rs Inkayaku.Board

/-! ### c. Heuristic -/
theorem rs_win_score : Heuristic.win_score = some Gen.winScore := by decide
theorem rs_max_full_moves : Heuristic.MAX_FULL_MOVES = some Gen.maxFullMoves := by decide
theorem rs_loss_score : Heuristic.loss_score = some Eval.lossScore := by decide
theorem rs_draw_score : Heuristic.draw_score = some Gen.drawScore := by decide

theorem rs_is_checkmate_eq (v : Int) : Heuristic.is_checkmate v = some (Eval.isCheckmateValue v) := by
  unfold Heuristic.is_checkmate Eval.isCheckmateValue
  simp only [rs_win_score, rs_max_full_moves, rs_loss_score, Option.bind_eq_bind, Option.bind_some, Option.pure_def,
    Gen.winScore, Gen.maxFullMoves, Eval.lossScore]
  rw [chk_i32 (by omega) (by omega), chk_i32 (by omega) (by omega)]
  simp only [Option.bind_some]
  by_cases h : (15728640 : Int) < v <;> simp [h] <;> rfl


#print axioms rs_is_checkmate_eq

example : Heuristic.is_checkmate 16777000 = some true := by decide
example : Heuristic.is_checkmate 300 = some false := by decide

theorem rs_evaluate_eq (b : Board) (legal : Bool) (zph : Int) (ht : b.turn ≤ 1) (hf : b.fullmove < 2147483648) :
    Heuristic.evaluate (Eval.evaluateOngoing b) (b.turn : Int) (b.fullmove : Int) (b.halfmove : Int)
      (isCurrentInCheck b) zph legal = some (Eval.evaluate b legal) := by
  unfold Heuristic.evaluate Eval.evaluate
  have c1 : cast .i32 (b.fullmove : Int) = b.fullmove := cast_i32 (by omega) (by omega)
  simp only [rs_win_score, rs_loss_score, rs_draw_score, Option.bind_eq_bind, Option.bind_some, Option.pure_def,
    Heuristic.MAX_HALF_MOVES, Gen.maxHalfMoves, WHITE, BLACK, c1, Gen.winScore, Eval.lossScore]
  cases legal
  · simp only [Bool.false_eq_true, if_false]
    cases hchk : isCurrentInCheck b
    · simp
    · have h01 : b.turn = 0 ∨ b.turn = 1 := by omega
      rcases h01 with h0 | h1
      · simp [h0]
        exact chk_i32 (by omega) (by omega)
      · simp [h1]
        exact chk_i32 (by omega) (by omega)
  · simp only [if_true]
    by_cases hh : b.halfmove ≥ 100
    · have hh' : (b.halfmove : Int) ≥ 100 := by omega
      simp [hh, hh']
    · have hh' : ¬ (b.halfmove : Int) ≥ 100 := by omega
      simp [hh, hh']


#print axioms rs_evaluate_eq

/-- non-vacuity: white is mated at full move 7 / stalemate / fifty-move draw -/
example : Heuristic.evaluate 55 0 7 3 true 0 false = some (-16777209) := by decide
example : Heuristic.evaluate 55 1 7 3 false 0 false = some 0 := by decide
example : Heuristic.evaluate 55 1 7 100 false 0 true = some 0 := by decide
example : Heuristic.evaluate 55 1 7 99 false 0 true = some 55 := by decide

/-- the Rust `Score` value of a model score -/
def toRsScore : Eval.Score → Rs.Score
  | .cp v => .Centipawn v
  | .mate n => .Mate n

theorem rs_score_from_value_eq (v : Int) (b : Board) (hv : -2147483648 < v) (hv2 : v ≤ 2147483647)
    (hf : b.fullmove < 2147483648) (hsum : (v.natAbs : Int) + b.fullmove < 16777216 + 2147483648) :
    Heuristic.score_from_value v (b.turn : Int) (b.fullmove : Int) = some (toRsScore (Eval.scoreFromValue v b)) := by
  unfold Heuristic.score_from_value Eval.scoreFromValue
  have c1 : cast .i32 (b.fullmove : Int) = b.fullmove := cast_i32 (by omega) (by omega)
  have ha : Rs.abs .i32 v = some (v.natAbs : Int) := chk_i32 (by omega) (by omega)
  have hd : Rs.div .i32 16777216 2 = some 8388608 := by decide
  simp only [rs_win_score, Option.bind_eq_bind, Option.bind_some, Option.pure_def, Gen.winScore, ha, hd, c1]
  by_cases hgt : (v.natAbs : Int) > 8388608
  · have hgt' : (v.natAbs : Int) > 16777216 / 2 := by omega
    simp only [hgt, hgt', if_true]
    have hoff : ofBool (decide (v > 0) && decide ((b.turn : Int) = WHITE)) = (if (v > 0 && b.turn == 0) = true then 1 else 0) := by
      by_cases h1 : v > 0 <;> by_cases h2 : b.turn = 0 <;> simp [ofBool, WHITE, h1, h2]
    rw [hoff]
    generalize hoffv : (if (v > 0 && b.turn == 0) = true then (1 : Int) else 0) = off
    have hoffr : 0 ≤ off ∧ off ≤ 1 := by subst hoffv; split <;> omega
    have hsg : signum v = v.sign := rfl
    have hsgn : v.sign = 1 ∨ v.sign = -1 := by
      rcases Int.lt_trichotomy v 0 with h | h | h
      · right; exact Int.sign_eq_neg_one_of_neg h
      · subst h; simp at hgt
      · left; exact Int.sign_eq_one_of_pos h
    rw [chk_i32 (by omega) (by omega)]
    simp only [Option.bind_some]
    rw [chk_i32 (by omega) (by omega)]
    simp only [Option.bind_some]
    rw [chk_i32 (by omega) (by omega)]
    simp only [Option.bind_some, hsg]
    rw [chk_i32 (by rcases hsgn with h | h <;> rw [h] <;> omega) (by rcases hsgn with h | h <;> rw [h] <;> omega)]
    simp [toRsScore]
  · have hgt' : ¬ (v.natAbs : Int) > 16777216 / 2 := by omega
    simp [hgt, toRsScore]



#print axioms rs_score_from_value_eq

/-- non-vacuity: a mate score and a centipawn score -/
example : Heuristic.score_from_value (16777216 - 9) 0 7 = some (Score.Mate 3) := by decide
example : Heuristic.score_from_value (-120) 1 7 = some (Score.Centipawn (-120)) := by decide
/-- outside the precondition the Rust really panics: `i32::MIN.abs()` -/
example : Heuristic.score_from_value (-2147483648) 0 1 = none := by decide


/-! axiom audit of the remaining `rs_*` theorems of this file -/
#print axioms rs_win_score
#print axioms rs_max_full_moves
#print axioms rs_loss_score
#print axioms rs_draw_score

end Inkayaku.Translated
