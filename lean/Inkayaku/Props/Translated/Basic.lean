import Inkayaku.Gen.Rs.Prelude
/-!
# Translated Rust functions = hand-written model functions (split by source file: `Props/Translated/*.lean`)

`Inkayaku/Gen/Rs/*.lean` is regenerated on every run from the CURRENT Rust sources by `/verif/translator` (`rs2lean`,
a `syn`-based translator of a small subset of Rust; semantics: header of `Gen/Rs/Prelude.lean`).  This file proves,
for each translated function, that it computes the same value as the hand-written model function the property
theorems are about (and that it does not panic), under preconditions that are exactly the ranges the Rust types
impose plus, where the Rust really can overflow, the exact no-overflow condition.

A semantic change of one of these Rust functions changes the generated definition and breaks the proof here.

| Rust                                                   | generated `Inkayaku.Rs.…`                | model                         | theorem |
|--------------------------------------------------------|------------------------------------------|-------------------------------|---------|
| `ZobristHistory::count_repetitions`                    | `ZobristHistory.count_repetitions`       | `History.countRepetitions`    | `rs_count_repetitions_eq` |
| `Bitboard::ply_clock`                                  | `Bitboard.ply_clock`                     | `Board.plyClock`              | `rs_ply_clock_eq`, `rs_ply_clock_panics` |
| `Heuristic::{win,loss,draw}_score`, `MAX_FULL_MOVES`   | `Heuristic.win_score` …                  | `Gen.winScore` …              | `rs_win_score` … |
| `Heuristic::is_checkmate`                              | `Heuristic.is_checkmate`                 | `Eval.isCheckmateValue`       | `rs_is_checkmate_eq` |
| `Heuristic::evaluate` (`evaluate_ongoing` opaque)      | `Heuristic.evaluate`                     | `Eval.evaluate`               | `rs_evaluate_eq` |
| `Heuristic::score_from_value`                          | `Heuristic.score_from_value`             | `Eval.scoreFromValue`         | `rs_score_from_value_eq` |
| `Square::from_chars`, `from_indices`, `to_square_index_from_indices` (`from_index` opaque) | `Square.from_chars` … | `Uci.squareFromChars` | `rs_from_chars_eq` |
| `Fen::validate_rank`                                  | `Fen.validate_rank`                      | `FenSyntax.validateRank`      | `rs_validate_rank_eq` |
| `Search::calculate_max_thinking_time`, `get_self_time_remaining`, `get_self_increment` | `Search.calculate_max_thinking_time` | `Search.maxThinkingNs` | `rs_calculate_max_thinking_time_eq` (uses the `mul_f64` mapping assumption) |
| `KillerTable::get` / `put`                             | `KillerTable.get` / `.put`               | `Search.killerGet/killerPut`  | `rs_killer_get_eq`, `rs_killer_put_eq` |
| `MvvLvaMoveOrder::{eval,move_bonus}`, key closure of `sort` | `MvvLvaMoveOrder.sort_key` …        | `Search.moveKey`              | `rs_sort_key_eq` |
-/

namespace Inkayaku.Rs

/-! ### Facts about the prelude -/

theorem chk_eq_some {t : Ty} {x : Int} (h1 : t.lo ≤ x) (h2 : x ≤ t.hi) : chk t x = some x := by
  simp [chk, h1, h2]

theorem chk_eq_none {t : Ty} {x : Int} (h : x < t.lo ∨ t.hi < x) : chk t x = none := by
  have : ¬ (t.lo ≤ x ∧ x ≤ t.hi) := by omega
  simp [chk, this]

theorem cast_eq_self {t : Ty} {x : Int} (h1 : t.lo ≤ x) (h2 : x ≤ t.hi) : cast t x = x := by
  unfold cast Ty.modulus
  rw [Int.emod_eq_of_lt (by omega) (by omega)]; omega

theorem chk_i32 {x : Int} (h1 : -2147483648 ≤ x) (h2 : x ≤ 2147483647) : chk .i32 x = some x := chk_eq_some h1 h2
theorem chk_u32 {x : Int} (h1 : 0 ≤ x) (h2 : x ≤ 4294967295) : chk .u32 x = some x := chk_eq_some h1 h2
theorem chk_usize {x : Int} (h1 : 0 ≤ x) (h2 : x ≤ 18446744073709551615) : chk .usize x = some x := chk_eq_some h1 h2
theorem cast_i32 {x : Int} (h1 : -2147483648 ≤ x) (h2 : x ≤ 2147483647) : cast .i32 x = x := cast_eq_self h1 h2
theorem cast_usize {x : Int} (h1 : 0 ≤ x) (h2 : x ≤ 18446744073709551615) : cast .usize x = x := cast_eq_self h1 h2
theorem cast_u16_eq (x : Int) : cast .u16 x = x % 65536 := by simp [cast, Ty.lo, Ty.modulus, Ty.hi]

/-- value of a function that ends with a loop: the early-return value or a component of the final state -/
def Ctl.val {ρ σ : Type} (f : σ → ρ) : Ctl ρ σ → ρ
  | .ret r => r
  | .next s => f s

end Inkayaku.Rs
