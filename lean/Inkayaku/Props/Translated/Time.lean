import Inkayaku.Model.Board
import Inkayaku.Gen.Rs.Search
import Inkayaku.Model.Search
import Inkayaku.Props.Translated.Basic
/-! Part of `Props/Translated`: see `Props/Translated/Basic.lean` for the overview.  One file per translated Rust source, so that a
change of one Rust function re-opens exactly the obligations (and the properties) that depend on it. -/

namespace Inkayaku.Translated
open Inkayaku.Rs Inkayaku.Board

/-! ### d. `Search::calculate_max_thinking_time` -/

theorem durMulF64_eq (ns n d : Int) (h1 : 0 ≤ ns * n / d) (h2 : ns * n / d < 18446744073709551616000000000) :
    durMulF64 ns (n, d) = some (ns * n / d) := by
  unfold durMulF64
  exact if_pos ⟨h1, h2⟩

/-- a UCI time in milliseconds as a `Duration` in nanoseconds -/
def msToNs (t : Option Nat) : Option Int := t.map fun ms => ((ms * 1000000 : Nat) : Int)

/-- **`Search::calculate_max_thinking_time` (with `get_self_time_remaining` / `get_self_increment`, translated) equals
`Search.maxThinkingNs`**, for the millisecond-valued `Duration`s the UCI `go` command produces.  Precondition: the
millisecond values of the increments fit `u64` (they are parsed as `u64`).  Relies on the mapping-table assumption documented at
`Rs.durMulF64` (exact product for the factors 1, 3/4, 1/2, 1/4). -/

theorem rs_calculate_max_thinking_time_eq (s : Search.St)
    (hwi : ∀ t, s.go.winc = some t → t < 18446744073709551616) (hbi : ∀ t, s.go.binc = some t → t < 18446744073709551616) :
    Rs.Search.calculate_max_thinking_time (s.board.turn : Int) (msToNs s.go.wtime) (msToNs s.go.btime)
        (msToNs s.go.winc) (msToNs s.go.binc) =
      some ((Search.maxThinkingNs s).map fun ns => (ns : Int)) := by
  unfold Rs.Search.calculate_max_thinking_time Rs.Search.get_self_increment Rs.Search.get_self_time_remaining
    Search.maxThinkingNs
  have hturn : ((s.board.turn : Int) = WHITE) ↔ (s.board.turn == 0) = true := by simp [WHITE]
  have hsel : ∀ (a b : Option Nat), (if (s.board.turn : Int) = WHITE then (some (msToNs a) : Option (Option Int)) else some (msToNs b)) =
      some (msToNs (if (s.board.turn == 0) = true then a else b)) := by
    intro a b
    by_cases ht : (s.board.turn == 0) = true
    · simp [ht, hturn.mpr ht]
    · have hn : ¬ (s.board.turn : Int) = WHITE := fun h => ht (hturn.mp h)
      simp [ht, hn]
  have hincb : ∀ t, (if (s.board.turn == 0) = true then s.go.winc else s.go.binc) = some t → t < 18446744073709551616 := by
    intro t; split <;> intro h
    · exact hwi t h
    · exact hbi t h
  simp only [Option.bind_eq_bind, Option.pure_def]
  simp only [hsel, Option.bind_some]
  generalize (if (s.board.turn == 0) = true then s.go.winc else s.go.binc) = inc at hincb
  generalize (if (s.board.turn == 0) = true then s.go.wtime else s.go.btime) = rem
  cases rem with
  | none => simp [msToNs]
  | some rem =>
    cases inc with
    | none =>
      simp only [msToNs, Option.map_some, durDiv]
      simp
    | some inc =>
      have hi := hincb inc rfl
      have hsecs : durAsSecs ((rem * 1000000 : Nat) : Int) = ((rem / 1000 : Nat) : Int) := by
        simp only [durAsSecs]; omega
      simp only [msToNs, Option.map_some, hsecs]
      by_cases h20 : rem / 1000 ≥ 20
      · have h20' : (20 : Int) ≤ ((rem / 1000 : Nat) : Int) := by omega
        rw [if_pos h20, if_pos h20', Option.bind_some]
        have e : ((inc * 1000000 : Nat) : Int) * 1 / 1 = ((inc * 1000000 : Nat) : Int) := by omega
        rw [durMulF64_eq _ _ _ (by omega) (by omega), e]; rfl
      · have h20' : ¬ (20 : Int) ≤ ((rem / 1000 : Nat) : Int) := by omega
        rw [if_neg h20, if_neg h20']
        by_cases h10 : rem / 1000 ≥ 10
        · have h10' : (10 : Int) ≤ ((rem / 1000 : Nat) : Int) := by omega
          rw [if_pos h10, if_pos h10', Option.bind_some]
          have e : ((inc * 1000000 : Nat) : Int) * 3 / 4 = ((inc * 1000000 * 3 / 4 : Nat) : Int) := by omega
          rw [durMulF64_eq _ _ _ (by omega) (by omega), e]; rfl
        · have h10' : ¬ (10 : Int) ≤ ((rem / 1000 : Nat) : Int) := by omega
          rw [if_neg h10, if_neg h10']
          by_cases h2 : rem / 1000 ≥ 2
          · have h2' : (2 : Int) ≤ ((rem / 1000 : Nat) : Int) := by omega
            rw [if_pos h2, if_pos h2', Option.bind_some]
            have e : ((inc * 1000000 : Nat) : Int) * 1 / 2 = ((inc * 1000000 / 2 : Nat) : Int) := by omega
            rw [durMulF64_eq _ _ _ (by omega) (by omega), e]; rfl
          · have h2' : ¬ (2 : Int) ≤ ((rem / 1000 : Nat) : Int) := by omega
            rw [if_neg h2, if_neg h2', Option.bind_some]
            have e : ((inc * 1000000 : Nat) : Int) * 1 / 4 = ((inc * 1000000 / 4 : Nat) : Int) := by omega
            rw [durMulF64_eq _ _ _ (by omega) (by omega), e]; rfl

#print axioms rs_calculate_max_thinking_time_eq

/-- non-vacuity: 15 s left with 2 s increment (factor 0.75), no increment (1/60 of the time), no clock -/
example : Rs.Search.calculate_max_thinking_time 0 (some 15000000000) none (some 2000000000) none = some (some 1500000000) := by decide
example : Rs.Search.calculate_max_thinking_time 1 none (some 60000000000) none none = some (some 1000000000) := by decide
example : Rs.Search.calculate_max_thinking_time 1 (some 5) none none none = some none := by decide


end Inkayaku.Translated
