import Inkayaku.Model.Board
import Inkayaku.Gen.Rs.ZobristHistory
import Inkayaku.Model.History
import Inkayaku.Props.Translated.Basic
/-! Part of `Props/Translated`: see `Props/Translated/Basic.lean` for the overview.  One file per translated Rust source, so that a
change of one Rust function re-opens exactly the obligations (and the properties) that depend on it. -/

namespace Inkayaku.Translated
open Inkayaku.Rs Inkayaku.Board

/-! ### a. `ZobristHistory::count_repetitions` -/

theorem count_repetitions_loop (h : Nat → Nat) (z : Nat) (minIdx : Int) (hmin : 0 ≤ minIdx) :
    ∀ (k : Nat) (cur : Int) (reps : Nat), (cur < minIdx ∨ cur + 2 ≤ 2 * (k : Int)) → -2 ≤ cur → cur ≤ 65535 → reps ≤ 2 →
      ∃ r, ZobristHistory.count_repetitions.while_1 (fun i => (h i : Int)) (z : Int) minIdx (k + 1) cur (reps : Int) = some r ∧
        Ctl.val (fun s => s.2) r = ((History.loop h z minIdx k cur reps : Nat) : Int) := by
  intro k
  induction k with
  | zero =>
    intro cur reps hen _ _ _
    have hlt : ¬ cur ≥ minIdx := by omega
    refine ⟨.next (cur, reps), ?_, ?_⟩
    · unfold ZobristHistory.count_repetitions.while_1
      simp only [hlt, if_false, Option.pure_def]
    · simp [Ctl.val, History.loop]
  | succ k ih =>
    intro cur reps hen hlo hhi hreps
    unfold ZobristHistory.count_repetitions.while_1 History.loop
    by_cases hc : cur ≥ minIdx
    · have hcu : cast .usize cur = cur := cast_usize (by omega) (by omega)
      have hchk1 : chk .usize ((reps : Int) + 1) = some ((reps : Int) + 1) := chk_usize (by omega) (by omega)
      have hchk2 : chk .i32 (cur - 2) = some (cur - 2) := chk_i32 (by omega) (by omega)
      simp only [hc, if_true, hcu, hchk1, hchk2, Option.bind_eq_bind, Option.bind_some, Option.pure_def, Int.natCast_inj]
      by_cases hz : h cur.toNat = z
      · simp only [hz, if_true]
        by_cases h3 : reps + 1 ≥ 3
        · have h3' : (reps : Int) + 1 ≥ 3 := by omega
          simp only [h3, h3', if_true]
          exact ⟨_, rfl, rfl⟩
        · have h3' : ¬ (reps : Int) + 1 ≥ 3 := by omega
          simp only [h3, h3', if_false]
          have := ih (cur - 2) (reps + 1) (by omega) (by omega) (by omega) (by omega)
          simpa using this
      · simp only [hz, if_false]
        exact ih (cur - 2) reps (by omega) (by omega) (by omega) hreps
    · refine ⟨.next (cur, reps), ?_, ?_⟩
      · simp only [hc, if_false, Option.pure_def]
      · simp [Ctl.val, hc]

/-- **`ZobristHistory::count_repetitions` (translated from the Rust source) equals the model.**
Preconditions = the Rust parameter types (`u16`).  Fuel `start + 1` is enough; the result is `some`, i.e. no
arithmetic panic (index-out-of-bounds is not modelled by the function-style history, see `countRepetitionsChecked`). -/
theorem rs_count_repetitions_eq (h : Nat → Nat) (start hm : Nat) (hs : start < 65536) (hh : hm < 65536) :
    ZobristHistory.count_repetitions (fun i => (h i : Int)) (start : Int) (hm : Int) (start + 1) =
      some ((History.countRepetitions h start hm : Nat) : Int) := by
  unfold ZobristHistory.count_repetitions History.countRepetitions
  by_cases h4 : start < 4
  · have h4' : (start : Int) < 4 := by omega
    simp [h4, h4']
  · have h4' : ¬ (start : Int) < 4 := by omega
    have c1 : cast .i32 (start : Int) = start := cast_i32 (by omega) (by omega)
    have c2 : cast .i32 (hm : Int) = hm := cast_i32 (by omega) (by omega)
    have c3 : cast .usize (start : Int) = start := cast_usize (by omega) (by omega)
    have k1 : chk .i32 ((start : Int) - 4) = some ((start : Int) - 4) := chk_i32 (by omega) (by omega)
    have k2 : chk .i32 ((start : Int) - (hm : Int)) = some ((start : Int) - (hm : Int)) := chk_i32 (by omega) (by omega)
    obtain ⟨r, hr, hv⟩ := count_repetitions_loop h (h start) (max 0 ((start : Int) - (hm : Int))) (by omega) start
      ((start : Int) - 4) 1 (by omega) (by omega) (by omega) (by omega)
    simp only [h4, h4', if_false, c1, c2, c3, k1, k2, Option.bind_eq_bind, Option.bind_some, Option.pure_def, Int.toNat_natCast]
    have hr' : ZobristHistory.count_repetitions.while_1 (fun i => (h i : Int)) (h start : Int) (max 0 ((start : Int) - (hm : Int))) (start + 1) ((start : Int) - 4) 1 = some r := hr
    rw [hr']
    cases r with
    | ret r => simpa [Ctl.val] using hv
    | next s => obtain ⟨a, b⟩ := s; simpa [Ctl.val] using hv



#print axioms rs_count_repetitions_eq

/-- non-vacuity / sanity: the Rust unit test's history (`count_repetitions(10, 8) = 3`, `(10, 7) = 2`), run through the
TRANSLATED definition -/
example : ZobristHistory.count_repetitions (fun i => ([123, 4312, 1, 2, 3, 4, 1, 2, 3, 4, 1].getD i 0 : Nat)) 10 8 11 = some 3 := by decide
example : ZobristHistory.count_repetitions (fun i => ([123, 4312, 1, 2, 3, 4, 1, 2, 3, 4, 1].getD i 0 : Nat)) 10 7 11 = some 2 := by decide
/-- too little fuel is `none`, never a wrong value -/
example : ZobristHistory.count_repetitions (fun i => ([123, 4312, 1, 2, 3, 4, 1, 2, 3, 4, 1].getD i 0 : Nat)) 10 7 2 = none := by decide


end Inkayaku.Translated
