import Inkayaku.Props.Translated.PgnIter
/-! Part of `Props/Translated` (round 5, property C17): NO PANIC / FUEL ADEQUACY of the translated PGN reader.  `Sim` (the other `Pgn*.lean`
files) is partial correctness; here: on a `Good` state whose remaining stream is shorter than `fuel` no translated method returns `none`
(no overflow, no index out of bounds, no `panic!`, no loop counter exhausted).  The measure is the length of the remaining stream
(`C17.stream`), transferred to the plain byte list by `C17.reader_bytes`; the decrease lemmas are those of `C17.fuel_adequate`. -/

set_option linter.unusedSimpArgs false
set_option linter.unusedSectionVars false

namespace Inkayaku.Translated
open Inkayaku.Pgn Inkayaku.C17

/-- `m` does not panic / run out of fuel on (the image of) `s` -/
def NP {α : Type} (m : Rs.RsM (Rs.PgnRawParser Reader) α) (s : Buffered) : Prop := m (toRs s) ≠ none

/-- `m` does not panic on any `Good` state with fewer than `fuel` bytes to come -/
def TotalF {α : Type} (fuel : Nat) (m : Rs.RsM (Rs.PgnRawParser Reader) α) : Prop :=
  ∀ s, Good s → (stream s).length < fuel → NP m s

theorem stream_run {α : Type} (p : Prog α) (s : Buffered) (hg : Good s) :
    (run p s).1 = (run p (stream s)).1 ∧ stream (run p s).2 = (run p (stream s)).2 := by
  obtain ⟨h1, _, h3⟩ := reader_bytes p s (stream s) ⟨hg.inv, rfl⟩
  exact ⟨h1, h3⟩

theorem stream_run_le {α : Type} (p : Prog α) (s : Buffered) (hg : Good s) : (stream (run p s).2).length ≤ (stream s).length := by
  rw [(stream_run p s hg).2]; exact run_length_le p _

theorem np_pure {α : Type} (a : α) (s : Buffered) : NP (pure a) s := by
  unfold NP; rw [run_pure]; exact Option.some_ne_none _

theorem np_bind {α β γ : Type} {m : Rs.RsM (Rs.PgnRawParser Reader) α} {f : α → Rs.RsM (Rs.PgnRawParser Reader) γ}
    {p : Prog β} {rel : α → β → Prop} {s : Buffered} (hg : Good s) (h0 : NP m s) (h1 : Sim m p rel)
    (h2 : ∀ a, rel a (run p s).1 → NP (f a) (run p s).2) : NP (m >>= f) s := by
  unfold NP at *
  rw [run_bind]
  cases hm : m (toRs s) with
  | none => exact absurd hm h0
  | some x =>
    obtain ⟨a, s1⟩ := x
    obtain ⟨e1, e2⟩ := h1 s a s1 hg hm
    subst e1
    exact h2 a e2

theorem total_pure {α : Type} (fuel : Nat) (a : α) : TotalF fuel (pure a : Rs.RsM (Rs.PgnRawParser Reader) α) :=
  fun s _ _ => np_pure a s

theorem total_bindF {α β γ : Type} {fuel : Nat} {m : Rs.RsM (Rs.PgnRawParser Reader) α} {f : α → Rs.RsM (Rs.PgnRawParser Reader) γ}
    {p : Prog β} {rel : α → β → Prop} (h0 : TotalF fuel m) (h1 : Sim m p rel) (h2 : ∀ a, TotalF fuel (f a)) : TotalF fuel (m >>= f) := by
  intro s hg hl
  refine np_bind hg (h0 s hg hl) h1 (fun a _ => h2 a _ (good_run p s hg) ?_)
  exact Nat.lt_of_le_of_lt (stream_run_le p s hg) hl

theorem total_pure_bind {α γ : Type} {fuel : Nat} {a : α} {f : α → Rs.RsM (Rs.PgnRawParser Reader) γ} (h : TotalF fuel (f a)) :
    TotalF fuel (pure a >>= f) := by
  rw [pure_bind_run]; exact h

theorem total_get_bind {γ : Type} {fuel : Nat} {f : Rs.PgnRawParser Reader → Rs.RsM (Rs.PgnRawParser Reader) γ} (h : ∀ g, TotalF fuel (f g)) :
    TotalF fuel (Rs.RsM.get >>= f) := by
  intro s hg hl
  unfold NP
  rw [bind_some (run_get _)]
  exact h _ s hg hl

theorem total_of_total {α : Type} {fuel : Nat} {m : Rs.RsM (Rs.PgnRawParser Reader) α} (h : Total m) : TotalF fuel m :=
  fun s hg _ => h s hg

/-- one `?` step of a totality proof: leaves the `Ok` continuation -/
macro "tot_step " h0:term ", " h1:term : tactic =>
  `(tactic| (refine total_bindF $h0 $h1 (fun a => ?_); cases a <;> first | exact total_pure _ _ | skip))

section
variable {E : Type} (rd : Reader → List Int → Except E Int × Reader × List Int) (hrd : ReadModel rd)
include hrd

theorem rs_consume_total (fuel : Nat) (c : Int) : TotalF fuel (Rs.PgnRawParser.consume rd c) := by
  unfold Rs.PgnRawParser.consume
  tot_step (total_of_total (rs_pop_byte_total rd hrd)), (rs_pop_byte_sim rd hrd)
  try dsimp only []
  refine total_pure_bind ?_
  split
  · exact total_pure _ _
  · exact total_get_bind (fun g => total_pure _ _)

/-- a successful `peek_byte` leaves the stream unchanged and non-empty; a successful `skip_byte` / `pop_byte` removes its head -/
theorem peek_ok_stream (s : Buffered) (hg : Good s) (b : UInt8) (h : (run peekByte s).1 = .ok b) :
    stream (run peekByte s).2 = stream s ∧ 1 ≤ (stream s).length := by
  obtain ⟨h1, h2⟩ := stream_run peekByte s hg
  rw [h1] at h
  cases hl : stream s with
  | nil => rw [hl] at h; simp at h
  | cons x t => rw [h2, hl]; simp

omit hrd in
theorem skip_ok_stream (s : Buffered) (hg : Good s) (u : Unit) (h : (run skipByte s).1 = .ok u) :
    (stream (run skipByte s).2).length + 1 = (stream s).length := by
  obtain ⟨h1, h2⟩ := stream_run skipByte s hg
  rw [h1] at h
  cases hl : stream s with
  | nil => rw [hl] at h; simp at h
  | cons x t => rw [h2, hl]; simp

omit hrd in
theorem pop_ok_stream (s : Buffered) (hg : Good s) (b : UInt8) (h : (run popByte s).1 = .ok b) :
    (stream (run popByte s).2).length + 1 = (stream s).length := by
  obtain ⟨h1, h2⟩ := stream_run popByte s hg
  rw [h1] at h
  cases hl : stream s with
  | nil => rw [hl] at h; simp at h
  | cons x t => rw [h2, hl]; simp

theorem rs_skip_spaces_loop_np (fuel : Nat) : ∀ k s, Good s → (stream s).length < k → NP (Rs.PgnRawParser.skip_spaces.loop_1 rd fuel k) s := by
  intro k
  induction k with
  | zero => intro s _ h; omega
  | succ k ih =>
    intro s hg hl
    rw [Rs.PgnRawParser.skip_spaces.loop_1]
    refine np_bind hg (rs_peek_byte_total rd hrd s hg) (rs_peek_byte_sim rd hrd) (fun a ha => ?_)
    cases a with
    | error e => exact np_pure _ _
    | ok v =>
      cases hb : (run peekByte s).1 with
      | error e' => rw [hb] at ha; exact absurd ha id
      | ok b =>
        obtain ⟨e1, e2⟩ := peek_ok_stream rd hrd s hg b hb
        have g1 := good_run peekByte s hg
        dsimp only []
        unfold NP
        rw [pure_bind_run]
        split
        · exact np_pure _ _
        · refine np_bind g1 (rs_skip_byte_total rd hrd _ g1) (rs_skip_byte_sim rd hrd) (fun a ha => ?_)
          cases a with
          | error e => exact np_pure _ _
          | ok u =>
            cases hs : (run skipByte (run peekByte s).2).1 with
            | error e' => rw [hs] at ha; exact absurd ha id
            | ok u' =>
              have := skip_ok_stream _ g1 u' hs
              exact ih _ (good_run skipByte _ g1) (by rw [e1] at this; omega)

theorem rs_skip_blank_lines_loop_np (fuel : Nat) : ∀ k s, Good s → (stream s).length < k → NP (Rs.PgnRawParser.skip_blank_lines.loop_1 rd fuel k) s := by
  intro k
  induction k with
  | zero => intro s _ h; omega
  | succ k ih =>
    intro s hg hl
    rw [Rs.PgnRawParser.skip_blank_lines.loop_1]
    refine np_bind hg (rs_peek_byte_total rd hrd s hg) (rs_peek_byte_sim rd hrd) (fun a ha => ?_)
    cases a with
    | error e => exact np_pure _ _
    | ok v =>
      cases hb : (run peekByte s).1 with
      | error e' => rw [hb] at ha; exact absurd ha id
      | ok b =>
        obtain ⟨e1, e2⟩ := peek_ok_stream rd hrd s hg b hb
        have g1 := good_run peekByte s hg
        dsimp only []
        unfold NP
        rw [pure_bind_run]
        split
        · exact np_pure _ _
        · refine np_bind g1 (rs_skip_byte_total rd hrd _ g1) (rs_skip_byte_sim rd hrd) (fun a ha => ?_)
          cases a with
          | error e => exact np_pure _ _
          | ok u =>
            cases hs : (run skipByte (run peekByte s).2).1 with
            | error e' => rw [hs] at ha; exact absurd ha id
            | ok u' =>
              have := skip_ok_stream _ g1 u' hs
              exact ih _ (good_run skipByte _ g1) (by rw [e1] at this; omega)

omit hrd in
/-- the wrapper of a loop: `match (← loop fuel fuel ..) with | Ctl.ret r => return r | Ctl.next _ => ..` -/
theorem total_loop_wrap {ρ σ' γ β : Type} {fuel : Nat} {L : Nat → Rs.RsM (Rs.PgnRawParser Reader) (Rs.Ctl ρ σ')}
    {f : Rs.Ctl ρ σ' → Rs.RsM (Rs.PgnRawParser Reader) γ} {p : Prog β} {rel : Rs.Ctl ρ σ' → β → Prop}
    (h0 : ∀ k s, Good s → (stream s).length < k → NP (L k) s) (h1 : Sim (L fuel) p rel) (h2 : ∀ c, TotalF fuel (f c)) :
    TotalF fuel (L fuel >>= f) := by
  intro s hg hl
  refine np_bind hg (h0 fuel s hg hl) h1 (fun a _ => h2 a _ (good_run p s hg) ?_)
  exact Nat.lt_of_le_of_lt (stream_run_le p s hg) hl

theorem rs_skip_spaces_total (fuel : Nat) : TotalF fuel (Rs.PgnRawParser.skip_spaces rd fuel) := by
  unfold Rs.PgnRawParser.skip_spaces
  refine total_loop_wrap (rs_skip_spaces_loop_np rd hrd fuel) (rs_skip_spaces_loop rd hrd fuel fuel) (fun c => ?_)
  cases c <;> exact total_pure _ _

theorem rs_skip_blank_lines_total (fuel : Nat) : TotalF fuel (Rs.PgnRawParser.skip_blank_lines rd fuel) := by
  unfold Rs.PgnRawParser.skip_blank_lines
  refine total_loop_wrap (rs_skip_blank_lines_loop_np rd hrd fuel) (rs_skip_blank_lines_loop rd hrd fuel fuel) (fun c => ?_)
  cases c <;> exact total_pure _ _

theorem rs_skip_to_next_line_loop_np (fuel : Nat) : ∀ k s, Good s → (stream s).length < k →
    NP (Rs.PgnRawParser.skip_to_next_line.loop_1 rd fuel k) s := by
  intro k
  induction k with
  | zero => intro s _ h; omega
  | succ k ih =>
    intro s hg hl
    rw [Rs.PgnRawParser.skip_to_next_line.loop_1]
    refine np_bind hg (rs_pop_byte_total rd hrd s hg) (rs_pop_byte_sim rd hrd) (fun a ha => ?_)
    cases a with
    | error e => exact np_pure _ _
    | ok v =>
      cases hb : (run popByte s).1 with
      | error e' => rw [hb] at ha; exact absurd ha id
      | ok b =>
        have := pop_ok_stream s hg b hb
        dsimp only []
        unfold NP
        rw [pure_bind_run]
        split
        · exact np_pure _ _
        · exact ih _ (good_run popByte s hg) (by omega)

theorem rs_skip_to_next_line_total (fuel : Nat) : TotalF fuel (Rs.PgnRawParser.skip_to_next_line rd fuel) := by
  unfold Rs.PgnRawParser.skip_to_next_line
  refine total_loop_wrap (rs_skip_to_next_line_loop_np rd hrd fuel) (rs_skip_to_next_line_loop rd hrd fuel fuel) (fun c => ?_)
  cases c <;> exact total_pure _ _

theorem rs_skip_blank_lines_and_spaces_loop_np (fuel : Nat) : ∀ k s, Good s → (stream s).length < k →
    NP (Rs.PgnRawParser.skip_blank_lines_and_spaces.loop_1 rd fuel k) s := by
  intro k
  induction k with
  | zero => intro s _ h; omega
  | succ k ih =>
    -- the continuation after the loop condition, at a state with the same stream as `s`
    have jp : ∀ s1, Good s1 → (stream s1).length < k + 1 → ∀ t3 : Bool,
        NP (if t3 = false then pure (Rs.Ctl.next ()) else (Rs.PgnRawParser.skip_byte rd >>= fun x => match x with
          | Except.ok _ => Rs.PgnRawParser.skip_blank_lines_and_spaces.loop_1 rd fuel k
          | Except.error e => pure (Rs.Ctl.ret (Except.error e)))) s1 := by
      intro s1 g1 hl1 t3
      split
      · exact np_pure _ _
      · refine np_bind g1 (rs_skip_byte_total rd hrd _ g1) (rs_skip_byte_sim rd hrd) (fun a ha => ?_)
        cases a with
        | error e => exact np_pure _ _
        | ok u =>
          cases hs : (run skipByte s1).1 with
          | error e' => rw [hs] at ha; exact absurd ha id
          | ok u' =>
            have := skip_ok_stream _ g1 u' hs
            exact ih _ (good_run skipByte _ g1) (by omega)
    intro s hg hl
    rw [Rs.PgnRawParser.skip_blank_lines_and_spaces.loop_1]
    refine np_bind hg (rs_peek_byte_total rd hrd s hg) (rs_peek_byte_sim rd hrd) (fun a ha => ?_)
    cases a with
    | error e => exact np_pure _ _
    | ok v =>
      cases hb : (run peekByte s).1 with
      | error e' => rw [hb] at ha; exact absurd ha id
      | ok b =>
        obtain ⟨e1, e2⟩ := peek_ok_stream rd hrd s hg b hb
        have g1 := good_run peekByte s hg
        dsimp only []
        unfold NP
        rw [pure_bind_run]
        split
        · rw [pure_bind_run]
          exact jp _ g1 (by rw [e1]; exact hl) true
        · refine np_bind g1 (rs_peek_byte_total rd hrd _ g1) (rs_peek_byte_sim rd hrd) (fun a ha => ?_)
          cases a with
          | error e => exact np_pure _ _
          | ok v2 =>
            cases hb2 : (run peekByte (run peekByte s).2).1 with
            | error e' => rw [hb2] at ha; exact absurd ha id
            | ok b2 =>
              obtain ⟨f1, f2⟩ := peek_ok_stream rd hrd _ g1 b2 hb2
              dsimp only []
              unfold NP
              rw [pure_bind_run, pure_bind_run]
              exact jp _ (good_run peekByte _ g1) (by rw [f1, e1]; exact hl) _

theorem rs_skip_blank_lines_and_spaces_total (fuel : Nat) : TotalF fuel (Rs.PgnRawParser.skip_blank_lines_and_spaces rd fuel) := by
  unfold Rs.PgnRawParser.skip_blank_lines_and_spaces
  refine total_loop_wrap (rs_skip_blank_lines_and_spaces_loop_np rd hrd fuel) (rs_skip_blank_lines_and_spaces_loop rd hrd fuel fuel) (fun c => ?_)
  cases c <;> exact total_pure _ _


theorem rs_read_until_loop_np (fuel : Nat) (byte : Int) : ∀ k r c s, Good s → (stream s).length < k →
    NP (Rs.PgnRawParser.read_until.loop_1 rd fuel byte k r c) s := by
  intro k
  induction k with
  | zero => intro r c s _ h; omega
  | succ k ih =>
    intro r c s hg hl
    rw [Rs.PgnRawParser.read_until.loop_1]
    split
    · exact np_pure _ _
    · dsimp only []
      refine np_bind hg (rs_skip_byte_total rd hrd s hg) (rs_skip_byte_sim rd hrd) (fun a ha => ?_)
      cases a with
      | error e => exact np_pure _ _
      | ok u =>
        cases hs : (run skipByte s).1 with
        | error e' => rw [hs] at ha; exact absurd ha id
        | ok u' =>
          have hdec := skip_ok_stream s hg u' hs
          have g1 := good_run skipByte s hg
          dsimp only []
          refine np_bind g1 (rs_peek_byte_total rd hrd _ g1) (rs_peek_byte_sim rd hrd) (fun a ha => ?_)
          cases a with
          | error e => exact np_pure _ _
          | ok v =>
            cases hb : (run peekByte (run skipByte s).2).1 with
            | error e' => rw [hb] at ha; exact absurd ha id
            | ok b =>
              obtain ⟨e1, e2⟩ := peek_ok_stream rd hrd _ g1 b hb
              dsimp only []
              unfold NP
              rw [pure_bind_run]
              exact ih _ _ _ (good_run peekByte _ g1) (by rw [e1]; omega)

theorem rs_read_until_total (fuel : Nat) (byte : UInt8) : TotalF fuel (Rs.PgnRawParser.read_until rd fuel (byteI byte)) := by
  intro s hg hl
  unfold Rs.PgnRawParser.read_until
  dsimp only []
  refine np_bind hg (rs_peek_byte_total rd hrd s hg) (rs_peek_byte_sim rd hrd) (fun a ha => ?_)
  cases a with
  | error e => exact np_pure _ _
  | ok v =>
    cases hb : (run peekByte s).1 with
    | error e' => rw [hb] at ha; exact absurd ha id
    | ok b =>
      rw [hb] at ha
      have hv : v = byteI b := ha
      subst hv
      obtain ⟨e1, e2⟩ := peek_ok_stream rd hrd s hg b hb
      have g1 := good_run peekByte s hg
      dsimp only []
      unfold NP
      rw [pure_bind_run]
      refine np_bind g1 (rs_read_until_loop_np rd hrd fuel (byteI byte) fuel _ _ _ g1 (by rw [e1]; exact hl))
        (rs_read_until_loop rd hrd fuel byte fuel [] b) (fun c _ => ?_)
      cases c with
      | ret r => exact np_pure _ _
      | next st => exact np_pure _ _

theorem rs_read_token_loop_np (fuel : Nat) : ∀ k r s, Good s → (stream s).length < k →
    NP (Rs.PgnRawParser.read_token.loop_1 rd fuel k r) s := by
  intro k
  induction k with
  | zero => intro r s _ h; omega
  | succ k ih =>
    intro r s hg hl
    unfold NP
    rw [Rs.PgnRawParser.read_token.loop_1]
    obtain ⟨_, _, p3, p4⟩ := peek_spec s hg.inv
    rcases peek_cases rd hrd s hg with ⟨b, s1, h1, h2, h3, h4, g1, g2⟩ | ⟨s1, h1, h2, _⟩
    · rw [bind_some h2, if_neg (by decide), bind_some (run_get _), bind_some (run_get _), bind_some (idx_run rd hrd s1 b h3 _)]
      dsimp only []
      split
      · exact np_pure _ _
      · rw [bind_some h4]
        rw [h1] at p3 p4
        have hlt : s1.cur < s1.buf.length := p4 b rfl
        obtain ⟨_, q2⟩ := incr_spec s1 g1.inv hlt
        refine ih _ _ g2 ?_
        rw [q2, List.length_tail]
        simp only at p3
        rw [p3]
        have : 1 ≤ (stream s).length := by
          rw [← p3]; simp only [stream, List.length_append, List.length_drop]; omega
        omega
    · rw [bind_some h2, if_pos rfl]
      exact np_pure _ _

theorem rs_read_token_total (fuel : Nat) : TotalF fuel (Rs.PgnRawParser.read_token rd fuel) := by
  unfold Rs.PgnRawParser.read_token
  dsimp only []
  refine total_loop_wrap (L := fun k => Rs.PgnRawParser.read_token.loop_1 rd fuel k []) (fun k => rs_read_token_loop_np rd hrd fuel k [])
    (rs_read_token_loop rd hrd fuel fuel []) (fun c => ?_)
  cases c <;> exact total_pure _ _

theorem rs_read_tag_value_total (fuel : Nat) : TotalF fuel (Rs.PgnRawParser.read_tag_value rd fuel) := by
  unfold Rs.PgnRawParser.read_tag_value
  tot_step (rs_consume_total rd hrd fuel 34), (rs_consume_sim rd hrd 34)
  try dsimp only []
  refine total_bindF (rs_read_until_total rd hrd fuel 34) (rs_read_until_sim rd hrd fuel 34) (fun value => ?_)
  try dsimp only []
  tot_step (rs_consume_total rd hrd fuel 34), (rs_consume_sim rd hrd 34)

theorem rs_read_tag_pair_line_total (fuel : Nat) : TotalF fuel (Rs.PgnRawParser.read_tag_pair_line rd fuel) := by
  unfold Rs.PgnRawParser.read_tag_pair_line
  tot_step (rs_consume_total rd hrd fuel 91), (rs_consume_sim rd hrd 91)
  try dsimp only []
  tot_step (by unfold Rs.PgnRawParser.read_tag_name; exact rs_read_until_total rd hrd fuel SP), (rs_read_tag_name_sim rd hrd fuel)
  try dsimp only []
  refine total_pure_bind ?_
  try dsimp only []
  tot_step (rs_consume_total rd hrd fuel 32), (rs_consume_sim rd hrd SP)
  try dsimp only []
  tot_step (rs_read_tag_value_total rd hrd fuel), (rs_read_tag_value_sim rd hrd fuel)
  try dsimp only []
  refine total_pure_bind ?_
  try dsimp only []
  tot_step (rs_consume_total rd hrd fuel 93), (rs_consume_sim rd hrd 93)
  try dsimp only []
  tot_step (rs_consume_total rd hrd fuel 10), (rs_consume_sim rd hrd NL)

theorem rs_read_tag_pairs_loop_np (fuel : Nat) : ∀ k x s, Good s → (stream s).length < k → (stream s).length < fuel →
    NP (Rs.PgnRawParser.read_tag_pairs.loop_1 rd fuel k x) s := by
  intro k
  induction k with
  | zero => intro x s _ h; omega
  | succ k ih =>
    intro x s hg hl hf
    rw [Rs.PgnRawParser.read_tag_pairs.loop_1]
    refine np_bind hg (rs_peek_byte_total rd hrd s hg) (rs_peek_byte_sim rd hrd) (fun a ha => ?_)
    cases a with
    | error e => exact np_pure _ _
    | ok v =>
      cases hb : (run peekByte s).1 with
      | error e' => rw [hb] at ha; exact absurd ha id
      | ok b =>
        obtain ⟨e1, e2⟩ := peek_ok_stream rd hrd s hg b hb
        have g1 := good_run peekByte s hg
        dsimp only []
        unfold NP
        rw [pure_bind_run]
        split
        · refine np_bind g1 (rs_read_tag_pair_line_total rd hrd fuel _ g1 (by rw [e1]; exact hf)) (rs_read_tag_pair_line_sim rd hrd fuel)
            (fun a ha => ?_)
          cases a with
          | error e => exact np_pure _ _
          | ok kv =>
            cases hr : (run (readTagPairLine fuel) (run peekByte s).2).1 with
            | error e' => rw [hr] at ha; exact absurd ha id
            | ok kv' =>
              obtain ⟨r1, r2⟩ := stream_run (readTagPairLine fuel) _ g1
              have hdec := readTagPairLine_decreases fuel (stream (run peekByte s).2) _ kv' (by
                rw [hr] at r1; exact Prod.ext r1.symm rfl)
              have hdec : (stream (run (readTagPairLine fuel) (run peekByte s).2).2).length < (stream (run peekByte s).2).length := by
                rw [r2]; exact hdec
              dsimp only []
              unfold NP
              rw [pure_bind_run]
              refine ih _ _ (good_run _ _ g1) ?_ ?_
              · rw [e1] at hdec; omega
              · rw [e1] at hdec; omega
        · split
          · exact np_pure _ _
          · rw [bind_some (run_get _)]
            exact np_pure _ _

theorem rs_read_tag_pairs_total (fuel : Nat) : TotalF fuel (Rs.PgnRawParser.read_tag_pairs rd fuel) := by
  intro s hg hl
  unfold Rs.PgnRawParser.read_tag_pairs
  dsimp only []
  refine np_bind hg (rs_read_tag_pairs_loop_np rd hrd fuel fuel _ s hg hl hl)
    (rs_read_tag_pairs_loop rd hrd fuel fuel [] (by simp)) (fun c hc => ?_)
  cases c with
  | ret r => exact np_pure _ _
  | next st =>
    cases hr : (run (readTagPairsLoop fuel fuel []) s).1 <;> rw [hr] at hc <;> exact absurd hc id


theorem rs_read_braced_annotation_total (fuel : Nat) : TotalF fuel (Rs.PgnRawParser.read_braced_annotation rd fuel) := by
  unfold Rs.PgnRawParser.read_braced_annotation
  tot_step (rs_consume_total rd hrd fuel 123), (rs_consume_sim rd hrd 123)
  try dsimp only []
  refine total_bindF (rs_read_until_total rd hrd fuel 125) (rs_read_until_sim rd hrd fuel 125) (fun value => ?_)
  try dsimp only []
  tot_step (rs_consume_total rd hrd fuel 125), (rs_consume_sim rd hrd 125)

theorem rs_read_semicolon_annotation_total (fuel : Nat) : TotalF fuel (Rs.PgnRawParser.read_semicolon_annotation rd fuel) := by
  unfold Rs.PgnRawParser.read_semicolon_annotation
  tot_step (rs_consume_total rd hrd fuel 59), (rs_consume_sim rd hrd 59)
  try dsimp only []
  refine total_bindF (rs_read_until_total rd hrd fuel NL) (rs_read_until_sim rd hrd fuel NL) (fun value => ?_)
  try dsimp only []
  tot_step (rs_consume_total rd hrd fuel 10), (rs_consume_sim rd hrd NL)

omit hrd in
theorem total_ite {α : Type} {fuel : Nat} (c : Prop) [Decidable c] {A B : Rs.RsM (Rs.PgnRawParser Reader) α}
    (hA : TotalF fuel A) (hB : TotalF fuel B) : TotalF fuel (if c then A else B) := by
  split
  · exact hA
  · exact hB

set_option hygiene false in
macro "mv_tail_total" : tactic => `(tactic| (
  tot_step (rs_skip_spaces_total rd hrd fuel), (rs_skip_spaces_sim rd hrd fuel)
  all_goals try dsimp only []
  all_goals try (tot_step (total_of_total (rs_peek_byte_total rd hrd)), (rs_peek_byte_sim rd hrd))
  all_goals try dsimp only []
  all_goals try (refine total_pure_bind ?_)
  all_goals try dsimp only []
  all_goals try (refine total_ite _ ?_ (total_ite _ ?_ ?_))
  all_goals try (tot_step (rs_read_braced_annotation_total rd hrd fuel), (rs_read_braced_annotation_sim rd hrd fuel))
  all_goals try (tot_step (rs_read_semicolon_annotation_total rd hrd fuel), (rs_read_semicolon_annotation_sim rd hrd fuel))
  all_goals try dsimp only []
  all_goals try (exact total_pure_bind (total_pure_bind (total_pure _ _)))
  all_goals try (exact total_pure_bind (total_pure _ _))))

theorem rs_read_move_total (fuel : Nat) : TotalF fuel (Rs.PgnRawParser.read_move rd fuel) := by
  unfold Rs.PgnRawParser.read_move
  tot_step (rs_skip_blank_lines_and_spaces_total rd hrd fuel), (rs_skip_blank_lines_and_spaces_sim rd hrd fuel)
  try dsimp only []
  refine total_bindF (rs_read_token_total rd hrd fuel) (rs_read_token_sim rd hrd fuel) (fun token => ?_)
  try dsimp only []
  refine total_ite _ (total_pure _ _) (total_ite _ ?_ ?_)
  · tot_step (rs_skip_spaces_total rd hrd fuel), (rs_skip_spaces_sim rd hrd fuel)
    try dsimp only []
    refine total_bindF (rs_read_token_total rd hrd fuel) (rs_read_token_sim rd hrd fuel) (fun token2 => ?_)
    try dsimp only []
    refine total_pure_bind ?_
    mv_tail_total
  · refine total_pure_bind ?_
    mv_tail_total

theorem rs_read_moves_loop_np (fuel : Nat) : ∀ k x s, Good s → (stream s).length < k → (stream s).length < fuel →
    NP (Rs.PgnRawParser.read_moves.loop_1 rd fuel k x) s := by
  intro k
  induction k with
  | zero => intro x s _ h; omega
  | succ k ih =>
    intro x s hg hl hf
    rw [Rs.PgnRawParser.read_moves.loop_1]
    refine np_bind hg (rs_read_move_total rd hrd fuel s hg hf) (rs_read_move_sim rd hrd fuel) (fun a ha => ?_)
    cases a with
    | error e => exact np_pure _ _
    | ok m =>
      cases hr : (run (readMove fuel) s).1 with
      | error e' => rw [hr] at ha; exact absurd ha id
      | ok m' =>
        rw [hr] at ha
        have hm : m = m'.map moveOf := ha
        subst hm
        dsimp only []
        unfold NP
        rw [pure_bind_run]
        cases m' with
        | none => exact np_pure _ _
        | some mv =>
          dsimp only [Option.map_some]
          obtain ⟨r1, r2⟩ := stream_run (readMove fuel) s hg
          have hdec := readMove_decreases fuel (stream s) _ mv hf (by rw [hr] at r1; exact Prod.ext r1.symm rfl)
          have hdec' : (stream (run (readMove fuel) s).2).length < (stream s).length := by rw [r2]; exact hdec
          exact ih _ _ (good_run _ s hg) (by omega) (by omega)

theorem rs_read_moves_total (fuel : Nat) : TotalF fuel (Rs.PgnRawParser.read_moves rd fuel) := by
  intro s hg hl
  unfold Rs.PgnRawParser.read_moves
  dsimp only []
  refine np_bind hg (rs_read_moves_loop_np rd hrd fuel fuel _ s hg hl hl) (rs_read_moves_loop rd hrd fuel fuel []) (fun c _ => ?_)
  have g1 := good_run (readMovesLoop fuel fuel []) s hg
  have l1 : (stream (run (readMovesLoop fuel fuel []) s).2).length < fuel := Nat.lt_of_le_of_lt (stream_run_le _ s hg) hl
  cases c with
  | ret r => exact np_pure _ _
  | next st =>
    dsimp only []
    refine np_bind g1 (rs_skip_to_next_line_total rd hrd fuel _ g1 l1) (rs_skip_to_next_line_sim rd hrd fuel) (fun t2 _ => ?_)
    cases t2 with
    | ok u => exact np_pure _ _
    | error e => cases e <;> exact np_pure _ _

theorem rs_read_pgn_total (fuel : Nat) : TotalF fuel (Rs.PgnRawParser.read_pgn rd fuel) := by
  unfold Rs.PgnRawParser.read_pgn
  tot_step (rs_read_tag_pairs_total rd hrd fuel), (rs_read_tag_pairs_sim rd hrd fuel)
  try dsimp only []
  refine total_pure_bind ?_
  try dsimp only []
  tot_step (rs_skip_blank_lines_total rd hrd fuel), (rs_skip_blank_lines_sim rd hrd fuel)
  try dsimp only []
  tot_step (rs_read_moves_total rd hrd fuel), (rs_read_moves_sim rd hrd fuel)

/-- **`Iterator::next` does not panic** and no loop bound is exhausted when fewer than `fuel` bytes remain -/
theorem rs_pgn_next_total (fuel : Nat) : TotalF fuel (Rs.PgnRawParser.next rd fuel) := by
  unfold Rs.PgnRawParser.next
  refine total_bindF (rs_skip_blank_lines_and_spaces_total rd hrd fuel) (rs_skip_blank_lines_and_spaces_sim rd hrd fuel) (fun t1 => ?_)
  cases t1 with
  | ok u =>
    dsimp only []
    refine total_bindF (rs_read_pgn_total rd hrd fuel) (rs_read_pgn_sim rd hrd fuel) (fun t2 => total_pure _ _)
  | error e => cases e <;> exact total_pure _ _


theorem rs_items_total (fuel : Nat) : ∀ k (s : Buffered), Good s → (stream s).length < fuel → ∃ l, rsItems rd fuel k (toRs s) = some l := by
  intro k
  induction k with
  | zero => intro s _ _; exact ⟨[], rfl⟩
  | succ k ih =>
    intro s hg hl
    unfold rsItems
    cases hn : Rs.PgnRawParser.next rd fuel (toRs s) with
    | none => exact absurd hn (rs_pgn_next_total rd hrd fuel s hg hl)
    | some x =>
      obtain ⟨r, t⟩ := x
      obtain ⟨e1, _⟩ := rs_pgn_next_eq rd hrd fuel s r t hg hn
      subst e1
      cases r with
      | none => exact ⟨[], rfl⟩
      | some x =>
        cases x with
        | error e => exact ⟨[.error e], rfl⟩
        | ok g =>
          obtain ⟨l, hl'⟩ := ih _ (good_run (Pgn.next fuel) s hg) (Nat.lt_of_le_of_lt (stream_run_le _ s hg) hl)
          exact ⟨.ok g :: l, by dsimp only []; rw [hl']; rfl⟩

/-- **C17 on the regenerated reader, total form**: for every input, chunk size (≥ 1, a `usize`) and fragmentation schedule (entries ≥ 1),
iterating the TRANSLATED `PgnRawParser::with_chunk_size(reader, chunk)` with loop bound `input.length + 1` never panics, never exhausts a
loop bound, and yields item by item what the model parser yields on the plain byte list (`readAll input`): the items do not depend on
`chunk` / `sched`. -/
theorem rs_pgn_reader_correct (input : List UInt8) (chunk : Nat) (sched : Nat → Nat) (hchunk : 1 ≤ chunk) (hsched : ∀ k, 1 ≤ sched k)
    (hc : chunk < 18446744073709551616) (hi : input.length < 18446744073709551616) :
    ∃ l, rsItems rd (input.length + 1) (input.length + 1) (Rs.PgnRawParser.with_chunk_size ⟨input, sched, 0⟩ (chunk : Int)) = some l
      ∧ itemsRel l (readAll input) := by
  have hg := good_new input chunk sched hchunk hsched hc hi
  have hs : (stream (Buffered.new ⟨input, sched, 0⟩ chunk)).length < input.length + 1 := by
    rw [(R_new chunk sched input hchunk hsched).2]; omega
  obtain ⟨l, hl⟩ := rs_items_total rd hrd (input.length + 1) (input.length + 1) _ hg hs
  rw [← rs_with_chunk_size_eq] at hl
  exact ⟨l, hl, rs_pgn_chunk_independent rd hrd input chunk sched hchunk hsched hc hi l hl⟩

#print axioms rs_pgn_next_total
#print axioms rs_pgn_reader_correct


end

/-- `[a "b"]`, blank line, `e4 *` -/
def exBytes : List UInt8 := [91, 97, 32, 34, 98, 34, 93, 10, 10, 101, 52, 32, 42]

/-- non-vacuity: the hypotheses are satisfiable (chunk 2, reads of 1,2,1,2,… bytes; `readF` is a `ReadModel`) -/
example : ∃ l, rsItems (E := Unit) readF 14 14 (Rs.PgnRawParser.with_chunk_size ⟨exBytes, fun k => 1 + k % 2, 0⟩ ((2 : Nat) : Int)) = some l
    ∧ itemsRel l (readAll exBytes) :=
  rs_pgn_reader_correct readF (fun _ _ => rfl) exBytes 2 (fun k => 1 + k % 2) (by decide) (fun k => by omega) (by decide) (by decide)

end Inkayaku.Translated
