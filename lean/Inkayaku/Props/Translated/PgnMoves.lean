import Inkayaku.Props.Translated.PgnTags
/-! Part of `Props/Translated` (round 5, property C17): the MOVE section and the iterator of the PGN reader (generated module `Pgn`, monadic
mode) against the model: `read_braced_annotation`, `read_semicolon_annotation`, `read_move` (result tokens, move numbers, annotations),
`read_moves` (`while let Some(mv) = self.read_move()?`, then `skip_to_next_line` whose `ReadingFromClosedRead` is swallowed), `read_pgn`,
`Iterator::next`. -/

set_option linter.unusedSimpArgs false
set_option linter.unusedSectionVars false

namespace Inkayaku.Translated
open Inkayaku.Pgn Inkayaku.C17

/-- the regenerated `PgnRawAnnotatedMove` / `PgnRaw` values of the model's -/
def moveOf (m : RawMove) : Rs.PgnRawAnnotatedMove := { mv := strOf m.mv, annotation := m.annotation.map strOf }
def gameOf (g : RawGame) : Rs.PgnRaw := { tag_pairs := tagsOf g.tags, moves := g.moves.map moveOf }

theorem strOf_beq (a b : List UInt8) : (strOf a == strOf b) = decide (a = b) := by
  by_cases h : a = b
  · subst h; simp
  · have : ¬ strOf a = strOf b := fun e => h (strOf_inj e)
    simp [h, this]

theorem contains_strOf (l : List UInt8) (c : UInt8) : Rs.strContains (strOf l) (Char.ofNat c.toNat) = l.contains c := by
  unfold Rs.strContains
  induction l with
  | nil => rfl
  | cons x l ih =>
    have hx : (Char.ofNat c.toNat == Char.ofNat x.toNat) = (c == x) := by
      by_cases h : c = x
      · subst h; rw [beq_self_eq_true, beq_self_eq_true]
      · have h' : ¬ Char.ofNat c.toNat = Char.ofNat x.toNat := fun e => h (char_byte_inj _ _ e)
        rw [beq_eq_false_iff_ne.mpr h, beq_eq_false_iff_ne.mpr h']
    show (Char.ofNat x.toNat :: strOf l).contains (Char.ofNat c.toNat) = (x :: l).contains c
    rw [List.contains_cons, List.contains_cons, ih, hx]

theorem mbind_assoc {α β γ : Type} (p : M α) (f : α → M β) (g : β → M γ) :
    M.bind (M.bind p f) g = M.bind p (fun a => M.bind (f a) g) := by
  unfold M.bind
  induction p with
  | ret a => cases a <;> rfl
  | step inc k ih => simp only [Prog.bind]; congr 1; funext b; exact ih b

section
variable {E : Type} (rd : Reader → List Int → Except E Int × Reader × List Int) (hrd : ReadModel rd)
include hrd

/-- **`read_braced_annotation` = `readBracedAnnotation`** -/
theorem rs_read_braced_annotation_sim (fuel : Nat) :
    Sim (Rs.PgnRawParser.read_braced_annotation rd fuel) (readBracedAnnotation fuel) (relRes (fun r out => r = strOf out)) := by
  unfold Rs.PgnRawParser.read_braced_annotation readBracedAnnotation
  rw [M.bind]
  sim_step (rs_consume_sim rd hrd 123)
  try dsimp only []
  refine sim_attempt rd hrd (rs_read_until_sim rd hrd fuel 125) (fun value out hv => ?_)
  try dsimp only []
  rw [M.bind]
  sim_step (rs_consume_sim rd hrd 125)
  try dsimp only []
  exact sim_pure hv

/-- **`read_semicolon_annotation` = `readSemicolonAnnotation`** -/
theorem rs_read_semicolon_annotation_sim (fuel : Nat) :
    Sim (Rs.PgnRawParser.read_semicolon_annotation rd fuel) (readSemicolonAnnotation fuel) (relRes (fun r out => r = strOf out)) := by
  unfold Rs.PgnRawParser.read_semicolon_annotation readSemicolonAnnotation
  rw [M.bind]
  sim_step (rs_consume_sim rd hrd 59)
  try dsimp only []
  refine sim_attempt rd hrd (rs_read_until_sim rd hrd fuel NL) (fun value out hv => ?_)
  try dsimp only []
  rw [M.bind]
  sim_step (rs_consume_sim rd hrd NL)
  try dsimp only []
  exact sim_pure hv

set_option hygiene false in
/-- the part of `read_move` after the move token `mv` is known (it occurs twice: with and without a move number) -/
macro "mv_tail" : tactic => `(tactic| (
  rw [M.bind]
  sim_step (rs_skip_spaces_sim rd hrd fuel)
  try dsimp only []
  rw [M.bind]
  sim_step (rs_peek_byte_sim rd hrd)
  rename_i v byte hab
  have hv : v = byteI byte := hab
  subst hv
  try dsimp only []
  refine sim_pure_bind ?_
  try dsimp only []
  rw [show (123 : Int) = byteI 123 from rfl, show (59 : Int) = byteI 59 from rfl, byteI_beq, byteI_beq]
  by_cases h123 : byte = 123
  · rw [if_pos (by simp [h123]), if_pos h123, mbind_assoc, M.bind]
    sim_step (rs_read_braced_annotation_sim rd hrd fuel)
    rename_i a a' ha
    have ha' : a = strOf a' := ha
    subst ha'
    try dsimp only []
    exact sim_pure_bind (sim_pure_bind (sim_pure rfl))
  · rw [if_neg (by rw [decide_eq_false h123]; decide), if_neg h123]
    by_cases h59 : byte = 59
    · rw [if_pos (by simp [h59]), if_pos h59, mbind_assoc, M.bind]
      sim_step (rs_read_semicolon_annotation_sim rd hrd fuel)
      rename_i a a' ha
      have ha' : a = strOf a' := ha
      subst ha'
      try dsimp only []
      exact sim_pure_bind (sim_pure_bind (sim_pure rfl))
    · rw [if_neg (by rw [decide_eq_false h59]; decide), if_neg h59]
      exact sim_pure_bind (sim_pure rfl)
))

omit hrd in
theorem result_token_eq (tok : List UInt8) :
    (strOf tok == [Char.ofNat 42] || strOf tok == [Char.ofNat 49, Char.ofNat 45, Char.ofNat 48] ||
      strOf tok == [Char.ofNat 48, Char.ofNat 45, Char.ofNat 49] ||
      strOf tok == [Char.ofNat 49, Char.ofNat 47, Char.ofNat 50, Char.ofNat 45, Char.ofNat 49, Char.ofNat 47, Char.ofNat 50])
      = isResultToken tok := by
  rw [show [Char.ofNat 42] = strOf [42] from rfl, show [Char.ofNat 49, Char.ofNat 45, Char.ofNat 48] = strOf [49, 45, 48] from rfl,
    show [Char.ofNat 48, Char.ofNat 45, Char.ofNat 49] = strOf [48, 45, 49] from rfl,
    show [Char.ofNat 49, Char.ofNat 47, Char.ofNat 50, Char.ofNat 45, Char.ofNat 49, Char.ofNat 47, Char.ofNat 50]
      = strOf [49, 47, 50, 45, 49, 47, 50] from rfl, strOf_beq, strOf_beq, strOf_beq, strOf_beq]
  rfl

/-- **`read_move` = `readMove`** -/
theorem rs_read_move_sim (fuel : Nat) :
    Sim (Rs.PgnRawParser.read_move rd fuel) (readMove fuel) (relRes (fun r out => r = out.map moveOf)) := by
  unfold Rs.PgnRawParser.read_move readMove
  rw [M.bind]
  sim_step (rs_skip_blank_lines_and_spaces_sim rd hrd fuel)
  try dsimp only []
  rw [M.bind]
  refine sim_bind (rs_read_token_sim rd hrd fuel) (fun token out htok => ?_)
  obtain ⟨tok, rfl, rfl⟩ := htok
  dsimp only []
  rw [result_token_eq]
  by_cases hres : isResultToken tok = true
  · rw [if_pos hres, if_pos hres]
    exact sim_pure rfl
  · rw [if_neg hres, if_neg hres]
    rw [show (Char.ofNat 46) = Char.ofNat (46 : UInt8).toNat from rfl, contains_strOf]
    by_cases hdot : tok.contains 46 = true
    case' pos =>
      rw [if_pos hdot, if_pos hdot, mbind_assoc, M.bind]
      sim_step (rs_skip_spaces_sim rd hrd fuel)
      try dsimp only []
      rw [M.bind]
      refine sim_bind (rs_read_token_sim rd hrd fuel) (fun token2 out2 htok2 => ?_)
      obtain ⟨mv, rfl, rfl⟩ := htok2
      dsimp only []
      refine sim_pure_bind ?_
    case' neg =>
      rw [if_neg hdot, if_neg hdot]
      refine sim_pure_bind ?_
      generalize tok = mv
      show Sim _ (M.bind (M.pure mv) _) _
      rw [show ∀ (K : List UInt8 → M (Option RawMove)), M.bind (M.pure mv) K = K mv from fun _ => rfl]
    all_goals mv_tail

theorem rs_read_moves_loop (fuel : Nat) : ∀ k (l : List RawMove),
    Sim (Rs.PgnRawParser.read_moves.loop_1 rd fuel k (l.map moveOf)) (readMovesLoop fuel k l)
      (relCtl (fun r out => r = out.map moveOf) (fun _ _ => False)) := by
  intro k
  induction k with
  | zero => intro l; rw [Rs.PgnRawParser.read_moves.loop_1]; exact sim_panic
  | succ k ih =>
    intro l
    rw [Rs.PgnRawParser.read_moves.loop_1]
    unfold readMovesLoop
    rw [M.bind]
    sim_step (rs_read_move_sim rd hrd fuel)
    rename_i m m' hm
    have hm' : m = m'.map moveOf := hm
    subst hm'
    try dsimp only []
    refine sim_pure_bind ?_
    cases m' with
    | none => exact sim_pure rfl
    | some mv =>
      dsimp only [Option.map_some]
      have := ih (l ++ [mv])
      rw [List.map_append] at this
      exact this

/-- **`read_moves` = `readMoves`** -/
theorem rs_read_moves_sim (fuel : Nat) :
    Sim (Rs.PgnRawParser.read_moves rd fuel) (readMoves fuel) (relRes (fun r out => r = out.map moveOf)) := by
  unfold Rs.PgnRawParser.read_moves readMoves
  try dsimp only []
  rw [M.bind]
  refine sim_bind (rs_read_moves_loop rd hrd fuel fuel []) (fun c out hc => ?_)
  cases c with
  | ret r =>
    cases r with
    | ok x => cases out <;> exact absurd hc id
    | error e =>
      cases out with
      | ok x => exact absurd hc id
      | error e' => exact sim_pure hc
  | next r =>
    cases out with
    | error e' => exact absurd hc id
    | ok res =>
      have hr : r = res.map moveOf := hc
      subst hr
      dsimp only []
      refine sim_attempt rd hrd (rs_skip_to_next_line_sim rd hrd fuel) (fun t2 out2 h2 => ?_)
      cases t2 with
      | ok u =>
        cases out2 with
        | error e' => exact absurd h2 id
        | ok u' => exact sim_pure rfl
      | error e =>
        cases out2 with
        | ok u' => exact absurd h2 id
        | error e' =>
          have he : pgnErrKind e = e' := h2
          subst he
          cases e with
          | ReadingFromClosedRead => exact sim_pure rfl
          | IllegalConsume p x y => exact sim_pure rfl
          | IllegalSymbol p x => exact sim_pure rfl

/-- **`read_pgn` = `readPgn`** -/
theorem rs_read_pgn_sim (fuel : Nat) :
    Sim (Rs.PgnRawParser.read_pgn rd fuel) (readPgn fuel) (relRes (fun r out => r = gameOf out)) := by
  unfold Rs.PgnRawParser.read_pgn readPgn
  rw [M.bind]
  sim_step (rs_read_tag_pairs_sim rd hrd fuel)
  rename_i tp tp' ht
  have ht' : tp = tagsOf tp' := ht
  subst ht'
  try dsimp only []
  refine sim_pure_bind ?_
  try dsimp only []
  rw [M.bind]
  sim_step (rs_skip_blank_lines_sim rd hrd fuel)
  try dsimp only []
  rw [M.bind]
  sim_step (rs_read_moves_sim rd hrd fuel)
  rename_i ms ms' hms
  have hms' : ms = ms'.map moveOf := hms
  subst hms'
  try dsimp only []
  exact sim_pure_bind (sim_pure rfl)

/-- **`Iterator::next` = `next`**: `None` at the end of the input, otherwise the next game or the error -/
theorem rs_pgn_next_eq (fuel : Nat) :
    Sim (Rs.PgnRawParser.next rd fuel) (Pgn.next fuel)
      (fun r out => match r, out with
        | none, none => True
        | some x, some y => relRes (fun g g' => g = gameOf g') x y
        | _, _ => False) := by
  unfold Rs.PgnRawParser.next Pgn.next
  refine sim_bind (rs_skip_blank_lines_and_spaces_sim rd hrd fuel) (fun t1 out h1 => ?_)
  cases t1 with
  | ok u =>
    cases out with
    | error e' => exact absurd h1 id
    | ok u' =>
      dsimp only []
      refine sim_bind (rs_read_pgn_sim rd hrd fuel) (fun t2 out2 h2 => ?_)
      exact sim_pure h2
  | error e =>
    cases out with
    | ok u' => exact absurd h1 id
    | error e' =>
      have he : pgnErrKind e = e' := h1
      subst he
      cases e with
      | ReadingFromClosedRead => exact sim_pure trivial
      | IllegalConsume p x y => exact sim_pure (show pgnErrKind _ = _ from rfl)
      | IllegalSymbol p x => exact sim_pure (show pgnErrKind _ = _ from rfl)

#print axioms rs_read_move_sim
#print axioms rs_read_moves_sim
#print axioms rs_read_pgn_sim
#print axioms rs_pgn_next_eq

end
end Inkayaku.Translated
