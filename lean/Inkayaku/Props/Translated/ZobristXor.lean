import Inkayaku.Model.Board
import Inkayaku.Model.Zobrist
import Inkayaku.Gen.Rs.ZobristXor
import Inkayaku.Props.Translated.MoveBits
/-! Part of `Props/Translated`: see `Props/Translated/Basic.lean` for the overview.  One file per translated Rust source, so that a
change of one Rust function re-opens exactly the obligations (and the properties) that depend on it.

### m. `Bitboard::zobrist_xor` (board/src/board.rs) = `Zobrist.xorOf` (Model/Zobrist.lean)

The key tables (`Zobrist::piece_square_hash`, `castle_hash`, `en_passant_square_hash`, `BLACK_TO_MOVE_HASH`) are OPAQUE
parameters of the generated definition; the theorem instantiates them with the model's lookups on the dumped key
material (`Gen.Zobrist`).  The move word is decoded with the generated getters (`Props/Translated/MoveBits.lean`).
The two hypotheses are exactly the two ways the Rust can panic: the `_ => panic!()` arm of the castle `match` (king
target not c1/g1/c8/g8) and `target_square_shift - 8` underflowing in `u32` for a black en-passant capture.
-/

set_option linter.unusedSimpArgs false

namespace Inkayaku.Translated
open Inkayaku.Board Inkayaku.Gen Inkayaku.MoveBits

/-! the key-table lookups the generated function is instantiated with -/
def zCastleF (side : UInt64) (color : Int) : UInt64 := Zobrist.castle side.toNat color.toNat
def zEnPassantF (sq : Int) : UInt64 := Zobrist.enPassant sq.toNat
def zPieceSquareF (piece : UInt64) (sq color : Int) : UInt64 := Zobrist.pieceSquare piece.toNat sq.toNat color.toNat

theorem ite_pure_eq {α : Type} (c : Prop) [Decidable c] (a b : α) :
    (if c then (pure a : Option α) else pure b) = some (if c then a else b) := by split <;> rfl

theorem ite_some_eq {α : Type} (c : Prop) [Decidable c] (a b : α) :
    (if c then some a else some b) = some (if c then a else b) := by split <;> rfl

theorem side_lt_two (b : UInt64) : field b sideToMoveMask sideToMoveShift < 2 := by
  rw [field_eq b sideToMoveMask sideToMoveShift 1 (by decide) (by decide) (by decide)]
  exact Nat.mod_lt _ (by decide)

theorem rs_opposite_color_eq (c : Nat) (h : c < 2) : Rs.opposite_color (c : Int) = some ((1 - c : Nat) : Int) := by
  unfold Rs.opposite_color
  rw [Rs.chk_u32 (by omega) (by omega)]
  congr 1; omega

theorem ite_xor_some (c : Prop) [Decidable c] (r x : UInt64) :
    (if c then some (r ^^^ x) else some r) = some (r ^^^ (if c then x else 0)) := by split <;> simp

theorem ite_xor (c : Prop) [Decidable c] (r x : UInt64) :
    (if c then r ^^^ x else r) = r ^^^ (if c then x else 0) := by split <;> simp

theorem natCast_ne_zero (n : Nat) : ((n : Int) ≠ Rs.NO_SQUARE) ↔ (n != 0) = true := by
  unfold Rs.NO_SQUARE; simp

/-! (`fold_decode`, folding `field b MASK SHIFT` back into the model's `decode b`, lives in `MoveBits.lean`: it is shared with
`Make.lean` / `Unmake.lean`, which must not depend on this file) -/

theorem rs_zobrist_xor_eq (b : UInt64)
    (hC : (decode b).castle = true → castleRook (decode b).target ≠ none)
    (hE : (decode b).castle = false → (decode b).enPassant = true → (decode b).side ≠ 0 → 8 ≤ (decode b).target) :
    Rs.Bitboard.zobrist_xor b Zobrist.blackToMove zCastleF zEnPassantF zPieceSquareF = some (Zobrist.xorOf (decode b)) := by
  have hside : (decode b).side < 2 := side_lt_two b
  have htg : (decode b).target < 64 := by
    show field b targetSquareMask targetSquareShift < 64
    rw [field_eq b targetSquareMask targetSquareShift 6 (by decide) (by decide) (by decide)]
    exact Nat.mod_lt _ (by decide)
  have hprom : (decode b).promotion < 18446744073709551616 := by unfold decode field; exact UInt64.toNat_lt _
  have hpm : (decode b).pieceMoved < 18446744073709551616 := by unfold decode field; exact UInt64.toNat_lt _
  have hpa : (decode b).pieceAttacked < 18446744073709551616 := by unfold decode field; exact UInt64.toNat_lt _
  unfold Rs.Bitboard.zobrist_xor
  obtain ⟨f1, f2, f3, f4, f5, f6, f7, f8, f9, f10, f11, f12, f13, f14, f15, f16⟩ := fold_decode b
  simp only [rs_get_side_to_move, rs_is_self_lost_king_side_castle,
    rs_is_self_lost_queen_side_castle, rs_is_opponent_lost_king_side_castle, rs_is_opponent_lost_queen_side_castle,
    rs_get_previous_en_passant_square, rs_get_next_en_passant_square, rs_get_piece_moved, rs_get_promotion_piece,
    rs_get_piece_attacked, rs_get_source_square, rs_get_target_square, rs_is_castle_move, rs_is_en_passant_attack,
    rs_is_promotion, f1, f2, f3, f4, f5, f6, f7, f8, f9, f10, f11, f12, f13, f14, f15, f16]
  clear f1 f2 f3 f4 f5 f6 f7 f8 f9 f10 f11 f12 f13 f14 f15 f16
  generalize decode b = f at *
  clear b
  have hopp : Rs.opposite_color (f.side : Int) = some ((1 - f.side : Nat) : Int) := rs_opposite_color_eq _ hside
  have kK : Rs.KING.toNat = KING := by decide
  have kQ : Rs.QUEEN.toNat = QUEEN := by decide
  have kR : Rs.ROOK.toNat = ROOK := by decide
  have kP : Rs.PAWN.toNat = PAWN := by decide
  have toU : ∀ n : Nat, n < 18446744073709551616 → n.toUInt64.toNat = n := by
    intro n hn; simp only [Nat.toUInt64_eq, UInt64.toNat_ofNat', Nat.mod_eq_of_lt hn]
  have pawn_iff : ∀ n : Nat, n < 18446744073709551616 → ((n.toUInt64 = Rs.PAWN) ↔ (n == PAWN) = true) := by
    intro n hn
    have : Rs.PAWN = (1 : Nat).toUInt64 := by decide
    rw [this]
    constructor
    · intro h
      have := congrArg UInt64.toNat h
      rw [toU n hn, toU 1 (by decide)] at this
      simpa [PAWN] using this
    · intro h
      have : n = 1 := by simpa [PAWN] using h
      rw [this]
  have white_iff : (decide ((f.side : Int) = Rs.WHITE)) = (f.side == 0) := by
    unfold Rs.WHITE
    by_cases h : f.side = 0 <;> simp [h]
  unfold Zobrist.xorOf
  simp only [hopp, Option.bind_eq_bind, Option.bind_some, Option.pure_def, ite_xor_some, ite_xor, natCast_ne_zero,
    zCastleF, zEnPassantF, zPieceSquareF, Int.toNat_natCast, kK, kQ, kR, kP, toU _ hprom, toU _ hpm, toU _ hpa,
    pawn_iff _ hpm, pawn_iff _ hpa, white_iff, NO_PIECE]
  cases hcas : f.castle
  · simp only [Bool.false_eq_true, if_false]
    cases hep : f.enPassant
    · simp only [Bool.false_eq_true, if_false]
      cases hpr : (f.promotion != 0) <;> cases hpm' : (f.pieceMoved == PAWN) <;> cases hpa' : (f.pieceAttacked == PAWN) <;>
        simp only [Bool.false_eq_true, if_false, if_true, Option.bind_some, UInt64.zero_xor]
    · simp only [if_true, Bool.false_eq_true, if_false]
      cases hw : (f.side == 0)
      · -- black: `target - 8` must not underflow
        have h0 : f.side ≠ 0 := by simpa using hw
        have h8 := hE hcas hep h0
        have hchk : Rs.chk Rs.Ty.u32 ((f.target : Int) - 8) = some ((f.target - 8 : Nat) : Int) := by
          rw [Rs.chk_u32 (by omega) (by omega)]; congr 1; omega
        simp only [Bool.false_eq_true, if_false, hchk, Option.bind_some, Int.toNat_natCast, UInt64.zero_xor]
      · have hchk : Rs.chk Rs.Ty.u32 ((f.target : Int) + 8) = some ((f.target + 8 : Nat) : Int) := by
          rw [Rs.chk_u32 (by omega) (by omega)]; rfl
        simp only [if_true, hchk, Option.bind_some, Int.toNat_natCast, UInt64.zero_xor]
  · have hr := hC hcas
    simp only [if_true]
    unfold castleRook at hr ⊢
    have c1 : Rs.C1 = ((C1 : Nat) : Int) := rfl
    have g1 : Rs.G1 = ((G1 : Nat) : Int) := rfl
    have c8 : Rs.C8 = ((C8 : Nat) : Int) := rfl
    have g8 : Rs.G8 = ((G8 : Nat) : Int) := rfl
    simp only [c1, g1, c8, g8, Int.natCast_inj]
    by_cases t1 : f.target = C1
    · simp [t1, Rs.A1, Rs.E1, Rs.D1, Rs.C1, A1, E1, D1, C1, G1]
    · by_cases t2 : f.target = G1
      · simp [t2, Rs.H1, Rs.E1, Rs.F1, Rs.G1, H1, E1, F1, G1, C1]
      · by_cases t3 : f.target = C8
        · simp [t3, Rs.A8, Rs.E8, Rs.D8, Rs.C8, A8, E8, D8, C8, G1, C1]
        · by_cases t4 : f.target = G8
          · simp [t4, Rs.H8, Rs.E8, Rs.F8, Rs.G8, H8, E8, F8, G8, C8, G1, C1]
          · exfalso; simp [t1, t2, t3, t4] at hr

#print axioms rs_zobrist_xor_eq

/-- the same for a model move: `zobrist_xor(mv)` is `xorOf mv.f` -/
theorem rs_zobrist_xor_move (m : Board.Move)
    (hC : m.f.castle = true → castleRook m.f.target ≠ none)
    (hE : m.f.castle = false → m.f.enPassant = true → m.f.side ≠ 0 → 8 ≤ m.f.target) :
    Rs.Bitboard.zobrist_xor m.bits Zobrist.blackToMove zCastleF zEnPassantF zPieceSquareF = some (Zobrist.xorOf m.f) :=
  rs_zobrist_xor_eq m.bits hC hE

/-! non-vacuity: a quiet knight move, and a castling word with an impossible king target panics -/
example : (decode 0x4841002).castle = false ∧ (decode 0x4841002).enPassant = false ∧ (decode 0x4841002).pieceMoved = 2 := by decide
example : Rs.Bitboard.zobrist_xor 0x4841002 Zobrist.blackToMove zCastleF zEnPassantF zPieceSquareF =
    some (Zobrist.xorOf (decode 0x4841002)) := rs_zobrist_xor_eq _ (by decide) (by decide)
example : Rs.Bitboard.zobrist_xor 0x406 7 (fun _ _ => 1) (fun _ => 2) (fun _ _ _ => 3) = none := by decide

/-! axiom audit of the remaining `rs_*` theorems of this file -/
#print axioms rs_opposite_color_eq
#print axioms rs_zobrist_xor_move

end Inkayaku.Translated
