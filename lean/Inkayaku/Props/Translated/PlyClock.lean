import Inkayaku.Gen.Rs.Board
import Inkayaku.Model.Board
import Inkayaku.Props.Translated.Basic
/-! Part of `Props/Translated`: see `Props/Translated/Basic.lean` for the overview.  One file per translated Rust source, so that a
change of one Rust function re-opens exactly the obligations (and the properties) that depend on it. -/

namespace Inkayaku.Translated
open Inkayaku.Rs Inkayaku.Board

/-! ### b. ply_clock -/
theorem rs_ply_clock_eq (b : Board) (hf : b.fullmove < 4294967296) (hno : 2 * (b.fullmove - 1) + b.turn < 4294967296) :
    Bitboard.ply_clock (b.turn : Int) (b.fullmove : Int) = some ((plyClock b : Nat) : Int) := by
  unfold Bitboard.ply_clock plyClock
  have hs : satSub .u32 (b.fullmove : Int) 1 = ((b.fullmove - 1 : Nat) : Int) := by
    simp only [satSub, Ty.lo, Ty.hi]; omega
  have k1 : chk .u32 (2 * ((b.fullmove - 1 : Nat) : Int)) = some (2 * ((b.fullmove - 1 : Nat) : Int)) := chk_u32 (by omega) (by omega)
  have k2 : chk .u32 (2 * ((b.fullmove - 1 : Nat) : Int) + (b.turn : Int)) = some (2 * ((b.fullmove - 1 : Nat) : Int) + (b.turn : Int)) :=
    chk_u32 (by omega) (by omega)
  simp only [hs, k1, k2, Option.bind_eq_bind, Option.bind_some, Option.pure_def, cast_u16_eq]
  exact congrArg some (by omega)

#print axioms rs_ply_clock_eq

/-- non-vacuity: move 1 black to move, and the largest full-move number that does not overflow -/
example : Bitboard.ply_clock 1 1 = some 1 := by decide
example : Bitboard.ply_clock 1 2147483648 = some 65535 := by decide

theorem rs_ply_clock_panics (b : Board) (hf : b.fullmove < 4294967296) (hno : ¬ 2 * (b.fullmove - 1) + b.turn < 4294967296) :
    Bitboard.ply_clock (b.turn : Int) (b.fullmove : Int) = none := by
  unfold Bitboard.ply_clock
  have hs : satSub .u32 (b.fullmove : Int) 1 = ((b.fullmove - 1 : Nat) : Int) := by
    simp only [satSub, Ty.lo, Ty.hi]; omega
  simp only [hs, Option.bind_eq_bind, Option.pure_def]
  by_cases h1 : 2 * ((b.fullmove - 1 : Nat) : Int) ≤ 4294967295
  · rw [chk_u32 (by omega) h1, Option.bind_some, chk_eq_none (by simp only [Ty.hi]; omega)]; rfl
  · rw [chk_eq_none (by simp only [Ty.hi]; omega)]; rfl

#print axioms rs_ply_clock_panics

/-- non-vacuity: `2 * (2^31 + 1 - 1)` does not fit `u32` -/
example : Bitboard.ply_clock 0 2147483649 = none := by decide


end Inkayaku.Translated
