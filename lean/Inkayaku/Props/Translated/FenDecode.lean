import Inkayaku.Model.FenBoard
import Inkayaku.Gen.Rs.FenDecode
import Inkayaku.Props.Translated.Fen
import Inkayaku.Props.Translated.MakeUnmakeCommon
import Inkayaku.Props.C12
/-! Part of `Props/Translated` (round 4, property C12): the board-level FEN DECODER.

### `FenParseExt for Fen` and `From<&Fen> for Bitboard` (board/src/board.rs) = `FenBoard.boardOfFields` (Model/FenBoard.lean)

Generated module `FenDecode`: `square_shift_from_index`, `square_mask_from_index`, `square_shift_from_fen_unchecked`
(board/src/board/constants.rs), the place methods `PlayerState::{queens_ref, bishops_ref, knights_ref}`, `Fen::parse_turn`,
`parse_en_passant_square_shift`, `parse_fullmove_clock`, `parse_halfmove_clock`, `parse_player_states` (the placement decoding,
char by char: two nested loops `Fen.parse_player_states.for_1` over the ranks / `.for_2` over the chars of a rank) and
`Bitboard.from` (`From<&Fen>`).  The `Fen` value is regenerated as the structure `Rs.Fen` (module `FenText`): the text and the BYTE
ranges of the regex groups, exactly as the Rust stores them; the getters `Fen::get_*` slice the text (`strSlice`) and supply the
defaults `"0"` / `"1"` of a four-field FEN.

`FenView fen f`: the getters of `fen` yield the fields `f` (that is what `Props/Translated/FenFromStr.lean` proves of the value
`Fen::from_str` builds).  `rs_fen_decode_eq`: for every `fen` with `FenView fen f`, `f` the fields of an ACCEPTED text
(`parseChars l = .ok f`), the translated `Bitboard::from(&fen)` does not panic and returns the six fields of the model board
`boardOfFields f`.  The hypothesis "accepted" is what rules out the panics of the Rust (`panic!()` arms, `1 << shift` with
`shift ≥ 64`, `unwrap` of the digit / clock parses; `C12.parse_no_panic_branch`); `c.is_uppercase()` is only modelled on ASCII
(`charIsUppercase`), which the grammar guarantees. -/

set_option linter.unusedSimpArgs false

namespace Inkayaku.Translated
open Inkayaku.Board Inkayaku.FenSyntax Inkayaku.FenBoard

/-! #### small facts about the mapping-table functions -/

theorem strSplit_eq (sep : Char) : ∀ l : List Char, Rs.strSplit sep l = splitOnChar sep l
  | [] => rfl
  | c :: cs => by
    by_cases h : c = sep
    · simp [Rs.strSplit, splitOnChar, strSplit_eq sep cs, h]
    · cases hs : splitOnChar sep cs <;> simp [Rs.strSplit, splitOnChar, strSplit_eq sep cs, h, hs]

theorem toDigit10_digit {c : Char} (h : FenSyntax.isAsciiDigit c = true) : Rs.toDigit10 c = some ((digitVal c : Nat) : Int) := by
  have h' := (isAsciiDigit_iff c).mp h
  simp only [Rs.toDigit10, h', and_self, if_true, digitVal]
  congr 1; omega

theorem digitVal_le {c : Char} (h : FenSyntax.isAsciiDigit c = true) : digitVal c ≤ 9 := by
  have h' := (isAsciiDigit_iff c).mp h
  simp only [digitVal]; omega

theorem isUpper_iff (c : Char) : isUpper c = true ↔ 65 ≤ c.toNat ∧ c.toNat ≤ 90 := by
  simp [isUpper, Char.le_def, ← Char.toNat_val, UInt32.le_iff_toNat_le]

theorem rs_isUppercase_ascii (c : Char) (h : c.toNat < 128) : Rs.charIsUppercase c = some (isUpper c) := by
  unfold Rs.charIsUppercase
  rw [if_pos h]
  by_cases hu : isUpper c = true
  · rw [hu]; simpa using (isUpper_iff c).mp hu
  · have : ¬ (65 ≤ c.toNat ∧ c.toNat ≤ 90) := fun x => hu ((isUpper_iff c).mpr x)
    simp only [Bool.not_eq_true] at hu
    rw [hu]; simpa using this

theorem rs_toLower_eq (c : Char) : Rs.charToAsciiLowercase c = toLower c := by
  unfold Rs.charToAsciiLowercase toLower
  by_cases hu : isUpper c = true
  · rw [if_pos ((isUpper_iff c).mp hu), if_pos hu]
  · rw [if_neg (fun x => hu ((isUpper_iff c).mpr x)), if_neg hu]

theorem rs_square_shift_from_index (file rank : Nat) (hf : file < 4294967296) (hr : rank < 4294967296) (h : file + 8 * rank < 4294967296) :
    Rs.square_shift_from_index (file : Int) (rank : Int) = some ((file + 8 * rank : Nat) : Int) := by
  unfold Rs.square_shift_from_index Rs.to_square_index_from_indices
  rw [Rs.cast_usize (by omega) (by omega), Rs.cast_usize (by omega) (by omega), Rs.chk_usize (by omega) (by omega)]
  simp only [Option.bind_eq_bind, Option.bind_some]
  rw [Rs.chk_usize (by omega) (by omega)]
  simp only [Option.bind_some, Option.pure_def]
  rw [Rs.cast_eq_self (t := Rs.Ty.u32) (by simp only [Rs.Ty.lo]; omega) (by simp only [Rs.Ty.hi]; omega)]
  congr 1; omega

theorem rs_square_mask_from_index (file rank : Nat) (h : file + 8 * rank < 64) :
    Rs.square_mask_from_index (file : Int) (rank : Int) = some (bitU (file + 8 * rank)) := by
  unfold Rs.square_mask_from_index
  rw [rs_square_shift_from_index file rank (by omega) (by omega) (by omega)]
  simp only [Option.bind_eq_bind, Option.bind_some]
  exact shl_one _ h

theorem knights_index : Rs.PlayerState.knights_ref_index = some ((2 : Nat) : Int) := by decide
theorem bishops_index : Rs.PlayerState.bishops_ref_index = some ((3 : Nat) : Int) := by decide
theorem queens_index : Rs.PlayerState.queens_ref_index = some ((5 : Nat) : Int) := by decide

/-- the `match c.to_ascii_lowercase() { 'p' => .., .. }` chain yields the index of the piece word the model names -/
theorem piece_cases {c : Char} {p : Nat} (h : pieceOfChar c = some p) :
    (toLower c = 'p' ∧ p = 1) ∨ (toLower c = 'n' ∧ p = 2) ∨ (toLower c = 'b' ∧ p = 3) ∨ (toLower c = 'r' ∧ p = 4)
      ∨ (toLower c = 'q' ∧ p = 5) ∨ (toLower c = 'k' ∧ p = 6) := by
  unfold pieceOfChar at h
  split at h <;> simp_all [Board.PAWN, Board.KNIGHT, Board.BISHOP, Board.ROOK, Board.QUEEN, Board.KING] <;> omega

theorem index_chain (lc : Char) (p : Nat)
    (h : (lc = 'p' ∧ p = 1) ∨ (lc = 'n' ∧ p = 2) ∨ (lc = 'b' ∧ p = 3) ∨ (lc = 'r' ∧ p = 4) ∨ (lc = 'q' ∧ p = 5) ∨ (lc = 'k' ∧ p = 6)) :
    (if lc = 'p' then Rs.PlayerState.pawns_ref_index
      else if lc = 'n' then Rs.PlayerState.knights_ref_index
      else if lc = 'b' then Rs.PlayerState.bishops_ref_index
      else if lc = 'r' then Rs.PlayerState.rooks_ref_index
      else if lc = 'q' then Rs.PlayerState.queens_ref_index
      else if lc = 'k' then Rs.PlayerState.kings_ref_index else none) = some ((p : Nat) : Int) := by
  rcases h with ⟨h, rfl⟩ | ⟨h, rfl⟩ | ⟨h, rfl⟩ | ⟨h, rfl⟩ | ⟨h, rfl⟩ | ⟨h, rfl⟩ <;> rw [h] <;> decide

theorem if_toRs (c : Bool) (a b : Side) : (if c = true then toRsSide a else toRsSide b) = toRsSide (if c then a else b) := by
  cases c <;> rfl

/-! #### the loop over the chars of one rank -/

theorem rs_place_rank (idx : Nat) (hidx : idx < 8) :
    ∀ (r : List Char) (file : Nat) (w bl : Side),
      (∀ c ∈ r, c.toNat < 128) → C12.rankSafe idx r file = true → file + 9 * r.length ≤ 1000 →
      Rs.Fen.parse_player_states.for_2 (idx : Int) r (toRsSide w) (toRsSide bl) (file : Int) =
        some (toRsSide (placeRank idx r file (w, bl)).1, toRsSide (placeRank idx r file (w, bl)).2,
          ((file + rankCount r : Nat) : Int)) := by
  intro r
  induction r with
  | nil =>
    intro file w bl _ _ _
    simp [Rs.Fen.parse_player_states.for_2, placeRank, rankCount]
  | cons c cs rs_place_rank_ih =>
    intro file w bl hascii hsafe hlen
    have rs_place_rank := fun (_ : Nat) (_ : idx < 8) (_ : List Char) => rs_place_rank_ih
    have hc : c.toNat < 128 := hascii c (by simp)
    have hcs : ∀ x ∈ cs, x.toNat < 128 := fun x hx => hascii x (by simp [hx])
    simp only [List.length_cons] at hlen
    rw [Rs.Fen.parse_player_states.for_2, rs_isAsciiDigit_eq]
    by_cases hd : FenSyntax.isAsciiDigit c = true
    · -- a digit: advance the file
      rw [C12.rankSafe, if_pos hd] at hsafe
      have hv := digitVal_le hd
      have ih := rs_place_rank idx hidx cs (file + digitVal c) w bl hcs hsafe (by omega)
      simp only [hd, if_true, toDigit10_digit hd, Option.bind_eq_bind, Option.bind_some, Option.pure_def]
      rw [Rs.chk_u32 (by omega) (by omega)]
      simp only [Option.bind_some]
      have e : ((file : Int) + ((digitVal c : Nat) : Int)) = ((file + digitVal c : Nat) : Int) := by omega
      rw [e, ih, placeRank, if_pos hd, FenRoundtrip.rankCount_cons, if_pos hd]
      congr 3; omega
    · -- a piece letter
      rw [C12.rankSafe, if_neg hd] at hsafe
      cases hp : pieceOfChar c with
      | none => rw [hp] at hsafe; cases hsafe
      | some p =>
        rw [hp] at hsafe
        simp only [Bool.and_eq_true, decide_eq_true_eq] at hsafe
        obtain ⟨hsq, hsafe⟩ := hsafe
        have ih := fun w' bl' => rs_place_rank idx hidx cs (file + 1) w' bl' hcs hsafe (by omega)
        have hmask : Rs.square_mask_from_index (file : Int) (Rs.cast .u32 (idx : Int)) = some (bitU (file + 8 * idx)) := by
          rw [Rs.cast_eq_self (t := Rs.Ty.u32) (by simp only [Rs.Ty.lo]; omega) (by simp only [Rs.Ty.hi]; omega)]
          exact rs_square_mask_from_index file idx hsq
        have hp7 : p < 7 := by rcases piece_cases hp with h | h | h | h | h | h <;> omega
        simp only [Bool.not_eq_true] at hd
        rw [if_neg (show ¬ (isAsciiDigit c = true) by simp [hd]), rs_isUppercase_ascii c hc]
        simp only [Option.bind_eq_bind, Option.bind_some, Option.pure_def]
        rw [rs_toLower_eq, index_chain (toLower c) p (piece_cases hp)]
        have e : ((file : Int) + 1) = ((file + 1 : Nat) : Int) := by omega
        rw [placeRank, if_neg (show ¬ (isAsciiDigit c = true) by simp [hd]), hp, FenRoundtrip.rankCount_cons,
          if_neg (show ¬ (isAsciiDigit c = true) by simp [hd])]
        cases hu : isUpper c
        · simp only [Bool.false_eq_true, if_false, Option.bind_some]
          rw [side_idx _ p hp7]
          simp only [Option.bind_some]
          rw [hmask]
          simp only [Option.bind_some]
          rw [side_set _ p hp7]
          rw [Rs.chk_u32 (by omega) (by omega)]
          simp only [Option.bind_some]
          rw [side_with_occ bl p _]
          rw [e, ih]
          congr 3
          omega
        · simp only [if_true, Option.bind_some]
          rw [side_idx _ p hp7]
          simp only [Option.bind_some]
          rw [hmask]
          simp only [Option.bind_some]
          rw [side_set _ p hp7]
          rw [Rs.chk_u32 (by omega) (by omega)]
          simp only [Option.bind_some]
          rw [side_with_occ w p _]
          rw [e, ih]
          congr 3
          omega

/-! #### the loop over the ranks -/

theorem rs_place_ranks : ∀ (rs : List (List Char)) (idx : Nat) (w bl : Side),
    idx + rs.length ≤ 8 → (∀ r ∈ rs, (∀ c ∈ r, c.toNat < 128) ∧ 9 * r.length ≤ 1000) → C12.ranksSafe rs idx = true →
    Rs.Fen.parse_player_states.for_1 (Rs.iterEnumerateFrom (idx : Int) rs) (toRsSide w) (toRsSide bl) =
      some (toRsSide (placeRanks rs idx (w, bl)).1, toRsSide (placeRanks rs idx (w, bl)).2) := by
  intro rs
  induction rs with
  | nil =>
    intro idx w bl _ _ _
    simp [Rs.iterEnumerateFrom, Rs.Fen.parse_player_states.for_1, placeRanks]
  | cons r rs ih =>
    intro idx w bl hlen hall hsafe
    simp only [List.length_cons] at hlen
    rw [C12.ranksSafe, Bool.and_eq_true] at hsafe
    have hr := hall r (by simp)
    rw [Rs.iterEnumerateFrom, Rs.Fen.parse_player_states.for_1]
    have z : ((0 : Nat) : Int) = 0 := rfl
    simp only [Option.bind_eq_bind]
    rw [← z, rs_place_rank idx (by omega) r 0 w bl hr.1 hsafe.1 (by omega)]
    simp only [Option.bind_some]
    have e : ((idx : Int) + 1) = ((idx + 1 : Nat) : Int) := by omega
    rw [e, ih (idx + 1) _ _ (by omega) (fun x hx => hall x (List.mem_cons_of_mem _ hx)) hsafe.2, placeRanks]

/-! #### `parse_player_states` -/

theorem default_side : ({ occupancy := List.replicate 7 (0 : UInt64), queen_side_castle := false, king_side_castle := false } : Rs.PlayerState)
    = toRsSide ({} : Side) := rfl

/-- **the placement decoding**: on a placement whose ranks are ASCII, at most eight and `ranksSafe` (all guaranteed by the
grammar), `parse_player_states` yields the two sides of the model with the castling flags read off the castling field -/
theorem rs_parse_player_states_eq (fen : List Char) (pr cr : Int × Int) (pl k : List Char)
    (hp : Rs.Fen.get_piece_placement fen pr = some pl) (hk : Rs.Fen.get_castling_availability fen cr = some k)
    (hlen : (splitOnChar '/' pl).length ≤ 8)
    (hall : ∀ r ∈ splitOnChar '/' pl, (∀ c ∈ r, c.toNat < 128) ∧ 9 * r.length ≤ 1000)
    (hsafe : C12.ranksSafe (splitOnChar '/' pl) 0 = true) :
    Rs.Fen.parse_player_states fen pr cr =
      some (toRsSide { (placeRanks (splitOnChar '/' pl) 0 ({}, {})).1 with qs := k.contains 'Q', ks := k.contains 'K' },
            toRsSide { (placeRanks (splitOnChar '/' pl) 0 ({}, {})).2 with qs := k.contains 'q', ks := k.contains 'k' }) := by
  unfold Rs.Fen.parse_player_states
  rw [hp, hk]
  simp only [Option.bind_eq_bind, Option.bind_some, Option.pure_def, default_side, strSplit_eq, Rs.iterEnumerate]
  have z : (0 : Int) = ((0 : Nat) : Int) := rfl
  rw [z, rs_place_ranks _ 0 _ _ (by omega) hall hsafe]
  simp only [Option.bind_some]
  rfl

/-! #### side to move, e.p. square, clocks -/

theorem rs_parse_turn_eq (fen : List Char) (ar : Int × Int) (c : Char) (h : Rs.Fen.get_active_color fen ar = some [c])
    (hc : c = 'b' ∨ c = 'w') : Rs.Fen.parse_turn fen ar = some (((if c = 'b' then 1 else 0 : Nat)) : Int) := by
  unfold Rs.Fen.parse_turn
  rw [h]
  rcases hc with rfl | rfl <;> decide

theorem strLen_two (a b : Char) (ha : a.toNat < 128) (hb : b.toNat < 128) : Rs.strLen [a, b] = 2 := by
  rw [rs_strLen_ascii [a, b] (by intro c hc; simp at hc; rcases hc with rfl | rfl <;> assumption)]
  rfl

theorem char_le_iff (a b : Char) : a ≤ b ↔ a.toNat ≤ b.toNat := by
  simp [Char.le_def, ← Char.toNat_val, UInt32.le_iff_toNat_le]

theorem rs_square_shift_from_fen (fl rk : Char) (h1 : 'a' ≤ fl) (h2 : fl ≤ 'h') (hd : FenSyntax.isAsciiDigit rk = true)
    (hr1 : 1 ≤ digitVal rk) (hr8 : digitVal rk ≤ 8) :
    Rs.square_shift_from_fen_unchecked [fl, rk] = some ((squareOfName [fl, rk] : Nat) : Int) := by
  have hf1 : 97 ≤ fl.toNat := (char_le_iff 'a' fl).mp h1
  have hf2 : fl.toNat ≤ 104 := (char_le_iff fl 'h').mp h2
  have hrk := (isAsciiDigit_iff rk).mp hd
  unfold Rs.square_shift_from_fen_unchecked
  rw [strLen_two fl rk (by omega) (by omega)]
  simp only [Rs.rsAssert, decide_true, if_true, Option.bind_eq_bind, Option.bind_some, Rs.iterNext, Rs.ofChar, toDigit10_digit hd]
  rw [Rs.cast_eq_self (t := Rs.Ty.u8) (by simp only [Rs.Ty.lo]; omega) (by simp only [Rs.Ty.hi]; omega)]
  rw [Rs.chk_eq_some (t := Rs.Ty.u8) (by simp only [Rs.Ty.lo]; omega) (by simp only [Rs.Ty.hi]; omega)]
  simp only [Option.bind_some]
  rw [Rs.cast_eq_self (t := Rs.Ty.u32) (by simp only [Rs.Ty.lo]; omega) (by simp only [Rs.Ty.hi]; omega)]
  rw [Rs.chk_u32 (by omega) (by omega)]
  simp only [Option.bind_some]
  have e1 : ((fl.toNat : Int) - 97) = ((fl.toNat - 97 : Nat) : Int) := by omega
  have e2 : ((8 : Int) - ((digitVal rk : Nat) : Int)) = ((8 - digitVal rk : Nat) : Int) := by omega
  rw [e1, e2, rs_square_shift_from_index _ _ (by omega) (by omega) (by omega)]
  rfl

theorem rs_parse_ep_eq (fen : List Char) (er : Int × Int) (e : List Char) (h : Rs.Fen.get_en_passant_target_square fen er = some e)
    (he : e = ['-'] ∨ ∃ fl rk, e = [fl, rk] ∧ 'a' ≤ fl ∧ fl ≤ 'h' ∧ FenSyntax.isAsciiDigit rk = true ∧ 1 ≤ digitVal rk ∧ digitVal rk ≤ 8) :
    Rs.Fen.parse_en_passant_square_shift fen er = some (((if e = ['-'] then 0 else squareOfName e : Nat)) : Int) := by
  unfold Rs.Fen.parse_en_passant_square_shift
  rw [h]
  simp only [Option.bind_eq_bind, Option.bind_some]
  rcases he with rfl | ⟨fl, rk, rfl, h1, h2, hd, hr1, hr8⟩
  · rfl
  · have hne : ¬ ([fl, rk] = ['-']) := by simp
    rw [if_neg hne, if_neg hne]
    exact rs_square_shift_from_fen fl rk h1 h2 hd hr1 hr8

theorem stripPlus_digits (s : List Char) (hall : s.all FenSyntax.isAsciiDigit = true) : Rs.stripPlus s = s := by
  cases s with
  | nil => rfl
  | cons c cs =>
    have hc : FenSyntax.isAsciiDigit c = true := by simp only [List.all_cons, Bool.and_eq_true] at hall; exact hall.1
    by_cases h : c = '+'
    · subst h; exact absurd hc (by decide)
    · unfold Rs.stripPlus; split <;> simp_all

theorem parseU32_clock (s : List Char) (h : clockOk s = true) : Rs.parseU32 s = some ((decimalValue s : Nat) : Int) := by
  simp only [clockOk, Bool.and_eq_true, Bool.not_eq_true', decide_eq_true_eq] at h
  obtain ⟨⟨hne, hall⟩, hv⟩ := h
  unfold Rs.parseU32
  simp only [stripPlus_digits s hall]
  have hall' : s.all Rs.isAsciiDigit = true := by
    rw [List.all_eq_true] at hall ⊢
    intro x hx; rw [rs_isAsciiDigit_eq]; exact hall x hx
  rw [hall', hne]
  have hfold : s.foldl (fun acc c => 10 * acc + (c.toNat - 48)) 0 = decimalValue s := rfl
  simp only [Bool.false_or, Bool.not_true, Bool.false_eq_true, if_false, hfold]
  rw [if_pos (by omega)]

/-! #### `Bitboard::from(&Fen)` -/

/-- the getters of the Rust `Fen` value yield the fields `f` (the clocks as TEXT that passed the `u32` check: the captured
groups, or the defaults `"0"` / `"1"` of a four-field FEN) -/
structure FenView (fen : Rs.Fen) (f : FenFields) : Prop where
  placement : Rs.Fen.get_piece_placement fen.fen fen.piece_placement = some f.placement
  side : Rs.Fen.get_active_color fen.fen fen.active_color = some [f.side]
  castling : Rs.Fen.get_castling_availability fen.fen fen.castling_availability = some f.castling
  ep : Rs.Fen.get_en_passant_target_square fen.fen fen.en_passant_target_square = some f.ep
  half : ∃ hs, Rs.Fen.get_halfmove_clock fen.fen fen.halfmove_clock = some hs ∧ clockOk hs = true ∧ decimalValue hs = f.half
  full : ∃ fs, Rs.Fen.get_fullmove_clock fen.fen fen.fullmove_clock = some fs ∧ clockOk fs = true ∧ decimalValue fs = f.full

theorem placement_char_ascii {c : Char} (h : isPlacementChar c = true) : c.toNat < 128 := by
  have hm : c ∈ "PNBRQKpnbrqk12345678".toList := by simpa [isPlacementChar] using h
  have : ∀ c ∈ "PNBRQKpnbrqk12345678".toList, c.toNat < 128 := by decide
  exact this c hm

/-- what the grammar guarantees about the fields of an accepted text (everything the decoder can panic on) -/
theorem accepted_facts {l : List Char} {f : FenFields} (h : parseChars l = .ok f) :
    (splitOnChar '/' f.placement).length ≤ 8
    ∧ (∀ r ∈ splitOnChar '/' f.placement, (∀ c ∈ r, c.toNat < 128) ∧ 9 * r.length ≤ 1000)
    ∧ C12.ranksSafe (splitOnChar '/' f.placement) 0 = true
    ∧ (f.side = 'b' ∨ f.side = 'w')
    ∧ (f.ep = ['-'] ∨ ∃ fl rk, f.ep = [fl, rk] ∧ 'a' ≤ fl ∧ fl ≤ 'h' ∧ FenSyntax.isAsciiDigit rk = true ∧ 1 ≤ digitVal rk
        ∧ digitVal rk ≤ 8) := by
  obtain ⟨h1, h2, h3, _, _, _⟩ := FenRoundtrip.parseChars_ok h
  have hr := FenRoundtrip.placement_ok h1 h2
  have hs : FenSyntax.parse (String.ofList l) = .ok f ∨ True := .inr trivial
  have hshape := h1
  simp only [placementShapeOk, Bool.and_eq_true, beq_iff_eq, List.all_eq_true] at hshape
  refine ⟨by omega, fun r hr' => ⟨fun c hc => ?_, ?_⟩, ?_, h3, ?_⟩
  · have := (hr.2 r hr').1
    rw [List.all_eq_true] at this
    exact placement_char_ascii (this c hc)
  · have := hshape.2 r hr'
    simp only [rankShapeOk, Bool.and_eq_true, decide_eq_true_eq] at this
    omega
  · exact C12.ranksSafe_of _ 0 (by omega) (fun r hr' => ⟨(hr.2 r hr').1, (hr.2 r hr').2.1⟩)
  · by_cases hst : String.ofList l = "startpos"
    · -- the alias is not a FEN text itself; `parseChars "startpos"` is an error
      have : l = "startpos".toList := by rw [← hst]; simp
      have e : parseChars "startpos".toList = .error .capture := by rfl
      rw [this, e] at h
      cases h
    · have hp : FenSyntax.parse (String.ofList l) = .ok f := by
        unfold FenSyntax.parse; rw [if_neg hst]; simpa using h
      exact (C12.parse_no_panic_branch hp).2.2.1

/-- **`Bitboard::from(&Fen)` (translated) = the model decoder `boardOfFields`**, for the `Fen` value of an accepted text:
no panic, and the six fields of the resulting `Bitboard` are those of the model board. -/
theorem rs_fen_decode_eq (fen : Rs.Fen) (f : FenFields) (l : List Char) (hacc : parseChars l = .ok f) (hview : FenView fen f) :
    Rs.Bitboard.from fen = some (boardFields (boardOfFields f)) := by
  obtain ⟨hlen, hall, hsafe, hside, hep⟩ := accepted_facts hacc
  obtain ⟨hs, hh1, hh2, hh3⟩ := hview.half
  obtain ⟨fs, hf1, hf2, hf3⟩ := hview.full
  unfold Rs.Bitboard.from
  rw [rs_parse_player_states_eq _ _ _ _ _ hview.placement hview.castling hlen hall hsafe,
    rs_parse_turn_eq _ _ _ hview.side hside, rs_parse_ep_eq _ _ _ hview.ep hep]
  unfold Rs.Fen.parse_fullmove_clock Rs.Fen.parse_halfmove_clock
  rw [hh1, hf1]
  simp only [Option.bind_eq_bind, Option.bind_some, Option.pure_def, parseU32_clock _ hh2, parseU32_clock _ hf2, hh3, hf3]
  rfl

/-- the same for the model's `fromFenString` (a text other than the alias `startpos`) -/
theorem rs_fen_decode_fromFenString (fen : Rs.Fen) (s : String) (f : FenFields) (hs : s ≠ "startpos")
    (hp : FenSyntax.parse s = .ok f) (hview : FenView fen f) :
    ∃ b, fromFenString s = .ok b ∧
      Rs.Bitboard.from fen = some (boardFields b) := by
  refine ⟨boardOfFields f, by simp [fromFenString, hp], ?_⟩
  have : parseChars s.toList = .ok f := by unfold FenSyntax.parse at hp; rwa [if_neg hs] at hp
  exact rs_fen_decode_eq fen f _ this hview

#print axioms rs_fen_decode_eq
#print axioms rs_fen_decode_fromFenString
#print axioms rs_parse_player_states_eq
#print axioms rs_place_rank
#print axioms rs_place_ranks
#print axioms rs_parse_turn_eq
#print axioms rs_parse_ep_eq
#print axioms rs_square_shift_from_fen
#print axioms rs_square_mask_from_index
#print axioms rs_isUppercase_ascii

/-! non-vacuity: the `Fen` value of a six-field text (byte ranges as the regex reports them) and of a four-field text -/
def exFen : Rs.Fen :=
  { fen := "r3k2r/8/8/3pP3/8/8/8/R3K2R w Kq d6 4000000000 4294967295".toList, piece_placement := (0, 26), active_color := (27, 28),
    castling_availability := (29, 31), en_passant_target_square := (32, 34), halfmove_clock := some (35, 45), fullmove_clock := some (46, 56) }
def exFen4 : Rs.Fen :=
  { fen := "4k3/8/8/8/8/8/8/4K3 b - -".toList, piece_placement := (0, 19), active_color := (20, 21),
    castling_availability := (22, 23), en_passant_target_square := (24, 25), halfmove_clock := none, fullmove_clock := none }

example : Rs.Bitboard.from exFen = some (boardFields C12.exBoard) := by decide +kernel
def exFields : FenFields :=
  { placement := "r3k2r/8/8/3pP3/8/8/8/R3K2R".toList, side := 'w', castling := "Kq".toList, ep := "d6".toList, hasClocks := true,
    half := 4000000000, full := 4294967295 }
example : parseChars exFen.fen = .ok exFields ∧ FenView exFen exFields :=
  ⟨by rfl, ⟨by decide +kernel, by decide +kernel, by decide +kernel, by decide +kernel,
    ⟨"4000000000".toList, by decide +kernel, by decide +kernel, by decide +kernel⟩,
    ⟨"4294967295".toList, by decide +kernel, by decide +kernel, by decide +kernel⟩⟩⟩
example : (Rs.Bitboard.from exFen4).map (fun r => (r.2.2.1, r.2.2.2.2.1, r.2.2.2.2.2))
      = some (1, 1, 0) := by decide +kernel
/-- a slice that is out of range is a PANIC of the getter (`&self.fen[a..b]`), not a wrong answer -/
example : Rs.Fen.get_piece_placement "8/8".toList (0, 9) = none := by decide

end Inkayaku.Translated
