import Inkayaku.Model.FenSyntax
import Inkayaku.Gen.Rs.FenFromStr
import Inkayaku.Props.Translated.Fen
import Inkayaku.Props.Translated.FenDecode
/-! Part of `Props/Translated` (round 4, property C12): `Fen::from_str` without the regex.

### `Fen::validate_ranks`, `impl FromStr for Fen` (core/src/fen.rs) = `FenSyntax.parseChars` (Model/FenSyntax.lean)

Generated module `FenFromStr`.  The regex match `Fen::parse` (`FEN_REGEX.captures`), `Captures::get` and `Match::range` are OPAQUE
function parameters; what they are assumed to deliver is `RegexModel` below — the hand translation `FenSyntax.regexGroups` of the
regex (trusted base of C12): the match fails exactly when `regexGroups` is `none`, and otherwise the groups 1–4 (and 5, 6 if present) are
BYTE ranges of the text that slice to the fields.  Everything else of `from_str` is translated: the alias `"startpos"`, the rank
validation (`validate_ranks` = lazy `map(validate_rank).find(is_err)`), the two clock checks `parse::<u32>().is_err()` added by the fix
13677a5, and the construction of the `Fen` value (text + ranges; the defaults of a four-field FEN are supplied by the getters).

`rs_fen_from_str_eq`: under `RegexModel`, for every text `s` other than the alias, the translated `from_str` does not panic and
returns an error of the kind the model `parseChars s` reports, or a `Fen` value whose getters yield exactly the fields of the model
(`FenView`, the hypothesis of `rs_fen_decode_eq`). -/

set_option linter.unusedSimpArgs false

namespace Inkayaku.Translated
open Inkayaku.Board Inkayaku.FenSyntax

/-! #### fuel monotonicity of the loop of `validate_rank` (`validate_ranks` passes ONE fuel value to every rank) -/

theorem validate_rank_for_mono (rank chars : List Char) (e : Int) :
    ∀ (fuel : Nat) (i : Int) (x : Rs.Ctl (Except Rs.FenParseError Unit) Int),
      Rs.Fen.validate_rank.for_1 rank chars e fuel i = some x → Rs.Fen.validate_rank.for_1 rank chars e (fuel + 1) i = some x := by
  intro fuel
  induction fuel with
  | zero => intro i x h; simp [Rs.Fen.validate_rank.for_1] at h
  | succ n ih =>
    intro i x h
    rw [Rs.Fen.validate_rank.for_1] at h ⊢
    by_cases hi : i < e
    · rw [if_pos hi] at h ⊢
      simp only [Option.bind_eq_bind] at h ⊢
      cases hv : Rs.vecIdx chars i with
      | none => rw [hv] at h; simp at h
      | some c =>
        rw [hv] at h
        simp only [Option.bind_some, Option.pure_def] at h ⊢
        generalize (if Rs.isAsciiDigit c = true then
            (Rs.chk Rs.Ty.usize (i + 1)).bind fun j => (Rs.vecIdx chars j).bind fun d => some (Rs.isAsciiDigit d)
          else some false : Option Bool) = A at h ⊢
        cases A with
        | none => simp at h
        | some b =>
          cases b with
          | false => simp only [Option.bind_some, Bool.false_eq_true, if_false] at h ⊢; exact ih _ _ h
          | true => simpa using h
    · rw [if_neg hi] at h ⊢; exact h

theorem validate_rank_for_mono_k (rank chars : List Char) (e : Int) (fuel : Nat) (i : Int)
    (x : Rs.Ctl (Except Rs.FenParseError Unit) Int) (h : Rs.Fen.validate_rank.for_1 rank chars e fuel i = some x) :
    ∀ k, Rs.Fen.validate_rank.for_1 rank chars e (fuel + k) i = some x
  | 0 => h
  | k + 1 => validate_rank_for_mono rank chars e (fuel + k) i x (validate_rank_for_mono_k rank chars e fuel i x h k)

theorem validate_rank_mono (r : List Char) (fuel k : Nat) (y : Except Rs.FenParseError Unit)
    (h : Rs.Fen.validate_rank r fuel = some y) : Rs.Fen.validate_rank r (fuel + k) = some y := by
  unfold Rs.Fen.validate_rank at h ⊢
  cases hs : Rs.iterSum .u32 (r.map (fun c => (Rs.toDigit10 c).getD 1)) with
  | none => rw [hs] at h; simp at h
  | some count =>
    rw [hs] at h
    simp only [Option.bind_eq_bind, Option.bind_some] at h ⊢
    by_cases hc : count ≠ 8
    · rw [if_pos hc] at h ⊢; exact h
    · rw [if_neg hc] at h ⊢
      cases he : Rs.chk .usize (Rs.strLen r - 1) with
      | none => rw [he] at h; simp at h
      | some e =>
        rw [he] at h
        simp only [Option.bind_some] at h ⊢
        cases hf : Rs.Fen.validate_rank.for_1 r r e fuel 0 with
        | none => rw [hf] at h; simp at h
        | some x =>
          rw [hf] at h
          rw [validate_rank_for_mono_k r r e fuel 0 x hf k]
          exact h

/-- `validate_rank` with any sufficient fuel -/
theorem rs_validate_rank_fuel (r : List Char) (hascii : ∀ c ∈ r, c.toNat < 128) (hlen : r.length ≤ 400000000) (fuel : Nat)
    (hf : r.length ≤ fuel) : Rs.Fen.validate_rank r fuel = some (rankResult r) := by
  obtain ⟨k, rfl⟩ : ∃ k, fuel = r.length + k := ⟨fuel - r.length, by omega⟩
  exact validate_rank_mono r r.length k _ (rs_validate_rank_eq r hascii hlen)

/-! #### `validate_ranks` -/

/-- the result of the Rust `validate_ranks` for a model verdict: the error of the FIRST offending rank -/
def ranksResult (p : List Char) : Except Rs.FenParseError Unit :=
  match (splitOnChar '/' p).find? (fun r => (validateRank r).isSome) with
  | some r => rankResult r
  | none => .ok ()

theorem rankResult_isErr (r : List Char) : Rs.resIsErr (rankResult r) = (validateRank r).isSome := by
  unfold rankResult
  cases h : validateRank r with
  | none => rfl
  | some e =>
    cases e with
    | capture => simp [validateRank] at h; split at h <;> simp_all
    | count => rfl
    | concurrent => rfl

theorem rs_map_find (fuel : Nat) : ∀ (rs : List (List Char)),
    (∀ r ∈ rs, (∀ c ∈ r, c.toNat < 128) ∧ r.length ≤ fuel ∧ r.length ≤ 400000000) →
    Rs.iterMapFind (fun x => Rs.Fen.validate_rank x fuel) Rs.resIsErr rs =
      some ((rs.find? (fun r => (validateRank r).isSome)).map rankResult)
  | [], _ => rfl
  | r :: rs, h => by
    have hr := h r (by simp)
    rw [Rs.iterMapFind, rs_validate_rank_fuel r hr.1 hr.2.2 fuel hr.2.1]
    simp only [Option.bind_some, rankResult_isErr, List.find?_cons]
    cases hv : (validateRank r).isSome with
    | true => simp
    | false =>
      simp only [Bool.false_eq_true, if_false]
      exact rs_map_find fuel rs (fun x hx => h x (List.mem_cons_of_mem _ hx))

/-- **`Fen::validate_ranks` (translated)**: the verdict of the first offending rank (ASCII ranks no longer than the fuel) -/
theorem rs_validate_ranks_eq (p : List Char) (fuel : Nat)
    (h : ∀ r ∈ splitOnChar '/' p, (∀ c ∈ r, c.toNat < 128) ∧ r.length ≤ fuel ∧ r.length ≤ 400000000) :
    Rs.Fen.validate_ranks p fuel = some (ranksResult p) := by
  unfold Rs.Fen.validate_ranks ranksResult
  rw [strSplit_eq, rs_map_find fuel _ h]
  simp only [Option.bind_eq_bind, Option.bind_some, Option.pure_def]
  cases (splitOnChar '/' p).find? (fun r => (validateRank r).isSome) <;> rfl

theorem ranksResult_ok_iff (p : List Char) : ranksResult p = .ok () ↔ validateRanks p = none := by
  unfold ranksResult validateRanks
  induction splitOnChar '/' p with
  | nil => simp
  | cons r rs ih =>
    simp only [List.find?_cons, List.findSome?_cons]
    cases hv : validateRank r with
    | none => simpa using ih
    | some e =>
      simp only [Option.isSome_some, if_true]
      have : Rs.resIsErr (rankResult r) = true := by rw [rankResult_isErr, hv]; rfl
      constructor
      · intro h; rw [h] at this; cases this
      · intro h; cases h

/-! #### `from_str` -/

/-- the kind of a Rust error (the model's `FenErr` has no payloads) -/
def errKind : Rs.FenParseError → FenErr
  | .ConcurrentNumbers _ => .concurrent
  | .IllegalNumberOfGroups _ => .capture
  | .InvalidCapture _ => .capture
  | .RankWithInvalidPieceCount _ _ => .count

/-- group `i` of the match is present and its byte range slices the text to `x` -/
def groupIs {C M : Type} (get : C → Int → Option M) (range : M → Int × Int) (s : List Char) (caps : C) (i : Int) (x : List Char) : Prop :=
  ∃ m, get caps i = some m ∧ Rs.strSlice s (range m).1 (range m).2 = some x

/-- MAPPING ASSUMPTION for the opaque regex match (`Fen::parse` = `FEN_REGEX.captures`, `Captures::get`, `Match::range`): it behaves
like the hand translation `regexGroups` of the regex — no match exactly when `regexGroups` is `none` (the error carries the text),
otherwise groups 1–4 are present, groups 5 and 6 are present iff the text has clocks, and every group is a byte range of the text
slicing to the field. -/
structure RegexModel {C M : Type} (parse : List Char → Except Rs.FenParseError C) (get : C → Int → Option M)
    (range : M → Int × Int) : Prop where
  reject : ∀ s, regexGroups s = none → parse s = .error (.InvalidCapture s)
  accept : ∀ s p c k e cl, regexGroups s = some (p, c, k, e, cl) → ∃ caps, parse s = .ok caps ∧
    groupIs get range s caps 1 p ∧ groupIs get range s caps 2 [c] ∧ groupIs get range s caps 3 k ∧ groupIs get range s caps 4 e ∧
    (match cl with
     | none => get caps 5 = none ∧ get caps 6 = none
     | some (h, f) => groupIs get range s caps 5 h ∧ groupIs get range s caps 6 f)

theorem regexGroups_some {s p : List Char} {c : Char} {k e : List Char} {cl : Option (List Char × List Char)}
    (h : regexGroups s = some (p, c, k, e, cl)) :
    placementShapeOk p = true ∧
      (match cl with
       | none => True
       | some (hh, f) => hh.isEmpty = false ∧ hh.all FenSyntax.isAsciiDigit = true ∧ f.isEmpty = false ∧ f.all FenSyntax.isAsciiDigit = true) := by
  unfold regexGroups at h
  split at h
  · split at h
    · rename_i hc
      simp only [Option.some.injEq, Prod.mk.injEq] at h
      obtain ⟨rfl, rfl, rfl, rfl, rfl⟩ := h
      simp only [Bool.and_eq_true] at hc
      exact ⟨hc.1.1.1, trivial⟩
    · cases h
  · split at h
    · rename_i hc
      simp only [Option.some.injEq, Prod.mk.injEq] at h
      obtain ⟨rfl, rfl, rfl, rfl, rfl⟩ := h
      simp only [Bool.and_eq_true, Bool.not_eq_true'] at hc
      exact ⟨hc.1.1.1.1.1.1.1, hc.1.1.1.2, hc.1.1.2, hc.1.2, hc.2⟩
    · cases h
  · cases h

theorem ranksResult_err (p : List Char) (e : FenErr) (h : validateRanks p = some e) :
    ∃ err, ranksResult p = .error err ∧ errKind err = e := by
  unfold ranksResult
  unfold validateRanks at h
  generalize splitOnChar '/' p = l at h ⊢
  induction l with
  | nil => simp at h
  | cons r rs ih =>
    simp only [List.find?_cons, List.findSome?_cons] at h ⊢
    cases hv : validateRank r with
    | none => rw [hv] at h; simpa using ih h
    | some e' =>
      rw [hv] at h
      simp only [Option.some.injEq] at h
      subst h
      simp only [Option.isSome_some]
      unfold rankResult
      rw [hv]
      cases e' with
      | capture => simp [validateRank] at hv; split at hv <;> simp_all
      | count => exact ⟨_, rfl, rfl⟩
      | concurrent => exact ⟨_, rfl, rfl⟩

theorem parseU32_digits (s : List Char) (hne : s.isEmpty = false) (hall : s.all FenSyntax.isAsciiDigit = true) :
    (Rs.parseU32 s).isNone = !clockOk s := by
  by_cases hc : clockOk s = true
  · rw [parseU32_clock s hc, hc]; rfl
  · simp only [Bool.not_eq_true] at hc
    rw [hc]
    have hv : ¬ decimalValue s < 4294967296 := by
      intro hv; simp [clockOk, hne, hall, hv] at hc
    unfold Rs.parseU32
    simp only [stripPlus_digits s hall]
    have hall' : s.all Rs.isAsciiDigit = true := by
      rw [List.all_eq_true] at hall ⊢
      intro x hx; rw [rs_isAsciiDigit_eq]; exact hall x hx
    rw [hall', hne]
    have hfold : s.foldl (fun acc c => 10 * acc + (c.toNat - 48)) 0 = decimalValue s := rfl
    simp only [Bool.false_or, Bool.not_true, Bool.false_eq_true, if_false, hfold]
    rw [if_neg (by omega)]
    rfl

theorem group_map {C M : Type} {get : C → Int → Option M} {range : M → Int × Int} {s : List Char} {caps : C} {i : Int} {x : List Char}
    (h : groupIs get range s caps i x) :
    ∃ r, (get caps i).map (fun m => range m) = some r ∧ Rs.strSlice s r.1 r.2 = some x := by
  obtain ⟨m, h1, h2⟩ := h
  exact ⟨range m, by rw [h1]; rfl, h2⟩

/-- the alias -/
theorem rs_fen_from_str_startpos {C M : Type} (parse : List Char → Except Rs.FenParseError C) (get : C → Int → Option M)
    (range : M → Int × Int) (dflt : Rs.Fen) (fuel : Nat) :
    Rs.Fen.from_str "startpos".toList dflt parse get range fuel = some (.ok dflt) := by
  unfold Rs.Fen.from_str
  rw [if_pos (by decide)]
  rfl

/-- **`Fen::from_str` (translated) = the model `parseChars`** for every text other than the alias `startpos`, the regex match
being the opaque `parse` / `get` / `range` assumed to behave like `regexGroups` (`RegexModel`): no panic; an error of the kind the
model reports, or a `Fen` value with the text and the fields of the model (`FenView`). -/
theorem rs_fen_from_str_eq {C M : Type} (parse : List Char → Except Rs.FenParseError C) (get : C → Int → Option M)
    (range : M → Int × Int) (hm : RegexModel parse get range) (dflt : Rs.Fen) (s : List Char) (hs : s ≠ "startpos".toList)
    (fuel : Nat) (hfuel : 8 ≤ fuel) :
    ∃ r, Rs.Fen.from_str s dflt parse get range fuel = some r ∧
      (match parseChars s with
       | .error e => ∃ err, r = .error err ∧ errKind err = e
       | .ok f => ∃ fen, r = .ok fen ∧ fen.fen = s ∧ FenView fen f) := by
  unfold Rs.Fen.from_str
  rw [if_neg (show ¬ s = ['s', 't', 'a', 'r', 't', 'p', 'o', 's'] from hs)]
  simp only []
  unfold parseChars
  cases hg : regexGroups s with
  | none =>
    rw [hm.reject s hg]
    exact ⟨_, rfl, _, rfl, rfl⟩
  | some g =>
    obtain ⟨p, c, k, e, cl⟩ := g
    obtain ⟨caps, hparse, g1, g2, g3, g4, g56⟩ := hm.accept s p c k e cl hg
    obtain ⟨hshape, hcl⟩ := regexGroups_some hg
    obtain ⟨r1, m1, s1⟩ := group_map g1
    obtain ⟨r2, m2, s2⟩ := group_map g2
    obtain ⟨r3, m3, s3⟩ := group_map g3
    obtain ⟨r4, m4, s4⟩ := group_map g4
    rw [hparse]
    simp only [m1, Rs.optMapM, s1, Option.map_some, Option.bind_eq_bind, Option.bind_some]
    have hranks : ∀ r ∈ splitOnChar '/' p, (∀ c ∈ r, c.toNat < 128) ∧ r.length ≤ fuel ∧ r.length ≤ 400000000 := by
      simp only [placementShapeOk, Bool.and_eq_true, beq_iff_eq, List.all_eq_true] at hshape
      intro r hr
      have := hshape.2 r hr
      simp only [rankShapeOk, Bool.and_eq_true, decide_eq_true_eq, List.all_eq_true] at this
      exact ⟨fun c hc => placement_char_ascii (this.2 c hc), by omega, by omega⟩
    rw [rs_validate_ranks_eq p fuel hranks]
    simp only [Option.bind_some]
    cases hvr : validateRanks p with
    | some e' =>
      obtain ⟨err, he1, he2⟩ := ranksResult_err p e' hvr
      rw [he1]
      exact ⟨_, rfl, err, rfl, he2⟩
    | none =>
      rw [(ranksResult_ok_iff p).mpr hvr]
      simp only []
      cases cl with
      | none =>
        obtain ⟨h5, h6⟩ := g56
        simp only [Rs.Fen.from_str.for_1, h5, h6, Option.map_none, Option.pure_def, Option.bind_some, m1, m2, m3, m4]
        refine ⟨_, rfl, _, rfl, rfl, ⟨?_, ?_, ?_, ?_, ?_, ?_⟩⟩
        · exact s1
        · exact s2
        · exact s3
        · exact s4
        · exact ⟨['0'], rfl, by decide, rfl⟩
        · exact ⟨['1'], rfl, by decide, rfl⟩
      | some hf =>
        obtain ⟨hh, ff⟩ := hf
        obtain ⟨g5, g6⟩ := g56
        obtain ⟨r5, m5, s5⟩ := group_map g5
        obtain ⟨r6, m6, s6⟩ := group_map g6
        obtain ⟨hne, hall, fne, fall⟩ := hcl
        simp only [Rs.Fen.from_str.for_1, m5, m6, s5, s6, Option.bind_eq_bind, Option.bind_some, parseU32_digits hh hne hall,
          parseU32_digits ff fne fall, Option.pure_def, m1, m2, m3, m4]
        cases hc5 : clockOk hh with
        | false => exact ⟨_, rfl, _, rfl, rfl⟩
        | true =>
          cases hc6 : clockOk ff with
          | false => exact ⟨_, rfl, _, rfl, rfl⟩
          | true =>
            refine ⟨_, rfl, _, rfl, rfl, ⟨?_, ?_, ?_, ?_, ?_, ?_⟩⟩
            · exact s1
            · exact s2
            · exact s3
            · exact s4
            · exact ⟨hh, s5, hc5, rfl⟩
            · exact ⟨ff, s6, hc6, rfl⟩

#print axioms rs_validate_ranks_eq
#print axioms rs_validate_rank_fuel
#print axioms rs_fen_from_str_eq
#print axioms rs_fen_from_str_startpos

/-! non-vacuity: `from_str` run on concrete texts with a toy regex oracle (`C` = the list of group ranges, `M` = a range) -/
def toyGet (caps : List (Option (Int × Int))) (i : Int) : Option (Int × Int) := (caps[i.toNat]?).getD none
def toyParse (s : List Char) : Except Rs.FenParseError (List (Option (Int × Int))) :=
  if s = exFen.fen then .ok [some (0, 56), some (0, 26), some (27, 28), some (29, 31), some (32, 34), some (35, 45), some (46, 56)]
  else if s = exFen4.fen then .ok [some (0, 25), some (0, 19), some (20, 21), some (22, 23), some (24, 25), none, none]
  else if s = "8/8/8/8/8/8/8/44 w - - 0 1".toList then .ok [some (0, 26), some (0, 16), some (17, 18), some (19, 20), some (21, 22), some (23, 24), some (25, 26)]
  else if s = "8/8/8/8/8/8/8/8 w - - 0 4294967296".toList then .ok [some (0, 34), some (0, 15), some (16, 17), some (18, 19), some (20, 21), some (22, 23), some (24, 34)]
  else .error (.InvalidCapture s)

example : Rs.Fen.from_str exFen.fen exFen4 toyParse toyGet id 8 = some (.ok exFen) := by rfl
example : Rs.Fen.from_str exFen4.fen exFen toyParse toyGet id 8 = some (.ok exFen4) := by rfl
example : Rs.Fen.from_str "8/8/8/8/8/8/8/44 w - - 0 1".toList exFen toyParse toyGet id 8 = some (.error (.ConcurrentNumbers ['4', '4'])) := by
  rfl
/-- the clock check of the fix 13677a5: a clock beyond `u32` is an `InvalidCapture`, not a later panic of the decoder -/
example : Rs.Fen.from_str "8/8/8/8/8/8/8/8 w - - 0 4294967296".toList exFen toyParse toyGet id 8
    = some (.error (.InvalidCapture "8/8/8/8/8/8/8/8 w - - 0 4294967296".toList)) := by rfl
example : Rs.Fen.from_str "x".toList exFen toyParse toyGet id 8 = some (.error (.InvalidCapture ['x'])) := by rfl

end Inkayaku.Translated
