import Inkayaku.Gen.Rs.Simple
import Inkayaku.Props.Translated.Heuristic
import Inkayaku.Props.Translated.Check
import Inkayaku.Props.Translated.GenerateScan
import Inkayaku.Model.Eval
import Inkayaku.Props.Translated.Demo
/-! Part of `Props/Translated`: see `Props/Translated/Basic.lean` for the overview.

### `SimpleHeuristic` (engine_core/src/engine/heuristic/simple.rs; generated module `Simple`): `piece_value`, `game_stage`,
`piece_square_sum(_for_player)`, `piece_square_value`, `evaluate_ongoing` = `Eval.pieceValue`, `gameStage`, `squareSum`,
`sideSquareSum`, `pieceSquareValue`, `evaluateOngoing` (Model/Eval.lean); property C11

The piece-square tables `WHITE_TABLES` / `BLACK_TABLES` are OPAQUE parameters of the translation (lists of lists of lists).  The
theorems hold for any tables of the right shape with small entries (`TablesOK`: 3 stages × 6 pieces × 64 squares, entries within
±1000, so that no `i32` sum overflows and no index is out of bounds); the regenerated tables `Gen.whiteTables` / `Gen.blackTables` of
the current build satisfy this (`gen_tables_ok`, by evaluation).  `rs_evaluate_full_eq` closes the opaque `evaluate_ongoing` parameter
of `rs_evaluate_eq` (`Heuristic.lean`). -/

namespace Inkayaku.Translated
open Inkayaku.Board Inkayaku.Gen Inkayaku.Rs

/-- one 64-entry table with entries within ±1000 -/
def TableOK (t : List Int) : Prop := t.length = 64 ∧ ∀ v ∈ t, -1000 ≤ v ∧ v ≤ 1000
/-- 3 stages × 6 pieces × 64 squares, small entries -/
def TablesOK (T : List (List (List Int))) : Prop := T.length = 3 ∧ ∀ s ∈ T, s.length = 6 ∧ ∀ t ∈ s, TableOK t

instance (t : List Int) : Decidable (TableOK t) := by unfold TableOK; exact inferInstance
instance (T : List (List (List Int))) : Decidable (TablesOK T) := by unfold TablesOK; exact inferInstance

theorem gen_tables_ok : TablesOK Gen.whiteTables ∧ TablesOK Gen.blackTables := by decide +kernel

theorem u64Popcnt_eq (x : UInt64) : u64Popcnt x = (Eval.popcount x : Int) := rfl

theorem popcount_le (x : UInt64) : Eval.popcount x ≤ 64 := GenLength.bitsAsc_length_le x

/-- `piece_value`: the material sum (`u32` arithmetic, then `as i32`) never overflows -/
theorem rs_piece_value_eq (s : Side) : SimpleHeuristic.piece_value (toRsSide s) = some (Eval.pieceValue s) := by
  unfold SimpleHeuristic.piece_value Eval.pieceValue
  have hq := popcount_le s.queens
  have hr := popcount_le s.rooks
  have hb := popcount_le s.bishops
  have hn := popcount_le s.knights
  have hp := popcount_le s.pawns
  simp only [rs_side_queens, rs_side_rooks, rs_side_bishops, rs_side_knights, rs_side_pawns, Option.bind_eq_bind, Option.bind_some,
    u64Popcnt_eq, QUEEN_VALUE, ROOK_VALUE, BISHOP_VALUE, KNIGHT_VALUE, PAWN_VALUE, Gen.queenValue, Gen.rookValue, Gen.bishopValue,
    Gen.knightValue, Gen.pawnValue]
  rw [chk_u32 (by omega) (by omega), Option.bind_some, chk_u32 (by omega) (by omega), Option.bind_some,
    chk_u32 (by omega) (by omega), Option.bind_some, chk_u32 (by omega) (by omega), Option.bind_some,
    chk_u32 (by omega) (by omega), Option.bind_some, chk_u32 (by omega) (by omega), Option.bind_some,
    chk_u32 (by omega) (by omega), Option.bind_some, chk_u32 (by omega) (by omega), Option.bind_some,
    chk_u32 (by omega) (by omega), Option.bind_some, Option.pure_def, cast_i32 (by omega) (by omega)]
  congr 1

/-- `game_stage` (never panics) -/
theorem rs_game_stage_eq (b : Board) :
    SimpleHeuristic.game_stage (toRsSide b.white) (toRsSide b.black) = some ((Eval.gameStage b : Nat) : Int) := by
  unfold SimpleHeuristic.game_stage Eval.gameStage
  simp only [rs_side_queens, rs_side_knights, rs_side_bishops, Option.bind_eq_bind, Option.bind_some, u64Popcnt_eq, MID, LATE,
    Option.pure_def]
  have e1 : ∀ x : UInt64, decide (x ≠ 0) = (x != 0) := fun x => by
    by_cases h : x = 0 <;> simp [h]
  have k1 : (((Eval.popcount (b.white.knights ||| b.white.bishops) : Nat) : Int) ≤ 1) ↔
      Eval.popcount (b.white.knights ||| b.white.bishops) ≤ 1 := by omega
  have k2 : (((Eval.popcount (b.black.knights ||| b.black.bishops) : Nat) : Int) ≤ 1) ↔
      Eval.popcount (b.black.knights ||| b.black.bishops) ≤ 1 := by omega
  simp only [e1, k1, k2]
  split <;> rfl

/-! #### the bit-scan loop of `piece_square_sum` -/

theorem vecIdx_getD (v : List Int) (i : Nat) (h : i < v.length) : vecIdx v (i : Int) = some (v.getD i 0) := by
  simp only [vecIdx, Int.toNat_natCast, List.getD_eq_getElem?_getD, List.getElem?_eq_getElem h, Option.getD_some]

theorem vecIdxL {α : Type} (v : List α) (i : Nat) (h : i < v.length) : vecIdx v (i : Int) = some (v[i]'h) := by
  simp only [vecIdx, Int.toNat_natCast, List.getElem?_eq_getElem h]

theorem getD_bound {t : List Int} (ht : TableOK t) (sq : Nat) : -1000 ≤ t.getD sq 0 ∧ t.getD sq 0 ≤ 1000 := by
  by_cases h : sq < t.length
  · rw [List.getD_eq_getElem?_getD, List.getElem?_eq_getElem h, Option.getD_some]
    exact ht.2 _ (List.getElem_mem h)
  · rw [List.getD_eq_getElem?_getD, List.getElem?_eq_none (by omega)]
    exact ⟨by decide, by decide⟩

theorem foldl_bound {t : List Int} (ht : TableOK t) : ∀ (l : List Nat) (acc : Int),
    acc - 1000 * l.length ≤ l.foldl (fun a sq => a + t.getD sq 0) acc ∧
      l.foldl (fun a sq => a + t.getD sq 0) acc ≤ acc + 1000 * l.length
  | [], acc => by simp
  | sq :: l, acc => by
    have h1 := getD_bound ht sq
    have h2 := foldl_bound ht l (acc + t.getD sq 0)
    rw [List.foldl_cons, List.length_cons]
    constructor <;> push_cast <;> omega

theorem squareSum_bound {t : List Int} (ht : TableOK t) (occ : UInt64) :
    -64000 ≤ Eval.squareSum occ t ∧ Eval.squareSum occ t ≤ 64000 := by
  have h1 := foldl_bound ht (bitsAsc occ) 0
  have h2 := GenLength.bitsAsc_length_le occ
  unfold Eval.squareSum
  constructor <;> omega

theorem while_1_succ (values : List Int) (fuel : Nat) (x : UInt64) (acc : Int) :
    SimpleHeuristic.piece_square_sum.while_1 values (fuel + 1) x acc =
      if x ≠ (0 : UInt64) then
        (mask_and_shift_from_lowest_one_bit x).bind fun ms =>
          (vecIdx values (cast .usize ms.2)).bind fun v => (chk .i32 (acc + v)).bind fun sum =>
            SimpleHeuristic.piece_square_sum.while_1 values fuel (x &&& (~~~ms.1)) sum
      else some (x, acc) := by
  rw [SimpleHeuristic.piece_square_sum.while_1]
  rfl

theorem rs_square_loop {t : List Int} (ht : TableOK t) : ∀ (fuel : Nat) (x : UInt64) (acc : Int),
    (bitsAsc x).length < fuel → -2000000000 ≤ acc - 1000 * (bitsAsc x).length → acc + 1000 * (bitsAsc x).length ≤ 2000000000 →
      SimpleHeuristic.piece_square_sum.while_1 t fuel x acc = some (0, (bitsAsc x).foldl (fun a sq => a + t.getD sq 0) acc)
  | 0, _, _, h, _, _ => by omega
  | fuel + 1, x, acc, h, hlo, hhi => by
    rw [while_1_succ]
    by_cases hx : x = 0
    · subst hx; rw [if_neg (by simp), bitsAsc_zero]; rfl
    · have hpop := bitsAsc_pop x hx
      have hlt := tz_lt x hx
      rw [hpop, List.length_cons] at h hlo hhi
      have hb := getD_bound ht (trailingZeros x)
      rw [if_pos hx, rs_mask_and_shift x hx, Option.bind_some]
      simp only
      rw [cast_usize (by omega) (by omega), vecIdx_getD t _ (by rw [ht.1]; exact hlt), Option.bind_some,
        chk_i32 (by push_cast at hlo hhi; omega) (by push_cast at hlo hhi; omega), Option.bind_some]
      rw [rs_square_loop ht fuel _ _ (by omega) (by push_cast at hlo hhi ⊢; omega) (by push_cast at hlo hhi ⊢; omega)]
      rw [hpop, List.foldl_cons]

/-- `piece_square_sum(occupancy, values)` = the model's `squareSum` for a 64-entry table with small entries -/
theorem rs_piece_square_sum_eq {t : List Int} (ht : TableOK t) (occ : UInt64) (fuel : Nat) (hf : 66 ≤ fuel) :
    SimpleHeuristic.piece_square_sum occ t fuel = some (Eval.squareSum occ t) := by
  have hl := GenLength.bitsAsc_length_le occ
  unfold SimpleHeuristic.piece_square_sum
  simp only [Option.bind_eq_bind]
  rw [rs_square_loop ht fuel occ 0 (by omega) (by omega) (by omega)]
  rfl

/-- `piece_square_sum_for_player(player, tables)` for 6 such tables -/
theorem rs_piece_square_sum_for_player_eq {T : List (List Int)} (h6 : T.length = 6) (hT : ∀ t ∈ T, TableOK t) (s : Side)
    (fuel : Nat) (hf : 66 ≤ fuel) :
    SimpleHeuristic.piece_square_sum_for_player (toRsSide s) T fuel = some (Eval.sideSquareSum s T) := by
  obtain ⟨t0, t1, t2, t3, t4, t5, rfl⟩ : ∃ t0 t1 t2 t3 t4 t5, T = [t0, t1, t2, t3, t4, t5] := by
    match T, h6 with
    | [a, b, c, d, e, f], _ => exact ⟨a, b, c, d, e, f, rfl⟩
  have o0 : TableOK t0 := hT _ (by simp)
  have o1 : TableOK t1 := hT _ (by simp)
  have o2 : TableOK t2 := hT _ (by simp)
  have o3 : TableOK t3 := hT _ (by simp)
  have o4 : TableOK t4 := hT _ (by simp)
  have o5 : TableOK t5 := hT _ (by simp)
  have b0 := squareSum_bound o0 s.pawns
  have b1 := squareSum_bound o1 s.knights
  have b2 := squareSum_bound o2 s.bishops
  have b3 := squareSum_bound o3 s.rooks
  have b4 := squareSum_bound o4 s.queens
  have b5 := squareSum_bound o5 s.kings
  have c1 : chk .usize (cast .usize (u64ToInt PAWN) - 1) = some 0 := by decide
  have c2 : chk .usize (cast .usize (u64ToInt KNIGHT) - 1) = some 1 := by decide
  have c3 : chk .usize (cast .usize (u64ToInt BISHOP) - 1) = some 2 := by decide
  have c4 : chk .usize (cast .usize (u64ToInt ROOK) - 1) = some 3 := by decide
  have c5 : chk .usize (cast .usize (u64ToInt QUEEN) - 1) = some 4 := by decide
  have c6 : chk .usize (cast .usize (u64ToInt KING) - 1) = some 5 := by decide
  have i0 : vecIdx [t0, t1, t2, t3, t4, t5] 0 = some t0 := rfl
  have i1 : vecIdx [t0, t1, t2, t3, t4, t5] 1 = some t1 := rfl
  have i2 : vecIdx [t0, t1, t2, t3, t4, t5] 2 = some t2 := rfl
  have i3 : vecIdx [t0, t1, t2, t3, t4, t5] 3 = some t3 := rfl
  have i4 : vecIdx [t0, t1, t2, t3, t4, t5] 4 = some t4 := rfl
  have i5 : vecIdx [t0, t1, t2, t3, t4, t5] 5 = some t5 := rfl
  unfold SimpleHeuristic.piece_square_sum_for_player Eval.sideSquareSum
  simp only [rs_side_pawns, rs_side_knights, rs_side_bishops, rs_side_rooks, rs_side_queens, rs_side_kings, c1, c2, c3, c4, c5, c6,
    i0, i1, i2, i3, i4, i5, Option.bind_eq_bind, Option.bind_some, rs_piece_square_sum_eq o0 _ fuel hf,
    rs_piece_square_sum_eq o1 _ fuel hf, rs_piece_square_sum_eq o2 _ fuel hf, rs_piece_square_sum_eq o3 _ fuel hf,
    rs_piece_square_sum_eq o4 _ fuel hf, rs_piece_square_sum_eq o5 _ fuel hf]
  rw [chk_i32 (by omega) (by omega), Option.bind_some, chk_i32 (by omega) (by omega), Option.bind_some,
    chk_i32 (by omega) (by omega), Option.bind_some, chk_i32 (by omega) (by omega), Option.bind_some,
    chk_i32 (by omega) (by omega)]
  rfl

theorem sideSquareSum_bound {T : List (List Int)} (hT : ∀ t ∈ T, TableOK t) (s : Side) :
    -384000 ≤ Eval.sideSquareSum s T ∧ Eval.sideSquareSum s T ≤ 384000 := by
  have hd : ∀ i, TableOK (T.getD i []) ∨ T.getD i [] = [] := fun i => by
    by_cases h : i < T.length
    · left; rw [List.getD_eq_getElem?_getD, List.getElem?_eq_getElem h, Option.getD_some]; exact hT _ (List.getElem_mem h)
    · right; rw [List.getD_eq_getElem?_getD, List.getElem?_eq_none (by omega)]; rfl
  have hb : ∀ i occ, -64000 ≤ Eval.squareSum occ (T.getD i []) ∧ Eval.squareSum occ (T.getD i []) ≤ 64000 := fun i occ => by
    rcases hd i with h | h
    · exact squareSum_bound h occ
    · rw [h]
      have : ∀ (l : List Nat) (a : Int), l.foldl (fun acc sq => acc + ([] : List Int).getD sq 0) a = a := by
        intro l; induction l with
        | nil => intro a; rfl
        | cons x l ih => intro a; rw [List.foldl_cons, ih]; simp
      unfold Eval.squareSum; rw [this]; exact ⟨by decide, by decide⟩
  have b0 := hb 0 s.pawns
  have b1 := hb 1 s.knights
  have b2 := hb 2 s.bishops
  have b3 := hb 3 s.rooks
  have b4 := hb 4 s.queens
  have b5 := hb 5 s.kings
  unfold Eval.sideSquareSum
  constructor <;> omega

/-! #### `piece_square_value`, `evaluate_ongoing` on the tables of the current build -/

theorem gameStage_cases (b : Board) : Eval.gameStage b = 1 ∨ Eval.gameStage b = 2 := by
  unfold Eval.gameStage
  simp only
  split
  · right; rfl
  · left; rfl

theorem vecIdx_getD_nil {α : Type} (v : List (List α)) (i : Nat) (h : i < v.length) :
    vecIdx v (i : Int) = some (v.getD i []) := by
  simp only [vecIdx, Int.toNat_natCast, List.getD_eq_getElem?_getD, List.getElem?_eq_getElem h, Option.getD_some]

theorem stage_tables {T : List (List (List Int))} (hT : TablesOK T) (i : Nat) (hi : i < 3) :
    (T.getD i []).length = 6 ∧ ∀ t ∈ T.getD i [], TableOK t := by
  have h : i < T.length := by rw [hT.1]; exact hi
  rw [List.getD_eq_getElem?_getD, List.getElem?_eq_getElem h, Option.getD_some]
  exact hT.2 _ (List.getElem_mem h)

/-- `piece_square_value` with the regenerated tables of the current build as `WHITE_TABLES` / `BLACK_TABLES` -/
theorem rs_piece_square_value_eq (b : Board) (fuel : Nat) (hf : 66 ≤ fuel) :
    SimpleHeuristic.piece_square_value (toRsSide b.white) (toRsSide b.black) Gen.whiteTables Gen.blackTables fuel =
      some (Eval.pieceSquareValue b) := by
  have hs : Eval.gameStage b < 3 := by rcases gameStage_cases b with h | h <;> omega
  obtain ⟨w6, wT⟩ := stage_tables gen_tables_ok.1 _ hs
  obtain ⟨b6, bT⟩ := stage_tables gen_tables_ok.2 _ hs
  have bw := sideSquareSum_bound wT b.white
  have bb := sideSquareSum_bound bT b.black
  unfold SimpleHeuristic.piece_square_value Eval.pieceSquareValue
  simp only [rs_game_stage_eq, Option.bind_eq_bind, Option.bind_some]
  rw [vecIdx_getD_nil _ _ (by rw [gen_tables_ok.1.1]; exact hs), vecIdx_getD_nil _ _ (by rw [gen_tables_ok.2.1]; exact hs)]
  simp only [Option.bind_some, rs_piece_square_sum_for_player_eq w6 wT b.white fuel hf,
    rs_piece_square_sum_for_player_eq b6 bT b.black fuel hf]
  exact chk_i32 (by omega) (by omega)

theorem pieceValue_bound (s : Side) : 0 ≤ Eval.pieceValue s ∧ Eval.pieceValue s ≤ 137600 := by
  have hq := popcount_le s.queens
  have hr := popcount_le s.rooks
  have hb := popcount_le s.bishops
  have hn := popcount_le s.knights
  have hp := popcount_le s.pawns
  unfold Eval.pieceValue
  simp only [Gen.queenValue, Gen.rookValue, Gen.bishopValue, Gen.knightValue, Gen.pawnValue]
  constructor <;> omega

theorem pieceSquareValue_bound (b : Board) : -768000 ≤ Eval.pieceSquareValue b ∧ Eval.pieceSquareValue b ≤ 768000 := by
  have hs : Eval.gameStage b < 3 := by rcases gameStage_cases b with h | h <;> omega
  have bw := sideSquareSum_bound (stage_tables gen_tables_ok.1 _ hs).2 b.white
  have bb := sideSquareSum_bound (stage_tables gen_tables_ok.2 _ hs).2 b.black
  unfold Eval.pieceSquareValue
  simp only
  constructor <;> omega

/-- **`SimpleHeuristic::evaluate_ongoing` (translated from the current source, the piece-square tables = the regenerated `Gen.Eval`
tables) = the model's `Eval.evaluateOngoing`**: never panics (no `u32`/`i32` overflow, no index out of bounds), for every board, every
Zobrist pawn hash `zh` (unused by the Rust) and every fuel ≥ 66 -/
theorem rs_evaluate_ongoing_eq (b : Board) (zh : UInt64) (fuel : Nat) (hf : 66 ≤ fuel) :
    SimpleHeuristic.evaluate_ongoing (toRsSide b.white) (toRsSide b.black) zh Gen.whiteTables Gen.blackTables fuel =
      some (Eval.evaluateOngoing b) := by
  have h1 := pieceValue_bound b.white
  have h2 := pieceValue_bound b.black
  have h3 := pieceSquareValue_bound b
  unfold SimpleHeuristic.evaluate_ongoing Eval.evaluateOngoing
  simp only [rs_piece_value_eq, rs_piece_square_value_eq b fuel hf, Option.bind_eq_bind, Option.bind_some]
  rw [chk_i32 (by omega) (by omega), Option.bind_some]
  exact chk_i32 (by omega) (by omega)

/-- **the whole static evaluation, no opaque parameter left**: `Heuristic::evaluate` (trait default, `Heuristic.lean`) with the
translated `SimpleHeuristic::evaluate_ongoing` and the translated `Bitboard::is_current_in_check` (`Check.lean`) in place of the
opaque results of `rs_evaluate_eq` = the model's `Eval.evaluate` (the function C11's `eval_flip` is about) -/
theorem rs_evaluate_full_eq (b : Board) (legal : Bool) (zph : Int) (zh : UInt64) (fuel : Nat) (hfuel : 66 ≤ fuel) (ht : b.turn ≤ 1)
    (hf : b.fullmove < 2147483648) :
    ((SimpleHeuristic.evaluate_ongoing (toRsSide b.white) (toRsSide b.black) zh Gen.whiteTables Gen.blackTables fuel).bind fun eo =>
      (Bitboard.is_current_in_check (toRsSide b.white) (toRsSide b.black) (b.turn : Int) rookF bishopF knightF whitePawnF blackPawnF
        kingF).bind fun chk =>
        Heuristic.evaluate eo (b.turn : Int) (b.fullmove : Int) (b.halfmove : Int) chk zph legal) = some (Eval.evaluate b legal) := by
  rw [rs_evaluate_ongoing_eq b zh fuel hfuel, Option.bind_some, rs_is_current_in_check_eq, Option.bind_some]
  exact rs_evaluate_eq b legal zph ht hf

#print axioms rs_piece_value_eq
#print axioms rs_game_stage_eq
#print axioms rs_piece_square_sum_eq
#print axioms rs_piece_square_sum_for_player_eq
#print axioms rs_piece_square_value_eq
#print axioms rs_evaluate_ongoing_eq
#print axioms rs_evaluate_full_eq

/-! non-vacuity: the theorems have no hypotheses on the board; on the demo position of `Demo.lean` (white pawn e2, black pawn e7,
kings) the model value is symmetric material + the piece-square difference -/
example : SimpleHeuristic.evaluate_ongoing (toRsSide demoPos.white) (toRsSide demoPos.black) 0 Gen.whiteTables Gen.blackTables 66 =
    some (Eval.evaluateOngoing demoPos) := rs_evaluate_ongoing_eq demoPos 0 66 (Nat.le_refl _)
example : TablesOK Gen.whiteTables := gen_tables_ok.1

end Inkayaku.Translated
