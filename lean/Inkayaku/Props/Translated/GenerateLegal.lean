import Inkayaku.Gen.Rs.GenerateLegal
import Inkayaku.Props.Translated.GenerateTop
import Inkayaku.Props.Translated.GenUnmake
import Inkayaku.Proofs.BoardCongr
/-! Part of `Props/Translated`: see `Props/Translated/Basic.lean` for the overview.

### v. the legality filter over generated moves: `Bitboard::{generate_legal_moves, is_any_move_legal}` (board/src/board.rs;
generated module `GenerateLegal`) = `Board.genLegal`, `isAnyMoveLegal` (Model/Board.lean)

`is_move_legal` (= `make; is_valid; unmake`, `Props/Translated/GenUnmake.lean`) MODIFIES `self`: after each call the board is
the original one up to the scratch words `occupancy[NO_PIECE]` (`WF.vis`).  The translation threads the six fields of `self`
through the calls (`generate_legal_moves.filter_1`: the closure of `.filter(..)`, by structural recursion on the list, in
list order; `is_any_move_legal.for_1`: the `for` loop with its early `return true`).  The proofs carry the invariant
`vis c = vis b` and use that well-formedness, generation, `make`, `unmake` and `is_valid` only depend on `vis`
(`Proofs/BoardCongr.lean`).  Result: on a well-formed board the translated functions never panic, return the model's list /
verdict, and leave a board holding the same position (`vis c' = vis b`).
-/

namespace Inkayaku.Translated
open Inkayaku.Board Inkayaku.Gen Inkayaku.WF Inkayaku.BoardCongr

/-- one call of the translated `is_move_legal` on a board `c` holding the same position as the well-formed `b` (same up to
the scratch words `occupancy[NO_PIECE]`), for a move generated on `b`: the model's verdict, and again such a board -/
theorem rs_is_move_legal_vis {b c : Board} (h : wf b = true) (hc : vis c = vis b) {m : Board.Move} (hm : m ∈ genPseudo b) :
    ∃ c', vis c' = vis b ∧
      Rs.Bitboard.is_move_legal (toRsSide c.white) (toRsSide c.black) c.turn c.ep c.fullmove c.halfmove m.bits
        rookF bishopF knightF whitePawnF blackPawnF kingF = some (isMoveLegal b m, boardFields c') := by
  have hwc : wf c = true := by rw [wf_congr hc]; exact h
  have hmc : m ∈ genPseudo c := by rw [genPseudo_congr hc]; exact hm
  refine ⟨Board.unmake (Board.make c m) m, ?_, ?_⟩
  · rw [(rs_unmake_generated hwc hmc).2]; exact hc
  · rw [rs_is_move_legal_generated hwc hmc, isMoveLegal_congr hc]

theorem filter_1_cons (R B : Int → UInt64 → UInt64) (K Ki W Bl : Int → UInt64) (mb : UInt64) (mv : Int) (rest : List (UInt64 × Int))
    (w bl : Rs.PlayerState) (t e f hm : Int) :
    Rs.Bitboard.generate_legal_moves.filter_1 R B K Ki W Bl ((mb, mv) :: rest) w bl t e f hm =
      (Rs.Bitboard.is_move_legal w bl t e f hm mb R B K W Bl Ki).bind fun r =>
        (Rs.Bitboard.generate_legal_moves.filter_1 R B K Ki W Bl rest r.2.1 r.2.2.1 r.2.2.2.1 r.2.2.2.2.1 r.2.2.2.2.2.1 r.2.2.2.2.2.2).bind fun o =>
          some (if r.1 then (mb, mv) :: o.1 else o.1, o.2) := by
  rw [Rs.Bitboard.generate_legal_moves.filter_1]
  rfl

theorem rs_filter_legal {b : Board} (h : wf b = true) :
    ∀ (ms : List Board.Move) (c : Board), vis c = vis b → (∀ m ∈ ms, m ∈ genPseudo b) →
      ∃ c', vis c' = vis b ∧
        Rs.Bitboard.generate_legal_moves.filter_1 rookF bishopF knightF kingF whitePawnF blackPawnF (ms.map encMove)
          (toRsSide c.white) (toRsSide c.black) c.turn c.ep c.fullmove c.halfmove =
        some ((ms.filter (isMoveLegal b)).map encMove, boardFields c')
  | [], c, hc, _ => ⟨c, hc, rfl⟩
  | m :: ms, c, hc, hms => by
    obtain ⟨c1, hc1, e1⟩ := rs_is_move_legal_vis h hc (hms m List.mem_cons_self)
    obtain ⟨c2, hc2, e2⟩ := rs_filter_legal h ms c1 hc1 (fun x hx => hms x (List.mem_cons_of_mem _ hx))
    refine ⟨c2, hc2, ?_⟩
    rw [List.map_cons]
    show Rs.Bitboard.generate_legal_moves.filter_1 rookF bishopF knightF kingF whitePawnF blackPawnF
      ((m.bits, m.mvvlva) :: ms.map encMove) _ _ _ _ _ _ = _
    rw [filter_1_cons, e1, Option.bind_some]
    show (Rs.Bitboard.generate_legal_moves.filter_1 rookF bishopF knightF kingF whitePawnF blackPawnF (ms.map encMove)
      (toRsSide c1.white) (toRsSide c1.black) c1.turn c1.ep c1.fullmove c1.halfmove).bind _ = _
    rw [e2, Option.bind_some, List.filter_cons]
    cases isMoveLegal b m <;> rfl


/-- `generate_legal_moves`: the pseudo-legal moves filtered by `is_move_legal`, which makes and unmakes every move on `self` -/
theorem rs_generate_legal_moves_eq {b : Board} (h : wf b = true) (fuel : Nat) (hf : 130 ≤ fuel) :
    ∃ c', vis c' = vis b ∧
      Rs.Bitboard.generate_legal_moves (toRsSide b.white) (toRsSide b.black) b.turn b.ep b.fullmove b.halfmove rookF bishopF
        knightF kingF whitePawnF blackPawnF fuel = some ((genLegal b).map encMove, boardFields c') := by
  obtain ⟨c', hc', e⟩ := rs_filter_legal h (genPseudo b) b rfl (fun _ hm => hm)
  refine ⟨c', hc', ?_⟩
  unfold Rs.Bitboard.generate_legal_moves
  rw [rs_generate_pseudo_legal_wf h fuel hf]
  simp only [Option.bind_eq_bind, Option.bind_some, e, boardFields, Option.pure_def, genLegal]

theorem for_1_cons (R B : Int → UInt64 → UInt64) (K W Bl Ki : Int → UInt64) (mb : UInt64) (mv : Int) (rest : List (UInt64 × Int))
    (w bl : Rs.PlayerState) (t e f hm : Int) :
    Rs.Bitboard.is_any_move_legal.for_1 R B K W Bl Ki ((mb, mv) :: rest) w bl t e f hm =
      (Rs.Bitboard.is_move_legal w bl t e f hm mb R B K W Bl Ki).bind fun r =>
        if r.1 = true then some (Rs.Ctl.ret (true, r.2))
        else Rs.Bitboard.is_any_move_legal.for_1 R B K W Bl Ki rest r.2.1 r.2.2.1 r.2.2.2.1 r.2.2.2.2.1 r.2.2.2.2.2.1 r.2.2.2.2.2.2 := by
  rw [Rs.Bitboard.is_any_move_legal.for_1]
  rfl

theorem rs_any_legal_loop {b : Board} (h : wf b = true) :
    ∀ (ms : List Board.Move) (c : Board), vis c = vis b → (∀ m ∈ ms, m ∈ genPseudo b) →
      ∃ c', vis c' = vis b ∧
        Rs.Bitboard.is_any_move_legal.for_1 rookF bishopF knightF whitePawnF blackPawnF kingF (ms.map encMove)
          (toRsSide c.white) (toRsSide c.black) c.turn c.ep c.fullmove c.halfmove =
        some (if ms.any (isMoveLegal b) then Rs.Ctl.ret (true, boardFields c') else Rs.Ctl.next (boardFields c'))
  | [], c, hc, _ => ⟨c, hc, rfl⟩
  | m :: ms, c, hc, hms => by
    obtain ⟨c1, hc1, e1⟩ := rs_is_move_legal_vis h hc (hms m List.mem_cons_self)
    rw [List.map_cons, List.any_cons]
    cases hl : isMoveLegal b m
    · obtain ⟨c2, hc2, e2⟩ := rs_any_legal_loop h ms c1 hc1 (fun x hx => hms x (List.mem_cons_of_mem _ hx))
      refine ⟨c2, hc2, ?_⟩
      show Rs.Bitboard.is_any_move_legal.for_1 rookF bishopF knightF whitePawnF blackPawnF kingF
        ((m.bits, m.mvvlva) :: ms.map encMove) _ _ _ _ _ _ = _
      rw [for_1_cons, e1, hl, Option.bind_some]
      simp only [Bool.false_eq_true, if_false, Bool.false_or]
      exact e2
    · refine ⟨c1, hc1, ?_⟩
      show Rs.Bitboard.is_any_move_legal.for_1 rookF bishopF knightF whitePawnF blackPawnF kingF
        ((m.bits, m.mvvlva) :: ms.map encMove) _ _ _ _ _ _ = _
      rw [for_1_cons, e1, hl, Option.bind_some]
      simp only [if_true, Bool.true_or]

/-- `is_any_move_legal(moves)` for moves generated on the position -/
theorem rs_is_any_move_legal_eq {b : Board} (h : wf b = true) (ms : List Board.Move) (hms : ∀ m ∈ ms, m ∈ genPseudo b) :
    ∃ c', vis c' = vis b ∧
      Rs.Bitboard.is_any_move_legal (toRsSide b.white) (toRsSide b.black) b.turn b.ep b.fullmove b.halfmove (ms.map encMove)
        rookF bishopF knightF whitePawnF blackPawnF kingF = some (isAnyMoveLegal b ms, boardFields c') := by
  obtain ⟨c', hc', e⟩ := rs_any_legal_loop h ms b rfl hms
  refine ⟨c', hc', ?_⟩
  unfold Rs.Bitboard.is_any_move_legal isAnyMoveLegal
  rw [e]
  cases ms.any (isMoveLegal b) <;> rfl

#print axioms rs_generate_legal_moves_eq
#print axioms rs_is_any_move_legal_eq

/-! non-vacuity: `demoPos` (a small legal position, `Props/Translated/Demo.lean`) is well formed and has legal moves -/
example : wf demoPos = true := demo_wf
example : (genLegal demoPos).length > 0 := by decide +kernel

end Inkayaku.Translated
