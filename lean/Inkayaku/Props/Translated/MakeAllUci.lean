import Inkayaku.Gen.Rs.MakeAllUci
import Inkayaku.Props.Translated.FindUci
import Inkayaku.Proofs.WfStepProof
/-! Part of `Props/Translated`: see `Props/Translated/Basic.lean` for the overview.

### `Bitboard::make_all_uci` (board/src/board.rs; generated module `MakeAllUci`) = `San.makeAllUci` (Model/San.lean); property C13

The translation: the `for uci in moves` loop is `make_all_uci.for_1` (structural recursion on the list of texts; state = the six fields of
`self` and the rollback vector `potential_unmake`; `Ctl.ret` = the early `return Err(error)`), the rollback loop
`for mv in potential_unmake.iter().rev() { self.unmake(*mv) }` is `make_all_uci.for_2`.  On a board that is well-formed with clock
budget `moves.len()` (`Search.Inv`: every accepted move keeps it well-formed, `Search.make_inv`) the translated function never panics,
returns `Ok(())` / an error of the model's kind, and leaves a board holding the position of the model's `(makeAllUci b ss).2`; on an
error that is the position it started from (all made moves are taken back). -/

namespace Inkayaku.Translated
open Inkayaku.Board Inkayaku.Gen Inkayaku.WF Inkayaku.BoardCongr Inkayaku.San

/-- `made` (most recent first) can be taken back from `cur`, ending in the position of `orig` -/
def Roll : List Board.Move → Board → Board → Prop
  | [], cur, orig => vis cur = vis orig
  | m :: made, cur, orig => ∃ p, wf p = true ∧ m ∈ genPseudo p ∧ vis cur = vis (Board.make p m) ∧ Roll made p orig

theorem Roll.congr {made : List Board.Move} {cur cur' orig : Board} (h : vis cur' = vis cur) (r : Roll made cur orig) :
    Roll made cur' orig := by
  cases made with
  | nil => exact h.trans r
  | cons m made => obtain ⟨p, h1, h2, h3, h4⟩ := r; exact ⟨p, h1, h2, h.trans h3, h4⟩

/-- the translated `unmake` on any board holding the position after a generated move of a well-formed board -/
theorem rs_unmake_vis {p cur : Board} (h : wf p = true) {m : Board.Move} (hm : m ∈ genPseudo p)
    (hc : vis cur = vis (Board.make p m)) :
    Rs.Bitboard.unmake (toRsSide cur.white) (toRsSide cur.black) cur.turn cur.ep cur.fullmove cur.halfmove m.bits =
      some (boardFields (Board.unmake cur m)) ∧ vis (Board.unmake cur m) = vis p := by
  obtain ⟨hf1, hf2, hh, ht⟩ := wf_clocks h
  obtain ⟨-, hok⟩ := GenOK.genPseudo_ok h m hm
  refine ⟨?_, (unmake_congr hc m).trans (rs_unmake_generated h hm).2⟩
  obtain ⟨-, -, -, -, -, hmv, hot⟩ := hok
  obtain ⟨-, -, hshape⟩ := hmv
  obtain ⟨-, -, hoth⟩ := hot
  unfold MakeUnmake.ShapeOK at hshape
  have e1 : cur.turn = 1 - p.turn := (turn_congr hc).trans rfl
  have e2 : cur.fullmove = p.fullmove + p.turn := (congrArg Board.fullmove hc : (vis cur).fullmove = _).trans rfl
  refine rs_unmake_move_eq cur m (by rw [e1]; omega) (by rw [e1, e2]; omega) (by rw [e2]; omega) ?_ ?_
  · intro hc
    rw [if_pos hc] at hshape
    intro hn
    rw [hn] at hshape
    exact hshape
  · intro hc
    simp only [hc, Bool.false_eq_true, if_false] at hshape hoth
    by_cases he : m.f.enPassant = true
    · rw [if_pos he] at hoth
      refine ⟨by rw [hoth.1]; decide, fun h' => ?_⟩
      rw [he] at h'; exact absurd h' (by decide)
    · rw [if_neg he] at hoth hshape
      refine ⟨by omega, fun _ => ?_⟩
      by_cases hp : (m.f.promotion != NO_PIECE) = true
      · rw [if_pos hp] at hshape
        have : (m.f.promotion != 0) = true := hp
        rw [if_pos this]; omega
      · rw [if_neg hp] at hshape
        have : ¬ (m.f.promotion != 0) = true := hp
        rw [if_neg this]; omega

theorem make_all_for_2_cons (mb : UInt64) (mv : Int) (rest : List (UInt64 × Int)) (w bl : Rs.PlayerState) (t e f hm : Int) :
    Rs.Bitboard.make_all_uci.for_2 ((mb, mv) :: rest) w bl t e f hm =
      (Rs.Bitboard.unmake w bl t e f hm mb).bind fun r =>
        Rs.Bitboard.make_all_uci.for_2 rest r.1 r.2.1 r.2.2.1 r.2.2.2.1 r.2.2.2.2.1 r.2.2.2.2.2 := by
  rw [Rs.Bitboard.make_all_uci.for_2]
  rfl

/-- the rollback loop: the translated `for mv in potential_unmake.iter().rev() { self.unmake(*mv) }` = folding the model's `unmake`;
it ends in the original position -/
theorem rs_rollback : ∀ (made : List Board.Move) (cur orig : Board), Roll made cur orig →
    Rs.Bitboard.make_all_uci.for_2 (made.map encMove) (toRsSide cur.white) (toRsSide cur.black) cur.turn cur.ep cur.fullmove cur.halfmove =
      some (boardFields (made.foldl (fun acc m => Board.unmake acc m) cur)) ∧
    vis (made.foldl (fun acc m => Board.unmake acc m) cur) = vis orig
  | [], cur, orig, r => ⟨rfl, r⟩
  | m :: made, cur, orig, r => by
    obtain ⟨p, hp, hm, hc, hr⟩ := r
    obtain ⟨e1, e2⟩ := rs_unmake_vis hp hm hc
    obtain ⟨e3, e4⟩ := rs_rollback made (Board.unmake cur m) orig (hr.congr e2)
    refine ⟨?_, e4⟩
    rw [List.map_cons]
    show Rs.Bitboard.make_all_uci.for_2 ((m.bits, m.mvvlva) :: made.map encMove) _ _ _ _ _ _ = _
    rw [make_all_for_2_cons, e1, Option.bind_some]
    exact e3

theorem make_all_for_1_cons {S P : Type} (R B : Int → UInt64 → UInt64) (K Ki W Bl : Int → UInt64) (SF : Int → Option S) (Sf : S → List Char)
    (PF : Int → Option P) (Pf : P → Char) (fuel : Nat) (uci : List Char) (rest : List (List Char)) (w bl : Rs.PlayerState)
    (t e f hm : Int) (pu : List (UInt64 × Int)) :
    Rs.Bitboard.make_all_uci.for_1 R B K Ki W Bl SF Sf PF Pf fuel (uci :: rest) w bl t e f hm pu =
      (Rs.Bitboard.find_uci w bl t e f hm uci R B K Ki W Bl SF Sf PF Pf fuel).bind fun x =>
        match x.1 with
        | .ok mv =>
          (Rs.Bitboard.make x.2.1 x.2.2.1 x.2.2.2.1 x.2.2.2.2.1 x.2.2.2.2.2.1 x.2.2.2.2.2.2 mv.1).bind fun y =>
            Rs.Bitboard.make_all_uci.for_1 R B K Ki W Bl SF Sf PF Pf fuel rest y.1 y.2.1 y.2.2.1 y.2.2.2.1 y.2.2.2.2.1 y.2.2.2.2.2
              (pu ++ [(mv.1, mv.2)])
        | .error er =>
          (Rs.Bitboard.make_all_uci.for_2 (List.reverse pu) x.2.1 x.2.2.1 x.2.2.2.1 x.2.2.2.2.1 x.2.2.2.2.2.1 x.2.2.2.2.2.2).bind fun y =>
            some (Rs.Ctl.ret (Except.error er, y.1, y.2.1, y.2.2.1, y.2.2.2.1, y.2.2.2.2.1, y.2.2.2.2.2)) := by
  rw [Rs.Bitboard.make_all_uci.for_1]
  cases hfu : Rs.Bitboard.find_uci w bl t e f hm uci R B K Ki W Bl SF Sf PF Pf fuel with
  | none => rfl
  | some x =>
    obtain ⟨r, w', bl', t', e', f', hm'⟩ := x
    cases r with
    | ok mv => rfl
    | error er => rfl

/-- the model's error kind of a translated result -/
def uciResKind {α : Type} : Except Rs.MoveFromUciError α → Except UciErr α
  | .ok a => .ok a
  | .error e => .error (uciErrKind e)

theorem searchInv_congr {k : Nat} {b b' : Board} (h : vis b = vis b') (hi : Search.Inv k b) : Search.Inv k b' := by
  obtain ⟨h1, h2, h3⟩ := hi
  have e1 : b.halfmove = b'.halfmove := halfmove_congr h
  have e2 : b.fullmove = b'.fullmove := (congrArg Board.fullmove h : (vis b).fullmove = _)
  exact ⟨by rw [← wf_congr h]; exact h1, by omega, by omega⟩

section
variable {S P : Type} {fromIndex : Int → Option S} {mask : S → UInt64} {sqfen : S → List Char}
  {pfromIndex : Int → Option P} {pfen : P → Char}

/-- the main loop, started on any board `c` holding the position of `b` (well-formed with clock budget `ss.length`), with `made` made
so far (rollback possible: `Roll`) -/
theorem rs_make_all_loop (hs : SquareTables fromIndex mask sqfen) (hp : PieceLetters pfromIndex pfen) (fuel : Nat) (hf : 130 ≤ fuel)
    (orig : Board) :
    ∀ (ss : List String) (b c : Board) (made : List Board.Move), Search.Inv ss.length b → vis c = vis b → Roll made b orig →
      ∃ c', vis c' = vis (makeAllUciAux b ss made).2 ∧
        ((∃ pu, (makeAllUciAux b ss made).1 = .ok () ∧
            Rs.Bitboard.make_all_uci.for_1 rookF bishopF knightF kingF whitePawnF blackPawnF fromIndex sqfen pfromIndex pfen fuel
              (ss.map String.toList) (toRsSide c.white) (toRsSide c.black) c.turn c.ep c.fullmove c.halfmove (made.reverse.map encMove) =
            some (Rs.Ctl.next (toRsSide c'.white, toRsSide c'.black, (c'.turn : Int), (c'.ep : Int), (c'.fullmove : Int),
              (c'.halfmove : Int), pu))) ∨
         (∃ er, (makeAllUciAux b ss made).1 = .error (uciErrKind er) ∧ vis c' = vis orig ∧
            Rs.Bitboard.make_all_uci.for_1 rookF bishopF knightF kingF whitePawnF blackPawnF fromIndex sqfen pfromIndex pfen fuel
              (ss.map String.toList) (toRsSide c.white) (toRsSide c.black) c.turn c.ep c.fullmove c.halfmove (made.reverse.map encMove) =
            some (Rs.Ctl.ret (Except.error er, boardFields c'))))
  | [], b, c, made, _, hc, _ => ⟨c, hc, Or.inl ⟨_, rfl, rfl⟩⟩
  | s :: ss, b, c, made, hinv, hc, hroll => by
    have h : wf b = true := hinv.1
    obtain ⟨r, c1, hc1, e, hr, hgen, -⟩ := rs_find_uci_vis hs hp h hc s fuel hf
    have hv := findUci_vis h s
    rw [List.map_cons, make_all_for_1_cons, e, Option.bind_some]
    unfold makeAllUciAux
    revert hr hgen hv
    cases (findUci b s) with
    | mk res b' =>
    intro hr hgen hv
    simp only at hr hgen hv ⊢
    cases res with
    | error er =>
      cases r with
      | ok p => cases er <;> simp [uciResRel] at hr
      | error e' =>
        have hk : uciErrKind e' = er := by cases e' <;> cases er <;> simp_all [uciResRel, uciErrKind]
        obtain ⟨r1, r2⟩ := rs_rollback made c1 orig (hroll.congr hc1)
        obtain ⟨-, r3⟩ := rs_rollback made b' orig (hroll.congr hv)
        refine ⟨made.foldl (fun acc m => Board.unmake acc m) c1, r2.trans r3.symm, Or.inr ⟨e', by rw [hk], r2, ?_⟩⟩
        simp only [boardFields, List.map_reverse, List.reverse_reverse] at r1 ⊢
        rw [r1]; rfl
    | ok m =>
      cases r with
      | error e' => cases e' <;> simp [uciResRel] at hr
      | ok p =>
        have hp' : p = encMove m := hr
        subst hp'
        obtain ⟨hmg, hml⟩ := hgen m rfl
        have hwc1 : wf c1 = true := by rw [wf_congr hc1]; exact h
        have hm1 : m ∈ genPseudo c1 := by rw [genPseudo_congr hc1]; exact hmg
        have e1 := rs_make_generated hwc1 hm1
        simp only [boardFields] at e1
        have hinv' : Search.Inv ss.length (Board.make b' m) :=
          searchInv_congr (make_congr hv.symm m) (Search.make_inv ss.length b m hinv (Or.inl hmg) hml)
        have hroll' : Roll (m :: made) (Board.make b' m) orig := ⟨b, h, hmg, make_congr hv m, hroll⟩
        obtain ⟨c', hc', hres⟩ := rs_make_all_loop hs hp fuel hf orig ss (Board.make b' m) (Board.make c1 m) (m :: made) hinv'
          (make_congr (hc1.trans hv.symm) m) hroll'
        refine ⟨c', hc', ?_⟩
        simp only [boardFields, encMove, e1, Option.bind_some, List.reverse_cons, List.map_append, List.map_cons, List.map_nil] at hres ⊢
        exact hres

/-- **`Bitboard::make_all_uci` (translated from the current source) = `San.makeAllUci`** on a board that is well-formed with clock
budget `ss.length`: no panic; `Ok(())` exactly when the model accepts every move, else an error of the model's kind; the board left
holds the position of the model's board; after an error that is the ORIGINAL position (every made move has been taken back) -/
theorem rs_make_all_uci_eq (hs : SquareTables fromIndex mask sqfen) (hp : PieceLetters pfromIndex pfen)
    {b : Board} (ss : List String) (hinv : Search.Inv ss.length b) (fuel : Nat) (hf : 130 ≤ fuel) :
    ∃ r c', Rs.Bitboard.make_all_uci (toRsSide b.white) (toRsSide b.black) b.turn b.ep b.fullmove b.halfmove (ss.map String.toList)
        rookF bishopF knightF kingF whitePawnF blackPawnF fromIndex sqfen pfromIndex pfen fuel = some (r, boardFields c') ∧
      uciResKind r = (makeAllUci b ss).1 ∧ vis c' = vis (makeAllUci b ss).2 ∧
      (∀ e, (makeAllUci b ss).1 = .error e → vis (makeAllUci b ss).2 = vis b) := by
  obtain ⟨c', hc', hres⟩ := rs_make_all_loop hs hp fuel hf b ss b b [] hinv rfl (rfl : vis b = vis b)
  unfold Rs.Bitboard.make_all_uci makeAllUci
  simp only [List.reverse_nil, List.map_nil] at hres
  rcases hres with ⟨pu, h1, h2⟩ | ⟨er, h1, h2, h3⟩
  · refine ⟨.ok (), c', ?_, ?_, hc', ?_⟩
    · simp only [Option.bind_eq_bind, h2, Option.bind_some, Option.pure_def, boardFields]
    · rw [h1]; rfl
    · intro e he; rw [h1] at he; simp only [reduceCtorEq] at he
  · refine ⟨.error er, c', ?_, ?_, hc', ?_⟩
    · simp only [Option.bind_eq_bind, h3, Option.bind_some, Option.pure_def]
    · rw [h1]; rfl
    · intro _ _; exact hc'.symm.trans h2

end

#print axioms rs_unmake_vis
#print axioms rs_rollback
#print axioms rs_make_all_loop
#print axioms rs_make_all_uci_eq

/-! non-vacuity: the hypotheses are satisfiable (`demo_wf`; the demo position has clocks 3 / 1, far from the bounds), and the model
plays `e2e4 e7e5` there and rejects `e2e4 e2e4`, restoring the position -/
theorem demo_inv : Search.Inv 2 demoPos := ⟨demo_wf, by decide, by decide⟩
example : ∃ r c', Rs.Bitboard.make_all_uci (toRsSide demoPos.white) (toRsSide demoPos.black) demoPos.turn demoPos.ep demoPos.fullmove
    demoPos.halfmove (["e2e4", "e2e4"].map String.toList) rookF bishopF knightF kingF whitePawnF blackPawnF demoSqFrom
    (fun q => (squareString q).toList) demoPcFrom pieceLetter 130 = some (r, boardFields c') := by
  obtain ⟨r, c', h, -⟩ := rs_make_all_uci_eq demo_square_tables demo_piece_letters ["e2e4", "e2e4"] demo_inv 130 (Nat.le_refl _)
  exact ⟨r, c', h⟩
example : (match (makeAllUci demoPos ["e2e4", "e2e4"]).1 with | .error e => e == .notExist | .ok _ => false) = true := by
  decide +kernel
example : vis (makeAllUci demoPos ["e2e4", "e2e4"]).2 = vis demoPos := by decide +kernel

end Inkayaku.Translated
