import Inkayaku.Props.Translated.MakeUnmakeCommon
/-! Part of `Props/Translated`: see `Props/Translated/Basic.lean` for the overview and `MakeUnmakeCommon.lean` for the description of
the translation of `make` / `unmake`.

### n1. `Bitboard::{make, make_castle}` (board/src/board.rs) = `Board.makeF` (Model/Board.lean)

This file must not import `Unmake.lean` (and vice versa): a change of the Rust `unmake` must leave these theorems standing.
-/

set_option linter.unusedSimpArgs false

namespace Inkayaku.Translated
open Inkayaku.Board Inkayaku.Gen Inkayaku.MoveBits Inkayaku.BoardCongr

/-- `make_castle` on `toRsSide s` -/
theorem rs_make_castle_eq (s : Side) (rs ks rt kt : UInt64) :
    Rs.Bitboard.make_castle (toRsSide s) rs ks rt kt =
      some (toRsSide { s with rooks := clearBit s.rooks rs ||| rt, kings := clearBit s.kings ks ||| kt }) := by
  unfold Rs.Bitboard.make_castle
  simp only [rooks_index, kings_index, Option.bind_eq_bind, Option.bind_some, Option.pure_def,
    side_idx _ 4 (by decide), side_idx _ 6 (by decide), side_set _ 4 (by decide), side_set _ 6 (by decide), side_with_occ]
  rfl
#print axioms rs_make_castle_eq

theorem rs_make_eq (b : Board) (bits : UInt64)
    (hturn : b.turn ≤ 1) (hfull : b.fullmove + b.turn < 4294967296)
    (hhalf : (decode bits).halfmoveReset = false → b.halfmove + 1 < 4294967296)
    (hC : (decode bits).castle = true → castleRook (decode bits).target ≠ none)
    (hP : (decode bits).castle = false → (decode bits).enPassant = false →
      (decode bits).pieceAttacked < 7 ∧
        (if (decode bits).promotion != 0 then (decode bits).promotion < 7 else (decode bits).pieceMoved < 7)) :
    Rs.Bitboard.make (toRsSide b.white) (toRsSide b.black) b.turn b.ep b.fullmove b.halfmove bits =
      some (boardFields (makeF b (decode bits))) := by
  have htg := target_lt bits
  have hsrc := source_lt bits
  have hprom : (decode bits).promotion < 18446744073709551616 := field_lt64 _ _ _
  have hpm : (decode bits).pieceMoved < 18446744073709551616 := field_lt64 _ _ _
  have hpa : (decode bits).pieceAttacked < 18446744073709551616 := field_lt64 _ _ _
  have hnep : (decode bits).nextEp < 4294967296 := by
    show field bits nextEnPassantMask nextEnPassantShift < 4294967296
    rw [field_eq bits nextEnPassantMask nextEnPassantShift 6 (by decide) (by decide) (by decide)]
    exact Nat.lt_of_lt_of_le (Nat.mod_lt _ (by decide)) (by decide)
  unfold Rs.Bitboard.make
  obtain ⟨f1, f2, f3, f4, f5, f6, f7, f8, f9, f10, f11, f12, f13, f14, f15, f16⟩ := fold_decode bits
  simp only [rs_is_halfmove_reset, rs_get_next_en_passant_square, rs_is_self_lost_king_side_castle,
    rs_is_self_lost_queen_side_castle, rs_is_opponent_lost_king_side_castle, rs_is_opponent_lost_queen_side_castle,
    rs_get_piece_moved, rs_get_promotion_piece,
    rs_get_piece_attacked, rs_get_source_square, rs_get_target_square, rs_is_castle_move, rs_is_en_passant_attack,
    rs_is_promotion, f1, f2, f3, f4, f5, f6, f7, f8, f9, f10, f11, f12, f13, f14, f15, f16]
  clear f1 f2 f3 f4 f5 f6 f7 f8 f9 f10 f11 f12 f13 f14 f15 f16
  generalize decode bits = f at *
  clear bits
  have hfullchk : Rs.chk Rs.Ty.u32 ((b.fullmove : Int) + (b.turn : Int)) = some ((b.fullmove + b.turn : Nat) : Int) := by
    rw [Rs.chk_u32 (by omega) (by omega)]; rfl
  simp only [rs_is_white_turn_eq, hfullchk, rs_opposite_turn_eq b.turn hturn, Option.bind_eq_bind, Option.bind_some,
    Option.pure_def, shl_one _ hsrc, shl_one _ htg]
  have hhchk : (if f.halfmoveReset = true then some 0 else Rs.chk Rs.Ty.u32 ((b.halfmove : Int) + 1)) =
      some (((if f.halfmoveReset then 0 else b.halfmove + 1 : Nat)) : Int) := by
    cases hr : f.halfmoveReset
    · have := hhalf hr
      simp only [Bool.false_eq_true, if_false]
      rw [Rs.chk_u32 (by omega) (by omega)]; rfl
    · rfl
  simp only [hhchk, Option.bind_some]
  have hT : b.turn = 0 ∨ b.turn = 1 := by omega
  obtain ⟨mA1, mD1, mF1, mH1, mA8, mD8, mF8, mH8⟩ := castle_masks
  rw [makeF_eq]
  unfold mkMover mkOther
  rcases hT with hT | hT <;>
  · simp only [hT, show ((1 - 0 : Nat) == 0) = false from rfl, show ((0 : Nat) == 0) = true from rfl,
      show ((1 - 1 : Nat) == 0) = true from rfl, show ((1 : Nat) == 0) = false from rfl, Bool.false_eq_true,
      if_false, if_true, flags2, Board.whiteTurn, Board.active, Board.passive, boardFields]
    cases hcas : f.castle
    · simp only [Bool.false_eq_true, if_false]
      cases hep : f.enPassant
      · simp only [Bool.false_eq_true, if_false]
        obtain ⟨hpa7, hx⟩ := hP hcas hep
        cases hpr : (f.promotion != 0)
        · -- normal move
          simp only [hpr, Bool.false_eq_true, if_false] at hx ⊢
          simp only [occ_index _ hpm, occ_index _ hpa, Option.bind_some, side_idx _ _ hx, side_idx _ _ hpa7,
            side_set _ _ hx, side_set _ _ hpa7, repack, toRs_qs, toRs_ks, get_set_same _ _ hx, set_set_same, NO_PIECE,
            with_flags_set _ _ _ _ _ rfl rfl, clearBit, Nat.sub_zero, Nat.add_zero, hpr, Bool.false_eq_true, if_false, if_true]
        · -- promotion
          simp only [hpr, if_true] at hx ⊢
          simp only [occ_index _ hprom, occ_index _ hpa, pawns_index, Option.bind_some, side_idx _ _ hx, side_idx _ _ hpa7,
            side_idx _ 1 (by decide), side_set _ 1 (by decide),
            side_set _ _ hx, side_set _ _ hpa7, repack, toRs_qs, toRs_ks, NO_PIECE, set_one, get_one,
            with_flags_set _ _ _ _ _ rfl rfl, clearBit, Nat.sub_zero, Nat.add_zero, hpr, Bool.false_eq_true, if_false, if_true]
      · -- en passant
        simp only [if_true, pawns_index, Option.bind_some, side_idx _ 1 (by decide), side_set _ 1 (by decide), shl8, shr8,
          repack, toRs_qs, toRs_ks, set_one, get_one, clearBit, epVictim, Nat.sub_zero, Nat.add_zero, Bool.false_eq_true,
          if_false, if_true]
    · -- castle
      have hr := hC hcas
      simp only [if_true]
      unfold castleRook at hr ⊢
      have c1 : Rs.C1 = ((C1 : Nat) : Int) := rfl
      have g1 : Rs.G1 = ((G1 : Nat) : Int) := rfl
      have c8 : Rs.C8 = ((C8 : Nat) : Int) := rfl
      have g8 : Rs.G8 = ((G8 : Nat) : Int) := rfl
      simp only [c1, g1, c8, g8, Int.natCast_inj, mA1, mD1, mF1, mH1, mA8, mD8, mF8, mH8, Option.bind_some,
        rs_make_castle_eq]
      by_cases t1 : f.target = C1
      · simp [t1, C1, G1]
      · by_cases t2 : f.target = G1
        · simp [t2, G1, C1]
        · by_cases t3 : f.target = C8
          · simp [t3, C8, G1, C1]
          · by_cases t4 : f.target = G8
            · simp [t4, G8, C8, G1, C1]
            · exfalso; simp [t1, t2, t3, t4] at hr

#print axioms rs_make_eq

/-- `make` on a model move -/
theorem rs_make_move_eq (b : Board) (m : Board.Move)
    (hturn : b.turn ≤ 1) (hfull : b.fullmove + b.turn < 4294967296)
    (hhalf : m.f.halfmoveReset = false → b.halfmove + 1 < 4294967296)
    (hC : m.f.castle = true → castleRook m.f.target ≠ none)
    (hP : m.f.castle = false → m.f.enPassant = false →
      m.f.pieceAttacked < 7 ∧ (if m.f.promotion != 0 then m.f.promotion < 7 else m.f.pieceMoved < 7)) :
    Rs.Bitboard.make (toRsSide b.white) (toRsSide b.black) b.turn b.ep b.fullmove b.halfmove m.bits =
      some (boardFields (Board.make b m)) :=
  rs_make_eq b m.bits hturn hfull hhalf hC hP

#print axioms rs_make_move_eq

/-! non-vacuity: 1. e2-e4 on a small position (`Demo.lean`); a piece code 7 panics (array of 7) -/
example : Rs.Bitboard.make (toRsSide demoPos.white) (toRsSide demoPos.black) 0 0 1 3 demoMove.bits =
    some (boardFields (Board.make demoPos demoMove)) :=
  rs_make_move_eq demoPos demoMove (by decide) (by decide) (by decide) (by decide) (by decide)
example : Rs.Bitboard.make (toRsSide demoPos.white) (toRsSide demoPos.black) 0 0 1 3 (encode { pieceMoved := 7, source := 52, target := 36 }) = none := by
  decide

end Inkayaku.Translated
