import Inkayaku.Props.Translated.PgnBytes
/-! Part of `Props/Translated` (round 5, property C17): the LOOPS of the PGN reader (generated module `Pgn`, monadic mode; every Rust loop
is a definition `….loop_1 rd fuel k state` by recursion on the counter `k`) against the fuel-indexed model loops of `Model/Pgn.lean`:
`skip_blank_lines`, `skip_blank_lines_and_spaces`, `skip_spaces`, `skip_to_next_line`, `read_until`, `read_token`.
All statements are simulations `Sim` (`PgnBuffer.lean`): whenever the translated method returns (no panic, counter not exhausted) the
model program ends in the corresponding state with the related result.  (When the counter runs out the translation is `none`, the model
answers `Err(closed)`; `C17.fuel_adequate`: the model's fuel `input.length + 1` never runs out.) -/

set_option linter.unusedSimpArgs false
set_option linter.unusedSectionVars false

namespace Inkayaku.Translated
open Inkayaku.Pgn Inkayaku.C17

/-- result of a loop definition against the result of the model loop: `Ctl.next s` (loop ended) / `Ctl.ret (Ok r)` (the function returned
from inside the loop) against `Ok b`; `Ctl.ret (Err e)` against `Err` of the same kind -/
def relCtl {ρ σ β : Type} (rn : σ → β → Prop) (rr : ρ → β → Prop) : Rs.Ctl (Except Rs.PgnRawParserError ρ) σ → Except Err β → Prop
  | .next s, .ok b => rn s b
  | .ret (.ok r), .ok b => rr r b
  | .ret (.error e), .error e' => pgnErrKind e = e'
  | _, _ => False

/-- the code points of a Rust `String` built by `push(byte as char)` -/
def strOf (l : List UInt8) : List Char := l.map (fun b => Char.ofNat b.toNat)

theorem strOf_append (a b : List UInt8) : strOf (a ++ b) = strOf a ++ strOf b := by simp [strOf]

theorem char_of_byteI (b : UInt8) : Char.ofNat (Int.toNat (byteI b)) = Char.ofNat b.toNat := by
  simp [byteI]

theorem byteI_beq (b c : UInt8) : (byteI b == byteI c) = decide (b = c) := by
  by_cases h : b = c
  · subst h; simp
  · have : ¬ byteI b = byteI c := fun e => h (byteI_inj e)
    simp [h, this]

theorem byteI_bne (b c : UInt8) : (byteI b != byteI c) = !decide (b = c) := by
  rw [bne, byteI_beq]

section
variable {E : Type} (rd : Reader → List Int → Except E Int × Reader × List Int) (hrd : ReadModel rd)
include hrd

/-- the wrapper `match (← loop) with | Ctl.ret r => return r | Ctl.next _ => ..; return Ok(())` of the `skip_*` methods -/
theorem sim_unit_loop {m : Rs.RsM (Rs.PgnRawParser Reader) (Rs.Ctl (Except Rs.PgnRawParserError Unit) Unit)} {p : M Unit}
    (h : Sim m p (relCtl (fun _ _ => True) (fun _ _ => False))) :
    Sim (m >>= fun c => match c with | Rs.Ctl.ret r => pure r | Rs.Ctl.next _ => pure (Except.ok ())) p (relRes (fun _ _ => True)) := by
  intro s a t hg hm
  rw [run_bind] at hm
  cases hc : m (toRs s) with
  | none => rw [hc] at hm; cases hm
  | some x =>
    obtain ⟨c, s1⟩ := x
    rw [hc] at hm
    obtain ⟨e1, e2⟩ := h s c s1 hg hc
    subst e1
    cases c with
    | next u =>
      dsimp only [] at hm
      rw [run_pure] at hm; cases hm
      refine ⟨rfl, ?_⟩
      cases hr : (run p s).1 with
      | ok b => trivial
      | error e => rw [hr] at e2; exact absurd e2 id
    | ret r =>
      dsimp only [] at hm
      rw [run_pure] at hm; cases hm
      refine ⟨rfl, ?_⟩
      cases a with
      | ok u => cases hr : (run p s).1 <;> rw [hr] at e2 <;> exact absurd e2 id
      | error e =>
        cases hr : (run p s).1 with
        | ok b => rw [hr] at e2; exact absurd e2 id
        | error e' => rw [hr] at e2; exact e2

theorem rs_skip_blank_lines_loop (fuel : Nat) : ∀ k, Sim (Rs.PgnRawParser.skip_blank_lines.loop_1 rd fuel k) (skipBlankLines k)
    (relCtl (fun _ _ => True) (fun _ _ => False)) := by
  intro k
  induction k with
  | zero => rw [Rs.PgnRawParser.skip_blank_lines.loop_1]; exact sim_panic
  | succ k ih =>
    rw [Rs.PgnRawParser.skip_blank_lines.loop_1]
    unfold skipBlankLines M.bind
    refine sim_bind (rs_peek_byte_sim rd hrd) (fun a b hab => ?_)
    match a, b, hab with
    | .error e, .error e', hab => exact sim_pure hab
    | .ok _, .error _, hab => exact absurd hab id
    | .error _, .ok _, hab => exact absurd hab id
    | .ok v, .ok b, hab =>
      have hv : v = byteI b := hab
      subst hv
      dsimp only []
      refine sim_pure_bind ?_
      rw [show (10 : Int) = byteI NL from rfl, byteI_beq]
      by_cases hb : b = NL
      · rw [if_neg (by simp [hb]), if_pos hb]
        refine sim_bind (rs_skip_byte_sim rd hrd) (fun a b hab => ?_)
        match a, b, hab with
        | .error e, .error e', hab => exact sim_pure hab
        | .ok _, .error _, hab => exact absurd hab id
        | .error _, .ok _, hab => exact absurd hab id
        | .ok v, .ok b, hab => exact ih
      · rw [if_pos (decide_eq_false hb), if_neg hb]
        exact sim_pure trivial

/-- **`skip_blank_lines` = `skipBlankLines`** -/
theorem rs_skip_blank_lines_sim (fuel : Nat) : Sim (Rs.PgnRawParser.skip_blank_lines rd fuel) (skipBlankLines fuel) (relRes (fun _ _ => True)) := by
  unfold Rs.PgnRawParser.skip_blank_lines
  exact sim_unit_loop rd hrd (rs_skip_blank_lines_loop rd hrd fuel fuel)


theorem rs_skip_spaces_loop (fuel : Nat) : ∀ k, Sim (Rs.PgnRawParser.skip_spaces.loop_1 rd fuel k) (skipSpaces k)
    (relCtl (fun _ _ => True) (fun _ _ => False)) := by
  intro k
  induction k with
  | zero => rw [Rs.PgnRawParser.skip_spaces.loop_1]; exact sim_panic
  | succ k ih =>
    rw [Rs.PgnRawParser.skip_spaces.loop_1]
    unfold skipSpaces M.bind
    refine sim_bind (rs_peek_byte_sim rd hrd) (fun a b hab => ?_)
    match a, b, hab with
    | .error e, .error e', hab => exact sim_pure hab
    | .ok _, .error _, hab => exact absurd hab id
    | .error _, .ok _, hab => exact absurd hab id
    | .ok v, .ok b, hab =>
      have hv : v = byteI b := hab
      subst hv
      dsimp only []
      refine sim_pure_bind ?_
      rw [show (32 : Int) = byteI SP from rfl, byteI_beq]
      by_cases hb : b = SP
      · rw [if_neg (by simp [hb]), if_pos hb]
        refine sim_bind (rs_skip_byte_sim rd hrd) (fun a b hab => ?_)
        match a, b, hab with
        | .error e, .error e', hab => exact sim_pure hab
        | .ok _, .error _, hab => exact absurd hab id
        | .error _, .ok _, hab => exact absurd hab id
        | .ok v, .ok b, hab => exact ih
      · rw [if_pos (decide_eq_false hb), if_neg hb]
        exact sim_pure trivial

/-- **`skip_spaces` = `skipSpaces`** -/
theorem rs_skip_spaces_sim (fuel : Nat) : Sim (Rs.PgnRawParser.skip_spaces rd fuel) (skipSpaces fuel) (relRes (fun _ _ => True)) := by
  unfold Rs.PgnRawParser.skip_spaces
  exact sim_unit_loop rd hrd (rs_skip_spaces_loop rd hrd fuel fuel)

theorem rs_skip_to_next_line_loop (fuel : Nat) : ∀ k, Sim (Rs.PgnRawParser.skip_to_next_line.loop_1 rd fuel k) (skipToNextLine k)
    (relCtl (fun _ _ => True) (fun _ _ => False)) := by
  intro k
  induction k with
  | zero => rw [Rs.PgnRawParser.skip_to_next_line.loop_1]; exact sim_panic
  | succ k ih =>
    rw [Rs.PgnRawParser.skip_to_next_line.loop_1]
    unfold skipToNextLine M.bind
    refine sim_bind (rs_pop_byte_sim rd hrd) (fun a b hab => ?_)
    match a, b, hab with
    | .error e, .error e', hab => exact sim_pure hab
    | .ok _, .error _, hab => exact absurd hab id
    | .error _, .ok _, hab => exact absurd hab id
    | .ok v, .ok b, hab =>
      have hv : v = byteI b := hab
      subst hv
      dsimp only []
      refine sim_pure_bind ?_
      rw [show (10 : Int) = byteI NL from rfl, byteI_bne]
      by_cases hb : b = NL
      · rw [if_pos (by simp [hb]), if_neg (by simp [hb])]
        exact sim_pure trivial
      · rw [if_neg (by rw [decide_eq_false hb]; decide), if_pos hb]
        exact ih

/-- **`skip_to_next_line` = `skipToNextLine`** -/
theorem rs_skip_to_next_line_sim (fuel : Nat) : Sim (Rs.PgnRawParser.skip_to_next_line rd fuel) (skipToNextLine fuel) (relRes (fun _ _ => True)) := by
  unfold Rs.PgnRawParser.skip_to_next_line
  exact sim_unit_loop rd hrd (rs_skip_to_next_line_loop rd hrd fuel fuel)

theorem rs_skip_blank_lines_and_spaces_loop (fuel : Nat) : ∀ k, Sim (Rs.PgnRawParser.skip_blank_lines_and_spaces.loop_1 rd fuel k)
    (skipBlankLinesAndSpaces k) (relCtl (fun _ _ => True) (fun _ _ => False)) := by
  intro k
  induction k with
  | zero => rw [Rs.PgnRawParser.skip_blank_lines_and_spaces.loop_1]; exact sim_panic
  | succ k ih =>
    -- the continuation after the (short-circuit) loop condition
    have jp : Sim (Rs.PgnRawParser.skip_byte rd >>= fun x => match x with
          | Except.ok _ => Rs.PgnRawParser.skip_blank_lines_and_spaces.loop_1 rd fuel k
          | Except.error e => pure (Rs.Ctl.ret (Except.error e)))
        (M.bind skipByte (fun _ => skipBlankLinesAndSpaces k)) (relCtl (fun _ _ => True) (fun _ _ => False)) := by
      unfold M.bind
      refine sim_bind (rs_skip_byte_sim rd hrd) (fun a b hab => ?_)
      match a, b, hab with
      | .error e, .error e', hab => exact sim_pure hab
      | .ok _, .error _, hab => exact absurd hab id
      | .error _, .ok _, hab => exact absurd hab id
      | .ok v, .ok b, hab => exact ih
    rw [Rs.PgnRawParser.skip_blank_lines_and_spaces.loop_1]
    unfold skipBlankLinesAndSpaces
    rw [M.bind]
    refine sim_bind (rs_peek_byte_sim rd hrd) (fun a b hab => ?_)
    match a, b, hab with
    | .error e, .error e', hab => exact sim_pure hab
    | .ok _, .error _, hab => exact absurd hab id
    | .error _, .ok _, hab => exact absurd hab id
    | .ok v, .ok b, hab =>
      have hv : v = byteI b := hab
      subst hv
      dsimp only []
      refine sim_pure_bind ?_
      rw [show (10 : Int) = byteI NL from rfl, byteI_beq]
      by_cases hb : b = NL
      · rw [if_pos (by simp [hb]), if_pos hb]
        refine sim_pure_bind ?_
        rw [if_neg (by decide)]
        exact jp
      · rw [if_neg (by rw [decide_eq_false hb]; decide), if_neg hb]
        rw [M.bind]
        refine sim_bind (rs_peek_byte_sim rd hrd) (fun a b hab => ?_)
        match a, b, hab with
        | .error e, .error e', hab => exact sim_pure hab
        | .ok _, .error _, hab => exact absurd hab id
        | .error _, .ok _, hab => exact absurd hab id
        | .ok v, .ok b2, hab =>
          have hv : v = byteI b2 := hab
          subst hv
          dsimp only []
          refine sim_pure_bind (sim_pure_bind ?_)
          rw [show (32 : Int) = byteI SP from rfl, byteI_beq]
          by_cases hb2 : b2 = SP
          · rw [if_neg (by simp [hb2]), if_pos hb2]
            exact jp
          · rw [if_pos (decide_eq_false hb2), if_neg hb2]
            exact sim_pure trivial

/-- **`skip_blank_lines_and_spaces` = `skipBlankLinesAndSpaces`** (the loop condition peeks twice) -/
theorem rs_skip_blank_lines_and_spaces_sim (fuel : Nat) :
    Sim (Rs.PgnRawParser.skip_blank_lines_and_spaces rd fuel) (skipBlankLinesAndSpaces fuel) (relRes (fun _ _ => True)) := by
  unfold Rs.PgnRawParser.skip_blank_lines_and_spaces
  exact sim_unit_loop rd hrd (rs_skip_blank_lines_and_spaces_loop rd hrd fuel fuel)


theorem rs_read_until_loop (fuel : Nat) (byte : UInt8) : ∀ k (result : List UInt8) (cur : UInt8),
    Sim (Rs.PgnRawParser.read_until.loop_1 rd fuel (byteI byte) k (strOf result) (byteI cur)) (readUntilLoop byte k result cur)
      (relCtl (fun st out => st.1 = strOf out) (fun _ _ => False)) := by
  intro k
  induction k with
  | zero => intro result cur; rw [Rs.PgnRawParser.read_until.loop_1]; exact sim_panic
  | succ k ih =>
    intro result cur
    rw [Rs.PgnRawParser.read_until.loop_1]
    unfold readUntilLoop
    rw [byteI_bne]
    by_cases hb : cur = byte
    · rw [if_pos (by rw [decide_eq_true hb]; decide), if_neg (by simp [hb])]
      exact sim_pure rfl
    · rw [if_neg (by rw [decide_eq_false hb]; decide), if_pos hb]
      dsimp only []
      rw [M.bind]
      refine sim_bind (rs_skip_byte_sim rd hrd) (fun a b hab => ?_)
      match a, b, hab with
      | .error e, .error e', hab => exact sim_pure hab
      | .ok _, .error _, hab => exact absurd hab id
      | .error _, .ok _, hab => exact absurd hab id
      | .ok v, .ok b, hab =>
        dsimp only []
        rw [M.bind]
        refine sim_bind (rs_peek_byte_sim rd hrd) (fun a b hab => ?_)
        match a, b, hab with
        | .error e, .error e', hab => exact sim_pure hab
        | .ok _, .error _, hab => exact absurd hab id
        | .error _, .ok _, hab => exact absurd hab id
        | .ok v, .ok nxt, hab =>
          have hv : v = byteI nxt := hab
          subst hv
          dsimp only []
          refine sim_pure_bind ?_
          have := ih (result ++ [cur]) nxt
          rw [strOf_append] at this
          rw [char_of_byteI]
          exact this

/-- **`read_until` = `readUntil`** (the string is the list of code points `byte as char`) -/
theorem rs_read_until_sim (fuel : Nat) (byte : UInt8) :
    Sim (Rs.PgnRawParser.read_until rd fuel (byteI byte)) (readUntil fuel byte) (relRes (fun r out => r = strOf out)) := by
  unfold Rs.PgnRawParser.read_until readUntil
  dsimp only []
  rw [M.bind]
  refine sim_bind (rs_peek_byte_sim rd hrd) (fun a b hab => ?_)
  match a, b, hab with
  | .error e, .error e', hab => exact sim_pure hab
  | .ok _, .error _, hab => exact absurd hab id
  | .error _, .ok _, hab => exact absurd hab id
  | .ok v, .ok cur, hab =>
    have hv : v = byteI cur := hab
    subst hv
    dsimp only []
    refine sim_pure_bind ?_
    have hl := rs_read_until_loop rd hrd fuel byte fuel [] cur
    intro s a t hg hm
    rw [run_bind] at hm
    cases hc : Rs.PgnRawParser.read_until.loop_1 rd fuel (byteI byte) fuel [] (byteI cur) (toRs s) with
    | none => rw [hc] at hm; cases hm
    | some x =>
      obtain ⟨c, s1⟩ := x
      rw [hc] at hm
      obtain ⟨e1, e2⟩ := hl s c s1 hg hc
      subst e1
      cases c with
      | next st =>
        obtain ⟨r1, c1⟩ := st
        dsimp only [] at hm
        rw [run_pure] at hm; cases hm
        refine ⟨rfl, ?_⟩
        cases hr : (run (readUntilLoop byte fuel [] cur) s).1 with
        | ok b => rw [hr] at e2; exact e2
        | error e => rw [hr] at e2; exact absurd e2 id
      | ret r =>
        dsimp only [] at hm
        rw [run_pure] at hm; cases hm
        refine ⟨rfl, ?_⟩
        cases a with
        | ok u => cases hr : (run (readUntilLoop byte fuel [] cur) s).1 <;> rw [hr] at e2 <;> exact absurd e2 id
        | error e =>
          cases hr : (run (readUntilLoop byte fuel [] cur) s).1 with
          | ok b => rw [hr] at e2; exact absurd e2 id
          | error e' => rw [hr] at e2; exact e2


theorem rs_read_token_loop (fuel : Nat) : ∀ k (result : List UInt8),
    Sim (Rs.PgnRawParser.read_token.loop_1 rd fuel k (strOf result)) (readTokenLoop k result)
      (fun c out => c = Rs.Ctl.next (strOf out)) := by
  intro k
  induction k with
  | zero => intro result; rw [Rs.PgnRawParser.read_token.loop_1]; exact sim_panic
  | succ k ih =>
    intro result s a t hg hm
    rw [Rs.PgnRawParser.read_token.loop_1] at hm
    rcases peek_cases rd hrd s hg with ⟨b, s1, h1, h2, h3, h4, g1, g2⟩ | ⟨s1, h1, h2, _⟩
    · rw [bind_some h2, if_neg (by decide), bind_some (run_get _), bind_some (run_get _), bind_some (idx_run rd hrd s1 b h3 _)] at hm
      dsimp only [] at hm
      rw [show (32 : Int) = byteI SP from rfl, show (10 : Int) = byteI NL from rfl, byteI_beq, byteI_beq] at hm
      by_cases hbl : (b = SP || b = NL) = true
      · have hbl' : (decide (b = SP) || decide (b = NL)) = true := by simpa using hbl
        rw [if_pos hbl', run_pure] at hm
        cases hm
        have hm : run (readTokenLoop (k + 1) result) s = (result, s1) := by
          simp only [readTokenLoop, run, Source.peek, h1, hbl]
          rfl
        rw [hm]
        exact ⟨rfl, rfl⟩
      · have hbl' : ¬ (decide (b = SP) || decide (b = NL)) = true := by simpa using hbl
        rw [if_neg hbl'] at hm
        rw [bind_some h4, char_of_byteI] at hm
        have := ih (result ++ [b]) s1.incr a t g2 (by rw [strOf_append]; exact hm)
        have hm2 : run (readTokenLoop (k + 1) result) s = run (readTokenLoop k (result ++ [b])) s1.incr := by
          simp only [readTokenLoop, run, Source.peek, h1, hbl]
          rfl
        rw [hm2]
        exact this
    · rw [bind_some h2, if_pos rfl, run_pure] at hm
      cases hm
      have hm : run (readTokenLoop (k + 1) result) s = (result, s1) := by
        simp only [readTokenLoop, run, Source.peek, h1]
      rw [hm]
      exact ⟨rfl, rfl⟩

/-- **`read_token` = `readToken`** (`while self.ensure_buffer() { .. break .. }`: reads up to a blank or the end of the input) -/
theorem rs_read_token_sim (fuel : Nat) :
    Sim (Rs.PgnRawParser.read_token rd fuel) (readToken fuel) (fun r out => ∃ o, out = .ok o ∧ r = strOf o) := by
  unfold Rs.PgnRawParser.read_token readToken
  dsimp only []
  refine sim_bind (rs_read_token_loop rd hrd fuel fuel []) (fun c out hc => ?_)
  subst hc
  dsimp only []
  exact sim_pure ⟨_, rfl, rfl⟩

#print axioms rs_skip_blank_lines_sim
#print axioms rs_skip_blank_lines_and_spaces_sim
#print axioms rs_skip_spaces_sim
#print axioms rs_skip_to_next_line_sim
#print axioms rs_read_until_sim
#print axioms rs_read_token_sim

end
end Inkayaku.Translated
