import Inkayaku.Props.Translated.GenerateScan
/-! Part of `Props/Translated`: see `Props/Translated/Basic.lean` for the overview.

### s. pawn moves of the generator: `Bitboard::{generate_pawn_promotion, generate_pawn_promotions, generate_pawn_attacks,
pawn_attacks, pawn_moves}` (board/src/board.rs; generated module `Generate`) = `Board.promotions`, `pawnAttacks`, `pawnMoves`
(Model/Board.lean) AS LISTS, in the same order

Exact panic conditions that remain as hypotheses:
* `pawn_attacks`: `1 << self.en_passant_square_shift` needs `b.ep < 64` (the model's `bitU` would wrap);
* `pawn_moves`: no pawn of the side to move on rank 1 / rank 8 (`hpawn`): there `trailing_zeros` of the empty single-step mask is
  64 and the piece lookup `1 << 64` inside `make_move` panics (the model continues with a wrapped shift).
The e.p. victim arithmetic of `make_move` (`target ± 8`) cannot panic here: an e.p. capture is only generated for a target that is
neither on rank 1 nor on rank 8 (`rank_mid`).
-/

set_option linter.unusedSimpArgs false

namespace Inkayaku.Translated
open Inkayaku.Board Inkayaku.Gen Inkayaku.Bits

/-! #### promotions -/

theorem rs_generate_pawn_promotion_eq (b : Board) (acc : List Board.Move) (src tgt p : Nat) (hp : p ≤ 6) (ht : tgt < 64) :
    Rs.Bitboard.generate_pawn_promotion (toRsSide b.white) (toRsSide b.black) b.turn b.ep b.halfmove (acc.map encMove) src tgt
        p.toUInt64 = some ((pushOpt acc (mkMove b false src tgt PAWN false false p 0)).map encMove) := by
  unfold Rs.Bitboard.generate_pawn_promotion
  rw [rs_flag_consts.2.1, rs_flag_consts.2.2.2.1, rs_flag_consts.2.2.2.2, rs_piece_consts.2.1]
  rw [rs_make_move_push b acc false src tgt PAWN false false p 0 (by decide) hp (by cases b.whiteTurn <;> simpa using ht)
    (by intro _ h; cases h)]

theorem rs_generate_pawn_promotions_eq (b : Board) (acc : List Board.Move) (src tgt : Nat) (ht : tgt < 64) :
    Rs.Bitboard.generate_pawn_promotions (toRsSide b.white) (toRsSide b.black) b.turn b.ep b.halfmove (acc.map encMove) src tgt =
      some ((promotions b src tgt acc).map encMove) := by
  unfold Rs.Bitboard.generate_pawn_promotions promotions
  obtain ⟨-, -, h2, h3, h4, h5, -⟩ := rs_piece_consts
  rw [h2, h3, h4, h5]
  simp only [Option.bind_eq_bind, Option.bind_some, Option.pure_def, List.foldl_cons, List.foldl_nil,
    rs_generate_pawn_promotion_eq b _ src tgt _ (by decide : QUEEN ≤ 6) ht,
    rs_generate_pawn_promotion_eq b _ src tgt _ (by decide : ROOK ≤ 6) ht,
    rs_generate_pawn_promotion_eq b _ src tgt _ (by decide : BISHOP ≤ 6) ht,
    rs_generate_pawn_promotion_eq b _ src tgt _ (by decide : KNIGHT ≤ 6) ht]


/-! #### pawn captures -/

theorem ep_mask (e : Bool) :
    (if e = true then Rs.EN_PASSANT_ATTACK_TRUE_MASK else Rs.EN_PASSANT_ATTACK_FALSE_MASK) = flagBits e enPassantAttackTrueMask := by
  cases e <;> decide

/-- a square that is neither on rank 8 nor on rank 1 -/
theorem rank_mid : ∀ t, t < 64 → (bitU t &&& rank8.toUInt64 != 0 || bitU t &&& rank1.toUInt64 != 0) = false → 8 ≤ t ∧ t < 56 := by
  decide +kernel

theorem decide_natCast_eq (t n : Nat) : decide ((t : Int) = (n : Int)) = (t == n) := by
  by_cases h : t = n
  · subst h; simp
  · have : ¬ ((t : Int) = (n : Int)) := by omega
    simp [h, this]

theorem rs_generate_pawn_attacks_eq (b : Board) (acc : List Board.Move) (att : UInt64) (src : Nat) (fuel : Nat) (hf : 65 ≤ fuel) :
    Rs.Bitboard.generate_pawn_attacks (toRsSide b.white) (toRsSide b.black) b.turn b.ep b.halfmove (acc.map encMove) att src fuel =
      some (((bitsAsc att).foldl (fun acc tgt =>
        if bitU tgt &&& rank8.toUInt64 != 0 || bitU tgt &&& rank1.toUInt64 != 0 then promotions b src tgt acc
        else pushOpt acc (mkMove b false src tgt PAWN false (tgt == b.ep) NO_PIECE 0)) acc).map encMove) := by
  unfold Rs.Bitboard.generate_pawn_attacks
  have key := scan_loop
    (fun fuel st x => Rs.Bitboard.generate_pawn_attacks.while_1 (toRsSide b.white) (toRsSide b.black) b.turn b.ep b.halfmove src fuel st x)
    (List.map encMove)
    (fun acc tgt =>
        if bitU tgt &&& rank8.toUInt64 != 0 || bitU tgt &&& rank1.toUInt64 != 0 then promotions b src tgt acc
        else pushOpt acc (mkMove b false src tgt PAWN false (tgt == b.ep) NO_PIECE 0))
    0 (fun _ => True)
    (by intro fuel a; simp [Rs.Bitboard.generate_pawn_attacks.while_1])
    (by
      intro fuel a x hx _ _
      have ht := tz_lt x hx
      simp only [Rs.Bitboard.generate_pawn_attacks.while_1, ne_eq, hx, not_false_eq_true, if_true, rs_mask_and_shift x hx,
        Option.bind_eq_bind, Option.bind_some, rs_gen_consts.1, rs_gen_consts.2.2.2.1, Option.pure_def]
      generalize trailingZeros x = t at ht ⊢
      have hc : (if ¬bitU t &&& rank8.toUInt64 = 0 then some true else some (decide ¬bitU t &&& rank1.toUInt64 = 0)) =
          some (bitU t &&& rank8.toUInt64 != 0 || bitU t &&& rank1.toUInt64 != 0) := by
        by_cases h8 : bitU t &&& rank8.toUInt64 = 0 <;> by_cases h1 : bitU t &&& rank1.toUInt64 = 0 <;> simp [h8, h1]
      rw [hc, Option.bind_some]
      cases hr : (bitU t &&& rank8.toUInt64 != 0 || bitU t &&& rank1.toUInt64 != 0)
      · obtain ⟨h8, h56⟩ := rank_mid t ht hr
        simp only [Bool.false_eq_true, if_false, decide_natCast_eq, ep_mask, rs_flag_consts.2.1, rs_flag_consts.2.2.2.2,
          rs_piece_consts.1, rs_piece_consts.2.1]
        rw [rs_make_move_push b a false src t PAWN false (t == b.ep) NO_PIECE 0 (by decide) (by decide)
          (by cases b.whiteTurn <;> cases (t == b.ep) <;> simp <;> omega) (fun _ _ => h8)]
        rfl
      · simp only [if_true, rs_generate_pawn_promotions_eq b a src t ht, Option.bind_some])
    fuel att acc (fun _ _ => trivial) (by have := GenLength.bitsAsc_length_le att; omega)
  simp only [key, Option.bind_eq_bind, Option.bind_some, Option.pure_def]


theorem rank18_eq : rank18 = rank1.toUInt64 ||| rank8.toUInt64 := by decide +kernel

theorem rs_pawn_attacks_eq (b : Board) (acc : List Board.Move) (pawnOcc activeOcc passiveOcc : UInt64) (hep : b.ep < 64)
    (fuel : Nat) (hf : 130 ≤ fuel) :
    Rs.Bitboard.pawn_attacks (toRsSide b.white) (toRsSide b.black) b.turn b.ep b.halfmove (acc.map encMove) pawnOcc activeOcc
        passiveOcc whitePawnF blackPawnF fuel = some ((pawnAttacks b pawnOcc activeOcc passiveOcc acc).map encMove) := by
  unfold Rs.Bitboard.pawn_attacks pawnAttacks
  simp only [rs_is_white_turn, Option.bind_eq_bind, Option.bind_some, Option.pure_def]
  have etbl : (if (b.turn == 0) = true then some whitePawnF else some blackPawnF) =
      some (fun sq : Int => leaperAttacks (if b.whiteTurn then whitePawnTable else blackPawnTable) sq.toNat) := by
    unfold Board.whiteTurn
    cases (b.turn == 0) <;> rfl
  rw [etbl, Option.bind_some]
  have key := scan_loop
    (fun fuel st x => Rs.Bitboard.pawn_attacks.while_1 (toRsSide b.white) (toRsSide b.black) b.turn b.ep b.halfmove activeOcc
      passiveOcc (fun sq : Int => leaperAttacks (if b.whiteTurn then whitePawnTable else blackPawnTable) sq.toNat) fuel st x)
    (List.map encMove)
    (fun acc src =>
      (bitsAsc (leaperAttacks (if b.whiteTurn then whitePawnTable else blackPawnTable) src &&&
          (passiveOcc ||| (bitU b.ep &&& ~~~rank18)) &&& ~~~activeOcc)).foldl (fun acc tgt =>
        if bitU tgt &&& rank8.toUInt64 != 0 || bitU tgt &&& rank1.toUInt64 != 0 then promotions b src tgt acc
        else pushOpt acc (mkMove b false src tgt PAWN false (tgt == b.ep) NO_PIECE 0)) acc)
    65 (fun _ => True)
    (by intro fuel a; simp [Rs.Bitboard.pawn_attacks.while_1])
    (by
      intro fuel a x hx hK _
      simp only [Rs.Bitboard.pawn_attacks.while_1, ne_eq, hx, not_false_eq_true, if_true, rs_mask_and_shift x hx,
        Option.bind_eq_bind, Option.bind_some, rs_gen_consts.1, rs_gen_consts.2.2.2.1, Option.pure_def,
        u64Shl_natCast _ _ hep, Int.toNat_natCast, rs_generate_pawn_attacks_eq b a _ _ fuel hK, rank18_eq]
      rfl)
    fuel pawnOcc acc (fun _ _ => trivial) (fuel_ok _ _ _ (by omega) hf)
  simp only [key, Option.bind_eq_bind, Option.bind_some, Option.pure_def]


/-! #### pawn pushes -/

theorem u64Shr_8 (a : UInt64) : Rs.u64Shr a 8 = some (a >>> 8) := rfl
theorem u64Shl_8 (a : UInt64) : Rs.u64Shl a 8 = some (a <<< 8) := rfl

/-- for a pawn that is not on its last rank the single-step square is on the board, and so is the double-step square of a
pawn on its home rank (otherwise `trailing_zeros` of the empty mask is 64 and the piece lookup `1 << 64` panics) -/
theorem pawn_step_facts : ∀ s, s < 56 → 8 ≤ s →
    trailingZeros (bitU s >>> 8) < 64 ∧ trailingZeros (bitU s <<< 8) < 64 ∧
    ((bitU s &&& rank2.toUInt64 != 0) = true → trailingZeros (bitU s >>> 8 >>> 8) < 64) ∧
    ((bitU s &&& rank7.toUInt64 != 0) = true → trailingZeros (bitU s <<< 8 <<< 8) < 64) := by
  decide +kernel

/-- one iteration of the model's `pawnMoves` -/
def pawnMoveStep (b : Board) (nq : Bool) (fullOcc : UInt64) (acc : List Board.Move) (src : Nat) : List Board.Move :=
  let srcMask := bitU src
  let white := b.whiteTurn
  let singleMask := if white then srcMask >>> 8 else srcMask <<< 8
  let promoteRank := if white then rank8.toUInt64 else rank1.toUInt64
  let singleSq := trailingZeros singleMask
  if singleMask &&& fullOcc == 0 then
    if singleMask &&& promoteRank == 0 then
      let acc := pushOpt acc (mkMove b nq src singleSq PAWN false false NO_PIECE 0)
      let doubleMask := if white then singleMask >>> 8 else singleMask <<< 8
      let doubleRank := if white then rank2.toUInt64 else rank7.toUInt64
      let doubleSq := trailingZeros doubleMask
      if srcMask &&& doubleRank != 0 && doubleMask &&& fullOcc == 0 then
        pushOpt acc (mkMove b nq src doubleSq PAWN false false NO_PIECE singleSq)
      else acc
    else promotions b src singleSq acc
  else acc

theorem pawnMoves_eq_foldl (b : Board) (nq : Bool) (pawnOcc fullOcc : UInt64) (acc : List Board.Move) :
    pawnMoves b nq pawnOcc fullOcc acc = (bitsAsc pawnOcc).foldl (pawnMoveStep b nq fullOcc) acc := rfl

/-- a pawn push (`make_move` with the next e.p. square `epOpp`) -/
theorem rs_make_move_pawn_push (b : Board) (acc : List Board.Move) (nq : Bool) (src tgt epOpp : Nat) (ht : tgt < 64) :
    Rs.Bitboard.make_move (toRsSide b.white) (toRsSide b.black) b.turn b.ep b.halfmove (acc.map encMove) nq src tgt Rs.PAWN
        Rs.CASTLE_MOVE_FALSE_MASK Rs.EN_PASSANT_ATTACK_FALSE_MASK Rs.NO_PIECE epOpp =
      some ((pushOpt acc (mkMove b nq src tgt PAWN false false NO_PIECE epOpp)).map encMove) := by
  rw [rs_flag_consts.2.1, rs_flag_consts.2.2.2.1, rs_piece_consts.1, rs_piece_consts.2.1]
  exact rs_make_move_push b acc nq src tgt PAWN false false NO_PIECE epOpp (by decide) (by decide)
    (by cases b.whiteTurn <;> simpa using ht) (by intro _ h; cases h)

theorem eq_zero_iff_beq (x : UInt64) : (x = 0) ↔ ((x == 0) = true) := by simp

theorem rs_pawn_moves_eq (b : Board) (acc : List Board.Move) (nq : Bool) (pawnOcc fullOcc : UInt64)
    (hpawn : ∀ s ∈ bitsAsc pawnOcc, 8 ≤ s ∧ s < 56) (fuel : Nat) (hf : 130 ≤ fuel) :
    Rs.Bitboard.pawn_moves (toRsSide b.white) (toRsSide b.black) b.turn b.ep b.halfmove (acc.map encMove) nq pawnOcc fullOcc fuel =
      some ((pawnMoves b nq pawnOcc fullOcc acc).map encMove) := by
  unfold Rs.Bitboard.pawn_moves
  rw [pawnMoves_eq_foldl]
  have key := scan_loop
    (fun fuel st x => Rs.Bitboard.pawn_moves.while_1 (toRsSide b.white) (toRsSide b.black) b.turn b.ep b.halfmove nq fullOcc fuel st x)
    (List.map encMove) (pawnMoveStep b nq fullOcc) 0 (fun s => 8 ≤ s ∧ s < 56)
    (by intro fuel a; simp [Rs.Bitboard.pawn_moves.while_1])
    (by
      intro fuel a x hx _ hP
      simp only [Rs.Bitboard.pawn_moves.while_1, ne_eq, hx, not_false_eq_true, if_true, rs_mask_and_shift x hx,
        Option.bind_eq_bind, Option.bind_some, Option.pure_def, rs_is_white_turn]
      generalize trailingZeros x = s at hP ⊢
      obtain ⟨f1, f2, f3, f4⟩ := pawn_step_facts s hP.2 hP.1
      unfold pawnMoveStep
      by_cases hw : b.turn = 0
      · have hw' : b.whiteTurn = true := by simp [Board.whiteTurn, hw]
        have hbeq : (b.turn == 0) = true := by simp [hw]
        simp only [hbeq, hw', if_true, u64Shr_8, rs_gen_consts.2.2.2.1, rs_gen_consts.2.1, Option.bind_some, u64Tz_eq,
          rs_flag_consts.2.2.2.2]
        by_cases c1 : bitU s >>> 8 &&& fullOcc = 0
        · have c1' : (bitU s >>> 8 &&& fullOcc == 0) = true := by simpa using c1
          rw [if_pos c1, if_pos c1']
          by_cases c2 : bitU s >>> 8 &&& rank8.toUInt64 = 0
          · have c2' : (bitU s >>> 8 &&& rank8.toUInt64 == 0) = true := by simpa using c2
            rw [if_pos c2, if_pos c2', rs_make_move_pawn_push b a nq s _ 0 f1, Option.bind_some]
            by_cases c3 : ¬bitU s &&& rank2.toUInt64 = 0 ∧ bitU s >>> 8 >>> 8 &&& fullOcc = 0
            · have c3' : (bitU s &&& rank2.toUInt64 != 0 && bitU s >>> 8 >>> 8 &&& fullOcc == 0) = true := by simpa using c3
              have c3'' : (bitU s &&& rank2.toUInt64 != 0) = true := by simpa using c3.1
              rw [if_pos c3, if_pos c3', rs_make_move_pawn_push b _ nq s _ _ (f3 c3''), Option.bind_some]
            · have c3' : ¬ (bitU s &&& rank2.toUInt64 != 0 && bitU s >>> 8 >>> 8 &&& fullOcc == 0) = true := by simpa using c3
              rw [if_neg c3, if_neg c3', Option.bind_some]
          · have c2' : ¬ (bitU s >>> 8 &&& rank8.toUInt64 == 0) = true := by simpa using c2
            rw [if_neg c2, if_neg c2', rs_generate_pawn_promotions_eq b a s _ f1, Option.bind_some]
        · have c1' : ¬ (bitU s >>> 8 &&& fullOcc == 0) = true := by simpa using c1
          rw [if_neg c1, if_neg c1', Option.bind_some]
      · have hw' : b.whiteTurn = false := by simp [Board.whiteTurn, hw]
        have hbeq : ¬ (b.turn == 0) = true := by simp [hw]
        simp only [hbeq, hw', Bool.false_eq_true, if_false, u64Shl_8, rs_gen_consts.1, rs_gen_consts.2.2.1, Option.bind_some,
          u64Tz_eq, rs_flag_consts.2.2.2.2]
        by_cases c1 : bitU s <<< 8 &&& fullOcc = 0
        · have c1' : (bitU s <<< 8 &&& fullOcc == 0) = true := by simpa using c1
          rw [if_pos c1, if_pos c1']
          by_cases c2 : bitU s <<< 8 &&& rank1.toUInt64 = 0
          · have c2' : (bitU s <<< 8 &&& rank1.toUInt64 == 0) = true := by simpa using c2
            rw [if_pos c2, if_pos c2', rs_make_move_pawn_push b a nq s _ 0 f2, Option.bind_some]
            by_cases c3 : ¬bitU s &&& rank7.toUInt64 = 0 ∧ bitU s <<< 8 <<< 8 &&& fullOcc = 0
            · have c3' : (bitU s &&& rank7.toUInt64 != 0 && bitU s <<< 8 <<< 8 &&& fullOcc == 0) = true := by simpa using c3
              have c3'' : (bitU s &&& rank7.toUInt64 != 0) = true := by simpa using c3.1
              rw [if_pos c3, if_pos c3', rs_make_move_pawn_push b _ nq s _ _ (f4 c3''), Option.bind_some]
            · have c3' : ¬ (bitU s &&& rank7.toUInt64 != 0 && bitU s <<< 8 <<< 8 &&& fullOcc == 0) = true := by simpa using c3
              rw [if_neg c3, if_neg c3', Option.bind_some]
          · have c2' : ¬ (bitU s <<< 8 &&& rank1.toUInt64 == 0) = true := by simpa using c2
            rw [if_neg c2, if_neg c2', rs_generate_pawn_promotions_eq b a s _ f2, Option.bind_some]
        · have c1' : ¬ (bitU s <<< 8 &&& fullOcc == 0) = true := by simpa using c1
          rw [if_neg c1, if_neg c1', Option.bind_some])
    fuel pawnOcc acc hpawn (fuel_ok _ _ _ (by omega) hf)
  simp only [key, Option.bind_eq_bind, Option.bind_some, Option.pure_def]

#print axioms rs_generate_pawn_promotions_eq
#print axioms rs_generate_pawn_attacks_eq
#print axioms rs_pawn_attacks_eq
#print axioms rs_pawn_moves_eq

/-! non-vacuity: the 16 pawn pushes of the initial position; its pawns satisfy `hpawn` -/
example : (pawnMoves ctorDemo false ctorDemo.white.pawns (ctorDemo.white.full ||| ctorDemo.black.full) []).length = 16 := by
  decide +kernel
example : ∀ s ∈ bitsAsc ctorDemo.white.pawns, 8 ≤ s ∧ s < 56 := by decide +kernel

end Inkayaku.Translated
