import Inkayaku.Proofs.ZobristStep
import Inkayaku.Model.WF
import Inkayaku.Model.FenBoard
/-!
# C06 — Zobrist hashing

"For every position and every legal move, updating the position hash and the pawn hash incrementally with the move's
hash delta gives exactly the hash computed from scratch for the resulting position. The hash depends only on placement,
side to move, castling rights and en-passant file — so the same position reached along different move orders, or with
different clocks, hashes identically — and changing any single one of those components changes the hash."

* `hash_incremental`, `pawnHash_incremental` : the incremental update is exact for every move that fits the board
  (`ZobristStep.HashMoveOK`, decidable; checked below on all generated moves of concrete positions).
* `hash_congr`, `hash_vis`, `hash_clocks` : the hashes are a function of `HashKey` (12 piece words, side to move, 4 rights,
  e.p. file / e.p. absent) — neither clocks, nor the scratch words, nor the way the position was reached can matter.
* `keys_good` : the 781 keys of the current build are non-zero and pairwise distinct (kernel-evaluated on `Gen.Zobrist`).
* `hash_side`, `hash_toggles_right`, `hash_ep_file`, `hash_moves_piece`, `hash_changes_kind` : changing exactly one
  component changes the hash.
-/
namespace Inkayaku.C06
open Inkayaku.Board Inkayaku.Zobrist Inkayaku.ZobristLinear Inkayaku.ZobristStep

/-! ## 1. Incremental update = from scratch -/

/-- the position hash after `make` is the old hash XOR the move's delta -/
theorem hash_incremental (b : Board) (m : Move) (h : HashMoveOK b m.f) :
    Zobrist.hash (make b m) = Zobrist.hash b ^^^ (xorOf m.f).1 :=
  ZobristStep.hash_incremental h

/-- the pawn hash after `make` is the old pawn hash XOR the move's pawn delta -/
theorem pawnHash_incremental (b : Board) (m : Move) (h : HashMoveOK b m.f) :
    pawnHash (make b m) = pawnHash b ^^^ (xorOf m.f).2 :=
  ZobristStep.pawnHash_incremental h

#print axioms hash_incremental
#print axioms pawnHash_incremental

/- TARGET (not yet proved): the link from the generator to `HashMoveOK`,
     theorem genPseudo_hashMoveOK (b : Board) (hwf : WF.wf b = true) (m : Move) (hm : m ∈ genPseudo b) :
       HashMoveOK b m.f
   and with it the unconditional form `WF.wf b → m ∈ genLegal b → hash (make b m) = hash b ^^^ (xorOf m.f).1`.
   It needs the generator invariants and `decode (encode f) = f`.  Compared with a make/unmake-style applicability
   predicate, `HashMoveOK` additionally asks for three facts that only `zobrist_xor` uses: `f.side = b.turn`, the packed
   source of a castling move is E1/E8 (hard-coded in `zobrist_xor`), and the e.p. victim square `target ± 8` is in range.
   Instead of the general link, `HashMoveOK` is kernel-evaluated in §5 on every pseudo-legal move of eight positions that
   exercise all branches.  `hash_incremental`/`pawnHash_incremental` are complete relative to `HashMoveOK`. -/

/-! ## 2. What the hash depends on -/

/-- the data the hashes are computed from -/
structure HashData where
  whitePawns : UInt64
  whiteKnights : UInt64
  whiteBishops : UInt64
  whiteRooks : UInt64
  whiteQueens : UInt64
  whiteKings : UInt64
  blackPawns : UInt64
  blackKnights : UInt64
  blackBishops : UInt64
  blackRooks : UInt64
  blackQueens : UInt64
  blackKings : UInt64
  turn : Nat
  whiteQueenSide : Bool
  whiteKingSide : Bool
  blackQueenSide : Bool
  blackKingSide : Bool
  /-- file of the e.p. square (meaningless when `epNone`) -/
  epFile : Nat
  /-- no e.p. square -/
  epNone : Bool
deriving DecidableEq, Repr

/-- placement (12 words), side to move, the four rights, e.p. file and e.p. presence — no clocks, no scratch words -/
def HashKey (b : Board) : HashData :=
  { whitePawns := b.white.pawns, whiteKnights := b.white.knights, whiteBishops := b.white.bishops,
    whiteRooks := b.white.rooks, whiteQueens := b.white.queens, whiteKings := b.white.kings,
    blackPawns := b.black.pawns, blackKnights := b.black.knights, blackBishops := b.black.bishops,
    blackRooks := b.black.rooks, blackQueens := b.black.queens, blackKings := b.black.kings,
    turn := b.turn,
    whiteQueenSide := b.white.qs, whiteKingSide := b.white.ks, blackQueenSide := b.black.qs, blackKingSide := b.black.ks,
    epFile := b.ep % 8, epNone := b.ep == 0 }

/-- two boards with the same `HashKey` have the same hashes, however they were reached and whatever their clocks are -/
theorem hash_congr {b b' : Board} (h : HashKey b = HashKey b') :
    Zobrist.hash b = Zobrist.hash b' ∧ pawnHash b = pawnHash b' := by
  simp only [HashKey, HashData.mk.injEq] at h
  obtain ⟨h1, h2, h3, h4, h5, h6, h7, h8, h9, h10, h11, h12, h13, h14, h15, h16, h17, h18, h19⟩ := h
  have e0 : (b.ep != 0) = (b'.ep != 0) := by simp only [bne, h19]
  have hp : pawnHash b = pawnHash b' := by
    simp only [pawnHash, enPassant, h1, h7, h13, h18, e0]
  refine ⟨?_, hp⟩
  simp only [Zobrist.hash, hp, h2, h3, h4, h5, h6, h8, h9, h10, h11, h12, h14, h15, h16, h17]

/-- the scratch words are not hashed -/
theorem hash_vis (b : Board) : Zobrist.hash b = Zobrist.hash (WF.vis b) ∧ pawnHash b = pawnHash (WF.vis b) :=
  hash_congr rfl

/-- the clocks are not hashed -/
theorem hash_clocks (b : Board) (fm hm : Nat) :
    Zobrist.hash { b with fullmove := fm, halfmove := hm } = Zobrist.hash b
      ∧ pawnHash { b with fullmove := fm, halfmove := hm } = pawnHash b :=
  hash_congr rfl

#print axioms hash_congr
#print axioms hash_vis
#print axioms hash_clocks

/-! ## 3. The key material of the current build -/

/-- names of the 12·64 + 8 + 4 + 1 keys -/
inductive KeyId
  | piece (color piece sq : Nat)
  | ep (file : Nat)
  | castle (side color : Nat)
  | side
deriving DecidableEq, Repr

/-- the key as the model's accessor functions return it -/
def keyVal : KeyId → UInt64
  | .piece c p s => pieceSquare p s c
  | .ep f => enPassant f
  | .castle sd c => castle sd c
  | .side => blackToMove

/-- all real keys: colours 0/1 × pieces 1..6 × squares 0..63, files 0..7, the four rights, the side key -/
def allIds : List KeyId :=
  ([0, 1].flatMap fun c => [1, 2, 3, 4, 5, 6].flatMap fun p => (List.range 64).map fun s => KeyId.piece c p s)
    ++ (List.range 8).map KeyId.ep
    ++ [.castle QUEEN 0, .castle KING 0, .castle QUEEN 1, .castle KING 1] ++ [.side]

open Inkayaku.Gen in
/-- the same keys read directly off the generated tables (literals, so that the kernel does not re-evaluate lookups) -/
def rawKeys : List Nat :=
  zobristPieceSquare.getD 1 [] ++ zobristPieceSquare.getD 2 [] ++ zobristPieceSquare.getD 3 []
    ++ zobristPieceSquare.getD 4 [] ++ zobristPieceSquare.getD 5 [] ++ zobristPieceSquare.getD 6 []
    ++ zobristPieceSquare.getD 8 [] ++ zobristPieceSquare.getD 9 [] ++ zobristPieceSquare.getD 10 []
    ++ zobristPieceSquare.getD 11 [] ++ zobristPieceSquare.getD 12 [] ++ zobristPieceSquare.getD 13 []
    ++ zobristEnPassant
    ++ [zobristWhiteQueenCastle, zobristWhiteKingCastle, zobristBlackQueenCastle, zobristBlackKingCastle]
    ++ [zobristBlackToMove]

theorem rawKeys_eq : allIds.map (fun k => (keyVal k).toNat) = rawKeys := by decide +kernel
theorem rawKeys_distinct : radixDistinct 64 0 rawKeys = true := by decide +kernel
theorem rawKeys_nonzero : rawKeys.all (fun x => x != 0) = true := by decide +kernel
theorem allIds_length : allIds.length = 781 := by decide +kernel

/-- all 781 keys are non-zero and pairwise distinct -/
theorem keys_good :
    allIds.length = 781 ∧ (∀ k, k ∈ allIds → keyVal k ≠ 0) ∧ (allIds.map keyVal).Pairwise (· ≠ ·) := by
  refine ⟨allIds_length, ?_, ?_⟩
  · intro k hk h0
    have hm : (keyVal k).toNat ∈ rawKeys := by
      rw [← rawKeys_eq]; exact List.mem_map_of_mem (f := fun k => (keyVal k).toNat) hk
    have := List.all_eq_true.mp rawKeys_nonzero _ hm
    rw [h0] at this
    exact absurd this (by decide)
  · have h := radixDistinct_sound 64 0 rawKeys rawKeys_distinct
    rw [← rawKeys_eq, List.pairwise_map] at h
    rw [List.pairwise_map]
    exact h.imp (fun hne heq => hne (congrArg UInt64.toNat heq))

#print axioms keys_good

theorem keyVal_ne_zero {k : KeyId} (hk : k ∈ allIds) : keyVal k ≠ 0 := keys_good.2.1 k hk

theorem keyVal_inj {k k' : KeyId} (hk : k ∈ allIds) (hk' : k' ∈ allIds) (h : keyVal k = keyVal k') : k = k' :=
  inj_of_pairwise_map keys_good.2.2 hk hk' h

theorem piece_mem {c p s : Nat} (hc : c ≤ 1) (hp1 : 1 ≤ p) (hp6 : p ≤ 6) (hs : s < 64) : KeyId.piece c p s ∈ allIds := by
  simp only [allIds, List.mem_append, List.mem_flatMap, List.mem_map, List.mem_range, List.mem_cons,
    KeyId.piece.injEq, List.not_mem_nil, or_false]
  refine Or.inl (Or.inl (Or.inl ⟨c, by omega, p, by omega, s, hs, rfl, rfl, rfl⟩))

theorem ep_mem {f : Nat} (hf : f < 8) : KeyId.ep f ∈ allIds := by
  simp only [allIds, List.mem_append, List.mem_map, List.mem_range]
  exact Or.inl (Or.inl (Or.inr ⟨f, hf, rfl⟩))

theorem side_mem : KeyId.side ∈ allIds := by simp [allIds]
theorem castle_mem {sd c : Nat} (hsd : sd = QUEEN ∨ sd = KING) (hc : c ≤ 1) : KeyId.castle sd c ∈ allIds := by
  have : c = 0 ∨ c = 1 := by omega
  rcases hsd with rfl | rfl <;> rcases this with rfl | rfl <;> simp [allIds]

theorem blackToMove_ne_zero : blackToMove ≠ 0 := keyVal_ne_zero side_mem

theorem castle_ne_zero {sd c : Nat} (hsd : sd = QUEEN ∨ sd = KING) (hc : c ≤ 1) : castle sd c ≠ 0 :=
  keyVal_ne_zero (castle_mem hsd hc)

theorem enPassant_mod (e : Nat) : enPassant e = enPassant (e % 8) := by
  unfold enPassant; rw [Nat.mod_mod]

theorem enPassant_ne_zero (e : Nat) : enPassant e ≠ 0 := by
  rw [enPassant_mod]; exact keyVal_ne_zero (ep_mem (Nat.mod_lt _ (by decide)))

theorem enPassant_ne {e e' : Nat} (h : e % 8 ≠ e' % 8) : enPassant e ≠ enPassant e' := by
  rw [enPassant_mod e, enPassant_mod e']
  intro heq
  have := keyVal_inj (ep_mem (Nat.mod_lt e (by decide))) (ep_mem (Nat.mod_lt e' (by decide))) heq
  exact h (KeyId.ep.inj this)

theorem pieceSquare_ne {c p s c' p' s' : Nat} (hc : c ≤ 1) (hp1 : 1 ≤ p) (hp6 : p ≤ 6) (hs : s < 64)
    (hc' : c' ≤ 1) (hp1' : 1 ≤ p') (hp6' : p' ≤ 6) (hs' : s' < 64) (hne : ¬ (c = c' ∧ p = p' ∧ s = s')) :
    pieceSquare p s c ≠ pieceSquare p' s' c' := by
  intro heq
  have := keyVal_inj (piece_mem hc hp1 hp6 hs) (piece_mem hc' hp1' hp6' hs') heq
  exact hne (by simpa using this)

/-! ## 4. Changing exactly one component changes the hash -/

theorem xor_delta_ne {h d : UInt64} (hd : d ≠ 0) : h ^^^ d ≠ h := by
  intro e
  apply hd
  have : h ^^^ (h ^^^ d) = h ^^^ h := by rw [e]
  rwa [xor_cancel_left, UInt64.xor_self] at this

theorem xor_ne_zero {a b : UInt64} (h : a ≠ b) : a ^^^ b ≠ 0 := fun e => h ((xor_eq_zero_iff a b).mp e)

/-- (side to move) two boards that differ only in the side to move hash differently -/
theorem hash_side (b : Board) {t t' : Nat} (ht : t ≤ 1) (ht' : t' ≤ 1) (hne : t ≠ t') :
    Zobrist.hash { b with turn := t } ≠ Zobrist.hash { b with turn := t' } := by
  have key : Zobrist.hash { b with turn := 0 } = Zobrist.hash { b with turn := 1 } ^^^ blackToMove := by
    rw [ZobristStep.hash_eq, ZobristStep.hash_eq { b with turn := 1 }, pawnHash_eq, pawnHash_eq { b with turn := 1 }]
    simp only [sideKey, Nat.reduceBEq, beq_self_eq_true, if_true, if_false, Bool.false_eq_true]
    xor_norm
  have : (t = 0 ∧ t' = 1) ∨ (t = 1 ∧ t' = 0) := by omega
  rcases this with ⟨rfl, rfl⟩ | ⟨rfl, rfl⟩
  · rw [key]; exact xor_delta_ne blackToMove_ne_zero
  · rw [key]; exact (xor_delta_ne blackToMove_ne_zero).symm

/-- the four castling rights -/
inductive Right | whiteQueen | whiteKing | blackQueen | blackKing
deriving DecidableEq, Repr

def setRight (b : Board) : Right → Bool → Board
  | .whiteQueen, v => { b with white := { b.white with qs := v } }
  | .whiteKing, v => { b with white := { b.white with ks := v } }
  | .blackQueen, v => { b with black := { b.black with qs := v } }
  | .blackKing, v => { b with black := { b.black with ks := v } }

theorem npHash_qs (s : Side) (v : Bool) (c : Nat) : npHash { s with qs := v } c = npHash s c := rfl
theorem npHash_ks (s : Side) (v : Bool) (c : Nat) : npHash { s with ks := v } c = npHash s c := rfl
theorem pwHash_qs (s : Side) (v : Bool) (c : Nat) : pwHash { s with qs := v } c = pwHash s c := rfl
theorem pwHash_ks (s : Side) (v : Bool) (c : Nat) : pwHash { s with ks := v } c = pwHash s c := rfl
theorem rightsHash_qs (s : Side) (c : Nat) :
    rightsHash { s with qs := true } c = rightsHash { s with qs := false } c ^^^ castle QUEEN c := by
  simp only [rightsHash, if_true, if_false, Bool.false_eq_true]; xor_norm
theorem rightsHash_ks (s : Side) (c : Nat) :
    rightsHash { s with ks := true } c = rightsHash { s with ks := false } c ^^^ castle KING c := by
  simp only [rightsHash, if_true, if_false, Bool.false_eq_true]; xor_norm

/-- the key of a castling right -/
def rightKey : Right → UInt64
  | .whiteQueen => castle QUEEN 0
  | .whiteKing => castle KING 0
  | .blackQueen => castle QUEEN 1
  | .blackKing => castle KING 1

theorem hash_setRight (b : Board) (r : Right) :
    Zobrist.hash (setRight b r true) = Zobrist.hash (setRight b r false) ^^^ rightKey r := by
  cases r <;> simp only [setRight, rightKey] <;>
    rw [ZobristStep.hash_eq, ZobristStep.hash_eq, pawnHash_eq, pawnHash_eq] <;>
    simp only [npHash_qs, npHash_ks, pwHash_qs, pwHash_ks, rightsHash_qs, rightsHash_ks] <;>
    generalize npHash b.white 0 = a1 <;> generalize npHash b.black 1 = a2 <;>
    generalize pwHash b.white 0 = a3 <;> generalize pwHash b.black 1 = a4 <;>
    xor_norm

/-- (castling rights) two boards that differ only in one castling right hash differently -/
theorem hash_toggles_right (b : Board) (r : Right) :
    Zobrist.hash (setRight b r true) ≠ Zobrist.hash (setRight b r false) := by
  rw [hash_setRight]
  apply xor_delta_ne
  cases r
  · exact castle_ne_zero (Or.inl rfl) (by decide)
  · exact castle_ne_zero (Or.inr rfl) (by decide)
  · exact castle_ne_zero (Or.inl rfl) (by decide)
  · exact castle_ne_zero (Or.inr rfl) (by decide)

/-- the e.p. component of a position: absent, or the file of the e.p. square -/
def epComponent (ep : Nat) : Option Nat := if ep = 0 then none else some (ep % 8)

/-- (en passant) two boards that differ only in the e.p. square hash differently as soon as the e.p. FILE differs or
one has an e.p. square and the other has none -/
theorem hash_ep_file (b : Board) {e e' : Nat} (hne : epComponent e ≠ epComponent e') :
    Zobrist.hash { b with ep := e } ≠ Zobrist.hash { b with ep := e' } := by
  have key : Zobrist.hash { b with ep := e } = Zobrist.hash { b with ep := e' } ^^^ (epKey e ^^^ epKey e') := by
    rw [ZobristStep.hash_eq, ZobristStep.hash_eq { b with ep := e' }, pawnHash_eq, pawnHash_eq { b with ep := e' }]
    xor_norm
  rw [key]
  apply xor_delta_ne
  apply xor_ne_zero
  unfold epComponent at hne
  unfold epKey
  by_cases h0 : e = 0
  · by_cases h0' : e' = 0
    · subst h0 h0'; exact absurd rfl hne
    · subst h0
      have : (e' != 0) = true := by simpa using h0'
      simp only [this, if_true]
      exact (enPassant_ne_zero e').symm
  · have h1 : (e != 0) = true := by simpa using h0
    by_cases h0' : e' = 0
    · subst h0'
      simp only [h1, if_true]
      exact enPassant_ne_zero e
    · have h1' : (e' != 0) = true := by simpa using h0'
      simp only [h1, h1', if_true]
      rw [if_neg h0, if_neg h0'] at hne
      exact enPassant_ne (fun h => hne (congrArg some h))

/-- the occupancy word of colour `c` (0 = white, otherwise black) and piece kind `p` -/
def word (b : Board) (c p : Nat) : UInt64 := (if c = 0 then b.white else b.black).get p

/-- overwrite one occupancy word -/
def setWord (b : Board) (c p : Nat) (v : UInt64) : Board :=
  if c = 0 then { b with white := b.white.set p v } else { b with black := b.black.set p v }

/-- overwriting one piece word changes the hash by the old and the new hash of that word -/
theorem hash_setWord (b : Board) {c p : Nat} (hc : c ≤ 1) (hp : p ≤ 6) (v : UInt64) :
    Zobrist.hash (setWord b c p v) = Zobrist.hash b ^^^ (hashOcc (word b c p) p c ^^^ hashOcc v p c) := by
  have : c = 0 ∨ c = 1 := by omega
  rcases this with rfl | rfl
  · simp only [setWord, word, if_true]
    rw [ZobristStep.hash_eq, ZobristStep.hash_eq b, pawnHash_eq, pawnHash_eq b]
    simp only []
    rw [npHash_set _ hp, pwHash_set _ hp, rightsHash_congr (set_qs b.white p v) (set_ks b.white p v)]
    split <;> xor_norm
  · simp only [setWord, word, Nat.succ_ne_self, if_false]
    rw [ZobristStep.hash_eq, ZobristStep.hash_eq b, pawnHash_eq, pawnHash_eq b]
    simp only []
    rw [npHash_set _ hp, pwHash_set _ hp, rightsHash_congr (set_qs b.black p v) (set_ks b.black p v)]
    split <;> xor_norm

/-- (placement, square) moving one piece of colour `c` and kind `p` from `s` to a different square `t` that does not
hold such a piece changes the hash -/
theorem hash_moves_piece (b : Board) {c p s t : Nat} (hc : c ≤ 1) (hp1 : 1 ≤ p) (hp6 : p ≤ 6)
    (hs : testU (word b c p) s = true) (ht : t < 64) (hclear : testU (word b c p) t = false) :
    Zobrist.hash (setWord b c p (clearBit (word b c p) (bitU s) ||| bitU t)) ≠ Zobrist.hash b := by
  have hst : s ≠ t := by intro e; subst e; rw [hs] at hclear; exact Bool.noConfusion hclear
  rw [hash_setWord b hc hp6, hashOcc_moveBit hs ht hclear]
  have : hashOcc (word b c p) p c ^^^ (hashOcc (word b c p) p c ^^^ pieceSquare p s c ^^^ pieceSquare p t c)
      = pieceSquare p s c ^^^ pieceSquare p t c := by xor_norm
  rw [this]
  apply xor_delta_ne
  apply xor_ne_zero
  exact pieceSquare_ne hc hp1 hp6 (lt_of_testU hs) hc hp1 hp6 ht (fun h => hst h.2.2)

theorem get_set_ne (sd : Side) {p p' : Nat} (h : p ≠ p') (v : UInt64) : (sd.set p v).get p' = sd.get p' := by
  unfold Side.set
  split <;> (unfold Side.get; split <;> first | rfl | exact absurd rfl h)

theorem word_setWord_ne (b : Board) {c p c' p' : Nat} (hc : c ≤ 1) (hc' : c' ≤ 1) (hne : ¬ (c = c' ∧ p = p'))
    (v : UInt64) : word (setWord b c p v) c' p' = word b c' p' := by
  have h1 : c = 0 ∨ c = 1 := by omega
  have h2 : c' = 0 ∨ c' = 1 := by omega
  rcases h1 with rfl | rfl <;> rcases h2 with rfl | rfl
  · simp only [word, setWord, if_true]
    exact get_set_ne _ (fun e => hne ⟨rfl, e⟩) _
  · simp [word, setWord]
  · simp [word, setWord]
  · simp only [word, setWord, Nat.succ_ne_self, if_false]
    exact get_set_ne _ (fun e => hne ⟨rfl, e⟩) _

/-- (placement, kind/colour) replacing the piece (`c`, `p`) on square `s` by a piece of another kind or colour
(`c'`, `p'`) changes the hash -/
theorem hash_changes_kind (b : Board) {c p c' p' s : Nat} (hc : c ≤ 1) (hp1 : 1 ≤ p) (hp6 : p ≤ 6)
    (hc' : c' ≤ 1) (hp1' : 1 ≤ p') (hp6' : p' ≤ 6) (hne : ¬ (c = c' ∧ p = p'))
    (hs : testU (word b c p) s = true) (hs' : testU (word b c' p') s = false) :
    Zobrist.hash (setWord (setWord b c p (clearBit (word b c p) (bitU s))) c' p' (word b c' p' ||| bitU s))
      ≠ Zobrist.hash b := by
  have hs64 := lt_of_testU hs
  rw [hash_setWord _ hc' hp6', word_setWord_ne b hc hc' hne, hash_setWord b hc hp6, hashOcc_clearBit hs,
    hashOcc_setBit hs64 hs']
  have : Zobrist.hash b ^^^ (hashOcc (word b c p) p c ^^^ (hashOcc (word b c p) p c ^^^ pieceSquare p s c))
        ^^^ (hashOcc (word b c' p') p' c' ^^^ (hashOcc (word b c' p') p' c' ^^^ pieceSquare p' s c'))
      = Zobrist.hash b ^^^ (pieceSquare p s c ^^^ pieceSquare p' s c') := by xor_norm
  rw [this]
  apply xor_delta_ne
  apply xor_ne_zero
  exact pieceSquare_ne hc hp1 hp6 hs64 hc' hp1' hp6' hs64 (fun h => hne ⟨h.1, h.2.1⟩)

#print axioms hash_side
#print axioms hash_toggles_right
#print axioms hash_ep_file
#print axioms hash_moves_piece
#print axioms hash_changes_kind

/-! ## 5. Non-vacuity and sanity on concrete positions (kernel-evaluated) -/

def bd (s : String) : Board :=
  match FenBoard.fromFenString s with
  | .ok b => b
  | .error _ => default

/-- the position has `n` pseudo-legal moves and every one of them satisfies `HashMoveOK` -/
def allMovesOK (fen : String) (n : Nat) : Bool :=
  (genPseudo (bd fen)).length == n && (genPseudo (bd fen)).all (fun m => decide (HashMoveOK (bd fen) m.f))

theorem allMovesOK_legal {fen : String} {n : Nat} (h : allMovesOK fen n = true) (m : Move)
    (hm : m ∈ genLegal (bd fen)) : HashMoveOK (bd fen) m.f := by
  simp only [allMovesOK, Bool.and_eq_true, List.all_eq_true, decide_eq_true_eq] at h
  exact h.2 m (List.mem_filter.mp hm).1

def startFen := "rnbqkbnr/pppppppp/8/8/8/8/PPPPPPPP/RNBQKBNR w KQkq - 0 1"
/-- castling both ways, captures, quiet moves, rights lost by rook/king moves and by captures on the corners -/
def kiwipeteW := "r3k2r/p1ppqpb1/bn2pnp1/3PN3/1p2P3/2N2Q1p/PPPBBPPP/R3K2R w KQkq - 0 1"
def kiwipeteB := "r3k2r/p1ppqpb1/bn2pnp1/3PN3/1p2P3/2N2Q1p/PPPBBPPP/R3K2R b KQkq - 0 1"
/-- en passant available for white (f6) / for black (e3) -/
def epW := "rnbqkbnr/ppp1p1pp/8/3pPp2/8/8/PPPP1PPP/RNBQKBNR w KQkq f6 0 3"
def epB := "rnbqkbnr/ppp1p1pp/8/8/3pPp2/8/PPPP1PPP/RNBQKBNR b KQkq e3 0 3"
/-- promotions with and without capture -/
def promoW := "r3k2r/Pppp1ppp/1b3nbN/nP6/BBP1P3/q4N2/Pp1P2PP/R2Q1RK1 w kq - 0 1"
def promoB := "r2q1rk1/pP1p2pp/Q4n2/bbp1p3/Np6/1B3NBn/pPPP1PPP/R3K2R b KQ - 0 1"
/-- a small position with a castling move, an e.p. capture, promotions with and without capture (taking the a8 rook,
which costs black the queen-side right), king and rook moves that lose the white right -/
def mixed := "r3k3/1P6/8/3pP3/8/8/8/4K2R w Kq d6 0 2"

-- `HashMoveOK` holds for every generated move of these positions (so the hypothesis of §1 is satisfiable, for every
-- branch: castle, en passant, promotion, capture, quiet)
example : allMovesOK startFen 20 = true := by decide +kernel
theorem kiwipeteW_ok : allMovesOK kiwipeteW 48 = true := by decide +kernel
example : allMovesOK kiwipeteB 43 = true := by decide +kernel
example : allMovesOK epW 31 = true := by decide +kernel
example : allMovesOK epB 31 = true := by decide +kernel
example : allMovesOK promoW 38 = true := by decide +kernel
example : allMovesOK promoB 38 = true := by decide +kernel
example : allMovesOK mixed 25 = true := by decide +kernel

-- hence the incremental identities for every legal move of e.g. the castling-rich position
example (m : Move) (hm : m ∈ genLegal (bd kiwipeteW)) :
    Zobrist.hash (make (bd kiwipeteW) m) = Zobrist.hash (bd kiwipeteW) ^^^ (xorOf m.f).1
      ∧ pawnHash (make (bd kiwipeteW) m) = pawnHash (bd kiwipeteW) ^^^ (xorOf m.f).2 :=
  have h := allMovesOK_legal kiwipeteW_ok m hm
  ⟨hash_incremental _ m h, pawnHash_incremental _ m h⟩

-- independent evaluation of both sides of the identities by the kernel (model sanity, not using the theorems)
example : (genPseudo (bd mixed)).all (fun m =>
    Zobrist.hash (make (bd mixed) m) == Zobrist.hash (bd mixed) ^^^ (xorOf m.f).1
      && pawnHash (make (bd mixed) m) == pawnHash (bd mixed) ^^^ (xorOf m.f).2) = true := by decide +kernel

/-- play generated moves given in UCI notation (stops at the first one the generator does not produce) -/
def playUci : Board → List String → Board
  | b, [] => b
  | b, u :: us =>
    match (genPseudo b).find? (fun m => m.uci == u) with
    | some m => playUci (make b m) us
    | none => b

-- the same position reached along two move orders (clocks differ from a direct set-up, too): equal `HashKey`, so
-- equal hashes
theorem transposition_key : HashKey (playUci (bd startFen) ["g1f3", "g8f6", "b1c3", "b8c6"])
    = HashKey (playUci (bd startFen) ["b1c3", "b8c6", "g1f3", "g8f6"]) := by decide +kernel
example : Zobrist.hash (playUci (bd startFen) ["g1f3", "g8f6", "b1c3", "b8c6"])
    = Zobrist.hash (playUci (bd startFen) ["b1c3", "b8c6", "g1f3", "g8f6"]) :=
  (hash_congr transposition_key).1
-- the same placement with other clocks: different boards, equal hashes
example : bd "r1bqkb1r/pppppppp/2n2n2/8/8/2N2N2/PPPPPPPP/R1BQKB1R w KQkq - 4 3"
    ≠ bd "r1bqkb1r/pppppppp/2n2n2/8/8/2N2N2/PPPPPPPP/R1BQKB1R w KQkq - 17 40" := by decide +kernel
example : Zobrist.hash (bd "r1bqkb1r/pppppppp/2n2n2/8/8/2N2N2/PPPPPPPP/R1BQKB1R w KQkq - 4 3")
    = Zobrist.hash (bd "r1bqkb1r/pppppppp/2n2n2/8/8/2N2N2/PPPPPPPP/R1BQKB1R w KQkq - 17 40") :=
  (hash_congr (by decide +kernel)).1
/-- make and take back one move -/
def roundTrip (b : Board) (u : String) : Board :=
  match (genPseudo b).find? (fun m => m.uci == u) with
  | some m => unmake (make b m) m
  | none => b
-- the scratch words do get scribbled on (by `unmake` of a quiet move), so `hash_vis` says something
example : (roundTrip (bd startFen) "e2e4").black.o0 ≠ 0 ∧ roundTrip (bd startFen) "e2e4" ≠ bd startFen
    ∧ WF.vis (roundTrip (bd startFen) "e2e4") = bd startFen := by decide +kernel

-- single-component sensitivity on the start position
example : Zobrist.hash { bd startFen with turn := 0 } ≠ Zobrist.hash { bd startFen with turn := 1 } :=
  hash_side _ (by decide) (by decide) (by decide)
example : Zobrist.hash (setRight (bd startFen) .blackKing true) ≠ Zobrist.hash (setRight (bd startFen) .blackKing false) :=
  hash_toggles_right _ _
example : setRight (bd startFen) .blackKing true = bd startFen := by decide +kernel
-- e.p. square e3 (44) vs d3 (43) vs none; but e3 (44) and e6 (20) are the same file: only the file is hashed
example : Zobrist.hash { bd epB with ep := 44 } ≠ Zobrist.hash { bd epB with ep := 43 } := hash_ep_file _ (by decide)
example : Zobrist.hash { bd epB with ep := 44 } ≠ Zobrist.hash { bd epB with ep := 0 } := hash_ep_file _ (by decide)
example : Zobrist.hash { bd epB with ep := 44 } = Zobrist.hash { bd epB with ep := 20 } := (hash_congr (by decide +kernel)).1
example : { bd epB with ep := 44 } = bd epB := by decide +kernel
-- the white knight g1 (62) goes to f3 (45)
example : Zobrist.hash (setWord (bd startFen) 0 KNIGHT
    (clearBit (word (bd startFen) 0 KNIGHT) (bitU 62) ||| bitU 45)) ≠ Zobrist.hash (bd startFen) :=
  hash_moves_piece _ (by decide) (by decide) (by decide) (by decide +kernel) (by decide) (by decide +kernel)
-- the white knight g1 is replaced by a black queen / by a white bishop
example : Zobrist.hash (setWord (setWord (bd startFen) 0 KNIGHT (clearBit (word (bd startFen) 0 KNIGHT) (bitU 62)))
    1 QUEEN (word (bd startFen) 1 QUEEN ||| bitU 62)) ≠ Zobrist.hash (bd startFen) :=
  hash_changes_kind _ (by decide) (by decide) (by decide) (by decide) (by decide) (by decide) (by decide)
    (by decide +kernel) (by decide +kernel)
example : Zobrist.hash (setWord (setWord (bd startFen) 0 KNIGHT (clearBit (word (bd startFen) 0 KNIGHT) (bitU 62)))
    0 BISHOP (word (bd startFen) 0 BISHOP ||| bitU 62)) ≠ Zobrist.hash (bd startFen) :=
  hash_changes_kind _ (by decide) (by decide) (by decide) (by decide) (by decide) (by decide) (by decide)
    (by decide +kernel) (by decide +kernel)

end Inkayaku.C06
