import Inkayaku.Proofs.SanSpec
/-!
# C14 — the literal equation: the SAN text of `uci_to_pgn` is `Spec.san`

Property text: *For every legal position and legal move, the SAN text produced for the move is the standard algebraic
notation of that move …*

This file discharges the statement `Props/C14.lean` keeps as its TARGET (it needed `Closure.genLegal_eq_rules` (C01),
`C02.make_eq_apply` (C02), `Closure.no_moves_iff_rules` / `C05.current_in_check` (C05) and `Search.make_wf`, which did
not exist when C14 was written).

Objects: `San.uciToSan` = `uci_to_pgn` (model of board/src/board.rs, `Model/San.lean`); `Spec.san` = standard algebraic
notation written on the independent mailbox rules model (`Spec/Chess.lean`: piece letter, disambiguation by the OTHER
LEGAL moves of the rules, capture mark incl. en passant, promotion, castling, `#` for `Spec.isCheckmate` and `+` for
`Spec.inCheck` of the successor `Spec.apply`); `Abs.abs`, `Abs.absMove` = the abstraction maps; `WF.wf` = "legal
position".  Proof: `Proofs/SanSpec.lean`.

Hypotheses besides "legal position" and "legal move": `b.halfmove < 4095` and `b.fullmove + 1 < 2147483648`.  The check
mark is computed on the position AFTER the move; that position is compared with the rules through `WF.wf`, which bounds
both clocks (12-bit undo field, 31-bit move counter), so there must be room for one more ply.  Every position reachable
in a game under the 75-move rule, and every FEN with clocks below these bounds, satisfies them.  Nothing else is assumed.
-/
namespace Inkayaku.C14Spec
open Inkayaku.Board Inkayaku.San Inkayaku.Abs

/-- **C14 (literal form).**  Legal position with room for one more ply in both clocks, legal move `m`: whatever
`uci_to_pgn` answers for the UCI text of `m` is `Spec.san` of the move — every move class (castling, pawn pushes,
pawn captures incl. en passant, promotions, piece moves with every disambiguation) and every suffix (`+`, `#`, none). -/
theorem san_eq_spec {b : Board} (hwf : WF.wf b = true) (hhm : b.halfmove < 4095) (hfm : b.fullmove + 1 < 2147483648)
    {m : Move} (hm : m ∈ genLegal b) {s : String} (h : (uciToSan b m.uci).1 = .ok s) :
    s = Spec.san (abs b) (absMove m.f) :=
  SanSpec.san_eq_spec hwf hhm hfm hm h

/-- … and it does answer: for every legal move `uci_to_pgn` returns exactly `Spec.san` of the move -/
theorem uciToSan_eq_spec {b : Board} (hwf : WF.wf b = true) (hhm : b.halfmove < 4095)
    (hfm : b.fullmove + 1 < 2147483648) {m : Move} (hm : m ∈ genLegal b) :
    (uciToSan b m.uci).1 = .ok (Spec.san (abs b) (absMove m.f)) := by
  obtain ⟨s, hs⟩ := C14.uciToSan_legal_ok (C14.uciNodup_of_wf hwf) hm
  rw [hs, san_eq_spec hwf hhm hfm hm hs]

/-- the characters of `Spec.san` are the rendering of the shape of `Props/C14.lean` (`shape_piece`, `shape_pawn`,
`shape_castle`), so everything proved there about the shape holds for `Spec.san` -/
theorem spec_san_shape {b : Board} (hwf : WF.wf b = true) (hhm : b.halfmove < 4095) (hfm : b.fullmove + 1 < 2147483648)
    {m : Move} (hm : m ∈ genLegal b) :
    (Spec.san (abs b) (absMove m.f)).toList = Spec.SanGrammar.renderSan (SanProofs.shapeOfMove b m) :=
  SanSpec.san_toList hwf hhm hfm hm

/-- the ingredient about disambiguation, on its own: the squares of `others` in `Spec.san` (other legal moves of the
RULES, same kind and colour of piece, same target) are the model's candidate sources without the mover -/
theorem others_eq_candidates {b : Board} (hwf : WF.wf b = true) {m : Move} (hm : m ∈ genLegal b) (P : Nat → Bool) :
    ((Spec.legalMoves (abs b)).filter fun o =>
        o.tgt == m.f.target && o.src != m.f.source &&
          (abs b).at o.src == some ⟨b.whiteTurn, kindOf m.f.pieceMoved⟩).all (fun o => P o.src) =
      ((SanProofs.candSources b (genPseudo b) m.f).filter (· != m.f.source)).all P :=
  SanSpec.others_all hwf (SanProofs.mem_genPseudo_of_legal hm) P

#print axioms san_eq_spec
#print axioms uciToSan_eq_spec
#print axioms spec_san_shape
#print axioms others_eq_candidates

/-! ## Non-vacuity and sanity: concrete positions, evaluated by the kernel (independently of the theorems) -/

section Examples
set_option maxRecDepth 100000
open Inkayaku.C14 (bd sanOf mv)

/-- the hypotheses of `san_eq_spec` for the legal move with UCI text `u`, the text written, and `Spec.san` evaluated -/
def agreesOn (fen u san : String) : Bool :=
  let b := bd fen
  match (genLegal b).find? (fun m => m.uci == u) with
  | some m =>
    WF.wf b && decide (b.halfmove < 4095) && decide (b.fullmove + 1 < 2147483648) &&
      (match (uciToSan b m.uci).1 with
       | .ok s => s == san
       | .error _ => false) &&
      Spec.san (abs b) (absMove m.f) == san
  | none => false

-- two knights that can both reach d2: file letters (disambiguation by the other LEGAL move of the rules)
example : agreesOn "4k3/8/8/8/8/5N2/8/1N2K3 w - - 0 1" "b1d2" "Nbd2" = true := by decide +kernel
-- two rooks on one file: rank digit; three queens: file and rank
example : agreesOn "4k3/8/8/R7/8/8/8/R3K3 w - - 0 1" "a1a3" "R1a3" = true := by decide +kernel
example : agreesOn "1k6/8/8/8/4Q2Q/8/8/K6Q w - - 0 1" "h4e1" "Qh4e1" = true := by decide +kernel
-- capture-promotion with check
example : agreesOn "3rk3/4P3/8/8/8/8/8/4K3 w - - 0 1" "e7d8q" "exd8=Q+" = true := by decide +kernel
-- en passant, a push, castling with check (both sides), mate and the stalemating move
example : agreesOn "4k3/8/8/3pP3/8/8/8/4K3 w - d6 0 2" "e5d6" "exd6" = true := by decide +kernel
example : agreesOn "4k3/8/8/3pP3/8/8/8/4K3 w - d6 0 2" "e5e6" "e6" = true := by decide +kernel
example : agreesOn "5k2/8/8/8/8/8/8/4K2R w K - 0 1" "e1g1" "O-O+" = true := by decide +kernel
example : agreesOn "3k4/8/8/8/8/8/8/R3K3 w Q - 0 1" "e1c1" "O-O-O+" = true := by decide +kernel
example : agreesOn "7k/8/5K2/8/8/8/6Q1/8 w - - 0 1" "g2g7" "Qg7#" = true := by decide +kernel
example : agreesOn "7k/8/5K2/8/8/8/6Q1/8 w - - 0 1" "g2g6" "Qg6" = true := by decide +kernel

-- Black to move: en passant, capture-promotion towards rank 1 with check, under-promotion, castling
example : let fen := "4k2r/8/8/8/3pP3/8/6p1/4K2R b Kk e3 0 1"
    agreesOn fen "d4e3" "dxe3" = true ∧ agreesOn fen "g2h1q" "gxh1=Q+" = true ∧ agreesOn fen "g2g1n" "g1=N" = true ∧
      agreesOn fen "e8g8" "O-O" = true := by decide +kernel
-- (evaluating the agreement for ALL 25 legal moves of this position also succeeds, in ~50 s of kernel time; it is
-- not part of the build)

-- the theorem instantiated
theorem knights_wf : WF.wf (bd "4k3/8/8/8/8/5N2/8/1N2K3 w - - 0 1") = true := by decide +kernel
example (m : Move) (hm : m ∈ genLegal (bd "4k3/8/8/8/8/5N2/8/1N2K3 w - - 0 1")) :
    (uciToSan (bd "4k3/8/8/8/8/5N2/8/1N2K3 w - - 0 1") m.uci).1 =
      .ok (Spec.san (abs (bd "4k3/8/8/8/8/5N2/8/1N2K3 w - - 0 1")) (absMove m.f)) :=
  uciToSan_eq_spec knights_wf (by decide +kernel) (by decide +kernel) hm

end Examples

end Inkayaku.C14Spec
