import Inkayaku.Proofs.SearchRepRoot
import Inkayaku.Props.C02
/-!
# C10 at the search level: the repetition cut of `search_negamax` on actual games

"A line is valued as a draw by repetition exactly when the position it reaches has then occurred at least three times —
counting the game history supplied with the position command and the line itself, with no capture or pawn move in between —
and that value ignores material (it is the draw score up to the engine's fixed contempt offset)."

`Props/C10.lean` proves this of the counter `count_repetitions` on an abstract history.  This file links it to the search model
(`Search.setPosition`, `Search.negamax`, `Search.goCmd`); helper files `Proofs/SearchRep{Game,Hist,Node,Frame,Go,Horizon,Root}.lean`.

(a) **Games** (`SearchRep.playUci`, `gameBoards`, `IsLine`, `occurrences`): a root board `b0` and UCI strings `u1 … un`, all
    accepted by `San.findUci`, give the positions `b0, …, bn`.  `occurrences L p` = `p` itself plus the positions of `L` with
    `p`'s `C06.HashKey` (placement, side to move, castling rights, e.p. file) among the last `p.halfmove` ones.  It is defined on
    positions; no hash occurs in it.
(b) `history_of_setPosition` – after `position <b0> moves u1 … un` the board is `bn`, history cell `plyClock b0 + i` holds
    `hash bi` (`i ≤ n`), every other cell is `0`, and `plyClock bi = plyClock b0 + i`.  `setPosition_rejected`: a rejected
    string leaves the state alone.
(c) `node_repetition_iff` / `node_repetition` – ANY node below the root (ply ≥ 1), entered with board `c` after the line
    `b0 :: T` (game positions followed by the positions of the current search line) in a state whose history holds that line
    below the node's index: the repetition test is true IFF `3 ≤ occurrences (b0 :: T) c`; the node then returns
    `ValuedMove::leaf(draw_score ± contempt)` (`VM.leaf (repValue ply)`), otherwise it goes on with the table probe.
    `root_child_repetition_iff` / `root_child_repetition` – the instance asked for: the node below a legal root move `m` in the
    state produced by `setPosition` + the preliminaries of `goCmd` + the root node's `enter`.
(c') `search_never_writes_below`, `loop_never_writes_upto`, `node_hyp_inherited` – the history hypothesis of (c) is an INVARIANT
    of the search: `search_negamax` never writes a cell below its node's index, its move loop none up to and including it, so
    the hypotheses of (c) pass from a node to each of its children, whatever siblings were searched before.
(d) `go_threefold` – `go depth 1 searchmoves m` when `m` completes a threefold: score `cp (contempt − draw_score)`, best move
    `m`, PV `[m]`, no ponder move.  `go_no_threefold` – otherwise the score is the depth-1 minimax value
    `specValueOnly 1 bn [m.uci]` (horizon value of the position after `m`: capture resolution or static evaluation).
(d') `go_depth1_game` – the whole `go depth 1` after `position … moves …` (no `searchmoves`): the reported score is the maximum
    over all legal moves of the negated exact child value (`repValue1`), where a child that completes a threefold is worth the
    repetition value and any other child its horizon value; the announced move attains it.
(e) Fifty-move interplay: `repValue_const` (the value is a constant: no material in it), `window_is_reversible_suffix` and
    `irreversible_move_closes_window` (a pawn move or capture resets the clock, `C02.clock_reset_iff`, and no position before
    it is ever counted again).

Explicit hypotheses (`GameHyp` for one move, `SearchRep.RootHyp` for all legal moves; all decidable, evaluated on a concrete shuffle game at the end; none is an axiom):
* the strings are accepted; `b0` is well-formed with clock budget `n + fuelFor 1` (`half-move clock + n + 201 ≤ 4095`);
* no 16-bit wrap of the ply counter (`ply2 b0 + n + 1 < 65536`);
* `m` is a legal move of `bn`; `hash (make bn m) ≠ 0` (zero is the content of unwritten cells);
* no hash collision between `make bn m` and the game positions inside the window (`HashInj` restricted to this finite set).
A FEN root with a positive half-move clock but no supplied history is covered: the window then reaches below the root index,
where the cells are zero, and a non-zero hash is never counted there (`occurrences` simply has fewer than `halfmove` positions
to look at).
-/
namespace Inkayaku.C10Search
open Inkayaku.Board Inkayaku.Eval Inkayaku.WF Inkayaku.BoardCongr Inkayaku.Minimax Inkayaku.SpecSearch Inkayaku.Search
open Inkayaku.SearchSim Inkayaku.History Inkayaku.SearchRep
open Inkayaku.C06 (HashKey)

/-! ## (b) the history after `position … moves …` -/

/-- **(b)** after `position <b0> moves u1 … un` (all accepted): the state differs from the old one in board, history and the
list of played moves only; the board is `bn`; history cell `j` holds `hash bi` if `j = plyClock b0 + i` with `i ≤ n` and `0`
otherwise (`lineCell`); the ply clocks of the game positions are `plyClock b0, plyClock b0 + 1, …`; the game is a line of
legal moves -/
theorem history_of_setPosition (s : St) (b0 : Board) (ucis : List String) (T : List Board)
    (hg : gameBoards b0 ucis = some (b0 :: T)) (hinv : Inv T.length b0) (hnw : ply2 b0 + T.length < 65536) :
    (∃ mv, setPosition s b0 ucis =
      { s with board := lastBoard b0 T, history := (setPosition s b0 ucis).history, playedMoves := mv }) ∧
    (∀ j, (setPosition s b0 ucis).history.getD j 0 = lineCell (plyClock b0) (b0 :: T) j) ∧
    (∀ (i : Nat) (q : Board), (b0 :: T)[i]? = some q → plyClock q = plyClock b0 + i) ∧
    IsLine (b0 :: T) :=
  SearchRep.history_of_setPosition s b0 ucis T hg hinv hnw

/-- the cells spelled out: the hash of the `i`-th game position at `plyClock b0 + i`, zero below the root and above the game -/
theorem history_cells (s : St) (b0 : Board) (ucis : List String) (T : List Board)
    (hg : gameBoards b0 ucis = some (b0 :: T)) (hinv : Inv T.length b0) (hnw : ply2 b0 + T.length < 65536) :
    (∀ (i : Nat) (q : Board), (b0 :: T)[i]? = some q →
      (setPosition s b0 ucis).history.getD (plyClock q) 0 = (Zobrist.hash q).toNat) ∧
    (∀ j, j < plyClock b0 → (setPosition s b0 ucis).history.getD j 0 = 0) ∧
    (∀ j, plyClock b0 + T.length < j → (setPosition s b0 ucis).history.getD j 0 = 0) := by
  obtain ⟨_, hc, hpc, _⟩ := history_of_setPosition s b0 ucis T hg hinv hnw
  refine ⟨?_, ?_, ?_⟩
  · intro i q hq
    rw [hc, hpc i q hq, lineCell, if_pos (by omega), show plyClock b0 + i - plyClock b0 = i from by omega, hq]
  · intro j hj
    rw [hc, lineCell, if_neg (by omega)]
  · intro j hj
    rw [hc, lineCell, if_pos (by omega), List.getElem?_eq_none (by simp only [List.length_cons]; omega)]

/-- a rejected string: the engine keeps its old state -/
theorem setPosition_rejected (s : St) (b0 : Board) (ucis : List String) (hg : gameBoards b0 ucis = none) :
    setPosition s b0 ucis = s :=
  SearchRep.setPosition_rejected s b0 ucis hg

#print axioms history_of_setPosition
#print axioms history_cells
#print axioms setPosition_rejected

/-! ## (c) a node of the search -/

/-- **(c), any node below the root**: the repetition test ⇔ third occurrence -/
theorem node_repetition_iff {b0 : Board} {T : List Board} {s : St} (H : NodeHyp b0 T s) (ply : Nat) (hply : 0 < ply) :
    isRep (enter s (Zobrist.hash s.board)) ply = true ↔ 3 ≤ occurrences (b0 :: T) s.board :=
  isRep_enter_iff H ply hply

/-- **(c), any node below the root**: the value returned -/
theorem node_repetition {b0 : Board} {T : List Board} {s : St} (H : NodeHyp b0 T s) (fuel ply maxPly : Nat) (hply : 0 < ply)
    (alpha0 beta0 : Int) (isPv : Bool) (ph : UInt64) (hto : timedOut s = false) :
    negamax (fuel + 1) s ply maxPly alpha0 beta0 isPv (Zobrist.hash s.board) ph =
      if 3 ≤ occurrences (b0 :: T) s.board then (VM.leaf (repValue ply), enter s (Zobrist.hash s.board))
      else nodeBody fuel s ply maxPly alpha0 beta0 isPv (Zobrist.hash s.board) ph :=
  negamax_repetition H fuel ply maxPly hply alpha0 beta0 isPv ph hto

#print axioms node_repetition_iff
#print axioms node_repetition

/-! ## (c') the history hypothesis is an invariant of the search -/

/-- `search_negamax` leaves every history cell strictly below its node's ply index as it was (clock budget `fuel`, no 16-bit
wrap of the ply counter within `fuel` plies) -/
theorem search_never_writes_below (fuel : Nat) (s : St) (ply maxPly : Nat) (a b : Int) (isPv : Bool) (h ph : UInt64)
    (hinv : Inv fuel s.board) (hnw : ply2 s.board + fuel < 65536) (j : Nat) (hj : j < plyClock s.board) :
    (negamax fuel s ply maxPly a b isPv h ph).2.history.getD j 0 = s.history.getD j 0 :=
  negamax_sameBelow fuel s ply maxPly a b isPv h ph hinv hnw j hj

/-- the move loop of a node with board `b0` leaves every cell up to and including `plyClock b0` as it was -/
theorem loop_never_writes_upto (fuel : Nat) (b0 : Board) (hinv : Inv (fuel + 1) b0) (hnw : ply2 b0 + (fuel + 1) < 65536)
    (moves : List Move) (hmoves : ∀ m ∈ moves, Generated b0 m) (s : St) (ply maxPly : Nat) (beta : Int) (isPv : Bool)
    (pvMove : Option Move) (h ph : UInt64) (rem : Nat) (acc : LoopAcc) (hs : vis s.board = vis b0) (j : Nat)
    (hj : j ≤ plyClock b0) :
    (negamaxLoop fuel s moves ply maxPly beta isPv pvMove h ph rem acc).2.2.history.getD j 0 = s.history.getD j 0 :=
  negamaxLoop_sameBelow fuel b0 hinv hnw moves hmoves s ply maxPly beta isPv pvMove h ph rem acc hs j (by omega)

/-- **the hypotheses of (c) pass from a node to its children**: `s` = the state in which the node `c = s.board` was entered,
`s'` = any state of its move loop (history unchanged up to and including the node's index since the node's `enter`:
`loop_never_writes_upto`), `m` a legal move of `c`; the child entered from `s'` satisfies `NodeHyp` for the line extended by `c`
(given the hash hypotheses for the child's position) -/
theorem node_hyp_inherited {b0 : Board} {T : List Board} {s : St} (H : NodeHyp b0 T s) (s' : St) (m : Move)
    (hinv : Inv (T.length + 2) b0) (hnw : ply2 b0 + (T.length + 2) < 65536)
    (hs : ∀ j, j ≤ plyClock s.board → s'.history.getD j 0 = (enter s (Zobrist.hash s.board)).history.getD j 0)
    (hb : vis s'.board = vis s.board) (hm : m ∈ genLegal s.board)
    (hnz : Zobrist.hash (make s'.board m) ≠ 0)
    (hcoll : ∀ (i : Nat) (b : Board), (b0 :: (T ++ [s.board]))[i]? = some b →
      (T ++ [s.board]).length + 1 - (make s'.board m).halfmove ≤ i →
      Zobrist.hash b = Zobrist.hash (make s'.board m) → HashKey b = HashKey (make s'.board m)) :
    NodeHyp b0 (T ++ [s.board]) { s' with board := make s'.board m } :=
  nodeHyp_step H s' m hinv hnw (fun j hj => hs j (by omega)) hb hm hnz hcoll

#print axioms search_never_writes_below
#print axioms loop_never_writes_upto
#print axioms node_hyp_inherited

/-- the hypotheses on a game `b0, u1 … un` (positions `b0 :: T`) and a move `m` of its last position -/
structure GameHyp (b0 : Board) (ucis : List String) (T : List Board) (m : Move) : Prop where
  game : gameBoards b0 ucis = some (b0 :: T)
  inv : Inv (T.length + fuelFor 1) b0
  nowrap : ply2 b0 + (T.length + 1) < 65536
  legal : m ∈ genLegal (lastBoard b0 T)
  nz : Zobrist.hash (make (lastBoard b0 T) m) ≠ 0
  coll : ∀ (i : Nat) (b : Board), (b0 :: T)[i]? = some b → T.length + 1 - (make (lastBoard b0 T) m).halfmove ≤ i →
    Zobrist.hash b = Zobrist.hash (make (lastBoard b0 T) m) → HashKey b = HashKey (make (lastBoard b0 T) m)

/-- the state in which iteration 1 of a `go` starts after `position <b0> moves …` -/
def prepared (s₀ : St) (b0 : Board) (ucis : List String) (g : GoParams) : St := goPrep (setPosition s₀ b0 ucis) g

/-- the state in which the node below the root move `m` is entered: the root has counted itself and recorded its hash, the move
is made -/
def childState (p : St) (m : Move) : St := { enter p (Zobrist.hash p.board) with board := make p.board m }

theorem GameHyp.last {b0 : Board} {ucis : List String} {T : List Board} {m : Move} (H : GameHyp b0 ucis T m) :
    IsLine (b0 :: T) ∧ Inv (fuelFor 1) (lastBoard b0 T) := by
  obtain ⟨hlen, _⟩ := gameBoards_shape ucis b0 _ H.game
  simp only [List.length_cons] at hlen
  obtain ⟨hl, _, _⟩ := gameBoards_isLine ucis b0 (T.length + fuelFor 1) _ H.inv (by omega) H.game
  obtain ⟨hi, _⟩ := line_facts T b0 (T.length + fuelFor 1) hl H.inv (by omega) T.length _ (getElem?_lastBoard T b0)
  refine ⟨hl, ?_⟩
  have : T.length + fuelFor 1 - T.length = fuelFor 1 := by omega
  rw [this] at hi
  exact hi

/-- the prepared state, field by field -/
theorem prepared_fields {b0 : Board} {ucis : List String} {T : List Board} (hgame : gameBoards b0 ucis = some (b0 :: T))
    (hinv : Inv T.length b0) (hnw : ply2 b0 + T.length < 65536) (s₀ : St) (g : GoParams) :
    ∃ hist mv k pv g', LineHist (plyClock b0) (b0 :: T) hist ∧ g'.searchMoves = g.searchMoves ∧
      prepared s₀ b0 ucis g =
        { s₀ with board := lastBoard b0 T, history := hist, playedMoves := mv, tt := {}, killers := k, pv := pv,
                  negamaxNodes := 0, quiescenceNodes := 0, stop := false, quit := false, resetNext := false, go := g' } := by
  obtain ⟨⟨mv, hs⟩, hc, _, _⟩ := history_of_setPosition s₀ b0 ucis T hgame hinv hnw
  obtain ⟨k, pv, g', hp⟩ := goPrep_eq (setPosition s₀ b0 ucis) g
  have hsm := SearchSim.goPrep_searchMoves (setPosition s₀ b0 ucis) g
  refine ⟨(setPosition s₀ b0 ucis).history, mv, k, pv, g', lineHist_of_cells hc, ?_, ?_⟩
  · rw [hp] at hsm; exact hsm
  · unfold prepared
    rw [hp]
    conv => lhs; rw [hs]

theorem prepared_eq {b0 : Board} {ucis : List String} {T : List Board} {m : Move} (H : GameHyp b0 ucis T m) (s₀ : St)
    (g : GoParams) :
    ∃ hist mv k pv g', LineHist (plyClock b0) (b0 :: T) hist ∧ g'.searchMoves = g.searchMoves ∧
      prepared s₀ b0 ucis g =
        { s₀ with board := lastBoard b0 T, history := hist, playedMoves := mv, tt := {}, killers := k, pv := pv,
                  negamaxNodes := 0, quiescenceNodes := 0, stop := false, quit := false, resetNext := false, go := g' } :=
  prepared_fields H.game (Inv_mono (by omega) H.inv) (by have := H.nowrap; omega) s₀ g

/-- the child state satisfies the hypotheses of the node theorem -/
theorem nodeHyp_child {b0 : Board} {ucis : List String} {T : List Board} {m : Move} (H : GameHyp b0 ucis T m) (s₀ : St)
    (g : GoParams) :
    (childState (prepared s₀ b0 ucis g) m).board = make (lastBoard b0 T) m ∧
    NodeHyp b0 T (childState (prepared s₀ b0 ucis g) m) := by
  obtain ⟨hist, mv, k, pv, g', hh, _, hp⟩ := prepared_eq H s₀ g
  obtain ⟨hl, hlast⟩ := H.last
  have hpb : (prepared s₀ b0 ucis g).board = lastBoard b0 T := by rw [hp]
  have hph : (prepared s₀ b0 ucis g).history = hist := by rw [hp]
  have hcb : (childState (prepared s₀ b0 ucis g) m).board = make (lastBoard b0 T) m := by
    show make (prepared s₀ b0 ucis g).board m = _
    rw [hpb]
  refine ⟨hcb, ?_⟩
  have hch : (childState (prepared s₀ b0 ucis g) m).history =
      (enter (prepared s₀ b0 ucis g) (Zobrist.hash (prepared s₀ b0 ucis g).board)).history := rfl
  apply nodeHyp_of_game hl (Inv_mono (by unfold fuelFor; omega) H.inv) H.nowrap H.legal
  · rw [hcb]
  · rw [hch]
    exact lineHist_enter_root hl (Inv_mono (by omega) H.inv) (by have := H.nowrap; omega) (by rw [hpb]) (by rw [hph]; exact hh)
  · rw [hcb]; exact H.nz
  · rw [hcb]; exact H.coll

/-- the incremental hash handed to the child is the hash of the child's position -/
theorem child_hash {b0 : Board} {ucis : List String} {T : List Board} {m : Move} (H : GameHyp b0 ucis T m) (s₀ : St)
    (g : GoParams) :
    Zobrist.hash (prepared s₀ b0 ucis g).board ^^^ (Zobrist.xorOf m.f).1 =
      Zobrist.hash (childState (prepared s₀ b0 ucis g) m).board := by
  obtain ⟨hcb, _⟩ := nodeHyp_child H s₀ g
  obtain ⟨hist, mv, k, pv, g', _, _, hp⟩ := prepared_eq H s₀ g
  have hpb : (prepared s₀ b0 ucis g).board = lastBoard b0 T := by rw [hp]
  rw [hcb, hpb]
  exact (hash_child H.last.2.wf rfl (List.mem_filter.mp H.legal).1).symm

/-- **(c) the node below a root move, after `position … moves …` and `go`: the repetition test is true IFF the position after
`m` has then occurred at least three times in the game line `b0 … bn, make bn m`** (counting only the positions since the last
capture or pawn move: `occurrences`) -/
theorem root_child_repetition_iff {b0 : Board} {ucis : List String} {T : List Board} {m : Move} (H : GameHyp b0 ucis T m)
    (s₀ : St) (g : GoParams) :
    isRep (enter (childState (prepared s₀ b0 ucis g) m) (Zobrist.hash (childState (prepared s₀ b0 ucis g) m).board)) 1 = true ↔
      3 ≤ occurrences (b0 :: T) (make (lastBoard b0 T) m) := by
  obtain ⟨hcb, hn⟩ := nodeHyp_child H s₀ g
  rw [isRep_enter_iff hn 1 (by omega), hcb]

/-- **(c) the value**: entered at ply 1 with the incremental hash the root computes, not interrupted by a time-out, the node
returns `VM.leaf (draw_score − contempt)` when the threefold is complete and goes on with the table probe otherwise -/
theorem root_child_repetition {b0 : Board} {ucis : List String} {T : List Board} {m : Move} (H : GameHyp b0 ucis T m)
    (s₀ : St) (g : GoParams) (fuel maxPly : Nat) (alpha0 beta0 : Int) (isPv : Bool) (ph : UInt64)
    (hto : timedOut (childState (prepared s₀ b0 ucis g) m) = false) :
    negamax (fuel + 1) (childState (prepared s₀ b0 ucis g) m) 1 maxPly alpha0 beta0 isPv
        (Zobrist.hash (prepared s₀ b0 ucis g).board ^^^ (Zobrist.xorOf m.f).1) ph =
      if 3 ≤ occurrences (b0 :: T) (make (lastBoard b0 T) m) then
        (VM.leaf (Gen.drawScore - Gen.contempt),
          enter (childState (prepared s₀ b0 ucis g) m) (Zobrist.hash (childState (prepared s₀ b0 ucis g) m).board))
      else nodeBody fuel (childState (prepared s₀ b0 ucis g) m) 1 maxPly alpha0 beta0 isPv
        (Zobrist.hash (childState (prepared s₀ b0 ucis g) m).board) ph := by
  obtain ⟨hcb, hn⟩ := nodeHyp_child H s₀ g
  rw [child_hash H s₀ g, negamax_repetition hn fuel 1 maxPly (by omega) alpha0 beta0 isPv ph hto, hcb]
  have : repValue 1 = Gen.drawScore - Gen.contempt := by rw [repValue_eq]; rfl
  rw [this]

#print axioms root_child_repetition_iff
#print axioms root_child_repetition

/-! ## (d) `go depth 1 searchmoves m` -/

theorem repValue_one_bounds : lossScore < -(repValue 1) ∧ -(repValue 1) < Gen.winScore := by decide

theorem score_repValue_one (b : Board) : scoreFromValue (-(repValue 1)) b = .cp (Gen.contempt - Gen.drawScore) := by
  unfold scoreFromValue
  rw [if_neg (by decide)]
  have : -(repValue 1) = Gen.contempt - Gen.drawScore := by decide
  rw [this]

/-- the child state between two polls -/
theorem child_fields {b0 : Board} {ucis : List String} {T : List Board} {m : Move} (H : GameHyp b0 ucis T m) (s₀ : St)
    (g : GoParams) (hpp : 1 < s₀.pollPeriod) :
    pollFlag (childState (prepared s₀ b0 ucis g) m) = false ∧
    (∀ k, (childState (prepared s₀ b0 ucis g) m).tt.get? k = none) ∧
    (childState (prepared s₀ b0 ucis g) m).stop = false ∧ (childState (prepared s₀ b0 ucis g) m).out = s₀.out := by
  obtain ⟨hist, mv, k, pv, g', _, _, hp⟩ := prepared_eq H s₀ g
  have hnn : (prepared s₀ b0 ucis g).negamaxNodes = 0 := by rw [hp]
  have he := enter_of_noFlag (pollFlag_false_of_zero hnn) (Zobrist.hash (prepared s₀ b0 ucis g).board)
  unfold childState
  rw [he]
  refine ⟨?_, ?_, ?_, ?_⟩
  · apply pollFlag_false_of_lt
    · show 0 < (prepared s₀ b0 ucis g).negamaxNodes + 1
      omega
    · show (prepared s₀ b0 ucis g).negamaxNodes + 1 < (prepared s₀ b0 ucis g).pollPeriod
      rw [hnn, hp]; exact hpp
  · intro k'
    show (prepared s₀ b0 ucis g).tt.get? k' = none
    rw [hp]; simp [Std.HashMap.get?_eq_getElem?]
  · show (prepared s₀ b0 ucis g).stop = false
    rw [hp]
  · show (prepared s₀ b0 ucis g).out = s₀.out
    rw [hp]

/-- **(d) the threefold is completed by `m`**: `go depth 1 searchmoves m` reports `score cp (contempt − draw_score)` at depth 1
with PV `[m]`, and answers `bestmove m` without a ponder move.  The value does not depend on the position. -/
theorem go_threefold {b0 : Board} {ucis : List String} {T : List Board} {m : Move} (H : GameHyp b0 ucis T m)
    (s₀ : St) (maxIter : Nat) (hmi : 1 ≤ maxIter) (hpp : 1 < s₀.pollPeriod)
    (h3 : 3 ≤ occurrences (b0 :: T) (make (lastBoard b0 T) m)) :
    ∃ t nodes,
      (goCmd (setPosition s₀ b0 ucis) { depth := some 1, searchMoves := [m.uci] } maxIter).out =
        .bestMove (some m) none ::
        .info (some 1) t nodes (some (.cp (Gen.contempt - Gen.drawScore))) (some [m]) :: s₀.out := by
  obtain ⟨hf, _, hstop, hout⟩ := child_fields H s₀ { depth := some 1, searchMoves := [m.uci] } hpp
  obtain ⟨hist, mv, k, pv, g', _, _, hp⟩ := prepared_eq H s₀ { depth := some 1, searchMoves := [m.uci] }
  have hSb : (setPosition s₀ b0 ucis).board = (prepared s₀ b0 ucis { depth := some 1, searchMoves := [m.uci] }).board :=
    (goPrep_board _ _).symm
  have hpb : (prepared s₀ b0 ucis { depth := some 1, searchMoves := [m.uci] }).board = lastBoard b0 T := by rw [hp]
  have hchild : ∀ isPv, negamax 200 (childState (prepared s₀ b0 ucis { depth := some 1, searchMoves := [m.uci] }) m) 1 1
      (-Gen.winScore) (-lossScore) isPv
      (Zobrist.hash (prepared s₀ b0 ucis { depth := some 1, searchMoves := [m.uci] }).board ^^^ (Zobrist.xorOf m.f).1)
      (Zobrist.pawnHash (prepared s₀ b0 ucis { depth := some 1, searchMoves := [m.uci] }).board ^^^ (Zobrist.xorOf m.f).2) =
      (VM.leaf (repValue 1), enter (childState (prepared s₀ b0 ucis { depth := some 1, searchMoves := [m.uci] }) m)
        (Zobrist.hash (childState (prepared s₀ b0 ucis { depth := some 1, searchMoves := [m.uci] }) m).board)) := by
    intro isPv
    obtain ⟨hcb, hn⟩ := nodeHyp_child H s₀ { depth := some 1, searchMoves := [m.uci] }
    rw [child_hash H s₀ _, negamax_repetition hn 199 1 1 (by omega) _ _ isPv _ (timedOut_of_noFlag hf), hcb, if_pos h3]
  have hst : (enter (childState (prepared s₀ b0 ucis { depth := some 1, searchMoves := [m.uci] }) m)
      (Zobrist.hash (childState (prepared s₀ b0 ucis { depth := some 1, searchMoves := [m.uci] }) m).board)).stop = false ∧
      (enter (childState (prepared s₀ b0 ucis { depth := some 1, searchMoves := [m.uci] }) m)
      (Zobrist.hash (childState (prepared s₀ b0 ucis { depth := some 1, searchMoves := [m.uci] }) m).board)).out = s₀.out := by
    rw [enter_of_noFlag hf]
    exact ⟨hstop, hout⟩
  have hb := repValue_one_bounds
  obtain ⟨t, nodes, hgo⟩ := go_single (setPosition s₀ b0 ucis) m maxIter
    (VM.leaf (repValue 1), enter (childState (prepared s₀ b0 ucis { depth := some 1, searchMoves := [m.uci] }) m)
      (Zobrist.hash (childState (prepared s₀ b0 ucis { depth := some 1, searchMoves := [m.uci] }) m).board)) hmi
    (by rw [hSb, hpb]; exact H.last.2) (by rw [hSb, hpb]; exact H.legal)
    (by rw [hSb]; exact hchild) hst.1 hb.1 hb.2
  refine ⟨t, nodes, ?_⟩
  rw [hgo]
  simp only [VM_leaf_value]
  rw [score_repValue_one, hst.2]
  rfl

/-- **(d) no threefold**: the reported score is the depth-1 minimax value under `searchmoves m`, i.e. the negated horizon value
(capture resolution or static evaluation — material and piece-square terms) of the position after `m` -/
theorem go_no_threefold {b0 : Board} {ucis : List String} {T : List Board} {m : Move} (H : GameHyp b0 ucis T m)
    (s₀ : St) (maxIter : Nat) (hmi : 1 ≤ maxIter) (hpp : 1 < s₀.pollPeriod) (hmat : material (lastBoard b0 T) ≤ 64)
    (h3 : ¬ 3 ≤ occurrences (b0 :: T) (make (lastBoard b0 T) m)) :
    ∃ t nodes pv',
      (goCmd (setPosition s₀ b0 ucis) { depth := some 1, searchMoves := [m.uci] } maxIter).out =
        .bestMove (some m) (pv'[0]?) ::
        .info (some 1) t nodes (some (scoreFromValue (specValueOnly 1 (lastBoard b0 T) [m.uci]) (lastBoard b0 T)))
          (some (m :: pv')) :: s₀.out := by
  obtain ⟨hf, htt, hstop, hout⟩ := child_fields H s₀ { depth := some 1, searchMoves := [m.uci] } hpp
  obtain ⟨hist, mv, k, pv, g', _, _, hp⟩ := prepared_eq H s₀ { depth := some 1, searchMoves := [m.uci] }
  have hSb : (setPosition s₀ b0 ucis).board = (prepared s₀ b0 ucis { depth := some 1, searchMoves := [m.uci] }).board :=
    (goPrep_board _ _).symm
  have hpb : (prepared s₀ b0 ucis { depth := some 1, searchMoves := [m.uci] }).board = lastBoard b0 T := by rw [hp]
  obtain ⟨hcb, hn⟩ := nodeHyp_child H s₀ { depth := some 1, searchMoves := [m.uci] }
  obtain ⟨hl, hlast⟩ := H.last
  obtain ⟨hg, hv⟩ := List.mem_filter.mp H.legal
  -- the position after `m`
  have hcinv : Inv 200 (make (lastBoard b0 T) m) := boardLaws.make_inv 200 _ m hlast (Or.inl hg) hv
  have hcply : ply2 (make (lastBoard b0 T) m) < 65536 := by
    obtain ⟨_, hp2⟩ := line_facts T b0 (T.length + fuelFor 1) hl H.inv (by omega) T.length _ (getElem?_lastBoard T b0)
    rw [ply2_make hlast.wf, hp2]
    have := H.nowrap
    omega
  have hcfm : (make (lastBoard b0 T) m).fullmove < 1000000 := by
    have := ((MakeWf.wf_iff _).mp hcinv.wf).fm1
    unfold ply2 at hcply
    omega
  have hcq : QDepth quiescenceFuel (make (lastBoard b0 T) m) :=
    qdepth_of_material quiescenceFuel _ (Inv_mono (by unfold quiescenceFuel; omega) hcinv)
      (Nat.le_trans (material_make_le hlast.wf (Or.inl hg)) hmat)
  have hchild : ∀ isPv, negamax 200 (childState (prepared s₀ b0 ucis { depth := some 1, searchMoves := [m.uci] }) m) 1 1
      (-Gen.winScore) (-lossScore) isPv
      (Zobrist.hash (prepared s₀ b0 ucis { depth := some 1, searchMoves := [m.uci] }).board ^^^ (Zobrist.xorOf m.f).1)
      (Zobrist.pawnHash (prepared s₀ b0 ucis { depth := some 1, searchMoves := [m.uci] }).board ^^^ (Zobrist.xorOf m.f).2) =
      nodeBody 199 (childState (prepared s₀ b0 ucis { depth := some 1, searchMoves := [m.uci] }) m) 1 1
        (-Gen.winScore) (-lossScore) true
        (Zobrist.hash (childState (prepared s₀ b0 ucis { depth := some 1, searchMoves := [m.uci] }) m).board)
        (Zobrist.pawnHash (prepared s₀ b0 ucis { depth := some 1, searchMoves := [m.uci] }).board ^^^ (Zobrist.xorOf m.f).2) := by
    intro isPv
    rw [child_hash H s₀ _, negamax_repetition hn 199 1 1 (by omega) _ _ isPv _ (timedOut_of_noFlag hf), hcb, if_neg h3,
      nodeBody_horizon 199 _ 1 (by omega) _ _ isPv _ _ hf htt, nodeBody_horizon 199 _ 1 (by omega) _ _ true _ _ hf htt]
  obtain ⟨hval, b', qn, hst⟩ := child_horizon (childState (prepared s₀ b0 ucis { depth := some 1, searchMoves := [m.uci] }) m)
    (by rw [hcb]; exact Inv_mono (by omega) hcinv) (by rw [hcb]; exact hcfm) (by rw [hcb]; exact hcq) true
    (Zobrist.hash (childState (prepared s₀ b0 ucis { depth := some 1, searchMoves := [m.uci] }) m).board)
    (Zobrist.pawnHash (prepared s₀ b0 ucis { depth := some 1, searchMoves := [m.uci] }).board ^^^ (Zobrist.xorOf m.f).2) hf htt
  have hval := hval.trans (show mm game 0 ((childState (prepared s₀ b0 ucis { depth := some 1, searchMoves := [m.uci] }) m).board, [])
    = mm game 0 (make (lastBoard b0 T) m, []) by rw [hcb])
  obtain ⟨lo, hi⟩ := horizon_bounds hcinv.wf hcfm
  have hw := winScore_val
  have hlv := lossScore_val
  have hst' : (nodeBody 199 (childState (prepared s₀ b0 ucis { depth := some 1, searchMoves := [m.uci] }) m) 1 1
        (-Gen.winScore) (-lossScore) true
        (Zobrist.hash (childState (prepared s₀ b0 ucis { depth := some 1, searchMoves := [m.uci] }) m).board)
        (Zobrist.pawnHash (prepared s₀ b0 ucis { depth := some 1, searchMoves := [m.uci] }).board ^^^ (Zobrist.xorOf m.f).2)).2.stop
        = false ∧
      (nodeBody 199 (childState (prepared s₀ b0 ucis { depth := some 1, searchMoves := [m.uci] }) m) 1 1
        (-Gen.winScore) (-lossScore) true
        (Zobrist.hash (childState (prepared s₀ b0 ucis { depth := some 1, searchMoves := [m.uci] }) m).board)
        (Zobrist.pawnHash (prepared s₀ b0 ucis { depth := some 1, searchMoves := [m.uci] }).board ^^^ (Zobrist.xorOf m.f).2)).2.out
        = s₀.out := by
    rw [hst, enter_of_noFlag hf]
    exact ⟨hstop, hout⟩
  obtain ⟨t, nodes, hgo⟩ := go_single (setPosition s₀ b0 ucis) m maxIter
    (nodeBody 199 (childState (prepared s₀ b0 ucis { depth := some 1, searchMoves := [m.uci] }) m) 1 1
        (-Gen.winScore) (-lossScore) true
        (Zobrist.hash (childState (prepared s₀ b0 ucis { depth := some 1, searchMoves := [m.uci] }) m).board)
        (Zobrist.pawnHash (prepared s₀ b0 ucis { depth := some 1, searchMoves := [m.uci] }).board ^^^ (Zobrist.xorOf m.f).2)) hmi
    (by rw [hSb, hpb]; exact hlast) (by rw [hSb, hpb]; exact H.legal)
    (by rw [hSb]; exact hchild) hst'.1 (by rw [hval]; omega) (by rw [hval]; omega)
  rw [hval, hst'.2, hSb, hpb, ← specValueOnly_single hlast.wf H.legal (by omega)] at hgo
  exact ⟨t, nodes, _, hgo⟩

#print axioms go_threefold
#print axioms go_no_threefold

/-! ## (d') the whole `go depth 1` after `position … moves …` -/

/-- **`go depth 1` on a game** (no `searchmoves`): the reported score is `repValue1` = the maximum over ALL legal moves `m` of
the negated exact value of the node below `m`, where that value is the repetition value `draw_score − contempt` if `m` completes
a threefold in the game line and the horizon value (capture resolution / static evaluation) otherwise; the announced move attains
it and heads the PV.  Hypotheses: `RootHyp` (the hash hypotheses for every legal move, `material ≤ 64`), a legal move exists,
the pseudo-legal moves fit between two flag polls. -/
theorem go_depth1_game {b0 : Board} {ucis : List String} {T : List Board} (H : RootHyp b0 T)
    (hgame : gameBoards b0 ucis = some (b0 :: T)) (s₀ : St) (maxIter : Nat) (hmi : 1 ≤ maxIter)
    (hlegal : genLegal (lastBoard b0 T) ≠ []) (hpoll : (genPseudo (lastBoard b0 T)).length < s₀.pollPeriod) :
    ∃ t nodes m pv,
      (goCmd (setPosition s₀ b0 ucis) { depth := some 1 } maxIter).out =
        .bestMove (some m) (pv[1]?) ::
        .info (some 1) t nodes (some (scoreFromValue (repValue1 (b0 :: T) (lastBoard b0 T)) (lastBoard b0 T))) (some pv) ::
        s₀.out ∧
      m ∈ genLegal (lastBoard b0 T) ∧
      - childExact (b0 :: T) (lastBoard b0 T) m = repValue1 (b0 :: T) (lastBoard b0 T) ∧ pv[0]? = some m := by
  obtain ⟨hist, mv, k, pv, g', hh, hsm, hp⟩ := prepared_fields hgame (Inv_mono (by omega) H.inv)
    (by have := H.nowrap; omega) s₀ { depth := some 1 }
  have hp' : goPrep (setPosition s₀ b0 ucis) { depth := some 1 } = prepared s₀ b0 ucis { depth := some 1 } := rfl
  obtain ⟨v1, ⟨m, v2, v3, v4⟩, v5, v6⟩ := rootSearch_game H (prepared s₀ b0 ucis { depth := some 1 })
    (by rw [hp]) (by rw [hp]; exact hh) (by rw [hp]) (by intro k'; rw [hp]; simp [Std.HashMap.get?_eq_getElem?])
    (by rw [hp]) (by rw [hp]; exact hsm) hlegal (by rw [hp]; exact hpoll)
  have hna : iterAborted (rootSearch (goPrep (setPosition s₀ b0 ucis) { depth := some 1 }) 1) = false := by
    unfold iterAborted
    rw [hp', v5, v2]; rfl
  have hout := goCmd_depth1 (setPosition s₀ b0 ucis) { depth := some 1 } maxIter (goIters_depth1 [] _ hmi) hna
  simp only at hout
  have hvis : vis (rootSearch (goPrep (setPosition s₀ b0 ucis) { depth := some 1 }) 1).2.board = vis (lastBoard b0 T) := by
    rw [rootSearch_board boardLaws _ 1 (by rw [hp', hp]; exact H.last.1), hp', hp]
  obtain ⟨rest, hpv⟩ := VM.pv_of_mv v2
  rw [hp'] at hout hvis
  rw [scoreFromValue_congr hvis, v1, v2, v6] at hout
  have hout0 : (prepared s₀ b0 ucis { depth := some 1 }).out = s₀.out := by rw [hp]
  rw [hout0] at hout
  exact ⟨_, _, m, _, hout, v3, v4, by rw [hpv]; rfl⟩

#print axioms go_depth1_game

/-! ## (e) the fifty-move interplay -/

/-- **the repetition value ignores material**: it is a constant of the ply parity — `draw_score + contempt` at even plies,
`draw_score − contempt` at odd plies — whatever the board -/
theorem repValue_const (ply : Nat) :
    repValue ply = if ply % 2 = 0 then Gen.drawScore + Gen.contempt else Gen.drawScore - Gen.contempt :=
  repValue_eq ply

/-- a step of a line resets the half-move clock exactly when the move is a pawn move or a capture (`C02.clock_reset_iff`) -/
theorem step_reset_iff {p q : Board} (hwf : wf p = true) {mv : Move} (hm : mv ∈ genPseudo p) (hv : vis q = vis (make p mv)) :
    q.halfmove = 0 ↔ (mv.f.pieceMoved = PAWN ∨ Spec.isCapture (Abs.abs p) (Abs.absMove mv.f) = true) := by
  rw [halfmove_congr hv]
  exact (C02.clock_reset_iff hwf hm).2.2

/-- **a repetition window never extends across an irreversible move**: if the position at index `i + 1` of the line was reached
by a pawn move or capture (its clock is zero), no position at an index `≤ i` is inside the window of a later position `c`, so
it is never counted in `occurrences … c` -/
theorem irreversible_move_closes_window (b0 : Board) (T : List Board) (c : Board) (hl : IsLine (b0 :: (T ++ [c])))
    (i : Nat) (q : Board) (hq : (b0 :: (T ++ [c]))[i + 1]? = some q) (h0 : q.halfmove = 0) (hi : i + 1 ≤ T.length + 1) :
    i + 1 ≤ T.length + 1 - c.halfmove :=
  window_stops_at_reset _ hl i (T.length + 1) q c hq h0 hi (getElem?_snoc_last b0 T c)

/-- conversely the window covers the whole reversible suffix: if none of the positions at the indices `i + 1, …` up to `c` was
reached by a clock-resetting move, the position at index `i` is inside the window of `c` -/
theorem window_is_reversible_suffix (b0 : Board) (T : List Board) (c : Board) (hl : IsLine (b0 :: (T ++ [c])))
    (i : Nat) (hi : i ≤ T.length + 1)
    (hno : ∀ (j : Nat) (q : Board), i < j → j ≤ T.length + 1 → (b0 :: (T ++ [c]))[j]? = some q → q.halfmove ≠ 0) :
    T.length + 1 - c.halfmove ≤ i :=
  window_reversible _ hl i (T.length + 1) c hi (getElem?_snoc_last b0 T c) hno

#print axioms repValue_const
#print axioms step_reset_iff
#print axioms irreversible_move_closes_window
#print axioms window_is_reversible_suffix

/-! ## non-vacuity: a king-and-queen shuffle

`7k/8/8/8/8/8/8/KQ6 w - - 0 1`, `Qb1-b3 Kh8-g7 Qb3-b1 Kg7-h8` played once and then `Qb1-b3 Kh8-g7 Qb3-b1`; the reply `Kg7-h8`
reaches the root position for the third time, `Kg7-f7` (or any other move) does not.  `gameHypB` is the executable conjunction of
`GameHyp` (`gameHyp_of_check`: soundness); it is evaluated IN THE KERNEL for the shuffle, and the theorems are instantiated.
The search itself (`Std.HashMap`) is run by the compiler (`#guard`): the conclusions agree with `goCmd`. -/
namespace Example

def collB (L : List Board) (c : Board) : Bool :=
  (List.range L.length).all fun i =>
    match L[i]? with
    | some b => decide (L.length - c.halfmove ≤ i → Zobrist.hash b = Zobrist.hash c → HashKey b = HashKey c)
    | none => true

theorem coll_of_collB {L : List Board} {c : Board} (h : collB L c = true) (i : Nat) (b : Board) (hb : L[i]? = some b) :
    L.length - c.halfmove ≤ i → Zobrist.hash b = Zobrist.hash c → HashKey b = HashKey c := by
  have hi := lt_of_getElem? hb
  have := List.all_eq_true.mp h i (List.mem_range.mpr hi)
  rw [hb] at this
  exact of_decide_eq_true this

/-- all hypotheses of `GameHyp`, executable -/
def gameHypB (b0 : Board) (ucis : List String) (T : List Board) (m : Move) : Bool :=
  decide (gameBoards b0 ucis = some (b0 :: T)) && wf b0 &&
  decide (b0.halfmove + (T.length + fuelFor 1) ≤ 4095) && decide (b0.fullmove + (T.length + fuelFor 1) < 2147483648) &&
  decide (ply2 b0 + (T.length + 1) < 65536) && decide (m ∈ genLegal (lastBoard b0 T)) &&
  decide (Zobrist.hash (make (lastBoard b0 T) m) ≠ 0) && collB (b0 :: T) (make (lastBoard b0 T) m)

theorem gameHyp_of_check {b0 : Board} {ucis : List String} {T : List Board} {m : Move} (h : gameHypB b0 ucis T m = true) :
    GameHyp b0 ucis T m := by
  unfold gameHypB at h
  simp only [Bool.and_eq_true, decide_eq_true_eq] at h
  obtain ⟨⟨⟨⟨⟨⟨⟨h1, h2⟩, h3⟩, h4⟩, h5⟩, h6⟩, h7⟩, h8⟩ := h
  exact ⟨h1, ⟨h2, h3, h4⟩, h5, h6, h7, coll_of_collB h8⟩

def boardOf (fen : String) : Board :=
  match FenBoard.fromFenString fen with
  | .ok b => b
  | .error _ => FenBoard.startBoard

def kq : Board := boardOf "7k/8/8/8/8/8/8/KQ6 w - - 0 1"
def shuffle : List String := ["b1b3", "h8g7", "b3b1", "g7h8", "b1b3", "h8g7", "b3b1"]
/-- the positions after the root -/
def tailOf (b0 : Board) (ucis : List String) : List Board := ((gameBoards b0 ucis).getD []).tail
def moveOf (b : Board) (u : String) : Move := ((genLegal b).find? (fun m => m.uci == u)).getD default

def kqT : List Board := tailOf kq shuffle
def kqLast : Board := lastBoard kq kqT
def back : Move := moveOf kqLast "g7h8"
def aside : Move := moveOf kqLast "g7f7"

theorem kq_back : GameHyp kq shuffle kqT back := gameHyp_of_check (by decide +kernel)
theorem kq_aside : GameHyp kq shuffle kqT aside := gameHyp_of_check (by decide +kernel)

theorem kq_back_third : occurrences (kq :: kqT) (make kqLast back) = 3 := by decide +kernel
theorem kq_aside_first : occurrences (kq :: kqT) (make kqLast aside) = 1 := by decide +kernel

/-- the repetition test of the node below `Kg7-h8` fires, the one below `Kg7-f7` does not -/
example (s₀ : St) (g : GoParams) :
    isRep (enter (childState (prepared s₀ kq shuffle g) back) (Zobrist.hash (childState (prepared s₀ kq shuffle g) back).board)) 1
      = true :=
  (root_child_repetition_iff kq_back s₀ g).mpr (by rw [show lastBoard kq kqT = kqLast from rfl, kq_back_third]; decide)

example (s₀ : St) (g : GoParams) :
    ¬ isRep (enter (childState (prepared s₀ kq shuffle g) aside) (Zobrist.hash (childState (prepared s₀ kq shuffle g) aside).board)) 1
      = true :=
  fun h => absurd ((root_child_repetition_iff kq_aside s₀ g).mp h)
    (by rw [show lastBoard kq kqT = kqLast from rfl, kq_aside_first]; decide)

/-- `go depth 1 searchmoves g7h8` after the shuffle: `score cp 50`, `bestmove g7h8` -/
example : ∃ t nodes,
    (goCmd (setPosition initial kq shuffle) { depth := some 1, searchMoves := [back.uci] } 64).out =
      [.bestMove (some back) none, .info (some 1) t nodes (some (.cp (Gen.contempt - Gen.drawScore))) (some [back])] := by
  obtain ⟨t, nodes, h⟩ := go_threefold kq_back initial 64 (by decide) (by decide)
    (by rw [show lastBoard kq kqT = kqLast from rfl, kq_back_third]; decide)
  exact ⟨t, nodes, h⟩

/-- `go depth 1 searchmoves g7f7`: the minimax value -/
example : ∃ t nodes pv',
    (goCmd (setPosition initial kq shuffle) { depth := some 1, searchMoves := [aside.uci] } 64).out =
      [.bestMove (some aside) (pv'[0]?),
       .info (some 1) t nodes (some (scoreFromValue (specValueOnly 1 kqLast [aside.uci]) kqLast)) (some (aside :: pv'))] := by
  obtain ⟨t, nodes, pv', h⟩ := go_no_threefold kq_aside initial 64 (by decide) (by decide) (by decide +kernel)
    (by rw [show lastBoard kq kqT = kqLast from rfl, kq_aside_first]; decide)
  exact ⟨t, nodes, pv', h⟩

/-- all hypotheses of `go_depth1_game`, executable -/
def rootHypB (b0 : Board) (ucis : List String) (T : List Board) : Bool :=
  decide (gameBoards b0 ucis = some (b0 :: T)) && wf b0 &&
  decide (b0.halfmove + (T.length + fuelFor 1) ≤ 4095) && decide (b0.fullmove + (T.length + fuelFor 1) < 2147483648) &&
  decide (ply2 b0 + (T.length + 1) < 65536) &&
  (genLegal (lastBoard b0 T)).all (fun m =>
    decide (Zobrist.hash (make (lastBoard b0 T) m) ≠ 0) && collB (b0 :: T) (make (lastBoard b0 T) m)) &&
  decide (material (lastBoard b0 T) ≤ 64)

theorem rootHyp_of_check {b0 : Board} {ucis : List String} {T : List Board} (h : rootHypB b0 ucis T = true) :
    RootHyp b0 T ∧ gameBoards b0 ucis = some (b0 :: T) := by
  unfold rootHypB at h
  simp only [Bool.and_eq_true, decide_eq_true_eq, List.all_eq_true] at h
  obtain ⟨⟨⟨⟨⟨⟨h1, h2⟩, h3⟩, h4⟩, h5⟩, h6⟩, h7⟩ := h
  obtain ⟨hlen, _⟩ := gameBoards_shape ucis b0 _ h1
  simp only [List.length_cons] at hlen
  obtain ⟨hl, _, _⟩ := gameBoards_isLine ucis b0 (T.length + fuelFor 1) _ ⟨h2, h3, h4⟩ (by omega) h1
  exact ⟨⟨hl, ⟨h2, h3, h4⟩, h5, fun m hm => (h6 m hm).1, fun m hm => coll_of_collB (h6 m hm).2, h7⟩, h1⟩

theorem kq_root : RootHyp kq kqT ∧ gameBoards kq shuffle = some (kq :: kqT) := rootHyp_of_check (by decide +kernel)

/-- `go depth 1` after the shuffle: the score is `repValue1`, attained by the announced move -/
example : ∃ t nodes m pv,
    (goCmd (setPosition initial kq shuffle) { depth := some 1 } 64).out =
      [.bestMove (some m) (pv[1]?),
       .info (some 1) t nodes (some (scoreFromValue (repValue1 (kq :: kqT) kqLast) kqLast)) (some pv)] ∧
    m ∈ genLegal kqLast ∧ - childExact (kq :: kqT) kqLast m = repValue1 (kq :: kqT) kqLast ∧ pv[0]? = some m :=
  go_depth1_game kq_root.1 kq_root.2 initial 64 (by decide) (by decide +kernel) (by decide +kernel)

/-! the same by running the model -/

def lastInfo (outs : List Out) : Option (Nat × Score) :=
  outs.findSome? fun | .info (some d) _ _ (some sc) _ => some (d, sc) | _ => none

def announced (outs : List Out) : Option Move :=
  outs.findSome? fun | .bestMove b _ => b | _ => none

/-- hypotheses hold, and the score reported by `goCmd` is the one the theorems predict -/
def agrees (b0 : Board) (ucis : List String) (u : String) : Bool :=
  let T := tailOf b0 ucis
  let bn := lastBoard b0 T
  let m := moveOf bn u
  let s := goCmd (setPosition initial b0 ucis) { depth := some 1, searchMoves := [m.uci] }
  gameHypB b0 ucis T m && decide (material bn ≤ 64) && announced s.out == some m &&
  lastInfo s.out == some (1,
    if 3 ≤ occurrences (b0 :: T) (make bn m) then .cp (Gen.contempt - Gen.drawScore)
    else scoreFromValue (specValueOnly 1 bn [m.uci]) bn)

/-- hypotheses of `go_depth1_game` hold and `go depth 1` reports `repValue1` and a move attaining it -/
def agreesRoot (b0 : Board) (ucis : List String) : Bool :=
  let T := tailOf b0 ucis
  let bn := lastBoard b0 T
  let s := goCmd (setPosition initial b0 ucis) { depth := some 1 }
  rootHypB b0 ucis T && !(genLegal bn).isEmpty &&
  lastInfo s.out == some (1, scoreFromValue (repValue1 (b0 :: T) bn) bn) &&
  (match announced s.out with
   | some m => decide (m ∈ genLegal bn) && (- childExact (b0 :: T) bn m == repValue1 (b0 :: T) bn)
   | none => false)

#guard back.uci == "g7h8" && aside.uci == "g7f7"
-- the whole `go depth 1`: Black, a queen down, takes the repetition (`cp 50`)
#guard agreesRoot kq shuffle && repValue1 (kq :: kqT) kqLast == 50 &&
  announced (goCmd (setPosition initial kq shuffle) { depth := some 1 }).out == some back
-- White to move one ply earlier prefers the material to the repetition that `Qb3-b1` … would allow later
#guard agreesRoot kq (shuffle.take 6) && agreesRoot kq (shuffle.take 4) && agreesRoot kq []
#guard agreesRoot (boardOf "7k/1p6/8/8/8/8/8/KQ6 w - - 7 1") ["b1b7", "h8g8", "b7b1", "g8h8", "b1b7", "h8g8", "b7b1"]
#guard agrees kq shuffle "g7h8" && occurrences (kq :: kqT) (make kqLast back) == 3
#guard agrees kq shuffle "g7f7" && agrees kq shuffle "g7f6" && agrees kq shuffle "g7h6" && agrees kq shuffle "g7g8"
-- an illegal move (`Kg7-g6` walks into the queen's diagonal) violates the hypothesis `legal`
#guard !agrees kq shuffle "g7g6"
-- the history after `position`: hashes of the eight positions at ply clocks 0 … 7, zeros elsewhere
#guard (List.range 20).all fun j =>
  (setPosition initial kq shuffle).history.getD j 0 == lineCell (plyClock kq) (kq :: kqT) j
-- one repetition fewer: after five plies `Kh8-g7` reaches a position for the second time only
#guard agrees kq (shuffle.take 5) "h8g7" && occurrences (kq :: tailOf kq (shuffle.take 5)) (make (lastBoard kq (tailOf kq (shuffle.take 5))) (moveOf (lastBoard kq (tailOf kq (shuffle.take 5))) "h8g7")) == 2
-- a FEN root with a positive half-move clock and a late move number, no earlier history: the window (clock 20 + 8) reaches
-- below the root index 58, where the cells are zero
#guard agrees (boardOf "7k/8/8/8/8/8/8/KQ6 w - - 20 30") shuffle "g7h8" &&
  occurrences (boardOf "7k/8/8/8/8/8/8/KQ6 w - - 20 30" :: tailOf (boardOf "7k/8/8/8/8/8/8/KQ6 w - - 20 30") shuffle)
    (make (lastBoard (boardOf "7k/8/8/8/8/8/8/KQ6 w - - 20 30") (tailOf (boardOf "7k/8/8/8/8/8/8/KQ6 w - - 20 30") shuffle))
      (moveOf (lastBoard (boardOf "7k/8/8/8/8/8/8/KQ6 w - - 20 30") (tailOf (boardOf "7k/8/8/8/8/8/8/KQ6 w - - 20 30") shuffle)) "g7h8")) == 3
-- a capture in the line: `Qb1xb7` resets the clock, the window of later positions starts there
#guard agrees (boardOf "7k/1p6/8/8/8/8/8/KQ6 w - - 7 1") ["b1b7", "h8g8", "b7b1", "g8h8", "b1b7", "h8g8", "b7b1"] "g8h8"

end Example

/-
TARGET (not proved here): the end-to-end value of `go depth d` with a game history for `d ≥ 2`.

  theorem go_depth_d_game : … (goCmd (setPosition s₀ b0 ucis) { depth := some d }).out reports the minimax value of the game whose
    nodes below the root are worth `repValue ply` when `3 ≤ occurrences (game line ++ search line) position` …

What IS proved for every depth: the repetition test of every node is exactly the third-occurrence test (`node_repetition_iff`,
`node_repetition`), and its history hypothesis is an invariant of the search (`search_never_writes_below`,
`loop_never_writes_upto`, `node_hyp_inherited`).  What is missing for `d ≥ 2` is the transposition table: an entry stored at a
node whose subtree contained a repetition cut-off depends on the line that led to the node, so the table invariant `TTOK` of
`Props/C08Sim.lean` ("entries tell the truth about the minimax value of their position") has to be replaced by a
line-dependent one; for `d = 2` no two lines of one iteration reach the same interior position, so the statement should hold
with the depth-1 proof pattern (`Proofs/SearchRepRoot.lean`) applied at ply 1; for `d ≥ 3` transpositions at ply 2 make the
engine's value genuinely path dependent (graph-history interaction), and a theorem would have to say so.
-/

end Inkayaku.C10Search
