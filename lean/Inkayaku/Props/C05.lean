import Inkayaku.Proofs.Check
import Inkayaku.Model.FenBoard
/-!
# C05 — check detection, position validity, checkmate versus stalemate

Property text: *For every legal position and either colour, the board reports that colour as in check exactly when
its king is attacked by an enemy piece under the rules of chess, and reports a position as valid exactly when the
side that just moved did not leave its own king attacked.  Consequently a position has no legal moves exactly when
it is checkmate (in check) or stalemate (not in check), and the two are never confused.*

Objects: `Board.squareInCheck` = `_is_square_in_check`, `Board.inCheck` = `_is_in_check_by_bits`, `Board.isValid`,
`Board.isCurrentInCheck`, `Board.occupancyInCheck` (model of board/src/board.rs), `Spec.attacked` / `Spec.inCheck` /
`Spec.isCheckmate` / `Spec.isStalemate` (the rules, `Spec/Chess.lean`), `Abs.abs` (bitboard ↦ mailbox position),
`WF.wf` ("legal position").  Proofs: `Proofs/Bits`, `Proofs/RayWalk`, `Proofs/Geometry`, `Proofs/Attack`,
`Proofs/Check`; they rest on C04 (magic lookups = ray walks, for all 2^64 occupancies) and on kernel-evaluated
64 × 64 checks of the ray lists and of the CURRENT leaper tables against the Spec's file/rank arithmetic.

Everything below is fully proved; nothing is left as a TARGET.  Scope notes:
* `no_moves_iff` is relative to `hlegal` (the model's legal move list is empty iff the Spec's is): relating
  `genLegal` to `Spec.legalMoves` is property C01, not C05.
* `valid` / `move_legal` assume the structural part of well-formedness (`Check.Struct`: disjoint words, one king per
  side) of the position being tested; that `make` preserves it is part of C01/C02.
-/
namespace Inkayaku.C05
open Inkayaku.Board

/-- `_is_square_in_check(c, enemy side of c, s, all pieces)` = "square `s` is attacked by a piece of the colour
opposite to `c` under the rules" – all piece kinds, all directions, any number of attackers.
`c` is the colour of the would-be king (0 = white; the code treats every other value as black);
`Attack.sideOf b (c != 0)` is the enemy side (`b.black` for `c = 0`, else `b.white`);
`Spec.attacked p byWhite s` has `byWhite = (c != 0)`, i.e. the attackers are black for `c = 0`. -/
theorem square_attacked (b : Board) (hd : Attack.Disjoint b) (c s : Nat) (hs : s < 64) :
    squareInCheck c (Attack.sideOf b (c != 0)) s (b.white.full ||| b.black.full) =
      Spec.attacked (Abs.abs b) (c != 0) s :=
  Attack.squareInCheck_iff b hd c s hs

/-- `Attack.Disjoint` is the first conjunct of `WF.wf` -/
theorem disjoint_of_wf (b : Board) (h : WF.wf b = true) : Attack.Disjoint b := (Check.struct_of_wf h).1.disjoint

/-- for every legal position and either colour: reported in check ⇔ the king is attacked by an enemy piece -/
theorem in_check (b : Board) (h : WF.wf b = true) (c : Nat) (hc : c ≤ 1) :
    inCheck b c = Spec.inCheck (Abs.abs b) (c == 0) :=
  Check.inCheck_iff b h c hc

theorem current_in_check (b : Board) (h : WF.wf b = true) :
    isCurrentInCheck b = Spec.inCheck (Abs.abs b) (Abs.abs b).whiteToMove :=
  Check.isCurrentInCheck_iff b (Check.struct_of_wf h).1

/-- reported valid ⇔ the side that just moved (the side NOT to move) did not leave its own king attacked.
The hypothesis is the structural part of `WF.wf` only (it must not contain `isValid b` itself). -/
theorem valid (b : Board) (hs : Check.Struct b) (ht : b.turn ≤ 1) :
    isValid b = !Spec.inCheck (Abs.abs b) (!(Abs.abs b).whiteToMove) :=
  Check.isValid_iff b hs ht

/-- `is_move_legal` = make; is_valid: the move did not leave the mover's king attacked in the resulting position -/
theorem move_legal (b : Board) (m : Move) (hs : Check.Struct (make b m)) (ht : (make b m).turn ≤ 1) :
    isMoveLegal b m = !Spec.inCheck (Abs.abs (make b m)) (!(Abs.abs (make b m)).whiteToMove) :=
  Check.isValid_iff (make b m) hs ht

/-- in a legal position the side that just moved is not in check under the rules -/
theorem wf_not_in_check (b : Board) (h : WF.wf b = true) :
    Spec.inCheck (Abs.abs b) (!(Abs.abs b).whiteToMove) = false := by
  have hv : isValid b = true := by
    simp only [WF.wf, Bool.and_eq_true] at h
    exact h.1.1.1.1.1.1.1.1.2
  have := valid b (Check.struct_of_wf h).1 (Check.struct_of_wf h).2
  rw [hv] at this
  cases hh : Spec.inCheck (Abs.abs b) (!(Abs.abs b).whiteToMove)
  · rfl
  · rw [hh] at this; cases this

/-- castling path test `_is_occupancy_in_check` = some square of the set is attacked by the enemy of `c` -/
theorem occupancy_in_check (b : Board) (hd : Attack.Disjoint b) (c : Nat) (squares : UInt64) :
    occupancyInCheck c (Attack.sideOf b (c != 0)) (b.white.full ||| b.black.full) squares =
      (bitsAsc squares).any fun s => Spec.attacked (Abs.abs b) (c != 0) s :=
  Check.occupancyInCheck_iff b hd c squares

/-- **no legal moves ⇔ checkmate or stalemate, never confused.**
`(genLegal b).isEmpty && isCurrentInCheck b` is the classification used by the evaluator and the SAN suffix.
RELATIVE to `hlegal` (that the model's legal-move list is empty iff the Spec's is — property C01). -/
theorem no_moves_iff (b : Board) (h : WF.wf b = true)
    (hlegal : (genLegal b).isEmpty = (Spec.legalMoves (Abs.abs b)).isEmpty) :
    ((genLegal b).isEmpty && isCurrentInCheck b) = Spec.isCheckmate (Abs.abs b) ∧
    ((genLegal b).isEmpty && !isCurrentInCheck b) = Spec.isStalemate (Abs.abs b) ∧
    (genLegal b = [] ↔ (Spec.isCheckmate (Abs.abs b) = true ∨ Spec.isStalemate (Abs.abs b) = true)) ∧
    ¬ (Spec.isCheckmate (Abs.abs b) = true ∧ Spec.isStalemate (Abs.abs b) = true) := by
  have hc := current_in_check b h
  unfold Spec.isCheckmate Spec.isStalemate
  rw [← hlegal, ← hc]
  refine ⟨rfl, rfl, ?_, ?_⟩
  · rw [← List.isEmpty_iff]
    cases (genLegal b).isEmpty <;> cases isCurrentInCheck b <;> simp
  · cases (genLegal b).isEmpty <;> cases isCurrentInCheck b <;> simp

#print axioms square_attacked
#print axioms in_check
#print axioms current_in_check
#print axioms valid
#print axioms move_legal
#print axioms wf_not_in_check
#print axioms occupancy_in_check
#print axioms no_moves_iff

/-! ## Non-vacuity and sanity: concrete positions, both sides evaluated independently by the kernel -/

def bd (s : String) : Board :=
  match FenBoard.fromFenString s with
  | .ok b => b
  | .error _ => default

/-- legal position, the model says `chk` for the side to move, so does the Spec -/
def agree (fen : String) (chk : Bool) : Bool :=
  WF.wf (bd fen) && (isCurrentInCheck (bd fen) == chk)
    && (Spec.inCheck (Abs.abs (bd fen)) (Abs.abs (bd fen)).whiteToMove == chk)

-- double check on the white king (rook e8 and knight d3)
example : agree "4r2k/8/8/8/8/3n4/8/4K3 w - - 0 1" true = true := by decide +kernel
-- double check on the black king (bishop b5 and queen e2)
example : agree "4k3/8/8/1B6/8/8/4Q3/4K3 b - - 0 1" true = true := by decide +kernel
-- pawn check on the white king (black pawn d2) and on the black king (white pawn d7)
example : agree "7k/8/8/8/8/8/3p4/4K3 w - - 0 1" true = true := by decide +kernel
example : agree "4k3/3P4/8/8/8/8/8/4K3 b - - 0 1" true = true := by decide +kernel
-- a pawn straight ahead, a pawn attacking away from the king, or pawns beside the king give no check
example : agree "4k3/4P3/8/8/8/8/8/4K3 b - - 0 1" false = true := by decide +kernel
example : agree "8/3k4/4p3/8/8/8/8/4K3 b - - 0 1" false = true := by decide +kernel
example : agree "7k/8/8/8/8/8/3pKp2/8 w - - 0 1" false = true := by decide +kernel
-- a blocked slider gives no check, the unblocked one does
example : agree "4r2k/8/8/8/4N3/8/8/4K3 w - - 0 1" false = true := by decide +kernel
example : agree "4r2k/8/8/8/3N4/8/8/4K3 w - - 0 1" true = true := by decide +kernel
-- start position
example : agree "rnbqkbnr/pppppppp/8/8/8/8/PPPPPPPP/RNBQKBNR w KQkq - 0 1" false = true := by decide +kernel

-- hypotheses of `square_attacked` / `in_check` hold for a non-trivial board, and both colours are exercised
example : Attack.Disjoint (bd "r3k2r/pp1n1ppp/2p1pn2/q2p1b2/1b1P1B2/2N1PN2/PPPQBPPP/R3K2R w KQkq - 0 1") := by
  decide +kernel
example : let b := bd "4r2k/8/8/8/8/3n4/8/4K3 w - - 0 1"
    WF.wf b = true ∧ inCheck b 0 = true ∧ inCheck b 1 = false ∧
      Spec.inCheck (Abs.abs b) true = true ∧ Spec.inCheck (Abs.abs b) false = false := by decide +kernel

-- `valid`: a structurally sound position in which the side that just moved (white) is still in check: not valid
example : let b := bd "4r2k/8/8/8/8/8/8/4K3 b - - 0 1"
    Attack.Disjoint b ∧ WF.popcount b.white.kings = 1 ∧ WF.popcount b.black.kings = 1 ∧ b.turn ≤ 1 ∧
      isValid b = false ∧ Spec.inCheck (Abs.abs b) (!(Abs.abs b).whiteToMove) = true := by decide +kernel

-- `no_moves_iff`: `hlegal` and `wf` hold in a checkmate (fool's mate), a stalemate, and the start position
example : let b := bd "rnb1kbnr/pppp1ppp/8/4p3/6Pq/5P2/PPPPP2P/RNBQKBNR w KQkq - 1 3"
    WF.wf b = true ∧ (genLegal b).isEmpty = (Spec.legalMoves (Abs.abs b)).isEmpty ∧
      genLegal b = [] ∧ isCurrentInCheck b = true ∧ Spec.isCheckmate (Abs.abs b) = true ∧
      Spec.isStalemate (Abs.abs b) = false := by decide +kernel
example : let b := bd "7k/5Q2/6K1/8/8/8/8/8 b - - 0 1"
    WF.wf b = true ∧ (genLegal b).isEmpty = (Spec.legalMoves (Abs.abs b)).isEmpty ∧
      genLegal b = [] ∧ isCurrentInCheck b = false ∧ Spec.isStalemate (Abs.abs b) = true ∧
      Spec.isCheckmate (Abs.abs b) = false := by decide +kernel
example : let b := bd "rnbqkbnr/pppppppp/8/8/8/8/PPPPPPPP/RNBQKBNR w KQkq - 0 1"
    WF.wf b = true ∧ (genLegal b).isEmpty = (Spec.legalMoves (Abs.abs b)).isEmpty ∧
      (genLegal b).length = 20 ∧ Spec.isCheckmate (Abs.abs b) = false ∧ Spec.isStalemate (Abs.abs b) = false := by
  decide +kernel

end Inkayaku.C05
