import Inkayaku.Props.C04.All
import Inkayaku.Gen.Leapers
/-!
# C04 — precomputed attack tables equal ray/step attacks for every square and occupancy

`Gen.*` is regenerated from the current /repo build on every run, so these theorems are re-checked against the
tables, magics, masks, shifts and hash masks the code has *now*.

* `rook_correct`, `bishop_correct`: for every square `< 64` and EVERY natural number `occ` (hence all 2^64 occupancies)
  the raw table index is inside the table (the Rust indexes with `get_unchecked`) and the entry found is the set of
  squares reached by sliding along the rays up to and including the first blocker (`Rays.slide`).
  Proof: per square, a kernel computation (`decide +kernel`) over all sub-occupancies of the relevant mask
  (102 400 rook + 5 248 bishop configurations) lifted to all occupancies by `MagicLift.magic_lift`.
* `leapers_correct`: the king, knight and pawn tables equal the step patterns clipped at the board edge and have
  exactly 64 entries (the lookups index them unchecked with a square `< 64`).
-/
namespace Inkayaku.C04
open Inkayaku.Rays Inkayaku.Magic Inkayaku.Gen

theorem rook_correct (sq : Nat) (h : sq < 64) (occ : Nat) :
    magicIndex (rookCfg sq) occ < (rookCfg sq).len ∧ lookup (rookCfg sq) occ = slide rookDirs sq occ :=
  rook_all sq h occ

theorem bishop_correct (sq : Nat) (h : sq < 64) (occ : Nat) :
    magicIndex (bishopCfg sq) occ < (bishopCfg sq).len ∧ lookup (bishopCfg sq) occ = slide bishopDirs sq occ :=
  bishop_all sq h occ

/-- the same for the machine representation: a `u64` occupancy -/
theorem rook_correct_u64 (sq : Nat) (h : sq < 64) (occ : UInt64) :
    magicIndex (rookCfg sq) occ.toNat < (rookCfg sq).len ∧
      lookup (rookCfg sq) occ.toNat = slide rookDirs sq occ.toNat := rook_all sq h occ.toNat

theorem bishop_correct_u64 (sq : Nat) (h : sq < 64) (occ : UInt64) :
    magicIndex (bishopCfg sq) occ.toNat < (bishopCfg sq).len ∧
      lookup (bishopCfg sq) occ.toNat = slide bishopDirs sq occ.toNat := bishop_all sq h occ.toNat

theorem leapers_correct :
    kingTable = (List.range 64).map (stepAttacks kingSteps) ∧
    knightTable = (List.range 64).map (stepAttacks knightSteps) ∧
    whitePawnTable = (List.range 64).map (stepAttacks whitePawnSteps) ∧
    blackPawnTable = (List.range 64).map (stepAttacks blackPawnSteps) := by
  refine ⟨?_, ?_, ?_, ?_⟩ <;> decide +kernel

theorem leapers_length :
    kingTable.length = 64 ∧ knightTable.length = 64 ∧ whitePawnTable.length = 64 ∧ blackPawnTable.length = 64 := by
  decide

/-- every table entry is a 64-bit value and the attack sets are subsets of the board (no stray bits) -/
theorem slide_lt (dirs : List Dir) (sq occ : Nat) (c : MagicCfg) (h : lookup c occ = slide dirs sq occ) :
    slide dirs sq occ < 2 ^ 64 := by
  rw [← h]
  unfold lookup entry M64
  exact Nat.lt_of_le_of_lt Nat.and_le_right (by decide)

-- non-vacuity: a concrete blocked position (rook d4 = 35 with blockers on d6 = 19 and f4 = 37)
example : lookup (rookCfg 35) ((1 <<< 19) ||| (1 <<< 37) ||| (1 <<< 63)) =
    (1 <<< 27) ||| (1 <<< 19) ||| (1 <<< 36) ||| (1 <<< 37) ||| (1 <<< 43) ||| (1 <<< 51) ||| (1 <<< 59)
      ||| (1 <<< 34) ||| (1 <<< 33) ||| (1 <<< 32) := by decide +kernel

#print axioms rook_correct
#print axioms bishop_correct
#print axioms rook_correct_u64
#print axioms bishop_correct_u64
#print axioms leapers_correct
#print axioms leapers_length

end Inkayaku.C04
