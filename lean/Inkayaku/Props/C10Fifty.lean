import Inkayaku.Model.Eval
/-!
# C10 (second half) — the fifty-move rule in the evaluator

`Gen.maxHalfMoves` is re-read from the current build on every run.
-/
namespace Inkayaku.C10
open Inkayaku.Board Inkayaku.Eval Inkayaku.Gen

/-- the threshold of the current build is 100 plies -/
theorem max_half_moves : maxHalfMoves = 100 := by decide

/-- a non-terminal position is never valued as a fifty-move draw before 100 plies without capture or pawn move:
below the threshold the evaluation is the ordinary static evaluation -/
theorem fifty_only_after_100 (b : Board) (h : b.halfmove < 100) :
    evaluate b true = evaluateOngoing b := by
  unfold evaluate
  have : ¬ (b.halfmove ≥ maxHalfMoves) := by rw [max_half_moves]; omega
  simp [this]

/-- from 100 plies on a non-terminal position is valued as a draw -/
theorem fifty_draw_from_100 (b : Board) (h : 100 ≤ b.halfmove) : evaluate b true = drawScore := by
  unfold evaluate
  have : b.halfmove ≥ maxHalfMoves := by rw [max_half_moves]; omega
  simp [this]

/-- a terminal position (no legal move) is never valued by the fifty-move rule: mate stays mate -/
theorem terminal_ignores_clock (b : Board) (hm : Nat) :
    evaluate { b with halfmove := hm } false = evaluate b false := by
  unfold evaluate isCurrentInCheck inCheck
  simp

example : evaluate { (default : Board) with halfmove := 99 } true = evaluateOngoing { (default : Board) with halfmove := 99 } :=
  fifty_only_after_100 _ (by decide)

#print axioms max_half_moves
#print axioms fifty_only_after_100
#print axioms fifty_draw_from_100
#print axioms terminal_ignores_clock

end Inkayaku.C10
