import Inkayaku.Props.C19
import Inkayaku.Model.Uci
/-!
# C19 (clause "each of which the UCI move parser accepts")

"… the space separated move string decodes to the move list, in order, each of which the UCI move parser accepts."

`C19.moves_split_uci` shows that a list of UCI-shaped tokens survives the wire format (`from_space_sv`).  This file adds
that every UCI-shaped token is accepted by the model of `inkayaku_uci::UciMove::from_str` (`Uci.UciMove.parse`), and
that the parsed move prints back (`Display`) to the very same token — so the move the bot plays on its board is the
move Lichess sent.

`C19.isUciShape` is `[a-h][1-8][a-h][1-8]` plus an optional promotion letter out of **`q r b n`** (what Lichess
sends).  The parser accepts more (`k`, `p`, upper-case letters, and it ignores everything after the fifth character);
the statement below is about the tokens of the documented shape only, it needed no adaptation.
-/
namespace Inkayaku.Props.C19Moves
open Inkayaku.Props.C19 Inkayaku.Lichess
open Inkayaku.Uci (UciMove Piece squareFromChars squareFen)

theorem char_of_toNat {c : Char} {n : Nat} (h : c.toNat = n) : c = Char.ofNat n := by
  rw [← h, Char.ofNat_toNat]

theorem file_mem {c : Char} (h : isFile c = true) : c ∈ "abcdefgh".toList := by
  simp only [isFile, Bool.and_eq_true, decide_eq_true_eq] at h
  have : c.toNat = 97 ∨ c.toNat = 98 ∨ c.toNat = 99 ∨ c.toNat = 100 ∨ c.toNat = 101 ∨ c.toNat = 102 ∨
      c.toNat = 103 ∨ c.toNat = 104 := by omega
  rcases this with e | e | e | e | e | e | e | e <;> (rw [char_of_toNat e]; decide)

theorem rank_mem {c : Char} (h : isRank c = true) : c ∈ "12345678".toList := by
  simp only [isRank, Bool.and_eq_true, decide_eq_true_eq] at h
  have : c.toNat = 49 ∨ c.toNat = 50 ∨ c.toNat = 51 ∨ c.toNat = 52 ∨ c.toNat = 53 ∨ c.toNat = 54 ∨
      c.toNat = 55 ∨ c.toNat = 56 := by omega
  rcases this with e | e | e | e | e | e | e | e <;> (rw [char_of_toNat e]; decide)

theorem promo_mem {c : Char} (h : isPromo c = true) : c ∈ "qrbn".toList := by
  simp only [isPromo, Bool.or_eq_true, beq_iff_eq] at h
  rcases h with ((e | e) | e) | e <;> (rw [char_of_toNat e]; decide)

/-- all 64 squares: `Square::from_chars` reads the two characters and `Square.fen` prints them back -/
theorem square_table : ∀ a ∈ "abcdefgh".toList, ∀ b ∈ "12345678".toList,
    (match squareFromChars a b with
     | some s => decide (s < 64 ∧ squareFen s = [a, b])
     | none => false) = true := by decide

theorem square_ok {a b : Char} (ha : isFile a = true) (hb : isRank b = true) :
    ∃ s, s < 64 ∧ squareFromChars a b = some s ∧ squareFen s = [a, b] := by
  have := square_table a (file_mem ha) b (rank_mem hb)
  cases h : squareFromChars a b with
  | none => rw [h] at this; simp at this
  | some s =>
    rw [h] at this
    simp only [decide_eq_true_eq] at this
    exact ⟨s, this.1, rfl, this.2⟩

theorem promo_table : ∀ p ∈ "qrbn".toList,
    (match Piece.fromChar p with
     | some pc => decide (pc.fen = p)
     | none => false) = true := by decide

theorem promo_ok {p : Char} (hp : isPromo p = true) : ∃ pc, Piece.fromChar p = some pc ∧ pc.fen = p := by
  have := promo_table p (promo_mem hp)
  cases h : Piece.fromChar p with
  | none => rw [h] at this; simp at this
  | some pc =>
    rw [h] at this
    simp only [decide_eq_true_eq] at this
    exact ⟨pc, rfl, this⟩

/-- **every token of UCI shape is accepted by the UCI move parser**, denotes two squares of the board, and is the
text of the move it parses to -/
theorem uci_shape_parses (t : List Char) (h : isUciShape t = true) :
    ∃ m, UciMove.parse t = .ok m ∧ UciMove.render m = t ∧ m.source < 64 ∧ m.target < 64 := by
  unfold isUciShape at h
  split at h
  · rename_i a b c d
    simp only [Bool.and_eq_true] at h
    obtain ⟨s, hs, e1, f1⟩ := square_ok h.1.1.1 h.1.1.2
    obtain ⟨u, hu, e2, f2⟩ := square_ok h.1.2 h.2
    refine ⟨⟨s, u, none⟩, ?_, ?_, hs, hu⟩
    · simp [UciMove.parse, e1, e2]
    · simp [UciMove.render, f1, f2]
  · rename_i a b c d p
    simp only [Bool.and_eq_true] at h
    obtain ⟨s, hs, e1, f1⟩ := square_ok h.1.1.1.1 h.1.1.1.2
    obtain ⟨u, hu, e2, f2⟩ := square_ok h.1.1.2 h.1.2
    obtain ⟨pc, e3, f3⟩ := promo_ok h.2
    refine ⟨⟨s, u, some pc⟩, ?_, ?_, hs, hu⟩
    · simp [UciMove.parse, e1, e2, e3]
    · simp [UciMove.render, f1, f2, f3]
  · simp at h

#print axioms uci_shape_parses

/-- the parser is a function: the move is unique -/
theorem uci_shape_parses_unique (t : List Char) (h : isUciShape t = true) :
    ∃ m, UciMove.parse t = .ok m ∧ ∀ m', UciMove.parse t = .ok m' → m' = m := by
  obtain ⟨m, hm, -⟩ := uci_shape_parses t h
  exact ⟨m, hm, fun m' h' => by rw [hm] at h'; injection h' with h'; exact h'.symm⟩

/-- **C19, moves**: for a move list of UCI shape (any length, promotions included), decoding the joined string
(`from_space_sv`) yields exactly that list, in order, and every element of the decoded list is accepted by the UCI
move parser and is the text of the parsed move -/
theorem moves_decode_and_parse (ms : List (List Char)) (h : ms.all isUciShape = true) :
    spaceSv (joinWith ' ' ms) = ms ∧
    ∀ t ∈ spaceSv (joinWith ' ' ms),
      ∃ m, UciMove.parse t = .ok m ∧ UciMove.render m = t ∧ m.source < 64 ∧ m.target < 64 := by
  have hs := moves_split_uci ms h
  refine ⟨hs, ?_⟩
  rw [hs]
  intro t ht
  exact uci_shape_parses t (List.all_eq_true.mp h t ht)

/-- the same as one equation: parsing the decoded tokens one by one succeeds everywhere and gives a list of moves whose
texts are the original tokens -/
theorem moves_decode_parse_all (ms : List (List Char)) (h : ms.all isUciShape = true) :
    ∃ mvs : List UciMove, (spaceSv (joinWith ' ' ms)).map UciMove.parse = mvs.map Except.ok ∧
      mvs.map UciMove.render = ms ∧ mvs.length = ms.length := by
  rw [moves_split_uci ms h]
  induction ms with
  | nil => exact ⟨[], rfl, rfl, rfl⟩
  | cons t ts ih =>
    simp only [List.all_cons, Bool.and_eq_true] at h
    obtain ⟨m, hm, hr, -⟩ := uci_shape_parses t h.1
    obtain ⟨mvs, h1, h2, h3⟩ := ih h.2
    exact ⟨m :: mvs, by simp [hm, h1], by simp [hr, h2], by simp [h3]⟩

#print axioms moves_decode_and_parse
#print axioms moves_decode_parse_all

/-! ## non-vacuity -/

example : ["e2e4".toList, "e7e5".toList, "e1g1".toList, "a7a8q".toList, "h2h1n".toList].all isUciShape = true := by decide
example : joinWith ' ' ["e2e4".toList, "e7e5".toList, "e1g1".toList, "a7a8q".toList] = "e2e4 e7e5 e1g1 a7a8q".toList := by
  decide
/-- the theorem on a concrete wire string: castling (`e1g1`) and a promotion included -/
example : spaceSv "e2e4 e7e5 e1g1 a7a8q".toList = ["e2e4".toList, "e7e5".toList, "e1g1".toList, "a7a8q".toList] ∧
    ∀ t ∈ spaceSv "e2e4 e7e5 e1g1 a7a8q".toList,
      ∃ m, UciMove.parse t = .ok m ∧ UciMove.render m = t ∧ m.source < 64 ∧ m.target < 64 :=
  moves_decode_and_parse ["e2e4".toList, "e7e5".toList, "e1g1".toList, "a7a8q".toList] (by decide)
example : UciMove.parse "a7a8q".toList = .ok ⟨8, 0, some .queen⟩ ∧ UciMove.render ⟨8, 0, some .queen⟩ = "a7a8q".toList :=
  ⟨rfl, by decide⟩
/-- shapes outside `isUciShape` that the parser nevertheless accepts (so the converse is false) -/
example : isUciShape "a7a8k".toList = false ∧ UciMove.parse "a7a8k".toList = .ok ⟨8, 0, some .king⟩ := ⟨by decide, rfl⟩
example : isUciShape "e2e4xyz".toList = false ∧ UciMove.parse "e2e4xyz".toList = .error () := ⟨by decide, rfl⟩
example : isUciShape "e2e4qxyz".toList = false ∧ UciMove.parse "e2e4qxyz".toList = .ok ⟨52, 36, some .queen⟩ :=
  ⟨by decide, rfl⟩
/-- the empty token of the double-space quirk is not a move -/
example : isUciShape [] = false ∧ UciMove.parse [] = .error () := ⟨by decide, rfl⟩

end Inkayaku.Props.C19Moves
